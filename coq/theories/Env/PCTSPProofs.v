(* PCTSP / SPCTSP: independent specification and the theorems for C01 (mask soundness), C02 (no dead end, done
   stable, step bound, no crash), C03 (reward = objective), C04 (padding inert), C05 (mask completeness) and
   C06 (checker).  All in exact arithmetic ([exact]). *)
From Coq Require Import ZArith List Bool Lia ZifyBool Arith Permutation.
From RL4CO Require Import Base.Num Base.EnvSig Base.SortNat Spec.Routes Env.PCTSP.
Import ListNotations.
Open Scope Z_scope.

Notation E := (PCTSP exact).

(* ---------------------------------------------------------------- specification (problem definition) *)
(* Prize-collecting TSP (Balas 1989; Kool et al. 2019 for the normalisation "required prize = 1"): one closed tour
   from the depot visiting each customer at most once; the prize really collected -- for the stochastic variant the
   prize REVEALED at the visit, i.e. the stochastic one -- must reach the requirement unless every customer is
   visited; cost = tour length + penalties of the customers left out. *)
Definition collected (i : pctsp_inst) (acts : list nat) : Z := sumZ (map (prize i) (customers acts)).

(* the constraints on the set/sequence of visited customers *)
Definition pctsp_valid (i : pctsp_inst) (acts : list nat) : Prop :=
  NoDup (customers acts) /\
  (forall a, In a acts -> (a <= pn_of i)%nat) /\
  (preq i <= collected i acts \/ forall j, (1 <= j <= pn_of i)%nat -> In j acts).

(* shape of a finished episode: customers, then the return to the depot (and possibly padding depot steps) *)
Definition single_tour (acts : list nat) : Prop :=
  exists cs k, acts = cs ++ repeat 0%nat (S k) /\ Forall (fun x => x <> 0%nat) cs.

Definition pctsp_feasible (i : pctsp_inst) (acts : list nat) : Prop := single_tour acts /\ pctsp_valid i acts.

Definition unvisited (i : pctsp_inst) (acts : list nat) : list nat :=
  filter (fun j => negb (existsb (Nat.eqb j) acts)) (seq 1 (pn_of i)).
Definition pctsp_cost (i : pctsp_inst) (acts : list nat) : Z :=
  total_len (pdfun i) acts + sumZ (map (penalty i) (unvisited i acts)).
Definition pctsp_objective (i : pctsp_inst) (acts : list nat) : Z := - pctsp_cost i acts.

(* documented input format: one prize of each kind and one penalty per customer, at least one customer;
   the two constants of the code are positive *)
Definition pctsp_wfb (i : pctsp_inst) : bool :=
  Nat.eqb (length (dprize i)) (pn_of i) && Nat.eqb (length (sprize i)) (pn_of i) && Nat.ltb 0 (pn_of i) && (0 <? preq i).
Definition pctsp_wf (i : pctsp_inst) : Prop :=
  length (dprize i) = pn_of i /\ length (sprize i) = pn_of i /\ (0 < pn_of i)%nat /\ 0 < preq i.
Lemma pctsp_wfb_ok i : pctsp_wfb i = true <-> pctsp_wf i.
Proof.
  unfold pctsp_wfb, pctsp_wf. rewrite !andb_true_iff, !Nat.eqb_eq, Nat.ltb_lt. lia.
Qed.

(* ---------------------------------------------------------------- executable twins of the specification *)
(* [slack] relaxes the prize requirement (0 = the specification itself) *)
Definition pctsp_validb (i : pctsp_inst) (slack : Z) (acts : list nat) : bool :=
  forallb (fun j => Nat.leb (occ j acts) 1) (seq 1 (pn_of i)) &&
  forallb (fun a => Nat.leb a (pn_of i)) acts &&
  ((preq i - slack <=? collected i acts) || forallb (fun j => existsb (Nat.eqb j) acts) (seq 1 (pn_of i))).
Fixpoint single_tourb (acts : list nat) : bool :=
  match acts with
  | [] => false
  | a :: r => if Nat.eqb a 0 then forallb (Nat.eqb 0) r else single_tourb r
  end.
Definition pctsp_feasibleb (i : pctsp_inst) (slack : Z) (acts : list nat) : bool :=
  single_tourb acts && pctsp_validb i slack acts.

(* ---------------------------------------------------------------- list facts *)
Lemma countb_le (l : list bool) : (countb l <= length l)%nat.
Proof. unfold countb. induction l as [|b l IH]; simpl; [lia|]. destruct b; simpl; lia. Qed.

Lemma countb_lt_allb (l : list bool) : Nat.ltb (countb l) (length l) = negb (allb l).
Proof.
  unfold countb, allb. induction l as [|b l IH]; [reflexivity|]. pose proof (countb_le l) as Hle. unfold countb in Hle.
  destruct b; cbn [filter forallb length andb].
  - rewrite <- IH. destruct (Nat.ltb (length (filter (fun b => b) l)) (length l)) eqn:E.
    + apply Nat.ltb_lt in E. apply Nat.ltb_lt. lia.
    + apply Nat.ltb_ge in E. apply Nat.ltb_ge. lia.
  - apply Nat.ltb_lt. lia.
Qed.

Lemma nth_tl {A} (l : list A) j d : nth j (tl l) d = nth (S j) l d.
Proof. destruct l; [destruct j; reflexivity | reflexivity]. Qed.

Lemma customers_app a b : customers (a ++ b) = customers a ++ customers b.
Proof. unfold customers. apply filter_app. Qed.
Lemma customers_zeros k : customers (repeat 0%nat k) = [].
Proof. induction k; [reflexivity | exact IHk]. Qed.
Lemma customers_nz cs : Forall (fun x => x <> 0%nat) cs -> customers cs = cs.
Proof.
  induction 1 as [|x l Hx _ IH]; [reflexivity|]. unfold customers in *. cbn [filter].
  apply Nat.eqb_neq in Hx. rewrite Hx. cbn [negb]. rewrite IH. reflexivity.
Qed.
Lemma customers_tour cs k : Forall (fun x => x <> 0%nat) cs -> customers (cs ++ repeat 0%nat k) = cs.
Proof. intros H. rewrite customers_app, customers_zeros, app_nil_r. apply customers_nz; exact H. Qed.
Lemma in_customers a acts : In a (customers acts) <-> In a acts /\ a <> 0%nat.
Proof. unfold customers. rewrite filter_In, negb_true_iff, Nat.eqb_neq. tauto. Qed.

Lemma repeat_snoc {A} (x : A) k : repeat x k ++ [x] = repeat x (S k).
Proof. induction k as [|k IH]; [reflexivity|]. cbn [repeat app]. rewrite IH. reflexivity. Qed.

Lemma NoDup_app_intro_snoc {A} (l : list A) a : NoDup l -> ~ In a l -> NoDup (l ++ [a]).
Proof.
  induction l as [|x l IH]; intros Hnd Hn; cbn [app]; [constructor; [intros [] | constructor]|].
  inversion Hnd as [|? ? Hx Hnd']; subst. constructor.
  - intros Hc. apply in_app_iff in Hc as [Hc|[Hc|[]]]; [tauto | subst; apply Hn; left; reflexivity].
  - apply IH; [exact Hnd' | intros Hc; apply Hn; right; exact Hc].
Qed.

Lemma prize_0 i : prize i 0 = 0.
Proof. reflexivity. Qed.
Lemma penalty_0 i : penalty i 0 = 0.
Proof. reflexivity. Qed.

Lemma sumZ_map_customers (f : nat -> Z) acts : f 0%nat = 0 -> sumZ (map f acts) = sumZ (map f (customers acts)).
Proof.
  intros H0. induction acts as [|a r IH]; [reflexivity|]. unfold customers in *. cbn [map sumZ filter].
  destruct (Nat.eqb a 0) eqn:E; cbn [negb].
  - apply Nat.eqb_eq in E. subst a. rewrite H0, IH. lia.
  - cbn [map sumZ]. rewrite IH. reflexivity.
Qed.

Lemma offered_pdepot i s : offered (E:=E) i s 0 = negb (pmask_depot i s).
Proof. reflexivity. Qed.

Lemma offered_ploc i s a : (1 <= a)%nat ->
  offered (E:=E) i s a = (Nat.leb a (pn_of i) && negb (pmask_loc i s a))%bool.
Proof.
  intros Ha. unfold offered. cbn [mask PCTSP]; unfold pctsp_mask. destruct a as [|a]; [lia|]. cbn [nth].
  unfold plocs. destruct (Nat.leb (S a) (pn_of i)) eqn:El.
  - apply Nat.leb_le in El. rewrite nth_map_seq by lia. reflexivity.
  - apply Nat.leb_gt in El. rewrite nth_overflow by (rewrite map_length, seq_length; lia). reflexivity.
Qed.

(* ---------------------------------------------------------------- the invariant *)
(* state s reached after the prefix cs ++ repeat 0 k: customers cs (distinct), then k depot steps *)
Record Inv (i : pctsp_inst) (cs : list nat) (k : nat) (s : pctsp_st) : Prop := {
  iv_len : length (pvis s) = S (pn_of i);
  iv_nd : NoDup cs;
  iv_rng : forall a, In a cs -> (1 <= a <= pn_of i)%nat;
  iv_vis : forall j, (1 <= j <= pn_of i)%nat -> nth j (pvis s) false = true <-> In j cs;
  iv_vis0 : nth 0 (pvis s) false = true <-> (0 < k)%nat;
  iv_tp : tprize s = sumZ (map (prize i) cs);
  iv_step : pstep s = (length cs + k)%nat;
  iv_dn : pdn s = Nat.ltb 0 k;
  iv_k : (0 < k)%nat -> cs <> [] /\ (preq i <= tprize s \/ forall j, (1 <= j <= pn_of i)%nat -> In j cs);
}.

Lemma reset_inv i : Inv i [] 0 (pctsp_reset i).
Proof.
  constructor; cbn [pctsp_reset pvis tprize pstep pdn map sumZ length]; try reflexivity; try lia.
  - rewrite repeat_length. reflexivity.
  - constructor.
  - intros a [].
  - intros j Hj. rewrite nth_repeat. split; [discriminate | intros []].
  - change (nth 0 (repeat false (S (pn_of i))) false) with false. split; [discriminate | lia].
Qed.

Lemma all_visited_allb i cs k s : Inv i cs k s ->
  allb (tl (pvis s)) = true <-> (forall j, (1 <= j <= pn_of i)%nat -> In j cs).
Proof.
  intros HI. rewrite allb_forall. split.
  - intros H j Hj. apply (iv_vis _ _ _ _ HI j Hj). destruct j as [|j]; [lia|]. rewrite <- nth_tl. apply H.
    pose proof (iv_len _ _ _ _ HI). destruct (pvis s); cbn [length tl] in *; lia.
  - intros H j Hj. rewrite nth_tl. apply (iv_vis _ _ _ _ HI); [|apply H].
    all: pose proof (iv_len _ _ _ _ HI); destruct (pvis s); cbn [length tl] in *; lia.
Qed.

Lemma pmask_depot_spec i cs k s : Inv i cs k s ->
  pmask_depot i s = false <-> (preq i <= tprize s \/ forall j, (1 <= j <= pn_of i)%nat -> In j cs).
Proof.
  intros HI. unfold pmask_depot, nvis. rewrite countb_lt_allb, andb_false_iff, negb_false_iff.
  rewrite (all_visited_allb i cs k s HI), Z.ltb_ge. tauto.
Qed.

(* a customer step: only possible before the depot has been visited *)
Lemma step_inv_cust i cs k s a : pctsp_wf i -> Inv i cs k s -> a <> 0%nat -> offered (E:=E) i s a = true ->
  k = 0%nat /\ (1 <= a <= pn_of i)%nat /\ ~ In a cs /\ Inv i (cs ++ [a]) 0 (pctsp_step exact i s a).
Proof.
  intros Hwf HI Ha Ho. rewrite offered_ploc in Ho by lia. apply andb_prop in Ho as [Hle Hm]. apply Nat.leb_le in Hle.
  unfold pmask_loc in Hm. apply negb_true_iff, orb_false_iff in Hm as [Hv Hv0].
  assert (Hk : k = 0%nat).
  { destruct k; [reflexivity|]. exfalso. assert (nth 0 (pvis s) false = true) by (apply (iv_vis0 _ _ _ _ HI); lia). congruence. }
  assert (Hr : (1 <= a <= pn_of i)%nat) by lia.
  assert (Hn : ~ In a cs). { intros Hin. apply (iv_vis _ _ _ _ HI a Hr) in Hin. congruence. }
  split; [exact Hk|]. split; [exact Hr|]. split; [exact Hn|]. subst k.
  destruct HI as [Hlen Hnd Hrng Hvis Hvis0 Htp Hstep Hdn Hk].
  constructor; cbn [pctsp_step pvis tprize pstep pdn].
  - rewrite set_nth_length. exact Hlen.
  - apply NoDup_app_intro_snoc; assumption.
  - intros b Hb. apply in_app_iff in Hb as [Hb|[<-|[]]]; auto.
  - intros j Hj. rewrite nth_set_nth, Hlen. replace (Nat.ltb a (S (pn_of i))) with true by (symmetry; apply Nat.ltb_lt; lia).
    rewrite andb_true_r, in_app_iff. cbn [In]. destruct (Nat.eqb j a) eqn:Ej.
    + apply Nat.eqb_eq in Ej. subst. tauto.
    + apply Nat.eqb_neq in Ej. rewrite Hvis by exact Hj. split; [tauto|]. intros [H|[H|[]]]; [exact H | congruence].
  - rewrite nth_set_nth_neq by lia. rewrite Hvis0. tauto.
  - rewrite rnd_exact, map_app, sumZ_app, Htp. cbn [map sumZ]. lia.
  - rewrite Hstep, app_length. cbn [length]. lia.
  - apply Nat.eqb_neq in Ha. rewrite Ha, andb_false_r. reflexivity.
  - lia.
Qed.

(* a depot step: the requirement is met (or everybody is visited), at least one customer was visited, the row is done *)
Lemma step_inv_depot i cs k s : pctsp_wf i -> Inv i cs k s -> offered (E:=E) i s 0 = true ->
  Inv i cs (S k) (pctsp_step exact i s 0).
Proof.
  intros Hwf HI Ho. rewrite offered_pdepot in Ho. apply negb_true_iff in Ho.
  apply (pmask_depot_spec i cs k s HI) in Ho.
  assert (Hne : cs <> []).
  { intros ->. destruct Hwf as (_ & _ & Hn & Hreq). rewrite (iv_tp _ _ _ _ HI) in Ho. cbn [map sumZ] in Ho.
    destruct Ho as [Ho|Ho]; [lia|]. destruct (Ho 1%nat); lia. }
  destruct HI as [Hlen Hnd Hrng Hvis Hvis0 Htp Hstep Hdn Hk].
  constructor; cbn [pctsp_step pvis tprize pstep pdn]; auto.
  - rewrite set_nth_length. exact Hlen.
  - intros j Hj. rewrite nth_set_nth_neq by lia. apply Hvis; exact Hj.
  - rewrite nth_set_nth_eq by lia. split; [lia | reflexivity].
  - rewrite rnd_exact, prize_0. lia.
  - lia.
  - rewrite Hstep. destruct cs; [congruence|]. reflexivity.
  - intros _. split; [exact Hne|]. rewrite rnd_exact, prize_0, Z.add_0_r. exact Ho.
Qed.

(* every admitted action list is customers-then-depot-steps, and the invariant holds at its end *)
Lemma adm_inv i acts : pctsp_wf i -> adm (E:=E) i acts = true ->
  exists cs k, acts = cs ++ repeat 0%nat k /\ Inv i cs k (run (E:=E) i acts).
Proof.
  intros Hwf. apply (adm_invariant E i (fun p s => exists cs k, p = cs ++ repeat 0%nat k /\ Inv i cs k s)).
  - exists [], 0%nat. split; [reflexivity | apply reset_inv].
  - intros p s a (cs & k & -> & HI) Ho. destruct (Nat.eq_dec a 0) as [->|Ha].
    + exists cs, (S k). split; [rewrite <- app_assoc, repeat_snoc; reflexivity | apply step_inv_depot; assumption].
    + destruct (step_inv_cust i cs k s a Hwf HI Ha Ho) as (-> & _ & _ & HI'). exists (cs ++ [a]), 0%nat.
      cbn [repeat]. rewrite !app_nil_r. split; [reflexivity | exact HI'].
Qed.

Lemma inv_nz i cs k s : Inv i cs k s -> Forall (fun x => x <> 0%nat) cs.
Proof. intros HI. apply Forall_forall. intros x Hx. apply (iv_rng _ _ _ _ HI) in Hx. lia. Qed.

(* ================================================================ C01 *)
Theorem pctsp_mask_sound i acts :
  pctsp_wf i -> adm (E:=E) i acts = true -> done E i (run (E:=E) i acts) = true -> pctsp_feasible i acts.
Proof.
  intros Hwf Hadm Hdone. destruct (adm_inv i acts Hwf Hadm) as (cs & k & -> & HI).
  cbn [done PCTSP] in Hdone. unfold pctsp_done in Hdone. rewrite (iv_dn _ _ _ _ HI) in Hdone. apply Nat.ltb_lt in Hdone.
  pose proof (inv_nz _ _ _ _ HI) as Hnz.
  split.
  - exists cs, (k - 1)%nat. split; [|exact Hnz]. replace (S (k - 1)) with k by lia. reflexivity.
  - unfold pctsp_valid, collected. rewrite customers_tour by exact Hnz. split; [exact (iv_nd _ _ _ _ HI)|]. split.
    + intros a Ha. apply in_app_iff in Ha as [Ha|Ha]; [apply (iv_rng _ _ _ _ HI) in Ha; lia | apply repeat_spec in Ha; lia].
    + destruct (iv_k _ _ _ _ HI Hdone) as [_ [H|H]].
      * left. rewrite <- (iv_tp _ _ _ _ HI). exact H.
      * right. intros j Hj. apply in_app_iff. left. apply H; exact Hj.
Qed.

(* ================================================================ C02 *)
Theorem pctsp_step_ok i acts a :
  pctsp_wf i -> adm (E:=E) i acts = true -> offered (E:=E) i (run (E:=E) i acts) a = true ->
  stepok E i (run (E:=E) i acts) a = true.
Proof.
  intros Hwf Hadm Ho. cbn [stepok PCTSP]. unfold pctsp_stepok.
  assert (Hl : length (real_prize i) = pn_of i) by (unfold real_prize; destruct Hwf as (H1 & H2 & _); destruct (stoch i); assumption).
  rewrite Hl, andb_diag. destruct a as [|a]; [reflexivity|].
  rewrite offered_ploc in Ho by lia. apply andb_prop in Ho as [Hle _]. exact Hle.
Qed.

Theorem pctsp_no_dead_end i acts :
  pctsp_wf i -> adm (E:=E) i acts = true -> anyb (mask E i (run (E:=E) i acts)) = true.
Proof.
  intros Hwf Hadm. destruct (adm_inv i acts Hwf Hadm) as (cs & k & _ & HI).
  set (s := run (E:=E) i acts) in *. cbn [mask PCTSP]. unfold pctsp_mask, anyb. cbn [existsb].
  destruct (pmask_depot i s) eqn:Ed; [|reflexivity]. cbn [negb orb].
  (* the depot is masked: the prize is short and some customer j is unvisited; then the depot has not been visited
     either and j is offered *)
  assert (Hk : k = 0%nat).
  { destruct k; [reflexivity|]. exfalso. destruct (iv_k _ _ _ _ HI ltac:(lia)) as [_ H].
    apply (pmask_depot_spec i cs _ s HI) in H. congruence. }
  subst k. unfold pmask_depot, nvis in Ed. rewrite countb_lt_allb in Ed. apply andb_prop in Ed as [_ Hna].
  apply negb_true_iff in Hna.
  assert (Hex : exists j, (1 <= j <= pn_of i)%nat /\ nth j (pvis s) false = false).
  { destruct (forallb (fun j => nth j (pvis s) false) (seq 1 (pn_of i))) eqn:Ef.
    - exfalso. rewrite forallb_forall in Ef.
      assert (allb (tl (pvis s)) = true); [|congruence]. apply allb_forall. intros j Hj. rewrite nth_tl. apply Ef. apply in_seq.
      pose proof (iv_len _ _ _ _ HI). destruct (pvis s); cbn [length tl] in *; lia.
    - apply not_true_iff_false in Ef. rewrite forallb_forall in Ef.
      destruct (existsb (fun j => negb (nth j (pvis s) false)) (seq 1 (pn_of i))) eqn:Ee.
      + apply existsb_exists in Ee as (j & Hj & Hn). apply in_seq in Hj. exists j. split; [lia|]. apply negb_true_iff in Hn. exact Hn.
      + exfalso. apply Ef. intros j Hj. destruct (nth j (pvis s) false) eqn:En; [reflexivity|]. exfalso.
        assert (existsb (fun j => negb (nth j (pvis s) false)) (seq 1 (pn_of i)) = true); [|congruence].
        apply existsb_exists. exists j. rewrite En. split; [exact Hj | reflexivity]. }
  destruct Hex as (j & Hj & Hn). apply existsb_exists. exists true. split; [|reflexivity]. apply in_map_iff. exists j. split.
  - unfold pmask_loc. rewrite Hn. cbn [orb]. destruct (nth 0 (pvis s) false) eqn:E0; [|reflexivity].
    apply (iv_vis0 _ _ _ _ HI) in E0. lia.
  - apply in_seq. lia.
Qed.

(* once the depot has been visited only the depot is offered *)
Lemma done_only_depot i cs k s a : Inv i cs k s -> (0 < k)%nat -> offered (E:=E) i s a = true -> a = 0%nat.
Proof.
  intros HI Hk Ho. destruct a as [|a]; [reflexivity|]. exfalso. rewrite offered_ploc in Ho by lia.
  apply andb_prop in Ho as [_ Hm]. unfold pmask_loc in Hm. apply negb_true_iff, orb_false_iff in Hm as [_ H0].
  assert (nth 0 (pvis s) false = true) by (apply (iv_vis0 _ _ _ _ HI); exact Hk). congruence.
Qed.

Theorem pctsp_done_stable i acts a :
  pctsp_wf i -> adm (E:=E) i (acts ++ [a]) = true -> done E i (run (E:=E) i acts) = true ->
  done E i (run (E:=E) i (acts ++ [a])) = true.
Proof.
  intros Hwf Hadm Hd. pose proof Hadm as Hadm2. rewrite adm_snoc in Hadm. apply andb_prop in Hadm as [Hadm Ho].
  destruct (adm_inv i acts Hwf Hadm) as (cs & k & _ & HI).
  cbn [done PCTSP] in Hd. unfold pctsp_done in Hd. rewrite (iv_dn _ _ _ _ HI) in Hd. apply Nat.ltb_lt in Hd.
  pose proof (done_only_depot i cs k _ a HI Hd Ho) as ->.
  rewrite run_snoc. cbn [step PCTSP]. pose proof (step_inv_depot i cs k _ Hwf HI Ho) as HI'.
  cbn [done PCTSP]. unfold pctsp_done. rewrite (iv_dn _ _ _ _ HI'). reflexivity.
Qed.

Lemma nodup_range_length n cs : NoDup cs -> (forall a, In a cs -> (1 <= a <= n)%nat) -> (length cs <= n)%nat.
Proof.
  intros Hnd Hr. assert (Hincl : incl cs (seq 1 n)) by (intros x Hx; apply in_seq; apply Hr in Hx; lia).
  pose proof (NoDup_incl_length Hnd Hincl) as H. rewrite seq_length in H. exact H.
Qed.

(* an admitted action list none of whose proper prefixes is finished has at most n + 1 actions *)
Theorem pctsp_bound i acts :
  pctsp_wf i -> adm (E:=E) i acts = true ->
  (forall p q, acts = p ++ q -> q <> [] -> done E i (run (E:=E) i p) = false) ->
  (length acts <= pn_of i + 1)%nat.
Proof.
  intros Hwf Hadm Hnd. destruct (adm_inv i acts Hwf Hadm) as (cs & k & Hacts & HI).
  pose proof (nodup_range_length (pn_of i) cs (iv_nd _ _ _ _ HI) (iv_rng _ _ _ _ HI)) as Hl.
  assert (Hk : (k <= 1)%nat).
  { destruct k as [|[|k]]; try lia. exfalso.
    (* the prefix cs ++ [0] is already finished *)
    assert (Hsplit : acts = (cs ++ [0%nat]) ++ repeat 0%nat (S k)) by (rewrite Hacts, <- app_assoc; reflexivity).
    pose proof (Hnd _ _ Hsplit ltac:(discriminate)) as Hf.
    assert (Hadm1 : adm (E:=E) i (cs ++ [0%nat]) = true) by (rewrite Hsplit in Hadm; apply adm_prefix in Hadm; exact Hadm).
    destruct (adm_inv i _ Hwf Hadm1) as (cs1 & k1 & H1 & HI1).
    cbn [done PCTSP] in Hf. unfold pctsp_done in Hf. rewrite (iv_dn _ _ _ _ HI1) in Hf. apply Nat.ltb_ge in Hf.
    assert (k1 = 0%nat) by lia. subst k1. cbn [repeat] in H1. rewrite app_nil_r in H1. subst cs1.
    assert (In 0%nat (cs ++ [0%nat])) as Hin by (apply in_app_iff; right; left; reflexivity).
    apply (iv_rng _ _ _ _ HI1) in Hin. lia. }
  rewrite Hacts, app_length, repeat_length. lia.
Qed.

(* ================================================================ C03 *)
Lemma sumZ_map_perm (f : nat -> Z) l l' : Permutation l l' -> sumZ (map f l) = sumZ (map f l').
Proof. induction 1; cbn [map sumZ]; lia. Qed.

Lemma NoDup_app_intro {A} (a b : list A) : NoDup a -> NoDup b -> (forall x, In x a -> ~ In x b) -> NoDup (a ++ b).
Proof.
  induction a as [|x a IH]; intros Ha Hb Hd; [exact Hb|]. cbn [app]. inversion Ha as [|? ? Hx Ha']; subst. constructor.
  - intros Hc. apply in_app_iff in Hc as [Hc|Hc]; [tauto | apply (Hd x); [left; reflexivity | exact Hc]].
  - apply IH; [exact Ha' | exact Hb | intros y Hy; apply Hd; right; exact Hy].
Qed.

Lemma existsb_eqb_In j l : existsb (Nat.eqb j) l = true <-> In j l.
Proof.
  rewrite existsb_exists. split.
  - intros (x & Hx & He). apply Nat.eqb_eq in He. subst. exact Hx.
  - intros H. exists j. split; [exact H | apply Nat.eqb_refl].
Qed.

Lemma seq_split_perm n cs : NoDup cs -> (forall a, In a cs -> (1 <= a <= n)%nat) ->
  Permutation (seq 1 n) (cs ++ filter (fun j => negb (existsb (Nat.eqb j) cs)) (seq 1 n)).
Proof.
  intros Hnd Hr. apply NoDup_Permutation.
  - apply seq_NoDup.
  - apply NoDup_app_intro; [exact Hnd | apply NoDup_filter, seq_NoDup |].
    intros x Hx Hf. apply filter_In in Hf as [_ Hf]. apply negb_true_iff in Hf.
    apply existsb_eqb_In in Hx. congruence.
  - intros x. rewrite in_app_iff, filter_In, negb_true_iff, in_seq. split.
    + intros Hx. destruct (existsb (Nat.eqb x) cs) eqn:Ex; [left; apply existsb_eqb_In; exact Ex | right; split; [exact Hx | reflexivity]].
    + intros [Hx|[Hx _]]; [apply Hr in Hx; lia | exact Hx].
Qed.

Lemma map_nth_seq1 (x : Z) l : map (fun j => nth j (x :: l) 0) (seq 1 (length l)) = l.
Proof.
  apply (nth_ext _ _ 0 0); [rewrite map_length, seq_length; reflexivity|].
  intros k Hk. rewrite map_length, seq_length in Hk. rewrite nth_map_seq by exact Hk. reflexivity.
Qed.

Lemma penalty_total i : sumZ (map (penalty i) (seq 1 (pn_of i))) = sumZ (pen i).
Proof. unfold penalty, pen_wd, pn_of. rewrite map_nth_seq1. reflexivity. Qed.

Lemma unvisited_customers i acts : unvisited i acts = unvisited i (customers acts).
Proof.
  unfold unvisited. apply filter_ext_in. intros j Hj. apply in_seq in Hj. f_equal.
  destruct (existsb (Nat.eqb j) acts) eqn:E1, (existsb (Nat.eqb j) (customers acts)) eqn:E2; try reflexivity.
  - apply existsb_eqb_In in E1. assert (In j (customers acts)) as H by (apply in_customers; split; [exact E1 | lia]).
    apply existsb_eqb_In in H. congruence.
  - apply existsb_eqb_In in E2. apply in_customers in E2 as [H _]. apply existsb_eqb_In in H. congruence.
Qed.

(* for ANY action list of length <> 1 with distinct customers and existing nodes: the value computed by _get_reward
   equals minus (route-wise closed length + penalties of the customers that do not occur) *)
Theorem pctsp_reward_is_objective_gen i acts :
  pdfun i 0%nat 0%nat = 0 -> NoDup (customers acts) -> (forall a, In a acts -> (a <= pn_of i)%nat) -> length acts <> 1%nat ->
  pctsp_reward i acts = pctsp_objective i acts.
Proof.
  intros H00 Hnd Hr Hlen.
  assert (Hrew : pctsp_reward i acts = sumZ (map (penalty i) acts) - (cyclic_len (pdfun i) acts + sumZ (pen i))).
  { unfold pctsp_reward. destruct acts as [|a [|b r]]; try reflexivity. cbn in Hlen. congruence. }
  rewrite Hrew. unfold pctsp_objective, pctsp_cost. rewrite cyclic_len_is_total_len by exact H00.
  rewrite (sumZ_map_customers (penalty i) acts (penalty_0 i)), unvisited_customers.
  assert (Hr' : forall a, In a (customers acts) -> (1 <= a <= pn_of i)%nat).
  { intros a Ha. apply in_customers in Ha as [Ha Hz]. apply Hr in Ha. lia. }
  pose proof (sumZ_map_perm (penalty i) _ _ (seq_split_perm (pn_of i) (customers acts) Hnd Hr')) as HP.
  rewrite penalty_total, map_app, sumZ_app in HP. unfold unvisited. lia.
Qed.

Theorem pctsp_reward_is_objective i acts :
  pctsp_wf i -> pdfun i 0%nat 0%nat = 0 -> adm (E:=E) i acts = true -> done E i (run (E:=E) i acts) = true ->
  pctsp_reward i acts = pctsp_objective i acts.
Proof.
  intros Hwf H00 Hadm Hd. destruct (pctsp_mask_sound i acts Hwf Hadm Hd) as [(cs & k & Hacts & Hnz) (Hnd & Hr & _)].
  apply pctsp_reward_is_objective_gen; auto.
  destruct (adm_inv i acts Hwf Hadm) as (cs' & k' & Hacts' & HI).
  cbn [done PCTSP] in Hd. unfold pctsp_done in Hd. rewrite (iv_dn _ _ _ _ HI) in Hd. apply Nat.ltb_lt in Hd.
  destruct (iv_k _ _ _ _ HI Hd) as [Hne _]. rewrite Hacts', app_length, repeat_length.
  destruct cs'; [congruence|]. cbn [length]. lia.
Qed.

(* ================================================================ C04 *)
Lemma done_mask i cs k s : Inv i cs k s -> (0 < k)%nat -> pctsp_mask i s = true :: repeat false (pn_of i).
Proof.
  intros HI Hk. unfold pctsp_mask. f_equal.
  - destruct (iv_k _ _ _ _ HI Hk) as [_ H]. apply (pmask_depot_spec i cs k s HI) in H. rewrite H. reflexivity.
  - assert (H0 : nth 0 (pvis s) false = true) by (apply (iv_vis0 _ _ _ _ HI); exact Hk).
    unfold plocs, pmask_loc. rewrite H0. generalize 1%nat. induction (pn_of i) as [|n IH]; intros st; [reflexivity|].
    cbn [seq map repeat]. rewrite orb_true_r. cbn [negb]. f_equal. apply IH.
Qed.

(* after a row has finished, any number m of further steps: the depot is offered (and only it), the row stays
   finished, the mask does not change, the value of _get_reward on the padded action list is unchanged *)
Theorem pctsp_padding_inert i acts m :
  pctsp_wf i -> adm (E:=E) i acts = true -> done E i (run (E:=E) i acts) = true ->
  let pad := repeat 0%nat m in
  adm (E:=E) i (acts ++ pad) = true /\
  done E i (run (E:=E) i (acts ++ pad)) = true /\
  mask E i (run (E:=E) i (acts ++ pad)) = true :: repeat false (pn_of i) /\
  (pdfun i 0%nat 0%nat = 0 -> pctsp_reward i (acts ++ pad) = pctsp_reward i acts).
Proof.
  intros Hwf Hadm Hd. cbv zeta.
  assert (G : adm (E:=E) i (acts ++ repeat 0%nat m) = true /\ done E i (run (E:=E) i (acts ++ repeat 0%nat m)) = true).
  { induction m as [|m IH]; [cbn [repeat]; rewrite app_nil_r; split; assumption|].
    destruct IH as [IH1 IH2]. rewrite <- repeat_snoc, app_assoc.
    destruct (adm_inv i _ Hwf IH1) as (cs & k & _ & HI).
    pose proof IH2 as Hk. cbn [done PCTSP] in Hk. unfold pctsp_done in Hk. rewrite (iv_dn _ _ _ _ HI) in Hk. apply Nat.ltb_lt in Hk.
    assert (Ho : offered (E:=E) i (run (E:=E) i (acts ++ repeat 0%nat m)) 0 = true).
    { unfold offered. cbn [mask PCTSP]. rewrite (done_mask i cs k _ HI Hk). reflexivity. }
    assert (Hadm' : adm (E:=E) i ((acts ++ repeat 0%nat m) ++ [0%nat]) = true) by (rewrite adm_snoc, IH1, Ho; reflexivity).
    split; [exact Hadm' | apply pctsp_done_stable; assumption]. }
  destruct G as [G1 G2]. split; [exact G1|]. split; [exact G2|].
  destruct (adm_inv i _ Hwf G1) as (cs & k & Hacts & HI).
  pose proof G2 as Hk. cbn [done PCTSP] in Hk. unfold pctsp_done in Hk. rewrite (iv_dn _ _ _ _ HI) in Hk. apply Nat.ltb_lt in Hk.
  split; [cbn [mask PCTSP]; apply (done_mask i cs k _ HI Hk)|].
  intros H00.
  (* both action lists have at least two entries, so neither is the one-column special case *)
  destruct (adm_inv i acts Hwf Hadm) as (cs0 & k0 & Hacts0 & HI0).
  pose proof Hd as Hk0. cbn [done PCTSP] in Hk0. unfold pctsp_done in Hk0. rewrite (iv_dn _ _ _ _ HI0) in Hk0. apply Nat.ltb_lt in Hk0.
  destruct (iv_k _ _ _ _ HI0 Hk0) as [Hne0 _].
  assert (Hl : (2 <= length acts)%nat).
  { rewrite Hacts0, app_length, repeat_length. destruct cs0; [congruence|]. cbn [length]. lia. }
  assert (Hgen : forall l, (2 <= length l)%nat ->
            pctsp_reward i l = sumZ (map (penalty i) l) - (cyclic_len (pdfun i) l + sumZ (pen i))).
  { intros l Hl2. unfold pctsp_reward. destruct l as [|a [|b r]]; cbn [length] in Hl2; try lia; reflexivity. }
  rewrite (Hgen acts Hl), (Hgen (acts ++ repeat 0%nat m)) by (rewrite app_length; lia).
  unfold cyclic_len. rewrite walk_len_pad by exact H00. rewrite map_app, sumZ_app.
  assert (Hz : sumZ (map (penalty i) (repeat 0%nat m)) = 0).
  { clear. induction m as [|m IH]; [reflexivity|]. cbn [repeat map sumZ]. rewrite IH, penalty_0. reflexivity. }
  rewrite Hz. lia.
Qed.

(* ================================================================ C05 *)
Lemma adm_customers i : pctsp_wf i -> forall cs p s,
  Inv i p 0 s -> NoDup cs -> (forall x, In x cs -> (1 <= x <= pn_of i)%nat /\ ~ In x p) ->
  adm_from (E:=E) i s cs = true /\ Inv i (p ++ cs) 0 (run_from (E:=E) i s cs).
Proof.
  intros Hwf cs. induction cs as [|x cs IH]; intros p s HI Hnd Hin.
  - cbn. rewrite app_nil_r. split; [reflexivity | exact HI].
  - cbn [adm_from run_from]. destruct (Hin x (or_introl eq_refl)) as [Hx Hxp].
    assert (Ho : offered (E:=E) i s x = true).
    { rewrite offered_ploc by lia. apply andb_true_intro. split; [apply Nat.leb_le; lia|].
      unfold pmask_loc. apply negb_true_iff, orb_false_iff. split.
      - destruct (nth x (pvis s) false) eqn:Ev; [|reflexivity]. exfalso. apply Hxp. apply (iv_vis _ _ _ _ HI); [lia | exact Ev].
      - destruct (nth 0 (pvis s) false) eqn:Ev; [|reflexivity]. apply (iv_vis0 _ _ _ _ HI) in Ev. lia. }
    destruct (step_inv_cust i p 0 s x Hwf HI ltac:(lia) Ho) as (_ & _ & _ & HI').
    inversion Hnd as [|? ? Hxr Hnd']; subst.
    destruct (IH (p ++ [x]) _ HI' Hnd') as [Ha HI''].
    + intros y Hy. destruct (Hin y (or_intror Hy)) as [Hy1 Hy2]. split; [exact Hy1|].
      intros Hc. apply in_app_iff in Hc as [Hc|[Hc|[]]]; [tauto | subst; tauto].
    + cbn [step PCTSP] in *. rewrite Ho, Ha. split; [reflexivity|]. rewrite <- app_assoc in HI''. exact HI''.
Qed.

(* EVERY solution of the problem -- a non-empty sequence of distinct customers whose collected prize reaches the
   requirement (equality allowed) or which contains every customer -- is admitted by the mask when followed by the
   return to the depot, and the row is finished there *)
Theorem pctsp_mask_complete i cs :
  pctsp_wf i -> cs <> [] -> NoDup cs -> (forall x, In x cs -> (1 <= x <= pn_of i)%nat) ->
  (preq i <= sumZ (map (prize i) cs) \/ forall j, (1 <= j <= pn_of i)%nat -> In j cs) ->
  adm (E:=E) i (cs ++ [0%nat]) = true /\ done E i (run (E:=E) i (cs ++ [0%nat])) = true.
Proof.
  intros Hwf Hne Hnd Hr Hp.
  destruct (adm_customers i Hwf cs [] _ (reset_inv i) Hnd) as [Ha HI].
  { intros x Hx. split; [apply Hr; exact Hx | intros []]. }
  cbn [app] in HI. unfold adm, run. cbn [reset PCTSP] in *. set (s := run_from (E:=E) i (pctsp_reset i) cs) in *.
  assert (Ho : offered (E:=E) i s 0 = true).
  { rewrite offered_pdepot. apply negb_true_iff. apply (pmask_depot_spec i cs 0 s HI). rewrite (iv_tp _ _ _ _ HI). exact Hp. }
  pose proof (step_inv_depot i cs 0 s Hwf HI Ho) as HI'.
  split.
  - rewrite adm_from_app. fold s. rewrite Ha. cbn [andb adm_from]. rewrite Ho. reflexivity.
  - rewrite run_from_app. fold s. cbn [run_from step PCTSP done]. unfold pctsp_done. rewrite (iv_dn _ _ _ _ HI'). reflexivity.
Qed.

Lemma routes_aux_nz r : Forall (fun x => x <> 0%nat) r -> forall c rest,
  routes_aux (r ++ 0%nat :: rest) c = (rev c ++ r) :: routes_aux rest [].
Proof.
  induction r as [|x r IHr]; intros Hr c rest; cbn [app routes_aux].
  - cbn. rewrite app_nil_r. reflexivity.
  - inversion Hr as [|? ? Hx Hr']; subst. apply Nat.eqb_neq in Hx. rewrite Hx. rewrite IHr by exact Hr'. cbn [rev]. rewrite <- app_assoc. reflexivity.
Qed.

(* and its reward is minus (closed length of the tour + penalties of the customers left out): nothing is lost *)
Theorem pctsp_encode_objective i cs :
  pdfun i 0%nat 0%nat = 0 -> cs <> [] -> NoDup cs -> (forall x, In x cs -> (1 <= x <= pn_of i)%nat) ->
  pctsp_reward i (cs ++ [0%nat]) =
  - (route_len (pdfun i) cs + sumZ (map (penalty i) (filter (fun j => negb (existsb (Nat.eqb j) cs)) (seq 1 (pn_of i))))).
Proof.
  intros H00 Hne Hnd Hr.
  assert (Hnz : Forall (fun x => x <> 0%nat) cs) by (apply Forall_forall; intros x Hx; apply Hr in Hx; lia).
  pose proof (customers_tour cs 1 Hnz) as Hct. cbn [repeat] in Hct.
  rewrite pctsp_reward_is_objective_gen; auto.
  - unfold pctsp_objective, pctsp_cost. rewrite unvisited_customers, Hct.
    unfold total_len, routes. rewrite routes_aux_nz by exact Hnz. cbn [rev app routes_aux map sumZ].
    unfold route_len at 2. cbn [path_len]. rewrite H00. unfold unvisited. lia.
  - rewrite Hct. exact Hnd.
  - intros a Ha. apply in_app_iff in Ha as [Ha|[<-|[]]]; [apply Hr in Ha; lia | lia].
  - rewrite app_length. cbn [length]. destruct cs; [congruence|]. cbn [length]. lia.
Qed.

(* ================================================================ C06 *)
Lemma insert_sorted_le x l : sorted_le l -> sorted_le (insert_sorted x l).
Proof.
  induction 1 as [| y | y z l Hyz Hs IH]; cbn [insert_sorted].
  - constructor.
  - destruct (Nat.leb x y) eqn:E; [apply Nat.leb_le in E | apply Nat.leb_gt in E]; constructor; try lia; constructor.
  - destruct (Nat.leb x y) eqn:E.
    + apply Nat.leb_le in E. constructor; [exact E|]. constructor; assumption.
    + apply Nat.leb_gt in E. cbn [insert_sorted] in IH. destruct (Nat.leb x z) eqn:E2.
      * apply Nat.leb_le in E2. constructor; [lia|]. exact IH.
      * constructor; [exact Hyz | exact IH].
Qed.
Lemma sort_sorted l : sorted_le (sort_nat l).
Proof. induction l as [|x l IH]; [constructor | apply insert_sorted_le; exact IH]. Qed.

Lemma sorted_head_min y r : sorted_le (y :: r) -> forall z, In z r -> (y <= z)%nat.
Proof.
  revert y. induction r as [|w r IH]; intros y Hs z Hz; [destruct Hz|].
  inversion Hs as [| |? ? ? Hyw Hs']; subst. destruct Hz as [<-|Hz]; [exact Hyw|].
  specialize (IH w Hs' z Hz). lia.
Qed.

Lemma nodup_sorted_spec s : sorted_le s -> nodup_sorted s = true <-> (forall j, (1 <= j)%nat -> (occ j s <= 1)%nat).
Proof.
  induction 1 as [| x | x y l Hxy Hs IH].
  - split; [intros _ j _; rewrite occ_nil; lia | reflexivity].
  - split; [|reflexivity]. intros _ j _. rewrite occ_cons, occ_nil. destruct (Nat.eqb x j); lia.
  - change (nodup_sorted (x :: y :: l)) with ((Nat.eqb y 0 || Nat.ltb x y) && nodup_sorted (y :: l))%bool.
    rewrite andb_true_iff, IH. split.
    + intros [Hc Hrest] j Hj. rewrite occ_cons. destruct (Nat.eqb x j) eqn:Ex; [|apply Hrest; exact Hj].
      apply Nat.eqb_eq in Ex. subst x.
      assert (Hlt : (j < y)%nat).
      { apply orb_prop in Hc as [Hc|Hc]; [apply Nat.eqb_eq in Hc; lia | apply Nat.ltb_lt in Hc; exact Hc]. }
      assert (Hn : ~ In j (y :: l)).
      { intros [->|Hin]; [lia|]. pose proof (sorted_head_min y l Hs j Hin). lia. }
      apply occ_not_In in Hn. lia.
    + intros Hocc. split.
      * destruct (Nat.eqb y 0) eqn:Ey; [reflexivity|]. apply Nat.eqb_neq in Ey. cbn [orb]. apply Nat.ltb_lt.
        destruct (Nat.eq_dec x y) as [->|Hne]; [|lia]. exfalso.
        specialize (Hocc y ltac:(lia)). rewrite !occ_cons, Nat.eqb_refl in Hocc. lia.
      * intros j Hj. specialize (Hocc j Hj). rewrite occ_cons in Hocc. lia.
Qed.

Lemma occ_perm x l l' : Permutation l l' -> occ x l = occ x l'.
Proof. intros P. unfold occ. apply (Permutation_count_occ Nat.eq_dec); exact P. Qed.

Lemma occ_customers x acts : occ x (customers acts) = if Nat.eqb x 0 then 0%nat else occ x acts.
Proof.
  induction acts as [|a r IH]; [destruct (Nat.eqb x 0); reflexivity|]. unfold customers in *. cbn [filter]. rewrite occ_cons.
  destruct (Nat.eqb a 0) eqn:Ea; cbn [negb].
  - apply Nat.eqb_eq in Ea. subst a. rewrite IH. destruct (Nat.eqb x 0) eqn:Ex; [reflexivity|].
    rewrite Nat.eqb_sym, Ex. reflexivity.
  - rewrite occ_cons, IH. destruct (Nat.eqb x 0) eqn:Ex; [|reflexivity].
    apply Nat.eqb_eq in Ex. subst x. rewrite Ea. reflexivity.
Qed.

Lemma nodup_customers_occ acts : NoDup (customers acts) <-> (forall j, (1 <= j)%nat -> (occ j acts <= 1)%nat).
Proof.
  rewrite (NoDup_count_occ Nat.eq_dec). split.
  - intros H j Hj. specialize (H j). fold (occ j (customers acts)) in H. rewrite occ_customers in H.
    replace (Nat.eqb j 0) with false in H by (symmetry; apply Nat.eqb_neq; lia). exact H.
  - intros H j. fold (occ j (customers acts)). rewrite occ_customers. destruct (Nat.eqb j 0) eqn:Ej; [lia|].
    apply Nat.eqb_neq in Ej. apply H. lia.
Qed.

Lemma nodup_sorted_sort acts : nodup_sorted (sort_nat acts) = true <-> NoDup (customers acts).
Proof.
  rewrite (nodup_sorted_spec _ (sort_sorted acts)), nodup_customers_occ.
  split; intros H j Hj; specialize (H j Hj); rewrite (occ_perm j _ _ (sort_perm acts)) in *; exact H.
Qed.

Lemma psum_exact i acts : psum exact i acts = sumZ (map (prize i) acts).
Proof.
  unfold psum. assert (G : forall z, fold_left (fun acc a => rnd exact (acc + prize i a)) acts z = z + sumZ (map (prize i) acts)).
  { induction acts as [|a r IH]; intros z; cbn [fold_left map sumZ]; [lia|]. rewrite IH, rnd_exact. lia. }
  rewrite G. lia.
Qed.

Lemma length_customers acts : (length acts - nzeros acts)%nat = length (customers acts).
Proof.
  unfold nzeros, customers.
  assert (G : length acts = (length (filter (Nat.eqb 0) acts) + length (filter (fun a => negb (Nat.eqb a 0)) acts))%nat).
  { induction acts as [|a r IH]; [reflexivity|]. cbn [filter length]. rewrite (Nat.eqb_sym 0 a).
    destruct (Nat.eqb a 0); cbn [negb length]; lia. }
  lia.
Qed.

Lemma all_visited_length n cs : NoDup cs -> (forall a, In a cs -> (1 <= a <= n)%nat) ->
  length cs = n <-> (forall j, (1 <= j <= n)%nat -> In j cs).
Proof.
  intros Hnd Hr. assert (Hincl : incl cs (seq 1 n)) by (intros x Hx; apply in_seq; apply Hr in Hx; lia). split.
  - intros Hl j Hj. assert (Hi : incl (seq 1 n) cs) by (apply (NoDup_length_incl Hnd); [rewrite seq_length; lia | exact Hincl]).
    apply Hi. apply in_seq. lia.
  - intros Hall. pose proof (nodup_range_length n cs Hnd Hr).
    assert (incl (seq 1 n) cs) as Hi2 by (intros x Hx; apply in_seq in Hx; apply Hall; lia).
    pose proof (NoDup_incl_length (seq_NoDup n 1) Hi2) as H2. rewrite seq_length in H2. lia.
Qed.

(* the checker's verdict, characterised: existing nodes, distinct customers, and collected prize >= the checker's
   threshold (1 - 1e-5, as a float32) or every customer present *)
Theorem pctsp_checker_iff i acts :
  pctsp_checker exact i acts = true <->
  NoDup (customers acts) /\ (forall a, In a acts -> (a <= pn_of i)%nat) /\
  (pthr i <= collected i acts \/ forall j, (1 <= j <= pn_of i)%nat -> In j acts).
Proof.
  unfold pctsp_checker. rewrite !andb_true_iff, forallb_forall, nodup_sorted_sort, orb_true_iff, psum_exact, length_customers.
  rewrite (sumZ_map_customers (prize i) acts (prize_0 i)). fold (collected i acts). rewrite Z.leb_le, Nat.eqb_eq.
  split.
  - intros [[Hr Hnd] Hp]. assert (Hr' : forall a, In a acts -> (a <= pn_of i)%nat) by (intros a Ha; apply Nat.leb_le; apply Hr; exact Ha).
    split; [exact Hnd|]. split; [exact Hr'|]. destruct Hp as [Hp|Hp]; [left; exact Hp|]. right.
    assert (Hrc : forall a, In a (customers acts) -> (1 <= a <= pn_of i)%nat).
    { intros a Ha. apply in_customers in Ha as [Ha Hz]. apply Hr' in Ha. lia. }
    intros j Hj. pose proof (proj1 (all_visited_length _ _ Hnd Hrc) Hp j Hj) as Hin. apply in_customers in Hin. tauto.
  - intros (Hnd & Hr & Hp). split; [split; [intros a Ha; apply Nat.leb_le; apply Hr; exact Ha | exact Hnd]|].
    destruct Hp as [Hp|Hp]; [left; exact Hp|]. right.
    assert (Hrc : forall a, In a (customers acts) -> (1 <= a <= pn_of i)%nat).
    { intros a Ha. apply in_customers in Ha as [Ha Hz]. apply Hr in Ha. lia. }
    apply (all_visited_length _ _ Hnd Hrc). intros j Hj. apply in_customers. split; [apply Hp; exact Hj | lia].
Qed.

(* every solution valid by the problem definition is accepted (whatever its shape: with or without the closing
   depot step, with padding, with interior depot steps), because the checker's threshold is below the requirement *)
Theorem pctsp_checker_complete i acts :
  pthr i <= preq i -> pctsp_valid i acts -> pctsp_checker exact i acts = true.
Proof.
  intros Ht (Hnd & Hr & Hp). apply pctsp_checker_iff. split; [exact Hnd|]. split; [exact Hr|].
  destruct Hp as [Hp|Hp]; [left; lia | right; exact Hp].
Qed.

(* accepted => valid up to exactly the checker's own tolerance on the prize *)
Theorem pctsp_checker_sound i acts :
  pctsp_checker exact i acts = true ->
  NoDup (customers acts) /\ (forall a, In a acts -> (a <= pn_of i)%nat) /\
  (preq i - (preq i - pthr i) <= collected i acts \/ forall j, (1 <= j <= pn_of i)%nat -> In j acts).
Proof. intros H. apply pctsp_checker_iff in H. replace (preq i - (preq i - pthr i)) with (pthr i) by lia. exact H. Qed.

Corollary pctsp_checker_rejects_duplicate i acts j :
  (1 <= j)%nat -> (2 <= occ j acts)%nat -> pctsp_checker exact i acts = false.
Proof.
  intros Hj Ho. apply not_true_iff_false. intros Hc. apply pctsp_checker_iff in Hc as (Hnd & _).
  pose proof (proj1 (nodup_customers_occ acts) Hnd j Hj). lia.
Qed.
Corollary pctsp_checker_rejects_shortfall i acts j :
  collected i acts < pthr i -> (1 <= j <= pn_of i)%nat -> ~ In j acts -> pctsp_checker exact i acts = false.
Proof.
  intros Hs Hj Hn. apply not_true_iff_false. intros Hc. apply pctsp_checker_iff in Hc as (_ & _ & [H|H]); [lia | apply Hn, H, Hj].
Qed.
Corollary pctsp_checker_rejects_unknown_node i acts a :
  In a acts -> (pn_of i < a)%nat -> pctsp_checker exact i acts = false.
Proof.
  intros Ha Hl. apply not_true_iff_false. intros Hc. apply pctsp_checker_iff in Hc as (_ & Hr & _). apply Hr in Ha. lia.
Qed.

(* mask-made solutions are accepted: C01 + completeness *)
Corollary pctsp_checker_accepts_mask_made i acts :
  pctsp_wf i -> pthr i <= preq i -> adm (E:=E) i acts = true -> done E i (run (E:=E) i acts) = true ->
  pctsp_checker exact i acts = true.
Proof. intros Hwf Ht Hadm Hd. apply pctsp_checker_complete; [exact Ht|]. apply (pctsp_mask_sound i acts Hwf Hadm Hd). Qed.

(* ---------------------------------------------------------------- the boolean twins decide the specification *)
Lemma pctsp_validb_ok i acts : pctsp_validb i 0 acts = true <-> pctsp_valid i acts.
Proof.
  unfold pctsp_validb, pctsp_valid. rewrite !andb_true_iff, orb_true_iff, !forallb_forall, nodup_customers_occ, Z.leb_le, Z.sub_0_r.
  split.
  - intros [[H1 H2] H3]. split; [|split].
    + intros j Hj. destruct (Nat.leb j (pn_of i)) eqn:El.
      * apply Nat.leb_le in El. apply Nat.leb_le. apply H1. apply in_seq. lia.
      * apply Nat.leb_gt in El. assert (~ In j acts) as Hn by (intros Hin; apply H2 in Hin; apply Nat.leb_le in Hin; lia).
        apply occ_not_In in Hn. lia.
    + intros a Ha. apply Nat.leb_le. apply H2. exact Ha.
    + destruct H3 as [H3|H3]; [left; exact H3 | right]. intros j Hj. apply existsb_eqb_In. apply H3. apply in_seq. lia.
  - intros (H1 & H2 & H3). split; [split|].
    + intros j Hj. apply in_seq in Hj. apply Nat.leb_le. apply H1. lia.
    + intros a Ha. apply Nat.leb_le. apply H2. exact Ha.
    + destruct H3 as [H3|H3]; [left; exact H3 | right]. intros j Hj. apply in_seq in Hj. apply existsb_eqb_In. apply H3. lia.
Qed.

Lemma single_tourb_ok acts : single_tourb acts = true <-> single_tour acts.
Proof.
  unfold single_tour. split.
  - induction acts as [|a r IH]; cbn [single_tourb]; [discriminate|]. destruct (Nat.eqb a 0) eqn:Ea.
    + apply Nat.eqb_eq in Ea. subst a. intros Hz. exists [], (length r). split; [|constructor]. cbn [app repeat]. f_equal.
      clear IH. induction r as [|b r IHr]; [reflexivity|]. cbn [forallb] in Hz. apply andb_prop in Hz as [Hb Hz].
      apply Nat.eqb_eq in Hb. subst b. cbn [length repeat]. f_equal. apply IHr. exact Hz.
    + intros H. destruct (IH H) as (cs & k & -> & Hnz). exists (a :: cs), k. split; [reflexivity|].
      constructor; [apply Nat.eqb_neq; exact Ea | exact Hnz].
  - intros (cs & k & -> & Hnz). induction Hnz as [|x cs Hx _ IH].
    + cbn. clear. induction k as [|k IH]; [reflexivity | exact IH].
    + cbn [app single_tourb]. apply Nat.eqb_neq in Hx. rewrite Hx. exact IH.
Qed.

Lemma pctsp_feasibleb_ok i acts : pctsp_feasibleb i 0 acts = true <-> pctsp_feasible i acts.
Proof. unfold pctsp_feasibleb, pctsp_feasible. rewrite andb_true_iff, single_tourb_ok, pctsp_validb_ok. tauto. Qed.

(* ---------------------------------------------------------------- which prize vector: the two environments *)
(* PCTSPEnv (stoch = false) collects the deterministic prize, SPCTSPEnv (stoch = true) the stochastic (revealed) one *)
Definition prize_of (v : list Z) (a : nat) : Z := nth a (0 :: v) 0.
Lemma prize_det i : stoch i = false -> prize i = prize_of (dprize i).
Proof. intros H. unfold prize, prize_wd, real_prize, prize_of. rewrite H. reflexivity. Qed.
Lemma prize_stoch i : stoch i = true -> prize i = prize_of (sprize i).
Proof. intros H. unfold prize, prize_wd, real_prize, prize_of. rewrite H. reflexivity. Qed.

Section Variants.
  Variable i : pctsp_inst.
  Variable v : list Z.
  Hypothesis Hv : prize i = prize_of v.

  Lemma mask_sound_v acts :
    pctsp_wf i -> adm (E:=E) i acts = true -> done E i (run (E:=E) i acts) = true ->
    (exists cs k, acts = cs ++ repeat 0%nat (S k) /\ Forall (fun x => x <> 0%nat) cs) /\
    NoDup (customers acts) /\
    (forall a, In a acts -> (a <= pn_of i)%nat) /\
    (preq i <= sumZ (map (prize_of v) (customers acts)) \/ forall j, (1 <= j <= pn_of i)%nat -> In j acts).
  Proof. intros Hwf Ha Hd. rewrite <- Hv. exact (pctsp_mask_sound i acts Hwf Ha Hd). Qed.

  Lemma mask_complete_v cs :
    pctsp_wf i -> cs <> [] -> NoDup cs -> (forall x, In x cs -> (1 <= x <= pn_of i)%nat) ->
    (preq i <= sumZ (map (prize_of v) cs) \/ forall j, (1 <= j <= pn_of i)%nat -> In j cs) ->
    adm (E:=E) i (cs ++ [0%nat]) = true /\ done E i (run (E:=E) i (cs ++ [0%nat])) = true.
  Proof. rewrite <- Hv. apply pctsp_mask_complete. Qed.

  Lemma checker_iff_v acts :
    pctsp_checker exact i acts = true <->
    NoDup (customers acts) /\ (forall a, In a acts -> (a <= pn_of i)%nat) /\
    (pthr i <= sumZ (map (prize_of v) (customers acts)) \/ forall j, (1 <= j <= pn_of i)%nat -> In j acts).
  Proof. rewrite <- Hv. apply pctsp_checker_iff. Qed.

  Lemma checker_complete_v acts :
    pthr i <= preq i ->
    NoDup (customers acts) -> (forall a, In a acts -> (a <= pn_of i)%nat) ->
    (preq i <= sumZ (map (prize_of v) (customers acts)) \/ forall j, (1 <= j <= pn_of i)%nat -> In j acts) ->
    pctsp_checker exact i acts = true.
  Proof. rewrite <- Hv. intros Ht H1 H2 H3. apply pctsp_checker_complete; [exact Ht|]. split; [exact H1|]. split; [exact H2 | exact H3]. Qed.

  Lemma checker_rejects_shortfall_v acts j :
    sumZ (map (prize_of v) (customers acts)) < pthr i -> (1 <= j <= pn_of i)%nat -> ~ In j acts ->
    pctsp_checker exact i acts = false.
  Proof. rewrite <- Hv. apply pctsp_checker_rejects_shortfall. Qed.
End Variants.

Definition mask_sound_det i (H : stoch i = false) := mask_sound_v i (dprize i) (prize_det i H).
Definition mask_sound_stoch i (H : stoch i = true) := mask_sound_v i (sprize i) (prize_stoch i H).
Definition mask_complete_det i (H : stoch i = false) := mask_complete_v i (dprize i) (prize_det i H).
Definition mask_complete_stoch i (H : stoch i = true) := mask_complete_v i (sprize i) (prize_stoch i H).
Definition checker_iff_det i (H : stoch i = false) := checker_iff_v i (dprize i) (prize_det i H).
Definition checker_iff_stoch i (H : stoch i = true) := checker_iff_v i (sprize i) (prize_stoch i H).
Definition checker_complete_det i (H : stoch i = false) := checker_complete_v i (dprize i) (prize_det i H).
Definition checker_complete_stoch i (H : stoch i = true) := checker_complete_v i (sprize i) (prize_stoch i H).
Definition checker_rejects_shortfall_det i (H : stoch i = false) := checker_rejects_shortfall_v i (dprize i) (prize_det i H).
Definition checker_rejects_shortfall_stoch i (H : stoch i = true) := checker_rejects_shortfall_v i (sprize i) (prize_stoch i H).
