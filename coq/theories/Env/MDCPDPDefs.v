(* MDCPDP: how the independent problem definition (Spec/MultiDepotPD.v) is read on an instance of the model,
   the documented input format [md_wfb], the solvability condition [md_solvableb], and the hypothesis
   [md_good] under which the code (as it is, or after some of the repairs) implements the problem. *)
From Coq Require Import ZArith List Bool Lia ZifyBool Arith.
From RL4CO Require Import Base.Num Base.EnvSig Spec.MultiDepotPD Env.MDCPDP.
Import ListNotations.
Open Scope Z_scope.

Definition dfun (i : md_inst) (a b : nat) : Z := mget (dist i) a b.
Definition hh (i : md_inst) : nat := (nloc i / 2)%nat.                      (* number of pickup-delivery pairs *)
(* capacity of the vehicle of depot e: the documented capacity has ONE column ("capacity of the vehicle"),
   shared by all vehicles; a capacity with one column per depot gives each vehicle its own *)
Definition vcap (i : md_inst) (e : nat) : Z := nth (if Nat.eqb (length (caps i)) 1 then 0%nat else e) (caps i) 0.

Definition spec_feasibleb (i : md_inst) (acts : list nat) : bool := md_feasibleb (ndep i) (hh i) (vcap i) acts.
Definition spec_objective (i : md_inst) (acts : list nat) : option Z :=
  md_objective (ndep i) (hh i) (dfun i) (opn i) (mode i) (one i) (lw i) acts.

(* documented input format: an even number of customers, at least one depot, a capacity row with one column
   (generator) or one column per depot, non-negative integer capacities, the start depot exists, the distance
   matrix is square over all nodes with a zero diagonal and non-negative entries, 0 <= lateness weight <= 1 *)
Definition md_wfb (i : md_inst) : bool :=
  Nat.even (nloc i) && Nat.ltb 0 (ndep i) &&
  (Nat.eqb (length (caps i)) 1 || Nat.eqb (length (caps i)) (ndep i)) &&
  forallb (fun c => 0 <=? c) (caps i) &&
  Nat.ltb (start i) (ndep i) &&
  Nat.eqb (length (dist i)) (ndep i + nloc i) &&
  forallb (fun row => Nat.eqb (length row) (ndep i + nloc i) && forallb (fun x => 0 <=? x) row) (dist i) &&
  forallb (fun j => mget (dist i) j j =? 0) (seq 0 (ndep i + nloc i)) &&
  (0 <=? lw i) && (lw i <=? one i) && (0 <? one i).

(* beyond the format, no dead end needs: every vehicle can carry at least one parcel *)
Definition md_solvableb (i : md_inst) : bool := forallb (fun c => 1 <=? c) (caps i).

(* the code (under the repairs F) sees the true number of depots, and its current depot is the depot of the
   vehicle on the road: true after the repairs fx_nd + fx_switch, and for the code as it is exactly on
   single-depot instances *)
Definition md_good (F : mdfix) (i : md_inst) : bool :=
  Nat.eqb (nd F i) (ndep i) && (fx_switch F || Nat.eqb (ndep i) 1) && (fx_switch F || Nat.eqb (start i) 0).

(* the reward mode is one the code computes: minsum, minmax, lateness, and lateness_square once its branch is reachable *)
Definition md_mode_ok (F : mdfix) (i : md_inst) : bool := Nat.ltb (mode i) 3 || (Nat.eqb (mode i) 3 && fx_sq F).
