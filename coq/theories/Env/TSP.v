(* TSPEnv (rl4co/envs/routing/tsp/env.py, class TSPEnv), one batch row, bookkeeping variable by variable,
   plus the batched wrapper that contains the batch-global first-step test of _step literally.
   Nodes are 0..n-1 (no depot).  Distances are instance data (scaled integers).
   DenseRewardTSPEnv._step repeats the same bookkeeping (its additional stepwise reward is not modelled); the
   correspondence ties it to this model as a variant. *)
From Coq Require Import ZArith List Bool Lia ZifyBool Arith.
From RL4CO Require Import Base.Num Base.EnvSig Base.SortNat Env.TourCore.
Import ListNotations.
Open Scope Z_scope.

Record tsp_inst := {
  tdist : list (list Z);    (* pairwise distances of td["locs"]: entry [a][b] = |loc a - loc b|; used by the reward only *)
}.
Definition tsp_n (i : tsp_inst) : nat := length (tdist i).     (* num_loc = td["locs"].shape[-2] *)
Definition tsp_d (i : tsp_inst) (a b : nat) : Z := mget (tdist i) a b.

Record tsp_st := {
  tfirst : nat;             (* td["first_node"] *)
  tcur : nat;               (* td["current_node"] *)
  tcnt : nat;               (* td["i"] *)
  tavail : list bool;       (* td["action_mask"]: True = not visited yet *)
  tdn : bool;               (* td["done"] *)
}.

Definition tsp_reset (i : tsp_inst) : tsp_st :=
  {| tfirst := 0; tcur := 0; tcnt := 0; tavail := repeat true (tsp_n i); tdn := false |}.

(* _step with the outcome [g] of the first-step test given *)
Definition tsp_step_g (g : bool) (s : tsp_st) (a : nat) : tsp_st :=
  let available := clear a (tavail s) in
  {| tfirst := if g then a else tfirst s;
     tcur := a;
     tcnt := S (tcnt s);
     tavail := available;
     tdn := Nat.eqb (countb available) 0 |}.       (* torch.sum(available, -1) == 0 *)

(* row-wise reading of the first-step test: this row's own counter is 0 *)
Definition tsp_step (i : tsp_inst) (s : tsp_st) (a : nat) : tsp_st := tsp_step_g (Nat.eqb (tcnt s) 0) s a.

(* scatter index must be inside the mask *)
Definition tsp_stepok (i : tsp_inst) (s : tsp_st) (a : nat) : bool := Nat.ltb a (length (tavail s)).

Definition tsp_mask (i : tsp_inst) (s : tsp_st) : list bool := tavail s.
Definition tsp_done (i : tsp_inst) (s : tsp_st) : bool := tdn s.

Definition TSP : Env := {|
  inst := tsp_inst; st := tsp_st;
  reset := tsp_reset; step := tsp_step; stepok := tsp_stepok; mask := tsp_mask; done := tsp_done |}.

(* ---------------------------------------------------------------- the batch as the code sees it *)
(* td["i"].all() == 0 : ".all()" is True iff every row's counter is non-zero; "== 0" negates it *)
Definition tsp_first_test (rows : list tsp_st) : bool :=
  negb (forallb (fun s => negb (Nat.eqb (tcnt s) 0)) rows).

Definition tsp_bstep (rows : list tsp_st) (acts : list nat) : list tsp_st :=
  map (fun sa => tsp_step_g (tsp_first_test rows) (fst sa) (snd sa)) (combine rows acts).

(* ---------------------------------------------------------------- _get_reward *)
(* gather_by_index(locs, actions); get_tour_length: sum_t |roll(x,-1)_t - x_t| -- the distance is evaluated with the
   arguments (next, current) *)
Definition tsp_reward (i : tsp_inst) (acts : list nat) : Z := - roll_sum (fun c nx => tsp_d i nx c) acts.
(* gather_by_index(locs, actions, squeeze=False) raises on an index outside locs.  (Before the fix aa30e65 --
   recorded as fixed in known_findings.json -- a SINGLE action made gather_by_index squeeze the city axis away and the
   result was one 0-dim number for the whole batch; the node axis is now kept for every length.) *)
Definition tsp_rewardok (i : tsp_inst) (acts : list nat) : bool := forallb (fun a => Nat.ltb a (tsp_n i)) acts.

(* ---------------------------------------------------------------- check_solution_validity *)
(* actions.size(1) == td["locs"].size(-2)  and  arange(actions.size(1)) == actions.sort(1)[0].
   (The length test was added by the fix 5d5f57a -- recorded as fixed in known_findings.json; before it a tour that
   omitted the highest-numbered cities was accepted.) *)
Definition tsp_checker (i : tsp_inst) (acts : list nat) : bool :=
  Nat.eqb (length acts) (tsp_n i) && sorted_is_arange acts.
