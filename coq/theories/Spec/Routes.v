(* Vocabulary of the independent problem definitions for depot-based routing: an action list is split
   at depot visits (node 0) into routes; loads and lengths are defined route-wise.  No environment model
   uses these definitions. *)
From Coq Require Import ZArith List Bool Lia ZifyBool Arith.
From RL4CO Require Import Base.Num.
Import ListNotations.
Open Scope Z_scope.

(* split at zeros; [curr] is the open route in reverse *)
Fixpoint routes_aux (acts : list nat) (curr : list nat) : list (list nat) :=
  match acts with
  | [] => [rev curr]
  | a :: r => if Nat.eqb a 0 then rev curr :: routes_aux r [] else routes_aux r (a :: curr)
  end.
Definition routes (acts : list nat) : list (list nat) := routes_aux acts [].

(* customers (non-depot actions) of an action list, in order *)
Definition customers (acts : list nat) : list nat := filter (fun a => negb (Nat.eqb a 0)) acts.

Lemma routes_aux_concat acts curr : concat (routes_aux acts curr) = rev curr ++ customers acts.
Proof.
  revert curr; induction acts as [|a r IH]; intros curr; simpl.
  - rewrite !app_nil_r. reflexivity.
  - destruct (Nat.eqb a 0) eqn:E; simpl.
    + rewrite IH. reflexivity.
    + rewrite IH. simpl. rewrite <- app_assoc. reflexivity.
Qed.
Lemma routes_concat acts : concat (routes acts) = customers acts.
Proof. unfold routes. rewrite routes_aux_concat. reflexivity. Qed.

(* length of the closed walk depot -> route -> depot under a distance matrix *)
Fixpoint path_len (d : nat -> nat -> Z) (from : nat) (r : list nat) : Z :=
  match r with
  | [] => d from 0%nat
  | x :: r' => d from x + path_len d x r'
  end.
Definition route_len (d : nat -> nat -> Z) (r : list nat) : Z := path_len d 0%nat r.
Definition total_len (d : nat -> nat -> Z) (acts : list nat) : Z := sumZ (map (route_len d) (routes acts)).

(* the "gather + roll" formulation used by the environments: consecutive distances along depot :: acts, cyclically *)
Fixpoint walk_len (d : nat -> nat -> Z) (from : nat) (acts : list nat) : Z :=
  match acts with
  | [] => d from 0%nat
  | a :: r => d from a + walk_len d a r
  end.
Definition cyclic_len (d : nat -> nat -> Z) (acts : list nat) : Z := walk_len d 0%nat acts.

Lemma last_default_irrel {A} (l : list A) (x d1 d2 : A) : last (x :: l) d1 = last (x :: l) d2.
Proof. revert x; induction l as [|y l IH]; intros x; [reflexivity|]. change (last (y :: l) d1 = last (y :: l) d2). apply IH. Qed.

Lemma path_len_snoc d l : forall f x,
  path_len d f (l ++ [x]) = path_len d f l - d (last l f) 0%nat + d (last l f) x + d x 0%nat.
Proof.
  induction l as [|y l IHl]; intros f x; [simpl; ring|].
  change (d f y + path_len d y (l ++ [x]) = d f y + path_len d y l - d (last (y :: l) f) 0%nat + d (last (y :: l) f) x + d x 0%nat).
  rewrite IHl. destruct l as [|z l]; [simpl; ring|].
  rewrite (last_default_irrel l z y f). change (last (y :: z :: l) f) with (last (z :: l) f). ring.
Qed.

Lemma walk_len_routes_aux d acts : d 0%nat 0%nat = 0 ->
  forall curr from, from = hd 0%nat curr ->
  path_len d 0%nat (rev curr) - d from 0%nat + walk_len d from acts
  = sumZ (map (route_len d) (routes_aux acts curr)).
Proof.
  intros H00. induction acts as [|a r IH]; intros curr from Hf; simpl.
  - unfold route_len. ring.
  - destruct (Nat.eqb a 0) eqn:E.
    + apply Nat.eqb_eq in E. subst a. simpl. rewrite <- (IH [] 0%nat eq_refl). simpl. unfold route_len. ring.
    + rewrite <- (IH (a :: curr) a eq_refl). simpl.
      rewrite path_len_snoc.
      assert (L : last (rev curr) 0%nat = from).
      { subst from. destruct curr as [|c curr]; simpl; [reflexivity|]. rewrite last_last. reflexivity. }
      rewrite L. ring.
Qed.

(* the env formulation equals the route-wise objective whenever d 0 0 = 0 *)
Theorem cyclic_len_is_total_len d acts : d 0%nat 0%nat = 0 -> cyclic_len d acts = total_len d acts.
Proof.
  intros H00. unfold cyclic_len, total_len, routes.
  rewrite <- (walk_len_routes_aux d acts H00 [] 0%nat eq_refl). simpl. ring.
Qed.

Lemma walk_len_zeros d n : d 0%nat 0%nat = 0 -> walk_len d 0%nat (repeat 0%nat n) = 0.
Proof. intros H00. induction n as [|n IHn]; simpl; [exact H00 | rewrite IHn, H00; reflexivity]. Qed.

(* extra depot visits after the end do not change the objective *)
Lemma walk_len_pad d from acts k : d 0%nat 0%nat = 0 ->
  walk_len d from (acts ++ repeat 0%nat k) = walk_len d from acts.
Proof.
  intros H00. revert from. induction acts as [|a r IH]; intros from; simpl.
  - destruct k as [|k]; [reflexivity|]. simpl. rewrite walk_len_zeros by exact H00. ring.
  - rewrite IH. reflexivity.
Qed.
