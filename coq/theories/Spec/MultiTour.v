(* Independent problem definition of the multiple travelling salesman problem (mTSP), in the vocabulary of
   Spec/Routes.v: an action list is split at depot visits into sub-tours; a solution uses at most m NON-EMPTY
   sub-tours (one per agent), visits every city exactly once, and is charged either the longest closed sub-tour
   (minmax) or the total closed length (sum).  No environment model uses these definitions. *)
From Coq Require Import ZArith List Bool Lia ZifyBool Arith.
From RL4CO Require Import Base.Num Spec.Routes.
Import ListNotations.
Open Scope Z_scope.

(* ------------------------------------------------------------------ maxima *)
Definition maxl (l : list Z) : Z := fold_right Z.max 0 l.
Lemma maxl_nonneg l : 0 <= maxl l.
Proof. induction l as [|x l IH]; simpl; lia. Qed.
Lemma maxl_app a b : maxl (a ++ b) = Z.max (maxl a) (maxl b).
Proof. induction a as [|x a IH]; simpl; [pose proof (maxl_nonneg b); lia | rewrite IH; lia]. Qed.
Lemma maxl_ge l x : In x l -> x <= maxl l.
Proof. induction l as [|y l IH]; simpl; [tauto|]. intros [->|H]; [lia | specialize (IH H); lia]. Qed.

(* ------------------------------------------------------------------ sub-tours of an action list *)
Definition nonemptyb (r : list nat) : bool := match r with [] => false | _ => true end.
Definition used_tours (acts : list nat) : nat := length (filter nonemptyb (routes acts)).

Lemma routes_aux_nonnil acts c : routes_aux acts c <> [].
Proof. revert c; induction acts as [|a r IH]; intros c; simpl; [discriminate|]. destruct (Nat.eqb a 0); [discriminate | apply IH]. Qed.

(* appending one action: a depot visit closes the open sub-tour and opens an empty one, a city extends the open one *)
Lemma routes_aux_snoc p : forall c cl o a,
  routes_aux p c = cl ++ [o] ->
  routes_aux (p ++ [a]) c = if Nat.eqb a 0 then cl ++ [o; []] else cl ++ [o ++ [a]].
Proof.
  induction p as [|x p IH]; intros c cl o a H; cbn [app routes_aux] in *.
  - destruct cl as [|h cl]; [|destruct cl; discriminate]. cbn in H. injection H as <-.
    destruct (Nat.eqb a 0); reflexivity.
  - destruct (Nat.eqb x 0) eqn:Ex.
    + destruct cl as [|h cl].
      * cbn in H. injection H as _ H. exfalso. exact (routes_aux_nonnil _ _ H).
      * cbn in H. injection H as <- H. rewrite (IH _ _ _ a H). destruct (Nat.eqb a 0); reflexivity.
    + apply IH. exact H.
Qed.
Lemma routes_snoc p cl o a : routes p = cl ++ [o] ->
  routes (p ++ [a]) = if Nat.eqb a 0 then cl ++ [o; []] else cl ++ [o ++ [a]].
Proof. apply routes_aux_snoc. Qed.
Lemma routes_split p : exists cl o, routes p = cl ++ [o].
Proof. destruct (exists_last (routes_aux_nonnil p [])) as (cl & o & H). exists cl, o. exact H. Qed.

(* ------------------------------------------------------------------ feasibility and objectives of an action list *)
(* n cities, m agents *)
Definition mtsp_feasible (n : nat) (m : Z) (acts : list nat) : Prop :=
  (forall j, (1 <= j <= n)%nat -> occ j acts = 1%nat) /\
  (forall a, In a acts -> (a <= n)%nat) /\
  Z.of_nat (used_tours acts) <= m.

Definition mtsp_feasibleb (n : nat) (m : Z) (acts : list nat) : bool :=
  forallb (fun j => Nat.eqb (occ j acts) 1) (seq 1 n) &&
  forallb (fun a => Nat.leb a n) acts &&
  (Z.of_nat (used_tours acts) <=? m).

Lemma mtsp_feasibleb_ok n m acts : mtsp_feasibleb n m acts = true <-> mtsp_feasible n m acts.
Proof.
  unfold mtsp_feasibleb, mtsp_feasible. rewrite !andb_true_iff, !forallb_forall. split.
  - intros [[H1 H2] H3]. repeat split.
    + intros j Hj. apply Nat.eqb_eq. apply H1. apply in_seq. lia.
    + intros a Ha. apply Nat.leb_le. apply H2. exact Ha.
    + lia.
  - intros (H1 & H2 & H3). repeat split.
    + intros j Hj. apply Nat.eqb_eq. apply H1. apply in_seq in Hj. lia.
    + intros a Ha. apply Nat.leb_le. apply H2. exact Ha.
    + lia.
Qed.

Definition minmax_len (d : nat -> nat -> Z) (acts : list nat) : Z := maxl (map (route_len d) (routes acts)).
Definition sum_len (d : nat -> nat -> Z) (acts : list nat) : Z := total_len d acts.

(* trailing depot visits (padding) add only empty sub-tours: neither objective changes *)
Lemma routes_pad acts k : routes (acts ++ repeat 0%nat k) = routes acts ++ repeat [] k.
Proof.
  induction k as [|k IH]; [cbn; rewrite !app_nil_r; reflexivity|].
  replace (repeat 0%nat (S k)) with (repeat 0%nat k ++ [0%nat]) by (symmetry; apply (repeat_cons k 0%nat)).
  replace (repeat (@nil nat) (S k)) with (repeat (@nil nat) k ++ [[]]) by (symmetry; apply (repeat_cons k (@nil nat))).
  rewrite app_assoc. destruct (routes_split (acts ++ repeat 0%nat k)) as (cl & o & H).
  rewrite (routes_snoc _ _ _ 0%nat H). cbn [Nat.eqb]. rewrite (app_assoc (routes acts)), <- IH, H, <- app_assoc. reflexivity.
Qed.
Lemma maxl_map_empty d k : d 0%nat 0%nat = 0 -> maxl (map (route_len d) (repeat [] k)) = 0.
Proof. intros H. induction k as [|k IH]; [reflexivity|]. cbn [repeat map maxl fold_right]. fold (maxl (map (route_len d) (repeat [] k))). rewrite IH. unfold route_len. cbn. lia. Qed.
Lemma minmax_len_pad d acts k : d 0%nat 0%nat = 0 -> minmax_len d (acts ++ repeat 0%nat k) = minmax_len d acts.
Proof.
  intros H. unfold minmax_len. rewrite routes_pad, map_app, maxl_app, maxl_map_empty by exact H.
  pose proof (maxl_nonneg (map (route_len d) (routes acts))). lia.
Qed.
Lemma sum_len_pad d acts k : d 0%nat 0%nat = 0 -> sum_len d (acts ++ repeat 0%nat k) = sum_len d acts.
Proof.
  intros H. unfold sum_len. rewrite <- !cyclic_len_is_total_len by exact H. unfold cyclic_len. apply walk_len_pad. exact H.
Qed.
Lemma used_tours_pad acts k : used_tours (acts ++ repeat 0%nat k) = used_tours acts.
Proof.
  unfold used_tours. rewrite routes_pad, filter_app, app_length.
  assert (E : filter nonemptyb (repeat [] k) = []) by (induction k as [|k IH]; [reflexivity | cbn; exact IH]).
  rewrite E. cbn. lia.
Qed.

(* ------------------------------------------------------------------ solutions as lists of sub-tours *)
(* a solution of the problem: one (possibly empty) sub-tour per employed agent, at most m of them, which together
   visit every city 1..n exactly once, each in any order *)
Definition mtsp_solution (n : nat) (m : Z) (rs : list (list nat)) : Prop :=
  Z.of_nat (length rs) <= m /\
  NoDup (concat rs) /\
  (forall x, In x (concat rs) <-> (1 <= x <= n)%nat).

(* canonical form imposed by the mask: empty sub-tours are dropped (an agent that visits no city is not employed) *)
Definition canon (rs : list (list nat)) : list (list nat) := filter nonemptyb rs.

Lemma canon_concat rs : concat (canon rs) = concat rs.
Proof. unfold canon. induction rs as [|r rs IH]; [reflexivity|]. destruct r as [|x r]; cbn [filter nonemptyb concat app]; [exact IH | rewrite IH; reflexivity]. Qed.
Lemma canon_length rs : (length (canon rs) <= length rs)%nat.
Proof. unfold canon. induction rs as [|r rs IH]; [cbn; lia|]. cbn [filter]. destruct (nonemptyb r); cbn [length]; lia. Qed.
Lemma canon_nonempty rs : Forall (fun r => r <> []) (canon rs).
Proof. apply Forall_forall. intros r Hr. apply filter_In in Hr as [_ H]. destruct r; [discriminate | discriminate]. Qed.
Lemma canon_solution n m rs : mtsp_solution n m rs -> mtsp_solution n m (canon rs).
Proof. intros (H1 & H2 & H3). pose proof (canon_length rs). unfold mtsp_solution. rewrite canon_concat. repeat split; try apply H3; auto; lia. Qed.

(* the two objectives of a set of sub-tours; canonicalisation changes neither (an empty sub-tour costs d 0 0 = 0) *)
Definition tours_minmax (d : nat -> nat -> Z) (rs : list (list nat)) : Z := maxl (map (route_len d) rs).
Definition tours_sum (d : nat -> nat -> Z) (rs : list (list nat)) : Z := sumZ (map (route_len d) rs).
Lemma canon_minmax d rs : d 0%nat 0%nat = 0 -> tours_minmax d (canon rs) = tours_minmax d rs.
Proof.
  intros H. unfold tours_minmax, canon, maxl. induction rs as [|r rs IH]; [reflexivity|].
  destruct r as [|x r]; cbn [filter nonemptyb map fold_right].
  - rewrite IH. pose proof (maxl_nonneg (map (route_len d) rs)) as P. unfold maxl in P.
    assert (E : route_len d [] = 0) by (unfold route_len; cbn; exact H). rewrite E. lia.
  - rewrite IH. reflexivity.
Qed.
Lemma canon_sum d rs : d 0%nat 0%nat = 0 -> tours_sum d (canon rs) = tours_sum d rs.
Proof.
  intros H. unfold tours_sum, canon. induction rs as [|r rs IH]; [reflexivity|].
  destruct r as [|x r]; cbn [filter nonemptyb map sumZ].
  - rewrite IH. assert (E : route_len d [] = 0) by (unfold route_len; cbn; exact H). rewrite E. lia.
  - rewrite IH. reflexivity.
Qed.

(* encoding of a canonical solution as an action list: sub-tours separated by ONE depot visit, no trailing depot
   (the row is finished when the last city is visited) *)
Fixpoint join0 (rs : list (list nat)) : list nat :=
  match rs with
  | [] => []
  | r :: rest => match rest with [] => r | _ => r ++ 0%nat :: join0 rest end
  end.

Lemma routes_aux_city_run r : Forall (fun x => x <> 0%nat) r -> forall c rest,
  routes_aux (r ++ rest) c = routes_aux rest (rev r ++ c).
Proof.
  induction r as [|x r IH]; intros Hr c rest; [reflexivity|]. inversion Hr as [|? ? Hx Hr']; subst.
  cbn [app routes_aux]. apply Nat.eqb_neq in Hx. rewrite Hx. rewrite IH by exact Hr'. cbn [rev]. rewrite <- app_assoc. reflexivity.
Qed.

Lemma routes_join0 rs : rs <> [] -> Forall (fun r => Forall (fun x => x <> 0%nat) r) rs -> routes (join0 rs) = rs.
Proof.
  unfold routes. induction rs as [|r rs IH]; intros Hne Hnz; [congruence|]. inversion Hnz as [|? ? Hr Hnz']; subst.
  cbn [join0]. destruct rs as [|r2 rs].
  - rewrite <- (app_nil_r r) at 1. rewrite routes_aux_city_run by exact Hr. cbn. rewrite app_nil_r, rev_involutive. reflexivity.
  - rewrite routes_aux_city_run by exact Hr. cbn [routes_aux Nat.eqb]. rewrite app_nil_r, rev_involutive. f_equal.
    apply IH; [discriminate | exact Hnz'].
Qed.
