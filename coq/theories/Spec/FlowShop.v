(* Independent problem definition for the flexible flow shop (used by C07, unit ffsp).

   Data: J jobs, S stages, M machines per stage; machine m (0 <= m < S*M) belongs to stage m / M; pt j m is the
   processing time of job j on machine m.  A schedule is a machine-major table of optional start times:
   entry sch m j = Some t  means "job j is processed on machine m during [t, t + pt j m)".
   Nothing here mentions the environment's bookkeeping (wait counters, sub-time index, ...). *)
From Coq Require Import ZArith List Bool Lia ZifyBool Arith.
From RL4CO Require Import Base.FFSPLists.
Import ListNotations.
Open Scope Z_scope.

Module FlowShop.

Definition sched := list (list (option Z)).
Definition entry (sch : sched) (m j : nat) : option Z := nth j (nth m sch []) None.
Definition is_some {A} (o : option A) : bool := match o with Some _ => true | None => false end.

Section Spec.
Variables (J S M : nat) (pt : nat -> nat -> Z).
Let T := (S * M)%nat.

Record valid (sch : sched) : Prop := {
  (* shape of the table *)
  v_rows : length sch = T;
  v_cols : forall m, (m < T)%nat -> length (nth m sch []) = J;
  (* start times are non-negative *)
  v_start : forall m j t, (m < T)%nat -> (j < J)%nat -> entry sch m j = Some t -> 0 <= t;
  (* every job is processed in every stage, on a machine of that stage ... *)
  v_once : forall j s, (j < J)%nat -> (s < S)%nat ->
      exists m, (m < T)%nat /\ (m / M)%nat = s /\ entry sch m j <> None;
  (* ... and on one machine of that stage only (exactly once per stage) *)
  v_unique : forall j m1 m2, (j < J)%nat -> (m1 < T)%nat -> (m2 < T)%nat -> (m1 / M = m2 / M)%nat ->
      entry sch m1 j <> None -> entry sch m2 j <> None -> m1 = m2;
  (* stages of a job run in order and do not overlap: a later stage starts after an earlier one has finished *)
  v_order : forall j m1 m2 t1 t2, (j < J)%nat -> (m1 < T)%nat -> (m2 < T)%nat -> (m1 / M < m2 / M)%nat ->
      entry sch m1 j = Some t1 -> entry sch m2 j = Some t2 -> t1 + pt j m1 <= t2;
  (* no machine processes two jobs at the same time *)
  v_mach : forall m j1 j2 t1 t2, (m < T)%nat -> (j1 < J)%nat -> (j2 < J)%nat -> j1 <> j2 ->
      entry sch m j1 = Some t1 -> entry sch m j2 = Some t2 ->
      t1 + pt j1 m <= t2 \/ t2 + pt j2 m <= t1;
}.

(* C is the makespan: the latest completion time over all processed operations *)
Definition is_makespan (sch : sched) (C : Z) : Prop :=
  (exists m j t, (m < T)%nat /\ (j < J)%nat /\ entry sch m j = Some t /\ C = t + pt j m) /\
  (forall m j t, (m < T)%nat -> (j < J)%nat -> entry sch m j = Some t -> t + pt j m <= C).

(* ---------------- boolean twin (evaluated on every implementation schedule) ---------------- *)
Definition all_lt (n : nat) (f : nat -> bool) : bool := forallb f (seq 0 n).

Definition count_stage (sch : sched) (j s : nat) : nat :=
  length (filter (fun m => Nat.eqb (m / M) s && is_some (entry sch m j)) (seq 0 T)).

Definition validb (sch : sched) : bool :=
  Nat.eqb (length sch) T
  && all_lt T (fun m => Nat.eqb (length (nth m sch [])) J)
  && all_lt T (fun m => all_lt J (fun j => match entry sch m j with Some t => 0 <=? t | None => true end))
  && all_lt J (fun j => all_lt S (fun s => Nat.eqb (count_stage sch j s) 1))
  && all_lt J (fun j => all_lt T (fun m1 => all_lt T (fun m2 =>
        if Nat.ltb (m1 / M) (m2 / M) then
          match entry sch m1 j, entry sch m2 j with
          | Some t1, Some t2 => t1 + pt j m1 <=? t2
          | _, _ => true
          end
        else true)))
  && all_lt T (fun m => all_lt J (fun j1 => all_lt J (fun j2 =>
        if Nat.eqb j1 j2 then true else
          match entry sch m j1, entry sch m j2 with
          | Some t1, Some t2 => (t1 + pt j1 m <=? t2) || (t2 + pt j2 m <=? t1)
          | _, _ => true
          end))).

Definition completions (sch : sched) : list Z :=
  flat_map (fun m => flat_map (fun j => match entry sch m j with Some t => [t + pt j m] | None => [] end)
                              (seq 0 J)) (seq 0 T).

Definition is_makespanb (sch : sched) (C : Z) : bool :=
  match completions sch with [] => false | _ => C =? maxl (completions sch) end.

Lemma all_lt_spec n f : all_lt n f = true <-> forall k, (k < n)%nat -> f k = true.
Proof.
  unfold all_lt. rewrite forallb_forall. split.
  - intros H k Hk. apply H. apply in_seq. lia.
  - intros H k Hk. apply in_seq in Hk. apply H. lia.
Qed.

Lemma filter_length_one {A} (f : A -> bool) (l : list A) :
  NoDup l -> length (filter f l) = 1%nat ->
  exists x, In x l /\ f x = true /\ forall y, In y l -> f y = true -> y = x.
Proof.
  intros Hnd Hlen. destruct (filter f l) as [|x [|z r]] eqn:E; try discriminate.
  assert (Hx : In x (filter f l)) by (rewrite E; left; reflexivity).
  apply filter_In in Hx as [Hx1 Hx2]. exists x. split; [exact Hx1|]. split; [exact Hx2|].
  intros y Hy Hfy. assert (Hy' : In y (filter f l)) by (apply filter_In; auto).
  rewrite E in Hy'. destruct Hy' as [->|[]]. reflexivity.
Qed.

Theorem validb_sound sch : validb sch = true -> valid sch.
Proof.
  unfold validb. intros H.
  repeat (apply andb_prop in H; destruct H as [H ?]).
  rename H into Hrows, H4 into Hcols, H3 into Hstart, H2 into Honce, H1 into Hord, H0 into Hmach.
  assert (Hcnt : forall j s, (j < J)%nat -> (s < S)%nat -> count_stage sch j s = 1%nat).
  { intros j s Hj Hs. rewrite all_lt_spec in Honce. specialize (Honce j Hj). rewrite all_lt_spec in Honce.
    apply Nat.eqb_eq. apply Honce. exact Hs. }
  constructor.
  - apply Nat.eqb_eq. exact Hrows.
  - intros m Hm. rewrite all_lt_spec in Hcols. apply Nat.eqb_eq. apply Hcols. exact Hm.
  - intros m j t Hm Hj E. rewrite all_lt_spec in Hstart. specialize (Hstart m Hm).
    rewrite all_lt_spec in Hstart. specialize (Hstart j Hj). rewrite E in Hstart. lia.
  - intros j s Hj Hs. specialize (Hcnt j s Hj Hs). unfold count_stage in Hcnt.
    destruct (filter_length_one _ _ (seq_NoDup T 0) Hcnt) as [m [Hin [Hf _]]].
    apply in_seq in Hin. apply andb_prop in Hf as [Hf1 Hf2]. apply Nat.eqb_eq in Hf1.
    exists m. split; [lia|]. split; [exact Hf1|]. destruct (entry sch m j); [discriminate|discriminate].
  - intros j m1 m2 Hj Hm1 Hm2 Hst E1 E2.
    assert (Hs : (m1 / M < S)%nat).
    { unfold T in Hm1. destruct (Nat.eq_dec M 0) as [E0|E0]; [rewrite E0 in Hm1; lia|].
      apply Nat.div_lt_upper_bound; [exact E0|]. lia. }
    specialize (Hcnt j (m1 / M)%nat Hj Hs). unfold count_stage in Hcnt.
    destruct (filter_length_one _ _ (seq_NoDup T 0) Hcnt) as [m [_ [_ Huniq]]].
    assert (H1 : m1 = m).
    { apply Huniq; [apply in_seq; lia|]. rewrite Nat.eqb_refl. destruct (entry sch m1 j); [reflexivity|congruence]. }
    assert (H2 : m2 = m).
    { apply Huniq; [apply in_seq; lia|]. rewrite <- Hst, Nat.eqb_refl. destruct (entry sch m2 j); [reflexivity|congruence]. }
    congruence.
  - intros j m1 m2 t1 t2 Hj Hm1 Hm2 Hlt E1 E2.
    rewrite all_lt_spec in Hord. specialize (Hord j Hj). rewrite all_lt_spec in Hord. specialize (Hord m1 Hm1).
    rewrite all_lt_spec in Hord. specialize (Hord m2 Hm2). rewrite E1, E2 in Hord.
    apply Nat.ltb_lt in Hlt. rewrite Hlt in Hord. lia.
  - intros m j1 j2 t1 t2 Hm Hj1 Hj2 Hne E1 E2.
    rewrite all_lt_spec in Hmach. specialize (Hmach m Hm). rewrite all_lt_spec in Hmach. specialize (Hmach j1 Hj1).
    rewrite all_lt_spec in Hmach. specialize (Hmach j2 Hj2). rewrite E1, E2 in Hmach.
    apply Nat.eqb_neq in Hne. rewrite Hne in Hmach. lia.
Qed.

Lemma completions_in sch c :
  In c (completions sch) <->
  exists m j t, (m < T)%nat /\ (j < J)%nat /\ entry sch m j = Some t /\ c = t + pt j m.
Proof.
  unfold completions. rewrite in_flat_map. split.
  - intros [m [Hm H]]. apply in_flat_map in H as [j [Hj H]]. apply in_seq in Hm. apply in_seq in Hj.
    destruct (entry sch m j) as [t|] eqn:E; [|destruct H]. destruct H as [<-|[]].
    exists m, j, t. repeat split; try lia. exact E.
  - intros [m [j [t [Hm [Hj [E ->]]]]]]. exists m. split; [apply in_seq; lia|].
    apply in_flat_map. exists j. split; [apply in_seq; lia|]. rewrite E. left. reflexivity.
Qed.

Theorem is_makespanb_sound sch C : is_makespanb sch C = true -> is_makespan sch C.
Proof.
  unfold is_makespanb. destruct (completions sch) as [|c0 r] eqn:E; [discriminate|].
  intros H. apply Z.eqb_eq in H. subst C. rewrite <- E. split.
  - apply completions_in. apply maxl_in. rewrite E. discriminate.
  - intros m j t Hm Hj Het. apply maxl_ge. apply completions_in. exists m, j, t. auto.
Qed.

Theorem is_makespan_unique sch C1 C2 : is_makespan sch C1 -> is_makespan sch C2 -> C1 = C2.
Proof.
  intros [[m1 [j1 [t1 [Hm1 [Hj1 [E1 ->]]]]]] U1] [[m2 [j2 [t2 [Hm2 [Hj2 [E2 ->]]]]]] U2].
  pose proof (U1 m2 j2 t2 Hm2 Hj2 E2). pose proof (U2 m1 j1 t1 Hm1 Hj1 E1). lia.
Qed.

End Spec.

(* a valid 2-job, 2-stage, 1-machine-per-stage schedule, and an invalid one (overlap on machine 0) *)
Definition ex_pt (j m : nat) : Z := nth m (nth j [[2; 1]; [1; 3]] []) 0.
Example ex_valid : validb 2 2 1 ex_pt [[Some 0; Some 2]; [Some 2; Some 3]] = true /\
  is_makespanb 2 2 1 ex_pt [[Some 0; Some 2]; [Some 2; Some 3]] 6 = true.
Proof. vm_compute. split; reflexivity. Qed.
Example ex_invalid : validb 2 2 1 ex_pt [[Some 0; Some 1]; [Some 2; Some 3]] = false.
Proof. vm_compute. reflexivity. Qed.

End FlowShop.
