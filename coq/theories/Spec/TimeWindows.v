(* Vocabulary of the independent problem definition for routing with time windows (VRPTW):
   every route is driven by its own vehicle, which leaves the depot (node 0) at time 0; travelling from a to b takes
   [d a b]; a vehicle that arrives before the window of a customer opens waits until [lo x]; service must START no
   later than [hi x] and takes [dur x]; the vehicle must be back at the depot no later than the depot's deadline
   [hi 0].  [sl] relaxes every deadline by a slack (0 = the definition itself).  No environment model uses these
   definitions. *)
From Coq Require Import ZArith List Bool Lia ZifyBool Arith.
From RL4CO Require Import Base.Num Spec.Routes.
Import ListNotations.
Open Scope Z_scope.

Lemma last_cons2 {A} (y z : A) r f : last (y :: z :: r) f = last (z :: r) y.
Proof. change (last (y :: z :: r) f) with (last (z :: r) f). apply last_default_irrel. Qed.

Section TW.
  Variables (d : nat -> nat -> Z) (lo hi dur : nat -> Z) (sl : Z).

  (* the definition: simulate the route from node [from], left at time [t] *)
  Fixpoint route_times_ok (from : nat) (t : Z) (r : list nat) : Prop :=
    match r with
    | [] => t + d from 0%nat <= hi 0%nat + sl
    | x :: r' =>
        let start := Z.max (t + d from x) (lo x) in
        start <= hi x + sl /\ route_times_ok x (start + dur x) r'
    end.
  Definition route_tw_ok (r : list nat) : Prop := route_times_ok 0%nat 0 r.

  (* the same, split into: departure time after the last node, services start in time, return in time *)
  Fixpoint depart (from : nat) (t : Z) (r : list nat) : Z :=
    match r with
    | [] => t
    | x :: r' => depart x (Z.max (t + d from x) (lo x) + dur x) r'
    end.
  Fixpoint starts_ok (from : nat) (t : Z) (r : list nat) : Prop :=
    match r with
    | [] => True
    | x :: r' => Z.max (t + d from x) (lo x) <= hi x + sl /\ starts_ok x (Z.max (t + d from x) (lo x) + dur x) r'
    end.

  Lemma route_times_ok_split r : forall from t,
    route_times_ok from t r <-> starts_ok from t r /\ depart from t r + d (last r from) 0%nat <= hi 0%nat + sl.
  Proof.
    induction r as [|x r IH]; intros from t; cbn [route_times_ok starts_ok depart].
    - tauto.
    - rewrite IH. destruct r as [|y r]; [cbn; tauto|].
      rewrite (last_cons2 x y r from). tauto.
  Qed.

  Lemma depart_snoc r x : forall from t,
    depart from t (r ++ [x]) = Z.max (depart from t r + d (last r from) x) (lo x) + dur x.
  Proof.
    induction r as [|y r IH]; intros from t; [reflexivity|].
    change ((y :: r) ++ [x]) with (y :: (r ++ [x])). cbn [depart]. rewrite IH.
    destruct r as [|z r]; [reflexivity|]. rewrite (last_cons2 y z r from). reflexivity.
  Qed.

  Lemma starts_ok_snoc r x : forall from t,
    starts_ok from t (r ++ [x]) <->
    starts_ok from t r /\ Z.max (depart from t r + d (last r from) x) (lo x) <= hi x + sl.
  Proof.
    induction r as [|y r IH]; intros from t.
    - cbn. tauto.
    - change ((y :: r) ++ [x]) with (y :: (r ++ [x])). cbn [starts_ok depart]. rewrite IH.
      destruct r as [|z r]; [cbn; tauto|]. rewrite (last_cons2 y z r from). tauto.
  Qed.

  Lemma starts_ok_app_l a b : forall from t, starts_ok from t (a ++ b) -> starts_ok from t a.
  Proof.
    induction a as [|x a IH]; intros from t H; [exact I|].
    change ((x :: a) ++ b) with (x :: (a ++ b)) in H. cbn [starts_ok] in *. destruct H as [H1 H2]. split; [exact H1 | eapply IH; exact H2].
  Qed.

  (* a vehicle that served its last customer in time leaves it no later than deadline + service duration *)
  Lemma depart_le r x : forall from t,
    starts_ok from t (r ++ [x]) -> depart from t (r ++ [x]) <= hi x + sl + dur x.
  Proof. intros from t H. apply starts_ok_snoc in H as [_ H]. rewrite depart_snoc. lia. Qed.

  (* executable twins *)
  Fixpoint route_times_okb (from : nat) (t : Z) (r : list nat) : bool :=
    match r with
    | [] => t + d from 0%nat <=? hi 0%nat + sl
    | x :: r' =>
        let start := Z.max (t + d from x) (lo x) in
        (start <=? hi x + sl) && route_times_okb x (start + dur x) r'
    end.
  Lemma route_times_okb_ok r : forall from t, route_times_okb from t r = true <-> route_times_ok from t r.
  Proof.
    induction r as [|x r IH]; intros from t; cbn [route_times_okb route_times_ok].
    - apply Z.leb_le.
    - rewrite andb_true_iff, IH, Z.leb_le. tauto.
  Qed.

  Fixpoint starts_okb (from : nat) (t : Z) (r : list nat) : bool :=
    match r with
    | [] => true
    | x :: r' => (Z.max (t + d from x) (lo x) <=? hi x + sl) && starts_okb x (Z.max (t + d from x) (lo x) + dur x) r'
    end.
  Lemma starts_okb_ok r : forall from t, starts_okb from t r = true <-> starts_ok from t r.
  Proof.
    induction r as [|x r IH]; intros from t; cbn [starts_okb starts_ok]; [tauto|].
    rewrite andb_true_iff, IH, Z.leb_le. tauto.
  Qed.

  (* the action-list ("walk") formulation: the depot resets the clock *)
  Fixpoint walk_tw_ok (from : nat) (t : Z) (acts : list nat) : Prop :=
    match acts with
    | [] => t + d from 0%nat <= hi 0%nat + sl
    | a :: r =>
        if Nat.eqb a 0 then t + d from 0%nat <= hi 0%nat + sl /\ walk_tw_ok 0%nat 0 r
        else Z.max (t + d from a) (lo a) <= hi a + sl /\ walk_tw_ok a (Z.max (t + d from a) (lo a) + dur a) r
    end.

  (* walking the action list from the end of the open route [rev c] is the route-wise definition on the split *)
  Lemma walk_tw_ok_routes acts : forall c,
    (starts_ok 0%nat 0 (rev c) /\ walk_tw_ok (hd 0%nat c) (depart 0%nat 0 (rev c)) acts) <->
    Forall route_tw_ok (routes_aux acts c).
  Proof.
    assert (L : forall c, last (rev c) 0%nat = hd 0%nat c).
    { intros [|x c]; [reflexivity|]. cbn [rev hd]. apply last_last. }
    induction acts as [|a r IH]; intros c; cbn [walk_tw_ok routes_aux].
    - unfold route_tw_ok. split.
      + intros [H1 H2]. constructor; [|constructor]. apply route_times_ok_split. rewrite L. tauto.
      + intros H. inversion H as [|? ? H1 _]; subst. apply route_times_ok_split in H1. rewrite L in H1. exact H1.
    - destruct (Nat.eqb a 0) eqn:Ea.
      + specialize (IH []). cbn [rev hd depart starts_ok] in IH. split.
        * intros [H1 [H2 H3]]. constructor; [|apply IH; tauto]. apply route_times_ok_split. rewrite L. tauto.
        * intros H. inversion H as [|? ? H1 H2]; subst. apply route_times_ok_split in H1. rewrite L in H1. apply IH in H2. tauto.
      + rewrite <- (IH (a :: c)). cbn [rev hd]. rewrite starts_ok_snoc, depart_snoc, L. tauto.
  Qed.

  Lemma walk_tw_ok_routes0 acts : walk_tw_ok 0%nat 0 acts <-> Forall route_tw_ok (routes acts).
  Proof. unfold routes. rewrite <- walk_tw_ok_routes. cbn. tauto. Qed.
End TW.

(* [P] on every element but the last, [Q] on the last one (used for "all routes, with less known of the open one") *)
Fixpoint sat_last {A} (P Q : A -> Prop) (l : list A) : Prop :=
  match l with
  | [] => True
  | x :: l' => match l' with [] => Q x | _ :: _ => P x /\ sat_last P Q l' end
  end.
Lemma sat_last_cons {A} (P Q : A -> Prop) x l : l <> [] -> (sat_last P Q (x :: l) <-> P x /\ sat_last P Q l).
Proof. destruct l as [|y l]; [congruence|]. intros _. cbn [sat_last]. tauto. Qed.
Lemma sat_last_same {A} (P : A -> Prop) l : sat_last P P l <-> Forall P l.
Proof.
  induction l as [|x l IH]; [cbn; split; auto|].
  destruct l as [|y l].
  - cbn. split; [intros H; constructor; [exact H | constructor] | intros H; inversion H; assumption].
  - rewrite sat_last_cons by discriminate. rewrite IH. split; [intros [H1 H2]; constructor; assumption | intros H; inversion H; tauto].
Qed.
Lemma routes_aux_nonempty acts : forall c, routes_aux acts c <> [].
Proof. induction acts as [|a r IH]; intros c; cbn [routes_aux]; [discriminate|]. destruct (Nat.eqb a 0); [discriminate | apply IH]. Qed.

(* a larger slack accepts more *)
Lemma route_times_ok_mono d lo hi dur s1 s2 r : s1 <= s2 -> forall from t,
  route_times_ok d lo hi dur s1 from t r -> route_times_ok d lo hi dur s2 from t r.
Proof.
  intros Hs. induction r as [|x r IH]; intros from t; cbn [route_times_ok]; [lia|].
  intros [H1 H2]. split; [lia | apply IH; exact H2].
Qed.
