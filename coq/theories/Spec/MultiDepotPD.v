(* Vocabulary of the independent problem definition of the multi-depot capacitated pickup-and-delivery problem
   (MDCPDP).  Written from the problem statement (class docstring of MDCPDPEnv and the cited literature), not from
   the code.  No environment model uses these definitions.

   Nodes: depots 0 .. nd-1 (one vehicle per depot), pickups nd .. nd+h-1, deliveries nd+h .. nd+2h-1; the delivery
   of pickup p is p + h.  A solution is written as the library writes it: an action list
        e1, customers ..., e1,   e2, customers ..., e2,   ...   ek, customers ...
   every vehicle's route starts with its depot and is closed by a second visit of the same depot; the return of the
   last vehicle is implied (it is "appended" by the reward function, see the docstring of _get_reward). *)
From Coq Require Import ZArith List Bool Lia ZifyBool Arith.
From RL4CO Require Import Base.Num.
Import ListNotations.
Open Scope Z_scope.

Record mroute := { rdep : nat; rcus : list nat }.

(* reading an action list: routes already closed (in order) and the route being driven, if any *)
Record pstate := { closed : list mroute; openr : option mroute }.
Definition pstart : pstate := {| closed := []; openr := None |}.

Definition parse_step (nd : nat) (ps : pstate) (a : nat) : option pstate :=
  if Nat.ltb a nd then
    match openr ps with
    | None => Some {| closed := closed ps; openr := Some {| rdep := a; rcus := [] |} |}       (* a vehicle leaves its depot *)
    | Some r => if Nat.eqb a (rdep r)
                then Some {| closed := closed ps ++ [r]; openr := None |}                    (* ... and comes home *)
                else None                                      (* a vehicle may not end at / pass through another depot *)
    end
  else
    match openr ps with
    | None => None                                              (* a customer can only be served by a vehicle on the road *)
    | Some r => Some {| closed := closed ps; openr := Some {| rdep := rdep r; rcus := rcus r ++ [a] |} |}
    end.

Fixpoint parse_from (nd : nat) (ps : pstate) (acts : list nat) : option pstate :=
  match acts with
  | [] => Some ps
  | a :: r => match parse_step nd ps a with Some ps' => parse_from nd ps' r | None => None end
  end.
Definition parse (nd : nat) (acts : list nat) : option pstate := parse_from nd pstart acts.

Definition all_routes (ps : pstate) : list mroute :=
  closed ps ++ match openr ps with Some r => [r] | None => [] end.

Lemma parse_from_app nd acts1 acts2 ps :
  parse_from nd ps (acts1 ++ acts2) =
  match parse_from nd ps acts1 with Some ps' => parse_from nd ps' acts2 | None => None end.
Proof.
  revert ps; induction acts1 as [|a r IH]; intros ps; cbn [app parse_from]; [reflexivity|].
  destruct (parse_step nd ps a); [apply IH | reflexivity].
Qed.
Lemma parse_snoc nd acts a :
  parse nd (acts ++ [a]) = match parse nd acts with Some ps => parse_step nd ps a | None => None end.
Proof.
  unfold parse. rewrite parse_from_app. destruct (parse_from nd pstart acts) as [ps|]; [|reflexivity].
  cbn [parse_from]. destruct (parse_step nd ps a); reflexivity.
Qed.

(* ---------------------------------------------------------------- one route *)
Definition is_pick (nd h a : nat) : bool := Nat.leb nd a && Nat.ltb a (nd + h).
Definition is_del (nd h a : nat) : bool := Nat.leb (nd + h) a && Nat.ltb a (nd + 2 * h).
(* change of the number of parcels on board when the node is served *)
Definition delta (nd h a : nat) : Z := if is_pick nd h a then 1 else if is_del nd h a then -1 else 0.

(* drive along the customers of a route: [seen] = customers already served on THIS route, [k] = parcels on board.
   Every served node keeps the load within the capacity, and a delivery needs its pickup earlier on this route. *)
Fixpoint route_walkb (nd h : nat) (cap : Z) (seen : list nat) (k : Z) (l : list nat) : bool :=
  match l with
  | [] => true
  | a :: r =>
      let k' := k + delta nd h a in
      (k' <=? cap) &&
      (if is_del nd h a then existsb (Nat.eqb (a - h)) seen else true) &&
      route_walkb nd h cap (a :: seen) k' r
  end.
Definition route_okb (nd h : nat) (cap : Z) (r : mroute) : bool := route_walkb nd h cap [] 0 (rcus r).

(* ---------------------------------------------------------------- whole solution *)
(* vcap e = capacity of the vehicle of depot e *)
Definition md_feasibleb (nd h : nat) (vcap : nat -> Z) (acts : list nat) : bool :=
  match parse nd acts with
  | None => false
  | Some ps =>
      let rs := all_routes ps in
      forallb (fun e => Nat.eqb (occ e (map rdep rs)) 1) (seq 0 nd) &&          (* every vehicle drives exactly one route *)
      forallb (fun c => Nat.eqb (occ c acts) 1) (seq nd (2 * h)) &&                 (* every customer served exactly once *)
      forallb (fun a => Nat.ltb a (nd + 2 * h)) acts &&                             (* only existing nodes *)
      forallb (fun r => route_okb nd h (vcap (rdep r)) r) rs                        (* load and precedence on each route *)
  end.
Definition md_feasible (nd h : nat) (vcap : nat -> Z) (acts : list nat) : Prop := md_feasibleb nd h vcap acts = true.

(* ---------------------------------------------------------------- objective *)
(* length of a route from its depot through its customers, and home again unless the problem is "open";
   [late] adds up the distance travelled by the vehicle when it reaches each delivery node *)
Fixpoint walk_acc (nd h : nat) (d : nat -> nat -> Z) (from : nat) (t : Z) (l : list nat) : Z * Z * nat :=
  match l with
  | [] => (t, 0, from)
  | a :: r =>
      let t' := t + d from a in
      match walk_acc nd h d a t' r with
      | (tot, late, lst) => (tot, (if is_del nd h a then t' else 0) + late, lst)
      end
  end.
Definition route_length (nd h : nat) (d : nat -> nat -> Z) (opn : bool) (r : mroute) : Z :=
  match walk_acc nd h d (rdep r) 0 (rcus r) with
  | (tot, _, lst) => if opn then tot else tot + d lst (rdep r)
  end.
Definition route_late (nd h : nat) (d : nat -> nat -> Z) (r : mroute) : Z :=
  match walk_acc nd h d (rdep r) 0 (rcus r) with (_, late, _) => late end.

(* sum of the SQUARES of the distances travelled by the vehicle when it reaches each delivery node *)
Fixpoint walk_sq (nd h : nat) (d : nat -> nat -> Z) (from : nat) (t : Z) (l : list nat) : Z :=
  match l with
  | [] => 0
  | a :: r => let t' := t + d from a in (if is_del nd h a then t' * t' else 0) + walk_sq nd h d a t' r
  end.
Definition route_late_sq (nd h : nat) (d : nat -> nat -> Z) (r : mroute) : Z := walk_sq nd h d (rdep r) 0 (rcus r).

Definition maxZ (l : list Z) : Z := match l with [] => 0 | x :: r => fold_left Z.max r x end.

(* cost of a solution, in units of [one] (the scaled 1.0) times the distance unit:
   mode 0 min-sum, 1 min-max, 2 lateness with weight w (w = one: lateness only; w = 0: length only),
   mode 3 lateness-square: the squared arrival distances take the place of the arrival distances (a square of a
   distance carries one more factor of the scale, so this mode is in units of [one]^2 times the distance unit) *)
Definition md_cost (nd h : nat) (d : nat -> nat -> Z) (opn : bool) (mode : nat) (one w : Z) (rs : list mroute) : Z :=
  let lens := map (route_length nd h d opn) rs in
  match mode with
  | O => one * sumZ lens
  | S O => one * maxZ lens
  | S (S O) => (one - w) * sumZ lens + w * sumZ (map (route_late nd h d) rs)
  | _ => one * (one - w) * sumZ lens + w * sumZ (map (route_late_sq nd h d) rs)
  end.
Definition md_objective (nd h : nat) (d : nat -> nat -> Z) (opn : bool) (mode : nat) (one w : Z) (acts : list nat) : option Z :=
  match parse nd acts with
  | Some ps => Some (- md_cost nd h d opn mode one w (all_routes ps))
  | None => None
  end.
