(* Vocabulary of the independent problem definitions for single-tour problems (TSP, ATSP, PDP):
   "every node exactly once", the length of a closed tour under a (possibly asymmetric) cost function,
   and the position of a node in a visiting order.  No environment model uses these definitions. *)
From Coq Require Import ZArith List Bool Lia ZifyBool Arith Permutation.
From RL4CO Require Import Base.Num.
Import ListNotations.
Open Scope Z_scope.

(* the nodes 0..n-1 are each visited exactly once and nothing else is visited *)
Definition visits_each_once (n : nat) (l : list nat) : Prop :=
  (forall j, (j < n)%nat -> occ j l = 1%nat) /\ (forall a, In a l -> (a < n)%nat).

Definition visits_each_onceb (n : nat) (l : list nat) : bool :=
  forallb (fun j => Nat.eqb (occ j l) 1) (seq 0 n) && forallb (fun a => Nat.ltb a n) l.

Lemma visits_each_onceb_ok n l : visits_each_onceb n l = true <-> visits_each_once n l.
Proof.
  unfold visits_each_onceb, visits_each_once. rewrite andb_true_iff, !forallb_forall. split.
  - intros [H1 H2]. split.
    + intros j Hj. apply Nat.eqb_eq. apply H1. apply in_seq. lia.
    + intros a Ha. apply Nat.ltb_lt. apply H2. exact Ha.
  - intros [H1 H2]. split.
    + intros j Hj. apply Nat.eqb_eq. apply H1. apply in_seq in Hj. lia.
    + intros a Ha. apply Nat.ltb_lt. apply H2. exact Ha.
Qed.

(* cost of walking along l: d from each node to its successor (the direction matters when d is asymmetric) *)
Fixpoint open_len (d : nat -> nat -> Z) (l : list nat) : Z :=
  match l with
  | [] => 0
  | x :: r => match r with [] => 0 | y :: _ => d x y + open_len d r end
  end.

(* closed tour: the walk along l plus the leg from the last node back to the first *)
Definition closed_len (d : nat -> nat -> Z) (l : list nat) : Z :=
  match l with
  | [] => 0
  | x :: _ => open_len d l + d (last l x) x
  end.

(* position (0-based) of the first occurrence of x in l; length l when absent *)
Fixpoint pos (x : nat) (l : list nat) : nat :=
  match l with
  | [] => 0%nat
  | y :: r => if Nat.eqb y x then 0%nat else S (pos x r)
  end.

(* ---------------------------------------------------------------- equivalent readings of "each exactly once" *)
Lemma NoDup_occ_le1 (l : list nat) : NoDup l <-> (forall x, (occ x l <= 1)%nat).
Proof. unfold occ. apply (NoDup_count_occ Nat.eq_dec). Qed.

Lemma visits_each_once_perm n l : visits_each_once n l <-> Permutation l (seq 0 n).
Proof.
  split.
  - intros [H1 H2]. apply (Permutation_count_occ Nat.eq_dec). intros x.
    fold (occ x l). fold (occ x (seq 0 n)).
    destruct (Nat.ltb x n) eqn:E.
    + apply Nat.ltb_lt in E. rewrite H1 by exact E. symmetry.
      assert (NoDup (seq 0 n)) as ND by apply seq_NoDup.
      apply NoDup_occ_le1 with (x := x) in ND.
      assert (In x (seq 0 n)) as Hin by (apply in_seq; lia). apply occ_In in Hin. lia.
    + apply Nat.ltb_ge in E.
      assert (~ In x l) as N1 by (intros H; apply H2 in H; lia).
      assert (~ In x (seq 0 n)) as N2 by (intros H; apply in_seq in H; lia).
      apply occ_not_In in N1. apply occ_not_In in N2. lia.
  - intros P. split.
    + intros j Hj. unfold occ. rewrite (proj1 (Permutation_count_occ Nat.eq_dec _ _) P j).
      fold (occ j (seq 0 n)).
      assert (NoDup (seq 0 n)) as ND by apply seq_NoDup.
      apply NoDup_occ_le1 with (x := j) in ND.
      assert (In j (seq 0 n)) as Hin by (apply in_seq; lia). apply occ_In in Hin. lia.
    + intros a Ha. apply (Permutation_in _ P) in Ha. apply in_seq in Ha. lia.
Qed.

Lemma visits_each_once_nodup n l :
  visits_each_once n l <-> length l = n /\ NoDup l /\ (forall a, In a l -> (a < n)%nat).
Proof.
  rewrite visits_each_once_perm. split.
  - intros P. split; [|split].
    + rewrite (Permutation_length P). apply seq_length.
    + apply (Permutation_NoDup (Permutation_sym P)). apply seq_NoDup.
    + intros a Ha. apply (Permutation_in _ P) in Ha. apply in_seq in Ha. lia.
  - intros (Hl & Hn & Hr). apply NoDup_Permutation_bis; [exact Hn | rewrite seq_length; lia |].
    intros a Ha. apply in_seq. specialize (Hr a Ha). lia.
Qed.

(* ---------------------------------------------------------------- positions *)
Lemma pos_le x l : (pos x l <= length l)%nat.
Proof. induction l as [|y l IH]; simpl; [lia|]. destruct (Nat.eqb y x); lia. Qed.

Lemma pos_lt_In x l : (pos x l < length l)%nat <-> In x l.
Proof.
  induction l as [|y l IH]; simpl; [split; [lia | tauto]|].
  destruct (Nat.eqb y x) eqn:E.
  - apply Nat.eqb_eq in E. split; [auto | lia].
  - apply Nat.eqb_neq in E. rewrite <- IH. split; [intros H; right; lia | intros [H|H]; [congruence | lia]].
Qed.

Lemma pos_notin x l : ~ In x l -> pos x l = length l.
Proof. intros H. pose proof (pos_le x l). destruct (pos_lt_In x l) as [H1 _]. destruct (Nat.eq_dec (pos x l) (length l)); [assumption|]. exfalso. apply H, H1. lia. Qed.

Lemma pos_app_in x a b : In x a -> pos x (a ++ b) = pos x a.
Proof.
  induction a as [|y a IH]; intros H; [destruct H|]. simpl.
  destruct (Nat.eqb y x) eqn:E; [reflexivity|]. apply Nat.eqb_neq in E.
  destruct H as [H|H]; [congruence|]. rewrite IH by exact H. reflexivity.
Qed.

Lemma pos_app_notin x a b : ~ In x a -> pos x (a ++ b) = (length a + pos x b)%nat.
Proof.
  induction a as [|y a IH]; intros H; [reflexivity|]. simpl.
  destruct (Nat.eqb y x) eqn:E.
  - apply Nat.eqb_eq in E. exfalso. apply H. left. exact E.
  - rewrite IH; [reflexivity|]. intros Hc. apply H. right. exact Hc.
Qed.

Lemma nth_pos x l d : In x l -> nth (pos x l) l d = x.
Proof.
  induction l as [|y l IH]; intros H; [destruct H|]. simpl.
  destruct (Nat.eqb y x) eqn:E; [apply Nat.eqb_eq in E; exact E|].
  apply Nat.eqb_neq in E. destruct H as [H|H]; [congruence|]. apply IH. exact H.
Qed.

(* ---------------------------------------------------------------- tour lengths *)
Lemma open_len_cons d x y r : open_len d (x :: y :: r) = d x y + open_len d (y :: r).
Proof. reflexivity. Qed.

Lemma open_len_snoc d l x y : open_len d ((l ++ [x]) ++ [y]) = open_len d (l ++ [x]) + d x y.
Proof.
  induction l as [|z l IH]; [simpl; lia|].
  destruct l as [|w l].
  - simpl. lia.
  - change (((z :: w :: l) ++ [x]) ++ [y]) with (z :: w :: ((l ++ [x]) ++ [y])).
    change ((z :: w :: l) ++ [x]) with (z :: w :: (l ++ [x])).
    rewrite !open_len_cons.
    change (w :: (l ++ [x]) ++ [y]) with (((w :: l) ++ [x]) ++ [y]). rewrite IH.
    change ((w :: l) ++ [x]) with (w :: l ++ [x]). lia.
Qed.

(* the reversed tour has the same length under the transposed cost *)
Lemma open_len_rev d l : open_len d (rev l) = open_len (fun a b => d b a) l.
Proof.
  induction l as [|x l IH]; [reflexivity|].
  destruct l as [|y l]; [reflexivity|].
  change (rev (x :: y :: l)) with ((rev l ++ [y]) ++ [x]). rewrite open_len_snoc.
  change (rev l ++ [y]) with (rev (y :: l)). rewrite IH. rewrite open_len_cons. lia.
Qed.

(* under a symmetric cost the direction of travel is irrelevant *)
Lemma open_len_sym d l : (forall a b, d a b = d b a) -> open_len (fun a b => d b a) l = open_len d l.
Proof.
  intros S. induction l as [|x l IH]; [reflexivity|]. destruct l as [|y l]; [reflexivity|].
  rewrite !open_len_cons, IH. rewrite (S y x). reflexivity.
Qed.
