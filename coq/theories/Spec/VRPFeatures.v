(* Vocabulary of the independent definition of the vehicle routing problem with the optional features
   capacity (C), backhauls (B), open routes (O), duration limit (L) and time windows (TW), route by route
   (a route = the customers served between two depot visits, see Spec/Routes.v).  Written from the problem
   definition (class docstring of MTVRPEnv, Liu et al. 2024, Berto et al. 2024), parametrised by the raw data only;
   no environment model uses these definitions.

   [slack] relaxes every inequality by the same amount; slack = 0 is the problem definition itself
   (the harness evaluates the predicates on the implementation's float32 episodes with a small slack). *)
From Coq Require Import ZArith List Bool Lia ZifyBool Arith.
From RL4CO Require Import Base.Num Spec.Routes.
Import ListNotations.
Open Scope Z_scope.

Section Spec.
  Variables (dl db : nat -> Z).          (* delivery (linehaul) and pickup (backhaul) quantity per node *)
  Variable cap : Z.                      (* vehicle capacity, applies to each kind separately *)
  Variables (d t : nat -> nat -> Z).     (* distance and travel time between nodes *)
  Variable lim : Z.                      (* limit on the length of a route *)
  Variable open : bool.                  (* open routes: no return to the depot *)
  Variables (lo hi sv : nat -> Z).       (* time window and service duration per node *)

  Definition load (f : nat -> Z) (r : list nat) : Z := sumZ (map f r).

  Definition is_linehaul (x : nat) : bool := 0 <? dl x.
  Definition is_backhaul (x : nat) : bool := 0 <? db x.

  (* (B) within a route no linehaul customer is served after a backhaul customer *)
  Fixpoint prec_ok (r : list nat) : bool :=
    match r with
    | [] => true
    | x :: r' => (negb (is_backhaul x) || forallb (fun y => negb (is_linehaul y)) r') && prec_ok r'
    end.

  (* length of depot -> r1 -> ... -> rk without the way back *)
  Fixpoint opath_len (from : nat) (r : list nat) : Z :=
    match r with [] => 0 | x :: r' => d from x + opath_len x r' end.
  (* (L)/(O) what a route costs and what the limit applies to: the way back counts unless routes are open *)
  Definition route_cost (r : list nat) : Z := if open then opath_len 0%nat r else route_len d r.

  (* (TW) the vehicle leaves the depot at time 0; it may arrive early and wait; service at x starts at
     max(arrival, lo x) and must start by hi x; the vehicle leaves at start + service duration; unless routes
     are open it must be back at the depot by the depot's hi *)
  Fixpoint tw_ok (slack : Z) (from : nat) (tm : Z) (r : list nat) : bool :=
    match r with
    | [] => if open then true else tm + t from 0%nat <=? hi 0%nat + slack
    | x :: r' =>
        let st := Z.max (tm + t from x) (lo x) in
        (st <=? hi x + slack) && tw_ok slack x (st + sv x) r'
    end.

  (* the same with strict inequalities and no slack (used to state by how much the shipped mask is tighter) *)
  Fixpoint tw_strict (from : nat) (tm : Z) (r : list nat) : bool :=
    match r with
    | [] => if open then true else tm + t from 0%nat <? hi 0%nat
    | x :: r' =>
        let st := Z.max (tm + t from x) (lo x) in
        (st <? hi x) && tw_strict x (st + sv x) r'
    end.

  Definition route_ok (slack : Z) (r : list nat) : bool :=
    match r with
    | [] => true                                   (* two consecutive depot visits: nothing to satisfy *)
    | _ => (load dl r <=? cap + slack) && (load db r <=? cap + slack) && prec_ok r
           && (route_cost r <=? lim + slack) && tw_ok slack 0%nat 0 r
    end.

  (* objective: total cost of the routes *)
  Definition total_cost (acts : list nat) : Z := sumZ (map route_cost (routes acts)).
End Spec.

(* ---------------------------------------------------------------- derived facts (used by the proofs only) *)
Section Facts.
  Variables (dl db : nat -> Z).
  Variables (d t : nat -> nat -> Z).
  Variable open : bool.
  Variables (lo hi sv : nat -> Z).

  Lemma load_app f a b : load f (a ++ b) = load f a + load f b.
  Proof. unfold load. rewrite map_app, sumZ_app. reflexivity. Qed.
  Lemma load_snoc f a x : load f (a ++ [x]) = load f a + f x.
  Proof. rewrite load_app. unfold load. simpl. lia. Qed.
  Lemma load_nonneg f r : (forall x, 0 <= f x) -> 0 <= load f r.
  Proof. intros H. induction r as [|x r IH]; unfold load in *; simpl; [lia | specialize (H x); lia]. Qed.

  Notation NB := (fun y => negb (is_backhaul db y)).
  Notation NL := (fun y => negb (is_linehaul dl y)).

  Lemma prec_ok_app a b :
    prec_ok dl db (a ++ b) = prec_ok dl db a && prec_ok dl db b && (forallb NB a || forallb NL b).
  Proof.
    induction a as [|x a IH]; cbn [app prec_ok forallb].
    - destruct (prec_ok dl db b); reflexivity.
    - rewrite IH, forallb_app.
      destruct (is_backhaul db x), (forallb NL a), (forallb NL b), (forallb NB a), (prec_ok dl db a), (prec_ok dl db b); reflexivity.
  Qed.
  Lemma prec_ok_snoc a x :
    prec_ok dl db (a ++ [x]) = prec_ok dl db a && (forallb NB a || negb (is_linehaul dl x)).
  Proof. rewrite prec_ok_app. cbn [prec_ok forallb]. rewrite !andb_true_r, orb_true_r, andb_true_r. reflexivity. Qed.

  Lemma opath_len_app from a b : opath_len d from (a ++ b) = opath_len d from a + opath_len d (last a from) b.
  Proof.
    revert from; induction a as [|x a IH]; intros from; [simpl; lia|].
    cbn [app opath_len]. rewrite IH. destruct a as [|y a]; [simpl; lia|].
    rewrite (last_default_irrel a y x from). change (last (x :: y :: a) from) with (last (y :: a) from). lia.
  Qed.
  Lemma opath_len_snoc from a x : opath_len d from (a ++ [x]) = opath_len d from a + d (last a from) x.
  Proof. rewrite opath_len_app. simpl. lia. Qed.
  Lemma path_len_opath from r : path_len d from r = opath_len d from r + d (last r from) 0%nat.
  Proof.
    revert from; induction r as [|x r IH]; intros from; [simpl; lia|].
    cbn [path_len opath_len]. rewrite IH. destruct r as [|y r]; [simpl; lia|].
    rewrite (last_default_irrel r y x from). change (last (x :: y :: r) from) with (last (y :: r) from). lia.
  Qed.
  Lemma route_cost_eq r :
    route_cost d open r = opath_len d 0%nat r + (if open then 0 else d (last r 0%nat) 0%nat).
  Proof. unfold route_cost, route_len. destruct open; [lia | apply path_len_opath]. Qed.

  (* time windows with an arbitrary comparison: [tw_ok slack] and [tw_strict] are instances *)
  Variable cmp : Z -> Z -> bool.
  Fixpoint tw_gen (from : nat) (tm : Z) (r : list nat) : bool :=
    match r with
    | [] => if open then true else cmp (tm + t from 0%nat) (hi 0%nat)
    | x :: r' => let st := Z.max (tm + t from x) (lo x) in cmp st (hi x) && tw_gen x (st + sv x) r'
    end.
  (* the deadlines of the customers only, and the time at which the vehicle leaves the last one *)
  Fixpoint tw_pref (from : nat) (tm : Z) (r : list nat) : bool :=
    match r with
    | [] => true
    | x :: r' => let st := Z.max (tm + t from x) (lo x) in cmp st (hi x) && tw_pref x (st + sv x) r'
    end.
  Fixpoint dep_time (from : nat) (tm : Z) (r : list nat) : Z :=
    match r with
    | [] => tm
    | x :: r' => dep_time x (Z.max (tm + t from x) (lo x) + sv x) r'
    end.

  Lemma tw_gen_app from tm a b :
    tw_gen from tm (a ++ b) = tw_pref from tm a && tw_gen (last a from) (dep_time from tm a) b.
  Proof.
    revert from tm; induction a as [|x a IH]; intros from tm; [reflexivity|].
    cbn [app tw_gen tw_pref dep_time]. rewrite IH, andb_assoc. destruct a as [|y a]; [reflexivity|].
    rewrite (last_default_irrel a y x from). reflexivity.
  Qed.
  Lemma tw_pref_snoc from tm a x :
    tw_pref from tm (a ++ [x]) =
    tw_pref from tm a && cmp (Z.max (dep_time from tm a + t (last a from) x) (lo x)) (hi x).
  Proof.
    revert from tm; induction a as [|y a IH]; intros from tm.
    - cbn. rewrite andb_true_r. reflexivity.
    - cbn [app tw_pref dep_time]. rewrite IH, andb_assoc. destruct a as [|z a]; [reflexivity|].
      rewrite (last_default_irrel a z y from). reflexivity.
  Qed.
  Lemma dep_time_snoc from tm a x :
    dep_time from tm (a ++ [x]) = Z.max (dep_time from tm a + t (last a from) x) (lo x) + sv x.
  Proof.
    revert from tm; induction a as [|y a IH]; intros from tm; [reflexivity|].
    cbn [app dep_time]. rewrite IH. destruct a as [|z a]; [reflexivity|].
    rewrite (last_default_irrel a z y from). reflexivity.
  Qed.
  Lemma tw_gen_split from tm r :
    tw_gen from tm r = tw_pref from tm r && (if open then true else cmp (dep_time from tm r + t (last r from) 0%nat) (hi 0%nat)).
  Proof. rewrite <- (app_nil_r r) at 1. rewrite tw_gen_app. reflexivity. Qed.
End Facts.

Lemma tw_ok_gen t open lo hi sv slack from tm r :
  tw_ok t open lo hi sv slack from tm r = tw_gen t open lo hi sv (fun x y => x <=? y + slack) from tm r.
Proof. revert from tm; induction r as [|x r IH]; intros from tm; cbn; [reflexivity | rewrite IH; reflexivity]. Qed.
Lemma tw_strict_gen t open lo hi sv from tm r :
  tw_strict t open lo hi sv from tm r = tw_gen t open lo hi sv Z.ltb from tm r.
Proof. revert from tm; induction r as [|x r IH]; intros from tm; cbn; [reflexivity | rewrite IH; reflexivity]. Qed.

(* routes never contain the depot *)
Lemma routes_aux_nonzero acts : forall curr, Forall (fun x => x <> 0%nat) curr ->
  Forall (Forall (fun x => x <> 0%nat)) (routes_aux acts curr).
Proof.
  induction acts as [|a r IH]; intros curr Hc; cbn [routes_aux].
  - constructor; [|constructor]. apply Forall_rev. exact Hc.
  - destruct (Nat.eqb a 0) eqn:Ea.
    + constructor; [apply Forall_rev; exact Hc | apply IH; constructor].
    + apply IH. constructor; [apply Nat.eqb_neq; exact Ea | exact Hc].
Qed.
Lemma routes_nonzero acts : Forall (Forall (fun x => x <> 0%nat)) (routes acts).
Proof. apply routes_aux_nonzero. constructor. Qed.
