(* Vocabulary of the independent problem definition of split-delivery routing.  A solution is a PLAN: the list of
   visits (node, delivered quantity) in the order they are made, the depot (node 0) separating routes.  No
   environment model uses these definitions. *)
From Coq Require Import ZArith List Bool Lia ZifyBool Arith.
From RL4CO Require Import Base.Num.
Import ListNotations.
Open Scope Z_scope.

Definition visit := (nat * Z)%type.
Definition plan := list visit.

(* routes of a plan: maximal depot-free segments *)
Fixpoint plan_routes (p : plan) : list (list visit) :=
  match p with
  | [] => [[]]
  | v :: r =>
      if Nat.eqb (fst v) 0 then [] :: plan_routes r
      else match plan_routes r with h :: t => (v :: h) :: t | [] => [[v]] end
  end.
Definition route_qty (r : list visit) : Z := sumZ (map snd r).
(* what customer j receives over the whole plan *)
Definition delivered_to (j : nat) (p : plan) : Z :=
  sumZ (map snd (filter (fun v => Nat.eqb (fst v) j) p)).

(* The split-delivery problem: only existing nodes are visited; what a vehicle delivers on one route never exceeds
   its capacity; every customer receives exactly its demand over all visits. *)
Definition sd_plan_ok (n : nat) (dem : nat -> Z) (cap : Z) (p : plan) : Prop :=
  (forall v, In v p -> (fst v <= n)%nat) /\
  Forall (fun r => route_qty r <= cap) (plan_routes p) /\
  (forall j, (1 <= j <= n)%nat -> delivered_to j p = dem j).
(* ... and no visit is pointless: every customer visit delivers something *)
Definition sd_plan_strict (p : plan) : Prop := forall v, In v p -> fst v <> 0%nat -> 0 < snd v.

(* The encoding of solutions as bare VISIT SEQUENCES that the library and its checker define: at every customer the
   vehicle delivers as much as it can, min(remaining demand, remaining capacity); at the depot it is refilled.
   [rem] is the vector of remaining demands indexed by node (entry 0, the depot, is 0). *)
Fixpoint greedy (rem : list Z) (cap load : Z) (acts : list nat) : plan :=
  match acts with
  | [] => []
  | a :: r =>
      if Nat.eqb a 0 then (0%nat, 0) :: greedy rem cap 0 r
      else let q := Z.min (nth a rem 0) (cap - load) in
           (a, q) :: greedy (set_nth a (nth a rem 0 - q) rem) cap (load + q) r
  end.
(* remaining demands after the visit sequence *)
Fixpoint greedy_rem (rem : list Z) (cap load : Z) (acts : list nat) : list Z :=
  match acts with
  | [] => rem
  | a :: r =>
      if Nat.eqb a 0 then greedy_rem rem cap 0 r
      else let q := Z.min (nth a rem 0) (cap - load) in
           greedy_rem (set_nth a (nth a rem 0 - q) rem) cap (load + q) r
  end.
(* format restriction of the library's checker: no two consecutive depot visits while some demand is unserved
   ([pd] = the previous action was the depot) *)
Fixpoint no_early_double_depot (rem : list Z) (cap load : Z) (pd : bool) (acts : list nat) : bool :=
  match acts with
  | [] => true
  | a :: r =>
      if Nat.eqb a 0 then (if pd then forallb (fun d => d =? 0) rem else true) && no_early_double_depot rem cap 0 true r
      else let q := Z.min (nth a rem 0) (cap - load) in
           no_early_double_depot (set_nth a (nth a rem 0 - q) rem) cap (load + q) false r
  end.

Lemma plan_routes_nonempty p : plan_routes p <> [].
Proof. destruct p as [|v r]; cbn [plan_routes]; [discriminate|]. destruct (Nat.eqb (fst v) 0); [discriminate|]. destruct (plan_routes r); discriminate. Qed.

Lemma delivered_to_cons j v p :
  delivered_to j (v :: p) = (if Nat.eqb (fst v) j then snd v else 0) + delivered_to j p.
Proof. unfold delivered_to. cbn [filter]. destruct (Nat.eqb (fst v) j); cbn [map sumZ]; lia. Qed.

(* executable twins *)
Definition sd_plan_okb (n : nat) (dem : nat -> Z) (cap : Z) (p : plan) : bool :=
  forallb (fun v => Nat.leb (fst v) n) p &&
  forallb (fun r => route_qty r <=? cap) (plan_routes p) &&
  forallb (fun j => delivered_to j p =? dem j) (seq 1 n).
Definition sd_plan_strictb (p : plan) : bool := forallb (fun v => Nat.eqb (fst v) 0 || (0 <? snd v)) p.

Lemma sd_plan_okb_ok n dem cap p : sd_plan_okb n dem cap p = true <-> sd_plan_ok n dem cap p.
Proof.
  unfold sd_plan_okb, sd_plan_ok. rewrite !andb_true_iff, !forallb_forall, Forall_forall. split.
  - intros [[H1 H2] H3]. repeat split.
    + intros v Hv. apply Nat.leb_le. apply H1. exact Hv.
    + intros r Hr. specialize (H2 r Hr). lia.
    + intros j Hj. specialize (H3 j ltac:(apply in_seq; lia)). lia.
  - intros (H1 & H2 & H3). repeat split.
    + intros v Hv. apply Nat.leb_le. apply H1. exact Hv.
    + intros r Hr. specialize (H2 r Hr). lia.
    + intros j Hj. apply in_seq in Hj. specialize (H3 j ltac:(lia)). lia.
Qed.
Lemma sd_plan_strictb_ok p : sd_plan_strictb p = true <-> sd_plan_strict p.
Proof.
  unfold sd_plan_strictb, sd_plan_strict. rewrite forallb_forall. split.
  - intros H v Hv Hn. specialize (H v Hv). apply orb_prop in H as [H|H]; [apply Nat.eqb_eq in H; congruence | lia].
  - intros H v Hv. destruct (Nat.eqb (fst v) 0) eqn:E; [reflexivity|]. apply Nat.eqb_neq in E. specialize (H v Hv E). cbn [orb]. lia.
Qed.
