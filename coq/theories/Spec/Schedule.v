(* Spec/Schedule.v -- independent definition of a valid (flexible) job-shop schedule.

   Nothing here mentions the environment's bookkeeping (time, busy_until, next_op ...).  A scheduling
   instance is: a number of machines, the jobs as lists of operation ids in processing order, and the
   processing time of every (machine, operation) pair (0 = not eligible).  A schedule is a list of
   processing intervals [entry] = (operation, machine, start, end). *)
From Coq Require Import ZArith List Bool Lia ZifyBool Arith.
Import ListNotations.

Record sinst := {
  si_nma  : nat;                 (* machines are 0 .. si_nma-1 *)
  si_jobs : list (list nat);     (* operations of each job, in the order they must be processed *)
  si_proc : nat -> nat -> Z;     (* si_proc m o : processing time of operation o on machine m *)
}.
Record entry := { e_op : nat; e_ma : nat; e_start : Z; e_end : Z }.

Definition real_ops (I : sinst) : list nat := concat (si_jobs I).
(* how many processing intervals the schedule contains for operation o *)
Definition occ (es : list entry) (o : nat) : nat := length (filter (fun e => e_op e =? o) es).
(* all (a, b) with a strictly before b in l *)
Fixpoint ordered_pairs (l : list nat) : list (nat * nat) :=
  match l with
  | [] => []
  | a :: r => map (fun b => (a, b)) r ++ ordered_pairs r
  end.

(* every real operation is processed exactly once *)
Definition sched_once (I : sinst) (es : list entry) : Prop :=
  forall o, In o (real_ops I) -> occ es o = 1.
(* every interval: a real (non-padded) operation, on an existing machine that is eligible for it,
   for exactly its processing time on that machine, not before time 0 *)
Definition entry_ok (I : sinst) (e : entry) : Prop :=
  In (e_op e) (real_ops I) /\ e_ma e < si_nma I /\
  (0 < si_proc I (e_ma e) (e_op e))%Z /\
  (e_end e - e_start e = si_proc I (e_ma e) (e_op e))%Z /\ (0 <= e_start e)%Z.
(* operations of a job run in order without overlapping *)
Definition sched_precedence (I : sinst) (es : list entry) : Prop :=
  forall l, In l (si_jobs I) -> forall a b, In (a, b) (ordered_pairs l) ->
  forall ea eb, In ea es -> In eb es -> e_op ea = a -> e_op eb = b -> (e_end ea <= e_start eb)%Z.
(* no machine processes two operations at the same time *)
Definition sched_machine_excl (es : list entry) : Prop :=
  forall e1 e2, In e1 es -> In e2 es -> e_ma e1 = e_ma e2 -> e_op e1 <> e_op e2 ->
  (e_end e1 <= e_start e2)%Z \/ (e_end e2 <= e_start e1)%Z.
(* mk is the latest completion time *)
Definition is_makespan (es : list entry) (mk : Z) : Prop :=
  (forall e, In e es -> (e_end e <= mk)%Z) /\ (exists e, In e es /\ e_end e = mk).

Definition valid_schedule (I : sinst) (es : list entry) (mk : Z) : Prop :=
  sched_once I es /\ (forall e, In e es -> entry_ok I e) /\ sched_precedence I es /\
  sched_machine_excl es /\ is_makespan es mk.

(* ---------------------------------------------------------------- boolean twin *)
Definition entry_okb (I : sinst) (e : entry) : bool :=
  existsb (Nat.eqb (e_op e)) (real_ops I) && (e_ma e <? si_nma I) &&
  (0 <? si_proc I (e_ma e) (e_op e))%Z &&
  (e_end e - e_start e =? si_proc I (e_ma e) (e_op e))%Z && (0 <=? e_start e)%Z.
Definition sched_precedenceb (I : sinst) (es : list entry) : bool :=
  forallb (fun l => forallb (fun ab =>
    forallb (fun ea => forallb (fun eb =>
      negb (e_op ea =? fst ab) || negb (e_op eb =? snd ab) || (e_end ea <=? e_start eb)%Z) es) es)
    (ordered_pairs l)) (si_jobs I).
Definition sched_machine_exclb (es : list entry) : bool :=
  forallb (fun e1 => forallb (fun e2 =>
    negb (e_ma e1 =? e_ma e2) || (e_op e1 =? e_op e2) ||
    (e_end e1 <=? e_start e2)%Z || (e_end e2 <=? e_start e1)%Z) es) es.
Definition is_makespanb (es : list entry) (mk : Z) : bool :=
  forallb (fun e => (e_end e <=? mk)%Z) es && existsb (fun e => (e_end e =? mk)%Z) es.
Definition valid_scheduleb (I : sinst) (es : list entry) (mk : Z) : bool :=
  forallb (fun o => occ es o =? 1) (real_ops I) && forallb (entry_okb I) es &&
  sched_precedenceb I es && sched_machine_exclb es && is_makespanb es mk.

Lemma entry_okb_iff I e : entry_okb I e = true <-> entry_ok I e.
Proof.
  unfold entry_okb, entry_ok. rewrite !andb_true_iff, existsb_exists. split.
  - intros [[[[[x [Hx Hx']] H2] H3] H4] H5]. apply Nat.eqb_eq in Hx'. subst x. repeat split; try lia. exact Hx.
  - intros (H1 & H2 & H3 & H4 & H5). repeat split; try lia. exists (e_op e). split; [exact H1|apply Nat.eqb_refl].
Qed.

Lemma sched_precedenceb_iff I es : sched_precedenceb I es = true <-> sched_precedence I es.
Proof.
  unfold sched_precedenceb, sched_precedence. rewrite forallb_forall. split.
  - intros H l Hl a b Hab ea eb Hea Heb Ha Hb.
    specialize (H l Hl). rewrite forallb_forall in H. specialize (H (a, b) Hab).
    rewrite forallb_forall in H. specialize (H ea Hea). rewrite forallb_forall in H. specialize (H eb Heb).
    cbn [fst snd] in H. lia.
  - intros H l Hl. apply forallb_forall. intros [a b] Hab. apply forallb_forall. intros ea Hea.
    apply forallb_forall. intros eb Heb. cbn [fst snd].
    destruct (e_op ea =? a) eqn:Ea; [|reflexivity]. destruct (e_op eb =? b) eqn:Eb; [|reflexivity].
    apply Nat.eqb_eq in Ea, Eb. specialize (H l Hl a b Hab ea eb Hea Heb Ea Eb). cbn. lia.
Qed.

Lemma sched_machine_exclb_iff es : sched_machine_exclb es = true <-> sched_machine_excl es.
Proof.
  unfold sched_machine_exclb, sched_machine_excl. rewrite forallb_forall. split.
  - intros H e1 e2 H1 H2 Hm Ho. specialize (H e1 H1). rewrite forallb_forall in H. specialize (H e2 H2). lia.
  - intros H e1 H1. apply forallb_forall. intros e2 H2. specialize (H e1 e2 H1 H2).
    destruct (e_ma e1 =? e_ma e2) eqn:Em; [|reflexivity]. destruct (e_op e1 =? e_op e2) eqn:Eo; [reflexivity|].
    apply Nat.eqb_eq in Em. apply Nat.eqb_neq in Eo. specialize (H Em Eo). cbn. lia.
Qed.

Lemma is_makespanb_iff es mk : is_makespanb es mk = true <-> is_makespan es mk.
Proof.
  unfold is_makespanb, is_makespan. rewrite andb_true_iff, forallb_forall, existsb_exists. split.
  - intros [H1 [e [He He']]]. split. + intros x Hx. specialize (H1 x Hx). lia. + exists e. split; [exact He|lia].
  - intros [H1 [e [He He']]]. split. + intros x Hx. specialize (H1 x Hx). lia. + exists e. split; [exact He|lia].
Qed.

Theorem valid_scheduleb_iff I es mk : valid_scheduleb I es mk = true <-> valid_schedule I es mk.
Proof.
  unfold valid_scheduleb, valid_schedule, sched_once.
  rewrite !andb_true_iff, sched_precedenceb_iff, sched_machine_exclb_iff, is_makespanb_iff, !forallb_forall.
  split.
  - intros [[[[H1 H2] H3] H4] H5]. split; [|split; [|split; [|split]]]; try assumption.
    + intros o Ho. specialize (H1 o Ho). apply Nat.eqb_eq in H1. exact H1.
    + intros e He. apply entry_okb_iff. apply H2. assumption.
  - intros (H1 & H2 & H3 & H4 & H5). split; [split; [split; [split|]|]|]; try assumption.
    + intros o Ho. apply Nat.eqb_eq. apply H1. exact Ho.
    + intros e He. apply entry_okb_iff. apply H2. exact He.
Qed.

(* consequence used by readers of the spec: in a valid schedule distinct intervals are distinct operations *)
Lemma ordered_pairs_seq s n a b : In (a, b) (ordered_pairs (seq s n)) <-> s <= a /\ a < b /\ b < s + n.
Proof.
  revert s. induction n as [|n IH]; intros s; cbn [seq ordered_pairs].
  - split; [intros []|lia].
  - rewrite in_app_iff, in_map_iff, IH. split.
    + intros [[x [Hx Hin]]|H]; [|lia]. inversion Hx; subst. apply in_seq in Hin. lia.
    + intros H. destruct (Nat.eq_dec a s) as [->|Hne].
      * left. exists b. split; [reflexivity|]. apply in_seq. lia.
      * right. lia.
Qed.

(* ---------------------------------------------------------------- non-vacuity *)
(* jobs A = (o0 on M0 for 3),(o1 on M1 for 2)   B = (o2 on M1 for 2) *)
Definition ex_I : sinst := {| si_nma := 2; si_jobs := [[0; 1]; [2]];
  si_proc := fun m o => match m, o with 0, 0 => 3%Z | 1, 1 => 2%Z | 1, 2 => 2%Z | _, _ => 0%Z end |}.
Definition ex_es : list entry := [ {| e_op := 0; e_ma := 0; e_start := 0; e_end := 3 |};
  {| e_op := 2; e_ma := 1; e_start := 0; e_end := 2 |}; {| e_op := 1; e_ma := 1; e_start := 3; e_end := 5 |} ]%Z.
Example ex_valid : valid_schedule ex_I ex_es 5%Z.
Proof. apply valid_scheduleb_iff. vm_compute. reflexivity. Qed.
(* overlapping on machine 1, wrong makespan, op missing: all rejected *)
Example ex_invalid :
  valid_scheduleb ex_I [ {| e_op := 0; e_ma := 0; e_start := 0; e_end := 3 |};
    {| e_op := 2; e_ma := 1; e_start := 2; e_end := 4 |}; {| e_op := 1; e_ma := 1; e_start := 3; e_end := 5 |} ]%Z 5%Z = false
  /\ valid_scheduleb ex_I ex_es 6%Z = false /\ valid_scheduleb ex_I (tl ex_es) 5%Z = false.
Proof. vm_compute. repeat split. Qed.
