(* Scheduling generators (rl4co/envs/scheduling/{fjsp,jssp,ffsp,smtwtp}/generator.py): the deterministic
   post-processing of the raw draws, one batch row, and what it guarantees -- stated with the very predicates the
   environment theorems of C07 assume (Env/FJSP.v [wfb], [solvableb], [jssp_wfb]; Env/FFSP.v [FFSP.wfb];
   Env/SMTWTP.v [SMTWTP.wfb]).

   FJSP/JSSP _generate:
     n_ope_per_job = randint(min_ops, max_ops + 1, (J,))                raw draw [ns]
     n_ops_batch   = n_ope_per_job.sum(1) ; n_ops_max = max_ops * J
     pad_mask      = arange(n_ops_max) >= n_ops_batch
     end_op        = n_ope_per_job.cumsum(1) - 1
     start_op      = cat(zeros(1), end_op[:-1] + 1)
   FJSP _simulate_processing_times:
     n_eligible    = randint(min_elig, max_elig + 1, (n_ops_max,)) ; n_eligible[pad_mask] = 0      raw draw [nelig]
     unshuffled[o][m] = (m + 1 <= n_eligible[o])
     idx           = rand_like(unshuffled).argsort()            raw: one permutation of the machines per operation
     edges[m][o]   = unshuffled[o][idx[o][m]]                   (gather(2, idx).transpose(1, 2))
     proc_times    = pt * edges                                 pt = raw processing times (see [fjsp_pt])
   JSSP _simulate_processing_times:
     ops_machine_ids (argsort per job, or randint)              raw [ids], one machine per operation column
     proc_times    = randint(min_pt, max_pt + 1) * one_hot(ids).T                                            *)
From Coq Require Import ZArith List Bool Lia ZifyBool Arith Permutation.
From RL4CO Require Import Base.Num Spec.Schedule Env.FJSP Env.FFSP Env.SMTWTP.
Import ListNotations.
Open Scope nat_scope.

(* ================================================================== job structure *)
Definition psum (ns : list nat) (j : nat) : nat := list_sum (firstn j ns).      (* cumsum: psum (S j) = cumsum[j] *)
Definition end_ops (ns : list nat) : list nat := map (fun j => psum ns (S j) - 1) (seq 0 (length ns)).
Definition start_ops (ns : list nat) : list nat :=
  0 :: map (fun j => psum ns (S j) - 1 + 1) (seq 0 (length ns - 1)).            (* end_op[:-1] + 1 *)
Definition pad_mask_of (nmax nops : nat) : list bool := map (fun o => nops <=? o) (seq 0 nmax).

Lemma psum_S ns : forall j, j < length ns -> psum ns (S j) = psum ns j + nth j ns 0.
Proof.
  unfold psum. induction ns as [|x r IH]; intros j Hj; [cbn in Hj; lia|].
  destruct j as [|j]; [cbn; lia|]. cbn [length] in Hj.
  rewrite !firstn_cons.
  change (list_sum (x :: firstn (S j) r)) with (x + list_sum (firstn (S j) r)).
  change (list_sum (x :: firstn j r)) with (x + list_sum (firstn j r)). cbn [nth].
  rewrite IH by lia. lia.
Qed.
Lemma psum_all ns : psum ns (length ns) = list_sum ns.
Proof. unfold psum. rewrite firstn_all. reflexivity. Qed.
Lemma psum_pos ns j : (forall k, In k ns -> 1 <= k) -> j < length ns -> psum ns j + 1 <= psum ns (S j).
Proof. intros H Hj. rewrite psum_S by exact Hj. pose proof (H (nth j ns 0) (nth_In ns 0 Hj)). lia. Qed.
Lemma psum_ge ns : (forall k, In k ns -> 1 <= k) -> forall j, j <= length ns -> j <= psum ns j.
Proof.
  intros H. induction j as [|j IH]; intros Hj; [lia|]. pose proof (psum_pos ns j H ltac:(lia)). specialize (IH ltac:(lia)). lia.
Qed.
Lemma list_sum_le_max ns mx : (forall k, In k ns -> k <= mx) -> list_sum ns <= mx * length ns.
Proof.
  induction ns as [|x r IH]; intros H; [cbn; lia|]. change (list_sum (x :: r)) with (x + list_sum r). cbn [length].
  pose proof (H x (or_introl eq_refl)). specialize (IH (fun k Hk => H k (or_intror Hk))). nia.
Qed.

Section JobStruct.
  Variables (ns : list nat) (nmax : nat) (procm : list (list Z)).
  Hypothesis Hne : ns <> [].
  Hypothesis Hpos : forall k, In k ns -> 1 <= k.
  Hypothesis Hfit : list_sum ns <= nmax.
  Hypothesis HM : procm <> [].
  Hypothesis Hrows : forall r, In r procm -> length r = nmax /\ forall p, In p r -> (0 <= p)%Z.

  Let i : inst := {| start_op := start_ops ns; end_op := end_ops ns; proc := procm;
                     pad_mask := pad_mask_of nmax (list_sum ns) |}.

  Lemma js_nJ : nJ i = length ns.
  Proof.
    unfold nJ, i. cbn [start_op]. unfold start_ops. cbn [length]. rewrite map_length, seq_length.
    destruct ns; [congruence|cbn; lia].
  Qed.
  Lemma js_len_pos : 1 <= length ns.
  Proof. destruct ns; [congruence|cbn; lia]. Qed.
  Lemma js_ej j : j < length ns -> ej i j = psum ns (S j) - 1.
  Proof. intros Hj. unfold ej, i. cbn [end_op]. unfold end_ops. rewrite nth_map_seq by exact Hj. reflexivity. Qed.
  Lemma js_sj0 : sj i 0 = 0.
  Proof. reflexivity. Qed.
  Lemma js_sjS j : S j < length ns -> sj i (S j) = psum ns (S j).
  Proof.
    intros Hj. unfold sj, i. cbn [start_op]. unfold start_ops. cbn [nth]. rewrite nth_map_seq by lia. cbn [Nat.add].
    pose proof (psum_ge ns Hpos (S j) ltac:(lia)). lia.
  Qed.
  Lemma js_total : total_ops i = list_sum ns.
  Proof.
    unfold total_ops. rewrite js_nJ. pose proof js_len_pos as HL. rewrite js_ej by lia.
    replace (S (length ns - 1)) with (length ns) by lia. rewrite psum_all.
    pose proof (psum_ge ns Hpos (length ns) (le_n _)) as H. rewrite psum_all in H. lia.
  Qed.

  Lemma gen_job_struct_wfb : wfb i = true /\ total_ops i = list_sum ns /\ nN i = nmax /\ nJ i = length ns.
  Proof.
    pose proof js_nJ as HJ. pose proof js_len_pos as HL. pose proof js_total as HT.
    assert (HN : nN i = nmax) by (unfold nN, i; cbn [pad_mask]; unfold pad_mask_of; rewrite map_length, seq_length; reflexivity).
    split; [|repeat split; assumption].
    unfold wfb. rewrite HJ, HN, HT. repeat (apply andb_true_intro; split).
    - apply Nat.leb_le. lia.
    - apply Nat.leb_le. unfold nM, i. cbn [proc]. destruct procm; [congruence|cbn; lia].
    - apply Nat.eqb_eq. unfold i. cbn [end_op]. unfold end_ops. rewrite map_length, seq_length. reflexivity.
    - apply forallb_forall. intros r Hr. apply Nat.eqb_eq. apply (Hrows r Hr).
    - apply Nat.eqb_eq. apply js_sj0.
    - apply forallb_forall. intros j Hj. apply in_seq in Hj. apply Nat.leb_le. rewrite js_ej by lia.
      destruct j as [|j].
      + rewrite js_sj0. lia.
      + rewrite js_sjS by lia. pose proof (psum_pos ns (S j) Hpos ltac:(lia)). lia.
    - apply forallb_forall. intros j Hj. apply in_seq in Hj. apply Nat.eqb_eq.
      rewrite js_sjS by lia. rewrite js_ej by lia. pose proof (psum_ge ns Hpos (S j) ltac:(lia)). lia.
    - apply Nat.leb_le. exact Hfit.
    - apply forallb_forall. intros o Ho. apply in_seq in Ho. unfold padv, i. cbn [pad_mask]. unfold pad_mask_of.
      rewrite (nth_indep _ true ((fun o => list_sum ns <=? o) 0)) by (rewrite map_length, seq_length; lia).
      rewrite nth_map_seq by lia. cbn [Nat.add]. apply eqb_reflx.
    - apply forallb_forall. intros r Hr. apply forallb_forall. intros p Hp. apply Z.leb_le. apply (Hrows r Hr). exact Hp.
  Qed.
End JobStruct.

(* ================================================================== FJSP *)
(* low / high bounds around the mean m (round(0.8 m), round(1.2 m): 8m/10 and 12m/10 are never halfway between two
   integers, so round-half-even = floor(x + 1/2)); pt = big % (high - low) + low *)
Definition fjsp_low (minp m : Z) : Z := Z.max minp ((8 * m + 5) / 10).
Definition fjsp_high (maxp m : Z) : Z := (Z.min maxp ((12 * m + 5) / 10) + 1)%Z.
Definition fjsp_pt (minp maxp m big : Z) : Z := (big mod (fjsp_high maxp m - fjsp_low minp m) + fjsp_low minp m)%Z.

Lemma fjsp_pt_range minp maxp m big : (0 <= minp)%Z -> (minp <= m < maxp)%Z -> (0 <= big)%Z ->
  (minp <= fjsp_pt minp maxp m big <= maxp)%Z.
Proof.
  intros H0 Hm Hb. unfold fjsp_pt, fjsp_low, fjsp_high.
  assert (A : ((8 * m + 5) / 10 < m + 1)%Z) by (apply Z.div_lt_upper_bound; lia).
  assert (B : (m <= (12 * m + 5) / 10)%Z) by (apply Z.div_le_lower_bound; lia).
  set (lo := Z.max minp ((8 * m + 5) / 10)). set (hi := (Z.min maxp ((12 * m + 5) / 10) + 1)%Z).
  assert (Hd : (0 < hi - lo)%Z) by (unfold hi, lo; lia).
  pose proof (Z.mod_pos_bound big (hi - lo) Hd). unfold hi, lo in *. lia.
Qed.

Definition edge (M : nat) (nelig : list nat) (idx : list (list nat)) (nops o m : nat) : bool :=
  let ne := if nops <=? o then 0 else nth o nelig 0 in        (* n_eligible[pad_mask] = 0 *)
  nth m (nth o idx []) 0 + 1 <=? ne.                           (* unshuffled[o][idx[o][m]] *)
Definition gen_fjsp (ns : list nat) (nmax M : nat) (nelig : list nat) (idx : list (list nat)) (pt : list (list Z)) : inst :=
  {| start_op := start_ops ns; end_op := end_ops ns;
     proc := map (fun m => map (fun o => (nth o (nth m pt []) 0 * (if edge M nelig idx (list_sum ns) o m then 1 else 0))%Z)
                               (seq 0 nmax)) (seq 0 M);
     pad_mask := pad_mask_of nmax (list_sum ns) |}.

Lemma gen_fjsp_P ns nmax M nelig idx pt m o : m < M -> o < nmax ->
  P (gen_fjsp ns nmax M nelig idx pt) m o =
  (nth o (nth m pt []) 0 * (if edge M nelig idx (list_sum ns) o m then 1 else 0))%Z.
Proof.
  intros Hm Ho. unfold P, gen_fjsp. cbn [proc].
  rewrite (nth_indep _ [] ((fun m => map (fun o => (nth o (nth m pt []) 0 * (if edge M nelig idx (list_sum ns) o m then 1 else 0))%Z) (seq 0 nmax)) 0))
    by (rewrite map_length, seq_length; exact Hm).
  rewrite nth_map_seq by exact Hm. cbn [Nat.add].
  rewrite (nth_indep _ 0%Z ((fun o => (nth o (nth m pt []) 0 * (if edge M nelig idx (list_sum ns) o m then 1 else 0))%Z) 0))
    by (rewrite map_length, seq_length; exact Ho).
  rewrite nth_map_seq by exact Ho. reflexivity.
Qed.

(* padded operations have no machine *)
Definition pad_cleanb (i : inst) : bool :=
  forallb (fun o => forallb (fun m => (P i m o =? 0)%Z) (seq 0 (nM i))) (seq (total_ops i) (nN i - total_ops i)).

Theorem gen_fjsp_wf : forall (ns : list nat) (maxops M : nat) (nelig : list nat) (idx : list (list nat)) (pt : list (list Z)),
  ns <> [] -> (forall k, In k ns -> 1 <= k <= maxops) -> 1 <= M ->
  let nmax := maxops * length ns in
  (forall o, o < list_sum ns -> 1 <= nth o nelig 0) ->                                 (* min_eligible_ma_per_op >= 1 *)
  (forall o, o < list_sum ns -> Permutation (seq 0 M) (nth o idx [])) ->               (* argsort returns a permutation *)
  (forall m o, m < M -> o < nmax -> (1 <= nth o (nth m pt []) 0)%Z) ->                 (* min_processing_time >= 1 *)
  let i := gen_fjsp ns nmax M nelig idx pt in
  wfb i = true /\ solvableb i = true /\ pad_cleanb i = true /\ total_ops i = list_sum ns.
Proof.
  intros ns maxops M nelig idx pt Hne Hns HM nmax Hel Hperm Hpt i.
  assert (Hfit : list_sum ns <= nmax).
  { unfold nmax. apply list_sum_le_max. intros k Hk. apply (Hns k Hk). }
  assert (HP : forall m o, m < M -> o < nmax -> P i m o =
            (nth o (nth m pt []) 0 * (if edge M nelig idx (list_sum ns) o m then 1 else 0))%Z).
  { intros m o Hm Ho. apply gen_fjsp_P; assumption. }
  assert (HnM : nM i = M) by (unfold nM, i, gen_fjsp; cbn [proc]; rewrite map_length, seq_length; reflexivity).
  destruct (gen_job_struct_wfb ns nmax (proc i)) as [Hwf [Htot [HN HJ]]].
  - exact Hne.
  - intros k Hk. apply (Hns k Hk).
  - exact Hfit.
  - unfold i, gen_fjsp. cbn [proc]. destruct M; [lia|]. rewrite seq_S. intros E. apply map_eq_nil in E.
    destruct (seq 0 M); discriminate.
  - intros r Hr. unfold i, gen_fjsp in Hr. cbn [proc] in Hr. apply in_map_iff in Hr as [m [<- Hm]].
    split; [rewrite map_length, seq_length; reflexivity|].
    intros p Hp. apply in_map_iff in Hp as [o [<- Ho]]. apply in_seq in Hm, Ho.
    pose proof (Hpt m o ltac:(lia) ltac:(lia)). destruct (edge M nelig idx (list_sum ns) o m); lia.
  - change {| start_op := start_ops ns; end_op := end_ops ns; proc := proc i; pad_mask := pad_mask_of nmax (list_sum ns) |}
      with i in Hwf, Htot, HN, HJ.
    split; [exact Hwf|]. split; [|split; [|exact Htot]].
    + unfold solvableb. rewrite Htot, HnM. apply forallb_forall. intros o Ho. apply in_seq in Ho.
      apply existsb_exists.
      (* machine position m0 with idx[o][m0] = 0 *)
      assert (H0 : In 0 (nth o idx [])) by (apply (Permutation_in _ (Hperm o ltac:(lia))); apply in_seq; lia).
      destruct (In_nth _ _ 0 H0) as [m0 [Hm0 E0]].
      assert (HLen : length (nth o idx []) = M).
      { rewrite <- (Permutation_length (Hperm o ltac:(lia))). apply seq_length. }
      exists m0. split; [apply in_seq; lia|]. apply Z.ltb_lt.
      rewrite HP by lia. unfold edge. rewrite E0.
      destruct (list_sum ns <=? o) eqn:E; [apply Nat.leb_le in E; lia|].
      pose proof (Hel o ltac:(lia)) as H1. pose proof (Hpt m0 o ltac:(lia) ltac:(lia)).
      destruct (0 + 1 <=? nth o nelig 0) eqn:E2; [lia|]. apply Nat.leb_gt in E2. lia.
    + unfold pad_cleanb. rewrite Htot, HN, HnM. apply forallb_forall. intros o Ho. apply in_seq in Ho.
      apply forallb_forall. intros m Hm. apply in_seq in Hm. apply Z.eqb_eq.
      rewrite HP by lia. unfold edge.
      destruct (list_sum ns <=? o) eqn:E; [|apply Nat.leb_gt in E; lia].
      destruct (nth m (nth o idx []) 0 + 1 <=? 0) eqn:E2; [apply Nat.leb_le in E2; lia|]. lia.
Qed.

(* ================================================================== JSSP *)
Definition gen_jssp (ns : list nat) (nmax M : nat) (ids : list nat) (pt : list (list Z)) : inst :=
  {| start_op := start_ops ns; end_op := end_ops ns;
     proc := map (fun m => map (fun o => (nth o (nth m pt []) 0 * (if Nat.eqb (nth o ids 0%nat) m then 1 else 0))%Z)
                               (seq 0 nmax)) (seq 0 M);
     pad_mask := pad_mask_of nmax (list_sum ns) |}.

Lemma gen_jssp_P ns nmax M ids pt m o : m < M -> o < nmax ->
  P (gen_jssp ns nmax M ids pt) m o = (nth o (nth m pt []) 0 * (if Nat.eqb (nth o ids 0%nat) m then 1 else 0))%Z.
Proof.
  intros Hm Ho. unfold P, gen_jssp. cbn [proc].
  rewrite (nth_indep _ [] ((fun m => map (fun o => (nth o (nth m pt []) 0 * (if Nat.eqb (nth o ids 0%nat) m then 1 else 0))%Z) (seq 0 nmax)) 0))
    by (rewrite map_length, seq_length; exact Hm).
  rewrite nth_map_seq by exact Hm. cbn [Nat.add].
  rewrite (nth_indep _ 0%Z ((fun o => (nth o (nth m pt []) 0 * (if Nat.eqb (nth o ids 0%nat) m then 1 else 0))%Z) 0))
    by (rewrite map_length, seq_length; exact Ho).
  rewrite nth_map_seq by exact Ho. reflexivity.
Qed.

Lemma filter_single (f : nat -> bool) (c : nat) : forall n s,
  (forall m, s <= m < s + n -> f m = (m =? c)) ->
  length (filter f (seq s n)) = if (s <=? c) && (c <? s + n) then 1 else 0.
Proof.
  induction n as [|n IH]; intros s H.
  - cbn [seq filter length]. rewrite Nat.add_0_r.
    destruct (s <=? c) eqn:E1; destruct (c <? s) eqn:E2; try reflexivity.
    apply Nat.leb_le in E1. apply Nat.ltb_lt in E2. lia.
  - cbn [seq filter]. rewrite (H s ltac:(lia)). specialize (IH (S s) ltac:(intros m Hm; apply H; lia)).
    destruct (s =? c) eqn:E.
    + apply Nat.eqb_eq in E. subst c. cbn [length]. rewrite IH.
      replace (S s <=? s) with false by (symmetry; apply Nat.leb_gt; lia). cbn [andb].
      replace (s <=? s) with true by (symmetry; apply Nat.leb_le; lia).
      replace (s <? s + S n) with true by (symmetry; apply Nat.ltb_lt; lia). reflexivity.
    + apply Nat.eqb_neq in E. rewrite IH. replace (S s + n) with (s + S n) by lia.
      destruct (c <? s + S n); rewrite ?andb_true_r, ?andb_false_r; [|reflexivity].
      destruct (S s <=? c) eqn:E1; destruct (s <=? c) eqn:E2; try reflexivity; exfalso.
      * apply Nat.leb_le in E1. apply Nat.leb_gt in E2. lia.
      * apply Nat.leb_gt in E1. apply Nat.leb_le in E2. lia.
Qed.

Theorem gen_jssp_wf : forall (ns : list nat) (maxops M : nat) (ids : list nat) (pt : list (list Z)),
  ns <> [] -> (forall k, In k ns -> 1 <= k <= maxops) -> 1 <= M ->
  let nmax := maxops * length ns in
  (forall o, o < nmax -> nth o ids 0 < M) ->                                           (* machine ids are machines *)
  (forall m o, m < M -> o < nmax -> (1 <= nth o (nth m pt []) 0)%Z) ->
  let i := gen_jssp ns nmax M ids pt in
  wfb i = true /\ solvableb i = true /\ jssp_wfb i = true /\ total_ops i = list_sum ns.
Proof.
  intros ns maxops M ids pt Hne Hns HM nmax Hids Hpt i.
  assert (Hfit : list_sum ns <= nmax).
  { unfold nmax. apply list_sum_le_max. intros k Hk. apply (Hns k Hk). }
  assert (HP : forall m o, m < M -> o < nmax -> P i m o = (nth o (nth m pt []) 0 * (if Nat.eqb (nth o ids 0%nat) m then 1 else 0))%Z).
  { intros m o Hm Ho. apply gen_jssp_P; assumption. }
  assert (HnM : nM i = M) by (unfold nM, i, gen_jssp; cbn [proc]; rewrite map_length, seq_length; reflexivity).
  destruct (gen_job_struct_wfb ns nmax (proc i)) as [Hwf [Htot [HN HJ]]].
  - exact Hne.
  - intros k Hk. apply (Hns k Hk).
  - exact Hfit.
  - unfold i, gen_jssp. cbn [proc]. destruct M; [lia|]. rewrite seq_S. intros E. apply map_eq_nil in E.
    destruct (seq 0 M); discriminate.
  - intros r Hr. unfold i, gen_jssp in Hr. cbn [proc] in Hr. apply in_map_iff in Hr as [m [<- Hm]].
    split; [rewrite map_length, seq_length; reflexivity|].
    intros p Hp. apply in_map_iff in Hp as [o [<- Ho]]. apply in_seq in Hm, Ho.
    pose proof (Hpt m o ltac:(lia) ltac:(lia)). destruct (nth o ids 0 =? m); lia.
  - change {| start_op := start_ops ns; end_op := end_ops ns; proc := proc i; pad_mask := pad_mask_of nmax (list_sum ns) |}
      with i in Hwf, Htot, HN, HJ.
    assert (Hpos : forall o m, o < nmax -> m < M -> (0 <? P i m o)%Z = (m =? nth o ids 0)).
    { intros o m Ho Hm. rewrite HP by assumption. pose proof (Hpt m o Hm Ho).
      destruct (nth o ids 0 =? m) eqn:E.
      - apply Nat.eqb_eq in E. subst m. rewrite Nat.eqb_refl. apply Z.ltb_lt. lia.
      - apply Nat.eqb_neq in E. replace (m =? nth o ids 0) with false by (symmetry; apply Nat.eqb_neq; lia).
        apply Z.ltb_ge. lia. }
    split; [exact Hwf|]. split; [|split; [|exact Htot]].
    + unfold solvableb. rewrite Htot, HnM. apply forallb_forall. intros o Ho. apply in_seq in Ho.
      apply existsb_exists. exists (nth o ids 0). pose proof (Hids o ltac:(lia)).
      split; [apply in_seq; lia|]. rewrite Hpos by lia. apply Nat.eqb_refl.
    + unfold jssp_wfb. rewrite Htot, HnM. apply forallb_forall. intros o Ho. apply in_seq in Ho. apply Nat.eqb_eq.
      rewrite (filter_single _ (nth o ids 0) M 0).
      * pose proof (Hids o ltac:(lia)).
        replace (0 <=? nth o ids 0) with true by (symmetry; apply Nat.leb_le; lia).
        replace (nth o ids 0 <? 0 + M) with true by (symmetry; apply Nat.ltb_lt; lia). reflexivity.
      * intros m Hm. apply Hpos; lia.
Qed.

(* ================================================================== FFSP *)
(* run_time = randint(min_time, max_time, (J, S * M)): nothing is post-processed; the environment's format needs
   0 <= entry < 999999 and the shape J x (S * M).  The machine table [mtab] is built by the environment. *)
Definition ffsp_mtab_okb (i : FFSP.inst) : bool :=
  (length (FFSP.mtab i) =? FFSP.nT i)
  && forallb (fun k => (nth k (FFSP.mtab i) 0 <? FFSP.nT i) && (nth k (FFSP.mtab i) 0 / FFSP.nM i =? k / FFSP.nM i))
             (seq 0 (FFSP.nT i)).
Theorem gen_ffsp_wf : forall (i : FFSP.inst) (lo hi : Z),
  1 <= FFSP.nJ i -> 1 <= FFSP.nS i -> 1 <= FFSP.nM i ->
  length (FFSP.rt i) = FFSP.nJ i ->
  (forall row, In row (FFSP.rt i) -> length row = FFSP.nT i /\ forall d, In d row -> (lo <= d < hi)%Z) ->
  (0 <= lo)%Z -> (hi <= 999999)%Z ->
  ffsp_mtab_okb i = true ->
  FFSP.wfb i = true.
Proof.
  intros i lo hi HJ HS HM HL Hrows Hlo Hhi Hmt. unfold FFSP.wfb. unfold ffsp_mtab_okb in Hmt.
  apply andb_prop in Hmt as [Hm1 Hm2]. rewrite Hm1, Hm2, !andb_true_r.
  repeat (apply andb_true_intro; split); try (apply Nat.leb_le; assumption).
  - apply Nat.eqb_eq. exact HL.
  - apply forallb_forall. intros row Hr. destruct (Hrows row Hr) as [H1 H2]. apply andb_true_intro. split.
    + apply Nat.eqb_eq. exact H1.
    + apply forallb_forall. intros d Hd. specialize (H2 d Hd). apply andb_true_intro. split; [apply Z.leb_le|apply Z.ltb_lt]; lia.
Qed.

(* ================================================================== SMTWTP *)
(* three uniform_ rows of length n + 1 whose entry 0 (the dummy start node) is overwritten with 0 *)
Definition zero_head (l : list Z) : list Z := match l with [] => [] | _ :: r => 0%Z :: r end.
Definition gen_smtwtp (n : nat) (due wgt pt : list Z) : SMTWTP.inst :=
  {| SMTWTP.n_job := n; SMTWTP.due := zero_head due; SMTWTP.wgt := zero_head wgt; SMTWTP.ptime := zero_head pt |}.
Theorem gen_smtwtp_wf : forall (n : nat) (due wgt pt : list Z),
  1 <= n -> length due = S n -> length wgt = S n -> length pt = S n ->
  (forall x, In x due \/ In x wgt \/ In x pt -> (0 <= x)%Z) ->
  let i := gen_smtwtp n due wgt pt in
  SMTWTP.wfb i = true /\ nth 0 (SMTWTP.due i) 1%Z = 0%Z /\ nth 0 (SMTWTP.wgt i) 1%Z = 0%Z /\ nth 0 (SMTWTP.ptime i) 1%Z = 0%Z /\
  (forall x, In x (SMTWTP.due i) \/ In x (SMTWTP.wgt i) \/ In x (SMTWTP.ptime i) -> (0 <= x)%Z).
Proof.
  intros n due wgt pt Hn H1 H2 H3 Hnn i.
  destruct due as [|d0 due']; [discriminate|]. destruct wgt as [|w0 wgt']; [discriminate|]. destruct pt as [|p0 pt']; [discriminate|].
  unfold i, gen_smtwtp, SMTWTP.wfb. cbn [SMTWTP.n_job SMTWTP.due SMTWTP.wgt SMTWTP.ptime zero_head nth].
  split; [|split; [reflexivity|split; [reflexivity|split; [reflexivity|]]]].
  - cbn [length] in *. repeat (apply andb_true_intro; split); try (apply Nat.eqb_eq; lia). apply Nat.leb_le. lia.
  - intros x [[<-|H]|[[<-|H]|[<-|H]]]; try lia; apply Hnn; cbn [In]; tauto.
Qed.

(* ================================================================== examples *)
Example gen_fjsp_ex :
  let i := gen_fjsp [2; 1] 4 2 [1; 2; 1; 2] [[1; 0]; [0; 1]; [0; 1]; [1; 0]] [[3; 4; 5; 6]; [7; 8; 9; 10]]%Z in
  start_op i = [0; 2] /\ end_op i = [1; 2] /\ pad_mask i = [false; false; false; true] /\
  proc i = [[0; 4; 5; 0]; [7; 8; 0; 0]]%Z /\
  wfb i = true /\ solvableb i = true /\ pad_cleanb i = true.
Proof. vm_compute. repeat split. Qed.
Example gen_jssp_ex :
  let i := gen_jssp [2; 2] 4 2 [1; 0; 0; 1] [[3; 4; 5; 6]; [7; 8; 9; 10]]%Z in
  proc i = [[0; 4; 5; 0]; [7; 0; 0; 10]]%Z /\ wfb i = true /\ solvableb i = true /\ jssp_wfb i = true.
Proof. vm_compute. repeat split. Qed.
Example fjsp_pt_ex : fjsp_pt 1 20 10 7 = 10%Z /\ fjsp_low 1 10 = 8%Z /\ fjsp_high 20 10 = 13%Z /\ fjsp_pt 1 20 19 123 = 18%Z.
Proof. vm_compute. repeat split. Qed.
