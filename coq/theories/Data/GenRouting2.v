(* Routing generators with little or no post-processing -- TSP, mTSP, PCTSP / SPCTSP, MDCPDP, SDVRP -- as Gallina
   functions of the raw draws, stated with the input-format / solvability predicates of the environment units
   (Env/TSPProofs.v tsp_wfb, Env/MTSPProofs.v mtsp_wfb / mtsp_solvableb, Env/PCTSPProofs.v pctsp_wfb,
   Env/MDCPDPDefs.v md_wfb / md_solvableb, Env/SDVRPProofs.v sd_solvableb), so that "generated => completes" can be
   composed with C02.

   Distance matrices are instance data (what get_distance returns on the sampled points): the metric facts the
   environment predicates ask of them (square, symmetric / non-negative, zero diagonal) are hypotheses here; the
   harness evaluates the whole predicate on generated instances.  Real-valued quantities are exact rationals;
   [scaleq S q] = floor (S q) is how they enter the environments' scaled-integer instances (any S >= 0). *)
From Coq Require Import ZArith QArith Qround List Bool Lia Lqa ZifyBool Arith.
From RL4CO Require Import Base.Num Data.GenRouting.
From RL4CO Require Env.TSP Env.TSPProofs Env.MTSP Env.MTSPProofs Env.PCTSP Env.PCTSPProofs Env.MDCPDP Env.MDCPDPDefs
                      Env.CVRP Env.CVRPProofs Env.SDVRPProofs.
Import ListNotations.
Open Scope Z_scope.

Definition scaleq (S : Z) (q : Q) : Z := Qfloor (inject_Z S * q).
Lemma scaleq_nonneg S q : 0 <= S -> (0 <= q)%Q -> 0 <= scaleq S q.
Proof.
  intros HS Hq. unfold scaleq. apply (Qfloor_lb 0). change (inject_Z 0) with 0%Q.
  apply Qmult_le_0_compat; [|exact Hq]. change 0%Q with (inject_Z 0). apply inject_Z_le. exact HS.
Qed.
Lemma scaleq_mono S a b : 0 <= S -> (a <= b)%Q -> scaleq S a <= scaleq S b.
Proof.
  intros HS H. unfold scaleq. apply Qfloor_resp_le. rewrite !(Qmult_comm (inject_Z S)). apply Qmult_le_compat_r; [exact H|].
  change 0%Q with (inject_Z 0). apply inject_Z_le. exact HS.
Qed.

(* ================================================================== TSP: locs = loc_sampler.sample((num_loc, 2)) *)
Definition gen_tsp (D : list (list Z)) : TSP.tsp_inst := {| TSP.tdist := D |}.
Theorem gen_tsp_wf : forall (n : nat) (D : list (list Z)),
  (1 <= n)%nat -> length D = n -> (forall r, In r D -> length r = n) ->
  (forall a b, (a < n)%nat -> (b < n)%nat -> mget D a b = mget D b a) ->
  TSPProofs.tsp_wfb (gen_tsp D) = true.
Proof.
  intros n D Hn HL Hr Hs. unfold TSPProofs.tsp_wfb, gen_tsp, TSP.tsp_n, TSP.tsp_d. cbn [TSP.tdist]. rewrite HL.
  repeat (apply andb_true_intro; split).
  - apply Nat.leb_le. exact Hn.
  - apply forallb_forall. intros r H. apply Nat.eqb_eq, Hr, H.
  - apply forallb_forall. intros a Ha. apply forallb_forall. intros b Hb. apply in_seq in Ha, Hb. apply Z.eqb_eq, Hs; lia.
Qed.

(* ================================================================== mTSP: num_agents = randint(min_num_agents, max_num_agents + 1) *)
Definition gen_mtsp (k : Z) (D : list (list Z)) : MTSP.mtsp_inst := {| MTSP.nag := k; MTSP.dist := D |}.
Theorem gen_mtsp_wf : forall (lo hi k : Z) (n : nat) (D : list (list Z)),
  1 <= lo -> lo <= k <= hi ->                                   (* the randint draw *)
  (1 <= n)%nat -> length D = n -> (forall r, In r D -> length r = n /\ forall x, In x r -> 0 <= x) ->
  (forall a, (a < n)%nat -> mget D a a = 0) ->
  let i := gen_mtsp k D in
  MTSPProofs.mtsp_wfb i = true /\ lo <= MTSP.nag i <= hi /\ ((2 <= n)%nat -> MTSPProofs.mtsp_solvableb i = true).
Proof.
  intros lo hi k n D Hlo Hk Hn HL Hr Hd i. split; [|split].
  - unfold MTSPProofs.mtsp_wfb, i, gen_mtsp, MTSP.nnodes. cbn [MTSP.dist MTSP.nag]. rewrite HL.
    repeat (apply andb_true_intro; split).
    + apply Nat.ltb_lt. lia.
    + apply forallb_forall. intros r H. destruct (Hr r H) as [H1 H2]. apply andb_true_intro. split; [apply Nat.eqb_eq; exact H1|].
      apply forallb_forall. intros x Hx. apply Z.leb_le, H2, Hx.
    + apply forallb_forall. intros a Ha. apply in_seq in Ha. apply Z.eqb_eq, Hd. lia.
    + apply Z.leb_le. lia.
  - exact Hk.
  - intros H2. unfold MTSPProofs.mtsp_solvableb, i, gen_mtsp, MTSP.nnodes. cbn [MTSP.dist]. rewrite HL. apply Nat.ltb_lt. lia.
Qed.

(* ================================================================== PCTSP / SPCTSP *)
(* max_penalty = (kwargs max_penalty, else MAX_LENGTHS.get(num_loc) / closest key) * penalty_factor / num_loc
   penalty             = Uniform(0, max_penalty).sample()      = rp * max_penalty          rp, rd, rs = torch.rand draws
   deterministic_prize = Uniform(0, 4 / num_loc).sample()      = rd * (4 / num_loc)
   stochastic_prize    = Uniform(0, 2).sample() * deterministic_prize = (rs * 2) * deterministic_prize *)
Definition pctsp_max_penalty (override : option Q) (num_loc : Z) (factor : Q) : Q :=
  (match override with Some m => m | None => inject_Z (table_lookup MAX_LENGTHS num_loc) end * (factor / inject_Z num_loc))%Q.
Definition pctsp_penalty (maxpen rp : Q) : Q := (rp * maxpen)%Q.
Definition pctsp_det (num_loc : Z) (rd : Q) : Q := (rd * (4 / inject_Z num_loc))%Q.
Definition pctsp_sto (num_loc : Z) (rd rs : Q) : Q := (rs * 2 * pctsp_det num_loc rd)%Q.

Theorem pctsp_ranges : forall (num_loc : Z) (maxpen rp rd rs : Q),
  1 <= num_loc -> (0 <= maxpen)%Q ->
  (0 <= rp)%Q -> (rp < 1)%Q -> (0 <= rd)%Q -> (rd < 1)%Q -> (0 <= rs)%Q -> (rs < 1)%Q ->
  (0 <= pctsp_penalty maxpen rp)%Q /\ (pctsp_penalty maxpen rp <= maxpen)%Q /\
  (0 <= pctsp_det num_loc rd)%Q /\ (pctsp_det num_loc rd < 4 / inject_Z num_loc)%Q /\
  (0 <= pctsp_sto num_loc rd rs)%Q /\ (pctsp_sto num_loc rd rs <= 2 * pctsp_det num_loc rd)%Q.
Proof.
  intros n maxpen rp rd rs Hn Hm P0 P1 D0 D1 S0 S1.
  assert (Hq : (0 < 4 / inject_Z n)%Q).
  { apply Qlt_shift_div_l; [change 0%Q with (inject_Z 0); apply inject_Z_lt; lia|]. rewrite Qmult_0_l. reflexivity. }
  unfold pctsp_penalty, pctsp_sto, pctsp_det. set (c := (4 / inject_Z n)%Q) in *.
  assert (Hd0 : (0 <= rd * c)%Q) by nra. assert (Hd1 : (rd * c < c)%Q) by nra.
  repeat split; try nra.
Qed.
Lemma pctsp_table_max_penalty_pos n factor : 1 <= n -> (0 <= factor)%Q -> (0 <= pctsp_max_penalty None n factor)%Q.
Proof.
  intros Hn Hf. unfold pctsp_max_penalty.
  assert (HL : (0 <= inject_Z (table_lookup MAX_LENGTHS n))%Q).
  { pose proof (op_max_length_table n) as H. change 0%Q with (inject_Z 0). apply inject_Z_le. cbn in H. intuition lia. }
  assert (Hq : (0 <= factor / inject_Z n)%Q).
  { apply Qle_shift_div_l; [change 0%Q with (inject_Z 0); apply inject_Z_lt; lia|]. rewrite Qmult_0_l. exact Hf. }
  apply Qmult_le_0_compat; assumption.
Qed.

(* one row as the environments see it (scaled by S): one draw triple (rp, rd, rs) per customer *)
Definition gen_pctsp (S : Z) (stochastic : bool) (num_loc : Z) (maxpen : Q) (draws : list (Q * Q * Q))
           (D : list (list Z)) (thr : Z) : PCTSP.pctsp_inst :=
  {| PCTSP.dprize := map (fun t => let '(_, rd, _) := t in scaleq S (pctsp_det num_loc rd)) draws;
     PCTSP.sprize := map (fun t => let '(_, rd, rs) := t in scaleq S (pctsp_sto num_loc rd rs)) draws;
     PCTSP.stoch := stochastic;
     PCTSP.pen := map (fun t => let '(rp, _, _) := t in scaleq S (pctsp_penalty maxpen rp)) draws;
     PCTSP.pdist := D; PCTSP.preq := S; PCTSP.pthr := thr |}.
Theorem gen_pctsp_wf : forall (S : Z) (stochastic : bool) (num_loc : Z) (maxpen : Q) (draws : list (Q * Q * Q))
                              (D : list (list Z)) (thr : Z),
  0 < S -> 1 <= num_loc -> (0 <= maxpen)%Q -> draws <> [] ->
  (forall rp rd rs, In (rp, rd, rs) draws -> (0 <= rp)%Q /\ (rp < 1)%Q /\ (0 <= rd)%Q /\ (rd < 1)%Q /\ (0 <= rs)%Q /\ (rs < 1)%Q) ->
  let i := gen_pctsp S stochastic num_loc maxpen draws D thr in
  PCTSPProofs.pctsp_wfb i = true /\ PCTSP.pn_of i = length draws /\
  (forall x, In x (PCTSP.dprize i) \/ In x (PCTSP.sprize i) \/ In x (PCTSP.pen i) -> 0 <= x) /\
  (forall x, In x (PCTSP.pen i) -> x <= scaleq S maxpen).
Proof.
  intros S st n maxpen draws D thr HS Hn Hm Hne Hdr i.
  assert (Hpn : PCTSP.pn_of i = length draws) by (unfold PCTSP.pn_of, i, gen_pctsp; cbn [PCTSP.pen]; apply map_length).
  split; [|split; [exact Hpn|split]].
  - unfold PCTSPProofs.pctsp_wfb. rewrite Hpn. unfold i, gen_pctsp. cbn [PCTSP.dprize PCTSP.sprize PCTSP.preq].
    rewrite !map_length, !Nat.eqb_refl. cbn [andb]. apply andb_true_intro. split; [|apply Z.ltb_lt; exact HS].
    apply Nat.ltb_lt. destruct draws; [congruence|cbn; lia].
  - intros x Hx. unfold i, gen_pctsp in Hx. cbn [PCTSP.dprize PCTSP.sprize PCTSP.pen] in Hx.
    destruct Hx as [Hx|[Hx|Hx]]; apply in_map_iff in Hx as [[[rp rd] rs] [<- Hin]];
      destruct (Hdr rp rd rs Hin) as [P0 [P1 [D0 [D1 [S0 S1]]]]];
      destruct (pctsp_ranges n maxpen rp rd rs Hn Hm P0 P1 D0 D1 S0 S1) as [A1 [A2 [A3 [A4 [A5 A6]]]]];
      apply scaleq_nonneg; try lia; assumption.
  - intros x Hx. unfold i, gen_pctsp in Hx. cbn [PCTSP.pen] in Hx. apply in_map_iff in Hx as [[[rp rd] rs] [<- Hin]].
    destruct (Hdr rp rd rs Hin) as [P0 [P1 [D0 [D1 [S0 S1]]]]].
    destruct (pctsp_ranges n maxpen rp rd rs Hn Hm P0 P1 D0 D1 S0 S1) as [A1 [A2 _]].
    apply scaleq_mono; [lia|exact A2].
Qed.

(* ================================================================== MDCPDP *)
(* num_loc made even; depot rows = num_depot (mode "multiple") or one draw repeated num_depot times ("single");
   capacity = randint(min_capacity, max_capacity + 1, (1,)) : ONE column; lateness_weight = its sampler's draw *)
Definition even_num_loc (n : nat) : nat := if Nat.even n then n else S n.
Definition gen_mdcpdp (num_loc num_depot : nat) (c : Z) (D : list (list Z)) (one lw : Z) (opn : bool) (mode : nat) : MDCPDP.md_inst :=
  {| MDCPDP.ndep := num_depot; MDCPDP.nloc := even_num_loc num_loc; MDCPDP.caps := [c]; MDCPDP.dist := D; MDCPDP.start := 0%nat;
     MDCPDP.opn := opn; MDCPDP.mode := mode; MDCPDP.one := one; MDCPDP.lw := lw; MDCPDP.solo := true; MDCPDP.legs0 := [] |}.
Lemma even_num_loc_even n : Nat.even (even_num_loc n) = true /\ (n <= even_num_loc n <= S n)%nat.
Proof.
  unfold even_num_loc. destruct (Nat.even n) eqn:E; [split; [exact E|lia]|]. split; [|lia].
  rewrite Nat.even_succ. unfold Nat.odd. rewrite E. reflexivity.
Qed.
Theorem gen_mdcpdp_wf : forall (num_loc num_depot : nat) (lo hi c : Z) (D : list (list Z)) (one lw : Z) (opn : bool) (mode : nat),
  (1 <= num_depot)%nat -> 1 <= lo -> lo <= c <= hi ->                   (* min_capacity >= 1; the randint draw *)
  let N := (num_depot + even_num_loc num_loc)%nat in
  length D = N -> (forall r, In r D -> length r = N /\ forall x, In x r -> 0 <= x) -> (forall a, (a < N)%nat -> mget D a a = 0) ->
  0 < one -> 0 <= lw <= one ->
  let i := gen_mdcpdp num_loc num_depot c D one lw opn mode in
  MDCPDPDefs.md_wfb i = true /\ MDCPDPDefs.md_solvableb i = true /\ Nat.even (MDCPDP.nloc i) = true /\ MDCPDP.caps i = [c] /\ lo <= c <= hi.
Proof.
  intros num_loc nd lo hi c D one lw opn mode Hnd Hlo Hc N HL Hr Hd Hone Hlw i.
  destruct (even_num_loc_even num_loc) as [He _].
  split; [|split; [|split; [exact He|split; [reflexivity|exact Hc]]]].
  - unfold MDCPDPDefs.md_wfb, i, gen_mdcpdp.
    cbn [MDCPDP.ndep MDCPDP.nloc MDCPDP.caps MDCPDP.dist MDCPDP.start MDCPDP.one MDCPDP.lw length]. fold N. rewrite HL.
    repeat (apply andb_true_intro; split); try reflexivity.
    + exact He.
    + apply Nat.ltb_lt. lia.
    + apply Z.leb_le. lia.
    + apply Nat.ltb_lt. lia.
    + apply Nat.eqb_refl.
    + apply forallb_forall. intros r H. destruct (Hr r H) as [H1 H2]. apply andb_true_intro. split; [apply Nat.eqb_eq; exact H1|].
      apply forallb_forall. intros x Hx. apply Z.leb_le, H2, Hx.
    + apply forallb_forall. intros a Ha. apply in_seq in Ha. apply Z.eqb_eq, Hd. lia.
    + apply Z.leb_le. lia.
    + apply Z.leb_le. lia.
    + apply Z.ltb_lt. exact Hone.
  - unfold MDCPDPDefs.md_solvableb, i, gen_mdcpdp. cbn [MDCPDP.caps forallb]. rewrite andb_true_r. apply Z.leb_le. lia.
Qed.

(* ================================================================== SDVRP: SDVRPEnv uses CVRPGenerator unchanged *)
Theorem gen_sdvrp_wf : forall (num_loc : Z) (override : option Z) (lo hi : Z) (us : list Q) (D : list (list Z)),
  1 <= lo <= hi - 1 ->
  (forall u, In u us -> (inject_Z (lo - 1) <= u)%Q /\ (u < inject_Z (hi - 1))%Q) ->
  hi - 1 <= cvrp_capacity override num_loc ->
  let i := gen_cvrp (cvrp_capacity override num_loc) us D in
  CVRPProofs.cvrp_wfb i = true /\ SDVRPProofs.sd_solvableb i = true /\ (forall k, In k (CVRP.dem i) -> 1 <= k).
Proof.
  intros n ovr lo hi us D Hlo Hus Hcap i.
  destruct (gen_cvrp_wf n ovr lo hi us D Hlo Hus Hcap) as [H1 [_ H3]]. fold i in H1, H3.
  split; [exact H1|]. split.
  - unfold SDVRPProofs.sd_solvableb. apply Z.ltb_lt. change (CVRP.cap i) with (cvrp_capacity ovr n). lia.
  - intros k Hk. destruct (H3 k Hk). lia.
Qed.

Example gen_routing2_ex :
  pctsp_max_penalty None 16 3 == (3 # 8) /\ pctsp_max_penalty None 64 3 == (9 # 64) /\
  pctsp_penalty (3 # 8) (1 # 2) == (3 # 16) /\ pctsp_det 16 (1 # 2) == (1 # 8) /\ pctsp_sto 16 (1 # 2) (3 # 4) == (3 # 16) /\
  PCTSPProofs.pctsp_wfb (gen_pctsp 1024 true 16 (3 # 8) [((1 # 2), (1 # 2), (3 # 4))] [] 1023) = true /\
  even_num_loc 5 = 6%nat /\
  MDCPDPDefs.md_wfb (gen_mdcpdp 1 1 3 [[0; 1; 1]; [1; 0; 2]; [1; 2; 0]] 4 4 false 0) = true.
Proof. vm_compute. repeat split. Qed.
