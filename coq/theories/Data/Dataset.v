(* C17 -- datasets, collation and baseline wrapping preserve instance identity and order.

   Model of rl4co/data/dataset.py (FastTdDataset, TensorDictDataset, ExtraKeyDataset,
   TensorDictDatasetFastGeneration and their collate_fn), of the torch DataLoader *contract*
   (BatchSampler = consecutive chunks incl. a final partial one; SequentialSampler = 0..n-1;
   RandomSampler = some permutation, given as an oracle list), and of
   RolloutBaseline.rollout / wrap_dataset (rl4co/models/rl/reinforce/baselines.py).

   Layers:
     1. [chunks]                 BatchSampler(sampler, b, drop_last=False)
     2. [td], [item], [rows]     a TensorDict with batch_size [n], column by column; a row = one instance
     3. dataset classes          as coded (list of per-item dicts + stack; index + identity collate;
                                 ExtraKeyDataset with its in-place write into the shared dicts)
     4. [dataloader]             fetch + collate per index chunk, threading the (mutable) storage
     5. [rollout], [wrap_load]   RolloutBaseline with an abstract batch policy that is row-wise (hypothesis)
   Values (per-instance tensor slices) are an abstract type V: a slice carries its own dtype and shape,
   so "same slice" includes "same dtype and shape"; that torch.stack / indexing return the same slices
   is torch semantics (trusted base, observed by the correspondence check on the implementation side). *)
From Coq Require Import List Arith Bool Lia Permutation PeanoNat.
Import ListNotations.

(* ------------------------------------------------------------------------------------------------ *)
(** * 1. Chunking: torch.utils.data.BatchSampler with drop_last=False

    [batch = [*islice(it, b)]; while batch: yield batch; batch = [*islice(it, b)]] *)
Section Chunks.
  Context {A : Type}.

  Fixpoint chunks_fuel (fuel b : nat) (l : list A) : list (list A) :=
    match fuel with
    | 0 => []
    | S f => match l with
             | [] => []
             | _ :: _ => firstn b l :: chunks_fuel f b (skipn b l)
             end
    end.
  (* fuel = length l is enough as soon as b >= 1 (each round consumes at least one element) *)
  Definition chunks (b : nat) (l : list A) : list (list A) := chunks_fuel (length l) b l.

  Lemma chunks_fuel_irrel b : 1 <= b -> forall f1 f2 (l : list A),
      length l <= f1 -> length l <= f2 -> chunks_fuel f1 b l = chunks_fuel f2 b l.
  Proof.
    intros Hb. induction f1 as [|f1 IH]; intros f2 l H1 H2.
    - destruct l; [|simpl in H1; lia]. destruct f2; reflexivity.
    - destruct l as [|a l]. { destruct f2; reflexivity. }
      destruct f2 as [|f2]; [simpl in H2; lia|].
      cbn [chunks_fuel]. f_equal.
      apply IH; rewrite skipn_length; cbn [length] in *; lia.
  Qed.

  Lemma chunks_nil b : chunks b [] = [].
  Proof. reflexivity. Qed.

  Lemma chunks_cons b (l : list A) : 1 <= b -> l <> [] ->
    chunks b l = firstn b l :: chunks b (skipn b l).
  Proof.
    intros Hb Hl. unfold chunks. destruct l as [|a l]; [congruence|].
    cbn [length chunks_fuel]. f_equal.
    apply chunks_fuel_irrel; [assumption| |lia].
    rewrite skipn_length. cbn [length]. lia.
  Qed.

  (* induction along the way the sampler consumes the index stream *)
  Lemma chunks_ind b (P : list A -> Prop) : 1 <= b ->
    P [] -> (forall l, l <> [] -> P (skipn b l) -> P l) -> forall l, P l.
  Proof.
    intros Hb H0 Hs l.
    assert (H : forall n (l : list A), length l <= n -> P l).
    { induction n as [|n IH]; intros l0 Hl.
      - destruct l0; [exact H0 | simpl in Hl; lia].
      - destruct l0 as [|a l0]; [exact H0|].
        apply Hs; [discriminate|]. apply IH. rewrite skipn_length. cbn [length] in *. lia. }
    apply (H (length l)). lia.
  Qed.

  Theorem chunks_concat b (l : list A) : 1 <= b -> concat (chunks b l) = l.
  Proof.
    intros Hb. pattern l. apply (chunks_ind b); [exact Hb|reflexivity|]. clear l. intros l Hl IHl.
    rewrite chunks_cons by assumption. cbn [concat]. rewrite IHl. apply firstn_skipn.
  Qed.

  Lemma skipn_skipn_add x y (l : list A) : skipn x (skipn y l) = skipn (y + x) l.
  Proof.
    revert l. induction y as [|y IH]; intros l; [reflexivity|].
    destruct l as [|a l]; [rewrite !skipn_nil; reflexivity|]. cbn [Nat.add skipn]. apply IH.
  Qed.

  Theorem chunks_nth b (l : list A) : 1 <= b ->
    forall i, nth i (chunks b l) [] = firstn b (skipn (i * b) l).
  Proof.
    intros Hb. pattern l. apply (chunks_ind b); [exact Hb| |]; clear l; [|intros l Hl IHl]; intros i.
    - rewrite chunks_nil, skipn_nil, firstn_nil. destruct i; reflexivity.
    - rewrite chunks_cons by assumption. destruct i as [|i].
      + reflexivity.
      + cbn [nth]. rewrite IHl, skipn_skipn_add. reflexivity.
  Qed.

  Theorem chunks_nonempty b (l : list A) : 1 <= b -> Forall (fun c => c <> []) (chunks b l).
  Proof.
    intros Hb. pattern l. apply (chunks_ind b); [exact Hb|constructor|]. clear l. intros l Hl IHl.
    rewrite chunks_cons by assumption. constructor; [|assumption].
    destruct l as [|a l]; [congruence|]. destruct b; [lia|]. discriminate.
  Qed.

  Theorem chunks_length_bounds b (l : list A) : 1 <= b ->
    Forall (fun c => 1 <= length c <= b) (chunks b l).
  Proof.
    intros Hb. pattern l. apply (chunks_ind b); [exact Hb|constructor|]. clear l. intros l Hl IHl.
    rewrite chunks_cons by assumption. constructor; [|assumption].
    rewrite firstn_length. destruct l; [congruence|]. simpl. lia.
  Qed.

  (* number of chunks c = ceil(n / b), first without division: n <= c*b < n + b *)
  Theorem chunks_count_bounds b (l : list A) : 1 <= b ->
    length l <= length (chunks b l) * b /\ length (chunks b l) * b < length l + b.
  Proof.
    intros Hb. pattern l. apply (chunks_ind b); [exact Hb| |]; clear l; [|intros l Hl IHl].
    - simpl. lia.
    - rewrite chunks_cons by assumption. cbn [length].
      rewrite skipn_length in IHl. destruct l as [|a l]; [congruence|].
      set (c := length (chunks b (skipn b (a :: l)))) in *.
      set (n := length (a :: l)) in *. assert (Hn : 1 <= n) by (subst n; simpl; lia).
      destruct IHl as [I1 I2]. clearbody c n. rewrite Nat.mul_succ_l.
      destruct (Nat.le_gt_cases n b) as [Hle|Hgt].
      + replace (n - b) with 0 in * by lia.
        assert (Hc : c = 0) by (destruct c; [reflexivity | rewrite Nat.mul_succ_l in I2; lia]).
        rewrite Hc. lia.
      + lia.
  Qed.

  Theorem chunks_count b (l : list A) : 1 <= b ->
    length (chunks b l) = (length l + b - 1) / b.
  Proof.
    intros Hb. destruct (chunks_count_bounds b l Hb) as [H1 H2].
    set (c := length (chunks b l)) in *. set (n := length l) in *.
    apply Nat.div_unique with (r := n + b - 1 - c * b); [lia|].
    rewrite (Nat.mul_comm b c). lia.
  Qed.

  (* every chunk but the last has exactly b elements; the last one has n - (c-1)*b, between 1 and b *)
  Theorem chunks_full_but_last b (l : list A) : 1 <= b ->
    forall i, S i < length (chunks b l) -> length (nth i (chunks b l) []) = b.
  Proof.
    intros Hb i Hi. rewrite chunks_nth by assumption.
    rewrite firstn_length, skipn_length.
    destruct (chunks_count_bounds b l Hb) as [_ H2].
    assert (S (S i) * b <= length (chunks b l) * b) by (apply Nat.mul_le_mono_r; lia).
    simpl in H. lia.
  Qed.

  Theorem chunks_last_length b (l : list A) : 1 <= b -> l <> [] ->
    let c := length (chunks b l) in
    length (nth (c - 1) (chunks b l) []) = length l - (c - 1) * b /\
    1 <= length l - (c - 1) * b <= b.
  Proof.
    intros Hb Hl c. destruct (chunks_count_bounds b l Hb) as [H1 H2]. fold c in H1, H2.
    assert (1 <= c).
    { destruct c; [|lia]. destruct l; [congruence|simpl in H1; lia]. }
    assert (E : (c - 1) * b + b = c * b).
    { replace c with (S (c - 1)) at 2 by lia. simpl. lia. }
    split.
    - rewrite chunks_nth by assumption. rewrite firstn_length, skipn_length. lia.
    - lia.
  Qed.

  Lemma chunks_Forall b (P : A -> Prop) (l : list A) : 1 <= b ->
    Forall P l -> Forall (Forall P) (chunks b l).
  Proof.
    intros Hb Hl. apply Forall_forall. intros c Hc. apply Forall_forall. intros x Hx.
    rewrite Forall_forall in Hl. apply Hl. rewrite <- (chunks_concat b l Hb).
    apply in_concat. exists c. split; assumption.
  Qed.
End Chunks.

Example chunks_example :
  chunks 3 [0;1;2;3;4;5;6] = [[0;1;2];[3;4;5];[6]] /\ chunks 7 [0;1;2] = [[0;1;2]] /\
  chunks 1 [5;6] = [[5];[6]] /\ length (chunks 3 [0;1;2;3;4;5;6]) = (7 + 3 - 1) / 3.
Proof. repeat split. Qed.

(* ------------------------------------------------------------------------------------------------ *)
(** * Small list facts used below *)
Section ListFacts.
  Context {X Y : Type}.

  Lemma map_nth_seq (l : list X) d : map (fun j => nth j l d) (seq 0 (length l)) = l.
  Proof.
    induction l as [|a l IH]; [reflexivity|]. cbn [length seq map nth]. f_equal.
    rewrite <- seq_shift, map_map. exact IH.
  Qed.

  Lemma nth_map_seq (g : nat -> X) n i d : i < n -> nth i (map g (seq 0 n)) d = g i.
  Proof.
    intros Hi. rewrite (nth_indep _ d (g 0)) by (rewrite map_length, seq_length; exact Hi).
    rewrite map_nth, seq_nth by exact Hi. reflexivity.
  Qed.

  Lemma nth_map_in (g : Y -> X) (l : list Y) i d d' : i < length l -> nth i (map g l) d = g (nth i l d').
  Proof.
    intros Hi. rewrite (nth_indep _ d (g d')) by (rewrite map_length; exact Hi). apply map_nth.
  Qed.

  Fixpoint opt_all (l : list (option X)) : option (list X) :=
    match l with
    | [] => Some []
    | None :: _ => None
    | Some x :: r => match opt_all r with Some xs => Some (x :: xs) | None => None end
    end.

  Lemma opt_all_nth_error (h : list X) d (ix : list nat) :
    Forall (fun i => i < length h) ix ->
    opt_all (map (nth_error h) ix) = Some (map (fun i => nth i h d) ix).
  Proof.
    induction 1 as [|i ix Hi _ IH]; [reflexivity|].
    cbn [map opt_all]. rewrite (nth_error_nth' h d Hi), IH. reflexivity.
  Qed.

  (* list.__setitem__ on an index that exists *)
  Fixpoint replace_nth (i : nat) (x : X) (l : list X) : list X :=
    match l, i with
    | [], _ => []
    | _ :: r, 0 => x :: r
    | y :: r, S j => y :: replace_nth j x r
    end.

  Lemma replace_nth_length i x (l : list X) : length (replace_nth i x l) = length l.
  Proof. revert i. induction l as [|y l IH]; intros [|i]; simpl; auto. Qed.

  Lemma nth_replace_nth (l : list X) i j x d : i < length l ->
    nth j (replace_nth i x l) d = if j =? i then x else nth j l d.
  Proof.
    revert i j. induction l as [|y l IH]; intros i j Hi; [simpl in Hi; lia|].
    destruct i as [|i]; destruct j as [|j]; simpl; try reflexivity.
    apply IH. simpl in Hi. lia.
  Qed.

  Lemma combine_map_seq (g : nat -> X) (l : list Y) d :
    combine (map g (seq 0 (length l))) l = map (fun i => (g i, nth i l d)) (seq 0 (length l)).
  Proof.
    assert (H : forall s, combine (map g (seq s (length l))) l
                          = map (fun i => (g i, nth (i - s) l d)) (seq s (length l))).
    { induction l as [|a l IH]; intros s; [reflexivity|].
      cbn [length seq map combine]. rewrite Nat.sub_diag. cbn [nth]. f_equal.
      rewrite IH. apply map_ext_in. intros i Hi. apply in_seq in Hi.
      replace (i - s) with (S (i - S s)) by lia. reflexivity. }
    rewrite H. apply map_ext. intros i. rewrite Nat.sub_0_r. reflexivity.
  Qed.
End ListFacts.

(* the order oracle handed to the model by the harness is checked to be a permutation of 0..n-1 *)
Definition is_permb (perm : list nat) (n : nat) : bool :=
  (length perm =? n) && forallb (fun i => existsb (Nat.eqb i) perm) (seq 0 n).

Lemma is_permb_sound perm n : is_permb perm n = true -> Permutation perm (seq 0 n).
Proof.
  unfold is_permb. intros H. apply andb_prop in H as [Hl Hall]. apply Nat.eqb_eq in Hl.
  symmetry. apply NoDup_Permutation_bis; [apply seq_NoDup | rewrite seq_length; lia |].
  intros i Hi. rewrite forallb_forall in Hall. specialize (Hall i Hi).
  apply existsb_exists in Hall as [j [Hj Hij]]. apply Nat.eqb_eq in Hij. subst j. exact Hj.
Qed.

(* ------------------------------------------------------------------------------------------------ *)
(** * 2.-5. TensorDicts, the dataset classes, the loader, the rollout baseline *)
Section TensorDict.
  Context {K V : Type}.
  Variable K_eqb : K -> K -> bool.
  Hypothesis K_eqb_eq : forall a b, K_eqb a b = true <-> a = b.
  Variable dV : V.   (* totalises [nth]; every access below is guarded by an explicit range check *)

  (** ** insertion-ordered dictionaries (python dict / TensorDict key order) *)
  Fixpoint alookup {X} (k : K) (l : list (K * X)) : option X :=
    match l with
    | [] => None
    | (k', x) :: r => if K_eqb k' k then Some x else alookup k r
    end.
  (* d[k] = x : an existing key keeps its position, a new key goes last *)
  Fixpoint aset {X} (k : K) (x : X) (l : list (K * X)) : list (K * X) :=
    match l with
    | [] => [(k, x)]
    | (k', x') :: r => if K_eqb k' k then (k', x) :: r else (k', x') :: aset k x r
    end.
  Fixpoint memk (k : K) (ks : list K) : bool :=
    match ks with [] => false | k' :: r => K_eqb k' k || memk k r end.
  Fixpoint nodupk (ks : list K) : bool :=
    match ks with [] => true | k :: r => negb (memk k r) && nodupk r end.

  Lemma K_eqb_refl k : K_eqb k k = true.
  Proof. apply K_eqb_eq. reflexivity. Qed.
  Lemma K_eqb_neq a b : a <> b -> K_eqb a b = false.
  Proof. intros H. destruct (K_eqb a b) eqn:E; [apply K_eqb_eq in E; contradiction|reflexivity]. Qed.

  Lemma memk_In k ks : memk k ks = true <-> In k ks.
  Proof.
    induction ks as [|k' r IH]; simpl; [split; [discriminate|tauto]|].
    rewrite orb_true_iff, IH, K_eqb_eq. tauto.
  Qed.
  Lemma nodupk_NoDup ks : nodupk ks = true -> NoDup ks.
  Proof.
    induction ks as [|k r IH]; simpl; intros H; [constructor|].
    apply andb_prop in H as [H1 H2]. constructor; [|auto].
    intros Hin. apply memk_In in Hin. rewrite Hin in H1. discriminate.
  Qed.

  Lemma alookup_notin {X} k (l : list (K * X)) : ~ In k (map fst l) -> alookup k l = None.
  Proof.
    induction l as [|[k' x] r IH]; simpl; intros H; [reflexivity|].
    rewrite K_eqb_neq by tauto. apply IH. tauto.
  Qed.
  Lemma alookup_in {X} k (l : list (K * X)) : In k (map fst l) -> exists x, alookup k l = Some x.
  Proof.
    induction l as [|[k' x] r IH]; simpl; intros H; [contradiction|].
    destruct (K_eqb k' k) eqn:E; [eauto|]. destruct H as [H|H]; [|auto].
    subst. rewrite K_eqb_refl in E. discriminate.
  Qed.

  Lemma aset_keys {X} k (x : X) l :
    map fst (aset k x l) = if memk k (map fst l) then map fst l else map fst l ++ [k].
  Proof.
    induction l as [|[k' x'] r IH]; simpl; [reflexivity|].
    destruct (K_eqb k' k) eqn:E; simpl; [reflexivity|]. rewrite IH.
    destruct (memk k (map fst r)); reflexivity.
  Qed.
  Lemma aset_fresh {X} k (x : X) l : ~ In k (map fst l) -> aset k x l = l ++ [(k, x)].
  Proof.
    induction l as [|[k' x'] r IH]; simpl; intros H; [reflexivity|].
    rewrite K_eqb_neq by tauto. rewrite IH by tauto. reflexivity.
  Qed.
  Lemma aset_aset {X} k (x y : X) l : aset k y (aset k x l) = aset k y l.
  Proof.
    induction l as [|[k' x'] r IH]; simpl; [rewrite K_eqb_refl; reflexivity|].
    destruct (K_eqb k' k) eqn:E; simpl; rewrite E; [reflexivity|]. rewrite IH. reflexivity.
  Qed.
  Lemma aset_NoDup {X} k (x : X) l : NoDup (map fst l) -> NoDup (map fst (aset k x l)).
  Proof.
    intros H. rewrite aset_keys. destruct (memk k (map fst l)) eqn:E; [exact H|].
    apply (Permutation_NoDup (Permutation_cons_append (map fst l) k)).
    constructor; [|exact H]. intros Hin. apply memk_In in Hin. congruence.
  Qed.
  Lemma alookup_aset_same {X} k (x : X) l : alookup k (aset k x l) = Some x.
  Proof.
    induction l as [|[k' x'] r IH]; simpl; [rewrite K_eqb_refl; reflexivity|].
    destruct (K_eqb k' k) eqn:E; simpl; rewrite E; [reflexivity|exact IH].
  Qed.
  Lemma alookup_aset_other {X} k k' (x : X) l : k <> k' -> alookup k' (aset k x l) = alookup k' l.
  Proof.
    intros Hne. induction l as [|[k2 x2] r IH]; simpl.
    - rewrite K_eqb_neq by exact Hne. reflexivity.
    - destruct (K_eqb k2 k) eqn:E; simpl.
      + apply K_eqb_eq in E. subst k2. rewrite K_eqb_neq by exact Hne. reflexivity.
      + destruct (K_eqb k2 k'); [reflexivity|exact IH].
  Qed.

  (** ** items and TensorDicts *)
  Definition item := list (K * V).                       (* one instance: dict / TensorDict with batch_size [] *)
  Record td := mkTD { bsz : nat; cols : list (K * list V) }.   (* TensorDict with batch_size [bsz] *)
  Definition td_keys (t : td) : list K := map fst (cols t).
  (* what the TensorDict constructor enforces: every column has the batch dimension; keys are distinct *)
  Definition td_wfb (t : td) : bool :=
    forallb (fun kc => length (snd kc) =? bsz t) (cols t) && nodupk (td_keys t).

  Definition row_at (t : td) (i : nat) : item := map (fun kc => (fst kc, nth i (snd kc) dV)) (cols t).
  Definition rows (t : td) : list item := map (row_at t) (seq 0 (bsz t)).
  (* td[i], i an int: IndexError outside the batch *)
  Definition td_get_int (t : td) (i : nat) : option item :=
    if i <? bsz t then Some (row_at t i) else None.
  (* td[ix], ix a list of ints (also {key: value[ix]} with batch_size [len(ix)]) *)
  Definition gather (t : td) (ix : list nat) : option td :=
    if forallb (fun i => i <? bsz t) ix
    then Some (mkTD (length ix) (map (fun kc => (fst kc, map (fun i => nth i (snd kc) dV) ix)) (cols t)))
    else None.

  Definition getd (k : K) (it : item) : V := match alookup k it with Some v => v | None => dV end.
  Definition has_keys (ks : list K) (it : item) : bool :=
    forallb (fun k => match alookup k it with Some _ => true | None => false end) ks.
  (* TensorDictDataset.collate_fn:
       TensorDict({key: torch.stack([b[key] for b in batch]) for key in batch[0].keys()}, batch_size=[len(batch)])
     None = batch[0] on an empty batch / KeyError when a later item lacks a key of the first;
     keys that only later items have are silently dropped *)
  Definition collate_stack (batch : list item) : option td :=
    match batch with
    | [] => None
    | it0 :: _ =>
        let ks := map fst it0 in
        if forallb (has_keys ks) batch
        then Some (mkTD (length batch) (map (fun k => (k, map (getd k) batch)) ks))
        else None
    end.

  Lemma row_at_keys t i : map fst (row_at t i) = td_keys t.
  Proof. unfold row_at, td_keys. rewrite map_map. reflexivity. Qed.

  Lemma td_wfb_NoDup t : td_wfb t = true -> NoDup (td_keys t).
  Proof. unfold td_wfb. intros H. apply andb_prop in H as [_ H]. apply nodupk_NoDup. exact H. Qed.

  Lemma rows_length t : length (rows t) = bsz t.
  Proof. unfold rows. rewrite map_length, seq_length. reflexivity. Qed.

  Lemma gather_spec t ix : Forall (fun i => i < bsz t) ix ->
    exists t', gather t ix = Some t' /\ rows t' = map (row_at t) ix /\ bsz t' = length ix.
  Proof.
    intros Hix. unfold gather.
    assert (E : forallb (fun i => i <? bsz t) ix = true).
    { apply forallb_forall. intros i Hi. rewrite Forall_forall in Hix. apply Nat.ltb_lt. auto. }
    rewrite E. eexists. split; [reflexivity|]. split; [|reflexivity].
    unfold rows. cbn [bsz].
    transitivity (map (row_at t) (map (fun j => nth j ix 0) (seq 0 (length ix))));
      [|rewrite map_nth_seq; reflexivity].
    rewrite map_map.
    apply map_ext_in. intros j Hj. apply in_seq in Hj.
    unfold row_at. cbn [cols]. rewrite map_map. apply map_ext. intros [k col]. cbn [fst snd].
    f_equal. apply (nth_map_in (fun i => nth i col dV)). lia.
  Qed.

  Lemma gather_none t ix : ~ Forall (fun i => i < bsz t) ix -> gather t ix = None.
  Proof.
    intros H. unfold gather. destruct (forallb (fun i => i <? bsz t) ix) eqn:E; [|reflexivity].
    exfalso. apply H. apply Forall_forall. intros i Hi. rewrite forallb_forall in E.
    apply Nat.ltb_lt. auto.
  Qed.

  (* rebuilding an item from its own keys *)
  Lemma item_rebuild (it : item) : NoDup (map fst it) -> map (fun k => (k, getd k it)) (map fst it) = it.
  Proof.
    induction it as [|[k0 v0] r IH]; intros Hnd; [reflexivity|].
    cbn [map fst]. inversion Hnd as [|? ? Hnotin Hnd']; subst. f_equal.
    - unfold getd. simpl. rewrite K_eqb_refl. reflexivity.
    - rewrite <- (IH Hnd') at 2. apply map_ext_in. intros k Hk. f_equal.
      unfold getd. simpl. rewrite K_eqb_neq; [reflexivity|]. intros ->. contradiction.
  Qed.

  Lemma has_keys_same ks (it : item) : map fst it = ks -> has_keys ks it = true.
  Proof.
    intros <-. unfold has_keys. apply forallb_forall. intros k Hk.
    destruct (alookup_in k it Hk) as [v ->]. reflexivity.
  Qed.

  Lemma stack_spec (ks : list K) (batch : list item) :
    batch <> [] -> NoDup ks -> Forall (fun it => map fst it = ks) batch ->
    exists t, collate_stack batch = Some t /\ rows t = batch /\ bsz t = length batch.
  Proof.
    intros Hne Hnd Hall. destruct batch as [|it0 r]; [congruence|].
    unfold collate_stack.
    assert (E0 : map fst it0 = ks) by (inversion Hall; assumption). rewrite E0.
    assert (E : forallb (has_keys ks) (it0 :: r) = true).
    { apply forallb_forall. intros it Hit. rewrite Forall_forall in Hall. apply has_keys_same. auto. }
    rewrite E. eexists. split; [reflexivity|]. split; [|reflexivity].
    unfold rows. cbn [bsz].
    transitivity (map (fun j => nth j (it0 :: r) []) (seq 0 (length (it0 :: r)))); [|apply map_nth_seq].
    apply map_ext_in. intros j Hj. apply in_seq in Hj.
    unfold row_at. cbn [cols]. rewrite map_map. cbn [fst snd].
    assert (Hj' : In (nth j (it0 :: r) []) (it0 :: r)) by (apply nth_In; lia).
    rewrite Forall_forall in Hall. specialize (Hall _ Hj').
    transitivity (map (fun k => (k, getd k (nth j (it0 :: r) []))) (map fst (nth j (it0 :: r) [])));
      [|apply item_rebuild; rewrite Hall; exact Hnd].
    rewrite Hall. apply map_ext. intros k. f_equal.
    apply (nth_map_in (getd k)). lia.
  Qed.

  (* the KeyError branch: some item lacks a key of the first one *)
  Lemma stack_keyerror (it0 it1 : item) (k : K) (pre post : list item) :
    In k (map fst it0) -> ~ In k (map fst it1) -> collate_stack (it0 :: pre ++ it1 :: post) = None.
  Proof.
    intros H0 H1. unfold collate_stack.
    destruct (forallb (has_keys (map fst it0)) (it0 :: pre ++ it1 :: post)) eqn:E; [|reflexivity].
    exfalso. rewrite forallb_forall in E.
    assert (Hin : In it1 (it0 :: pre ++ it1 :: post)) by (right; apply in_or_app; right; left; reflexivity).
    specialize (E it1 Hin). unfold has_keys in E. rewrite forallb_forall in E. specialize (E k H0).
    rewrite (alookup_notin k it1 H1) in E. discriminate.
  Qed.

  (** ** the dataset classes, as coded *)
  (* what DataLoader needs of a map-style dataset: __len__, and _MapDatasetFetcher.fetch =
     collate_fn(dataset.__getitems__(ix)) if the class defines __getitems__, else collate_fn([dataset[i] for i in ix]).
     S is the storage the object points to; a fetch may write to it (ExtraKeyDataset does). *)
  Record dsclass (S : Type) := mkDS { ds_len : S -> nat; ds_fetch : S -> list nat -> option (td * S) }.
  Arguments mkDS {S} _ _.
  Arguments ds_len {S} _ _.
  Arguments ds_fetch {S} _ _ _.

  (* TensorDictDataset: data_len = td.batch_size[0]; data = [{key: value[i] for key, value in td.items()} for i in range(data_len)]
     __getitem__(idx) = self.data[idx]; collate_fn = stack.  The list of dicts is a heap object shared by
     reference with every ExtraKeyDataset built on this dataset. *)
  Definition heap := list item.
  Definition tdd_init (t : td) : heap := map (row_at t) (seq 0 (bsz t)).
  Definition tdd_fetch (h : heap) (ix : list nat) : option (td * heap) :=
    match opt_all (map (nth_error h) ix) with
    | Some items => match collate_stack items with Some t => Some (t, h) | None => None end
    | None => None
    end.
  Definition D_tdd : dsclass heap := mkDS (fun h => length h) tdd_fetch.

  (* FastTdDataset: data_len = td.batch_size[0]; __getitems__(idx) = self.data[idx]; collate_fn = identity *)
  Definition ftd_fetch (t : td) (ix : list nat) : option (td * td) :=
    match gather t ix with Some t' => Some (t', t) | None => None end.
  Definition D_ftd : dsclass td := mkDS bsz ftd_fetch.

  (* TensorDictDatasetFastGeneration: __len__ = len(self.data);
     __getitems__(index) = TensorDict({key: item[index] for key, item in self.data.items()}, batch_size=[len(index)]);
     collate_fn = identity *)
  Definition fg_fetch (t : td) (index : list nat) : option (td * td) :=
    match gather t index with Some t' => Some (t', t) | None => None end.
  Definition D_fg : dsclass td := mkDS bsz fg_fetch.
  (* add_key(key, value): self.data.update({key: value}); return self -- TensorDict refuses a value whose
     leading dimension is not the batch size (RuntimeError) *)
  Definition fg_add_key (t : td) (key : K) (value : list V) : option td :=
    if length value =? bsz t then Some (mkTD (bsz t) (aset key value (cols t))) else None.

  (* ExtraKeyDataset(dataset, extra, key_name): data_len = len(dataset); assert data_len == len(extra);
     data = dataset.data (shared, not copied); inherits collate_fn = stack and add_key from TensorDictDataset *)
  Record ekds := mkEK { ek_len : nat; ek_extra : list V; ek_key : K }.
  Definition ek_init (dataset_len : nat) (extra : list V) (key : K) : option ekds :=
    if dataset_len =? length extra then Some (mkEK dataset_len extra key) else None.   (* AssertionError *)
  (* TensorDictDataset.add_key / FastTdDataset.add_key: ExtraKeyDataset(self, value, key_name=key).
     Called on an ExtraKeyDataset (inherited method) it builds the new wrapper from [dataset.data] and
     [len(dataset)] only: the earlier wrapper's extra and key are not consulted. *)
  Definition ek_add_key (e : ekds) (key : K) (value : list V) : option ekds := ek_init (ek_len e) value key.

  (* __getitem__(idx): data = self.data[idx]; data[self.key_name] = self.extra[idx]; return data
     -- on a list of dicts this writes into the shared dict *)
  Definition ekl_getitem (e : ekds) (h : heap) (i : nat) : option (item * heap) :=
    match nth_error h i, nth_error (ek_extra e) i with
    | Some it, Some x => let it' := aset (ek_key e) x it in Some (it', replace_nth i it' h)
    | _, _ => None
    end.
  Fixpoint ekl_getitems (e : ekds) (h : heap) (ix : list nat) : option (list item * heap) :=
    match ix with
    | [] => Some ([], h)
    | i :: r => match ekl_getitem e h i with
                | None => None
                | Some (it, h1) => match ekl_getitems e h1 r with
                                   | None => None
                                   | Some (its, h2) => Some (it :: its, h2)
                                   end
                end
    end.
  Definition ekl_fetch (e : ekds) (h : heap) (ix : list nat) : option (td * heap) :=
    match ekl_getitems e h ix with
    | Some (items, h') => match collate_stack items with Some t => Some (t, h') | None => None end
    | None => None
    end.
  Definition D_ekl (e : ekds) : dsclass heap := mkDS (fun _ => ek_len e) (ekl_fetch e).

  (* the same __getitem__ when self.data is a TensorDict (FastTdDataset / FastGeneration underneath):
     self.data[idx] is a fresh TensorDict, the write does not reach the stored one *)
  Definition ekt_getitem (e : ekds) (t : td) (i : nat) : option item :=
    match td_get_int t i, nth_error (ek_extra e) i with
    | Some it, Some x => Some (aset (ek_key e) x it)
    | _, _ => None
    end.
  Definition ekt_fetch (e : ekds) (t : td) (ix : list nat) : option (td * td) :=
    match opt_all (map (ekt_getitem e t) ix) with
    | Some items => match collate_stack items with Some t' => Some (t', t) | None => None end
    | None => None
    end.
  Definition D_ekt (e : ekds) : dsclass td := mkDS (fun _ => ek_len e) (ekt_fetch e).

  (** ** DataLoader(dataset, batch_size=b, shuffle=..., collate_fn=dataset.collate_fn), num_workers=0, drop_last=False *)
  Fixpoint fetch_all {S} (D : dsclass S) (s : S) (batches : list (list nat)) : option (list td * S) :=
    match batches with
    | [] => Some ([], s)
    | ix :: rest => match ds_fetch D s ix with
                    | None => None
                    | Some (t, s1) => match fetch_all D s1 rest with
                                      | None => None
                                      | Some (ts, s2) => Some (t :: ts, s2)
                                      end
                    end
    end.
  (* shuffle = None: SequentialSampler; shuffle = Some perm: RandomSampler, perm being what it yielded *)
  Definition dataloader {S} (D : dsclass S) (s : S) (b : nat) (shuffle : option (list nat)) : option (list td * S) :=
    if b =? 0 then None                                    (* ValueError: batch_size should be a positive integer *)
    else match shuffle with
         | None => fetch_all D s (chunks b (seq 0 (ds_len D s)))
         | Some perm => if ds_len D s =? 0 then None       (* RandomSampler: num_samples=0 *)
                        else fetch_all D s (chunks b perm)
         end.

  Lemma fetch_all_spec {S} (D : dsclass S) (Inv : S -> Prop) (f : nat -> item) (n : nat) :
    (forall s ix, Inv s -> ix <> [] -> Forall (fun i => i < n) ix ->
       exists t s', ds_fetch D s ix = Some (t, s') /\ rows t = map f ix /\ bsz t = length ix /\ Inv s') ->
    forall batches s, Inv s -> Forall (fun ix => ix <> []) batches -> Forall (Forall (fun i => i < n)) batches ->
      exists ts s', fetch_all D s batches = Some (ts, s') /\
        map rows ts = map (map f) batches /\ map bsz ts = map (@length nat) batches /\ Inv s'.
  Proof.
    intros Hf. induction batches as [|ix rest IH]; intros s Hs Hne Hin.
    - exists [], s. repeat split; assumption.
    - inversion Hne as [|? ? Hne1 Hne2]; inversion Hin as [|? ? Hin1 Hin2]; subst.
      destruct (Hf s ix Hs Hne1 Hin1) as (t & s1 & E1 & R1 & B1 & I1).
      destruct (IH s1 I1 Hne2 Hin2) as (ts & s2 & E2 & R2 & B2 & I2).
      exists (t :: ts), s2. cbn [fetch_all]. rewrite E1, E2. cbn [map]. rewrite R1, R2, B1, B2.
      repeat split; assumption.
  Qed.

  Definition order_of (n : nat) (shuffle : option (list nat)) : list nat :=
    match shuffle with None => seq 0 n | Some perm => perm end.
  Definition shuffle_ok (n : nat) (shuffle : option (list nat)) : Prop :=
    match shuffle with None => True | Some perm => Permutation perm (seq 0 n) /\ 1 <= n end.

  Lemma order_in_range n shuffle : shuffle_ok n shuffle -> Forall (fun i => i < n) (order_of n shuffle).
  Proof.
    intros H. apply Forall_forall. intros i Hi. destruct shuffle as [perm|]; cbn in *.
    - destruct H as [H _]. apply (Permutation_in _ H) in Hi. apply in_seq in Hi. lia.
    - apply in_seq in Hi. lia.
  Qed.

  Lemma dataloader_spec {S} (D : dsclass S) (Inv : S -> Prop) (f : nat -> item) (n : nat) :
    (forall s, Inv s -> ds_len D s = n) ->
    (forall s ix, Inv s -> ix <> [] -> Forall (fun i => i < n) ix ->
       exists t s', ds_fetch D s ix = Some (t, s') /\ rows t = map f ix /\ bsz t = length ix /\ Inv s') ->
    forall s b shuffle, Inv s -> 1 <= b -> shuffle_ok n shuffle ->
      exists ts s', dataloader D s b shuffle = Some (ts, s') /\
        map rows ts = map (map f) (chunks b (order_of n shuffle)) /\
        map bsz ts = map (@length nat) (chunks b (order_of n shuffle)) /\ Inv s'.
  Proof.
    intros Hlen Hf s b shuffle Hs Hb Hsh.
    pose proof (order_in_range n shuffle Hsh) as Hrange.
    assert (G : exists ts s', fetch_all D s (chunks b (order_of n shuffle)) = Some (ts, s') /\
        map rows ts = map (map f) (chunks b (order_of n shuffle)) /\
        map bsz ts = map (@length nat) (chunks b (order_of n shuffle)) /\ Inv s').
    { apply (fetch_all_spec D Inv f n Hf); [exact Hs | apply chunks_nonempty; exact Hb | apply chunks_Forall; assumption]. }
    unfold dataloader. replace (b =? 0) with false by (symmetry; apply Nat.eqb_neq; lia).
    rewrite (Hlen s Hs). destruct shuffle as [perm|]; cbn [order_of] in *; [|exact G].
    destruct Hsh as [_ Hn]. replace (n =? 0) with false by (symmetry; apply Nat.eqb_neq; lia). exact G.
  Qed.

  Lemma concat_rows_of_chunks (f : nat -> item) b (order : list nat) (ts : list td) : 1 <= b ->
    map rows ts = map (map f) (chunks b order) -> concat (map rows ts) = map f order.
  Proof. intros Hb E. rewrite E, <- concat_map, chunks_concat by exact Hb. reflexivity. Qed.

  (** ** what one fetch returns, class by class *)
  Lemma tdd_init_length t : length (tdd_init t) = bsz t.
  Proof. unfold tdd_init. rewrite map_length, seq_length. reflexivity. Qed.
  Lemma tdd_init_nth t i : i < bsz t -> nth i (tdd_init t) [] = row_at t i.
  Proof. intros H. unfold tdd_init. apply nth_map_seq. exact H. Qed.
  Lemma tdd_init_rows t : tdd_init t = rows t.
  Proof. reflexivity. Qed.

  Lemma nonempty_map {X Y} (g : X -> Y) (l : list X) : l <> [] -> map g l <> [].
  Proof. destruct l; [congruence|discriminate]. Qed.

  Lemma tdd_fetch_spec t : td_wfb t = true -> forall ix, ix <> [] -> Forall (fun i => i < bsz t) ix ->
    exists t', tdd_fetch (tdd_init t) ix = Some (t', tdd_init t) /\ rows t' = map (row_at t) ix /\ bsz t' = length ix.
  Proof.
    intros Hwf ix Hne Hix. unfold tdd_fetch.
    rewrite (opt_all_nth_error (tdd_init t) [] ix) by (rewrite tdd_init_length; exact Hix).
    assert (E : map (fun i => nth i (tdd_init t) []) ix = map (row_at t) ix).
    { apply map_ext_in. intros i Hi. rewrite Forall_forall in Hix. apply tdd_init_nth. auto. }
    rewrite E.
    destruct (stack_spec (td_keys t) (map (row_at t) ix)) as (t' & E1 & R1 & B1).
    - apply nonempty_map. exact Hne.
    - apply td_wfb_NoDup. exact Hwf.
    - apply Forall_forall. intros it Hit. apply in_map_iff in Hit as (i & <- & _). apply row_at_keys.
    - exists t'. rewrite E1. rewrite map_length in B1. auto.
  Qed.

  Lemma ftd_fetch_spec t ix : Forall (fun i => i < bsz t) ix ->
    exists t', ftd_fetch t ix = Some (t', t) /\ rows t' = map (row_at t) ix /\ bsz t' = length ix.
  Proof.
    intros H. destruct (gather_spec t ix H) as (t' & E & R & B). exists t'. unfold ftd_fetch. rewrite E. auto.
  Qed.
  Lemma fg_fetch_spec t ix : Forall (fun i => i < bsz t) ix ->
    exists t', fg_fetch t ix = Some (t', t) /\ rows t' = map (row_at t) ix /\ bsz t' = length ix.
  Proof.
    intros H. destruct (gather_spec t ix H) as (t' & E & R & B). exists t'. unfold fg_fetch. rewrite E. auto.
  Qed.

  (* instance p of t with the value extra[p] written under [key] *)
  Definition with_extra (key : K) (extra : list V) (t : td) (p : nat) : item :=
    aset key (nth p extra dV) (row_at t p).
  Definition ek_keys (key : K) (t : td) : list K :=
    if memk key (td_keys t) then td_keys t else td_keys t ++ [key].
  Lemma with_extra_keys key extra t p : map fst (with_extra key extra t p) = ek_keys key t.
  Proof. unfold with_extra, ek_keys. rewrite aset_keys, row_at_keys. reflexivity. Qed.
  Lemma ek_keys_NoDup key t : NoDup (td_keys t) -> NoDup (ek_keys key t).
  Proof.
    intros H. pose proof (aset_NoDup key dV (row_at t 0)) as G.
    rewrite aset_keys, row_at_keys in G. apply G. exact H.
  Qed.

  Lemma stack_with_extra key extra t ix : td_wfb t = true -> ix <> [] ->
    exists t', collate_stack (map (with_extra key extra t) ix) = Some t' /\
      rows t' = map (with_extra key extra t) ix /\ bsz t' = length ix.
  Proof.
    intros Hwf Hne.
    destruct (stack_spec (ek_keys key t) (map (with_extra key extra t) ix)) as (t' & E1 & R1 & B1).
    - apply nonempty_map. exact Hne.
    - apply ek_keys_NoDup, td_wfb_NoDup. exact Hwf.
    - apply Forall_forall. intros it Hit. apply in_map_iff in Hit as (i & <- & _). apply with_extra_keys.
    - exists t'. rewrite map_length in B1. auto.
  Qed.

  (* storage states reachable by reading through ONE ExtraKeyDataset over the dicts of TensorDictDataset(t):
     each dict is either still the original instance or already carries this wrapper's value *)
  Definition ekl_inv (t : td) (e : ekds) (h : heap) : Prop :=
    length h = bsz t /\
    forall i, i < bsz t -> nth i h [] = row_at t i \/ nth i h [] = with_extra (ek_key e) (ek_extra e) t i.

  Lemma ekl_inv_init t e : ekl_inv t e (tdd_init t).
  Proof. split; [apply tdd_init_length|]. intros i Hi. left. apply tdd_init_nth. exact Hi. Qed.

  Lemma ekl_getitem_spec t e h i : ekl_inv t e h -> length (ek_extra e) = bsz t -> i < bsz t ->
    exists h', ekl_getitem e h i = Some (with_extra (ek_key e) (ek_extra e) t i, h') /\ ekl_inv t e h'.
  Proof.
    intros [Hlen Hinv] Hex Hi. unfold ekl_getitem.
    rewrite (nth_error_nth' h [] ) by lia. rewrite (nth_error_nth' (ek_extra e) dV) by lia.
    assert (E : aset (ek_key e) (nth i (ek_extra e) dV) (nth i h []) = with_extra (ek_key e) (ek_extra e) t i).
    { destruct (Hinv i Hi) as [-> | ->]; [reflexivity|]. unfold with_extra. apply aset_aset. }
    cbv zeta. rewrite E. eexists. split; [reflexivity|]. split.
    - rewrite replace_nth_length. exact Hlen.
    - intros j Hj. rewrite nth_replace_nth by lia. destruct (j =? i) eqn:Eji.
      + apply Nat.eqb_eq in Eji. subst j. right. reflexivity.
      + apply Hinv. exact Hj.
  Qed.

  Lemma ekl_getitems_spec t e : length (ek_extra e) = bsz t ->
    forall ix h, ekl_inv t e h -> Forall (fun i => i < bsz t) ix ->
    exists h', ekl_getitems e h ix = Some (map (with_extra (ek_key e) (ek_extra e) t) ix, h') /\ ekl_inv t e h'.
  Proof.
    intros Hex. induction ix as [|i r IH]; intros h Hh Hix.
    - exists h. split; [reflexivity|exact Hh].
    - inversion Hix as [|? ? Hi Hr]; subst.
      destruct (ekl_getitem_spec t e h i Hh Hex Hi) as (h1 & E1 & I1).
      destruct (IH h1 I1 Hr) as (h2 & E2 & I2).
      exists h2. cbn [ekl_getitems map]. rewrite E1, E2. split; [reflexivity|exact I2].
  Qed.

  Lemma ekl_fetch_spec t e : td_wfb t = true -> length (ek_extra e) = bsz t ->
    forall h ix, ekl_inv t e h -> ix <> [] -> Forall (fun i => i < bsz t) ix ->
    exists t' h', ekl_fetch e h ix = Some (t', h') /\
      rows t' = map (with_extra (ek_key e) (ek_extra e) t) ix /\ bsz t' = length ix /\ ekl_inv t e h'.
  Proof.
    intros Hwf Hex h ix Hh Hne Hix.
    destruct (ekl_getitems_spec t e Hex ix h Hh Hix) as (h' & E & I).
    destruct (stack_with_extra (ek_key e) (ek_extra e) t ix Hwf Hne) as (t' & E1 & R1 & B1).
    exists t', h'. unfold ekl_fetch. rewrite E, E1. auto.
  Qed.

  Lemma opt_all_map_some {X Y} (g : X -> option Y) (f : X -> Y) (l : list X) :
    Forall (fun x => g x = Some (f x)) l -> opt_all (map g l) = Some (map f l).
  Proof. induction 1 as [|x l Hx _ IH]; [reflexivity|]. cbn [map opt_all]. rewrite Hx, IH. reflexivity. Qed.

  Lemma ekt_fetch_spec t e : td_wfb t = true -> length (ek_extra e) = bsz t ->
    forall ix, ix <> [] -> Forall (fun i => i < bsz t) ix ->
    exists t', ekt_fetch e t ix = Some (t', t) /\
      rows t' = map (with_extra (ek_key e) (ek_extra e) t) ix /\ bsz t' = length ix.
  Proof.
    intros Hwf Hex ix Hne Hix. unfold ekt_fetch.
    rewrite (opt_all_map_some (ekt_getitem e t) (with_extra (ek_key e) (ek_extra e) t)).
    - destruct (stack_with_extra (ek_key e) (ek_extra e) t ix Hwf Hne) as (t' & E1 & R1 & B1).
      exists t'. rewrite E1. auto.
    - apply Forall_forall. intros i Hi. rewrite Forall_forall in Hix. specialize (Hix i Hi).
      unfold ekt_getitem, td_get_int. replace (i <? bsz t) with true by (symmetry; apply Nat.ltb_lt; exact Hix).
      rewrite (nth_error_nth' (ek_extra e) dV) by lia. reflexivity.
  Qed.

  Lemma row_at_aset_col key (col : list V) (cs : list (K * list V)) p :
    map (fun kc => (fst kc, nth p (snd kc) dV)) (aset key col cs)
    = aset key (nth p col dV) (map (fun kc => (fst kc, nth p (snd kc) dV)) cs).
  Proof.
    induction cs as [|[k' c'] r IH]; [reflexivity|]. cbn [aset map fst snd].
    destruct (K_eqb k' key); cbn [map fst snd]; [reflexivity|]. rewrite IH. reflexivity.
  Qed.
  Lemma fg_add_key_rows t key value t' : fg_add_key t key value = Some t' ->
    bsz t' = bsz t /\ forall p, row_at t' p = with_extra key value t p.
  Proof.
    unfold fg_add_key. destruct (length value =? bsz t); [|discriminate]. intros E. inversion E; subst; clear E.
    split; [reflexivity|]. intros p. unfold row_at, with_extra. cbn [cols]. apply row_at_aset_col.
  Qed.

  (** ** the three bundled classes behind one function: wrap [t], optionally add an extra key, read through a loader *)
  Inductive dcls := TDD | FastTd | FastGen.
  Definition drop_state {X Y} (o : option (X * Y)) : option X :=
    match o with Some (x, _) => Some x | None => None end.
  Definition load (c : dcls) (t : td) (extra : option (K * list V)) (b : nat) (shuffle : option (list nat))
    : option (list td) :=
    match c, extra with
    | TDD, None => drop_state (dataloader D_tdd (tdd_init t) b shuffle)
    | TDD, Some (key, ex) =>
        let h := tdd_init t in
        match ek_init (ds_len D_tdd h) ex key with                     (* dataset.add_key(key, ex) *)
        | None => None
        | Some e => drop_state (dataloader (D_ekl e) h b shuffle)
        end
    | FastTd, None => drop_state (dataloader D_ftd t b shuffle)
    | FastTd, Some (key, ex) =>
        match ek_init (ds_len D_ftd t) ex key with
        | None => None
        | Some e => drop_state (dataloader (D_ekt e) t b shuffle)
        end
    | FastGen, None => drop_state (dataloader D_fg t b shuffle)
    | FastGen, Some (key, ex) =>
        match fg_add_key t key ex with
        | None => None
        | Some t' => drop_state (dataloader D_fg t' b shuffle)
        end
    end.

  (* what must come out at sampler position p *)
  Definition emitted (t : td) (extra : option (K * list V)) (p : nat) : item :=
    match extra with None => row_at t p | Some (key, ex) => with_extra key ex t p end.
  Definition extra_len_ok (t : td) (extra : option (K * list V)) : Prop :=
    match extra with None => True | Some (_, ex) => length ex = bsz t end.

  Theorem load_spec c t extra b shuffle :
    td_wfb t = true -> 1 <= b -> shuffle_ok (bsz t) shuffle -> extra_len_ok t extra ->
    exists ts, load c t extra b shuffle = Some ts /\
      map rows ts = map (map (emitted t extra)) (chunks b (order_of (bsz t) shuffle)) /\
      map bsz ts = map (@length nat) (chunks b (order_of (bsz t) shuffle)).
  Proof.
    intros Hwf Hb Hsh Hex. destruct c; destruct extra as [[key ex]|]; cbn [load emitted extra_len_ok] in *.
    - (* TensorDictDataset + ExtraKeyDataset *)
      cbn [ds_len D_tdd]. rewrite tdd_init_length. unfold ek_init.
      replace (bsz t =? length ex) with true by (symmetry; apply Nat.eqb_eq; lia).
      set (e := mkEK (bsz t) ex key).
      destruct (dataloader_spec (D_ekl e) (ekl_inv t e) (with_extra key ex t) (bsz t)) with (s := tdd_init t) (b := b) (shuffle := shuffle)
        as (ts & s' & E & R & B & _); try assumption.
      + reflexivity.
      + intros s ix Hs Hne Hix. apply (ekl_fetch_spec t e Hwf Hex s ix Hs Hne Hix).
      + apply ekl_inv_init.
      + exists ts. rewrite E. auto.
    - (* TensorDictDataset *)
      destruct (dataloader_spec D_tdd (fun h => h = tdd_init t) (row_at t) (bsz t)) with (s := tdd_init t) (b := b) (shuffle := shuffle)
        as (ts & s' & E & R & B & _); try assumption; try reflexivity.
      + intros s ->. apply tdd_init_length.
      + intros s ix -> Hne Hix. destruct (tdd_fetch_spec t Hwf ix Hne Hix) as (t' & E' & R' & B').
        exists t', (tdd_init t). auto.
      + exists ts. rewrite E. auto.
    - (* FastTdDataset + ExtraKeyDataset *)
      cbn [ds_len D_ftd]. unfold ek_init.
      replace (bsz t =? length ex) with true by (symmetry; apply Nat.eqb_eq; lia).
      set (e := mkEK (bsz t) ex key).
      destruct (dataloader_spec (D_ekt e) (fun s => s = t) (with_extra key ex t) (bsz t)) with (s := t) (b := b) (shuffle := shuffle)
        as (ts & s' & E & R & B & _); try assumption; try reflexivity.
      + intros s ix -> Hne Hix. destruct (ekt_fetch_spec t e Hwf Hex ix Hne Hix) as (t' & E' & R' & B').
        exists t', t. auto.
      + exists ts. rewrite E. auto.
    - (* FastTdDataset *)
      destruct (dataloader_spec D_ftd (fun s => s = t) (row_at t) (bsz t)) with (s := t) (b := b) (shuffle := shuffle)
        as (ts & s' & E & R & B & _); try assumption; try reflexivity.
      + intros s ->. reflexivity.
      + intros s ix -> Hne Hix. destruct (ftd_fetch_spec t ix Hix) as (t' & E' & R' & B'). exists t', t. auto.
      + exists ts. rewrite E. auto.
    - (* FastGeneration + in-place add_key *)
      destruct (fg_add_key t key ex) as [t1|] eqn:Ea;
        [|unfold fg_add_key in Ea; replace (length ex =? bsz t) with true in Ea by (symmetry; apply Nat.eqb_eq; lia); discriminate].
      destruct (fg_add_key_rows t key ex t1 Ea) as [Hb1 Hr1].
      destruct (dataloader_spec D_fg (fun s => s = t1) (with_extra key ex t) (bsz t)) with (s := t1) (b := b) (shuffle := shuffle)
        as (ts & s' & E & R & B & _); try assumption; try reflexivity.
      + intros s ->. exact Hb1.
      + intros s ix -> Hne Hix. rewrite <- Hb1 in Hix.
        destruct (fg_fetch_spec t1 ix Hix) as (t' & E' & R' & B'). exists t', t1.
        repeat split; try assumption. rewrite R'. apply map_ext. exact Hr1.
      + exists ts. rewrite E. auto.
    - (* FastGeneration *)
      destruct (dataloader_spec D_fg (fun s => s = t) (row_at t) (bsz t)) with (s := t) (b := b) (shuffle := shuffle)
        as (ts & s' & E & R & B & _); try assumption; try reflexivity.
      + intros s ->. reflexivity.
      + intros s ix -> Hne Hix. destruct (fg_fetch_spec t ix Hix) as (t' & E' & R' & B'). exists t', t. auto.
      + exists ts. rewrite E. auto.
  Qed.
  (** ** the property, loader part *)

  (* the zipped dataset: instance i together with extra[i] under [key] (specification, no indices) *)
  Definition attach (key : K) (its : list item) (extra : list V) : list item :=
    map (fun p => aset key (snd p) (fst p)) (combine its extra).
  Lemma attach_spec key extra t : length extra = bsz t ->
    map (with_extra key extra t) (seq 0 (bsz t)) = attach key (rows t) extra.
  Proof.
    intros H. unfold attach, rows. rewrite <- H.
    rewrite (combine_map_seq (row_at t) extra dV), map_map. reflexivity.
  Qed.

  (* sequential loader, no extra key: the batches, concatenated, are the original instances in order;
     batch k has the size of the k-th chunk (b, ..., b, and a final partial one) *)
  Theorem loader_roundtrip c t b : td_wfb t = true -> 1 <= b ->
    exists ts, load c t None b None = Some ts /\
      concat (map rows ts) = rows t /\
      map bsz ts = map (@length nat) (chunks b (seq 0 (bsz t))).
  Proof.
    intros Hwf Hb. destruct (load_spec c t None b None Hwf Hb I I) as (ts & E & R & B).
    exists ts. split; [exact E|]. split; [|exact B].
    apply (concat_rows_of_chunks (emitted t None) b _ ts Hb R).
  Qed.

  (* sequential loader with an extra key of the right length: the zipped dataset, in order *)
  Theorem loader_roundtrip_extra c t key extra b : td_wfb t = true -> 1 <= b -> length extra = bsz t ->
    exists ts, load c t (Some (key, extra)) b None = Some ts /\
      concat (map rows ts) = attach key (rows t) extra /\
      map bsz ts = map (@length nat) (chunks b (seq 0 (bsz t))).
  Proof.
    intros Hwf Hb Hex. destruct (load_spec c t (Some (key, extra)) b None Hwf Hb I Hex) as (ts & E & R & B).
    exists ts. split; [exact E|]. split; [|exact B].
    rewrite (concat_rows_of_chunks (emitted t (Some (key, extra))) b _ ts Hb R). cbn [order_of emitted].
    apply attach_spec. exact Hex.
  Qed.

  (* without the key being already present, the instance itself is untouched: the value is appended *)
  Lemma with_extra_fresh key extra t p : ~ In key (td_keys t) ->
    with_extra key extra t p = row_at t p ++ [(key, nth p extra dV)].
  Proof. intros H. unfold with_extra. apply aset_fresh. rewrite row_at_keys. exact H. Qed.

  (* len(extra) <> len(data): ExtraKeyDataset asserts, FastGeneration's TensorDict.update raises; nothing is truncated *)
  Theorem extra_len_mismatch_rejected c t key extra b shuffle :
    length extra <> bsz t -> load c t (Some (key, extra)) b shuffle = None.
  Proof.
    intros H. destruct c; cbn [load].
    - cbn [ds_len D_tdd]. rewrite tdd_init_length. unfold ek_init.
      replace (bsz t =? length extra) with false by (symmetry; apply Nat.eqb_neq; lia). reflexivity.
    - cbn [ds_len D_ftd]. unfold ek_init.
      replace (bsz t =? length extra) with false by (symmetry; apply Nat.eqb_neq; lia). reflexivity.
    - unfold fg_add_key.
      replace (length extra =? bsz t) with false by (symmetry; apply Nat.eqb_neq; lia). reflexivity.
  Qed.

  (* shuffled loader: what comes out is the instances at the sampler's positions -- a permutation of the dataset *)
  Theorem shuffle_is_permutation c t b perm :
    td_wfb t = true -> 1 <= b -> 1 <= bsz t -> Permutation perm (seq 0 (bsz t)) ->
    exists ts, load c t None b (Some perm) = Some ts /\
      concat (map rows ts) = map (row_at t) perm /\
      Permutation (concat (map rows ts)) (rows t) /\
      map bsz ts = map (@length nat) (chunks b perm).
  Proof.
    intros Hwf Hb Hn Hp.
    destruct (load_spec c t None b (Some perm) Hwf Hb (conj Hp Hn) I) as (ts & E & R & B).
    exists ts. split; [exact E|].
    pose proof (concat_rows_of_chunks (emitted t None) b _ ts Hb R) as C. cbn [order_of emitted] in C.
    split; [exact C|]. split; [|exact B]. rewrite C. unfold rows. apply Permutation_map. exact Hp.
  Qed.

  (* the extra value travels with its instance: batch by batch every emitted item is instance p with extra[p]
     for the SAME sampler position p, and overall exactly the zipped dataset comes out, each pair once *)
  Theorem extra_travels c t key extra b perm :
    td_wfb t = true -> 1 <= b -> 1 <= bsz t -> length extra = bsz t -> Permutation perm (seq 0 (bsz t)) ->
    exists ts, load c t (Some (key, extra)) b (Some perm) = Some ts /\
      map rows ts = map (map (fun p => aset key (nth p extra dV) (row_at t p))) (chunks b perm) /\
      Permutation (concat (map rows ts)) (attach key (rows t) extra) /\
      map bsz ts = map (@length nat) (chunks b perm).
  Proof.
    intros Hwf Hb Hn Hex Hp.
    destruct (load_spec c t (Some (key, extra)) b (Some perm) Hwf Hb (conj Hp Hn) Hex) as (ts & E & R & B).
    exists ts. split; [exact E|]. split; [exact R|]. split; [|exact B].
    rewrite (concat_rows_of_chunks (emitted t (Some (key, extra))) b _ ts Hb R). cbn [order_of emitted].
    rewrite <- (attach_spec key extra t Hex). apply Permutation_map. exact Hp.
  Qed.

  (* reading through an ExtraKeyDataset over a TensorDictDataset is independent of what was read through the
     same wrapper before (epochs, partial passes): the in-place writes only ever store the value they would
     store again *)
  Theorem ek_tdd_reads_history_independent t e h b shuffle :
    td_wfb t = true -> ek_len e = bsz t -> length (ek_extra e) = bsz t -> ekl_inv t e h ->
    1 <= b -> shuffle_ok (bsz t) shuffle ->
    exists ts h', dataloader (D_ekl e) h b shuffle = Some (ts, h') /\
      map rows ts = map (map (with_extra (ek_key e) (ek_extra e) t)) (chunks b (order_of (bsz t) shuffle)) /\
      ekl_inv t e h'.
  Proof.
    intros Hwf Hlen Hex Hh Hb Hsh.
    destruct (dataloader_spec (D_ekl e) (ekl_inv t e) (with_extra (ek_key e) (ek_extra e) t) (bsz t))
      with (s := h) (b := b) (shuffle := shuffle) as (ts & s' & E & R & B & Inv'); try assumption.
    - intros s _. exact Hlen.
    - intros s ix Hs Hne Hix. apply (ekl_fetch_spec t e Hwf Hex s ix Hs Hne Hix).
    - exists ts, s'. auto.
  Qed.

  (** ** RolloutBaseline *)
  Section Rollout.
    (* eval_policy(batch) = policy(env.reset(batch), env, decode_type="greedy")["reward"]: a [B] tensor.
       The neural part is out of reach; what is assumed is that it acts row by row (shared with C14). *)
    Variable polB : td -> list V.
    Variable pol : item -> V.
    Hypothesis polB_rowwise : forall t, polB t = map pol (rows t).

    (* rollout: dl = DataLoader(dataset, batch_size=bb, collate_fn=dataset.collate_fn);
                rewards = torch.cat([eval_policy(batch) for batch in dl], 0)
       torch.cat of an empty list raises *)
    Definition rollout (c : dcls) (t : td) (bb : nat) : option (list V) :=
      match load c t None bb None with
      | None => None
      | Some [] => None
      | Some (t0 :: ts) => Some (concat (map polB (t0 :: ts)))
      end.
    (* wrap_dataset: dataset.add_key("extra", rollout(...)), then the training loader *)
    Definition wrap_load (c : dcls) (t : td) (kx : K) (bb b : nat) (shuffle : option (list nat)) : option (list td) :=
      match rollout c t bb with
      | None => None
      | Some rewards => load c t (Some (kx, rewards)) b shuffle
      end.

    Theorem rollout_aligned c t bb : td_wfb t = true -> 1 <= bb -> 1 <= bsz t ->
      rollout c t bb = Some (map pol (rows t)).
    Proof.
      intros Hwf Hb Hn. unfold rollout.
      destruct (load_spec c t None bb None Hwf Hb I I) as (ts & E & R & B). rewrite E.
      pose proof (concat_rows_of_chunks (emitted t None) bb _ ts Hb R) as C. cbn [order_of emitted] in C.
      assert (Hv : concat (map polB ts) = map pol (rows t)).
      { rewrite (map_ext polB (fun x => map pol (rows x)) polB_rowwise).
        rewrite <- (map_map rows (map pol)), <- concat_map, C. reflexivity. }
      destruct ts as [|t0 ts]; [|rewrite Hv; reflexivity].
      exfalso. cbn in C. unfold rows in C. destruct (bsz t); [lia|discriminate].
    Qed.

    Corollary rollout_value_at c t bb i : td_wfb t = true -> 1 <= bb -> i < bsz t ->
      exists r, rollout c t bb = Some r /\ length r = bsz t /\ nth i r dV = pol (row_at t i).
    Proof.
      intros Hwf Hb Hi. exists (map pol (rows t)). split; [apply rollout_aligned; try assumption; lia|].
      split; [rewrite map_length; apply rows_length|].
      rewrite (nth_map_in pol (rows t) i dV []) by (rewrite rows_length; exact Hi).
      unfold rows. rewrite nth_map_seq by exact Hi. reflexivity.
    Qed.

    Theorem rollout_empty_raises c t bb : bsz t = 0 -> rollout c t bb = None.
    Proof.
      intros H0. unfold rollout. destruct c; cbn [load]; unfold dataloader; destruct (bb =? 0); try reflexivity;
        cbn [ds_len D_tdd D_ftd D_fg]; rewrite ?tdd_init_length, H0; reflexivity.
    Qed.

    Lemma map_map_ext_in {X Y} (f g : X -> Y) (cs : list (list X)) :
      Forall (Forall (fun x => f x = g x)) cs -> map (map f) cs = map (map g) cs.
    Proof.
      induction 1 as [|c cs Hc _ IH]; [reflexivity|]. cbn [map]. rewrite IH. f_equal.
      apply map_ext_in. rewrite Forall_forall in Hc. exact Hc.
    Qed.

    (* the baseline value attached to the item at sampler position p is pol(instance p), for every evaluation
       batch size bb, every training batch size b, shuffled or not *)
    Theorem wrap_dataset_travels c t kx bb b shuffle :
      td_wfb t = true -> 1 <= bb -> 1 <= b -> 1 <= bsz t -> shuffle_ok (bsz t) shuffle ->
      exists ts, wrap_load c t kx bb b shuffle = Some ts /\
        map rows ts = map (map (fun p => aset kx (pol (row_at t p)) (row_at t p))) (chunks b (order_of (bsz t) shuffle)) /\
        map bsz ts = map (@length nat) (chunks b (order_of (bsz t) shuffle)).
    Proof.
      intros Hwf Hbb Hb Hn Hsh. unfold wrap_load. rewrite (rollout_aligned c t bb Hwf Hbb Hn).
      assert (Hex : length (map pol (rows t)) = bsz t) by (rewrite map_length; apply rows_length).
      destruct (load_spec c t (Some (kx, map pol (rows t))) b shuffle Hwf Hb Hsh Hex) as (ts & E & R & B).
      exists ts. split; [exact E|]. split; [|exact B]. rewrite R. cbn [emitted].
      apply map_map_ext_in. apply chunks_Forall; [exact Hb|].
      pose proof (order_in_range (bsz t) shuffle Hsh) as Hr.
      apply Forall_forall. intros p Hp. rewrite Forall_forall in Hr. specialize (Hr p Hp).
      unfold emitted, with_extra. f_equal.
      rewrite (nth_map_in pol (rows t) p dV []) by (rewrite rows_length; exact Hr).
      unfold rows. rewrite nth_map_seq by exact Hr. reflexivity.
    Qed.
  End Rollout.
End TensorDict.

Arguments alookup {K} K_eqb {X} k l.
Arguments aset {K} K_eqb {X} k x l.
Arguments mkDS {K V S} _ _.
Arguments ds_len {K V S} _ _.
Arguments ds_fetch {K V S} _ _ _.

(* ------------------------------------------------------------------------------------------------ *)
(** * Concrete instances: non-vacuity of the hypotheses, and two observations outside the property *)
(* keys and values are naturals; 5 instances with two keys *)
Definition ex_td : @td nat nat := mkTD 5 [(0, [10; 11; 12; 13; 14]); (1, [20; 21; 22; 23; 24])].
Definition ex_extra : list nat := [70; 71; 72; 73; 74].
Definition ex_perm : list nat := [3; 0; 4; 1; 2].
Definition ex_pol (it : @item nat nat) : nat := fold_right (fun kv acc => snd kv + acc) 0 it.
Definition ex_polB (t : @td nat nat) : list nat := map ex_pol (rows 0 t).

Example ex_td_wf : td_wfb Nat.eqb ex_td = true /\ is_permb ex_perm (bsz ex_td) = true /\ length ex_extra = bsz ex_td.
Proof. repeat split. Qed.

(* loader_roundtrip: b = 2 does not divide 5, last batch partial; all three classes *)
Example ex_loader_roundtrip :
  forall c, load Nat.eqb 0 c ex_td None 2 None =
            Some [mkTD 2 [(0, [10; 11]); (1, [20; 21])]; mkTD 2 [(0, [12; 13]); (1, [22; 23])]; mkTD 1 [(0, [14]); (1, [24])]].
Proof. intros []; reflexivity. Qed.

(* extra_travels / shuffle_is_permutation: shuffled, b = 3, extra under the new key 9 *)
Example ex_extra_travels :
  forall c, load Nat.eqb 0 c ex_td (Some (9, ex_extra)) 3 (Some ex_perm) =
            Some [mkTD 3 [(0, [13; 10; 14]); (1, [23; 20; 24]); (9, [73; 70; 74])];
                  mkTD 2 [(0, [11; 12]); (1, [21; 22]); (9, [71; 72])]].
Proof. intros []; reflexivity. Qed.

(* extra_len_mismatch_rejected *)
Example ex_len_mismatch :
  forall c, load Nat.eqb 0 c ex_td (Some (9, [70; 71; 72; 73])) 2 None = None /\
            load Nat.eqb 0 c ex_td (Some (9, [70; 71; 72; 73; 74; 75])) 2 None = None.
Proof. intros []; split; reflexivity. Qed.

(* rollout_aligned / wrap_dataset_travels: the row-wise hypothesis holds of ex_polB by definition;
   evaluation batch size 2 (partial last batch), training batch size 4, shuffled *)
Example ex_polB_rowwise : forall t, ex_polB t = map ex_pol (rows 0 t).
Proof. reflexivity. Qed.
Example ex_rollout :
  forall c, rollout Nat.eqb 0 ex_polB c ex_td 2 = Some [30; 32; 34; 36; 38] /\
            wrap_load Nat.eqb 0 ex_polB c ex_td 9 2 4 (Some ex_perm) =
              Some [mkTD 4 [(0, [13; 10; 14; 11]); (1, [23; 20; 24; 21]); (9, [36; 30; 38; 32])];
                    mkTD 1 [(0, [12]); (1, [22]); (9, [34])]].
Proof. intros []; split; reflexivity. Qed.

(* ek_tdd_reads_history_independent: a state reached by an earlier partial pass satisfies the invariant *)
Example ex_history :
  exists e ts h1 h2,
    ek_init 5 ex_extra 9 = Some e /\
    dataloader (D_ekl Nat.eqb 0 e) (tdd_init 0 ex_td) 2 (Some [4; 1]) = Some (ts, h1) /\ h1 <> tdd_init 0 ex_td /\
    option_map fst (dataloader (D_ekl Nat.eqb 0 e) h1 3 (Some ex_perm)) = load Nat.eqb 0 TDD ex_td (Some (9, ex_extra)) 3 (Some ex_perm) /\
    dataloader (D_ekl Nat.eqb 0 e) h1 5 None = Some ([mkTD 5 [(0, [10; 11; 12; 13; 14]); (1, [20; 21; 22; 23; 24]); (9, ex_extra)]], h2).
Proof. do 4 eexists. repeat split; try reflexivity. discriminate. Qed.

(** ** Observations outside the property's quantifier (single wrap, one extra key, read through a loader).
    They are facts about the code as it is; the check reproduces them on the implementation for information
    only and never reports them. *)

(* (1) ExtraKeyDataset.__getitem__ writes the extra value into the dicts it shares with the wrapped
   TensorDictDataset.  After one read through the wrapper, a loader over the *base* dataset meets a first
   item that has the key and a second one that has not: collate_fn raises KeyError.  After a full pass the
   base dataset emits the (by then stale) extra column. *)
Lemma ek_getitem_mutates_wrapped_dataset_observation_outside_property :
  exists e it h1 ts h2,
    ek_init (bsz ex_td) ex_extra 9 = Some e /\
    ekl_getitem Nat.eqb e (tdd_init 0 ex_td) 0 = Some (it, h1) /\
    h1 <> tdd_init 0 ex_td /\
    dataloader (D_tdd Nat.eqb 0) h1 2 None = None /\
    dataloader (D_ekl Nat.eqb 0 e) (tdd_init 0 ex_td) 2 None = Some (ts, h2) /\
    option_map fst (dataloader (D_tdd Nat.eqb 0) h2 5 None)
      = Some [mkTD 5 [(0, [10; 11; 12; 13; 14]); (1, [20; 21; 22; 23; 24]); (9, ex_extra)]].
Proof. do 5 eexists. repeat split; try reflexivity. discriminate. Qed.

(* (2) add_key on an ExtraKeyDataset (inherited method) builds the second wrapper from the innermost
   storage: the first extra key is silently dropped.  (FastGeneration.add_key updates in place and keeps both.) *)
Lemma nested_add_key_drops_earlier_key_observation_outside_property :
  exists e1 e2 ts h,
    ek_init (bsz ex_td) ex_extra 8 = Some e1 /\ ek_add_key e1 9 [90; 91; 92; 93; 94] = Some e2 /\
    dataloader (D_ekl Nat.eqb 0 e2) (tdd_init 0 ex_td) 5 None = Some (ts, h) /\
    ts = [mkTD 5 [(0, [10; 11; 12; 13; 14]); (1, [20; 21; 22; 23; 24]); (9, [90; 91; 92; 93; 94])]] /\
    (exists t1 t2, fg_add_key Nat.eqb ex_td 8 ex_extra = Some t1 /\ fg_add_key Nat.eqb t1 9 [90; 91; 92; 93; 94] = Some t2 /\
       td_keys t2 = [0; 1; 8; 9]).
Proof. do 4 eexists. repeat split; try reflexivity. do 2 eexists. repeat split. Qed.
