(* C19 -- persistence round-trips: token-level model of the FJSP / JSSP text codec of rl4co.

   Source modelled (as it is, statement by statement):
     rl4co/envs/scheduling/fjsp/parser.py : write_one / write, file2lines, parse_job_line, read
     rl4co/envs/scheduling/jssp/parser.py : file2lines, parse_job_line, read   (rl4co ships no JSSP writer:
                                            [jssp_format] below is the documented file format, i.e. a specification)
     rl4co/envs/scheduling/fjsp/env.py    : only the part of reset that write_one consumes ([reset_adj] =
                                            "job_ops_adj" of _decode_graph_structure / get_job_ops_mapping)

   Level of the model: a file is a list of non-blank lines, a line is a list of whitespace-separated words, a word
   is a [tok].  [TInt z] is the decimal numeral of z (written by str(int), read back by int(word));
   [TFloat ip fr] is a float-looking word "ip.fr" (it contains '.', so parse_num takes int(float(word)) = ip for
   ip >= 0); [TBad] is a word on which parse_num raises ValueError (e.g. '5e-05': no '.', not an int).
   Below this level (str(int)/int(), " ".join / str.split, blank-line filter) nothing is modelled.

   Three-valued results: [Ok v] the code returns v; [Raises] the code raises (AssertionError, IndexError,
   ValueError, ZeroDivisionError, RuntimeError); [OutOfModel] input outside the modelled domain (negative
   machine-count word in a job line: Python's negative slice bounds are not modelled).

   Numbers are integers (Z): processing times are integral by the file format; write_one applies int(duration) and
   a non-integral duration would be truncated -- integrality is evaluated on every generated instance by the
   harness and is part of well-formedness there. *)
From Coq Require Import ZArith List Bool Lia ZifyBool Arith.
Import ListNotations.
Open Scope Z_scope.

(* ------------------------------------------------------------------------------------------ results *)
Inductive res (A : Type) : Type := Ok (a : A) | Raises | OutOfModel.
Arguments Ok {A} a. Arguments Raises {A}. Arguments OutOfModel {A}.

Definition bind {A B} (r : res A) (f : A -> res B) : res B :=
  match r with Ok a => f a | Raises => Raises | OutOfModel => OutOfModel end.

Fixpoint mapM {A B} (f : A -> res B) (l : list A) : res (list B) :=
  match l with
  | [] => Ok []
  | x :: r => bind (f x) (fun y => bind (mapM f r) (fun ys => Ok (y :: ys)))
  end.

(* ------------------------------------------------------------------------------------------ lists *)
Fixpoint pset {A} (n : nat) (x : A) (l : list A) : list A :=      (* l[n] = x ; no-op when out of range *)
  match l, n with
  | [], _ => []
  | _ :: t, O => x :: t
  | h :: t, S k => h :: pset k x t
  end.

Fixpoint sumZ (l : list Z) : Z := match l with [] => 0 | x :: r => x + sumZ r end.
Fixpoint sumN (l : list nat) : nat := match l with [] => 0%nat | x :: r => (x + sumN r)%nat end.
Definition maxZ (l : list Z) : Z := fold_right Z.max 0 l.

(* indices (from k upwards) of the elements satisfying p: torch's x.nonzero().squeeze(1), increasing *)
Fixpoint idx_from {A} (p : A -> bool) (k : nat) (l : list A) : list nat :=
  match l with
  | [] => []
  | x :: r => if p x then k :: idx_from p (S k) r else idx_from p (S k) r
  end.

(* l[0::2] *)
Fixpoint evens {A} (l : list A) : list A :=
  match l with
  | [] => []
  | [x] => [x]
  | x :: _ :: r => x :: evens r
  end.

Fixpoint zlist_eqb (a b : list Z) : bool :=
  match a, b with
  | [], [] => true
  | x :: a', y :: b' => (x =? y) && zlist_eqb a' b'
  | _, _ => false
  end.
Fixpoint blist_eqb (a b : list bool) : bool :=
  match a, b with
  | [], [] => true
  | x :: a', y :: b' => Bool.eqb x y && blist_eqb a' b'
  | _, _ => false
  end.

(* ------------------------------------------------------------------------------------------ words *)
Inductive tok := TInt (z : Z) | TFloat (ip fr : Z) | TBad.

(* parse_num: int(word) if "." not in word else int(float(word)) *)
Definition parse_num (t : tok) : res Z :=
  match t with TInt z => Ok z | TFloat ip _ => Ok ip | TBad => Raises end.

(* file2lines (blank lines already dropped, lines already split) *)
Definition file2lines (f : list (list tok)) : res (list (list Z)) := mapM (mapM parse_num) f.

(* round(a / b, 5) then str(): modelled as round-half-even of the exact quotient to 5 decimals, printed "ip.fr";
   a value k * 1e-5 with 1 <= k <= 9 prints in exponent notation ('5e-05'): no '.', int() raises.
   (Python rounds the float a/b, not the rational: the two differ only on exact decimal ties whose quotient is
   not a dyadic rational; the harness counts those and compares this one word up to that.) *)
Definition round_half_even (num den : Z) : Z :=
  let q := num / den in
  let r := num mod den in
  if 2 * r <? den then q else if den <? 2 * r then q + 1 else if Z.even q then q else q + 1.

Definition fmt5 (a b : Z) : tok :=
  let n := round_half_even (a * 100000) b in
  if (0 <? n) && (n <? 10) then TBad else TFloat (n / 100000) (n mod 100000).

(* ------------------------------------------------------------------------------------------ instances *)
(* one row of what FJSPGenerator / JSSPGenerator / the file generators emit *)
Record ginst := {
  g_start : list Z;            (* start_op_per_job [num_jobs] *)
  g_end : list Z;              (* end_op_per_job   [num_jobs] *)
  g_pt : list (list Z);        (* proc_times [num_machines][n_ops_max] ; 0 = machine not eligible *)
  g_pad : list bool            (* pad_mask [n_ops_max] *)
}.
Definition g_W (g : ginst) : nat := length (g_pad g).

(* what write_one reads from one row of env.reset(td) *)
Record winst := {
  w_nj : nat;                  (* instance["next_op"].size(0) *)
  w_adj : list (list bool);    (* instance["job_ops_adj"] [num_jobs][n_ops_max] *)
  w_pt : list (list Z);        (* instance["proc_times"] *)
  w_pad : list bool            (* instance["pad_mask"] *)
}.

(* get_job_ops_mapping + the pad masking of _decode_graph_structure: the last job's end is overwritten by
   n_ops_max - 1, op o belongs to job j iff start_j <= o <= end_j, padded columns are cleared.
   (The real code additionally needs every column to fall into exactly one job, else split/stack raises;
   that is implied by the well-formedness below.) *)
Definition reset_adj (g : ginst) : list (list bool) :=
  let W := g_W g in
  let nj := length (g_end g) in
  map (fun j =>
         let s := nth j (g_start g) 0 in
         let e := if Nat.eqb (S j) nj then Z.of_nat W - 1 else nth j (g_end g) 0 in
         map (fun o => (s <=? Z.of_nat o) && (Z.of_nat o <=? e) && negb (nth o (g_pad g) true)) (seq 0 W))
      (seq 0 nj).

Definition reset_view (g : ginst) : winst :=
  {| w_nj := length (g_start g); w_adj := reset_adj g; w_pt := g_pt g; w_pad := g_pad g |}.

(* ------------------------------------------------------------------------------------------ FJSP writer *)
Definition mget (m : list (list Z)) (i j : nat) : Z := nth j (nth i m []) 0.
Definition col (pt : list (list Z)) (o : nat) : list Z := map (fun row => nth o row 0) pt.   (* proc_times[:, op] *)
Definition elig (pt : list (list Z)) (o : nat) : list nat := idx_from (fun d => negb (d =? 0)) 0%nat (col pt o).

(* one operation: <num eligible> then <machine+1> <duration> per eligible machine; assert duration > 0 *)
Definition write_op (pt : list (list Z)) (o : nat) : res (list Z) :=
  let ms := elig pt o in
  bind (mapM (fun m => let d := nth m (col pt o) 0 in
                       if 0 <? d then Ok [Z.of_nat m + 1; d] else Raises) ms)
       (fun prs => Ok (Z.of_nat (length ms) :: concat prs)).

Definition write_job (w : winst) (j : nat) : res (list Z) :=
  let ops := idx_from (fun b : bool => b) 0%nat (nth j (w_adj w) []) in
  bind (mapM (write_op (w_pt w)) ops) (fun ts => Ok (Z.of_nat (length ops) :: concat ts)).

Definition count_pos (pt : list (list Z)) : Z :=            (* (proc_times > 0).sum() *)
  sumZ (map (fun row => Z.of_nat (length (filter (fun d => 0 <? d) row))) pt).
Definition count_real (pad : list bool) : Z := Z.of_nat (length (filter negb pad)).   (* (~pad_mask).sum() *)

(* write_one; [fmt a b] is the word produced by f"{round(a / b, 5)}" *)
Definition fjsp_write (fmt : Z -> Z -> tok) (w : winst) : res (list (list tok)) :=
  let n_ops := count_real (w_pad w) in
  if n_ops =? 0 then Raises                                   (* ZeroDivisionError *)
  else
    let hdr := [TInt (Z.of_nat (w_nj w)); TInt (Z.of_nat (length (w_pt w))); fmt (count_pos (w_pt w)) n_ops] in
    bind (mapM (write_job w) (seq 0 (w_nj w))) (fun ls => Ok (hdr :: map (map TInt) ls)).

(* ------------------------------------------------------------------------------------------ readers *)
(* what read() returns: the TensorDict row and (num_jobs, num_machines, max_ops_per_job) *)
Record rinst := {
  r_start : list Z; r_end : list Z; r_pt : list (list Z); r_pad : list bool;
  r_nj : Z; r_nm : Z; r_mopj : Z
}.

(* FJSP parse_job_line, with idx replaced by the remaining suffix line[idx:] (same thing).
   machines = line[idx+1 : idx+1+np : 2], durations = line[idx+2 : idx+2+np : 2] (slices truncate silently),
   zip; idx += 1 + np; line[idx] on an exhausted line raises IndexError. *)
Fixpoint parse_ops (n : nat) (rest : list Z) : res (list (list (Z * Z))) :=
  match n with
  | O => Ok []
  | S n' =>
      match rest with
      | [] => Raises
      | c :: rest' =>
          if c <? 0 then OutOfModel
          else
            let np := Z.to_nat (2 * c) in
            let op := combine (evens (firstn np rest')) (evens (firstn np (tl rest'))) in
            bind (parse_ops n' (skipn np rest')) (fun ops => Ok (op :: ops))
      end
  end.

Definition fjsp_parse_job_line (line : list Z) : res (list (list (Z * Z))) :=
  match line with
  | [] => Raises
  | n :: rest => parse_ops (Z.to_nat n) rest            (* range(n) is empty for n <= 0 *)
  end.

(* JSSP parse_job_line: pairs until the line is exhausted; an odd number of words raises IndexError.
   Every pair is one operation with a single machine. *)
Fixpoint parse_pairs (l : list Z) : res (list (Z * Z)) :=
  match l with
  | [] => Ok []
  | [_] => Raises
  | m :: d :: r => bind (parse_pairs r) (fun ps => Ok ((m, d) :: ps))
  end.
Definition jssp_parse_job_line (line : list Z) : res (list (list (Z * Z))) :=
  bind (parse_pairs line) (fun ps => Ok (map (fun p => [p]) ps)).

(* proc_times[ma - 1, op_cnt] = dur : torch accepts a negative row index down to -num_machines (it wraps) *)
Definition wrap_idx (i : Z) (n : nat) : option nat :=
  if (0 <=? i) && (i <? Z.of_nat n) then Some (Z.to_nat i)
  else if (- Z.of_nat n <=? i) && (i <? 0) then Some (Z.to_nat (Z.of_nat n + i))
  else None.

Definition mset (M : list (list Z)) (r c : nat) (v : Z) : list (list Z) := pset r (pset c v (nth r M [])) M.

Fixpoint fill_op (M : list (list Z)) (cnt : nat) (prs : list (Z * Z)) : res (list (list Z)) :=
  match prs with
  | [] => Ok M
  | (ma, dur) :: r =>
      match wrap_idx (ma - 1) (length M) with
      | None => Raises                                         (* IndexError *)
      | Some m => if Nat.ltb cnt (length (nth m M [])) then fill_op (mset M m cnt dur) cnt r else Raises
      end
  end.

(* for job in jobs: for op in job: (for ma, dur in op: ...); op_cnt += 1   -- i.e. a loop over the concatenation *)
Fixpoint fill_ops (M : list (list Z)) (cnt : nat) (ops : list (list (Z * Z))) : res (list (list Z)) :=
  match ops with
  | [] => Ok M
  | op :: r => bind (fill_op M cnt op) (fun M' => fill_ops M' (S cnt) r)
  end.

Fixpoint cumsum (acc : Z) (l : list Z) : list Z :=
  match l with [] => [] | x :: r => (acc + x) :: cumsum (acc + x) r end.

(* the common tail of fjsp read() and jssp read() after the job lines are parsed *)
Definition build (mo : option Z) (nj nm : Z) (jobs : list (list (list (Z * Z)))) : res rinst :=
  let nops := map (fun j => Z.of_nat (length j)) jobs in
  let total := sumZ nops in
  let width := match mo with
               | Some m => if total <=? m then Ok (if m =? 0 then total else m) else Raises   (* assert; max_ops or total_ops *)
               | None => Ok total
               end in
  bind width (fun W =>
    match jobs with
    | [] => Raises                                             (* max() of an empty tensor *)
    | _ :: _ =>
        if nm <? 0 then Raises                                 (* torch.zeros with a negative dimension *)
        else
          let ends := map (fun x => x - 1) (cumsum 0 nops) in
          let starts := 0 :: map (fun x => x + 1) (removelast ends) in
          let Wn := Z.to_nat W in
          bind (fill_ops (repeat (repeat 0 Wn) (Z.to_nat nm)) 0%nat (concat jobs)) (fun M =>
            Ok {| r_start := starts; r_end := ends; r_pt := M;
                  r_pad := map (fun o => total <=? Z.of_nat o) (seq 0 Wn);
                  r_nj := nj; r_nm := nm; r_mopj := maxZ nops |})
    end).

Definition read_with (pj : list Z -> res (list (list (Z * Z)))) (mo : option Z) (f : list (list tok)) : res rinst :=
  bind (file2lines f) (fun lines =>
    match lines with
    | [] => Raises                                             (* lines[0] *)
    | hdr :: jl =>
        match hdr with
        | nj :: nm :: _ => bind (mapM pj jl) (build mo nj nm)
        | _ => Raises                                          (* lines[0][1] *)
        end
    end).

Definition fjsp_read := read_with fjsp_parse_job_line.
Definition jssp_read := read_with jssp_parse_job_line.

(* ------------------------------------------------------------------------------------------ JSSP format (spec) *)
(* header "<num_jobs> <num_machines>", then one line per job: <machine+1> <duration> for each operation in order *)
Definition jssp_job_line (g : ginst) (j : nat) : list Z :=
  let s := Z.to_nat (nth j (g_start g) 0) in
  let n := Z.to_nat (nth j (g_end g) 0 - nth j (g_start g) 0 + 1) in
  concat (map (fun o => concat (map (fun m => [Z.of_nat m + 1; mget (g_pt g) m o]) (elig (g_pt g) o))) (seq s n)).

Definition jssp_format (g : ginst) : list (list tok) :=
  [TInt (Z.of_nat (length (g_start g))); TInt (Z.of_nat (length (g_pt g)))]
    :: map (fun j => map TInt (jssp_job_line g j)) (seq 0 (length (g_start g))).

(* ------------------------------------------------------------------------------------------ well-formedness *)
Fixpoint cstarts (s : nat) (nops : list nat) : list nat :=
  match nops with [] => [] | n :: r => s :: cstarts (s + n) r end.
Fixpoint cends (s : nat) (nops : list nat) : list nat :=          (* exclusive ends = cumulative sums *)
  match nops with [] => [] | n :: r => (s + n)%nat :: cends (s + n) r end.

Definition g_nops (g : ginst) : list Z := map (fun se => snd se - fst se + 1) (combine (g_start g) (g_end g)).
Definition g_total (g : ginst) : Z := sumZ (g_nops g).

(* What the codec needs of an instance (boolean, evaluated by the harness on every generated instance):
   at least one job, as many ends as starts, jobs are consecutive blocks of >= 0 operations starting at 0,
   at least one real operation, the width holds them, pad_mask marks exactly the columns >= total,
   proc_times is rectangular of that width and non-negative on the real columns. *)
Definition wf_fjspb (g : ginst) : bool :=
  let nops := g_nops g in
  let nopsN := map Z.to_nat nops in
  let total := sumZ nops in
  let W := g_W g in
  negb (Nat.eqb (length (g_start g)) 0) && Nat.eqb (length (g_start g)) (length (g_end g))
  && forallb (fun n => 0 <=? n) nops
  && zlist_eqb (g_start g) (map Z.of_nat (cstarts 0 nopsN))
  && zlist_eqb (g_end g) (map (fun x => Z.of_nat x - 1) (cends 0 nopsN))
  && (1 <=? total) && (total <=? Z.of_nat W)
  && blist_eqb (g_pad g) (map (fun o => total <=? Z.of_nat o) (seq 0 W))
  && forallb (fun row => Nat.eqb (length row) W) (g_pt g)
  && forallb (fun row => forallb (fun d => 0 <=? d) (firstn (Z.to_nat total) row)) (g_pt g).

(* every real operation has at least one eligible machine (what the environment needs; for the codec it only
   guarantees that the flexibility word is >= 1 and hence float-looking) *)
Definition every_op_eligibleb (g : ginst) : bool :=
  forallb (fun o => negb (Nat.eqb (length (elig (g_pt g) o)) 0)) (seq 0 (Z.to_nat (g_total g))).

(* JSSP: exactly one eligible machine per real operation *)
Definition wf_jsspb (g : ginst) : bool :=
  wf_fjspb g && forallb (fun o => Nat.eqb (length (elig (g_pt g) o)) 1) (seq 0 (Z.to_nat (g_total g))).

(* padded columns carry no data (true of every bundled generator) *)
Definition pad_cleanb (g : ginst) : bool :=
  forallb (fun row => forallb (fun d => d =? 0) (skipn (Z.to_nat (g_total g)) row)) (g_pt g).

(* ------------------------------------------------------------------------------------------ the expected result *)
(* the instance with its padding replaced by a padding of width W (W >= total): real columns kept, the rest zero *)
Definition repad (W : nat) (g : ginst) : rinst :=
  let total := Z.to_nat (g_total g) in
  {| r_start := g_start g;
     r_end := g_end g;
     r_pt := map (fun row => firstn total row ++ repeat 0 (W - total)) (g_pt g);
     r_pad := map (fun o => g_total g <=? Z.of_nat o) (seq 0 W);
     r_nj := Z.of_nat (length (g_start g));
     r_nm := Z.of_nat (length (g_pt g));
     r_mopj := maxZ (g_nops g) |}.

Definition strip_padding (g : ginst) : rinst := repad (Z.to_nat (g_total g)) g.

(* the instance itself, seen as a read() result *)
Definition as_rinst (g : ginst) : rinst :=
  {| r_start := g_start g; r_end := g_end g; r_pt := g_pt g; r_pad := g_pad g;
     r_nj := Z.of_nat (length (g_start g)); r_nm := Z.of_nat (length (g_pt g)); r_mopj := maxZ (g_nops g) |}.

(* width of the result of read(max_ops = mo) on a file with [total] operations *)
Definition read_width (mo : option Z) (total : Z) : Z := match mo with None => total | Some m => m end.
Definition max_ops_ok (mo : option Z) (total : Z) : Prop := match mo with None => True | Some m => total <= m end.

(* ------------------------------------------------------------------------------------------ directories of files *)
(* get_n_ops_of_instance(file): the job lines are lines[1:] (the header is NOT a job); total number of operations *)
Definition n_ops_of (pj : list Z -> res (list (list (Z * Z)))) (f : list (list tok)) : res Z :=
  bind (file2lines f) (fun lines =>
  bind (mapM pj (tl lines)) (fun jobs => Ok (sumZ (map (fun j => Z.of_nat (length j)) jobs)))).

Definition lmax (n : Z) (r : list Z) : Z := fold_right Z.max n r.

(* get_max_ops_from_files(files) = max(map(get_n_ops_of_instance, files)); max() of nothing raises *)
Definition max_ops_from_files (pj : list Z -> res (list (list (Z * Z)))) (files : list (list (list tok))) : res Z :=
  bind (mapM (n_ops_of pj) files) (fun ns => match ns with [] => Raises | n :: r => Ok (lmax n r) end).

(* FJSPFileGenerator / JSSPFileGenerator.__init__: with more than one file every instance is padded to the largest
   operation count found in the directory, otherwise the caller's n_ops_max is used; files in the order given
   (os.listdir order -- unspecified, an input here) *)
Definition file_generator (pj : list Z -> res (list (list (Z * Z)))) (n_ops_max : option Z)
           (files : list (list (list tok))) : res (list rinst) :=
  match files with
  | [] => Raises                                               (* assert len(files) > 0 *)
  | _ :: _ =>
      bind (if Nat.ltb 1 (length files)
            then bind (max_ops_from_files pj files) (fun m => Ok (Some m)) else Ok n_ops_max)
           (fun mo => mapM (read_with pj mo) files)
  end.
