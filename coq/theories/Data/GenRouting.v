(* Routing generators (rl4co/envs/routing/*/generator.py): the deterministic post-processing of the raw samples,
   one batch row / one customer at a time, and what it guarantees.

   Raw samples (outputs of torch.rand, Uniform.sample, randint) are arbitrary numbers in the sampler's documented
   range; they enter as arguments constrained by hypotheses.  Real-valued quantities are exact rationals (Q): a
   float32 is a dyadic rational, the harness converts exactly.  Float32 rounding INSIDE the generator arithmetic is
   not modelled.  `.int()` is truncation toward zero ([Qtrunc]). *)
From Coq Require Import ZArith QArith Qround Qabs List Bool Lia Lqa ZifyBool Arith.
From RL4CO Require Import Base.Num Env.CVRP Env.CVRPProofs.
Import ListNotations.
Open Scope Z_scope.

(* ================================================================== numbers *)
(* tensor.int(): truncation toward zero *)
Definition Qtrunc (x : Q) : Z := if Qle_bool 0 x then Qfloor x else - Qfloor (- x).

Lemma Qtrunc_nonneg x : (0 <= x)%Q -> Qtrunc x = Qfloor x.
Proof. intros H. unfold Qtrunc. apply Qle_bool_iff in H. rewrite H. reflexivity. Qed.

Lemma Qfloor_lb (z : Z) (x : Q) : (inject_Z z <= x)%Q -> z <= Qfloor x.
Proof. intros H. rewrite <- (Qfloor_Z z). apply Qfloor_resp_le. exact H. Qed.
Lemma Qfloor_ub_lt (z : Z) (x : Q) : (x < inject_Z z)%Q -> Qfloor x < z.
Proof.
  intros H. pose proof (Qfloor_le x) as H1.
  assert (H2 : (inject_Z (Qfloor x) < inject_Z z)%Q) by (eapply Qle_lt_trans; eauto).
  rewrite <- Zlt_Qlt in H2. exact H2.
Qed.
Lemma Qfloor_ub_le (z : Z) (x : Q) : (x <= inject_Z z)%Q -> Qfloor x <= z.
Proof. intros H. rewrite <- (Qfloor_Z z). apply Qfloor_resp_le. exact H. Qed.
Lemma Qlt_floor_succ (x : Q) : (x < inject_Z (Qfloor x + 1))%Q.
Proof. apply Qlt_floor. Qed.
Lemma inject_Z_le a b : a <= b -> (inject_Z a <= inject_Z b)%Q.
Proof. intros H. rewrite <- Zle_Qle. exact H. Qed.
Lemma inject_Z_lt a b : a < b -> (inject_Z a < inject_Z b)%Q.
Proof. intros H. rewrite <- Zlt_Qlt. exact H. Qed.
Lemma inject_Z_plus1 a : (inject_Z (a + 1) == inject_Z a + 1)%Q.
Proof. rewrite inject_Z_plus. reflexivity. Qed.

(* ================================================================== size tables (CVRP CAPACITIES, OP/PCTSP MAX_LENGTHS) *)
(* CAPACITIES.get(num_loc), else CAPACITIES[min(CAPACITIES.keys(), key=lambda x: abs(x - num_loc))]:
   python's min returns the FIRST key (dict order) attaining the minimum *)
Fixpoint closest_from (n : Z) (best : Z * Z) (l : list (Z * Z)) : Z * Z :=
  match l with
  | [] => best
  | kv :: r => closest_from n (if Z.abs (fst kv - n) <? Z.abs (fst best - n) then kv else best) r
  end.
Definition table_get (tbl : list (Z * Z)) (n : Z) : option Z :=
  match find (fun kv => fst kv =? n) tbl with Some kv => Some (snd kv) | None => None end.
Definition closest_entry (tbl : list (Z * Z)) (n : Z) : Z * Z :=
  match tbl with [] => (0, 0) | kv :: r => closest_from n kv r end.
Definition table_lookup (tbl : list (Z * Z)) (n : Z) : Z :=
  match table_get tbl n with Some v => v | None => snd (closest_entry tbl n) end.

Lemma closest_from_In n best l : In (closest_from n best l) (best :: l).
Proof.
  revert best. induction l as [|kv r IH]; intros best; cbn [closest_from]; [left; reflexivity|].
  destruct (IH (if Z.abs (fst kv - n) <? Z.abs (fst best - n) then kv else best)) as [H|H].
  - destruct (Z.abs (fst kv - n) <? Z.abs (fst best - n)); rewrite <- H; [right; left|left]; reflexivity.
  - right; right; exact H.
Qed.
Lemma closest_from_le_best n l : forall best, Z.abs (fst (closest_from n best l) - n) <= Z.abs (fst best - n).
Proof.
  induction l as [|x r IH]; intros best; cbn [closest_from]; [lia|].
  specialize (IH (if Z.abs (fst x - n) <? Z.abs (fst best - n) then x else best)).
  destruct (Z.abs (fst x - n) <? Z.abs (fst best - n)) eqn:E; lia.
Qed.
Lemma closest_from_le_in n l : forall best kv, In kv l -> Z.abs (fst (closest_from n best l) - n) <= Z.abs (fst kv - n).
Proof.
  induction l as [|x r IH]; intros best kv Hin; [destruct Hin|]. cbn [closest_from].
  destruct Hin as [Heq|Hin].
  - subst x. pose proof (closest_from_le_best n r (if Z.abs (fst kv - n) <? Z.abs (fst best - n) then kv else best)) as H.
    destruct (Z.abs (fst kv - n) <? Z.abs (fst best - n)) eqn:E; lia.
  - apply IH. exact Hin.
Qed.
Lemma closest_from_min n best l kv :
  In kv (best :: l) -> Z.abs (fst (closest_from n best l) - n) <= Z.abs (fst kv - n).
Proof.
  intros [Heq|Hin]; [subst kv; apply closest_from_le_best|apply closest_from_le_in; exact Hin].
Qed.

Lemma table_lookup_In tbl n : tbl <> [] -> In (table_lookup tbl n) (map snd tbl).
Proof.
  intros Hne. unfold table_lookup, table_get.
  destruct (find (fun kv => fst kv =? n) tbl) as [kv|] eqn:E.
  - apply find_some in E as [Hin _]. apply in_map. exact Hin.
  - destruct tbl as [|kv r]; [congruence|]. cbn [closest_entry]. apply in_map. apply closest_from_In.
Qed.
(* an off-table size gets the entry of a key at minimal distance *)
Lemma table_lookup_closest tbl n : tbl <> [] -> table_get tbl n = None ->
  let kv := closest_entry tbl n in
  In kv tbl /\ table_lookup tbl n = snd kv /\ forall kv', In kv' tbl -> Z.abs (fst kv - n) <= Z.abs (fst kv' - n).
Proof.
  intros Hne Hg. destruct tbl as [|kv0 r]; [congruence|]. cbn [closest_entry]. split; [apply closest_from_In|]. split.
  - unfold table_lookup. rewrite Hg. reflexivity.
  - intros kv' Hin. apply closest_from_min. exact Hin.
Qed.
Lemma table_lookup_exact tbl n v : table_get tbl n = Some v -> table_lookup tbl n = v.
Proof. unfold table_lookup. intros ->. reflexivity. Qed.

Lemma table_lookup_spec : forall (tbl : list (Z * Z)) (n : Z),
  tbl <> [] ->
  (forall v : Z, table_get tbl n = Some v -> table_lookup tbl n = v) /\
  (table_get tbl n = None ->
     let kv := closest_entry tbl n in
     In kv tbl /\ table_lookup tbl n = snd kv /\
     forall kv' : Z * Z, In kv' tbl -> Z.abs (fst kv - n) <= Z.abs (fst kv' - n)).
Proof.
  intros tbl n Hne. split; [intros v; exact (table_lookup_exact tbl n v)|exact (table_lookup_closest tbl n Hne)].
Qed.

(* ================================================================== CVRP *)
Definition CAPACITIES : list (Z * Z) :=
  [(10, 20); (15, 25); (20, 30); (30, 33); (40, 37); (50, 40); (60, 43); (75, 45); (100, 50); (125, 55);
   (150, 60); (200, 70); (500, 100); (1000, 150)].
(* self.capacity: the `capacity` argument if given, else the table *)
Definition cvrp_capacity (override : option Z) (num_loc : Z) : Z :=
  match override with Some c => c | None => table_lookup CAPACITIES num_loc end.

(* demand = (demand_sampler.sample().int() + 1).float()  -- the integer demand; the TensorDict holds demand / capacity *)
Definition demand_int (u : Q) : Z := Qtrunc u + 1.
(* the instance in units of 1/capacity: demand k stands for k / capacity, the vehicle capacity (1.0 in the env) for capacity *)
Definition gen_cvrp (capacity : Z) (us : list Q) (D : list (list Z)) : cvrp_inst :=
  {| dem := map demand_int us; cap := capacity; dist := D; tol := 0 |}.

Lemma cvrp_table_capacity_ge n : 20 <= cvrp_capacity None n.
Proof.
  cbn [cvrp_capacity]. pose proof (table_lookup_In CAPACITIES n ltac:(discriminate)) as H.
  cbn in H. intuition lia.
Qed.

Lemma demand_int_range lo hi u : 1 <= lo ->
  (inject_Z (lo - 1) <= u)%Q -> (u < inject_Z (hi - 1))%Q -> lo <= demand_int u <= hi - 1.
Proof.
  intros Hlo H1 H2. unfold demand_int.
  assert (H0 : (0 <= u)%Q).
  { eapply Qle_trans; [|exact H1]. change 0%Q with (inject_Z 0). apply inject_Z_le. lia. }
  rewrite Qtrunc_nonneg by exact H0.
  pose proof (Qfloor_lb _ _ H1). pose proof (Qfloor_ub_lt _ _ H2). lia.
Qed.

(* min_demand = lo, max_demand = hi: the sampler is Uniform(lo - 1, hi - 1) *)
Theorem gen_cvrp_wf : forall (num_loc : Z) (override : option Z) (lo hi : Z) (us : list Q) (D : list (list Z)),
  1 <= lo <= hi - 1 ->
  (forall u, In u us -> (inject_Z (lo - 1) <= u)%Q /\ (u < inject_Z (hi - 1))%Q) ->
  hi - 1 <= cvrp_capacity override num_loc ->
  let i := gen_cvrp (cvrp_capacity override num_loc) us D in
  cvrp_wfb i = true /\ cvrp_solvableb i = true /\
  (forall k, In k (dem i) -> lo <= k <= hi - 1 /\ k <= cap i).
Proof.
  intros n ovr lo hi us D Hlo Hus Hcap i.
  assert (Hd : forall k, In k (dem i) -> lo <= k <= hi - 1).
  { intros k Hk. unfold i, gen_cvrp in Hk. cbn [dem] in Hk. apply in_map_iff in Hk as [u [<- Hu]].
    destruct (Hus u Hu). apply demand_int_range; auto. lia. }
  assert (Hc : cap i = cvrp_capacity ovr n) by reflexivity.
  split; [|split].
  - unfold cvrp_wfb. apply andb_true_iff. split.
    + apply forallb_forall. intros k Hk. specialize (Hd k Hk). lia.
    + rewrite Hc. lia.
  - unfold cvrp_solvableb. apply forallb_forall. intros k Hk. specialize (Hd k Hk). rewrite Hc. lia.
  - intros k Hk. specialize (Hd k Hk). rewrite Hc. lia.
Qed.

(* the default configuration (min_demand 1, max_demand 10, capacity from the table, ANY num_loc): 1 <= demand <= 9 < 20 <= capacity *)
Corollary gen_cvrp_default_wf : forall (num_loc : Z) (us : list Q) (D : list (list Z)),
  (forall u, In u us -> (0 <= u)%Q /\ (u < 9)%Q) ->
  let i := gen_cvrp (cvrp_capacity None num_loc) us D in
  cvrp_wfb i = true /\ cvrp_solvableb i = true /\ (forall k, In k (dem i) -> 1 <= k <= 9 /\ k < cap i) /\ 20 <= cap i.
Proof.
  intros n us D Hus i. pose proof (cvrp_table_capacity_ge n) as Hc.
  destruct (gen_cvrp_wf n None 1 10 us D ltac:(lia)) as [H1 [H2 H3]].
  - intros u Hu. destruct (Hus u Hu). split; assumption.
  - lia.
  - split; [exact H1|]. split; [exact H2|]. split; [|exact Hc].
    intros k Hk. destruct (H3 k Hk). change (cap i) with (cvrp_capacity None n). lia.
Qed.

Example gen_cvrp_ex :
  let i := gen_cvrp (cvrp_capacity None 17) [0 # 1; 35 # 4; 3 # 1; 8999 # 1000]%Q [] in
  dem i = [1; 9; 4; 9] /\ cap i = 25 /\ cvrp_wfb i = true /\ cvrp_solvableb i = true /\
  cvrp_capacity None 20 = 30 /\ cvrp_capacity None 1 = 20 /\ cvrp_capacity None 5000 = 150 /\
  cvrp_capacity None 350 = 70 (* tie between 200 and 500: the first key wins *) /\ cvrp_capacity (Some 7) 20 = 7.
Proof. vm_compute. repeat split. Qed.

(* A capacity override below max_demand - 1 is accepted silently and yields demand > capacity. *)
Example gen_cvrp_small_override_refuted :
  exists (c : Z) (us : list Q), (forall u, In u us -> (0 <= u)%Q /\ (u < 9)%Q) /\
    cvrp_solvableb (gen_cvrp (cvrp_capacity (Some c) 20) us []) = false.
Proof. exists 5, [8 # 1]%Q. split; [|reflexivity]. intros u [<-|[]]. split; reflexivity || discriminate. Qed.

(* ================================================================== CVRPTW *)
(* _generate steps 1-8 for ONE node: d = distance depot-node (step 1), T = max_time, dur = service duration
   (all zero in the shipped code), t1 t2 = the two torch.rand values (step 3).
     2.  upper_bound = max_time - dist - durations
     4.  min_ts = (dist + (upper_bound - dist) * ts_1).int() ; max_ts likewise with ts_2
     5.  min_times = min(min_ts, max_ts) ; max_times = max(min_ts, max_ts)
     7.  where min == max:  min = max(dist.int(), min - 1) ;
         where still min == max:  max = min(floor(upper_bound).int(), max(ceil(min + dur).int(), max + 1))      *)
Definition cvrptw_raw (T d dur t : Q) : Z := Qtrunc (d + ((T - d - dur) - d) * t).
Definition cvrptw_window (T d dur t1 t2 : Q) : Z * Z :=
  let ub := (T - d - dur)%Q in
  let a := cvrptw_raw T d dur t1 in
  let b := cvrptw_raw T d dur t2 in
  let lo := Z.min a b in
  let hi := Z.max a b in
  let lo1 := if lo =? hi then Z.max (Qtrunc d) (lo - 1) else lo in
  let hi1 := if lo1 =? hi then Z.min (Qfloor ub) (Z.max (Qceiling (inject_Z lo1 + dur)) (hi + 1)) else hi in
  (lo1, hi1).
(* step 6: the depot entry *)
Definition cvrptw_depot_window (T : Q) : Z * Z := (0, Qtrunc T).
(* one row: depot first, then one window per customer (d, dur, t1, t2) *)
Definition gen_cvrptw (T : Q) (cust : list (Q * Q * Q * Q)) : list (Z * Z) :=
  cvrptw_depot_window T :: map (fun c => let '(d, dur, t1, t2) := c in cvrptw_window T d dur t1 t2) cust.

(* what the environment needs of a customer window (DESIGN appendix A, CVRPTW row): ordered, reachable from the
   depot, and service started as late as tw_hi still leaves time to return before the horizon H *)
Definition cvrptw_customer_okb (H d dur : Q) (w : Z * Z) : bool :=
  (0 <=? fst w) && (fst w <? snd w) && Qle_bool d (inject_Z (snd w)) && Qle_bool (inject_Z (snd w) + dur + d) H.

Lemma cvrptw_raw_bounds T d dur t :
  (0 <= d)%Q -> (0 <= t)%Q -> (t < 1)%Q -> (d <= T - d - dur)%Q ->
  Qfloor d <= cvrptw_raw T d dur t <= Qfloor (T - d - dur).
Proof.
  intros Hd Ht0 Ht1 Hub. unfold cvrptw_raw.
  set (ub := (T - d - dur)%Q) in *.
  assert (H1 : (d <= d + (ub - d) * t)%Q) by nra.
  assert (H2 : (d + (ub - d) * t <= ub)%Q) by nra.
  rewrite Qtrunc_nonneg by lra. split; apply Qfloor_resp_le; assumption.
Qed.

Theorem cvrptw_window_ok : forall (T d dur t1 t2 : Q),
  (0 <= d)%Q -> (0 <= dur)%Q -> (0 <= t1)%Q -> (t1 < 1)%Q -> (0 <= t2)%Q -> (t2 < 1)%Q ->
  (d <= T - d - dur)%Q ->
  let lo := fst (cvrptw_window T d dur t1 t2) in
  let hi := snd (cvrptw_window T d dur t1 t2) in
  0 <= lo /\ Qfloor d <= lo /\ lo <= hi /\ hi <= Qfloor (T - d - dur) /\
  (inject_Z hi + dur + d <= T)%Q /\
  (lo < hi -> (d < inject_Z hi)%Q) /\
  (Qfloor d + 1 <= Qfloor (T - d - dur) -> lo < hi).
Proof.
  intros T d dur t1 t2 Hd Hdur Ht1 Ht1' Ht2 Ht2' Hub lo hi.
  pose proof (cvrptw_raw_bounds T d dur t1 Hd Ht1 Ht1' Hub) as Ha.
  pose proof (cvrptw_raw_bounds T d dur t2 Hd Ht2 Ht2' Hub) as Hb.
  assert (Hfd : 0 <= Qfloor d) by (apply (Qfloor_lb 0); exact Hd).
  assert (Hfu : (inject_Z (Qfloor (T - d - dur)) <= T - d - dur)%Q) by apply Qfloor_le.
  unfold lo, hi, cvrptw_window. cbn [fst snd].
  rewrite (Qtrunc_nonneg d Hd).
  set (a := cvrptw_raw T d dur t1) in *. set (b := cvrptw_raw T d dur t2) in *.
  set (fd := Qfloor d) in *. set (fu := Qfloor (T - d - dur)) in *.
  set (lo1 := if Z.min a b =? Z.max a b then Z.max fd (Z.min a b - 1) else Z.min a b).
  set (c := Qceiling (inject_Z lo1 + dur)).
  set (hi1 := if lo1 =? Z.max a b then Z.min fu (Z.max c (Z.max a b + 1)) else Z.max a b).
  assert (HZ : 0 <= lo1 /\ fd <= lo1 /\ lo1 <= hi1 /\ hi1 <= fu /\ (fd + 1 <= fu -> lo1 < hi1)).
  { unfold hi1, lo1. destruct (Z.min a b =? Z.max a b) eqn:E1.
    - destruct (Z.max fd (Z.min a b - 1) =? Z.max a b) eqn:E2; lia.
    - destruct (Z.min a b =? Z.max a b) eqn:E2; [discriminate|]. lia. }
  destruct HZ as [Z1 [Z2 [Z3 [Z4 Z5]]]].
  repeat split; try assumption.
  - assert (H : (inject_Z hi1 <= inject_Z fu)%Q) by (apply inject_Z_le; exact Z4). lra.
  - intros Hlt. assert (H : (inject_Z (fd + 1) <= inject_Z hi1)%Q) by (apply inject_Z_le; lia).
    pose proof (Qlt_floor d) as H'. fold fd in H'. lra.
Qed.

(* The generator's own final `assert torch.all(min_times < max_times)` passes exactly when lo < hi; when it passes
   and the customer can be served at all (2 d + dur <= T) the window is good for the environment. *)
Corollary cvrptw_window_solvable : forall (T d dur t1 t2 : Q),
  (0 <= d)%Q -> (0 <= dur)%Q -> (0 <= t1)%Q -> (t1 < 1)%Q -> (0 <= t2)%Q -> (t2 < 1)%Q ->
  (d <= T - d - dur)%Q ->
  let w := cvrptw_window T d dur t1 t2 in
  (fst w < snd w -> cvrptw_customer_okb T d dur w = true) /\
  (Qfloor d + 1 <= Qfloor (T - d - dur) -> cvrptw_customer_okb T d dur w = true).
Proof.
  intros T d dur t1 t2 Hd Hdur Ht1 Ht1' Ht2 Ht2' Hub w.
  destruct (cvrptw_window_ok T d dur t1 t2 Hd Hdur Ht1 Ht1' Ht2 Ht2' Hub) as [H1 [H2 [H3 [H4 [H5 [H6 H7]]]]]].
  fold w in H1, H2, H3, H4, H5, H6, H7.
  assert (Hmain : fst w < snd w -> cvrptw_customer_okb T d dur w = true).
  { intros Hlt. unfold cvrptw_customer_okb. rewrite !andb_true_iff. repeat split.
    - lia.
    - lia.
    - apply Qle_bool_iff. apply Qlt_le_weak. apply H6. exact Hlt.
    - apply Qle_bool_iff. exact H5. }
  split; [exact Hmain|]. intros Hf. apply Hmain. apply H7. exact Hf.
Qed.

(* whole row: every customer window passes, provided every customer satisfies floor(d) + 1 <= floor(T - d - dur)
   (true for the shipped defaults: d <= 150 * sqrt 2 < 213, T = 480, dur = 0) *)
Theorem gen_cvrptw_wf : forall (T : Q) (cust : list (Q * Q * Q * Q)),
  (forall d dur t1 t2, In (d, dur, t1, t2) cust ->
     (0 <= d)%Q /\ (0 <= dur)%Q /\ (0 <= t1)%Q /\ (t1 < 1)%Q /\ (0 <= t2)%Q /\ (t2 < 1)%Q /\
     (d <= T - d - dur)%Q /\ Qfloor d + 1 <= Qfloor (T - d - dur)) ->
  length (gen_cvrptw T cust) = S (length cust) /\
  nth 0 (gen_cvrptw T cust) (0, 0) = (0, Qtrunc T) /\
  forall j, (j < length cust)%nat ->
    let '(d, dur, _, _) := nth j cust (0, 0, 0, 0)%Q in
    cvrptw_customer_okb T d dur (nth (S j) (gen_cvrptw T cust) (0, 0)) = true.
Proof.
  intros T cust H. unfold gen_cvrptw. split; [cbn; rewrite map_length; reflexivity|]. split; [reflexivity|].
  intros j Hj. cbn [nth].
  set (f := fun c : Q * Q * Q * Q => _).
  rewrite (nth_indep _ (0, 0) (f (0, 0, 0, 0)%Q)) by (rewrite map_length; exact Hj).
  rewrite map_nth. pose proof (nth_In cust (0, 0, 0, 0)%Q Hj) as Hin.
  destruct (nth j cust (0, 0, 0, 0)%Q) as [[[d dur] t1] t2]. unfold f.
  destruct (H d dur t1 t2 Hin) as [A1 [A2 [A3 [A4 [A5 [A6 [A7 A8]]]]]]].
  apply (cvrptw_window_solvable T d dur t1 t2); assumption.
Qed.

Example cvrptw_window_ex :
  (* both draws truncate to the same integer: step 7 first tries lo - 1, then hi + 1 *)
  cvrptw_window 480 (101 # 2) 0 (1 # 1000) (2 # 1000) = (50, 51) /\
  cvrptw_window 480 (101 # 2) 0 (1 # 100) (1 # 100) = (53, 54) /\
  cvrptw_window 480 (101 # 2) 0 (1 # 4) (3 # 4) = (145, 334) /\
  cvrptw_customer_okb 480 (101 # 2) 0 (50, 51) = true.
Proof. vm_compute. repeat split. Qed.

(* The assert does not protect against customers that are too far to be served at all (2 d + dur > T): the window
   [240, 270] of a customer at distance 300 passes `min_times < max_times`, but the customer cannot be reached
   before 270, let alone be left in time. *)
Example cvrptw_far_customer_refuted :
  exists T d t1 t2 : Q, (0 <= d)%Q /\ (0 <= t1)%Q /\ (t1 < 1)%Q /\ (0 <= t2)%Q /\ (t2 < 1)%Q /\
    let w := cvrptw_window T d 0 t1 t2 in
    fst w < snd w /\ (inject_Z (snd w) < d)%Q /\ cvrptw_customer_okb T d 0 w = false.
Proof.
  exists 480%Q, 300%Q, (1 # 4)%Q, (1 # 2)%Q. vm_compute. repeat split; congruence || reflexivity.
Qed.

(* The depot deadline the ENVIRONMENT reads is the emitted depot window end int(max_time) (step 6 writes max_time into an
   int tensor).  For an integer max_time it is max_time itself; for a non-integer one it is smaller than the bound the
   customers' upper ends were computed with, and "hi + dur + d <= max_time" no longer gives the return in time. *)
Lemma cvrptw_depot_deadline_integer z : 0 <= z -> snd (cvrptw_depot_window (inject_Z z)) = z.
Proof.
  intros Hz. unfold cvrptw_depot_window. cbn [snd]. rewrite Qtrunc_nonneg; [apply Qfloor_Z|].
  change 0%Q with (inject_Z 0). apply inject_Z_le. exact Hz.
Qed.
Example cvrptw_noninteger_deadline_refuted :
  exists T d t1 t2 : Q, (0 <= d)%Q /\ (0 <= t1)%Q /\ (t1 < 1)%Q /\ (0 <= t2)%Q /\ (t2 < 1)%Q /\ (d <= T - d - 0)%Q /\
    Qfloor d + 1 <= Qfloor (T - d - 0) /\
    let w := cvrptw_window T d 0 t1 t2 in
    let H := inject_Z (snd (cvrptw_depot_window T)) in
    cvrptw_customer_okb T d 0 w = true /\ cvrptw_customer_okb H d 0 w = false /\ w = (479, 480) /\ (H == 480)%Q.
Proof.
  exists (961 # 2)%Q, (1 # 4)%Q, (511 # 512)%Q, (4095 # 4096)%Q. vm_compute. repeat split; congruence || reflexivity.
Qed.

(* ================================================================== MTVRP *)
(* get_vehicle_capacity(num_loc): 30 + num_loc // 5 above 20 nodes; above 1000 nodes 30 + 200 + (num_loc - 1000) // 33.3 *)
Definition get_vehicle_capacity (n : Z) : Z :=
  if 1000 <? n then 30 + (1000 / 5 + Qfloor (inject_Z (n - 1000) / (333 # 10)))
  else if 20 <? n then 30 + n / 5 else 30.
Definition mtvrp_capacity (override : option Z) (n : Z) : Z :=
  match override with Some c => c | None => get_vehicle_capacity n end.

Lemma get_vehicle_capacity_ge n : 30 <= get_vehicle_capacity n.
Proof.
  unfold get_vehicle_capacity. destruct (1000 <? n) eqn:E1.
  - assert (H : 0 <= Qfloor (inject_Z (n - 1000) / (333 # 10))).
    { apply (Qfloor_lb 0). apply Qle_shift_div_l; [reflexivity|]. rewrite Qmult_0_l.
      change 0%Q with (inject_Z 0). apply inject_Z_le. lia. }
    set (q := Qfloor (inject_Z (n - 1000) / (333 # 10))) in *. clearbody q. change (1000 / 5) with 200. lia.
  - destruct (20 <? n) eqn:E2; [|lia]. assert (0 <= n / 5) by (apply Z.div_pos; lia). lia.
Qed.

(* generate_demands for one node: ul, ub = the two uniform_(min - 1, max - 1) draws, r = the torch.rand draw;
   is_linehaul = r > backhaul_ratio; the node keeps exactly one of the two demands *)
Definition mtvrp_demand (ratio ul ub r : Q) : Z * Z :=
  let is_lin := negb (Qle_bool r ratio) in
  (demand_int ul * (if is_lin then 1 else 0), demand_int ub * (if is_lin then 0 else 1)).

Theorem mtvrp_demand_ok : forall (ratio ul ub r : Q) (lo hi blo bhi : Z),
  1 <= lo -> 1 <= blo ->
  (inject_Z (lo - 1) <= ul)%Q -> (ul < inject_Z (hi - 1))%Q ->
  (inject_Z (blo - 1) <= ub)%Q -> (ub < inject_Z (bhi - 1))%Q ->
  let l := fst (mtvrp_demand ratio ul ub r) in
  let b := snd (mtvrp_demand ratio ul ub r) in
  (b = 0 /\ lo <= l <= hi - 1) \/ (l = 0 /\ blo <= b <= bhi - 1).
Proof.
  intros ratio ul ub r lo hi blo bhi H1 H2 H3 H4 H5 H6. unfold mtvrp_demand. cbn [fst snd].
  pose proof (demand_int_range lo hi ul H1 H3 H4). pose proof (demand_int_range blo bhi ub H2 H5 H6).
  destruct (Qle_bool r ratio); cbn [negb]; [right|left]; lia.
Qed.

(* generate_time_windows for one customer: s, L, r = the three torch.rand draws already mapped to
   service_time in [0.15, 0.18), tw_length in [0.18, 0.2) and r in [0, 1); d = distance to the depot.
     h_max = (max_time - service_time - tw_length) / d_0i * speed - 1
     tw_start = (1 + (h_max - 1) * r) * d_0i / speed ;  tw_end = tw_start + tw_length                        *)
Definition mtvrp_service (r1 : Q) : Q := (15 # 100) + ((18 # 100) - (15 # 100)) * r1.
Definition mtvrp_twlen (r2 : Q) : Q := (18 # 100) + ((20 # 100) - (18 # 100)) * r2.
Definition mtvrp_tw (T speed d s L r : Q) : Q * Q :=
  let h_max := ((T - s - L) / d * speed - 1)%Q in
  let start := ((1 + (h_max - 1) * r) * d / speed)%Q in
  (start, (start + L)%Q).

Lemma mtvrp_tw_start_eq T speed d s L r : ~ (d == 0)%Q -> ~ (speed == 0)%Q ->
  (fst (mtvrp_tw T speed d s L r) == d / speed + ((T - s - L) - 2 * (d / speed)) * r)%Q.
Proof. intros Hd Hs. unfold mtvrp_tw. cbn [fst]. field. split; assumption. Qed.

Theorem mtvrp_tw_ok : forall (T speed d s L r : Q),
  (0 < d)%Q -> (0 < speed)%Q -> (0 <= s)%Q -> (0 < L)%Q -> (0 <= r)%Q -> (r < 1)%Q ->
  (2 * (d / speed) <= T - s - L)%Q ->
  let lo := fst (mtvrp_tw T speed d s L r) in
  let hi := snd (mtvrp_tw T speed d s L r) in
  (d / speed <= lo)%Q /\ (lo < hi)%Q /\ (d / speed < hi)%Q /\ (hi + s + d / speed <= T)%Q /\
  (lo + s + d / speed < T)%Q.
Proof.
  intros T speed d s L r Hd Hsp Hs HL Hr0 Hr1 Hfeas lo hi.
  assert (Hlo : (lo == d / speed + ((T - s - L) - 2 * (d / speed)) * r)%Q).
  { apply mtvrp_tw_start_eq; intros E; rewrite E in *; lra. }
  assert (Hhi : (hi == lo + L)%Q) by (unfold hi, lo, mtvrp_tw; cbn [fst snd]; reflexivity).
  set (x := (d / speed)%Q) in *. set (A := (T - s - L)%Q) in *.
  assert (H1 : (0 <= (A - 2 * x) * r)%Q) by nra.
  assert (H2 : ((A - 2 * x) * r <= A - 2 * x)%Q) by nra.
  rewrite Hhi, Hlo. unfold A in *. repeat split; lra.
Qed.

(* the draws mapped by the code: 0 <= r1, r2 < 1 give 0.15 <= s < 0.18 and 0.18 <= L < 0.2 *)
Lemma mtvrp_service_range r1 : (0 <= r1)%Q -> (r1 < 1)%Q ->
  ((15 # 100) <= mtvrp_service r1)%Q /\ (mtvrp_service r1 < (18 # 100))%Q.
Proof. intros H0 H1. unfold mtvrp_service. split; lra. Qed.
Lemma mtvrp_twlen_range r2 : (0 <= r2)%Q -> (r2 < 1)%Q ->
  ((18 # 100) <= mtvrp_twlen r2)%Q /\ (mtvrp_twlen r2 < (20 # 100))%Q.
Proof. intros H0 H1. unfold mtvrp_twlen. split; lra. Qed.

(* generate_distance_limit: asserts (2 * dist_to_depot < distance_limit).all(), then returns the constant *)
Definition mtvrp_distance_limit (lim : Q) (ds : list Q) : option Q :=
  if forallb (fun d => negb (Qle_bool lim (2 * d))) ds then Some lim else None.   (* None = AssertionError *)
Lemma mtvrp_distance_limit_ok lim ds l : mtvrp_distance_limit lim ds = Some l ->
  l = lim /\ forall d, In d ds -> (2 * d < lim)%Q.
Proof.
  unfold mtvrp_distance_limit. destruct (forallb _ ds) eqn:E; [|discriminate]. intros [= <-]. split; [reflexivity|].
  intros d Hd. rewrite forallb_forall in E. specialize (E d Hd). apply negb_true_iff in E.
  destruct (Qlt_le_dec (2 * d) lim) as [H|H]; [exact H|]. apply Qle_bool_iff in H. congruence.
Qed.

(* ------------------------------------------------------------------ subsample_problems / _default_* *)
Definition keep4 := (bool * bool * bool * bool)%type.     (* columns O, TW, L, B of keep_mask *)
(* a fixed variant preset: keep_mask[:, torch.nonzero(variant_probs)] = True *)
Definition keep_fixed (p : Q * Q * Q * Q) : keep4 :=
  let '(pO, pTW, pL, pB) := p in (negb (Qeq_bool pO 0), negb (Qeq_bool pTW 0), negb (Qeq_bool pL 0), negb (Qeq_bool pB 0)).
(* "cvrp", "single_feat" (and "all" with use_combinations=False): one-hot over 5 columns, column 4 = plain CVRP *)
Definition keep_onehot5 (idx : nat) : keep4 := (Nat.eqb idx 0, Nat.eqb idx 1, Nat.eqb idx 2, Nat.eqb idx 3).
(* "single_feat_otw": 6 columns, column 4 = OTW switches O and TW on *)
Definition keep_onehot6 (idx : nat) : keep4 :=
  (Nat.eqb idx 0 || Nat.eqb idx 4, Nat.eqb idx 1 || Nat.eqb idx 4, Nat.eqb idx 2, Nat.eqb idx 3).
(* use_combinations: keep_mask = torch.rand(B, 4) >= variant_probs *)
Definition keep_comb (u p : Q * Q * Q * Q) : keep4 :=
  let '(u0, u1, u2, u3) := u in let '(p0, p1, p2, p3) := p in
  (Qle_bool p0 u0, Qle_bool p1 u1, Qle_bool p2 u2, Qle_bool p3 u3).

(* per-node effect of the four _default_* functions; [None] stands for float("inf") *)
Definition sub_open (kO : bool) (o : bool) : bool := if kO then o else false.
Definition sub_tw (kTW : bool) (tw : Q * option Q) : Q * option Q := if kTW then tw else (0%Q, None).
Definition sub_svc (kTW : bool) (s : Q) : Q := if kTW then s else 0%Q.
Definition sub_limit (kL : bool) (l : option Q) : option Q := if kL then l else None.
Definition sub_dem (kB : bool) (lb : Z * Z) : Z * Z := if kB then lb else (fst lb + snd lb, 0).

Record mtvrp_row := {
  r_open : bool;
  r_tw : list (Q * option Q);      (* depot first *)
  r_svc : list Q;
  r_limit : option Q;
  r_dem : list (Z * Z);            (* (linehaul, backhaul) per node, depot first, in units of 1 / capacity *)
}.
Definition subsample (k : keep4) (r : mtvrp_row) : mtvrp_row :=
  let '(kO, kTW, kL, kB) := k in
  {| r_open := sub_open kO (r_open r); r_tw := map (sub_tw kTW) (r_tw r); r_svc := map (sub_svc kTW) (r_svc r);
     r_limit := sub_limit kL (r_limit r); r_dem := map (sub_dem kB) (r_dem r) |}.

(* the row before subsampling: all four features present *)
Definition gen_mtvrp_row (T speed lim ratio : Q) (cust : list (Q * Q * Q * Q * Q * Q * Q)) : mtvrp_row :=
  (* per customer: d, r1 (service), r2 (tw length), r3 (tw start), ul, ub, r (linehaul/backhaul) *)
  {| r_open := true;
     r_tw := (0%Q, Some T) :: map (fun c => let '(d, r1, r2, r3, _, _, _) := c in
                let w := mtvrp_tw T speed d (mtvrp_service r1) (mtvrp_twlen r2) r3 in (fst w, Some (snd w))) cust;
     r_svc := 0%Q :: map (fun c => let '(_, r1, _, _, _, _, _) := c in mtvrp_service r1) cust;
     r_limit := Some lim;
     r_dem := (0, 0) :: map (fun c => let '(_, _, _, _, ul, ub, r) := c in mtvrp_demand ratio ul ub r) cust |}.

(* what MTVRPEnv needs of a customer (DESIGN appendix A, MTVRP row): demand fits, the customer can be reached and
   left within the distance limit (one way only on an open route), it is reached before its deadline, and on a
   closed route the depot is reached again before the depot deadline [Tend] *)
Definition le_opt (x : Q) (o : option Q) : bool := match o with None => true | Some y => Qle_bool x y end.
Definition lt_opt (x : Q) (o : option Q) : bool := match o with None => true | Some y => negb (Qle_bool y x) end.
Definition Qmaxq (a b : Q) : Q := if Qle_bool a b then b else a.
Definition mtvrp_customer_okb (cap : Z) (open : bool) (speed : Q) (limit Tend : option Q)
           (d : Q) (tw : Q * option Q) (svc : Q) (lb : Z * Z) : bool :=
  (0 <=? fst lb) && (0 <=? snd lb) && (fst lb <=? cap) && (snd lb <=? cap) &&
  le_opt (if open then d else 2 * d)%Q limit &&
  lt_opt (d / speed)%Q (snd tw) &&
  (open || lt_opt (Qmaxq (d / speed) (fst tw) + svc + d / speed)%Q Tend).

Theorem mtvrp_customer_ok : forall (k : keep4) (cap lo hi blo bhi : Z) (T speed lim ratio d r1 r2 r3 ul ub r : Q),
  1 <= lo -> 1 <= blo -> hi - 1 <= cap -> bhi - 1 <= cap ->
  (0 < d)%Q -> (0 < speed)%Q ->
  (0 <= r1)%Q -> (r1 < 1)%Q -> (0 <= r2)%Q -> (r2 < 1)%Q -> (0 <= r3)%Q -> (r3 < 1)%Q ->
  (inject_Z (lo - 1) <= ul)%Q -> (ul < inject_Z (hi - 1))%Q ->
  (inject_Z (blo - 1) <= ub)%Q -> (ub < inject_Z (bhi - 1))%Q ->
  (2 * d < lim)%Q ->                                                  (* the assert of generate_distance_limit *)
  (2 * (d / speed) + (38 # 100) <= T)%Q ->                             (* time for the round trip, service and window *)
  let '(kO, kTW, kL, kB) := k in
  let s := mtvrp_service r1 in
  let w := mtvrp_tw T speed d s (mtvrp_twlen r2) r3 in
  mtvrp_customer_okb cap (sub_open kO true) speed (sub_limit kL (Some lim)) (snd (sub_tw kTW (0%Q, Some T)))
                     d (sub_tw kTW (fst w, Some (snd w))) (sub_svc kTW s) (sub_dem kB (mtvrp_demand ratio ul ub r)) = true.
Proof.
  intros [[[kO kTW] kL] kB] cap lo hi blo bhi T speed lim ratio d r1 r2 r3 ul ub r.
  intros Hlo Hblo Hcap Hbcap Hd Hsp H10 H11 H20 H21 H30 H31 Hul0 Hul1 Hub0 Hub1 Hlim HT.
  intros s w.
  destruct (mtvrp_service_range r1 H10 H11) as [Hs0 Hs1]. fold s in Hs0, Hs1.
  destruct (mtvrp_twlen_range r2 H20 H21) as [HL0 HL1].
  set (L := mtvrp_twlen r2) in *.
  assert (Hfeas : (2 * (d / speed) <= T - s - L)%Q) by lra.
  destruct (mtvrp_tw_ok T speed d s L r3 Hd Hsp ltac:(lra) ltac:(lra) H30 H31 Hfeas) as [W1 [W2 [W3 [W4 W5]]]].
  fold w in W1, W2, W3, W4, W5.
  pose proof (mtvrp_demand_ok ratio ul ub r lo hi blo bhi Hlo Hblo Hul0 Hul1 Hub0 Hub1) as Hdem.
  set (lb := mtvrp_demand ratio ul ub r) in *. cbn zeta in Hdem.
  assert (Hx : (0 < d / speed)%Q) by (apply Qlt_shift_div_l; [exact Hsp|lra]).
  unfold mtvrp_customer_okb. rewrite !andb_true_iff. repeat split.
  - destruct kB; cbn [sub_dem fst snd]; apply Z.leb_le; lia.
  - destruct kB; cbn [sub_dem fst snd]; apply Z.leb_le; lia.
  - destruct kB; cbn [sub_dem fst snd]; apply Z.leb_le; lia.
  - destruct kB; cbn [sub_dem fst snd]; apply Z.leb_le; lia.
  - destruct kL; cbn [sub_limit le_opt]; [|reflexivity]. apply Qle_bool_iff.
    destruct kO; cbn [sub_open]; lra.
  - destruct kTW; cbn [sub_tw snd lt_opt]; [|reflexivity]. apply negb_true_iff.
    destruct (Qle_bool (snd w) (d / speed)) eqn:E; [|reflexivity]. apply Qle_bool_iff in E. lra.
  - destruct kO; cbn [sub_open orb]; [reflexivity|].
    destruct kTW; cbn [sub_tw sub_svc fst snd lt_opt]; [|reflexivity].
    apply negb_true_iff.
    destruct (Qle_bool T (Qmaxq (d / speed) (fst w) + s + d / speed)) eqn:E; [|reflexivity].
    apply Qle_bool_iff in E. unfold Qmaxq in E.
    destruct (Qle_bool (d / speed) (fst w)) eqn:E2; lra.
Qed.

(* the row-level functions are these per-node functions mapped over the nodes *)
Lemma subsample_nth k r j :
  let '(kO, kTW, kL, kB) := k in
  (j < length (r_tw r))%nat -> (j < length (r_svc r))%nat -> (j < length (r_dem r))%nat ->
  r_open (subsample k r) = sub_open kO (r_open r) /\
  r_limit (subsample k r) = sub_limit kL (r_limit r) /\
  nth j (r_tw (subsample k r)) (0%Q, None) = sub_tw kTW (nth j (r_tw r) (0%Q, None)) /\
  nth j (r_svc (subsample k r)) 0%Q = sub_svc kTW (nth j (r_svc r) 0%Q) /\
  nth j (r_dem (subsample k r)) (0, 0) = sub_dem kB (nth j (r_dem r) (0, 0)).
Proof.
  destruct k as [[[kO kTW] kL] kB]. intros H1 H2 H3. cbn [subsample r_open r_limit r_tw r_svc r_dem].
  repeat split.
  - rewrite (nth_indep _ (0%Q, None) (sub_tw kTW (0%Q, None))) by (rewrite map_length; exact H1). apply map_nth.
  - rewrite (nth_indep _ 0%Q (sub_svc kTW 0%Q)) by (rewrite map_length; exact H2). apply map_nth.
  - rewrite (nth_indep _ (0, 0) (sub_dem kB (0, 0))) by (rewrite map_length; exact H3). apply map_nth.
Qed.

(* features of a subsampled row are exactly the kept ones; removing backhaul folds it into linehaul *)
Theorem subsample_features : forall (k : keep4) (T speed lim ratio : Q) (cust : list (Q * Q * Q * Q * Q * Q * Q)),
  let '(kO, kTW, kL, kB) := k in
  let r0 := gen_mtvrp_row T speed lim ratio cust in
  let r := subsample k r0 in
  r_open r = kO /\
  (r_limit r = if kL then Some lim else None) /\
  (if kTW then r_tw r = r_tw r0 /\ r_svc r = r_svc r0
   else Forall (fun tw => tw = (0%Q, None)) (r_tw r) /\ Forall (fun s => s = 0%Q) (r_svc r)) /\
  (if kB then r_dem r = r_dem r0
   else Forall (fun lb => snd lb = 0) (r_dem r) /\
        map (fun lb => fst lb + snd lb) (r_dem r) = map (fun lb => fst lb + snd lb) (r_dem r0)).
Proof.
  intros [[[kO kTW] kL] kB] T speed lim ratio cust. cbn zeta.
  set (r0 := gen_mtvrp_row T speed lim ratio cust). cbn [subsample r_open r_limit r_tw r_svc r_dem].
  split; [destruct kO; reflexivity|]. split; [destruct kL; reflexivity|]. split.
  - destruct kTW.
    + split; (rewrite <- map_id; apply map_ext; intros; reflexivity).
    + split; apply Forall_forall; intros x Hx; apply in_map_iff in Hx as [y [<- _]]; reflexivity.
  - destruct kB.
    + rewrite <- map_id. apply map_ext. intros; reflexivity.
    + split.
      * apply Forall_forall. intros x Hx. apply in_map_iff in Hx as [y [<- _]]. reflexivity.
      * rewrite map_map. apply map_ext. intros [l b]. cbn [sub_dem fst snd]. lia.
Qed.

Example mtvrp_ex :
  let r0 := gen_mtvrp_row (46 # 10) 1 3 (2 # 10) [((1 # 2), (1 # 2), (1 # 2), (1 # 4), (7 # 2), (5 # 1), (1 # 10))%Q;
                                                  ((3 # 4), 0, 0, (3 # 4), (1 # 2), (8 # 1), (9 # 10))%Q] in
  r_dem r0 = [(0, 0); (0, 6); (1, 0)] /\
  r_dem (subsample (keep_fixed (1, 1, 0, 0)%Q) r0) = [(0, 0); (6, 0); (1, 0)] /\
  r_limit (subsample (keep_fixed (1, 1, 0, 0)%Q) r0) = None /\
  keep_fixed (0, 1, 1, 0)%Q = (false, true, true, false) /\ keep_onehot6 4 = (true, true, false, false) /\
  keep_onehot5 4 = (false, false, false, false) /\
  get_vehicle_capacity 20 = 30 /\ get_vehicle_capacity 100 = 50 /\ get_vehicle_capacity 2000 = 260 /\
  get_vehicle_capacity 5000 = 350 /\ get_vehicle_capacity 10000 = 500.
Proof. vm_compute. repeat split. Qed.

(* ================================================================== OP *)
Definition MAX_LENGTHS : list (Z * Z) := [(20, 2); (50, 3); (100, 4)].
Definition op_max_length (override : option Q) (num_loc : Z) : Q :=
  match override with Some l => l | None => inject_Z (table_lookup MAX_LENGTHS num_loc) end.
Lemma op_max_length_table n : In (table_lookup MAX_LENGTHS n) [2; 3; 4].
Proof. apply (table_lookup_In MAX_LENGTHS n). discriminate. Qed.

(* prizes in hundredths.  "const": 1.0;  "unif": (1 + randint(0, 100)) / 100;
   "dist": (1 + (d / d.max() * 99).int()) / 100 with d the distance to the depot *)
Definition op_prize_const : Z := 100.
Definition op_prize_unif (k : Z) : Z := 1 + k.
Definition op_prize_dist (d dmax : Q) : Z := 1 + Qtrunc (d / dmax * 99).

Theorem op_prize_ranges :
  (forall k, 0 <= k < 100 -> 1 <= op_prize_unif k <= 100) /\
  (forall d dmax : Q, (0 <= d)%Q -> (d <= dmax)%Q -> (0 < dmax)%Q ->
     1 <= op_prize_dist d dmax <= 100 /\ ((d == dmax)%Q -> op_prize_dist d dmax = 100)).
Proof.
  split; [intros k Hk; unfold op_prize_unif; lia|].
  intros d dmax Hd Hle Hpos. unfold op_prize_dist.
  assert (H0 : (0 <= d / dmax)%Q) by (apply Qle_shift_div_l; [exact Hpos|lra]).
  assert (H1 : (d / dmax <= 1)%Q) by (apply Qle_shift_div_r; [exact Hpos|lra]).
  rewrite Qtrunc_nonneg by lra.
  assert (A : 0 <= Qfloor (d / dmax * 99)) by (apply (Qfloor_lb 0); change (inject_Z 0) with 0%Q; lra).
  assert (B : Qfloor (d / dmax * 99) <= 99) by (apply Qfloor_ub_le; change (inject_Z 99) with 99%Q; lra).
  split; [lia|]. intros E.
  assert (E1 : (d / dmax * 99 == inject_Z 99)%Q).
  { rewrite E. change (inject_Z 99) with 99%Q. field. intros Z0. rewrite Z0 in Hpos. lra. }
  rewrite E1, Qfloor_Z. reflexivity.
Qed.

(* prize_type "const": torch.ones(num_loc);  "unif": (1 + randint(0, 100, (num_loc,))) / 100 -- whole rows, in hundredths *)
Definition op_prizes_const (n : nat) : list Z := repeat op_prize_const n.
Definition op_prizes_unif (ks : list Z) : list Z := map op_prize_unif ks.
Theorem op_const_unif_wf :
  (forall n : nat, length (op_prizes_const n) = n /\ forall p, In p (op_prizes_const n) -> p = 100) /\
  (forall ks : list Z, (forall k, In k ks -> 0 <= k < 100) ->
     length (op_prizes_unif ks) = length ks /\ forall p, In p (op_prizes_unif ks) -> 1 <= p <= 100).
Proof.
  split.
  - intros n. unfold op_prizes_const. split; [apply repeat_length|]. intros p Hp. apply repeat_spec in Hp. exact Hp.
  - intros ks Hks. unfold op_prizes_unif. split; [apply map_length|]. intros p Hp. apply in_map_iff in Hp as [k [<- Hk]].
    specialize (Hks k Hk). unfold op_prize_unif. lia.
Qed.

(* ================================================================== PDP / MDCPDP: the pairing needs an even number of nodes *)
(* if num_loc % 2 != 0: num_loc += 1.   Pickup i (1 <= i <= n/2) is paired with delivery i + n/2. *)
Definition pdp_num_loc (n : Z) : Z := if Z.eqb (n mod 2) 0 then n else n + 1.
Definition pdp_partner (n j : Z) : Z := if j <=? n / 2 then j + n / 2 else j - n / 2.
Theorem pdp_pairing : forall n, 0 <= n ->
  let m := pdp_num_loc n in
  m mod 2 = 0 /\ n <= m <= n + 1 /\
  (forall j, 1 <= j <= m -> 1 <= pdp_partner m j <= m /\ pdp_partner m j <> j /\ pdp_partner m (pdp_partner m j) = j /\
             (j <= m / 2 <-> m / 2 < pdp_partner m j)).
Proof.
  intros n Hn m. unfold m, pdp_num_loc.
  assert (Hm : 0 <= n mod 2 < 2) by (apply Z.mod_pos_bound; lia).
  assert (Hd : n = 2 * (n / 2) + n mod 2) by (apply Z.div_mod; lia).
  destruct (Z.eqb (n mod 2) 0) eqn:E.
  - apply Z.eqb_eq in E. split; [exact E|]. split; [lia|].
    intros j Hj. unfold pdp_partner. set (h := n / 2) in *.
    assert (Hh : n = 2 * h) by lia.
    destruct (j <=? h) eqn:E1.
    + destruct (j + h <=? h) eqn:E2; lia.
    + destruct (j - h <=? h) eqn:E2; lia.
  - apply Z.eqb_neq in E. assert (E1 : n mod 2 = 1) by lia.
    assert (Hq : (n + 1) = 2 * (n / 2 + 1)) by lia.
    assert (Hmod : (n + 1) mod 2 = 0).
    { rewrite Hq. rewrite Z.mul_comm. apply Z.mod_mul. lia. }
    assert (Hdiv : (n + 1) / 2 = n / 2 + 1).
    { rewrite Hq at 1. rewrite Z.mul_comm. apply Z.div_mul. lia. }
    split; [exact Hmod|]. split; [lia|].
    intros j Hj. unfold pdp_partner. rewrite Hdiv. set (h := n / 2 + 1) in *.
    assert (Hh : n + 1 = 2 * h) by lia.
    destruct (j <=? h) eqn:E2.
    + destruct (j + h <=? h) eqn:E3; lia.
    + destruct (j - h <=? h) eqn:E3; lia.
Qed.

(* ================================================================== SVRP *)
(* techs = sort(uniform(min_skill, max_skill), ascending) ; skills = max(techs) * uniform(0, 1) *)
Fixpoint qinsert (x : Q) (l : list Q) : list Q :=
  match l with [] => [x] | y :: r => if Qle_bool x y then x :: l else y :: qinsert x r end.
Fixpoint qsort (l : list Q) : list Q := match l with [] => [] | x :: r => qinsert x (qsort r) end.
Fixpoint qmaxl (d : Q) (l : list Q) : Q := match l with [] => d | x :: r => qmaxl (Qmaxq d x) r end.
Definition svrp_techs (raw : list Q) : list Q := qsort raw.
Definition svrp_skills (techs : list Q) (us : list Q) : list Q :=
  match techs with [] => [] | t0 :: r => map (fun u => (qmaxl t0 r * u)%Q) us end.

Fixpoint qsortedb (l : list Q) : bool :=
  match l with x :: ((y :: _) as r) => Qle_bool x y && qsortedb r | _ => true end.
(* the solvability condition of SVRPEnv: the last technician (the env sends them out in this order) can serve everyone *)
Definition svrp_solvableb (techs skills : list Q) : bool :=
  qsortedb techs && forallb (fun s => Qle_bool s (last techs 0%Q)) skills.

Lemma qinsert_sorted x l : qsortedb l = true -> qsortedb (qinsert x l) = true.
Proof.
  induction l as [|y r IH]; intros H; [reflexivity|]. cbn [qinsert].
  destruct (Qle_bool x y) eqn:E.
  - cbn [qsortedb]. rewrite E. exact H.
  - assert (Hyx : Qle_bool y x = true).
    { apply Qle_bool_iff. destruct (Qlt_le_dec y x) as [L|L]; [apply Qlt_le_weak; exact L|].
      apply Qle_bool_iff in L. congruence. }
    destruct r as [|z r'].
    + cbn. rewrite Hyx. reflexivity.
    + cbn [qsortedb] in H. apply andb_prop in H as [Hyz Hr]. specialize (IH Hr).
      cbn [qinsert] in *. destruct (Qle_bool x z) eqn:E2.
      * cbn [qsortedb] in *. rewrite Hyx, E2. exact Hr.
      * cbn [qsortedb] in *. rewrite Hyz. exact IH.
Qed.
Lemma qsort_sorted l : qsortedb (qsort l) = true.
Proof. induction l as [|x r IH]; [reflexivity|]. cbn [qsort]. apply qinsert_sorted, IH. Qed.
Lemma qinsert_In x l y : In y (qinsert x l) <-> y = x \/ In y l.
Proof.
  induction l as [|z r IH]; cbn [qinsert]; [cbn; intuition|].
  destruct (Qle_bool x z); cbn [In]; [intuition|]. rewrite IH. cbn [In]. intuition.
Qed.
Lemma qsort_In l y : In y (qsort l) <-> In y l.
Proof. induction l as [|x r IH]; [reflexivity|]. cbn [qsort]. rewrite qinsert_In, IH. cbn [In]. intuition. Qed.
Lemma qsort_length l : length (qsort l) = length l.
Proof.
  assert (Hins : forall x l, length (qinsert x l) = S (length l)).
  { intros x l0. induction l0 as [|z r IH]; [reflexivity|]. cbn [qinsert]. destruct (Qle_bool x z); cbn; [reflexivity|].
    rewrite IH. reflexivity. }
  induction l as [|x r IH]; [reflexivity|]. cbn [qsort]. rewrite Hins, IH. reflexivity.
Qed.
Lemma qsorted_le_last l : qsortedb l = true -> forall x, In x l -> (x <= last l 0)%Q.
Proof.
  induction l as [|y r IH]; intros H x Hx; [destruct Hx|].
  destruct r as [|z r'].
  - destruct Hx as [<-|[]]. cbn. apply Qle_refl.
  - cbn [qsortedb] in H. apply andb_prop in H as [Hyz Hr]. apply Qle_bool_iff in Hyz.
    change (last (y :: z :: r') 0%Q) with (last (z :: r') 0%Q).
    destruct Hx as [<-|Hx].
    + eapply Qle_trans; [exact Hyz|]. apply IH; [exact Hr|left; reflexivity].
    + apply IH; assumption.
Qed.
Lemma Qmaxq_ub a b : (a <= Qmaxq a b)%Q /\ (b <= Qmaxq a b)%Q.
Proof.
  unfold Qmaxq. destruct (Qle_bool a b) eqn:E.
  - apply Qle_bool_iff in E. split; [exact E|apply Qle_refl].
  - split; [apply Qle_refl|]. destruct (Qlt_le_dec b a) as [L|L]; [apply Qlt_le_weak; exact L|].
    apply Qle_bool_iff in L. congruence.
Qed.
Lemma qmaxl_In l : forall d, qmaxl d l = d \/ In (qmaxl d l) l.
Proof.
  induction l as [|x r IH]; intros d; [left; reflexivity|]. cbn [qmaxl]. unfold Qmaxq.
  destruct (Qle_bool d x).
  - destruct (IH x) as [H|H]; [right; left; symmetry; exact H|right; right; exact H].
  - destruct (IH d) as [H|H]; [left; exact H|right; right; exact H].
Qed.

Theorem gen_svrp_wf : forall (raw us : list Q),
  raw <> [] -> (forall t, In t raw -> (0 <= t)%Q) -> (forall u, In u us -> (0 <= u)%Q /\ (u <= 1)%Q) ->
  let techs := svrp_techs raw in
  let skills := svrp_skills techs us in
  length techs = length raw /\ length skills = length us /\
  (forall t, In t techs <-> In t raw) /\
  svrp_solvableb techs skills = true.
Proof.
  intros raw us Hne Hraw Hus techs skills.
  assert (HL : length techs = length raw) by apply qsort_length.
  assert (HS : qsortedb techs = true) by apply qsort_sorted.
  assert (HIn : forall t, In t techs <-> In t raw) by (intros t; apply qsort_In).
  destruct techs as [|t0 r] eqn:Et.
  { destruct raw; [congruence|discriminate]. }
  split; [exact HL|]. unfold skills, svrp_skills. split; [apply map_length|]. split; [exact HIn|].
  unfold svrp_solvableb. rewrite HS. cbn [andb]. apply forallb_forall. intros s Hs.
  apply in_map_iff in Hs as [u [<- Hu]]. destruct (Hus u Hu) as [U0 U1]. apply Qle_bool_iff.
  set (M := qmaxl t0 r).
  assert (HMin : In M (t0 :: r)).
  { unfold M. destruct (qmaxl_In r t0) as [H|H]; [left; symmetry; exact H|right; exact H]. }
  assert (HM0 : (0 <= M)%Q) by (apply Hraw, HIn, HMin).
  assert (HMl : (M <= last (t0 :: r) 0)%Q) by (apply qsorted_le_last; assumption).
  assert (HMu : (M * u <= M)%Q) by nra.
  lra.
Qed.

Example gen_svrp_ex :
  svrp_techs [(7 # 2); 1; (9 # 1)]%Q = [1; (7 # 2); (9 # 1)]%Q /\
  svrp_solvableb (svrp_techs [(7 # 2); 1; 9]%Q) (svrp_skills (svrp_techs [(7 # 2); 1; 9]%Q) [(1 # 2); (99 # 100)]%Q) = true /\
  svrp_solvableb [1; 9; (7 # 2)]%Q [8]%Q = false.
Proof. vm_compute. repeat split. Qed.
