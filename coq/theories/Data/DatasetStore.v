(* C17 -- store-level model of the sharing between a TensorDictDataset and the ExtraKeyDatasets built on it.

   rl4co/data/dataset.py:
     TensorDictDataset.__init__ :  self.data = [{key: value[i] ...} for i in range(n)]     (a list of MUTABLE dicts)
     ExtraKeyDataset.__init__   :  self.data = dataset.data                                (the SAME list, the same dicts)
     ExtraKeyDataset.__getitem__:  data = self.data[idx]; data[self.key_name] = self.extra[idx]; return data
   so every wrapper of one TensorDictDataset reads AND WRITES the same per-instance records.  During training the
   same dataset object may be wrapped again and again with different extras (RolloutBaseline.wrap_dataset(ds), an
   epoch, the baseline policy is replaced, wrap_dataset(ds) again, ...).

   Here: a [store] = the shared list of records + the wrappers created so far; a history = any list of events
   (wrap with given extras / wrap through a baseline rollout over the BASE dataset / w[i] / a DataLoader pass
   through wrapper w / a DataLoader pass over the base dataset); [step] executes one event under a write
   [discipline]:
     Assign     : data[key] = extra[idx]               (the code as it is; = ekl_getitem of Data/Dataset.v)
     SetDefault : data.setdefault(key, extra[idx])     (an existing value is kept)
   Theorems (Assign): after ANY history, reading through wrapper w returns, for every index / sampler position p,
   the untouched instance p followed by w's OWN extra[p] (store_assign_history), and for a wrapper made by a
   baseline rollout the value is pol(instance p) for THAT rollout's policy (store_assign_rollout_history).
   SetDefault is refuted by a concrete history (setdefault_refuted). *)
From Coq Require Import List Arith Bool Lia Permutation PeanoNat.
From RL4CO Require Import Data.Dataset.
Import ListNotations.

Section Store.
  Context {K V : Type}.
  Variable K_eqb : K -> K -> bool.
  Hypothesis K_eqb_eq : forall a b, K_eqb a b = true <-> a = b.
  Variable dV : V.

  Local Notation itemT := (@item K V).
  Local Notation heapT := (@heap K V).
  Local Notation tdT := (@td K V).
  Local Notation ekT := (@ekds K V).

  (** ** the two write disciplines *)
  (* dict.setdefault(k, x): an existing key keeps its VALUE (and position), a new key goes last *)
  Fixpoint asetdefault {X} (k : K) (x : X) (l : list (K * X)) : list (K * X) :=
    match l with
    | [] => [(k, x)]
    | (k', x') :: r => if K_eqb k' k then (k', x') :: r else (k', x') :: asetdefault k x r
    end.

  Inductive discipline := Assign | SetDefault.
  Definition dwrite (d : discipline) (k : K) (x : V) (it : itemT) : itemT :=
    match d with Assign => aset K_eqb k x it | SetDefault => asetdefault k x it end.

  (* ExtraKeyDataset.__getitem__(idx) over the list of shared dicts: the record is written, stored back (it is the
     same object) and returned *)
  Definition sk_getitem (d : discipline) (e : ekT) (h : heapT) (i : nat) : option (itemT * heapT) :=
    match nth_error h i, nth_error (ek_extra e) i with
    | Some it, Some x => let it' := dwrite d (ek_key e) x it in Some (it', replace_nth i it' h)
    | _, _ => None
    end.
  Fixpoint sk_getitems (d : discipline) (e : ekT) (h : heapT) (ix : list nat) : option (list itemT * heapT) :=
    match ix with
    | [] => Some ([], h)
    | i :: r => match sk_getitem d e h i with
                | None => None
                | Some (it, h1) => match sk_getitems d e h1 r with
                                   | None => None
                                   | Some (its, h2) => Some (it :: its, h2)
                                   end
                end
    end.
  Definition sk_fetch (d : discipline) (e : ekT) (h : heapT) (ix : list nat) : option (tdT * heapT) :=
    match sk_getitems d e h ix with
    | Some (items, h') => match collate_stack K_eqb dV items with Some t => Some (t, h') | None => None end
    | None => None
    end.
  Definition D_sk (d : discipline) (e : ekT) : @dsclass K V heapT := mkDS (fun _ => ek_len e) (sk_fetch d e).

  (* the Assign discipline IS the model of Data/Dataset.v (the one the loader correspondence ties to the code) *)
  Lemma sk_getitems_assign_eq e ix : forall h, sk_getitems Assign e h ix = ekl_getitems K_eqb e h ix.
  Proof.
    induction ix as [|i r IH]; intros h; [reflexivity|]. cbn [sk_getitems ekl_getitems].
    change (sk_getitem Assign e h i) with (ekl_getitem K_eqb e h i).
    destruct (ekl_getitem K_eqb e h i) as [[it h1]|]; [|reflexivity]. rewrite IH. reflexivity.
  Qed.
  Lemma sk_fetch_assign_eq e h ix : sk_fetch Assign e h ix = ekl_fetch K_eqb dV e h ix.
  Proof. unfold sk_fetch, ekl_fetch. rewrite sk_getitems_assign_eq. reflexivity. Qed.

  Lemma fetch_all_ext {S} (D1 D2 : @dsclass K V S) :
    (forall s ix, ds_fetch D1 s ix = ds_fetch D2 s ix) ->
    forall bs s, fetch_all D1 s bs = fetch_all D2 s bs.
  Proof.
    intros H. induction bs as [|ix r IH]; intros s; [reflexivity|]. cbn [fetch_all]. rewrite H.
    destruct (ds_fetch D2 s ix) as [[t s1]|]; [|reflexivity]. rewrite IH. reflexivity.
  Qed.
  Lemma dataloader_sk_assign_eq e h b shuffle :
    dataloader (D_sk Assign e) h b shuffle = dataloader (D_ekl K_eqb dV e) h b shuffle.
  Proof.
    unfold dataloader. cbn [ds_len D_sk D_ekl]. destruct (b =? 0); [reflexivity|].
    assert (E : forall bs, fetch_all (D_sk Assign e) h bs = fetch_all (D_ekl K_eqb dV e) h bs).
    { intros bs. apply fetch_all_ext. intros s ix. cbn [ds_fetch D_sk D_ekl]. apply sk_fetch_assign_eq. }
    destruct shuffle as [perm|]; [destruct (ek_len e =? 0); [reflexivity|]|]; apply E.
  Qed.

  (** ** the store and its histories *)
  Record store := mkStore { st_heap : heapT; st_wrappers : list ekT }.
  (* TensorDictDataset(t): the records are the instances; no wrapper yet *)
  Definition store_init (t : tdT) : store := mkStore (tdd_init dV t) [].

  Inductive event :=
  | EWrap (key : K) (extra : list V)                       (* w = ds.add_key(key, extra) = ExtraKeyDataset(ds, extra, key) *)
  | EWrapPol (key : K) (polB : tdT -> list V) (bb : nat)   (* w = RolloutBaseline.wrap_dataset(ds): rollout of the baseline
                                                              policy over the BASE dataset (loader, batch size bb), add_key *)
  | EGet (w i : nat)                                       (* wrapper_w[i] *)
  | EPass (w b : nat) (shuffle : option (list nat))        (* for batch in DataLoader(wrapper_w, b, shuffle, collate_fn) *)
  | EBasePass (b : nat) (shuffle : option (list nat)).     (* for batch in DataLoader(ds, b, shuffle, collate_fn) *)
  Inductive output :=
  | OWrapped (extra : list V)      (* the new wrapper's .extra *)
  | OItem (it : itemT)
  | OBatches (ts : list tdT).

  (* RolloutBaseline.rollout over the base dataset in its CURRENT state (the records may carry earlier extras):
     torch.cat([eval_policy(batch) for batch in DataLoader(ds, bb, collate_fn)]); an empty list raises *)
  Definition base_rollout (polB : tdT -> list V) (h : heapT) (bb : nat) : option (list V) :=
    match dataloader (D_tdd K_eqb dV) h bb None with
    | Some (t0 :: ts, _) => Some (concat (map polB (t0 :: ts)))
    | _ => None
    end.

  Definition new_wrapper (s : store) (extra : list V) (key : K) : option (output * store) :=
    match ek_init (length (st_heap s)) extra key with       (* len(dataset) = data_len of the base dataset *)
    | Some e => Some (OWrapped (ek_extra e), mkStore (st_heap s) (st_wrappers s ++ [e]))
    | None => None
    end.

  (* None = the code raises *)
  Definition step (d : discipline) (s : store) (ev : event) : option (output * store) :=
    match ev with
    | EWrap key extra => new_wrapper s extra key
    | EWrapPol key polB bb =>
        match base_rollout polB (st_heap s) bb with
        | Some rewards => new_wrapper s rewards key
        | None => None
        end
    | EGet w i =>
        match nth_error (st_wrappers s) w with
        | Some e => match sk_getitem d e (st_heap s) i with
                    | Some (it, h') => Some (OItem it, mkStore h' (st_wrappers s))
                    | None => None
                    end
        | None => None
        end
    | EPass w b shuffle =>
        match nth_error (st_wrappers s) w with
        | Some e => match dataloader (D_sk d e) (st_heap s) b shuffle with
                    | Some (ts, h') => Some (OBatches ts, mkStore h' (st_wrappers s))
                    | None => None
                    end
        | None => None
        end
    | EBasePass b shuffle =>
        match dataloader (D_tdd K_eqb dV) (st_heap s) b shuffle with     (* TensorDictDataset.__getitem__ does not write *)
        | Some (ts, _) => Some (OBatches ts, s)
        | None => None
        end
    end.

  (* a history that does not raise, and the state it leaves *)
  Fixpoint run_state (d : discipline) (s : store) (evs : list event) : option store :=
    match evs with
    | [] => Some s
    | ev :: r => match step d s ev with Some (_, s1) => run_state d s1 r | None => None end
    end.
  (* what each event returned, up to and including the first one that raises (None) *)
  Fixpoint run_trace (d : discipline) (s : store) (evs : list event) : list (option output) :=
    match evs with
    | [] => []
    | ev :: r => match step d s ev with Some (o, s1) => Some o :: run_trace d s1 r | None => [None] end
    end.

  Lemma run_state_app d evs1 evs2 : forall s,
    run_state d s (evs1 ++ evs2) = match run_state d s evs1 with Some s1 => run_state d s1 evs2 | None => None end.
  Proof.
    induction evs1 as [|ev r IH]; intros s; [reflexivity|]. cbn [app run_state].
    destruct (step d s ev) as [[o s1]|]; [apply IH|reflexivity].
  Qed.

  (** ** FastTdDataset / TensorDictDatasetFastGeneration under the same histories (used by the correspondence)
      FastTdDataset: the wrappers are ExtraKeyDatasets over the TensorDict; data[idx] is a FRESH TensorDict, nothing is
      shared and nothing stored changes.  FastGeneration: add_key updates the TensorDict in place and returns self --
      every "wrapper" is the dataset object itself. *)
  Definition step_ftd (t : tdT) (ws : list ekT) (ev : event) : option (output * list ekT) :=
    match ev with
    | EWrap key extra =>
        match ek_init (bsz t) extra key with Some e => Some (OWrapped (ek_extra e), ws ++ [e]) | None => None end
    | EWrapPol key polB bb =>
        match rollout K_eqb dV polB FastTd t bb with
        | Some rewards => match ek_init (bsz t) rewards key with Some e => Some (OWrapped (ek_extra e), ws ++ [e]) | None => None end
        | None => None
        end
    | EGet w i =>
        match nth_error ws w with
        | Some e => match ekt_getitem K_eqb dV e t i with Some it => Some (OItem it, ws) | None => None end
        | None => None
        end
    | EPass w b shuffle =>
        match nth_error ws w with
        | Some e => match dataloader (D_ekt K_eqb dV e) t b shuffle with Some (ts, _) => Some (OBatches ts, ws) | None => None end
        | None => None
        end
    | EBasePass b shuffle =>
        match dataloader (D_ftd dV) t b shuffle with Some (ts, _) => Some (OBatches ts, ws) | None => None end
    end.
  Fixpoint trace_ftd (t : tdT) (ws : list ekT) (evs : list event) : list (option output) :=
    match evs with
    | [] => []
    | ev :: r => match step_ftd t ws ev with Some (o, ws1) => Some o :: trace_ftd t ws1 r | None => [None] end
    end.

  Definition step_fg (t : tdT) (ev : event) : option (output * tdT) :=
    match ev with
    | EWrap key extra =>
        match fg_add_key K_eqb t key extra with Some t' => Some (OWrapped extra, t') | None => None end
    | EWrapPol key polB bb =>
        match rollout K_eqb dV polB FastGen t bb with
        | Some rewards => match fg_add_key K_eqb t key rewards with Some t' => Some (OWrapped rewards, t') | None => None end
        | None => None
        end
    | EGet _ _ => None                                      (* the class has no __getitem__ *)
    | EPass _ b shuffle | EBasePass b shuffle =>            (* every handle is the one dataset object *)
        match dataloader (D_fg dV) t b shuffle with Some (ts, _) => Some (OBatches ts, t) | None => None end
    end.
  Fixpoint trace_fg (t : tdT) (evs : list event) : list (option output) :=
    match evs with
    | [] => []
    | ev :: r => match step_fg t ev with Some (o, t1) => Some o :: trace_fg t1 r | None => [None] end
    end.

  Definition trace (c : dcls) (d : discipline) (t : tdT) (evs : list event) : list (option output) :=
    match c with
    | TDD => run_trace d (store_init t) evs
    | FastTd => trace_ftd t [] evs
    | FastGen => trace_fg t evs
    end.

  (** ** invariant of the Assign discipline: every record is its instance, possibly with SOME value under kx *)
  Section Inv.
    Variable t : tdT.
    Variable kx : K.
    Hypothesis Hwf : td_wfb K_eqb t = true.

    Definition item_ok (i : nat) (it : itemT) : Prop :=
      it = row_at dV t i \/ exists v, it = aset K_eqb kx v (row_at dV t i).
    Definition heap_ok (h : heapT) : Prop :=
      length h = bsz t /\ forall i, i < bsz t -> item_ok i (nth i h []).
    Definition wrapper_ok (e : ekT) : Prop :=
      ek_key e = kx /\ ek_len e = bsz t /\ length (ek_extra e) = bsz t.
    Definition store_ok (s : store) : Prop := heap_ok (st_heap s) /\ Forall wrapper_ok (st_wrappers s).
    Definition ev_key_ok (ev : event) : Prop :=
      match ev with EWrap k _ => k = kx | EWrapPol k _ _ => k = kx | _ => True end.

    Lemma heap_ok_init : heap_ok (tdd_init dV t).
    Proof. split; [apply tdd_init_length|]. intros i Hi. left. apply tdd_init_nth. exact Hi. Qed.
    Lemma store_ok_init : store_ok (store_init t).
    Proof. split; [apply heap_ok_init|constructor]. Qed.

    Lemma write_item_ok i it x : item_ok i it -> aset K_eqb kx x it = aset K_eqb kx x (row_at dV t i).
    Proof. intros [-> | [v ->]]; [reflexivity|]. apply aset_aset. exact K_eqb_eq. Qed.

    (* success form: whatever index the read succeeded on *)
    Lemma sk_getitem_ok e h i it h' : heap_ok h -> ek_key e = kx ->
      sk_getitem Assign e h i = Some (it, h') ->
      i < bsz t /\ it = with_extra K_eqb dV kx (ek_extra e) t i /\ heap_ok h'.
    Proof.
      intros [Hlen Hinv] Hk. unfold sk_getitem.
      destruct (nth_error h i) as [it0|] eqn:E1; [|discriminate].
      destruct (nth_error (ek_extra e) i) as [x|] eqn:E2; [|discriminate].
      assert (Hi : i < bsz t). { rewrite <- Hlen. apply nth_error_Some. congruence. }
      pose proof (nth_error_nth h i [] E1) as N1. pose proof (nth_error_nth (ek_extra e) i dV E2) as N2.
      cbv zeta. cbn [dwrite]. rewrite Hk. intros H. inversion H; subst it h'; clear H.
      assert (E : aset K_eqb kx x it0 = with_extra K_eqb dV kx (ek_extra e) t i).
      { unfold with_extra. rewrite N2. apply write_item_ok. rewrite <- N1. apply Hinv. exact Hi. }
      rewrite E. split; [exact Hi|]. split; [reflexivity|]. split.
      - rewrite replace_nth_length. exact Hlen.
      - intros j Hj. rewrite nth_replace_nth by lia. destruct (j =? i) eqn:Eji; [|apply Hinv; exact Hj].
        apply Nat.eqb_eq in Eji. subst j. right. eexists. reflexivity.
    Qed.

    Lemma sk_getitem_ex d e h i : length h = bsz t -> length (ek_extra e) = bsz t -> i < bsz t ->
      exists it h', sk_getitem d e h i = Some (it, h').
    Proof.
      intros Hlen Hex Hi. unfold sk_getitem.
      rewrite (nth_error_nth' h []) by lia. rewrite (nth_error_nth' (ek_extra e) dV) by lia.
      eexists. eexists. reflexivity.
    Qed.

    Lemma sk_getitems_ok e ix : ek_key e = kx -> forall h its h', heap_ok h ->
      sk_getitems Assign e h ix = Some (its, h') ->
      Forall (fun i => i < bsz t) ix /\ its = map (with_extra K_eqb dV kx (ek_extra e) t) ix /\ heap_ok h'.
    Proof.
      intros Hk. induction ix as [|i r IH]; intros h its h' Hh H.
      - cbn in H. inversion H; subst. split; [constructor|]. split; [reflexivity|exact Hh].
      - cbn [sk_getitems] in H. destruct (sk_getitem Assign e h i) as [[it h1]|] eqn:E1; [|discriminate].
        destruct (sk_getitems Assign e h1 r) as [[its1 h2]|] eqn:E2; [|discriminate].
        inversion H; subst its h'; clear H.
        destruct (sk_getitem_ok e h i it h1 Hh Hk E1) as (Hi & -> & Hh1).
        destruct (IH h1 its1 h2 Hh1 E2) as (Hr & -> & Hh2).
        split; [constructor; assumption|]. split; [reflexivity|exact Hh2].
    Qed.

    Lemma sk_getitems_spec e : ek_key e = kx -> length (ek_extra e) = bsz t ->
      forall ix h, heap_ok h -> Forall (fun i => i < bsz t) ix ->
      exists h', sk_getitems Assign e h ix = Some (map (with_extra K_eqb dV kx (ek_extra e) t) ix, h') /\ heap_ok h'.
    Proof.
      intros Hk Hex. induction ix as [|i r IH]; intros h Hh Hix.
      - exists h. split; [reflexivity|exact Hh].
      - inversion Hix as [|? ? Hi Hr]; subst.
        destruct (sk_getitem_ex Assign e h i (proj1 Hh) Hex Hi) as (it & h1 & E1).
        destruct (sk_getitem_ok e h i it h1 Hh Hk E1) as (_ & -> & Hh1).
        destruct (IH h1 Hh1 Hr) as (h2 & E2 & Hh2).
        exists h2. cbn [sk_getitems map]. rewrite E1, E2. split; [reflexivity|exact Hh2].
    Qed.

    Lemma sk_fetch_spec e : ek_key e = kx -> length (ek_extra e) = bsz t ->
      forall h ix, heap_ok h -> ix <> [] -> Forall (fun i => i < bsz t) ix ->
      exists t' h', sk_fetch Assign e h ix = Some (t', h') /\
        rows dV t' = map (with_extra K_eqb dV kx (ek_extra e) t) ix /\ bsz t' = length ix /\ heap_ok h'.
    Proof.
      intros Hk Hex h ix Hh Hne Hix.
      destruct (sk_getitems_spec e Hk Hex ix h Hh Hix) as (h' & E & I).
      destruct (stack_with_extra K_eqb K_eqb_eq dV kx (ek_extra e) t ix Hwf Hne) as (t' & E1 & R1 & B1).
      exists t', h'. unfold sk_fetch. rewrite E, E1. auto.
    Qed.

    Lemma sk_fetch_ok e h ix t' h' : ek_key e = kx -> heap_ok h -> sk_fetch Assign e h ix = Some (t', h') -> heap_ok h'.
    Proof.
      intros Hk Hh. unfold sk_fetch. destruct (sk_getitems Assign e h ix) as [[its h1]|] eqn:E; [|discriminate].
      destruct (collate_stack K_eqb dV its); [|discriminate]. intros H. inversion H; subst.
      apply (sk_getitems_ok e ix Hk h its h' Hh E).
    Qed.

    (* a loader pass that succeeded, whatever its batches were, leaves the invariant *)
    Lemma fetch_all_inv {S} (D : @dsclass K V S) (Inv : S -> Prop) :
      (forall s ix t' s1, Inv s -> ds_fetch D s ix = Some (t', s1) -> Inv s1) ->
      forall bs s ts s', Inv s -> fetch_all D s bs = Some (ts, s') -> Inv s'.
    Proof.
      intros Hf. induction bs as [|ix r IH]; intros s ts s' Hs H.
      - cbn in H. inversion H; subst. exact Hs.
      - cbn [fetch_all] in H. destruct (ds_fetch D s ix) as [[t1 s1]|] eqn:E1; [|discriminate].
        destruct (fetch_all D s1 r) as [[ts1 s2]|] eqn:E2; [|discriminate]. inversion H; subst.
        apply (IH s1 ts1 s' (Hf s ix t1 s1 Hs E1) E2).
    Qed.
    Lemma dataloader_inv {S} (D : @dsclass K V S) (Inv : S -> Prop) :
      (forall s ix t' s1, Inv s -> ds_fetch D s ix = Some (t', s1) -> Inv s1) ->
      forall s b shuffle ts s', Inv s -> dataloader D s b shuffle = Some (ts, s') -> Inv s'.
    Proof.
      intros Hf s b shuffle ts s' Hs. unfold dataloader. destruct (b =? 0); [discriminate|].
      destruct shuffle as [perm|]; [destruct (ds_len D s =? 0); [discriminate|]|];
        apply (fetch_all_inv D Inv Hf); exact Hs.
    Qed.

    (* reading through any wrapper in any reachable state: the loader emits (instance p, THIS wrapper's extra[p]) *)
    Lemma sk_pass_spec e h b shuffle : wrapper_ok e -> heap_ok h -> 1 <= b -> shuffle_ok (bsz t) shuffle ->
      exists ts h', dataloader (D_sk Assign e) h b shuffle = Some (ts, h') /\
        map (rows dV) ts = map (map (with_extra K_eqb dV kx (ek_extra e) t)) (chunks b (order_of (bsz t) shuffle)) /\
        map bsz ts = map (@length nat) (chunks b (order_of (bsz t) shuffle)) /\ heap_ok h'.
    Proof.
      intros (Hk & Hl & Hex) Hh Hb Hsh.
      apply (dataloader_spec dV (D_sk Assign e) heap_ok (with_extra K_eqb dV kx (ek_extra e) t) (bsz t)); try assumption.
      - intros s _. exact Hl.
      - intros s ix Hs Hne Hix. apply (sk_fetch_spec e Hk Hex s ix Hs Hne Hix).
    Qed.

    (** *** one step, a whole history *)
    Lemma new_wrapper_ok s extra o s' : store_ok s -> new_wrapper s extra kx = Some (o, s') ->
      store_ok s' /\ st_heap s' = st_heap s /\ st_wrappers s' = st_wrappers s ++ [mkEK (bsz t) extra kx] /\
      length extra = bsz t.
    Proof.
      intros [Hh Hw]. unfold new_wrapper, ek_init. rewrite (proj1 Hh).
      destruct (bsz t =? length extra) eqn:E; [|discriminate]. apply Nat.eqb_eq in E.
      intros H. inversion H; subst; clear H. cbn [st_heap st_wrappers].
      split; [|auto]. split; [exact Hh|]. apply Forall_app. split; [exact Hw|].
      constructor; [|constructor]. repeat split; cbn [ek_key ek_len ek_extra]; auto.
    Qed.

    Lemma step_ok s ev o s' : store_ok s -> ev_key_ok ev -> step Assign s ev = Some (o, s') ->
      store_ok s' /\ exists l, st_wrappers s' = st_wrappers s ++ l.
    Proof.
      intros Hs Hk. destruct ev as [key extra|key polB bb|w i|w b shuffle|b shuffle]; cbn [step ev_key_ok] in *.
      - subst key. intros H. destruct (new_wrapper_ok s extra o s' Hs H) as (Hs' & _ & Hw & _). split; [exact Hs'|eauto].
      - subst key. destruct (base_rollout polB (st_heap s) bb) as [rewards|]; [|discriminate].
        intros H. destruct (new_wrapper_ok s rewards o s' Hs H) as (Hs' & _ & Hw & _). split; [exact Hs'|eauto].
      - destruct (nth_error (st_wrappers s) w) as [e|] eqn:Ew; [|discriminate].
        destruct (sk_getitem Assign e (st_heap s) i) as [[it h']|] eqn:Eg; [|discriminate].
        intros H. inversion H; subst; clear H. cbn [st_wrappers st_heap].
        destruct Hs as [Hh Hw]. assert (We : wrapper_ok e).
        { rewrite Forall_forall in Hw. apply Hw. eapply nth_error_In. exact Ew. }
        destruct (sk_getitem_ok e (st_heap s) i it h' Hh (proj1 We) Eg) as (_ & _ & Hh').
        split; [split; assumption|]. exists []. rewrite app_nil_r. reflexivity.
      - destruct (nth_error (st_wrappers s) w) as [e|] eqn:Ew; [|discriminate].
        destruct (dataloader (D_sk Assign e) (st_heap s) b shuffle) as [[ts h']|] eqn:Ed; [|discriminate].
        intros H. inversion H; subst; clear H. cbn [st_wrappers st_heap].
        destruct Hs as [Hh Hw]. assert (We : wrapper_ok e).
        { rewrite Forall_forall in Hw. apply Hw. eapply nth_error_In. exact Ew. }
        assert (Hh' : heap_ok h').
        { apply (dataloader_inv (D_sk Assign e) heap_ok) with (s := st_heap s) (b := b) (shuffle := shuffle) (ts := ts);
            [|exact Hh|exact Ed].
          intros s0 ix t1 s1 H0 Hf. cbn [ds_fetch D_sk] in Hf. apply (sk_fetch_ok e s0 ix t1 s1 (proj1 We) H0 Hf). }
        split; [split; assumption|]. exists []. rewrite app_nil_r. reflexivity.
      - destruct (dataloader (D_tdd K_eqb dV) (st_heap s) b shuffle) as [[ts h']|]; [|discriminate].
        intros H. inversion H; subst; clear H. split; [exact Hs|]. exists []. rewrite app_nil_r. reflexivity.
    Qed.

    Lemma run_ok evs : forall s s', store_ok s -> Forall ev_key_ok evs -> run_state Assign s evs = Some s' ->
      store_ok s' /\ exists l, st_wrappers s' = st_wrappers s ++ l.
    Proof.
      induction evs as [|ev r IH]; intros s s' Hs Hk H.
      - cbn in H. inversion H; subst. split; [exact Hs|]. exists []. rewrite app_nil_r. reflexivity.
      - cbn [run_state] in H. destruct (step Assign s ev) as [[o s1]|] eqn:E1; [|discriminate].
        inversion Hk as [|? ? Hk1 Hk2]; subst.
        destruct (step_ok s ev o s1 Hs Hk1 E1) as (Hs1 & l1 & W1).
        destruct (IH s1 s' Hs1 Hk2 H) as (Hs' & l2 & W2).
        split; [exact Hs'|]. exists (l1 ++ l2). rewrite W2, W1, app_assoc. reflexivity.
    Qed.

    (* what a read through wrapper e returns in a state satisfying the invariant *)
    Definition reads_give (e : ekT) (s : store) (val : nat -> V) : Prop :=
      (forall i, i < bsz t -> exists h',
         sk_getitem Assign e (st_heap s) i = Some (row_at dV t i ++ [(kx, val i)], h')) /\
      (forall b shuffle, 1 <= b -> shuffle_ok (bsz t) shuffle -> exists ts h',
         dataloader (D_sk Assign e) (st_heap s) b shuffle = Some (ts, h') /\
         map (rows dV) ts = map (map (fun p => row_at dV t p ++ [(kx, val p)])) (chunks b (order_of (bsz t) shuffle)) /\
         map bsz ts = map (@length nat) (chunks b (order_of (bsz t) shuffle))).

    Lemma with_extra_app extra p : ~ In kx (td_keys t) ->
      with_extra K_eqb dV kx extra t p = row_at dV t p ++ [(kx, nth p extra dV)].
    Proof. intros H. unfold with_extra. apply aset_fresh; [exact K_eqb_eq|]. rewrite row_at_keys. exact H. Qed.

    Lemma reads_give_of_ok e s : ~ In kx (td_keys t) -> store_ok s -> wrapper_ok e ->
      reads_give e s (fun p => nth p (ek_extra e) dV).
    Proof.
      intros Hfresh [Hh _] We. split.
      - intros i Hi. destruct (sk_getitem_ex Assign e (st_heap s) i (proj1 Hh) (proj2 (proj2 We)) Hi) as (it & h' & E).
        destruct (sk_getitem_ok e (st_heap s) i it h' Hh (proj1 We) E) as (_ & -> & _).
        exists h'. rewrite E, with_extra_app by exact Hfresh. reflexivity.
      - intros b shuffle Hb Hsh. destruct (sk_pass_spec e (st_heap s) b shuffle We Hh Hb Hsh) as (ts & h' & E & R & B & _).
        exists ts, h'. split; [exact E|]. split; [|exact B]. rewrite R.
        apply map_ext. intros c. apply map_ext. intros p. apply with_extra_app. exact Hfresh.
    Qed.

    (** *** the theorem: any history before, any history after *)
    Theorem store_assign_history pre extra post s0 s :
      ~ In kx (td_keys t) -> Forall ev_key_ok pre -> Forall ev_key_ok post ->
      run_state Assign (store_init t) pre = Some s0 ->
      run_state Assign s0 (EWrap kx extra :: post) = Some s ->
      exists e, nth_error (st_wrappers s) (length (st_wrappers s0)) = Some e /\ ek_extra e = extra /\
                reads_give e s (fun p => nth p extra dV).
    Proof.
      intros Hfresh Hpre Hpost R0 R1.
      destruct (run_ok pre _ _ store_ok_init Hpre R0) as (Hs0 & _).
      cbn [run_state step] in R1. destruct (new_wrapper s0 extra kx) as [[o s1]|] eqn:En; [|discriminate].
      destruct (new_wrapper_ok s0 extra o s1 Hs0 En) as (Hs1 & _ & W1 & Hlen).
      destruct (run_ok post _ _ Hs1 Hpost R1) as (Hs & l & W).
      set (e := mkEK (bsz t) extra kx) in *.
      assert (Ee : nth_error (st_wrappers s) (length (st_wrappers s0)) = Some e).
      { rewrite W, W1, <- app_assoc. rewrite nth_error_app2 by lia. rewrite Nat.sub_diag. reflexivity. }
      exists e. split; [exact Ee|]. split; [reflexivity|].
      apply (reads_give_of_ok e s Hfresh Hs). repeat split; cbn [ek_key ek_len ek_extra e]; auto.
    Qed.

    (** *** wrappers made by a baseline rollout over the base dataset in whatever state it is *)
    Section RolloutWrap.
      Variable polB : tdT -> list V.
      Variable pol : itemT -> V.
      Hypothesis polB_rowwise : forall t', polB t' = map pol (rows dV t').
      (* the policy does not look at the extra key (env.reset builds the state from the instance fields) *)
      Hypothesis pol_ignores_kx : forall it v, pol (aset K_eqb kx v it) = pol it.
      Hypothesis Hfresh : ~ In kx (td_keys t).

      Lemma collate_stack_rows it0 r t' : collate_stack K_eqb dV (it0 :: r) = Some t' ->
        Forall (fun it => has_keys K_eqb (map fst it0) it = true) (it0 :: r) /\
        rows dV t' = map (fun it => map (fun k => (k, getd K_eqb dV k it)) (map fst it0)) (it0 :: r).
      Proof.
        unfold collate_stack. destruct (forallb (has_keys K_eqb (map fst it0)) (it0 :: r)) eqn:E; [|discriminate].
        intros H. inversion H; subst; clear H. split.
        - apply Forall_forall. rewrite forallb_forall in E. exact E.
        - unfold rows. cbn [bsz].
          set (F := fun it : itemT => map (fun k => (k, getd K_eqb dV k it)) (map fst it0)).
          transitivity (map (fun j => F (nth j (it0 :: r) [])) (seq 0 (length (it0 :: r))));
            [|rewrite <- (map_map (fun j => nth j (it0 :: r) []) F), map_nth_seq; reflexivity].
          apply map_ext_in. intros j Hj. apply in_seq in Hj.
          unfold row_at. cbn [cols]. rewrite map_map. cbn [fst snd]. unfold F.
          apply map_ext. intros k. f_equal.
          refine (nth_map_in (getd K_eqb dV k) (it0 :: r) j dV [] _). lia.
      Qed.

      Lemma rebuild_row p : map (fun k => (k, getd K_eqb dV k (row_at dV t p))) (td_keys t) = row_at dV t p.
      Proof.
        rewrite <- (row_at_keys dV t p) at 1. apply (item_rebuild K_eqb K_eqb_eq).
        rewrite row_at_keys. apply (td_wfb_NoDup K_eqb K_eqb_eq). exact Hwf.
      Qed.
      Lemma getd_aset_other k v (it : itemT) : k <> kx -> getd K_eqb dV k (aset K_eqb kx v it) = getd K_eqb dV k it.
      Proof. intros H. unfold getd. rewrite alookup_aset_other by (try exact K_eqb_eq; congruence). reflexivity. Qed.
      Lemma rebuild_row_extra p v :
        map (fun k => (k, getd K_eqb dV k (aset K_eqb kx v (row_at dV t p)))) (td_keys t) = row_at dV t p.
      Proof.
        transitivity (map (fun k => (k, getd K_eqb dV k (row_at dV t p))) (td_keys t)); [|apply rebuild_row].
        apply map_ext_in. intros k Hk. f_equal.
        apply getd_aset_other. intros ->. contradiction.
      Qed.
      Lemma extra_keys p v : map fst (aset K_eqb kx v (row_at dV t p)) = td_keys t ++ [kx].
      Proof.
        rewrite aset_keys, row_at_keys.
        destruct (memk K_eqb kx (td_keys t)) eqn:E; [|reflexivity].
        exfalso. apply Hfresh. apply (memk_In K_eqb K_eqb_eq). exact E.
      Qed.

      (* the stacked batch of records in mixed states: each emitted row is its instance, with or without a value
         under kx -- the policy value is that of the instance *)
      Lemma collate_mixed_pol h ix t' : heap_ok h -> Forall (fun i => i < bsz t) ix ->
        collate_stack K_eqb dV (map (fun i => nth i h []) ix) = Some t' ->
        polB t' = map (fun p => pol (row_at dV t p)) ix.
      Proof.
        intros [Hlen Hinv] Hix H. rewrite polB_rowwise.
        destruct ix as [|i0 r]; [cbn in H; discriminate|]. cbn [map] in H.
        destruct (collate_stack_rows _ _ _ H) as [Hk R]. rewrite R.
        change (nth i0 h [] :: map (fun i => nth i h []) r) with (map (fun i => nth i h []) (i0 :: r)) in *.
        rewrite !map_map. apply map_ext_in. intros p Hp.
        rewrite Forall_forall in Hix. pose proof (Hix p Hp) as Hpn.
        assert (Hi0 : i0 < bsz t) by (apply Hix; left; reflexivity).
        rewrite Forall_forall in Hk.
        assert (Hkp : has_keys K_eqb (map fst (nth i0 h [])) (nth p h []) = true).
        { apply Hk. apply in_map_iff. exists p. split; [reflexivity|exact Hp]. }
        destruct (Hinv i0 Hi0) as [E0 | [v0 E0]]; rewrite E0 in *.
        - (* the first record has no extra: the key is dropped from every row *)
          rewrite row_at_keys. destruct (Hinv p Hpn) as [-> | [v ->]].
          + rewrite rebuild_row. reflexivity.
          + rewrite rebuild_row_extra. reflexivity.
        - (* the first record has one: every record of the batch must have one *)
          rewrite extra_keys in *. destruct (Hinv p Hpn) as [Ep | [v Ep]]; rewrite Ep in *.
          + exfalso. unfold has_keys in Hkp. rewrite forallb_forall in Hkp.
            assert (Hin : In kx (td_keys t ++ [kx])) by (apply in_or_app; right; left; reflexivity).
            specialize (Hkp kx Hin).
            rewrite (alookup_notin K_eqb K_eqb_eq) in Hkp by (rewrite row_at_keys; exact Hfresh). discriminate.
          + rewrite <- (extra_keys p v). rewrite (item_rebuild K_eqb K_eqb_eq).
            * apply pol_ignores_kx.
            * rewrite extra_keys. apply (Permutation_NoDup (Permutation_cons_append (td_keys t) kx)).
              constructor; [exact Hfresh|]. apply (td_wfb_NoDup K_eqb K_eqb_eq). exact Hwf.
      Qed.

      Lemma opt_all_nth_error_inv (h : heapT) ix : forall items,
        opt_all (map (nth_error h) ix) = Some items ->
        Forall (fun i => i < length h) ix /\ items = map (fun i => nth i h []) ix.
      Proof.
        induction ix as [|i r IH]; intros items H.
        - cbn in H. inversion H; subst. split; [constructor|reflexivity].
        - cbn [map opt_all] in H. destruct (nth_error h i) as [it|] eqn:E1; [|discriminate].
          destruct (opt_all (map (nth_error h) r)) as [its|] eqn:E2; [|discriminate]. inversion H; subst.
          destruct (IH its eq_refl) as [Hr ->]. split.
          + constructor; [apply nth_error_Some; congruence|exact Hr].
          + cbn [map]. f_equal. symmetry. apply nth_error_nth. exact E1.
      Qed.

      Lemma fetch_all_tdd_pol bs : forall h ts h', heap_ok h ->
        fetch_all (D_tdd K_eqb dV) h bs = Some (ts, h') ->
        map polB ts = map (map (fun p => pol (row_at dV t p))) bs.
      Proof.
        induction bs as [|ix r IH]; intros h ts h' Hh H.
        - cbn in H. inversion H; subst. reflexivity.
        - cbn [fetch_all] in H. cbn [ds_fetch D_tdd] in H. unfold tdd_fetch in H.
          destruct (opt_all (map (nth_error h) ix)) as [items|] eqn:E1; [|discriminate].
          destruct (collate_stack K_eqb dV items) as [t1|] eqn:E2; [|discriminate].
          destruct (fetch_all (D_tdd K_eqb dV) h r) as [[ts1 h2]|] eqn:E3; [|discriminate].
          inversion H; subst; clear H.
          destruct (opt_all_nth_error_inv h ix items E1) as [Hix ->]. rewrite (proj1 Hh) in Hix.
          cbn [map]. rewrite (collate_mixed_pol h ix t1 Hh Hix E2). f_equal. apply (IH h ts1 h' Hh E3).
      Qed.

      (* whatever the records carry, the rollout over the base dataset gives pol(instance i) at position i *)
      Lemma base_rollout_aligned h bb rewards : heap_ok h -> base_rollout polB h bb = Some rewards ->
        rewards = map pol (rows dV t).
      Proof.
        intros Hh. unfold base_rollout, dataloader. destruct (bb =? 0) eqn:Eb; [discriminate|].
        apply Nat.eqb_neq in Eb. cbn [ds_len D_tdd]. rewrite (proj1 Hh).
        destruct (fetch_all (D_tdd K_eqb dV) h (chunks bb (seq 0 (bsz t)))) as [[ts h']|] eqn:E; [|discriminate].
        destruct ts as [|t0 ts]; [discriminate|]. intros H.
        assert (Hr : rewards = concat (map polB (t0 :: ts))) by congruence. rewrite Hr. clear H Hr.
        rewrite (fetch_all_tdd_pol _ h (t0 :: ts) h' Hh E).
        rewrite <- concat_map, chunks_concat by lia. unfold rows. rewrite map_map. reflexivity.
      Qed.

      Theorem store_assign_rollout_history pre bb post s0 s :
        Forall ev_key_ok pre -> Forall ev_key_ok post ->
        run_state Assign (store_init t) pre = Some s0 ->
        run_state Assign s0 (EWrapPol kx polB bb :: post) = Some s ->
        exists e, nth_error (st_wrappers s) (length (st_wrappers s0)) = Some e /\
                  ek_extra e = map pol (rows dV t) /\
                  reads_give e s (fun p => pol (row_at dV t p)).
      Proof.
        intros Hpre Hpost R0 R1.
        destruct (run_ok pre _ _ store_ok_init Hpre R0) as (Hs0 & _).
        cbn [run_state step] in R1.
        destruct (base_rollout polB (st_heap s0) bb) as [rewards|] eqn:Er; [|discriminate].
        pose proof (base_rollout_aligned _ _ _ (proj1 Hs0) Er) as ->.
        destruct (new_wrapper s0 (map pol (rows dV t)) kx) as [[o s1]|] eqn:En; [|discriminate].
        destruct (new_wrapper_ok s0 _ o s1 Hs0 En) as (Hs1 & _ & W1 & Hlen).
        destruct (run_ok post _ _ Hs1 Hpost R1) as (Hs & l & W).
        set (e := mkEK (bsz t) (map pol (rows dV t)) kx) in *.
        assert (Ee : nth_error (st_wrappers s) (length (st_wrappers s0)) = Some e).
        { rewrite W, W1, <- app_assoc. rewrite nth_error_app2 by lia. rewrite Nat.sub_diag. reflexivity. }
        exists e. split; [exact Ee|]. split; [reflexivity|].
        assert (G : reads_give e s (fun p => nth p (ek_extra e) dV)).
        { apply (reads_give_of_ok e s Hfresh Hs). repeat split; cbn [ek_key ek_len ek_extra e]; auto. }
        assert (Hv : forall p, p < bsz t -> nth p (ek_extra e) dV = pol (row_at dV t p)).
        { intros p Hp. cbn [ek_extra e].
          rewrite (nth_map_in pol (rows dV t) p dV []) by (rewrite rows_length; exact Hp).
          unfold rows. rewrite nth_map_seq by exact Hp. reflexivity. }
        destruct G as [G1 G2]. split.
        - intros i Hi. destruct (G1 i Hi) as (h' & E). exists h'. rewrite E, (Hv i Hi). reflexivity.
        - intros b shuffle Hb Hsh. destruct (G2 b shuffle Hb Hsh) as (ts & h' & E & R & B).
          exists ts, h'. split; [exact E|]. split; [|exact B]. rewrite R.
          pose proof (order_in_range (bsz t) shuffle Hsh) as Hr.
          pose proof (chunks_Forall b _ _ Hb Hr) as Hc.
          clear - Hc Hv. induction Hc as [|c cs Hc1 _ IH]; [reflexivity|]. cbn [map]. rewrite IH. f_equal.
          apply map_ext_in. intros p Hp. rewrite Forall_forall in Hc1. rewrite (Hv p (Hc1 p Hp)). reflexivity.
      Qed.
    End RolloutWrap.
  End Inv.

  (* a history whose events are in range never raises under Assign: the hypotheses "run_state ... = Some _" above are
     satisfiable for every sequence of wrappings with right-length extras and reads with valid arguments *)
  Definition ev_okb (n nw : nat) (ev : event) : bool :=
    match ev with
    | EWrap _ extra => length extra =? n
    | EWrapPol _ _ _ => false                                     (* not covered by this lemma *)
    | EGet w i => (w <? nw) && (i <? n)
    | EPass w b shuffle => (w <? nw) && (1 <=? b) &&
                           match shuffle with None => true | Some perm => is_permb perm n && (1 <=? n) end
    | EBasePass _ _ => false
    end.
  Definition nwraps (ev : event) : nat := match ev with EWrap _ _ => 1 | EWrapPol _ _ _ => 1 | _ => 0 end.
  Fixpoint hist_okb (n nw : nat) (evs : list event) : bool :=
    match evs with [] => true | ev :: r => ev_okb n nw ev && hist_okb n (nw + nwraps ev) r end.

  Lemma run_total t kx : td_wfb K_eqb t = true -> forall evs s,
    store_ok t kx s -> Forall (ev_key_ok kx) evs -> hist_okb (bsz t) (length (st_wrappers s)) evs = true ->
    exists s', run_state Assign s evs = Some s'.
  Proof.
    intros Hwf. induction evs as [|ev r IH]; intros s Hs Hk Hok; [eexists; reflexivity|].
    cbn [hist_okb] in Hok. apply andb_prop in Hok as [Hev Hr]. inversion Hk as [|? ? Hk1 Hk2]; subst.
    assert (E : exists o s1, step Assign s ev = Some (o, s1) /\ length (st_wrappers s1) = length (st_wrappers s) + nwraps ev).
    { destruct ev as [key extra|key polB bb|w i|w b shuffle|b shuffle]; cbn [ev_okb nwraps] in *; try discriminate.
      - apply Nat.eqb_eq in Hev. cbn [step]. unfold new_wrapper, ek_init. rewrite (proj1 (proj1 Hs)).
        replace (bsz t =? length extra) with true by (symmetry; apply Nat.eqb_eq; lia).
        do 2 eexists. split; [reflexivity|]. cbn [st_wrappers]. rewrite app_length. reflexivity.
      - apply andb_prop in Hev as [Hw Hi]. apply Nat.ltb_lt in Hw, Hi. cbn [step].
        destruct (nth_error (st_wrappers s) w) as [e|] eqn:Ew; [|apply nth_error_None in Ew; lia].
        assert (We : wrapper_ok t kx e).
        { destruct Hs as [_ Hws]. rewrite Forall_forall in Hws. apply Hws. eapply nth_error_In. exact Ew. }
        destruct (sk_getitem_ex t Assign e (st_heap s) i (proj1 (proj1 Hs)) (proj2 (proj2 We)) Hi) as (it & h' & ->).
        do 2 eexists. split; [reflexivity|]. cbn [st_wrappers]. lia.
      - apply andb_prop in Hev as [Hev Hsh]. apply andb_prop in Hev as [Hw Hb].
        apply Nat.ltb_lt in Hw. apply Nat.leb_le in Hb. cbn [step].
        destruct (nth_error (st_wrappers s) w) as [e|] eqn:Ew; [|apply nth_error_None in Ew; lia].
        assert (We : wrapper_ok t kx e).
        { destruct Hs as [_ Hws]. rewrite Forall_forall in Hws. apply Hws. eapply nth_error_In. exact Ew. }
        assert (Hsok : shuffle_ok (bsz t) shuffle).
        { destruct shuffle as [perm|]; [|exact I]. apply andb_prop in Hsh as [Hp Hn]. apply Nat.leb_le in Hn.
          split; [apply is_permb_sound; exact Hp|exact Hn]. }
        destruct (sk_pass_spec t kx Hwf e (st_heap s) b shuffle We (proj1 Hs) Hb Hsok) as (ts & h' & -> & _).
        do 2 eexists. split; [reflexivity|]. cbn [st_wrappers]. lia. }
    destruct E as (o & s1 & E1 & L1). cbn [run_state]. rewrite E1.
    destruct (step_ok t kx s ev o s1 Hs Hk1 E1) as (Hs1 & _).
    apply (IH s1 Hs1 Hk2). rewrite L1. exact Hr.
  Qed.
  Corollary run_total_init t kx evs : td_wfb K_eqb t = true ->
    Forall (ev_key_ok kx) evs -> hist_okb (bsz t) 0 evs = true ->
    exists s', run_state Assign (store_init t) evs = Some s'.
  Proof. intros Hwf Hk Hok. apply (run_total t kx Hwf evs (store_init t) (store_ok_init t kx) Hk Hok). Qed.
End Store.

Arguments asetdefault {K} K_eqb {X} k x l.
Arguments EWrap {K V} key extra.
Arguments EWrapPol {K V} key polB bb.
Arguments EGet {K V} w i.
Arguments EPass {K V} w b shuffle.
Arguments EBasePass {K V} b shuffle.
Arguments OWrapped {K V} extra.
Arguments OItem {K V} it.
Arguments OBatches {K V} ts.

(* ------------------------------------------------------------------------------------------------ *)
(** * Concrete histories: non-vacuity of the theorems, and the refutation of the setdefault discipline *)
Definition ex_extra2 : list nat := [90; 91; 92; 93; 94].
Definition ex_extra3 : list nat := [50; 51; 52; 53; 54].
(* a row-wise policy that only looks at the instance fields 0 and 1 *)
Definition ex_pol2 (it : @item nat nat) : nat := getd Nat.eqb 0 0 it + getd Nat.eqb 0 1 it.
Definition ex_polB2 (t : @td nat nat) : list nat := map ex_pol2 (rows 0 t).
Definition ex_pol3 (it : @item nat nat) : nat := 2 * getd Nat.eqb 0 0 it.
Definition ex_polB3 (t : @td nat nat) : list nat := map ex_pol3 (rows 0 t).

(* wrap, a full epoch (b = 2, last batch partial), a partial shuffled pass, wrap again with other extras, read one
   item through the OLD wrapper, wrap a third time, a shuffled epoch through the second wrapper, single reads through
   the third and the first *)
Definition ex_pre : list (@event nat nat) :=
  [EWrap 9 ex_extra; EPass 0 2 None; EGet 0 3].
Definition ex_post : list (@event nat nat) :=
  [EGet 0 1; EWrap 9 ex_extra3; EPass 1 3 (Some ex_perm); EGet 2 0; EGet 2 3; EGet 0 4].

Example ex_history_hyps :
  ~ In 9 (td_keys ex_td) /\ Forall (ev_key_ok 9) ex_pre /\ Forall (ev_key_ok 9) ex_post /\
  hist_okb (bsz ex_td) 0 (ex_pre ++ EWrap 9 ex_extra2 :: ex_post) = true.
Proof.
  split; [cbn; intuition discriminate|]. split; [repeat constructor|]. split; [repeat constructor|]. reflexivity.
Qed.

(* store_assign_history on it: the wrapper made in the middle (index 1) emits ITS extras after everything else *)
Example ex_store_assign :
  exists s0 s e ts h',
    run_state Nat.eqb 0 Assign (store_init 0 ex_td) ex_pre = Some s0 /\
    run_state Nat.eqb 0 Assign s0 (EWrap 9 ex_extra2 :: ex_post) = Some s /\
    length (st_wrappers s0) = 1 /\ nth_error (st_wrappers s) 1 = Some e /\
    dataloader (D_sk Nat.eqb 0 Assign e) (st_heap s) 5 None = Some (ts, h') /\
    ts = [mkTD 5 [(0, [10; 11; 12; 13; 14]); (1, [20; 21; 22; 23; 24]); (9, ex_extra2)]].
Proof. do 5 eexists. repeat split; reflexivity. Qed.

(* the records themselves after that history carry a mixture of the three wrappers' values: what is read depends
   only on the wrapper read through, never on that mixture *)
Example ex_store_mixed_records :
  exists s, run_state Nat.eqb 0 Assign (store_init 0 ex_td) (ex_pre ++ EWrap 9 ex_extra2 :: ex_post) = Some s /\
    map (getd Nat.eqb 0 9) (st_heap s) = [50; 91; 92; 53; 74].
Proof. eexists. split; reflexivity. Qed.

(* the setdefault discipline: wrap, one epoch, wrap again with other extras -- the second wrapper holds the new
   extras but the loader emits the FIRST wrapper's values for every instance the first epoch touched *)
Theorem setdefault_refuted :
  exists (pre post : list (@event nat nat)) (s0 s : store) (e : ekds) (ts : list td) (h' : heap),
    td_wfb Nat.eqb ex_td = true /\ ~ In 9 (td_keys ex_td) /\
    Forall (ev_key_ok 9) pre /\ Forall (ev_key_ok 9) post /\
    run_state Nat.eqb 0 SetDefault (store_init 0 ex_td) pre = Some s0 /\
    run_state Nat.eqb 0 SetDefault s0 (EWrap 9 ex_extra2 :: post) = Some s /\
    nth_error (st_wrappers s) (length (st_wrappers s0)) = Some e /\ ek_extra e = ex_extra2 /\
    dataloader (D_sk Nat.eqb 0 SetDefault e) (st_heap s) 5 None = Some (ts, h') /\
    ts = [mkTD 5 [(0, [10; 11; 12; 13; 14]); (1, [20; 21; 22; 23; 24]); (9, ex_extra)]] /\
    map (rows 0) ts <> map (map (fun p => row_at 0 ex_td p ++ [(9, nth p ex_extra2 0)])) (chunks 5 (seq 0 5)).
Proof.
  exists [EWrap 9 ex_extra; EPass 0 2 None], []. do 5 eexists.
  split; [reflexivity|]. split; [cbn; intuition discriminate|]. split; [repeat constructor|]. split; [constructor|].
  split; [vm_compute; reflexivity|]. split; [vm_compute; reflexivity|]. split; [vm_compute; reflexivity|].
  split; [reflexivity|]. split; [vm_compute; reflexivity|]. split; [reflexivity|]. vm_compute. discriminate.
Qed.

(* the same history under Assign emits the second wrapper's extras *)
Example assign_same_history :
  option_map (fun s => option_map fst (dataloader (D_sk Nat.eqb 0 Assign (mkEK 5 ex_extra2 9)) (st_heap s) 5 None))
    (run_state Nat.eqb 0 Assign (store_init 0 ex_td) [EWrap 9 ex_extra; EPass 0 2 None; EWrap 9 ex_extra2])
  = Some (Some [mkTD 5 [(0, [10; 11; 12; 13; 14]); (1, [20; 21; 22; 23; 24]); (9, ex_extra2)]]).
Proof. reflexivity. Qed.

(* store_assign_rollout_history: two baseline policies; the records carry policy 2's values when policy 3's
   rollout reads the base dataset (the stacked batches then have the extra column) -- the hypotheses hold of
   ex_pol2 / ex_pol3 and the second wrapper emits policy 3's value of each instance *)
Example ex_pol_hyps :
  (forall t', ex_polB2 t' = map ex_pol2 (rows 0 t')) /\ (forall t', ex_polB3 t' = map ex_pol3 (rows 0 t')) /\
  (forall it v, ex_pol2 (aset Nat.eqb 9 v it) = ex_pol2 it) /\ (forall it v, ex_pol3 (aset Nat.eqb 9 v it) = ex_pol3 it).
Proof.
  assert (G : forall k it v, k <> 9 -> getd Nat.eqb 0 k (aset Nat.eqb 9 v it) = getd Nat.eqb 0 k it).
  { intros k it v Hk. unfold getd. rewrite (alookup_aset_other Nat.eqb Nat.eqb_eq) by congruence. reflexivity. }
  repeat split; try reflexivity; intros it v; unfold ex_pol2, ex_pol3; rewrite ?G by discriminate; reflexivity.
Qed.
Example ex_store_rollout :
  exists s e ts h',
    run_state Nat.eqb 0 Assign (store_init 0 ex_td)
      [EWrapPol 9 ex_polB2 2; EPass 0 3 (Some ex_perm); EWrapPol 9 ex_polB3 2; EGet 0 0] = Some s /\
    nth_error (st_wrappers s) 1 = Some e /\ ek_extra e = [20; 22; 24; 26; 28] /\
    dataloader (D_sk Nat.eqb 0 Assign e) (st_heap s) 2 (Some ex_perm) = Some (ts, h') /\
    ts = [mkTD 2 [(0, [13; 10]); (1, [23; 20]); (9, [26; 20])]; mkTD 2 [(0, [14; 11]); (1, [24; 21]); (9, [28; 22])];
          mkTD 1 [(0, [12]); (1, [22]); (9, [24])]].
Proof. do 4 eexists. repeat split; reflexivity. Qed.

(** ** Observation (outside the property): the records of the BASE dataset are written by every read through a
    wrapper.  After wrap / epoch / re-wrap / epoch a loader over the base dataset emits an extra column holding the
    latest reader's values; after a PARTIAL pass a baseline rollout over the base dataset (what wrap_dataset does)
    meets a batch whose first record has the key and a later one has not: KeyError. *)
Lemma base_dataset_sees_latest_reader_observation_outside_property :
  run_trace Nat.eqb 0 Assign (store_init 0 ex_td)
    [EWrap 9 ex_extra; EPass 0 2 None; EWrap 9 ex_extra2; EPass 1 3 None; EBasePass 5 None; EGet 0 2; EBasePass 5 None]
  = [Some (OWrapped ex_extra);
     Some (OBatches [mkTD 2 [(0, [10; 11]); (1, [20; 21]); (9, [70; 71])]; mkTD 2 [(0, [12; 13]); (1, [22; 23]); (9, [72; 73])];
                     mkTD 1 [(0, [14]); (1, [24]); (9, [74])]]);
     Some (OWrapped ex_extra2);
     Some (OBatches [mkTD 3 [(0, [10; 11; 12]); (1, [20; 21; 22]); (9, [90; 91; 92])]; mkTD 2 [(0, [13; 14]); (1, [23; 24]); (9, [93; 94])]]);
     Some (OBatches [mkTD 5 [(0, [10; 11; 12; 13; 14]); (1, [20; 21; 22; 23; 24]); (9, ex_extra2)]]);
     Some (OItem [(0, 12); (1, 22); (9, 72)]);
     Some (OBatches [mkTD 5 [(0, [10; 11; 12; 13; 14]); (1, [20; 21; 22; 23; 24]); (9, [90; 91; 72; 93; 94])]])].
Proof. reflexivity. Qed.
Lemma rewrap_after_partial_pass_raises_observation_outside_property :
  run_trace Nat.eqb 0 Assign (store_init 0 ex_td) [EWrapPol 9 ex_polB2 2; EGet 0 0; EWrapPol 9 ex_polB3 2]
  = [Some (OWrapped [30; 32; 34; 36; 38]); Some (OItem [(0, 10); (1, 20); (9, 30)]); None].
Proof. reflexivity. Qed.
