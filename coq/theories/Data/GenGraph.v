(* Graph generators (rl4co/envs/graph/{mcp,flp}/generator.py): post-processing of the raw draws, one batch row,
   and what it guarantees -- stated with the predicates the selection-environment theorems (C08) assume:
   Env/MCP.v [mcp_wfb] (quota >= 1, item ids in 0..n_items), Env/FLP.v [flp_wfb] (n x n matrix, quota >= 1).

   MCPGenerator._generate:
     weights    = clamp(floor(weight_sampler.sample()), min_weight, max_weight)
     set_sizes  = clamp(floor(size_sampler.sample()).long(), min_size, max_size)
     membership = randint(1, num_items + 1, (num_sets, self.max_size)) * (arange(self.max_size) < set_sizes)   0 = no item
                  (the draw always has the documented width max_size -- repaired code, repo commit 78ab0ce; before it
                   the width was the largest set size of the batch and the product raised when that was < max_size)
     membership = remove_repeat(membership)
   remove_repeat(x):  y, indices = x.sort(-1);  y[1:] *= (y[1:] - y[:-1]) != 0;  gather(y, -1, indices.sort(-1)[1])
   The sorting permutation [perm] (y[k] = x[perm[k]]) is an input of the model: which of several equal items
   survives depends on it, nothing else does. *)
From Coq Require Import ZArith QArith Qround List Bool Lia ZifyBool Arith.
From RL4CO Require Import Base.Num Env.Selection Env.MCP Env.FLP.
Import ListNotations.
Open Scope Z_scope.

Definition clampZ (lo hi x : Z) : Z := Z.max lo (Z.min hi x).
Definition mcp_weight (minw maxw : Z) (u : Q) : Z := clampZ minw maxw (Qfloor u).
Definition mcp_size (mins maxs : Z) (u : Q) : Z := clampZ mins maxs (Qfloor u).

(* randint row times the cut-off mask *)
Definition mcp_cut (size : Z) (raw : list Z) : list Z :=
  map (fun px => if Z.of_nat (fst px) <? size then snd px else 0) (combine (seq 0 (length raw)) raw).
(* y[1:] *= (y[1:] - y[:-1]) != 0   (right-hand side read before the in-place product) *)
Definition zero_repeats (y : list Z) : list Z :=
  match y with
  | [] => []
  | h :: t => h :: map (fun pc => if snd pc - fst pc =? 0 then 0 else snd pc) (combine y t)
  end.
(* position of p in perm = indices.sort()[1][p] for a permutation *)
Fixpoint index_of (p : nat) (perm : list nat) : nat :=
  match perm with [] => O | k :: r => if Nat.eqb k p then O else S (index_of p r) end.
Definition remove_repeat (perm : list nat) (x : list Z) : list Z :=
  let y := map (fun k => nth k x 0) perm in
  let y' := zero_repeats y in
  map (fun p => nth (index_of p perm) y' 0) (seq 0 (length x)).

Definition gen_mcp (minw maxw mins maxs : Z) (wu su : list Q) (raw : list (list Z)) (perms : list (list nat)) (q : Z) : mcp_inst :=
  {| m_mem := map (fun k => remove_repeat (nth k perms []) (mcp_cut (mcp_size mins maxs (nth k su 0%Q)) (nth k raw [])))
                  (seq 0 (length raw));
     m_w := map (mcp_weight minw maxw) wu;
     m_q := q |}.

Lemma zero_repeats_In y v : In v (zero_repeats y) -> v = 0 \/ In v y.
Proof.
  destruct y as [|h t]; cbn [zero_repeats]; [intros []|]. intros [<-|H]; [right; left; reflexivity|].
  apply in_map_iff in H as [[a b] [E Hin]]. cbn [fst snd] in E.
  destruct (b - a =? 0); [left; symmetry; exact E|]. right. right. subst v. eapply in_combine_r. exact Hin.
Qed.
Lemma nth_In_or_default {A} (l : list A) k d : nth k l d = d \/ In (nth k l d) l.
Proof. destruct (Nat.lt_ge_cases k (length l)) as [H|H]; [right; apply nth_In; exact H|left; apply nth_overflow; exact H]. Qed.

Lemma remove_repeat_In perm x v : In v (remove_repeat perm x) -> v = 0 \/ In v x.
Proof.
  unfold remove_repeat. intros H. apply in_map_iff in H as [p [E _]]. subst v.
  destruct (nth_In_or_default (zero_repeats (map (fun k => nth k x 0) perm)) (index_of p perm) 0) as [H|H]; [left; exact H|].
  apply zero_repeats_In in H as [H|H]; [left; exact H|].
  apply in_map_iff in H as [k [E _]]. rewrite <- E.
  destruct (nth_In_or_default x k 0) as [H'|H']; [left; exact H'|right; exact H'].
Qed.
Lemma remove_repeat_length perm x : length (remove_repeat perm x) = length x.
Proof. unfold remove_repeat. rewrite map_length, seq_length. reflexivity. Qed.
Lemma mcp_cut_In size raw v : In v (mcp_cut size raw) -> v = 0 \/ In v raw.
Proof.
  unfold mcp_cut. intros H. apply in_map_iff in H as [[p x] [E Hin]]. cbn [fst snd] in E.
  destruct (Z.of_nat p <? size); [right; subst v; eapply in_combine_r; exact Hin|left; symmetry; exact E].
Qed.

(* for every number of sets and items, any sorting permutations, any size draws: item ids stay in 0..n_items, the
   quota is the configured one; weights are integers inside [min_weight, max_weight] *)
Theorem gen_mcp_wf : forall (n_items : nat) (minw maxw mins maxs : Z) (wu su : list Q) (raw : list (list Z))
                            (perms : list (list nat)) (q : Z),
  length wu = n_items -> minw <= maxw ->
  (forall row x, In row raw -> In x row -> 1 <= x <= Z.of_nat n_items) ->
  1 <= q <= Z.of_nat (length raw) ->
  let I := gen_mcp minw maxw mins maxs wu su raw perms q in
  mcp_wfb I = true /\ m_q I <= Z.of_nat (length (m_mem I)) /\ length (m_w I) = n_items /\
  (forall w, In w (m_w I) -> minw <= w <= maxw) /\
  (forall k, (k < length raw)%nat -> length (nth k (m_mem I) []) = length (nth k raw [])).
Proof.
  intros n_items minw maxw mins maxs wu su raw perms q Hwu Hw Hraw Hq I.
  assert (HLw : length (m_w I) = n_items) by (unfold I, gen_mcp; cbn [m_w]; rewrite map_length; exact Hwu).
  assert (HLm : length (m_mem I) = length raw) by (unfold I, gen_mcp; cbn [m_mem]; rewrite map_length, seq_length; reflexivity).
  split; [|split; [rewrite HLm; unfold I, gen_mcp; cbn [m_q]; lia|split; [exact HLw|split]]].
  - unfold mcp_wfb. apply andb_true_intro. split; [apply Z.leb_le; unfold I, gen_mcp; cbn [m_q]; lia|].
    unfold rows_in_rangeb. rewrite HLw. apply forallb_forall. intros row Hrow.
    unfold I, gen_mcp in Hrow. cbn [m_mem] in Hrow. apply in_map_iff in Hrow as [k [<- Hk]]. apply in_seq in Hk.
    apply forallb_forall. intros v Hv.
    apply remove_repeat_In in Hv as [->|Hv]; [apply andb_true_intro; split; [reflexivity|apply Z.leb_le; lia]|].
    apply mcp_cut_In in Hv as [->|Hv]; [apply andb_true_intro; split; [reflexivity|apply Z.leb_le; lia]|].
    assert (Hk' : (k < length raw)%nat) by lia.
    pose proof (Hraw (nth k raw []) v (nth_In raw [] Hk') Hv). apply andb_true_intro. split; [apply Z.leb_le|apply Z.leb_le]; lia.
  - intros w Hin. unfold I, gen_mcp in Hin. cbn [m_w] in Hin. apply in_map_iff in Hin as [u [<- _]]. unfold mcp_weight, clampZ. lia.
  - intros k Hk. unfold I, gen_mcp. cbn [m_mem].
    rewrite (nth_indep _ [] ((fun k => remove_repeat (nth k perms []) (mcp_cut (mcp_size mins maxs (nth k su 0%Q)) (nth k raw []))) O))
      by (rewrite map_length, seq_length; exact Hk).
    rewrite nth_map_seq by exact Hk. cbn [Nat.add]. rewrite remove_repeat_length. unfold mcp_cut.
    rewrite map_length, combine_length, seq_length. lia.
Qed.

(* the membership tensor has the width of the raw draw (= max_size), whatever the set sizes of the batch are *)
Theorem gen_mcp_width : forall (minw maxw mins maxs : Z) (wu su : list Q) (raw : list (list Z)) (perms : list (list nat)) (q : Z) (W : nat),
  (forall row, In row raw -> length row = W) ->
  length (m_mem (gen_mcp minw maxw mins maxs wu su raw perms q)) = length raw /\
  forall row, In row (m_mem (gen_mcp minw maxw mins maxs wu su raw perms q)) -> length row = W.
Proof.
  intros minw maxw mins maxs wu su raw perms q W HW. unfold gen_mcp. cbn [m_mem]. split; [rewrite map_length, seq_length; reflexivity|].
  intros row Hrow. apply in_map_iff in Hrow as [k [<- Hk]]. apply in_seq in Hk.
  rewrite remove_repeat_length. unfold mcp_cut. rewrite map_length, combine_length, seq_length, Nat.min_id.
  apply HW. apply nth_In. lia.
Qed.

(* executable row property evaluated on generator output: non-zero ids pairwise distinct, between 1 and max_size of them *)
Fixpoint nodupZb (l : list Z) : bool :=
  match l with [] => true | x :: r => negb (existsb (Z.eqb x) r) && nodupZb r end.
Definition mcp_row_okb (mins maxs : Z) (row : list Z) : bool :=
  let nz := filter (fun x => negb (x =? 0)) row in
  nodupZb nz && (1 <=? Z.of_nat (length nz)) && (Z.of_nat (length nz) <=? maxs).

(* FLPGenerator: to_choose constant, `distances` constant fill, orig_distances = pairwise distance matrix (instance data) *)
Definition gen_flp (n : nat) (D : list (list Z)) (maxdist q : Z) : flp_inst :=
  {| f_n := n; f_D := D; f_dist0 := repeat maxdist n; f_q := q |}.
Theorem gen_flp_wf : forall (n : nat) (D : list (list Z)) (maxdist q : Z),
  length D = n -> (forall row, In row D -> length row = n) -> 1 <= q <= Z.of_nat n ->
  let I := gen_flp n D maxdist q in
  flp_wfb I = true /\ f_q I <= Z.of_nat (f_n I).
Proof.
  intros n D maxdist q HL Hrows Hq I. split; [|cbn; lia].
  unfold flp_wfb, I, gen_flp. cbn [f_q f_D f_n f_dist0]. repeat (apply andb_true_intro; split).
  - apply Z.leb_le. lia.
  - apply Nat.eqb_eq. exact HL.
  - apply forallb_forall. intros row Hr. apply Nat.eqb_eq. apply Hrows. exact Hr.
  - apply Nat.eqb_eq. apply repeat_length.
Qed.

Example gen_mcp_ex :
  (* set 0: size 3 of 4, raw items 5 2 5 9 -> cut 5 2 5 0 -> sorted by perm [3;1;0;2] = 0 2 5 5 -> 0 2 5 0 -> back: 5 2 0 0 *)
  let I := gen_mcp 1 10 2 4 [(7 # 2); (25 # 2)]%Q [(7 # 2)]%Q [[5; 2; 5; 9]] [[3; 1; 0; 2]%nat] 1 in
  m_mem I = [[5; 2; 0; 0]] /\ m_w I = [3; 10] /\ mcp_row_okb 2 4 [5; 2; 0; 0] = true /\ mcp_row_okb 2 4 [5; 2; 5; 0] = false.
Proof. vm_compute. repeat split. Qed.
