(* ATSPGenerator (rl4co/envs/routing/atsp/generator.py), one batch row.

     dms = dist_sampler.sample([.., n, n]) * (max_dist - min_dist) + min_dist
     dms[.., arange(n), arange(n)] = 0
     if tmat_class:
         for i in range(n):
             dms = torch.minimum(dms, dms[..., :, [i]] + dms[..., [i], :])

   Every pass builds a NEW matrix from the matrix of the previous pass (the right-hand side is evaluated
   completely before the assignment): new[a][b] = min(old[a][b], old[a][i] + old[i][b]).  That is the textbook
   Floyd-Warshall recurrence with intermediate vertex i.  [tmat_pass]/[tmat_loop] mirror the code on
   list-of-rows matrices; [fw_step]/[fw_iter] are the same on functions nat -> nat -> Z and carry the proof.

   Numbers are exact integers (the harness scales float32 values, which are dyadic rationals, by a power of two);
   float32 rounding of the additions is not modelled.

   Main result [fw_triangle] (any n): zero diagonal + non-negative entries  ==>  the matrix after the n passes
   satisfies  R a b <= R a k + R k b  for all a, b, k < n, keeps a zero diagonal, stays non-negative and is
   entrywise <= the input.  The proof is by the invariant "after the passes 0..m-1 the triangle inequality holds
   through every intermediate vertex k < m" -- no path semantics is needed. *)
From Coq Require Import ZArith List Bool Lia ZifyBool Arith.
From RL4CO Require Import Base.Num.
Import ListNotations.
Open Scope Z_scope.

(* ------------------------------------------------------------------ functional core *)
Definition fw_step (d : nat -> nat -> Z) (i : nat) : nat -> nat -> Z :=
  fun a b => Z.min (d a b) (d a i + d i b).

(* passes i = 0, 1, ..., m-1 in this order *)
Fixpoint fw_iter (m : nat) (d : nat -> nat -> Z) : nat -> nat -> Z :=
  match m with O => d | S k => fw_step (fw_iter k d) k end.

Section FW.
  Variable n : nat.

  Record fw_inv (m : nat) (d : nat -> nat -> Z) : Prop := {
    fi_nonneg : forall a b, (a < n)%nat -> (b < n)%nat -> 0 <= d a b;
    fi_diag   : forall a, (a < n)%nat -> d a a = 0;
    fi_tri    : forall a b k, (a < n)%nat -> (b < n)%nat -> (k < n)%nat -> (k < m)%nat -> d a b <= d a k + d k b;
  }.

  Lemma fw_inv_0 d :
    (forall a b, (a < n)%nat -> (b < n)%nat -> 0 <= d a b) -> (forall a, (a < n)%nat -> d a a = 0) -> fw_inv 0 d.
  Proof. intros H1 H2. constructor; auto. intros; lia. Qed.

  (* the pass with intermediate vertex m leaves row m and column m unchanged *)
  Lemma fw_step_col m d a : fw_inv m d -> (a < n)%nat -> (m < n)%nat -> fw_step d m a m = d a m.
  Proof.
    intros I Ha Hm. unfold fw_step. pose proof (fi_diag _ _ I m Hm). pose proof (fi_nonneg _ _ I a m Ha Hm). lia.
  Qed.
  Lemma fw_step_row m d b : fw_inv m d -> (b < n)%nat -> (m < n)%nat -> fw_step d m m b = d m b.
  Proof.
    intros I Hb Hm. unfold fw_step. pose proof (fi_diag _ _ I m Hm). pose proof (fi_nonneg _ _ I m b Hm Hb). lia.
  Qed.

  Lemma fw_step_inv m d : (m < n)%nat -> fw_inv m d -> fw_inv (S m) (fw_step d m).
  Proof.
    intros Hm I. constructor.
    - intros a b Ha Hb. unfold fw_step.
      pose proof (fi_nonneg _ _ I a b Ha Hb). pose proof (fi_nonneg _ _ I a m Ha Hm).
      pose proof (fi_nonneg _ _ I m b Hm Hb). lia.
    - intros a Ha. unfold fw_step.
      pose proof (fi_diag _ _ I a Ha). pose proof (fi_nonneg _ _ I a m Ha Hm).
      pose proof (fi_nonneg _ _ I m a Hm Ha). lia.
    - intros a b k Ha Hb Hk Hkm.
      destruct (Nat.eq_dec k m) as [->|Hne].
      + rewrite (fw_step_col m d a I Ha Hm), (fw_step_row m d b I Hb Hm). unfold fw_step. lia.
      + assert (Hlt : (k < m)%nat) by lia. unfold fw_step.
        pose proof (fi_tri _ _ I a b k Ha Hb Hk Hlt).
        pose proof (fi_tri _ _ I m b k Hm Hb Hk Hlt).
        pose proof (fi_tri _ _ I a m k Ha Hm Hk Hlt).
        pose proof (fi_nonneg _ _ I m k Hm Hk). pose proof (fi_nonneg _ _ I k m Hk Hm).
        lia.
  Qed.

  Lemma fw_iter_inv d m : (m <= n)%nat -> fw_inv 0 d -> fw_inv m (fw_iter m d).
  Proof.
    induction m as [|m IH]; intros Hm I; cbn [fw_iter]; [exact I|].
    apply fw_step_inv; [lia|]. apply IH; [lia|exact I].
  Qed.

  Lemma fw_step_le d i a b : fw_step d i a b <= d a b.
  Proof. unfold fw_step. lia. Qed.
  Lemma fw_iter_le d m a b : fw_iter m d a b <= d a b.
  Proof. induction m as [|m IH]; cbn [fw_iter]; [lia|]. pose proof (fw_step_le (fw_iter m d) m a b). lia. Qed.

  (* the passes only look at entries inside the n x n block *)
  Definition agree (d d' : nat -> nat -> Z) : Prop := forall a b, (a < n)%nat -> (b < n)%nat -> d a b = d' a b.
  Lemma fw_step_agree d d' i : (i < n)%nat -> agree d d' -> agree (fw_step d i) (fw_step d' i).
  Proof. intros Hi H a b Ha Hb. unfold fw_step. rewrite (H a b), (H a i), (H i b); auto. Qed.
End FW.

(* ------------------------------------------------------------------ the code, on list-of-rows matrices *)
(* torch.minimum(dms, dms[:, [i]] + dms[[i], :]) : row a of the result, from row a ([ra]) and row i ([ri]) of dms *)
Definition tmat_row (i : nat) (ri ra : list Z) : list Z :=
  map (fun xy => Z.min (fst xy) (nth i ra 0 + snd xy)) (combine ra ri).
Definition tmat_pass (D : list (list Z)) (i : nat) : list (list Z) := map (tmat_row i (nth i D [])) D.
(* for i in range(n) *)
Definition tmat_loop (n : nat) (D : list (list Z)) : list (list Z) := fold_left tmat_pass (seq 0 n) D.

Definition squareb (n : nat) (D : list (list Z)) : bool :=
  (length D =? n)%nat && forallb (fun r => (length r =? n)%nat) D.
Definition nonnegb (D : list (list Z)) : bool := forallb (forallb (fun x => 0 <=? x)) D.
Definition zero_diagb (D : list (list Z)) : bool := forallb (fun a => mget D a a =? 0) (seq 0 (length D)).
(* the executable statement of the triangle inequality (evaluated by the harness on generator output) *)
Definition triangleb (D : list (list Z)) : bool :=
  let n := length D in
  forallb (fun a => forallb (fun b => forallb (fun k => mget D a b <=? mget D a k + mget D k b) (seq 0 n)) (seq 0 n))
          (seq 0 n).

Lemma squareb_spec n D : squareb n D = true <-> length D = n /\ forall a, (a < n)%nat -> length (nth a D []) = n.
Proof.
  unfold squareb. rewrite andb_true_iff, forallb_forall, Nat.eqb_eq. split.
  - intros [HL H]. split; [exact HL|]. intros a Ha. apply Nat.eqb_eq, H, nth_In. lia.
  - intros [HL H]. split; [exact HL|]. intros r Hr. apply Nat.eqb_eq.
    destruct (In_nth _ _ [] Hr) as [a [Ha Hn]]. rewrite <- Hn. apply H. lia.
Qed.

Lemma tmat_row_length i ri ra : length ri = length ra -> length (tmat_row i ri ra) = length ra.
Proof. intros H. unfold tmat_row. rewrite map_length, combine_length. lia. Qed.

Lemma tmat_row_nth i ri ra b : length ri = length ra -> (b < length ra)%nat ->
  nth b (tmat_row i ri ra) 0 = Z.min (nth b ra 0) (nth i ra 0 + nth b ri 0).
Proof.
  intros HL Hb. unfold tmat_row. set (f := fun xy : Z * Z => _).
  rewrite (nth_indep _ 0 (f (0, 0))) by (rewrite map_length, combine_length; lia).
  rewrite map_nth, combine_nth by lia. reflexivity.
Qed.

Lemma tmat_pass_square n D i : (i < n)%nat -> squareb n D = true -> squareb n (tmat_pass D i) = true.
Proof.
  intros Hi H. apply squareb_spec in H as [HL H]. apply squareb_spec. unfold tmat_pass. split.
  - rewrite map_length. exact HL.
  - intros a Ha.
    rewrite (nth_indep _ [] (tmat_row i (nth i D []) [])) by (rewrite map_length; lia).
    rewrite map_nth. rewrite tmat_row_length; [apply H; exact Ha|]. rewrite !H; auto.
Qed.

Lemma tmat_pass_mget n D i a b : (i < n)%nat -> (a < n)%nat -> (b < n)%nat -> squareb n D = true ->
  mget (tmat_pass D i) a b = fw_step (mget D) i a b.
Proof.
  intros Hi Ha Hb H. apply squareb_spec in H as [HL H]. unfold mget at 1, tmat_pass.
  rewrite (nth_indep _ [] (tmat_row i (nth i D []) [])) by (rewrite map_length; lia).
  rewrite map_nth. rewrite tmat_row_nth by (rewrite !H; auto).
  unfold fw_step, mget. reflexivity.
Qed.

Lemma tmat_loop_prefix n D m : (m <= n)%nat -> squareb n D = true ->
  squareb n (fold_left tmat_pass (seq 0 m) D) = true /\
  agree n (mget (fold_left tmat_pass (seq 0 m) D)) (fw_iter m (mget D)).
Proof.
  intros Hm Hsq. induction m as [|m IH].
  - cbn. split; [exact Hsq|]. intros a b _ _. reflexivity.
  - destruct IH as [IH1 IH2]; [lia|].
    rewrite seq_S, fold_left_app. cbn [fold_left Nat.add fw_iter]. split.
    + apply tmat_pass_square; [lia|exact IH1].
    + intros a b Ha Hb. rewrite (tmat_pass_mget n) by (auto; lia).
      apply (fw_step_agree n _ _ m ltac:(lia) IH2); auto.
Qed.

Lemma nonnegb_spec n D : squareb n D = true -> nonnegb D = true ->
  forall a b, (a < n)%nat -> (b < n)%nat -> 0 <= mget D a b.
Proof.
  intros Hsq H a b Ha Hb. apply squareb_spec in Hsq as [HL Hs]. unfold nonnegb in H.
  rewrite forallb_forall in H. specialize (H (nth a D [])). rewrite forallb_forall in H.
  unfold mget. apply Z.leb_le, H; apply nth_In; [lia|]. rewrite Hs; auto.
Qed.
Lemma zero_diagb_spec D a : zero_diagb D = true -> (a < length D)%nat -> mget D a a = 0.
Proof.
  unfold zero_diagb. rewrite forallb_forall. intros H Ha. apply Z.eqb_eq, H, in_seq. lia.
Qed.

(* ------------------------------------------------------------------ main theorem *)
Theorem fw_triangle : forall (n : nat) (D : list (list Z)),
  squareb n D = true -> nonnegb D = true -> zero_diagb D = true ->
  let R := tmat_loop n D in
  squareb n R = true /\
  (forall a b k, (a < n)%nat -> (b < n)%nat -> (k < n)%nat -> mget R a b <= mget R a k + mget R k b) /\
  (forall a, (a < n)%nat -> mget R a a = 0) /\
  (forall a b, (a < n)%nat -> (b < n)%nat -> 0 <= mget R a b <= mget D a b).
Proof.
  intros n D Hsq Hnn Hzd R.
  destruct (tmat_loop_prefix n D n (le_n n) Hsq) as [HsqR Hag]. fold (tmat_loop n D) in HsqR, Hag. fold R in HsqR, Hag.
  assert (I0 : fw_inv n 0 (mget D)).
  { apply fw_inv_0; [apply nonnegb_spec; auto|].
    intros a Ha. apply zero_diagb_spec; auto. apply squareb_spec in Hsq as [HL _]. lia. }
  pose proof (fw_iter_inv n (mget D) n (le_n n) I0) as I.
  split; [exact HsqR|]. split; [|split].
  - intros a b k Ha Hb Hk. rewrite (Hag a b), (Hag a k), (Hag k b) by auto.
    apply (fi_tri _ _ _ I); auto.
  - intros a Ha. rewrite (Hag a a) by auto. apply (fi_diag _ _ _ I); auto.
  - intros a b Ha Hb. rewrite (Hag a b) by auto. split.
    + apply (fi_nonneg _ _ _ I); auto.
    + apply fw_iter_le.
Qed.

Lemma triangleb_spec D : triangleb D = true <->
  forall a b k, (a < length D)%nat -> (b < length D)%nat -> (k < length D)%nat -> mget D a b <= mget D a k + mget D k b.
Proof.
  unfold triangleb. split.
  - intros H a b k Ha Hb Hk. rewrite forallb_forall in H.
    specialize (H a ltac:(apply in_seq; lia)). rewrite forallb_forall in H.
    specialize (H b ltac:(apply in_seq; lia)). rewrite forallb_forall in H.
    specialize (H k ltac:(apply in_seq; lia)). lia.
  - intros H. apply forallb_forall. intros a Ha. apply forallb_forall. intros b Hb.
    apply forallb_forall. intros k Hk. apply in_seq in Ha, Hb, Hk. apply Z.leb_le, H; lia.
Qed.

Corollary fw_triangleb n D :
  squareb n D = true -> nonnegb D = true -> zero_diagb D = true -> triangleb (tmat_loop n D) = true.
Proof.
  intros Hsq Hnn Hzd. destruct (fw_triangle n D Hsq Hnn Hzd) as [HsqR [Htri _]].
  apply squareb_spec in HsqR as [HL _]. apply triangleb_spec. rewrite HL. intros; apply Htri; auto.
Qed.

(* Stopping the loop one pass early does NOT give the triangle inequality: 3 nodes, the last pass missing. *)
Example tmat_short_loop_refuted :
  let D := [[0; 9; 1]; [9; 0; 9]; [9; 1; 0]] in
  squareb 3 D = true /\ nonnegb D = true /\ zero_diagb D = true /\
  triangleb (fold_left tmat_pass (seq 0 2) D) = false /\ triangleb (tmat_loop 3 D) = true.
Proof. vm_compute. repeat split. Qed.

(* ------------------------------------------------------------------ the whole post-processing *)
(* dms = u * (max_dist - min_dist) + min_dist with u = U / S (S = the harness scale), min/max integers:
   scaled entry U * (mx - mn) + mn * S;  then the diagonal is overwritten with 0. *)
Definition atsp_scale (S mn mx : Z) (U : list (list Z)) : list (list Z) :=
  map (map (fun u => u * (mx - mn) + mn * S)) U.
Definition set_diag0 (D : list (list Z)) : list (list Z) :=
  map (fun ar => map (fun bx => if Nat.eqb (fst ar) (fst bx) then 0 else snd bx)
                     (combine (seq 0 (length (snd ar))) (snd ar)))
      (combine (seq 0 (length D)) D).
Definition gen_atsp (tmat : bool) (n : nat) (S mn mx : Z) (U : list (list Z)) : list (list Z) :=
  let D := set_diag0 (atsp_scale S mn mx U) in
  if tmat then tmat_loop n D else D.

Lemma combine_seq_nth {A} (l : list A) (d : A) st k : (k < length l)%nat ->
  nth k (combine (seq st (length l)) l) (0%nat, d) = ((st + k)%nat, nth k l d).
Proof. intros Hk. rewrite combine_nth by (rewrite seq_length; reflexivity). rewrite seq_nth by lia. reflexivity. Qed.

Lemma set_diag0_mget n D a b : squareb n D = true -> (a < n)%nat -> (b < n)%nat ->
  mget (set_diag0 D) a b = if Nat.eqb a b then 0 else mget D a b.
Proof.
  intros Hsq Ha Hb. apply squareb_spec in Hsq as [HL Hs]. unfold mget, set_diag0.
  set (f := fun ar : nat * list Z => _).
  rewrite (nth_indep _ [] (f (0%nat, []))) by (rewrite map_length, combine_length, seq_length; lia).
  rewrite map_nth, combine_seq_nth by lia. unfold f. cbn [fst snd Nat.add].
  set (g := fun bx : nat * Z => _).
  rewrite (nth_indep _ 0 (g (0%nat, 0))) by (rewrite map_length, combine_length, seq_length, Hs; lia).
  rewrite map_nth, combine_seq_nth by (rewrite Hs; lia). unfold g. cbn [fst snd Nat.add]. reflexivity.
Qed.
Lemma set_diag0_square n D : squareb n D = true -> squareb n (set_diag0 D) = true.
Proof.
  intros Hsq. pose proof Hsq as Hsq'. apply squareb_spec in Hsq as [HL Hs]. apply squareb_spec. unfold set_diag0. split.
  - rewrite map_length, combine_length, seq_length. lia.
  - intros a Ha. set (f := fun ar : nat * list Z => _).
    rewrite (nth_indep _ [] (f (0%nat, []))) by (rewrite map_length, combine_length, seq_length; lia).
    rewrite map_nth, combine_seq_nth by lia. unfold f. cbn [fst snd].
    rewrite map_length, combine_length, seq_length, Hs; auto. lia.
Qed.

Lemma forallb_nth_iff (f : Z -> bool) (r : list Z) :
  forallb f r = true <-> forall b, (b < length r)%nat -> f (nth b r 0) = true.
Proof.
  rewrite forallb_forall. split.
  - intros H b Hb. apply H, nth_In, Hb.
  - intros H x Hx. destruct (In_nth _ _ 0 Hx) as [b [Hb <-]]. auto.
Qed.
Lemma nonnegb_intro n D : squareb n D = true ->
  (forall a b, (a < n)%nat -> (b < n)%nat -> 0 <= mget D a b) -> nonnegb D = true.
Proof.
  intros Hsq H. apply squareb_spec in Hsq as [HL Hs]. unfold nonnegb. apply forallb_forall. intros r Hr.
  destruct (In_nth _ _ [] Hr) as [a [Ha <-]]. apply forallb_nth_iff. intros b Hb.
  rewrite Hs in Hb by lia. apply Z.leb_le. apply (H a b); lia.
Qed.

Lemma mget_map_map (f : Z -> Z) D a b : (a < length D)%nat -> (b < length (nth a D []))%nat ->
  mget (map (map f) D) a b = f (mget D a b).
Proof.
  intros Ha Hb. unfold mget.
  rewrite (nth_indep _ [] (map f [])) by (rewrite map_length; lia). rewrite map_nth.
  rewrite (nth_indep _ 0 (f 0)) by (rewrite map_length; lia). rewrite map_nth. reflexivity.
Qed.

(* gen_atsp_wf: raw samples u >= 0 (Uniform(0,1), or any non-negative dist_sampler), 0 <= min_dist <= max_dist:
   the emitted cost matrix is n x n, non-negative, zero on the diagonal and -- with tmat_class -- satisfies the
   triangle inequality. *)
Theorem gen_atsp_wf : forall (n : nat) (S mn mx : Z) (U : list (list Z)),
  squareb n U = true -> nonnegb U = true -> 0 <= S -> 0 <= mn <= mx ->
  let R := gen_atsp true n S mn mx U in
  squareb n R = true /\ nonnegb R = true /\ zero_diagb R = true /\ triangleb R = true.
Proof.
  intros n S mn mx U Hsq Hnn HS Hm R.
  assert (HsqA : squareb n (atsp_scale S mn mx U) = true).
  { apply squareb_spec in Hsq as [HL Hs]. apply squareb_spec. unfold atsp_scale. split.
    - rewrite map_length. exact HL.
    - intros a Ha. rewrite (nth_indep _ [] (map (fun u => u * (mx - mn) + mn * S) [])) by (rewrite map_length; lia).
      rewrite map_nth, map_length. auto. }
  assert (HA : forall a b, (a < n)%nat -> (b < n)%nat -> 0 <= mget (atsp_scale S mn mx U) a b).
  { intros a b Ha Hb. pose proof (nonnegb_spec n U Hsq Hnn a b Ha Hb) as Hu.
    pose proof Hsq as Hsq'. apply squareb_spec in Hsq' as [HL Hs]. unfold atsp_scale.
    rewrite mget_map_map by (try rewrite Hs; lia). nia. }
  set (D := set_diag0 (atsp_scale S mn mx U)).
  assert (HsqD : squareb n D = true) by (apply set_diag0_square; exact HsqA).
  assert (HnnD : nonnegb D = true).
  { apply (nonnegb_intro n); [exact HsqD|]. intros a b Ha Hb. unfold D.
    rewrite (set_diag0_mget n) by auto. destruct (Nat.eqb a b); [lia|auto]. }
  assert (HzdD : zero_diagb D = true).
  { unfold zero_diagb. apply forallb_forall. intros a Ha. apply in_seq in Ha.
    pose proof HsqD as Hq. apply squareb_spec in Hq as [HL _]. unfold D at 1.
    rewrite (set_diag0_mget n) by (auto; lia). rewrite Nat.eqb_refl. reflexivity. }
  destruct (fw_triangle n D HsqD HnnD HzdD) as [HsqR [Htri [Hdiag Hrng]]].
  change (gen_atsp true n S mn mx U) with (tmat_loop n D) in R. fold R in HsqR, Htri, Hdiag, Hrng.
  split; [exact HsqR|]. split; [|split].
  - apply (nonnegb_intro n); [exact HsqR|]. intros a b Ha Hb. apply Hrng; auto.
  - unfold zero_diagb. apply forallb_forall. intros a Ha. apply in_seq in Ha.
    pose proof HsqR as Hq. apply squareb_spec in Hq as [HL _]. apply Z.eqb_eq, Hdiag. lia.
  - apply fw_triangleb; auto.
Qed.

Example gen_atsp_ex :
  let U := [[7; 100; 3]; [50; 2; 60]; [64; 1; 9]] in
  squareb 3 U = true /\ nonnegb U = true /\
  gen_atsp true 3 128 0 1 U = [[0; 4; 3]; [50; 0; 53]; [51; 1; 0]] /\
  gen_atsp false 3 128 0 1 U = [[0; 100; 3]; [50; 0; 60]; [64; 1; 0]] /\
  triangleb (gen_atsp false 3 128 0 1 U) = false.
Proof. vm_compute. repeat split. Qed.
