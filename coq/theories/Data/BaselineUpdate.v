(* C17 -- the DECISION of RolloutBaseline.epoch_callback and the state it leaves.

   rl4co/models/rl/reinforce/baselines.py:
     candidate_vals = self.rollout(policy, env, batch_size, device)           # over self.dataset (the evaluation set)
     candidate_mean = candidate_vals.mean()
     if candidate_mean - self.mean > 0:
         t, p = ttest_rel(-candidate_vals, -self.bl_vals)                     # paired, two-sided p
         p_val = p / 2                                                        # one-sided
         assert t < 0
         if p_val < self.bl_alpha: self._update_policy(policy, env, batch_size, device, dataset_size)
   _update_policy: self.policy = copy(policy); self.dataset = env.dataset([dataset_size])   (a FRESH evaluation set);
                   self.bl_vals = rollout(self.policy, self.dataset); self.mean = self.bl_vals.mean()

   Exact arithmetic on Q.  With d_i = (-cand_i) - (-bl_i) = bl_i - cand_i, S = sum d, n = len d, the paired statistic is
   t = mean(d) / (sd(d) / sqrt n), hence  t^2 = S^2 (n-1) / (n sum d^2 - S^2)  -- no square root needed; in the branch
   "candidate better" t < 0, so the one-sided p-value p/2 is a function of t^2 and the degrees of freedom only:
   [pv df x] (Student's survival function at sqrt x), an ABSTRACT function assumed monotone decreasing in x.
   n sum d^2 - S^2 = 0 (all differences equal, not 0): t = -inf, p = 0.  n = 1: the statistic is nan, the assert fails. *)
From Coq Require Import List Arith Bool Lia ZArith QArith Setoid.
From RL4CO Require Import Data.Dataset Data.DatasetStore.
Import ListNotations.
Open Scope Q_scope.

Fixpoint qsum (l : list Q) : Q := match l with [] => 0 | x :: r => x + qsum r end.
Definition nQ (n : nat) : Q := inject_Z (Z.of_nat n).
Definition qmean (l : list Q) : Q := qsum l / nQ (length l).
(* ttest_rel(-cand, -bl): the differences a - b *)
Definition diffs (cand bl : list Q) : list Q := map (fun p => snd p - fst p) (combine cand bl).
Definition sumsq (l : list Q) : Q := qsum (map (fun x => x * x) l).
Definition t2_num (d : list Q) : Q := qsum d * qsum d * nQ (length d - 1)%nat.
Definition t2_den (d : list Q) : Q := nQ (length d) * sumsq d - qsum d * qsum d.
Definition Qltb (x y : Q) : bool := negb (Qle_bool y x).

Lemma Qltb_iff x y : Qltb x y = true <-> x < y.
Proof.
  unfold Qltb. rewrite negb_true_iff. split.
  - intros H. apply Qnot_le_lt. intros Hle. apply Qle_bool_iff in Hle. congruence.
  - intros H. destruct (Qle_bool y x) eqn:E; [|reflexivity]. apply Qle_bool_iff in E.
    exfalso. exact (Qlt_not_le _ _ H E).
Qed.
Lemma Qltb_compat x x' y y' : x == x' -> y == y' -> Qltb x y = Qltb x' y'.
Proof. intros H1 H2. apply eq_true_iff_eq. rewrite !Qltb_iff, H1, H2. reflexivity. Qed.
Lemma Qeq_bool_compat x x' y y' : x == x' -> y == y' -> Qeq_bool x y = Qeq_bool x' y'.
Proof. intros H1 H2. apply eq_true_iff_eq. rewrite !Qeq_bool_iff, H1, H2. reflexivity. Qed.

Lemma qsum_compat l l' : Forall2 Qeq l l' -> qsum l == qsum l'.
Proof. induction 1 as [|x y l l' Hxy _ IH]; [reflexivity|]. cbn [qsum]. rewrite Hxy, IH. reflexivity. Qed.
Lemma sumsq_compat l l' : Forall2 Qeq l l' -> sumsq l == sumsq l'.
Proof.
  intros H. unfold sumsq. apply qsum_compat. induction H as [|x y l l' Hxy _ IH]; [constructor|].
  cbn [map]. constructor; [rewrite Hxy; reflexivity|exact IH].
Qed.
Lemma Forall2_Qeq_length (l l' : list Q) : Forall2 Qeq l l' -> length l = length l'.
Proof. induction 1; simpl; congruence. Qed.
Lemma t2_num_compat d d' : Forall2 Qeq d d' -> t2_num d == t2_num d'.
Proof. intros H. unfold t2_num. rewrite (qsum_compat _ _ H), (Forall2_Qeq_length _ _ H). reflexivity. Qed.
Lemma t2_den_compat d d' : Forall2 Qeq d d' -> t2_den d == t2_den d'.
Proof. intros H. unfold t2_den. rewrite (qsum_compat _ _ H), (sumsq_compat _ _ H), (Forall2_Qeq_length _ _ H). reflexivity. Qed.

Lemma qsum_scale k l : qsum (map (Qmult k) l) == k * qsum l.
Proof. induction l as [|x l IH]; cbn [map qsum]; [ring|]. rewrite IH. ring. Qed.
Lemma sumsq_scale k l : sumsq (map (Qmult k) l) == k * k * sumsq l.
Proof.
  unfold sumsq. induction l as [|x l IH]; cbn [map qsum]; [ring|]. rewrite IH. ring.
Qed.
Lemma qsum_shift c l : qsum (map (Qplus c) l) == nQ (length l) * c + qsum l.
Proof.
  induction l as [|x l IH]; cbn [map qsum length]; [unfold nQ; simpl; ring|]. rewrite IH.
  unfold nQ. rewrite Nat2Z.inj_succ, <- Z.add_1_r, inject_Z_plus. ring.
Qed.
Lemma nQ_pos n : (1 <= n)%nat -> 0 < nQ n.
Proof. intros H. unfold nQ. change 0 with (inject_Z 0). rewrite <- Zlt_Qlt. lia. Qed.

Lemma diffs_shift c cand bl : Forall2 Qeq (diffs (map (Qplus c) cand) (map (Qplus c) bl)) (diffs cand bl).
Proof.
  unfold diffs. revert bl. induction cand as [|a cand IH]; intros [|b bl]; cbn [map combine]; try constructor.
  - cbn [fst snd]. ring.
  - apply IH.
Qed.
Lemma diffs_scale k cand bl : Forall2 Qeq (diffs (map (Qmult k) cand) (map (Qmult k) bl)) (map (Qmult k) (diffs cand bl)).
Proof.
  unfold diffs. revert bl. induction cand as [|a cand IH]; intros [|b bl]; cbn [map combine]; try constructor.
  - cbn [fst snd]. ring.
  - apply IH.
Qed.

Section Decision.
  (* one-sided p-value of the paired t-test as a function of the degrees of freedom and of x = t^2 (t < 0) *)
  Variable pv : nat -> Q -> Q.
  Hypothesis pv_mono : forall df x y, x <= y -> pv df y <= pv df x.

  Lemma pv_compat df x y : x == y -> pv df x == pv df y.
  Proof. intros H. apply Qle_antisym; apply pv_mono; rewrite H; apply Qle_refl. Qed.

  (* None = the code raises (ttest_rel on arrays of different length; nan statistic, [assert t < 0] fails).
     mdiff = candidate_mean - self.mean, d = the paired differences *)
  Definition decide (mdiff : Q) (lc lb : nat) (d : list Q) (alpha : Q) : option bool :=
    if Qltb 0 mdiff then
      if negb (lc =? lb)%nat then None
      else if (lc <=? 1)%nat then None
      else if Qeq_bool (t2_den d) 0 then Some (Qltb 0 alpha)                   (* t = -inf, p = 0 *)
      else Some (Qltb (pv (length d - 1)%nat (t2_num d / t2_den d)) alpha)
    else Some false.
  Definition update_decision (cand bl : list Q) (alpha : Q) : option bool :=
    decide (qmean cand - qmean bl) (length cand) (length bl) (diffs cand bl) alpha.

  Lemma decide_compat m m' lc lb d d' alpha : m == m' -> Forall2 Qeq d d' ->
    decide m lc lb d alpha = decide m' lc lb d' alpha.
  Proof.
    intros Hm Hd. unfold decide. rewrite (Qltb_compat 0 0 m m' (Qeq_refl 0) Hm).
    destruct (Qltb 0 m'); [|reflexivity]. destruct (negb (lc =? lb)%nat); [reflexivity|].
    destruct (lc <=? 1)%nat; [reflexivity|].
    pose proof (t2_den_compat _ _ Hd) as HD. pose proof (t2_num_compat _ _ Hd) as HN.
    rewrite (Qeq_bool_compat _ _ 0 0 HD (Qeq_refl 0)). destruct (Qeq_bool (t2_den d') 0); [reflexivity|].
    f_equal. apply Qltb_compat; [|reflexivity]. rewrite (Forall2_Qeq_length _ _ Hd). apply pv_compat.
    rewrite HD, HN. reflexivity.
  Qed.

  (* never updates when the candidate's mean reward is not strictly better *)
  Theorem no_update_unless_better cand bl alpha : qmean cand <= qmean bl -> update_decision cand bl alpha = Some false.
  Proof.
    intros H. unfold update_decision, decide.
    destruct (Qltb 0 (qmean cand - qmean bl)) eqn:E; [|reflexivity].
    apply Qltb_iff in E. exfalso. apply (Qlt_not_le _ _ E). rewrite <- (Qplus_opp_r (qmean bl)).
    apply Qplus_le_l. exact H.
  Qed.
  Corollary update_implies_better cand bl alpha : update_decision cand bl alpha = Some true -> qmean bl < qmean cand.
  Proof.
    intros H. apply Qnot_le_lt. intros Hle. rewrite (no_update_unless_better cand bl alpha Hle) in H. discriminate.
  Qed.

  (* an update needs a positive alpha and, when the statistic is finite, p(t^2) < alpha *)
  Theorem update_implies_significant cand bl alpha : update_decision cand bl alpha = Some true ->
    length cand = length bl /\ (2 <= length cand)%nat /\
    (t2_den (diffs cand bl) == 0 /\ 0 < alpha \/
     ~ t2_den (diffs cand bl) == 0 /\
     pv (length (diffs cand bl) - 1)%nat (t2_num (diffs cand bl) / t2_den (diffs cand bl)) < alpha).
  Proof.
    unfold update_decision, decide. destruct (Qltb 0 (qmean cand - qmean bl)); [|discriminate].
    destruct (length cand =? length bl)%nat eqn:El; [|discriminate]. apply Nat.eqb_eq in El. cbn [negb].
    destruct (length cand <=? 1)%nat eqn:E1; [discriminate|]. apply Nat.leb_gt in E1.
    destruct (Qeq_bool (t2_den (diffs cand bl)) 0) eqn:Ed; intros H; inversion H as [H1]; apply Qltb_iff in H1.
    - apply Qeq_bool_iff in Ed. split; [exact El|]. split; [lia|]. left. split; assumption.
    - split; [exact El|]. split; [lia|]. right. split; [|exact H1]. intros Hz. apply Qeq_bool_iff in Hz. congruence.
  Qed.

  (* a larger alpha never turns an update into a non-update *)
  Theorem decision_alpha_mono cand bl alpha alpha' : alpha <= alpha' ->
    update_decision cand bl alpha = Some true -> update_decision cand bl alpha' = Some true.
  Proof.
    intros Ha. unfold update_decision, decide. destruct (Qltb 0 (qmean cand - qmean bl)); [|discriminate].
    destruct (negb (length cand =? length bl)%nat); [discriminate|]. destruct (length cand <=? 1)%nat; [discriminate|].
    destruct (Qeq_bool (t2_den (diffs cand bl)) 0); intros H; injection H as H1; apply Qltb_iff in H1; f_equal;
      apply Qltb_iff; eapply Qlt_le_trans; eassumption.
  Qed.

  (* adding the same constant to every reward of both vectors changes nothing *)
  Theorem decision_shift_invariant c cand bl alpha : length cand = length bl ->
    update_decision (map (Qplus c) cand) (map (Qplus c) bl) alpha = update_decision cand bl alpha.
  Proof.
    intros Hl. unfold update_decision. rewrite !map_length. apply decide_compat; [|apply diffs_shift].
    unfold qmean. rewrite !map_length, !qsum_shift, <- Hl.
    destruct (length cand) as [|n] eqn:En.
    - destruct cand; [|discriminate]. destruct bl; [|discriminate]. reflexivity.
    - assert (Hn : ~ nQ (S n) == 0). { intros H0. pose proof (nQ_pos (S n) ltac:(lia)) as Hp. rewrite H0 in Hp. exact (Qlt_irrefl 0 Hp). }
      field. exact Hn.
  Qed.

  (* multiplying every reward of both vectors by the same positive factor changes nothing *)
  Lemma decide_scale k m lc lb d alpha : 0 < k ->
    decide (k * m) lc lb (map (Qmult k) d) alpha = decide m lc lb d alpha.
  Proof.
    intros Hk. assert (Hk0 : ~ k == 0) by (intros H0; rewrite H0 in Hk; exact (Qlt_irrefl 0 Hk)).
    unfold decide.
    assert (E1 : Qltb 0 (k * m) = Qltb 0 m).
    { apply eq_true_iff_eq. rewrite !Qltb_iff. rewrite <- (Qmult_lt_l 0 m k Hk). rewrite Qmult_0_r. reflexivity. }
    rewrite E1. destruct (Qltb 0 m); [|reflexivity]. destruct (negb (lc =? lb)%nat); [reflexivity|].
    destruct (lc <=? 1)%nat; [reflexivity|].
    assert (HD : t2_den (map (Qmult k) d) == k * k * t2_den d).
    { unfold t2_den. rewrite map_length, sumsq_scale, qsum_scale. ring. }
    assert (HN : t2_num (map (Qmult k) d) == k * k * t2_num d).
    { unfold t2_num. rewrite map_length, qsum_scale. ring. }
    assert (E2 : Qeq_bool (t2_den (map (Qmult k) d)) 0 = Qeq_bool (t2_den d) 0).
    { apply eq_true_iff_eq. rewrite !Qeq_bool_iff, HD. split.
      - intros H. apply Qmult_integral in H as [H|H]; [|exact H]. apply Qmult_integral in H as [H|H]; contradiction.
      - intros H. rewrite H. ring. }
    rewrite E2. destruct (Qeq_bool (t2_den d) 0) eqn:Ed; [reflexivity|].
    f_equal. apply Qltb_compat; [|reflexivity]. rewrite map_length. apply pv_compat. rewrite HD, HN.
    assert (Hd0 : ~ t2_den d == 0) by (intros H; apply Qeq_bool_iff in H; congruence).
    field. split; assumption.
  Qed.

  Theorem decision_scale_invariant k cand bl alpha : 0 < k ->
    update_decision (map (Qmult k) cand) (map (Qmult k) bl) alpha = update_decision cand bl alpha.
  Proof.
    intros Hk. unfold update_decision. rewrite !map_length.
    rewrite <- (decide_scale k (qmean cand - qmean bl) (length cand) (length bl) (diffs cand bl) alpha Hk).
    apply decide_compat; [|apply diffs_scale].
    unfold qmean. rewrite !map_length, !qsum_scale. unfold Qdiv. ring.
  Qed.

  (* the decision is monotone in the statistic: same situation, larger t^2 (hence smaller p) -- an update stays one *)
  Theorem significance_monotone df x y alpha : x <= y -> pv df x < alpha -> pv df y < alpha.
  Proof. intros Hxy H. eapply Qle_lt_trans; [apply pv_mono; exact Hxy|exact H]. Qed.
End Decision.

(** * The baseline's state: policy, evaluation set, stored values, stored mean *)
Section BaselineState.
  Context {K : Type}.
  Variable K_eqb : K -> K -> bool.
  Hypothesis K_eqb_eq : forall a b, K_eqb a b = true <-> a = b.
  Variable dV : Q.
  Variable pv : nat -> Q -> Q.

  Local Notation itemQ := (@item K Q).
  Local Notation tdQ := (@td K Q).

  Record bstate := mkB { b_pol : itemQ -> Q; b_cls : dcls; b_data : tdQ; b_vals : list Q; b_mean : Q }.
  (* a row-wise policy as the batch function the rollout calls *)
  Definition polB_of_pol (pol : itemQ -> Q) : tdQ -> list Q := fun t => map pol (rows dV t).

  Definition update_policy (c : dcls) (pol : itemQ -> Q) (fresh : tdQ) (bb : nat) : option bstate :=
    match rollout K_eqb dV (polB_of_pol pol) c fresh bb with
    | Some vals => Some (mkB pol c fresh vals (qmean vals))
    | None => None
    end.
  (* epoch_callback(candidate): [fresh] is the evaluation set env.dataset would generate if the baseline is replaced;
     returns whether the baseline was replaced, and the new state.  The comparison uses the STORED mean. *)
  Definition epoch_callback (st : bstate) (cand : itemQ -> Q) (fresh : tdQ) (bb : nat) (alpha : Q) : option (bool * bstate) :=
    match rollout K_eqb dV (polB_of_pol cand) (b_cls st) (b_data st) bb with
    | None => None
    | Some cvals =>
        match decide pv (qmean cvals - b_mean st) (length cvals) (length (b_vals st)) (diffs cvals (b_vals st)) alpha with
        | None => None
        | Some true => match update_policy (b_cls st) cand fresh bb with Some st' => Some (true, st') | None => None end
        | Some false => Some (false, st)
        end
    end.

  (* what setup/_update_policy establish and epoch_callback maintains *)
  Definition bstate_ok (st : bstate) : Prop :=
    td_wfb K_eqb (b_data st) = true /\ (1 <= bsz (b_data st))%nat /\
    b_vals st = map (b_pol st) (rows dV (b_data st)) /\ b_mean st = qmean (b_vals st).

  Lemma update_policy_spec c pol fresh bb : td_wfb K_eqb fresh = true -> (1 <= bb)%nat -> (1 <= bsz fresh)%nat ->
    exists st', update_policy c pol fresh bb = Some st' /\ bstate_ok st' /\
                b_pol st' = pol /\ b_data st' = fresh /\ b_vals st' = map pol (rows dV fresh).
  Proof.
    intros Hwf Hb Hn. unfold update_policy.
    rewrite (rollout_aligned K_eqb K_eqb_eq dV (polB_of_pol pol) pol (fun t => eq_refl) c fresh bb Hwf Hb Hn).
    eexists. split; [reflexivity|]. cbn [b_pol b_data b_vals b_mean]. repeat split; auto.
  Qed.

  Theorem epoch_callback_spec st cand fresh bb alpha :
    bstate_ok st -> td_wfb K_eqb fresh = true -> (1 <= bsz fresh)%nat -> (1 <= bb)%nat ->
    match update_decision pv (map cand (rows dV (b_data st))) (b_vals st) alpha with
    | None => epoch_callback st cand fresh bb alpha = None
    | Some false => epoch_callback st cand fresh bb alpha = Some (false, st)
    | Some true => exists st', epoch_callback st cand fresh bb alpha = Some (true, st') /\ bstate_ok st' /\
                               b_pol st' = cand /\ b_data st' = fresh /\ b_vals st' = map cand (rows dV fresh) /\
                               b_mean st' = qmean (map cand (rows dV fresh))
    end.
  Proof.
    intros (Hwf & Hn & Hv & Hm) Hwf' Hn' Hb. unfold epoch_callback.
    rewrite (rollout_aligned K_eqb K_eqb_eq dV (polB_of_pol cand) cand (fun t => eq_refl) (b_cls st) (b_data st) bb Hwf Hb Hn).
    rewrite Hm. fold (update_decision pv (map cand (rows dV (b_data st))) (b_vals st) alpha).
    destruct (update_decision pv (map cand (rows dV (b_data st))) (b_vals st) alpha) as [[|]|]; try reflexivity.
    destruct (update_policy_spec (b_cls st) cand fresh bb Hwf' Hb Hn') as (st' & E & Hok & Hp & Hd & Hvals).
    exists st'. rewrite E. repeat split; try assumption; try apply Hok.
    destruct Hok as (_ & _ & _ & Hm'). rewrite Hm', Hvals. reflexivity.
  Qed.

  (* whatever the decisions of any number of callbacks were: the stored values are the CURRENT policy's on the stored set *)
  Corollary epoch_callback_keeps_invariant st cand fresh bb alpha r st' :
    bstate_ok st -> td_wfb K_eqb fresh = true -> (1 <= bsz fresh)%nat -> (1 <= bb)%nat ->
    epoch_callback st cand fresh bb alpha = Some (r, st') ->
    bstate_ok st' /\ (r = false -> st' = st) /\ (r = true -> b_pol st' = cand /\ b_data st' = fresh).
  Proof.
    intros Hok Hwf' Hn' Hb H. pose proof (epoch_callback_spec st cand fresh bb alpha Hok Hwf' Hn' Hb) as S.
    destruct (update_decision pv (map cand (rows dV (b_data st))) (b_vals st) alpha) as [[|]|].
    - destruct S as (s1 & E & Hok1 & Hp & Hd & _). rewrite E in H. inversion H; subst.
      split; [exact Hok1|]. split; [discriminate|]. auto.
    - rewrite S in H. inversion H; subst. split; [exact Hok|]. split; [reflexivity|discriminate].
    - rewrite S in H. discriminate.
  Qed.

  (* tie to the store model: a training set wrapped by wrap_dataset AFTER the callback, in the middle of any history of
     wrappings and reads, carries the values of the policy the baseline holds then (the candidate, if it was replaced) *)
  Corollary wrap_after_callback_carries_current_policy st (t : tdQ) (kx : K) pre bb post s0 s :
    td_wfb K_eqb t = true -> ~ In kx (td_keys t) ->
    (forall it v, b_pol st (aset K_eqb kx v it) = b_pol st it) ->
    Forall (ev_key_ok kx) pre -> Forall (ev_key_ok kx) post ->
    run_state K_eqb dV Assign (store_init dV t) pre = Some s0 ->
    run_state K_eqb dV Assign s0 (EWrapPol kx (polB_of_pol (b_pol st)) bb :: post) = Some s ->
    exists e, nth_error (st_wrappers s) (length (st_wrappers s0)) = Some e /\
              ek_extra e = map (b_pol st) (rows dV t) /\
              reads_give K_eqb dV t kx e s (fun p => b_pol st (row_at dV t p)).
  Proof.
    intros Hwf Hfresh Hign Hpre Hpost R0 R1.
    exact (store_assign_rollout_history K_eqb K_eqb_eq dV t kx Hwf (polB_of_pol (b_pol st)) (b_pol st)
             (fun t' => eq_refl) Hign Hfresh pre bb post s0 s Hpre Hpost R0 R1).
  Qed.
End BaselineState.

(* ------------------------------------------------------------------------------------------------ *)
(** * Concrete decision table (a monotone stand-in for the p-value: 1 / (1 + x)) *)
Definition ex_pv (df : nat) (x : Q) : Q := if Qle_bool 0 x then 1 / (1 + x) else 1.
Lemma ex_pv_mono df x y : x <= y -> ex_pv df y <= ex_pv df x.
Proof.
  intros Hxy. unfold ex_pv. destruct (Qle_bool 0 x) eqn:Ex; destruct (Qle_bool 0 y) eqn:Ey.
  - apply Qle_bool_iff in Ex, Ey. unfold Qdiv. rewrite !Qmult_1_l.
    assert (Hx : 0 < 1 + x) by (apply Qlt_le_trans with 1; [reflexivity|rewrite <- (Qplus_0_r 1) at 1; apply Qplus_le_r; exact Ex]).
    assert (Hy : 0 < 1 + y) by (apply Qlt_le_trans with 1; [reflexivity|rewrite <- (Qplus_0_r 1) at 1; apply Qplus_le_r; exact Ey]).
    apply Qle_shift_inv_l; [exact Hx|]. rewrite Qmult_comm. change ((1 + x) * / (1 + y)) with ((1 + x) / (1 + y)).
    apply Qle_shift_div_r; [exact Hy|].
    rewrite Qmult_1_l. apply Qplus_le_r. exact Hxy.
  - exfalso. apply Qle_bool_iff in Ex. assert (H : 0 <= y) by (eapply Qle_trans; eassumption).
    apply Qle_bool_iff in H. congruence.
  - apply Qle_bool_iff in Ey. unfold Qdiv. rewrite Qmult_1_l.
    assert (Hy : 0 < 1 + y) by (apply Qlt_le_trans with 1; [reflexivity|rewrite <- (Qplus_0_r 1) at 1; apply Qplus_le_r; exact Ey]).
    apply Qle_shift_inv_r; [exact Hy|]. rewrite Qmult_1_l. rewrite <- (Qplus_0_r 1) at 1. apply Qplus_le_r. exact Ey.
  - apply Qle_refl.
Qed.

(* clearly better / clearly worse / better on average but not significant / equal means / n = 2 / constant differences / n = 1 *)
Example ex_decision_table :
  let a := 1 # 10 in
  map (fun cb => update_decision ex_pv (fst cb) (snd cb) a)
    [ ([-1; -(9#8); -(7#8); -(33#32)], [-2; -(17#8); -(15#8); -2]);
      ([-2; -(17#8); -(15#8); -2], [-1; -(9#8); -(7#8); -(33#32)]);
      ([-1; -3; -1; -3], [-3; -(3#2); -3; -(3#2)]);
      ([-2; -1], [-1; -2]);
      ([-1; -2], [-2; -(49#16)]);
      ([-1; -(9#8); -(7#8); -1], [-2; -(17#8); -(15#8); -2]);
      ([-1], [-2]) ]
  = [Some true; Some false; Some false; Some false; Some true; Some true; None].
Proof. vm_compute. reflexivity. Qed.
