(* C19 -- the layer BELOW the word-level codec model of Data/Persist.v: characters.

   parser.write_one builds a text with  f"{a}\t{b}\t{c}", " ".join(str(num) for num in job) and "\n".join(lines);
   parser.file2lines reads it with  fh.readlines(), `if line.strip()`, line.split() and int(word).
   Here a text is a list of characters, and it is proved that
     * [lex (render seps lines) = lines] for every list of non-empty lines of non-empty whitespace-free words, whatever
       the (space or tab) separator of each line: splitting undoes joining;
     * [Z_of_str (str_of_Z z) = Some z]: int(str(z)) = z for decimal numerals (Coq's DecimalString), and the numeral
       of an integer is a non-empty whitespace-free word.
   Together: the words file2lines sees are exactly the words write_one joined, and every integer word reads back as
   the integer that was printed -- which is what the word-level model (tokens [TInt z]) takes as its starting point.
   Python's int() also accepts "+5", "5_0", surrounding blanks and non-ASCII digits; str.split() also splits on
   \x1c-\x1f, \x85, \xa0 and other Unicode spaces: none of these is ever produced by the writer, and the reader on
   foreign files is covered at word level only (by the correspondence check, not by this file). *)
From Coq Require Import String Ascii ZArith List Bool Lia DecimalString DecimalZ DecimalPos.
Import ListNotations.

Definition text := list ascii.

Definition nl : ascii := "010"%char.
Definition is_nl (c : ascii) : bool := Ascii.eqb c nl.
(* the ASCII characters on which str.split() / str.strip() act: \t \n \v \f \r and space *)
Definition is_ws (c : ascii) : bool :=
  Ascii.eqb c "009" || Ascii.eqb c "010" || Ascii.eqb c "011" || Ascii.eqb c "012" || Ascii.eqb c "013" || Ascii.eqb c " ".

(* s.split(sep) for a one-character separator class: always at least one field *)
Fixpoint fields {A} (p : A -> bool) (l : list A) : list (list A) :=
  match l with
  | [] => [[]]
  | c :: r =>
      if p c then [] :: fields p r
      else match fields p r with f :: fs => (c :: f) :: fs | [] => [[c]] end
  end.

Definition nonnil {A} (l : list A) : bool := match l with [] => false | _ => true end.

(* line.split(): maximal runs of non-blank characters *)
Definition words (l : text) : list text := filter nonnil (fields is_ws l).

(* file2lines without the int conversion: [line.split() for line in readlines() if line.strip()] *)
Definition lex (t : text) : list (list text) := filter nonnil (map words (fields is_nl t)).

Fixpoint join {A} (sep : list A) (ws : list (list A)) : list A :=
  match ws with
  | [] => []
  | [w] => w
  | w :: r => w ++ sep ++ join sep r
  end.

(* the i-th line is joined with the i-th separator; lines are joined with newlines *)
Definition render (lines : list (ascii * list text)) : text :=
  join [nl] (map (fun sl => join [fst sl] (snd sl)) lines).

Definition clean (p : ascii -> bool) (w : text) : bool := forallb (fun c => negb (p c)) w.
Definition good_word (w : text) : bool := nonnil w && clean is_ws w.

(* ------------------------------------------------------------------------------------------ splitting undoes joining *)
Lemma fields_nonempty {A} (p : A -> bool) l : fields p l <> [].
Proof. induction l as [|c r IH]; simpl; [discriminate|]. destruct (p c); [discriminate|]. destruct (fields p r); discriminate. Qed.

Lemma fields_clean p (w : text) : clean p w = true -> fields p w = [w].
Proof.
  induction w as [|c w IH]; simpl; intros H; [reflexivity|]. apply andb_prop in H as [H1 H2].
  apply negb_true_iff in H1. rewrite H1, IH by exact H2. reflexivity.
Qed.

Lemma fields_app_sep p (w : text) c rest :
  clean p w = true -> p c = true -> fields p (w ++ c :: rest) = w :: fields p rest.
Proof.
  induction w as [|a w IH]; simpl; intros H Hc.
  - rewrite Hc. reflexivity.
  - apply andb_prop in H as [H1 H2]. apply negb_true_iff in H1. rewrite H1, IH by assumption. reflexivity.
Qed.

Lemma fields_join p c (ws : list text) :
  p c = true -> ws <> [] -> forallb (clean p) ws = true -> fields p (join [c] ws) = ws.
Proof.
  intros Hc. induction ws as [|w r IH]; intros Hne H; [congruence|].
  simpl in H. apply andb_prop in H as [H1 H2].
  destruct r as [|w' r'].
  - simpl. apply fields_clean. exact H1.
  - change (join [c] (w :: w' :: r')) with (w ++ [c] ++ join [c] (w' :: r')). simpl app.
    rewrite fields_app_sep by assumption. f_equal. apply IH; [discriminate|exact H2].
Qed.

Lemma filter_nonnil_id {A} (ws : list (list A)) : forallb nonnil ws = true -> filter nonnil ws = ws.
Proof.
  induction ws as [|w r IH]; simpl; intros H; [reflexivity|]. apply andb_prop in H as [H1 H2].
  rewrite H1, IH by exact H2. reflexivity.
Qed.

(* line.split() of sep.join(words) = words *)
Lemma words_join c (ws : list text) :
  is_ws c = true -> forallb good_word ws = true -> words (join [c] ws) = ws.
Proof.
  intros Hc H. unfold words. destruct ws as [|w r]; [reflexivity|].
  assert (H1 : forallb (clean is_ws) (w :: r) = true /\ forallb nonnil (w :: r) = true).
  { clear Hc. induction (w :: r) as [|x l IH]; [split; reflexivity|]. simpl in H. apply andb_prop in H as [Hx Hl].
    unfold good_word in Hx. apply andb_prop in Hx as [Hx1 Hx2]. destruct (IH Hl) as [I1 I2].
    split; simpl; rewrite ?Hx1, ?Hx2; assumption. }
  destruct H1 as [H1 H2]. rewrite fields_join by (try assumption; discriminate). apply filter_nonnil_id. exact H2.
Qed.

Lemma clean_app p (a b : text) : clean p (a ++ b) = clean p a && clean p b.
Proof. unfold clean. apply forallb_app. Qed.

Lemma clean_ws_nl (w : text) : clean is_ws w = true -> clean is_nl w = true.
Proof.
  unfold clean. induction w as [|c w IH]; simpl; intros H; [reflexivity|]. apply andb_prop in H as [H1 H2].
  rewrite IH by exact H2. rewrite andb_true_r. apply negb_true_iff. apply negb_true_iff in H1.
  unfold is_ws in H1. unfold is_nl, nl. repeat (apply orb_false_elim in H1 as [H1 ?]). assumption.
Qed.

Lemma clean_join_nl c (ws : list text) :
  is_nl c = false -> forallb good_word ws = true -> clean is_nl (join [c] ws) = true.
Proof.
  intros Hc. induction ws as [|w r IH]; intros H; [reflexivity|].
  simpl in H. apply andb_prop in H as [H1 H2]. unfold good_word in H1. apply andb_prop in H1 as [_ H1].
  destruct r as [|w' r'].
  - simpl. apply clean_ws_nl. exact H1.
  - change (join [c] (w :: w' :: r')) with (w ++ [c] ++ join [c] (w' :: r')).
    rewrite !clean_app. rewrite (clean_ws_nl w H1), (IH H2). simpl. rewrite Hc. reflexivity.
Qed.

Definition good_line (sl : ascii * list text) : bool :=
  is_ws (fst sl) && negb (is_nl (fst sl)) && nonnil (snd sl) && forallb good_word (snd sl).

(* the words file2lines sees are the words write_one joined, line by line *)
Theorem lex_render (lines : list (ascii * list text)) :
  forallb good_line lines = true -> lex (render lines) = map snd lines.
Proof.
  intros H. unfold lex, render. destruct lines as [|l0 ls]; [reflexivity|].
  rewrite fields_join.
  - rewrite map_map.
    rewrite (map_ext_in _ (@snd ascii (list text))).
    2:{ intros sl Hin. rewrite forallb_forall in H. specialize (H sl Hin).
        unfold good_line in H. rewrite !andb_true_iff in H. destruct H as [[[H1 _] _] H4]. apply words_join; assumption. }
    apply filter_nonnil_id. rewrite forallb_forall. intros ws Hin. apply in_map_iff in Hin as (sl & <- & Hin).
    rewrite forallb_forall in H. specialize (H sl Hin). unfold good_line in H. rewrite !andb_true_iff in H. tauto.
  - reflexivity.
  - discriminate.
  - rewrite forallb_forall. intros t Hin. apply in_map_iff in Hin as (sl & <- & Hin).
    rewrite forallb_forall in H. specialize (H sl Hin). unfold good_line in H. rewrite !andb_true_iff in H.
    destruct H as [[[_ H2] _] H4]. apply clean_join_nl; [apply negb_true_iff; exact H2|exact H4].
Qed.

(* ------------------------------------------------------------------------------------------ numerals *)
Definition str_of_Z (z : Z) : text := list_ascii_of_string (NilZero.string_of_int (Z.to_int z)).      (* str(z) *)
Definition Z_of_str (w : text) : option Z :=                                                           (* int(word), plain numerals *)
  option_map Z.of_int (NilZero.int_of_string (string_of_list_ascii w)).

Theorem Z_of_str_of_Z z : Z_of_str (str_of_Z z) = Some z.
Proof.
  unfold Z_of_str, str_of_Z. rewrite string_of_list_ascii_of_string. rewrite NilZero.isi.
  - simpl. f_equal. apply DecimalZ.of_to.
  - destruct z; simpl; try discriminate. intros E. injection E as E. exact (Unsigned.to_uint_nonnil _ E).
  - destruct z; simpl; try discriminate. intros E. injection E as E. exact (Unsigned.to_uint_nonnil _ E).
Qed.

Lemma uint_chars_clean d : clean is_ws (list_ascii_of_string (NilEmpty.string_of_uint d)) = true.
Proof. induction d; simpl; try reflexivity; exact IHd. Qed.

Lemma uint_nonnil_chars d : d <> Decimal.Nil -> nonnil (list_ascii_of_string (NilEmpty.string_of_uint d)) = true.
Proof. destruct d; simpl; congruence. Qed.

(* the numeral of an integer is a word: non-empty, no blank inside *)
Theorem str_of_Z_good z : good_word (str_of_Z z) = true.
Proof.
  unfold good_word, str_of_Z. destruct z as [|p|p]; [reflexivity| |].
  - simpl Z.to_int. unfold NilZero.string_of_int, NilZero.string_of_uint.
    pose proof (Unsigned.to_uint_nonnil p) as Hn. destruct (Pos.to_uint p) eqn:E; try congruence;
      (rewrite <- E || idtac); rewrite <- ?E; apply andb_true_intro; split;
      try (rewrite E; reflexivity); rewrite ?E; try apply (uint_chars_clean (Pos.to_uint p)); rewrite <- E; apply uint_chars_clean.
  - simpl Z.to_int. unfold NilZero.string_of_int, NilZero.string_of_uint.
    pose proof (Unsigned.to_uint_nonnil p) as Hn. destruct (Pos.to_uint p) eqn:E; try congruence;
      apply andb_true_intro; split; try reflexivity;
      change (clean is_ws ("-"%char :: list_ascii_of_string (NilEmpty.string_of_uint (Pos.to_uint p))) = true) || idtac;
      rewrite <- E; simpl; apply uint_chars_clean.
Qed.

(* a whole file of integers: printed, joined, split, parsed = the integers *)
Theorem ints_text_roundtrip (lines : list (ascii * list Z)) :
  forallb (fun sl => is_ws (fst sl) && negb (is_nl (fst sl)) && nonnil (snd sl)) lines = true ->
  map (map Z_of_str) (lex (render (map (fun sl => (fst sl, map str_of_Z (snd sl))) lines)))
  = map (fun sl => map Some (snd sl)) lines.
Proof.
  intros H. rewrite lex_render.
  - rewrite !map_map. apply map_ext. intros sl. simpl. rewrite map_map. apply map_ext. intros z. apply Z_of_str_of_Z.
  - rewrite forallb_forall. intros sl Hin. apply in_map_iff in Hin as (x & <- & Hin).
    rewrite forallb_forall in H. specialize (H x Hin). unfold good_line. simpl.
    rewrite !andb_true_iff in H. destruct H as [[H1 H2] H3]. rewrite H1, H2. simpl.
    apply andb_true_intro. split.
    + destruct (snd x); [discriminate|reflexivity].
    + rewrite forallb_forall. intros w Hw. apply in_map_iff in Hw as (z & <- & _). apply str_of_Z_good.
Qed.

(* ------------------------------------------------------------------------------------------ file names of parser.write_one *)
(* file_name = f"{str(id+1).rjust(4, '0')}_{num_jobs}j_{num_machines}m.txt" *)
Definition rjust (n : nat) (c : ascii) (s : text) : text := repeat c (n - length s) ++ s.
Definition file_name (id nj nm : Z) : text :=
  rjust 4 "0" (str_of_Z (id + 1)) ++ ["_"%char] ++ str_of_Z nj ++ ["j"; "_"]%char ++ str_of_Z nm
        ++ ["m"; "."; "t"; "x"; "t"]%char.

Fixpoint take_while {A} (p : A -> bool) (l : list A) : list A :=
  match l with [] => [] | x :: r => if p x then x :: take_while p r else [] end.
Fixpoint drop_while {A} (p : A -> bool) (l : list A) : list A :=
  match l with [] => [] | x :: r => if p x then drop_while p r else l end.

(* the 0-based index a file name carries: the numeral before the first '_' , minus one *)
Definition index_of_name (name : text) : option Z :=
  option_map (fun k => (k - 1)%Z) (Z_of_str (take_while (fun c => negb (Ascii.eqb c "_")) name)).

Lemma take_while_app_stop {A} (p : A -> bool) a c r :
  forallb p a = true -> p c = false -> take_while p (a ++ c :: r) = a.
Proof.
  induction a as [|x a IH]; simpl; intros H Hc; [rewrite Hc; reflexivity|].
  apply andb_prop in H as [H1 H2]. rewrite H1, IH by assumption. reflexivity.
Qed.
Lemma drop_while_app_stop {A} (p : A -> bool) a c r :
  forallb p a = true -> p c = false -> drop_while p (a ++ c :: r) = c :: r.
Proof.
  induction a as [|x a IH]; simpl; intros H Hc; [rewrite Hc; reflexivity|].
  apply andb_prop in H as [H1 H2]. rewrite H1, IH by assumption. reflexivity.
Qed.

Definition not_us (c : ascii) : bool := negb (Ascii.eqb c "_").
Lemma uint_chars_not_us d : forallb not_us (list_ascii_of_string (NilEmpty.string_of_uint d)) = true.
Proof. induction d; simpl; try reflexivity; exact IHd. Qed.

(* for n >= 0: str(n) is the digit string of a non-Nil uint whose value is n *)
Lemma str_of_Z_nonneg n : (0 <= n)%Z ->
  exists u, str_of_Z n = list_ascii_of_string (NilEmpty.string_of_uint u) /\ u <> Decimal.Nil /\ Z.of_uint u = n.
Proof.
  intros Hn. destruct n as [|p|p]; [| |lia].
  - exists (Decimal.D0 Decimal.Nil). repeat split; discriminate || reflexivity.
  - exists (Pos.to_uint p). pose proof (Unsigned.to_uint_nonnil p) as Hnn. split; [|split].
    + unfold str_of_Z. simpl Z.to_int. unfold NilZero.string_of_int, NilZero.string_of_uint.
      destruct (Pos.to_uint p); try reflexivity. congruence.
    + exact Hnn.
    + pose proof (DecimalZ.of_to (Z.pos p)) as E. simpl in E. exact E.
Qed.

Fixpoint zeros_uint (k : nat) (u : Decimal.uint) : Decimal.uint :=
  match k with O => u | S k' => Decimal.D0 (zeros_uint k' u) end.
Lemma of_uint_zeros k u : Z.of_uint (zeros_uint k u) = Z.of_uint u.
Proof. induction k as [|k IH]; simpl; [reflexivity|]. exact IH. Qed.

Lemma uint_of_zeros k u :
  NilEmpty.uint_of_string (string_of_list_ascii (repeat "0"%char k ++ list_ascii_of_string (NilEmpty.string_of_uint u)))
  = Some (zeros_uint k u).
Proof.
  induction k as [|k IH]; simpl.
  - rewrite string_of_list_ascii_of_string. apply NilEmpty.usu.
  - rewrite IH. reflexivity.
Qed.

Lemma Z_of_str_zero_padded k n : (0 <= n)%Z -> Z_of_str (repeat "0"%char k ++ str_of_Z n) = Some n.
Proof.
  intros Hn. destruct k as [|k]; [apply Z_of_str_of_Z|].
  destruct (str_of_Z_nonneg n Hn) as (u & E & Hu & Hv). rewrite E. unfold Z_of_str.
  pose proof (uint_of_zeros (S k) u) as H. simpl repeat in *. simpl app in *. simpl string_of_list_ascii in *.
  unfold NilZero.int_of_string. simpl Ascii.eqb. cbv iota. unfold NilZero.uint_of_string.
  rewrite H. change (Some (Z.of_uint (zeros_uint (S k) u)) = Some n). rewrite of_uint_zeros. f_equal. exact Hv.
Qed.

(* the index is recoverable from the name: distinct instances of one write() call get distinct file names *)
Theorem index_of_file_name id nj nm : (0 <= id)%Z -> index_of_name (file_name id nj nm) = Some id.
Proof.
  intros Hid. unfold index_of_name, file_name, rjust.
  destruct (str_of_Z_nonneg (id + 1)%Z ltac:(lia)) as (u & E & _ & _).
  fold not_us.
  match goal with |- context [take_while ?p (?a ++ [?c] ++ ?r)] =>
    change (take_while p (a ++ [c] ++ r)) with (take_while p (a ++ c :: r)) end.
  rewrite take_while_app_stop.
  - rewrite Z_of_str_zero_padded by lia. simpl. f_equal. lia.
  - rewrite forallb_app. apply andb_true_intro. split.
    + clear. induction (4 - length (str_of_Z (id + 1))) as [|k IH]; [reflexivity|]. simpl. exact IH.
    + rewrite E. apply uint_chars_not_us.
  - reflexivity.
Qed.

Corollary file_name_injective i j nj nm nj' nm' :
  (0 <= i)%Z -> (0 <= j)%Z -> file_name i nj nm = file_name j nj' nm' -> i = j.
Proof.
  intros Hi Hj E. pose proof (index_of_file_name i nj nm Hi) as A. rewrite E, (index_of_file_name j nj' nm' Hj) in A.
  congruence.
Qed.

(* ------------------------------------------------------------------------------------------ rl4co/data/utils.py: check_extension *)
(* os.path.splitext(p)[1]: from the last '.' of the last path component, unless only dots precede it there *)
Definition is_dot (c : ascii) : bool := Ascii.eqb c ".".
Definition is_sep (c : ascii) : bool := Ascii.eqb c "/".
Definition basename_rev (p : text) : text := take_while (fun c => negb (is_sep c)) (rev p).     (* reversed *)
Definition ext_of (p : text) : text :=
  let r := basename_rev p in
  match drop_while (fun c => negb (is_dot c)) r with
  | [] => []                                                   (* no dot in the last component *)
  | dot :: pre => if existsb (fun c => negb (is_dot c)) pre
                  then dot :: rev (take_while (fun c => negb (is_dot c)) r)
                  else []                                      (* ".npz", "..x": leading dots only *)
  end.

Fixpoint text_eqb (a b : text) : bool :=
  match a, b with
  | [], [] => true
  | x :: a', y :: b' => Ascii.eqb x y && text_eqb a' b'
  | _, _ => false
  end.
Lemma text_eqb_refl a : text_eqb a a = true.
Proof. induction a; simpl; [reflexivity|]. rewrite Ascii.eqb_refl. exact IHa. Qed.
Lemma text_eqb_eq a b : text_eqb a b = true -> a = b.
Proof.
  revert b; induction a as [|x a IH]; intros [|y b]; simpl; try discriminate; [reflexivity|].
  intros H. apply andb_prop in H as [H1 H2]. apply Ascii.eqb_eq in H1. subst. f_equal. apply IH. exact H2.
Qed.

(* if os.path.splitext(filename)[1] != extension: return filename + extension ; return filename *)
Definition check_extension (filename ext : text) : text :=
  if text_eqb (ext_of filename) ext then filename else filename ++ ext.

(* an extension as rl4co uses it: a dot followed by characters that are neither dots nor separators *)
Definition plain_ext (e : text) : bool := forallb (fun c => negb (is_dot c) && negb (is_sep c)) e.

Lemma ext_of_append f e :
  plain_ext e = true -> existsb (fun c => negb (is_dot c)) (basename_rev f) = true ->
  ext_of (f ++ "."%char :: e) = "."%char :: e.
Proof.
  intros He Hf. unfold ext_of, basename_rev. rewrite rev_app_distr. simpl rev. rewrite <- app_assoc. simpl app.
  assert (H1 : forallb (fun c => negb (is_sep c)) (rev e) = true).
  { unfold plain_ext in He. rewrite forallb_forall in *. intros c Hc. apply in_rev in Hc. apply He in Hc.
    apply andb_prop in Hc. tauto. }
  assert (H2 : forallb (fun c => negb (is_dot c)) (rev e) = true).
  { unfold plain_ext in He. rewrite forallb_forall in *. intros c Hc. apply in_rev in Hc. apply He in Hc.
    apply andb_prop in Hc. tauto. }
  (* the last component of f ++ "." ++ e, reversed, is rev e ++ "." :: (last component of f, reversed) *)
  assert (HB : take_while (fun c => negb (is_sep c)) (rev e ++ "."%char :: rev f)
               = rev e ++ "."%char :: take_while (fun c => negb (is_sep c)) (rev f)).
  { clear -H1. induction (rev e) as [|x l IH]; simpl in *; [reflexivity|].
    apply andb_prop in H1 as [A B]. rewrite A, IH by exact B. reflexivity. }
  rewrite HB. rewrite drop_while_app_stop, take_while_app_stop by (assumption || reflexivity).
  unfold basename_rev in Hf. rewrite Hf, rev_involutive. reflexivity.
Qed.

(* whatever name the user gives (with a real last component), the result carries the extension, exactly once *)
Theorem check_extension_has_ext f e :
  plain_ext e = true -> existsb (fun c => negb (is_dot c)) (basename_rev f) = true ->
  ext_of (check_extension f ("."%char :: e)) = "."%char :: e.
Proof.
  intros He Hf. unfold check_extension. destruct (text_eqb (ext_of f) ("."%char :: e)) eqn:E.
  - apply text_eqb_eq. exact E.
  - apply ext_of_append; assumption.
Qed.

Theorem check_extension_idempotent f e :
  plain_ext e = true -> existsb (fun c => negb (is_dot c)) (basename_rev f) = true ->
  check_extension (check_extension f ("."%char :: e)) ("."%char :: e) = check_extension f ("."%char :: e).
Proof.
  intros He Hf. unfold check_extension at 1. rewrite check_extension_has_ext by assumption.
  rewrite text_eqb_refl. reflexivity.
Qed.

Theorem check_extension_cases f ext :
  (ext_of f = ext /\ check_extension f ext = f) \/ (ext_of f <> ext /\ check_extension f ext = f ++ ext).
Proof.
  unfold check_extension. destruct (text_eqb (ext_of f) ext) eqn:E.
  - left. split; [apply text_eqb_eq; exact E|reflexivity].
  - right. split; [|reflexivity]. intros H. rewrite H, text_eqb_refl in E. discriminate.
Qed.
