(* C19 -- the layer BELOW the word-level codec model of Data/Persist.v: characters.

   parser.write_one builds a text with  f"{a}\t{b}\t{c}", " ".join(str(num) for num in job) and "\n".join(lines);
   parser.file2lines reads it with  fh.readlines(), `if line.strip()`, line.split() and int(word).
   Here a text is a list of characters, and it is proved that
     * [lex (render seps lines) = lines] for every list of non-empty lines of non-empty whitespace-free words, whatever
       the (space or tab) separator of each line: splitting undoes joining;
     * [Z_of_str (str_of_Z z) = Some z]: int(str(z)) = z for decimal numerals (Coq's DecimalString), and the numeral
       of an integer is a non-empty whitespace-free word.
   Together: the words file2lines sees are exactly the words write_one joined, and every integer word reads back as
   the integer that was printed -- which is what the word-level model (tokens [TInt z]) takes as its starting point.
   Python's int() also accepts "+5", "5_0", surrounding blanks and non-ASCII digits; str.split() also splits on
   \x1c-\x1f, \x85, \xa0 and other Unicode spaces: none of these is ever produced by the writer, and the reader on
   foreign files is covered at word level only (by the correspondence check, not by this file). *)
From Coq Require Import String Ascii ZArith List Bool Lia DecimalString DecimalZ DecimalPos.
Import ListNotations.

Definition text := list ascii.

Definition nl : ascii := "010"%char.
Definition is_nl (c : ascii) : bool := Ascii.eqb c nl.
(* the ASCII characters on which str.split() / str.strip() act: \t \n \v \f \r and space *)
Definition is_ws (c : ascii) : bool :=
  Ascii.eqb c "009" || Ascii.eqb c "010" || Ascii.eqb c "011" || Ascii.eqb c "012" || Ascii.eqb c "013" || Ascii.eqb c " ".

(* s.split(sep) for a one-character separator class: always at least one field *)
Fixpoint fields {A} (p : A -> bool) (l : list A) : list (list A) :=
  match l with
  | [] => [[]]
  | c :: r =>
      if p c then [] :: fields p r
      else match fields p r with f :: fs => (c :: f) :: fs | [] => [[c]] end
  end.

Definition nonnil {A} (l : list A) : bool := match l with [] => false | _ => true end.

(* line.split(): maximal runs of non-blank characters *)
Definition words (l : text) : list text := filter nonnil (fields is_ws l).

(* file2lines without the int conversion: [line.split() for line in readlines() if line.strip()] *)
Definition lex (t : text) : list (list text) := filter nonnil (map words (fields is_nl t)).

Fixpoint join {A} (sep : list A) (ws : list (list A)) : list A :=
  match ws with
  | [] => []
  | [w] => w
  | w :: r => w ++ sep ++ join sep r
  end.

(* the i-th line is joined with the i-th separator; lines are joined with newlines *)
Definition render (lines : list (ascii * list text)) : text :=
  join [nl] (map (fun sl => join [fst sl] (snd sl)) lines).

Definition clean (p : ascii -> bool) (w : text) : bool := forallb (fun c => negb (p c)) w.
Definition good_word (w : text) : bool := nonnil w && clean is_ws w.

(* ------------------------------------------------------------------------------------------ splitting undoes joining *)
Lemma fields_nonempty {A} (p : A -> bool) l : fields p l <> [].
Proof. induction l as [|c r IH]; simpl; [discriminate|]. destruct (p c); [discriminate|]. destruct (fields p r); discriminate. Qed.

Lemma fields_clean p (w : text) : clean p w = true -> fields p w = [w].
Proof.
  induction w as [|c w IH]; simpl; intros H; [reflexivity|]. apply andb_prop in H as [H1 H2].
  apply negb_true_iff in H1. rewrite H1, IH by exact H2. reflexivity.
Qed.

Lemma fields_app_sep p (w : text) c rest :
  clean p w = true -> p c = true -> fields p (w ++ c :: rest) = w :: fields p rest.
Proof.
  induction w as [|a w IH]; simpl; intros H Hc.
  - rewrite Hc. reflexivity.
  - apply andb_prop in H as [H1 H2]. apply negb_true_iff in H1. rewrite H1, IH by assumption. reflexivity.
Qed.

Lemma fields_join p c (ws : list text) :
  p c = true -> ws <> [] -> forallb (clean p) ws = true -> fields p (join [c] ws) = ws.
Proof.
  intros Hc. induction ws as [|w r IH]; intros Hne H; [congruence|].
  simpl in H. apply andb_prop in H as [H1 H2].
  destruct r as [|w' r'].
  - simpl. apply fields_clean. exact H1.
  - change (join [c] (w :: w' :: r')) with (w ++ [c] ++ join [c] (w' :: r')). simpl app.
    rewrite fields_app_sep by assumption. f_equal. apply IH; [discriminate|exact H2].
Qed.

Lemma filter_nonnil_id {A} (ws : list (list A)) : forallb nonnil ws = true -> filter nonnil ws = ws.
Proof.
  induction ws as [|w r IH]; simpl; intros H; [reflexivity|]. apply andb_prop in H as [H1 H2].
  rewrite H1, IH by exact H2. reflexivity.
Qed.

(* line.split() of sep.join(words) = words *)
Lemma words_join c (ws : list text) :
  is_ws c = true -> forallb good_word ws = true -> words (join [c] ws) = ws.
Proof.
  intros Hc H. unfold words. destruct ws as [|w r]; [reflexivity|].
  assert (H1 : forallb (clean is_ws) (w :: r) = true /\ forallb nonnil (w :: r) = true).
  { clear Hc. induction (w :: r) as [|x l IH]; [split; reflexivity|]. simpl in H. apply andb_prop in H as [Hx Hl].
    unfold good_word in Hx. apply andb_prop in Hx as [Hx1 Hx2]. destruct (IH Hl) as [I1 I2].
    split; simpl; rewrite ?Hx1, ?Hx2; assumption. }
  destruct H1 as [H1 H2]. rewrite fields_join by (try assumption; discriminate). apply filter_nonnil_id. exact H2.
Qed.

Lemma clean_app p (a b : text) : clean p (a ++ b) = clean p a && clean p b.
Proof. unfold clean. apply forallb_app. Qed.

Lemma clean_ws_nl (w : text) : clean is_ws w = true -> clean is_nl w = true.
Proof.
  unfold clean. induction w as [|c w IH]; simpl; intros H; [reflexivity|]. apply andb_prop in H as [H1 H2].
  rewrite IH by exact H2. rewrite andb_true_r. apply negb_true_iff. apply negb_true_iff in H1.
  unfold is_ws in H1. unfold is_nl, nl. repeat (apply orb_false_elim in H1 as [H1 ?]). assumption.
Qed.

Lemma clean_join_nl c (ws : list text) :
  is_nl c = false -> forallb good_word ws = true -> clean is_nl (join [c] ws) = true.
Proof.
  intros Hc. induction ws as [|w r IH]; intros H; [reflexivity|].
  simpl in H. apply andb_prop in H as [H1 H2]. unfold good_word in H1. apply andb_prop in H1 as [_ H1].
  destruct r as [|w' r'].
  - simpl. apply clean_ws_nl. exact H1.
  - change (join [c] (w :: w' :: r')) with (w ++ [c] ++ join [c] (w' :: r')).
    rewrite !clean_app. rewrite (clean_ws_nl w H1), (IH H2). simpl. rewrite Hc. reflexivity.
Qed.

Definition good_line (sl : ascii * list text) : bool :=
  is_ws (fst sl) && negb (is_nl (fst sl)) && nonnil (snd sl) && forallb good_word (snd sl).

(* the words file2lines sees are the words write_one joined, line by line *)
Theorem lex_render (lines : list (ascii * list text)) :
  forallb good_line lines = true -> lex (render lines) = map snd lines.
Proof.
  intros H. unfold lex, render. destruct lines as [|l0 ls]; [reflexivity|].
  rewrite fields_join.
  - rewrite map_map.
    rewrite (map_ext_in _ (@snd ascii (list text))).
    2:{ intros sl Hin. rewrite forallb_forall in H. specialize (H sl Hin).
        unfold good_line in H. rewrite !andb_true_iff in H. destruct H as [[[H1 _] _] H4]. apply words_join; assumption. }
    apply filter_nonnil_id. rewrite forallb_forall. intros ws Hin. apply in_map_iff in Hin as (sl & <- & Hin).
    rewrite forallb_forall in H. specialize (H sl Hin). unfold good_line in H. rewrite !andb_true_iff in H. tauto.
  - reflexivity.
  - discriminate.
  - rewrite forallb_forall. intros t Hin. apply in_map_iff in Hin as (sl & <- & Hin).
    rewrite forallb_forall in H. specialize (H sl Hin). unfold good_line in H. rewrite !andb_true_iff in H.
    destruct H as [[[_ H2] _] H4]. apply clean_join_nl; [apply negb_true_iff; exact H2|exact H4].
Qed.

(* ------------------------------------------------------------------------------------------ numerals *)
Definition str_of_Z (z : Z) : text := list_ascii_of_string (NilZero.string_of_int (Z.to_int z)).      (* str(z) *)
Definition Z_of_str (w : text) : option Z :=                                                           (* int(word), plain numerals *)
  option_map Z.of_int (NilZero.int_of_string (string_of_list_ascii w)).

Theorem Z_of_str_of_Z z : Z_of_str (str_of_Z z) = Some z.
Proof.
  unfold Z_of_str, str_of_Z. rewrite string_of_list_ascii_of_string. rewrite NilZero.isi.
  - simpl. f_equal. apply DecimalZ.of_to.
  - destruct z; simpl; try discriminate. intros E. injection E as E. exact (Unsigned.to_uint_nonnil _ E).
  - destruct z; simpl; try discriminate. intros E. injection E as E. exact (Unsigned.to_uint_nonnil _ E).
Qed.

Lemma uint_chars_clean d : clean is_ws (list_ascii_of_string (NilEmpty.string_of_uint d)) = true.
Proof. induction d; simpl; try reflexivity; exact IHd. Qed.

Lemma uint_nonnil_chars d : d <> Decimal.Nil -> nonnil (list_ascii_of_string (NilEmpty.string_of_uint d)) = true.
Proof. destruct d; simpl; congruence. Qed.

(* the numeral of an integer is a word: non-empty, no blank inside *)
Theorem str_of_Z_good z : good_word (str_of_Z z) = true.
Proof.
  unfold good_word, str_of_Z. destruct z as [|p|p]; [reflexivity| |].
  - simpl Z.to_int. unfold NilZero.string_of_int, NilZero.string_of_uint.
    pose proof (Unsigned.to_uint_nonnil p) as Hn. destruct (Pos.to_uint p) eqn:E; try congruence;
      (rewrite <- E || idtac); rewrite <- ?E; apply andb_true_intro; split;
      try (rewrite E; reflexivity); rewrite ?E; try apply (uint_chars_clean (Pos.to_uint p)); rewrite <- E; apply uint_chars_clean.
  - simpl Z.to_int. unfold NilZero.string_of_int, NilZero.string_of_uint.
    pose proof (Unsigned.to_uint_nonnil p) as Hn. destruct (Pos.to_uint p) eqn:E; try congruence;
      apply andb_true_intro; split; try reflexivity;
      change (clean is_ws ("-"%char :: list_ascii_of_string (NilEmpty.string_of_uint (Pos.to_uint p))) = true) || idtac;
      rewrite <- E; simpl; apply uint_chars_clean.
Qed.

(* a whole file of integers: printed, joined, split, parsed = the integers *)
Theorem ints_text_roundtrip (lines : list (ascii * list Z)) :
  forallb (fun sl => is_ws (fst sl) && negb (is_nl (fst sl)) && nonnil (snd sl)) lines = true ->
  map (map Z_of_str) (lex (render (map (fun sl => (fst sl, map str_of_Z (snd sl))) lines)))
  = map (fun sl => map Some (snd sl)) lines.
Proof.
  intros H. rewrite lex_render.
  - rewrite !map_map. apply map_ext. intros sl. simpl. rewrite map_map. apply map_ext. intros z. apply Z_of_str_of_Z.
  - rewrite forallb_forall. intros sl Hin. apply in_map_iff in Hin as (x & <- & Hin).
    rewrite forallb_forall in H. specialize (H x Hin). unfold good_line. simpl.
    rewrite !andb_true_iff in H. destruct H as [[H1 H2] H3]. rewrite H1, H2. simpl.
    apply andb_true_intro. split.
    + destruct (snd x); [discriminate|reflexivity].
    + rewrite forallb_forall. intros w Hw. apply in_map_iff in Hw as (z & <- & _). apply str_of_Z_good.
Qed.
