(* C19 -- dataset files: save_tensordict_to_npz / load_npz_to_tensordict bookkeeping and the env loaders
   that re-normalise what they read (CVRPEnv.load_data, MTVRPEnv.load_data), over an abstract ordered field.

   Source modelled:
     rl4co/data/utils.py            : load_npz_to_tensordict, save_tensordict_to_npz
     rl4co/data/generate_data.py    : generate_vrp_data (the layout only: depot [B,2], locs [B,n,2], demand [B,n],
                                      capacity [B]; the sampling is not modelled)
     rl4co/envs/routing/cvrp/env.py : CVRPEnv.load_data   (demand / capacity[:, None])
     rl4co/envs/routing/mtvrp/env.py: MTVRPEnv.load_data  (scale option)
     rl4co/envs/routing/cvrp/generator.py, mtvrp/generator.py : the layout their _generate emits

   NOT modelled (no executable model is possible; validated differentially by the harness on every run, stated as
   a hypothesis of every theorem that needs it): the npz byte format, i.e. that np.load after np.savez of a dict gives back
   the same keys, in the same order, with the same arrays.  It appears below as the section hypothesis [npz_io].

   An array is a nested list with its rank (0..3).  Broadcasting is modelled exactly for the shapes that occur:
   [B,n] / [C,1] and [B,n] / [C,1,1]; anything else is [OutOfModel].  A TensorDict is its batch size (one leading
   dimension) and its items in insertion order; TensorDict(...) and .set(...) refuse a value whose leading
   dimension differs from the batch size (RuntimeError "batch dimension mismatch"). *)
From Coq Require Import String Ring Field Ring_theory Field_theory List Bool Arith Lia.
From RL4CO Require Import Base.OField Base.OFieldExtra Data.Persist.
Import ListNotations.

Section Load.
  Variable K : ofield.
  Open Scope of_scope.
  Add Field Kf_c19 : (Fth K).

  Inductive arr :=
  | A0 (x : K)
  | A1 (v : list K)
  | A2 (m : list (list K))
  | A3 (t : list (list (list K))).

  Definition lead (a : arr) : option nat :=          (* a.shape[0] ; IndexError for a 0-d array *)
    match a with A0 _ => None | A1 v => Some (length v) | A2 m => Some (length m) | A3 t => Some (length t) end.

  Definition npz := list (string * arr).              (* dict(np.load(f)): keys in file order *)
  Record tdict := { td_bs : nat; td_items : npz }.

  Definition lead_is (b : nat) (a : arr) : bool :=
    match lead a with Some b' => Nat.eqb b' b | None => false end.

  (* TensorDict(x_dict, batch_size = first value's shape[0]) *)
  Definition load_npz (x : npz) : res tdict :=
    match x with
    | [] => Raises                                    (* list(x_dict.keys())[0] : IndexError *)
    | (_, a) :: _ =>
        match lead a with
        | None => Raises                              (* shape[0] of a 0-d array *)
        | Some b => if forallb (fun ka => lead_is b (snd ka)) x then Ok {| td_bs := b; td_items := x |} else Raises
        end
    end.

  (* {k: v.numpy() for k, v in td.items()} handed to np.savez *)
  Definition save_npz (t : tdict) : npz := td_items t.

  Fixpoint lookup (k : string) (x : npz) : option arr :=
    match x with [] => None | (k', a) :: r => if String.eqb k k' then Some a else lookup k r end.
  Fixpoint replace (k : string) (a : arr) (x : npz) : npz :=
    match x with
    | [] => [(k, a)]
    | (k', a') :: r => if String.eqb k k' then (k, a) :: r else (k', a') :: replace k a r
    end.
  Definition td_get (t : tdict) (k : string) : res arr :=
    match lookup k (td_items t) with Some a => Ok a | None => Raises end.      (* KeyError *)
  Definition td_set (t : tdict) (k : string) (a : arr) : res tdict :=
    if lead_is (td_bs t) a then Ok {| td_bs := td_bs t; td_items := replace k a (td_items t) |} else Raises.

  (* x[:, None] *)
  Definition none_axis1 (a : arr) : res arr :=
    match a with
    | A0 _ => Raises                                  (* too many indices *)
    | A1 v => Ok (A2 (map (fun x => [x]) v))
    | A2 m => Ok (A3 (map (fun row => [row]) m))
    | A3 _ => OutOfModel
    end.

  Definition rows_div (rows : list (list K)) (c : K) : list (list K) := map (map (fun d => d / c)) rows.

  (* d / c with numpy broadcasting, for d of shape [B,n] and c of shape [C,1] or [C,1,1] *)
  Definition div_bcast (d c : arr) : res arr :=
    match d, c with
    | A2 dm, A2 cm =>
        if forallb (fun r => Nat.eqb (length r) 1) cm then
          let cs := map (fun r => hd f0 r) cm in
          if Nat.eqb (length cm) (length dm) then Ok (A2 (map2 (fun row c => map (fun x => x / c) row) dm cs))
          else if Nat.eqb (length cm) 1 then Ok (A2 (rows_div dm (hd f0 cs)))
          else if Nat.eqb (length dm) 1 then Ok (A2 (map (fun c => map (fun x => x / c) (hd [] dm)) cs))
          else Raises                                  (* shapes cannot be broadcast *)
        else OutOfModel
    | A2 dm, A3 ct =>
        if forallb (fun p => match p with [[_]] => true | _ => false end) ct then
          Ok (A3 (map (fun p => rows_div dm (hd f0 (hd [] p))) ct))        (* [C,B,n] *)
        else OutOfModel
    | _, _ => OutOfModel
    end.

  (* CVRPEnv.load_data *)
  Definition cvrp_load (x : npz) : res tdict :=
    bind (load_npz x) (fun t =>
    bind (td_get t "demand") (fun d =>
    bind (td_get t "capacity") (fun c =>
    bind (none_axis1 c) (fun c' =>
    bind (div_bcast d c') (fun q => td_set t "demand" q))))).

  (* MTVRPEnv.load_data *)
  Definition mtvrp_load (scale : bool) (x : npz) : res tdict :=
    bind (load_npz x) (fun t =>
      if scale then
        bind (td_get t "demand_linehaul") (fun dl =>
        bind (td_get t "capacity_original") (fun co =>
        bind (div_bcast dl co) (fun ql =>
        bind (td_set t "demand_linehaul" ql) (fun t1 =>
        bind (td_get t1 "demand_backhaul") (fun db =>
        bind (td_get t1 "capacity_original") (fun co' =>
        bind (div_bcast db co') (fun qb => td_set t1 "demand_backhaul" qb)))))))
      else Ok t).

  (* ---------------------------------------------------------------------------------------- layouts *)
  (* generate_vrp_data(dataset_size = B, vrp_size = n): what np.savez receives, in this order *)
  Definition vrp_file (depot : list (list K)) (locs : list (list (list K))) (demand : list (list K)) (cap : list K) : npz :=
    [("depot"%string, A2 depot); ("locs"%string, A3 locs); ("demand"%string, A2 demand); ("capacity"%string, A1 cap)].

  (* CVRPGenerator._generate: locs, depot, demand (already divided by the capacity), capacity [B,1] *)
  Definition cvrp_gen_td (locs : list (list (list K))) (depot : list (list K)) (demand : list (list K)) (cap : list K) : tdict :=
    {| td_bs := length locs;
       td_items := [("locs"%string, A3 locs); ("depot"%string, A2 depot); ("demand"%string, A2 demand);
                    ("capacity"%string, A2 (map (fun c => [c]) cap))] |}.

  (* the keys of MTVRPGenerator._generate that load_data touches or that the capacity test reads; [others] stands
     for locs, distance_limit, time_windows, service_time, open_route, speed *)
  Definition mtvrp_td (others : npz) (dl db : list (list K)) (vcap cap0 : list K) : tdict :=
    {| td_bs := length dl;
       td_items := ("demand_backhaul"%string, A2 db) :: ("demand_linehaul"%string, A2 dl)
                   :: ("vehicle_capacity"%string, A2 (map (fun c => [c]) vcap))
                   :: ("capacity_original"%string, A2 (map (fun c => [c]) cap0)) :: others |}.

  Definition td_wfb (t : tdict) : bool :=
    negb (Nat.eqb (length (td_items t)) 0) && forallb (fun ka => lead_is (td_bs t) (snd ka)) (td_items t).

  (* ---------------------------------------------------------------------------------------- npz round trip *)
  Section IO.
    Variable file : Type.
    Variable np_savez : npz -> file.
    Variable np_load : file -> npz.
    Hypothesis npz_io : forall x, np_load (np_savez x) = x.

    (* save_tensordict_to_npz then load_npz_to_tensordict: same batch size, same keys in the same order, same arrays *)
    Theorem npz_roundtrip t : td_wfb t = true -> load_npz (np_load (np_savez (save_npz t))) = Ok t.
    Proof.
      intros H. rewrite npz_io. unfold td_wfb in H. apply andb_prop in H as [H1 H2].
      destruct t as [b items]. unfold save_npz, load_npz. cbn [td_items td_bs] in *.
      destruct items as [|[k a] r]; [discriminate|].
      pose proof H2 as H3. cbn [forallb snd] in H3. apply andb_prop in H3 as [H3 _].
      unfold lead_is in H3. destruct (lead a) as [b'|] eqn:E; [|discriminate].
      apply Nat.eqb_eq in H3. subst b'. rewrite H2. reflexivity.
    Qed.

    Theorem npz_load_rejects_empty : load_npz (np_load (np_savez [])) = Raises.
    Proof. rewrite npz_io. reflexivity. Qed.

    (* a dataset file whose arrays disagree on the leading dimension is refused, not truncated *)
    Theorem npz_load_rejects_mismatch x b :
      match x with (_, a) :: _ => lead a = Some b | [] => False end ->
      forallb (fun ka => lead_is b (snd ka)) x = false -> load_npz (np_load (np_savez x)) = Raises.
    Proof.
      intros H1 H2. rewrite npz_io. unfold load_npz. destruct x as [|[k a] r]; [contradiction|].
      rewrite H1, H2. reflexivity.
    Qed.
  End IO.

  (* ---------------------------------------------------------------------------------------- CVRP *)
  Definition norm_rows (demand : list (list K)) (cap : list K) : list (list K) :=
    map2 (fun row c => map (fun x => x / c) row) demand cap.

  Lemma map_hd_singletons (l : list K) : map (fun r => hd f0 r) (map (fun x => [x]) l) = l.
  Proof. induction l as [|x l IH]; simpl; [reflexivity|]. rewrite IH. reflexivity. Qed.

  Lemma forallb_singletons (l : list K) : forallb (fun r : list K => Nat.eqb (length r) 1) (map (fun x => [x]) l) = true.
  Proof. induction l as [|x l IH]; simpl; [reflexivity|]. exact IH. Qed.

  (* generate_vrp_data -> np.savez -> CVRPEnv.load_data: every key kept, demand row b divided by capacity b *)
  Theorem cvrp_load_file_layout depot locs demand cap :
    let B := length demand in
    length depot = B -> length locs = B -> length cap = B ->
    cvrp_load (vrp_file depot locs demand cap)
    = Ok {| td_bs := B; td_items := vrp_file depot locs (norm_rows demand cap) cap |}.
  Proof.
    intros B H1 H2 H3. unfold cvrp_load, vrp_file, load_npz. cbn [lead forallb snd lead_is].
    rewrite H1, H2, H3. unfold B. rewrite !Nat.eqb_refl. cbn [andb bind].
    unfold td_get. cbn [td_items lookup String.eqb Ascii.eqb Bool.eqb andb bind none_axis1 div_bcast].
    rewrite forallb_singletons, map_length, H3, Nat.eqb_refl, map_hd_singletons. cbn [bind].
    unfold td_set. cbn [td_bs lead_is lead td_items].
    assert (HL : length (map2 (fun row c => map (fun x => x / c) row) demand cap) = length demand).
    { clear -H3. revert cap H3. induction demand as [|r d IH]; intros [|c cap] H; simpl in *; try discriminate; [reflexivity|].
      f_equal. apply IH. lia. }
    rewrite HL, Nat.eqb_refl. reflexivity.
  Qed.

  Lemma nth_norm_rows demand cap b i :
    length cap = length demand -> (b < length demand)%nat ->
    nth i (nth b (norm_rows demand cap) []) f0 = nth i (nth b demand []) f0 / nth b cap f0
    \/ (length (nth b demand []) <= i)%nat.
  Proof.
    unfold norm_rows. revert cap b. induction demand as [|r d IH]; intros [|c cap] b H Hb; simpl in *; try lia.
    destruct b as [|b].
    - destruct (Nat.lt_ge_cases i (length r)) as [Hi|Hi]; [left|right; exact Hi].
      rewrite (nth_indep _ f0 ((fun x => x / c) f0)) by (rewrite map_length; exact Hi).
      apply (map_nth (fun x => x / c)).
    - apply IH; lia.
  Qed.

  (* what the environment expects: a fraction of the capacity, in [0,1] whenever 0 <= raw demand <= capacity *)
  Theorem normalised_in_unit_interval (d c : K) :
    flt f0 c -> fle f0 d -> fle d c -> fle f0 (d / c) /\ fle (d / c) f1.
  Proof.
    intros Hc Hd Hdc. split.
    - apply (fdiv_nonneg K); assumption.
    - rewrite <- (fdiv_self K c) by (apply (flt_neq' K); exact Hc). apply (fle_div_pos K); assumption.
  Qed.

  Theorem normalised_positive (d c : K) : flt f0 c -> flt f0 d -> flt f0 (d / c).
  Proof. intros Hc Hd. apply (fdiv_pos K); assumption. Qed.

  (* feasibility is preserved: a set of customers fits the unit vehicle after loading iff it fitted the raw capacity *)
  Theorem normalised_load_equiv (ds : list K) (c : K) :
    flt f0 c -> (fsum (map (fun d => d / c) ds) <=? f1) = (fsum ds <=? c).
  Proof.
    intros Hc. rewrite (fsum_map_div K) by (apply (flt_neq' K); exact Hc).
    rewrite <- (fdiv_self K c) at 1 by (apply (flt_neq' K); exact Hc). apply (fleb_div_pos K). exact Hc.
  Qed.

  (* the raw demand is recovered exactly (nothing is lost by the normalisation) *)
  Theorem normalised_recover (d c : K) : flt f0 c -> (d / c) * c = d.
  Proof. intros Hc. field. apply (flt_neq' K). exact Hc. Qed.

  (* FINDING (model follows the code): a TensorDict in the layout CVRPGenerator emits (capacity [B,1], demand already
     normalised), saved with save_tensordict_to_npz and read back by CVRPEnv.load_data, is accepted without error and
     its demand becomes a rank-3 [B,B,n] array of doubly normalised values. *)
  Theorem cvrp_load_generator_layout_rank3 locs depot demand cap :
    let B := length demand in
    length depot = B -> length locs = B -> length cap = B ->
    cvrp_load (save_npz (cvrp_gen_td locs depot demand cap))
    = Ok {| td_bs := B;
            td_items := [("locs"%string, A3 locs); ("depot"%string, A2 depot);
                         ("demand"%string, A3 (map (fun c => rows_div demand c) cap));
                         ("capacity"%string, A2 (map (fun c => [c]) cap))] |}.
  Proof.
    intros B H1 H2 H3. unfold cvrp_load, save_npz, cvrp_gen_td, load_npz. cbn [td_items lead forallb snd lead_is].
    rewrite map_length, H1, H2, H3. unfold B. rewrite !Nat.eqb_refl. cbn [andb bind].
    unfold td_get. cbn [td_items lookup String.eqb Ascii.eqb Bool.eqb andb bind none_axis1 div_bcast].
    rewrite map_map.
    assert (HF : forallb (fun p : list (list K) => match p with [[_]] => true | _ => false end)
                   (map (fun x : K => [[x]]) cap) = true) by (clear; induction cap; simpl; auto).
    rewrite HF. cbn [bind]. rewrite map_map. cbn [hd].
    unfold td_set. cbn [td_bs lead_is lead td_items]. rewrite map_length, H3, Nat.eqb_refl. reflexivity.
  Qed.

  (* ---------------------------------------------------------------------------------------- MTVRP *)
  Theorem mtvrp_load_noscale x : mtvrp_load false x = load_npz x.
  Proof. unfold mtvrp_load. destruct (load_npz x); reflexivity. Qed.

  Lemma length_norm_rows demand cap : length cap = length demand -> length (norm_rows demand cap) = length demand.
  Proof.
    unfold norm_rows. revert cap. induction demand as [|r d IH]; intros [|c cap] H; simpl in *; try discriminate; [reflexivity|].
    f_equal. apply IH. lia.
  Qed.

  (* scale = True: both demands are divided row-wise by capacity_original; every other key, vehicle_capacity
     included, is returned as stored *)
  Theorem mtvrp_load_scale others dl db vcap cap0 :
    let B := length dl in
    length db = B -> length vcap = B -> length cap0 = B ->
    forallb (fun ka => lead_is B (snd ka)) others = true ->
    mtvrp_load true (save_npz (mtvrp_td others dl db vcap cap0))
    = Ok (mtvrp_td others (norm_rows dl cap0) (norm_rows db cap0) vcap cap0).
  Proof.
    intros B H1 H2 H3 H4. subst B.
    assert (E1 : length (norm_rows dl cap0) = length dl) by (apply length_norm_rows; exact H3).
    assert (E2 : length (norm_rows db cap0) = length dl) by (rewrite length_norm_rows; congruence).
    unfold mtvrp_load, save_npz, mtvrp_td, load_npz. cbn [td_items lead forallb snd lead_is].
    rewrite !map_length, H1, H2, H3. rewrite !Nat.eqb_refl, H4. cbn [andb bind].
    unfold td_get. cbn [td_items lookup String.eqb Ascii.eqb Bool.eqb andb bind div_bcast].
    rewrite forallb_singletons, map_length, H3. rewrite Nat.eqb_refl, map_hd_singletons. cbn [bind].
    unfold td_set at 1. cbn [td_bs lead_is lead td_items]. fold (norm_rows dl cap0).
    rewrite E1, Nat.eqb_refl. cbn [bind].
    cbn [td_items replace String.eqb Ascii.eqb Bool.eqb andb lookup bind div_bcast].
    rewrite forallb_singletons, map_length, H3, H1, Nat.eqb_refl, map_hd_singletons. cbn [bind].
    unfold td_set. cbn [td_bs lead_is lead td_items]. fold (norm_rows db cap0).
    rewrite E2, Nat.eqb_refl.
    cbn [replace String.eqb Ascii.eqb Bool.eqb andb]. reflexivity.
  Qed.
End Load.

Arguments A0 {K}. Arguments A1 {K}. Arguments A2 {K}. Arguments A3 {K}.

(* ------------------------------------------------------------------------------------------ consequences *)
Section Findings.
  Variable K : ofield.
  Open Scope of_scope.
  Add Field Kf_c19b : (Fth K).

  (* the generator layout does NOT survive save_tensordict_to_npz -> CVRPEnv.load_data, for any data whatsoever *)
  Theorem cvrp_load_generator_layout_not_identity locs depot demand cap :
    length depot = length demand -> length locs = length demand -> length cap = length demand ->
    cvrp_load K (save_npz K (cvrp_gen_td K locs depot demand cap)) <> Ok (cvrp_gen_td K locs depot demand cap).
  Proof.
    intros H1 H2 H3. rewrite (cvrp_load_generator_layout_rank3 K locs depot demand cap H1 H2 H3).
    unfold cvrp_gen_td. intros E. inversion E.
  Qed.

  (* MTVRPEnv.load_data(scale=True) on unscaled data: the demands are divided by the capacity, vehicle_capacity is
     not, so "the customers ds fit the vehicle" after loading means fsum ds <= c * c instead of fsum ds <= c *)
  Theorem mtvrp_scaled_capacity_test (ds : list K) (c : K) :
    flt f0 c -> (fsum (map (fun d => d / c) ds) <=? c) = (fsum ds <=? c * c).
  Proof.
    intros Hc. rewrite (fsum_map_div K) by (apply (flt_neq' K); exact Hc).
    replace c with ((c * c) / c) at 2 by (field; apply (flt_neq' K); exact Hc).
    apply (fleb_div_pos K). exact Hc.
  Qed.
End Findings.
