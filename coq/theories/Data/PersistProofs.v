(* C19 -- proofs about the text codec model of Data/Persist.v: read (write i) = the instance up to padding,
   for every number of jobs / machines / operations per job, every processing time, every max_ops. *)
From Coq Require Import ZArith List Bool Lia ZifyBool Arith.
From RL4CO Require Import Data.Persist.
Import ListNotations.
Open Scope Z_scope.

(* ------------------------------------------------------------------------------------------ generic lemmas *)
Lemma mapM_ok {A B} (f : A -> res B) (g : A -> B) l :
  (forall x, In x l -> f x = Ok (g x)) -> mapM f l = Ok (map g l).
Proof.
  induction l as [|a l IH]; simpl; intros H; [reflexivity|].
  rewrite H by (left; reflexivity). simpl. rewrite IH by (intros; apply H; right; assumption). reflexivity.
Qed.

Lemma mapM_map_ok {A B} (f : B -> res A) (h : A -> B) l :
  (forall x, f (h x) = Ok x) -> mapM f (map h l) = Ok l.
Proof. intros H. induction l as [|a l IH]; simpl; [reflexivity|]. rewrite H. simpl. rewrite IH. reflexivity. Qed.

Lemma filter_nil_in {A} (p : A -> bool) l : (forall x, In x l -> p x = false) -> filter p l = [].
Proof.
  induction l as [|a l IH]; simpl; intros H; [reflexivity|].
  rewrite H by (left; reflexivity). apply IH. intros; apply H; right; assumption.
Qed.

Lemma filter_id_in {A} (p : A -> bool) l : (forall x, In x l -> p x = true) -> filter p l = l.
Proof.
  induction l as [|a l IH]; simpl; intros H; [reflexivity|].
  rewrite H by (left; reflexivity). f_equal. apply IH. intros; apply H; right; assumption.
Qed.

Lemma filter_between a n W :
  (a + n <= W)%nat -> filter (fun o => (a <=? o)%nat && (o <? a + n)%nat) (seq 0 W) = seq a n.
Proof.
  intros H. replace W with (a + (n + (W - a - n)))%nat by lia.
  rewrite !seq_app, !filter_app. simpl.
  rewrite (filter_nil_in _ (seq 0 a)), (filter_id_in _ (seq a n)), (filter_nil_in _ (seq (a + n) _)).
  - rewrite app_nil_r. reflexivity.
  - intros x Hx. apply in_seq in Hx. lia.
  - intros x Hx. apply in_seq in Hx. lia.
  - intros x Hx. apply in_seq in Hx. lia.
Qed.

Lemma nth_map_seq0 {B} (f : nat -> B) (d : B) n k : (k < n)%nat -> nth k (map f (seq 0 n)) d = f k.
Proof.
  intros H. rewrite (nth_indep _ d (f 0%nat)) by (rewrite map_length, seq_length; exact H).
  rewrite map_nth, seq_nth by exact H. reflexivity.
Qed.

Lemma map_seq_nth {A B} (f : A -> B) d l : map (fun j => f (nth j l d)) (seq 0 (length l)) = map f l.
Proof.
  induction l as [|a l IH]; simpl; [reflexivity|]. f_equal. rewrite <- seq_shift, map_map. exact IH.
Qed.

Lemma idx_from_map_seq {A} (p : A -> bool) (f : nat -> A) n k :
  idx_from p k (map f (seq k n)) = filter (fun i => p (f i)) (seq k n).
Proof. revert k; induction n as [|n IH]; intros k; simpl; [reflexivity|]. rewrite IH. reflexivity. Qed.

Lemma idx_from_In {A} (p : A -> bool) d l : forall k m,
  In m (idx_from p k l) <-> (k <= m < k + length l)%nat /\ p (nth (m - k) l d) = true.
Proof.
  induction l as [|x r IH]; intros k m; simpl.
  - split; [intros []|lia].
  - destruct (p x) eqn:E; simpl; rewrite IH.
    + split.
      * intros [<-|[H1 H2]].
        -- rewrite Nat.sub_diag. split; [lia|exact E].
        -- split; [lia|]. replace (m - k)%nat with (S (m - S k)) by lia. exact H2.
      * intros [H1 H2]. destruct (Nat.eq_dec k m) as [->|Hne]; [left; reflexivity|right].
        split; [lia|]. replace (m - k)%nat with (S (m - S k)) in H2 by lia. exact H2.
    + split.
      * intros [H1 H2]. split; [lia|]. replace (m - k)%nat with (S (m - S k)) by lia. exact H2.
      * intros [H1 H2]. destruct (Nat.eq_dec k m) as [->|Hne].
        -- rewrite Nat.sub_diag in H2. congruence.
        -- split; [lia|]. replace (m - k)%nat with (S (m - S k)) in H2 by lia. exact H2.
Qed.

Lemma zlist_eqb_eq a b : zlist_eqb a b = true -> a = b.
Proof.
  revert b; induction a as [|x a IH]; intros [|y b]; simpl; try discriminate; [reflexivity|].
  intros H. apply andb_prop in H as [H1 H2]. apply Z.eqb_eq in H1. subst. f_equal. apply IH; exact H2.
Qed.

Lemma blist_eqb_eq a b : blist_eqb a b = true -> a = b.
Proof.
  revert b; induction a as [|x a IH]; intros [|y b]; simpl; try discriminate; [reflexivity|].
  intros H. apply andb_prop in H as [H1 H2]. apply eqb_prop in H1. subst. f_equal. apply IH; exact H2.
Qed.

(* ------------------------------------------------------------------------------------------ job structure *)
Lemma sumN_app a b : sumN (a ++ b) = (sumN a + sumN b)%nat.
Proof. induction a as [|x a IH]; simpl; lia. Qed.

Lemma sumN_firstn_le l k : (sumN (firstn k l) <= sumN l)%nat.
Proof. rewrite <- (firstn_skipn k l) at 2. rewrite sumN_app. lia. Qed.

Lemma sumN_firstn_S l j : (j < length l)%nat -> sumN (firstn (S j) l) = (sumN (firstn j l) + nth j l 0)%nat.
Proof.
  revert j; induction l as [|x l IH]; intros j H; simpl in H; [lia|].
  destruct j as [|j]; [simpl; lia|].
  change (firstn (S (S j)) (x :: l)) with (x :: firstn (S j) l).
  change (firstn (S j) (x :: l)) with (x :: firstn j l). cbn [sumN nth]. rewrite IH by lia. lia.
Qed.

Lemma cstarts_length s l : length (cstarts s l) = length l.
Proof. revert s; induction l; intros; simpl; auto. Qed.
Lemma cends_length s l : length (cends s l) = length l.
Proof. revert s; induction l; intros; simpl; auto. Qed.

Lemma nth_cstarts l : forall s j, (j < length l)%nat -> nth j (cstarts s l) 0%nat = (s + sumN (firstn j l))%nat.
Proof.
  induction l as [|x l IH]; intros s j H; simpl in H; [lia|].
  destruct j as [|j]; simpl; [lia|]. rewrite IH by lia. lia.
Qed.

Lemma nth_cends l : forall s j, (j < length l)%nat -> nth j (cends s l) 0%nat = (s + sumN (firstn (S j) l))%nat.
Proof.
  induction l as [|x l IH]; intros s j H; simpl in H; [lia|].
  destruct j as [|j].
  - simpl. destruct l; simpl; lia.
  - change (nth (S j) (cends s (x :: l)) 0%nat) with (nth j (cends (s + x) l) 0%nat).
    rewrite IH by lia. change (firstn (S (S j)) (x :: l)) with (x :: firstn (S j) l). cbn [sumN]. lia.
Qed.

Lemma concat_spans l : forall s,
  concat (map (fun sn => seq (fst sn) (snd sn)) (combine (cstarts s l) l)) = seq s (sumN l).
Proof.
  induction l as [|x l IH]; intros s; simpl; [reflexivity|]. rewrite IH, seq_app. reflexivity.
Qed.

Lemma map_snd_combine {A B C} (f : B -> C) (a : list A) (b : list B) :
  length a = length b -> map (fun p => f (snd p)) (combine a b) = map f b.
Proof.
  revert b; induction a as [|x a IH]; intros [|y b] H; simpl in *; try discriminate; [reflexivity|].
  f_equal. apply IH. lia.
Qed.

Lemma cumsum_ends l : forall s, cumsum (Z.of_nat s) (map Z.of_nat l) = map Z.of_nat (cends s l).
Proof.
  induction l as [|x l IH]; intros s; simpl; [reflexivity|].
  rewrite <- Nat2Z.inj_add. rewrite IH. reflexivity.
Qed.

Lemma starts_from_ends l : forall s, l <> [] ->
  Z.of_nat s :: map (fun x => x + 1) (removelast (map (fun x => x - 1) (map Z.of_nat (cends s l))))
  = map Z.of_nat (cstarts s l).
Proof.
  induction l as [|x l IH]; intros s H; [congruence|].
  destruct l as [|y l].
  - simpl. reflexivity.
  - specialize (IH (s + x)%nat ltac:(discriminate)).
    change (cends s (x :: y :: l)) with ((s + x)%nat :: cends (s + x) (y :: l)).
    change (cstarts s (x :: y :: l)) with (s :: cstarts (s + x) (y :: l)).
    rewrite !map_cons.
    remember (map (fun x0 => x0 - 1) (map Z.of_nat (cends (s + x) (y :: l)))) as R eqn:ER.
    assert (HR : R <> []) by (subst R; simpl; discriminate).
    destruct R as [|r R]; [congruence|].
    change (removelast ((Z.of_nat (s + x)%nat - 1) :: r :: R)) with ((Z.of_nat (s + x)%nat - 1) :: removelast (r :: R)).
    rewrite map_cons. f_equal. rewrite <- IH. f_equal. lia.
Qed.

(* ------------------------------------------------------------------------------------------ well-formedness, unfolded *)
Record wfP (g : ginst) (l : list nat) : Prop := {
  wp_nz : l <> [];
  wp_start : g_start g = map Z.of_nat (cstarts 0 l);
  wp_end : g_end g = map (fun x => Z.of_nat x - 1) (cends 0 l);
  wp_nops : g_nops g = map Z.of_nat l;
  wp_total1 : (1 <= sumN l)%nat;
  wp_totalW : (sumN l <= g_W g)%nat;
  wp_pad : g_pad g = map (fun o => Z.of_nat (sumN l) <=? Z.of_nat o) (seq 0 (g_W g));
  wp_rows : forall row, In row (g_pt g) -> length row = g_W g;
  wp_nonneg : forall m o, (o < sumN l)%nat -> 0 <= mget (g_pt g) m o
}.

Lemma sumZ_of_nat l : sumZ (map Z.of_nat l) = Z.of_nat (sumN l).
Proof. induction l as [|x l IH]; simpl; [reflexivity|]. rewrite IH. lia. Qed.

Lemma of_to_nat_list l : forallb (fun n => 0 <=? n) l = true -> map Z.of_nat (map Z.to_nat l) = l.
Proof.
  induction l as [|x l IH]; simpl; intros H; [reflexivity|]. apply andb_prop in H as [H1 H2].
  rewrite IH by exact H2. f_equal. lia.
Qed.

Lemma wfP_total g l : wfP g l -> g_total g = Z.of_nat (sumN l).
Proof. intros H. unfold g_total. rewrite (wp_nops _ _ H). apply sumZ_of_nat. Qed.

Lemma wf_fjspb_wfP g : wf_fjspb g = true -> wfP g (map Z.to_nat (g_nops g)).
Proof.
  unfold wf_fjspb. intros H.
  rewrite !andb_true_iff in H.
  destruct H as [[[[[[[[[H Hlen] Hnops] Hstart] Hend] Ht1] HtW] Hpad] Hrows] Hnn].
  pose proof (of_to_nat_list _ Hnops) as Hl.
  assert (Htot : sumZ (g_nops g) = Z.of_nat (sumN (map Z.to_nat (g_nops g)))) by (rewrite <- sumZ_of_nat, Hl; reflexivity).
  constructor.
  - intros E. apply map_eq_nil in E. unfold g_nops in E. apply map_eq_nil in E.
    destruct (g_start g) as [|a sa]; [simpl in H; discriminate|].
    destruct (g_end g) as [|b sb]; [simpl in Hlen; discriminate|]. simpl in E. discriminate.
  - apply zlist_eqb_eq. exact Hstart.
  - apply zlist_eqb_eq. exact Hend.
  - symmetry. exact Hl.
  - lia.
  - lia.
  - rewrite <- Htot. apply blist_eqb_eq. exact Hpad.
  - intros row Hin. rewrite forallb_forall in Hrows. apply Hrows in Hin. apply Nat.eqb_eq. exact Hin.
  - intros m o Ho. unfold mget.
    destruct (Nat.lt_ge_cases m (length (g_pt g))) as [Hm|Hm].
    + rewrite forallb_forall in Hnn. specialize (Hnn (nth m (g_pt g) []) (nth_In _ _ Hm)).
      rewrite forallb_forall in Hnn.
      destruct (Nat.lt_ge_cases o (length (nth m (g_pt g) []))) as [Ho'|Ho'].
      * assert (Hin : In (nth o (nth m (g_pt g) []) 0) (firstn (Z.to_nat (sumZ (g_nops g))) (nth m (g_pt g) []))).
        { rewrite <- (firstn_skipn (Z.to_nat (sumZ (g_nops g))) (nth m (g_pt g) [])) at 1.
          rewrite app_nth1 by (rewrite firstn_length; lia).
          apply nth_In. rewrite firstn_length. lia. }
        apply Hnn in Hin. lia.
      * rewrite (nth_overflow _ _ Ho'). lia.
    + rewrite (nth_overflow (g_pt g) [] Hm). destruct o; simpl; lia.
Qed.

(* ------------------------------------------------------------------------------------------ what is written *)
Definition pairs (g : ginst) (o : nat) : list (Z * Z) :=
  map (fun m => (Z.of_nat m + 1, mget (g_pt g) m o)) (elig (g_pt g) o).
Definition flatp (ps : list (Z * Z)) : list Z := concat (map (fun p => [fst p; snd p]) ps).
Definition optoks (g : ginst) (o : nat) : list Z := Z.of_nat (length (pairs g o)) :: flatp (pairs g o).
Definition jline (g : ginst) (s n : nat) : list Z := Z.of_nat n :: concat (map (optoks g) (seq s n)).

Lemma nth_col pt m o : nth m (col pt o) 0 = mget pt m o.
Proof.
  unfold col, mget.
  assert (E : 0 = (fun row : list Z => nth o row 0) []) by (destruct o; reflexivity).
  rewrite E at 1. exact (map_nth (fun row : list Z => nth o row 0) pt [] m).
Qed.

Lemma elig_In pt o m : In m (elig pt o) <-> (m < length pt)%nat /\ mget pt m o <> 0.
Proof.
  unfold elig. rewrite (idx_from_In _ 0). unfold col at 1. rewrite map_length, Nat.sub_0_r, nth_col.
  split; intros [H1 H2]; (split; [lia|]); lia.
Qed.

Lemma write_op_ok g l o : wfP g l -> (o < sumN l)%nat -> write_op (g_pt g) o = Ok (optoks g o).
Proof.
  intros Hw Ho. unfold write_op.
  rewrite (mapM_ok _ (fun m => [Z.of_nat m + 1; mget (g_pt g) m o])).
  - simpl. unfold optoks, pairs, flatp. rewrite !map_length, map_map. reflexivity.
  - intros m Hm. apply elig_In in Hm as [Hm1 Hm2]. rewrite nth_col.
    pose proof (wp_nonneg _ _ Hw m o Ho) as Hnn.
    destruct (0 <? mget (g_pt g) m o) eqn:E; [reflexivity|lia].
Qed.

Section Structure.
  Variables (g : ginst) (l : list nat).
  Hypothesis Hw : wfP g l.

  Let sj (j : nat) : nat := nth j (cstarts 0 l) 0%nat.
  Let nj_ (j : nat) : nat := nth j l 0%nat.

  Lemma len_start : length (g_start g) = length l.
  Proof. rewrite (wp_start _ _ Hw), map_length, cstarts_length. reflexivity. Qed.
  Lemma len_end : length (g_end g) = length l.
  Proof. rewrite (wp_end _ _ Hw), map_length, cends_length. reflexivity. Qed.

  Lemma span_bounds j : (j < length l)%nat ->
    sj j = sumN (firstn j l) /\ (sj j + nj_ j <= sumN l)%nat /\
    nth j (cends 0 l) 0%nat = (sj j + nj_ j)%nat /\ (S j = length l -> (sj j + nj_ j)%nat = sumN l).
  Proof.
    intros Hj. unfold sj, nj_. rewrite nth_cstarts by exact Hj. rewrite nth_cends by exact Hj.
    rewrite !Nat.add_0_l. rewrite sumN_firstn_S by exact Hj.
    pose proof (sumN_firstn_le l (S j)) as Hle. rewrite sumN_firstn_S in Hle by exact Hj.
    repeat split; try lia.
    intros E. rewrite <- sumN_firstn_S by exact Hj. rewrite E, firstn_all. reflexivity.
  Qed.

  Lemma nth_start j : (j < length l)%nat -> nth j (g_start g) 0 = Z.of_nat (sj j).
  Proof.
    intros Hj. rewrite (wp_start _ _ Hw). unfold sj.
    change 0 with (Z.of_nat 0) at 1. apply map_nth.
  Qed.

  Lemma nth_end j : (j < length l)%nat -> nth j (g_end g) 0 = Z.of_nat (sj j + nj_ j) - 1.
  Proof.
    intros Hj. rewrite (wp_end _ _ Hw).
    rewrite (nth_indep _ 0 (Z.of_nat 0 - 1)) by (rewrite map_length, cends_length; exact Hj).
    pose proof (map_nth (fun x : nat => Z.of_nat x - 1) (cends 0 l) 0%nat j) as E0. cbv beta in E0. rewrite E0. clear E0.
    destruct (span_bounds j Hj) as (_ & _ & E & _). rewrite E. reflexivity.
  Qed.

  Lemma adj_row j : (j < length l)%nat ->
    idx_from (fun b : bool => b) 0%nat (nth j (reset_adj g) []) = seq (sj j) (nj_ j).
  Proof.
    intros Hj. unfold reset_adj. rewrite len_end. rewrite nth_map_seq0 by exact Hj.
    rewrite idx_from_map_seq.
    destruct (span_bounds j Hj) as (_ & Hb & _ & Hlast).
    pose proof (wp_totalW _ _ Hw) as HW.
    rewrite <- (filter_between (sj j) (nj_ j) (g_W g)) by lia.
    apply filter_ext_in. intros o Ho. apply in_seq in Ho.
    rewrite nth_start by exact Hj. rewrite (wp_pad _ _ Hw), nth_map_seq0 by lia.
    destruct (Nat.eqb (S j) (length l)) eqn:E.
    - apply Nat.eqb_eq in E. specialize (Hlast E). lia.
    - rewrite nth_end by exact Hj. lia.
  Qed.

  Lemma write_job_ok j : (j < length l)%nat -> write_job (reset_view g) j = Ok (jline g (sj j) (nj_ j)).
  Proof.
    intros Hj. unfold write_job. cbn [w_adj w_pt reset_view]. rewrite adj_row by exact Hj.
    rewrite (mapM_ok _ (optoks g)).
    - simpl. rewrite seq_length. reflexivity.
    - intros o Ho. apply in_seq in Ho. destruct (span_bounds j Hj) as (_ & Hb & _).
      apply (write_op_ok g l); [exact Hw|lia].
  Qed.

  Definition spans : list (nat * nat) := combine (cstarts 0 l) l.
  Definition written_lines : list (list Z) := map (fun sn => jline g (fst sn) (snd sn)) spans.
  Definition written_jobs : list (list (list (Z * Z))) :=
    map (fun sn => map (pairs g) (seq (fst sn) (snd sn))) spans.

  Lemma by_spans {B} (F : nat -> nat -> B) :
    map (fun j => F (sj j) (nj_ j)) (seq 0 (length l)) = map (fun sn => F (fst sn) (snd sn)) spans.
  Proof.
    unfold spans. rewrite <- (map_seq_nth (fun sn => F (fst sn) (snd sn)) (0%nat, 0%nat)).
    rewrite combine_length, cstarts_length, Nat.min_id.
    apply map_ext_in. intros j Hj. apply in_seq in Hj.
    rewrite combine_nth by apply cstarts_length. reflexivity.
  Qed.

  Lemma count_real_pos : (count_real (g_pad g) =? 0) = false.
  Proof.
    pose proof (wp_total1 _ _ Hw) as H1. pose proof (wp_totalW _ _ Hw) as HW.
    unfold count_real. rewrite (wp_pad _ _ Hw).
    destruct (g_W g) as [|W]; [lia|]. simpl.
    destruct (Z.of_nat (sumN l) <=? 0) eqn:E; [lia|]. simpl. lia.
  Qed.

  Lemma fjsp_write_ok fmt :
    fjsp_write fmt (reset_view g) =
    Ok ([TInt (Z.of_nat (length l)); TInt (Z.of_nat (length (g_pt g))); fmt (count_pos (g_pt g)) (count_real (g_pad g))]
          :: map (map TInt) written_lines).
  Proof.
    unfold fjsp_write. cbn [w_pad w_nj w_pt reset_view]. rewrite count_real_pos, len_start.
    rewrite (mapM_ok _ (fun j => jline g (sj j) (nj_ j))).
    - simpl. unfold written_lines. rewrite by_spans. reflexivity.
    - intros j Hj. apply in_seq in Hj. apply write_job_ok. lia.
  Qed.

  (* the JSSP format line of job j, by spans *)
  Definition jl2 (s n : nat) : list Z := concat (map (fun o => flatp (pairs g o)) (seq s n)).

  Lemma jssp_job_line_span j : (j < length l)%nat -> jssp_job_line g j = jl2 (sj j) (nj_ j).
  Proof.
    intros Hj. unfold jssp_job_line, jl2. rewrite nth_start, nth_end by exact Hj.
    replace (Z.to_nat (Z.of_nat (sj j))) with (sj j) by lia.
    replace (Z.to_nat (Z.of_nat (sj j + nj_ j) - 1 - Z.of_nat (sj j) + 1)) with (nj_ j) by lia.
    f_equal. apply map_ext. intros o. unfold flatp, pairs. rewrite map_map. reflexivity.
  Qed.

  Lemma jssp_format_spans :
    jssp_format g = [TInt (Z.of_nat (length l)); TInt (Z.of_nat (length (g_pt g)))]
                      :: map (map TInt) (map (fun sn => jl2 (fst sn) (snd sn)) spans).
  Proof.
    unfold jssp_format. rewrite len_start. f_equal. rewrite <- by_spans, map_map.
    apply map_ext_in. intros j Hj. apply in_seq in Hj. rewrite jssp_job_line_span by lia. reflexivity.
  Qed.
End Structure.

(* ------------------------------------------------------------------------------------------ parsing what was written *)
Lemma evens_flatp_firstn ps : forall R, evens (firstn (2 * length ps) (flatp ps ++ R)) = map fst ps.
Proof.
  induction ps as [|[a b] ps IH]; intros R; [reflexivity|].
  unfold flatp in *. cbn [map concat fst snd length app].
  replace (2 * S (length ps))%nat with (S (S (2 * length ps))) by lia.
  cbn [firstn evens]. rewrite IH. reflexivity.
Qed.

Lemma evens_cons_firstn_odd {A} (b : A) n L :
  evens (b :: firstn (S (2 * n)) L) = b :: evens (firstn (2 * n) (tl L)).
Proof.
  destruct L as [|a L'].
  - cbn [firstn tl]. rewrite firstn_nil. reflexivity.
  - cbn [firstn tl evens]. reflexivity.
Qed.

Lemma evens_flatp_tl ps : forall R, evens (firstn (2 * length ps) (tl (flatp ps ++ R))) = map snd ps.
Proof.
  induction ps as [|[a b] ps IH]; intros R; [reflexivity|].
  specialize (IH R). unfold flatp in *. cbn [map concat fst snd length app tl].
  replace (2 * S (length ps))%nat with (S (S (2 * length ps))) by lia.
  change (firstn (S (S (2 * length ps))) (b :: concat (map (fun p : Z * Z => [fst p; snd p]) ps) ++ R))
    with (b :: firstn (S (2 * length ps)) (concat (map (fun p : Z * Z => [fst p; snd p]) ps) ++ R)).
  rewrite evens_cons_firstn_odd, IH. reflexivity.
Qed.

Lemma skipn_flatp ps : forall R, skipn (2 * length ps) (flatp ps ++ R) = R.
Proof.
  induction ps as [|[a b] ps IH]; intros R; [reflexivity|].
  unfold flatp in *. cbn [map concat fst snd length app].
  replace (2 * S (length ps))%nat with (S (S (2 * length ps))) by lia.
  cbn [skipn]. apply IH.
Qed.

Lemma combine_fst_snd {A B} (ps : list (A * B)) : combine (map fst ps) (map snd ps) = ps.
Proof. induction ps as [|[a b] ps IH]; simpl; [reflexivity|]. rewrite IH. reflexivity. Qed.

Lemma parse_ops_ok g ops : forall tl,
  parse_ops (length ops) (concat (map (optoks g) ops) ++ tl) = Ok (map (pairs g) ops).
Proof.
  induction ops as [|o ops IH]; intros tl; [reflexivity|].
  cbn [length map concat]. unfold optoks at 1. cbn [app parse_ops].
  rewrite <- app_assoc.
  destruct (Z.of_nat (length (pairs g o)) <? 0) eqn:E; [lia|].
  replace (Z.to_nat (2 * Z.of_nat (length (pairs g o)))) with (2 * length (pairs g o))%nat by lia.
  rewrite evens_flatp_firstn, evens_flatp_tl, skipn_flatp, combine_fst_snd, IH. reflexivity.
Qed.

Lemma parse_jline g s n : fjsp_parse_job_line (jline g s n) = Ok (map (pairs g) (seq s n)).
Proof.
  unfold fjsp_parse_job_line, jline. rewrite Nat2Z.id.
  rewrite <- (seq_length n s) at 1. rewrite <- (app_nil_r (concat _)). apply parse_ops_ok.
Qed.

Lemma parse_written_lines g l :
  mapM fjsp_parse_job_line (written_lines g l) = Ok (written_jobs g l).
Proof.
  unfold written_lines, written_jobs.
  induction (spans l) as [|sn r IH]; [reflexivity|]. cbn [map mapM]. rewrite parse_jline. simpl. rewrite IH. reflexivity.
Qed.

Lemma file2lines_written (hdr : list tok) (hz : list Z) (ls : list (list Z)) :
  mapM parse_num hdr = Ok hz ->
  file2lines (hdr :: map (map TInt) ls) = Ok (hz :: ls).
Proof.
  intros H. unfold file2lines. cbn [mapM]. rewrite H. cbn [bind].
  assert (E : mapM (mapM parse_num) (map (map TInt) ls) = Ok ls).
  { induction ls as [|x ls IH]; [reflexivity|]. cbn [map mapM].
    rewrite (mapM_map_ok parse_num TInt) by reflexivity. cbn [bind]. rewrite IH. reflexivity. }
  rewrite E. reflexivity.
Qed.

(* ------------------------------------------------------------------------------------------ filling proc_times *)
Definition shaped (M : list (list Z)) (nm W : nat) : Prop :=
  length M = nm /\ forall m, (m < nm)%nat -> length (nth m M []) = W.

Lemma pset_length {A} n (x : A) l : length (pset n x l) = length l.
Proof. revert n; induction l as [|h t IH]; intros [|n]; simpl; auto. Qed.

Lemma nth_pset {A} n m (x d : A) l :
  nth m (pset n x l) d = if (Nat.eqb m n && Nat.ltb n (length l))%bool then x else nth m l d.
Proof.
  revert n m; induction l as [|h t IH]; intros n m.
  - simpl. rewrite andb_false_r. destruct n; reflexivity.
  - destruct n as [|n], m as [|m]; simpl; auto. rewrite IH. reflexivity.
Qed.

Lemma mget_mset M r c v m o nm W : shaped M nm W -> (r < nm)%nat -> (c < W)%nat ->
  mget (mset M r c v) m o = if (Nat.eqb m r && Nat.eqb o c)%bool then v else mget M m o.
Proof.
  intros [HL HR] Hr Hc. unfold mget, mset. rewrite nth_pset.
  destruct (Nat.eqb m r) eqn:E1; simpl.
  - apply Nat.eqb_eq in E1. subst m. replace (r <? length M)%nat with true by (symmetry; apply Nat.ltb_lt; lia).
    rewrite nth_pset. rewrite HR by exact Hr. replace (c <? W)%nat with true by (symmetry; apply Nat.ltb_lt; lia).
    rewrite andb_true_r. reflexivity.
  - reflexivity.
Qed.

Lemma shaped_mset M r c v nm W : shaped M nm W -> (r < nm)%nat -> shaped (mset M r c v) nm W.
Proof.
  intros [HL HR] Hr. unfold mset. split; [rewrite pset_length; exact HL|].
  intros m Hm. rewrite nth_pset. destruct (Nat.eqb m r && (r <? length M)%nat)%bool eqn:E.
  - rewrite pset_length. apply HR. exact Hr.
  - apply HR. exact Hm.
Qed.

Lemma wrap_idx_succ m n : (m < n)%nat -> wrap_idx (Z.of_nat m + 1 - 1) n = Some m.
Proof.
  intros H. unfold wrap_idx.
  replace ((0 <=? Z.of_nat m + 1 - 1) && (Z.of_nat m + 1 - 1 <? Z.of_nat n)) with true by lia.
  f_equal. lia.
Qed.

Lemma fill_op_ok (f : nat -> Z) nm W k : (k < W)%nat -> forall ms M,
  shaped M nm W -> (forall m, In m ms -> (m < nm)%nat) ->
  exists M', fill_op M k (map (fun m => (Z.of_nat m + 1, f m)) ms) = Ok M' /\ shaped M' nm W /\
             forall m o, mget M' m o = if (Nat.eqb o k && existsb (Nat.eqb m) ms)%bool then f m else mget M m o.
Proof.
  intros Hk. induction ms as [|a ms IH]; intros M HS Hin.
  - exists M. split; [reflexivity|]. split; [exact HS|]. intros m o. rewrite andb_false_r. reflexivity.
  - assert (Ha : (a < nm)%nat) by (apply Hin; left; reflexivity).
    cbn [map fill_op]. destruct HS as [HL HR] eqn:EHS. clear EHS.
    rewrite HL, wrap_idx_succ by exact Ha. rewrite HR by exact Ha.
    replace (k <? W)%nat with true by (symmetry; apply Nat.ltb_lt; exact Hk).
    destruct (IH (mset M a k (f a)) (shaped_mset M a k (f a) nm W (conj HL HR) Ha)
                 (fun m H => Hin m (or_intror H))) as (M' & E & HS' & HG).
    exists M'. split; [exact E|]. split; [exact HS'|].
    intros m o. rewrite HG. rewrite (mget_mset M a k (f a) m o nm W (conj HL HR) Ha Hk).
    cbn [existsb].
    destruct (Nat.eqb o k) eqn:E1; destruct (Nat.eqb m a) eqn:E2; simpl; try reflexivity.
    all: try (apply Nat.eqb_eq in E2; subst; destruct (existsb (Nat.eqb a) ms); reflexivity).
    all: try (rewrite andb_false_r; reflexivity).
Qed.

Lemma fill_ops_ok (F : nat -> nat -> Z) (E : nat -> list nat) nm W :
  (forall o m, In m (E o) -> (m < nm)%nat) ->
  forall n k M, (k + n <= W)%nat -> shaped M nm W ->
  exists M', fill_ops M k (map (fun o => map (fun m => (Z.of_nat m + 1, F m o)) (E o)) (seq k n)) = Ok M' /\
             shaped M' nm W /\
             forall m o, mget M' m o =
                         if ((k <=? o)%nat && (o <? k + n)%nat && existsb (Nat.eqb m) (E o))%bool then F m o else mget M m o.
Proof.
  intros HE. induction n as [|n IH]; intros k M Hkn HS.
  - exists M. split; [reflexivity|]. split; [exact HS|]. intros m o.
    replace ((k <=? o)%nat && (o <? k + 0)%nat) with false by lia. reflexivity.
  - cbn [seq map fill_ops].
    destruct (fill_op_ok (fun m => F m k) nm W k ltac:(lia) (E k) M HS (HE k)) as (M1 & E1 & HS1 & HG1).
    rewrite E1. cbn [bind].
    destruct (IH (S k) M1 ltac:(lia) HS1) as (M' & E2 & HS' & HG').
    exists M'. split; [exact E2|]. split; [exact HS'|].
    intros m o. rewrite HG', HG1.
    destruct (Nat.eqb o k) eqn:Eo.
    + apply Nat.eqb_eq in Eo. subst o.
      replace ((S k <=? k)%nat && (k <? S k + n)%nat) with false by lia.
      replace ((k <=? k)%nat && (k <? k + S n)%nat) with true by lia. reflexivity.
    + apply Nat.eqb_neq in Eo.
      replace ((k <=? o)%nat && (o <? k + S n)%nat) with ((S k <=? o)%nat && (o <? S k + n)%nat) by lia.
      reflexivity.
Qed.

Lemma shaped_zeros nm W : shaped (repeat (repeat 0 W) nm) nm W.
Proof.
  split; [apply repeat_length|]. intros m Hm.
  rewrite (nth_indep _ [] (repeat 0 W)) by (rewrite repeat_length; exact Hm).
  rewrite nth_repeat. apply repeat_length.
Qed.

Lemma mget_zeros nm W m o : mget (repeat (repeat 0 W) nm) m o = 0.
Proof.
  unfold mget. destruct (Nat.lt_ge_cases m nm) as [H|H].
  - rewrite (nth_indep _ [] (repeat 0 W)) by (rewrite repeat_length; exact H). rewrite nth_repeat.
    destruct (Nat.lt_ge_cases o W) as [H'|H'].
    + apply nth_repeat.
    + apply nth_overflow. rewrite repeat_length. exact H'.
  - rewrite (nth_overflow (repeat (repeat 0 W) nm) []) by (rewrite repeat_length; exact H). destruct o; reflexivity.
Qed.

Lemma existsb_elig pt o m : (m < length pt)%nat ->
  existsb (Nat.eqb m) (elig pt o) = negb (mget pt m o =? 0).
Proof.
  intros Hm. destruct (mget pt m o =? 0) eqn:E; simpl.
  - destruct (existsb (Nat.eqb m) (elig pt o)) eqn:Ex; [|reflexivity].
    apply existsb_exists in Ex as (x & Hx & Hmx). apply Nat.eqb_eq in Hmx. subst x.
    apply elig_In in Hx. lia.
  - apply existsb_exists. exists m. split; [|apply Nat.eqb_refl]. apply elig_In. split; [exact Hm|lia].
Qed.

(* ------------------------------------------------------------------------------------------ the reader's tail *)
Lemma build_written g l mo : wfP g l -> max_ops_ok mo (g_total g) ->
  build mo (Z.of_nat (length l)) (Z.of_nat (length (g_pt g))) (written_jobs g l)
  = Ok (repad (Z.to_nat (read_width mo (g_total g))) g).
Proof.
  intros Hw Hmo.
  pose proof (wfP_total g l Hw) as Htot.
  pose proof (wp_total1 _ _ Hw) as Ht1.
  unfold build.
  assert (Hnops : map (fun j : list (list (Z * Z)) => Z.of_nat (length j)) (written_jobs g l) = map Z.of_nat l).
  { unfold written_jobs. rewrite map_map.
    rewrite (map_ext _ (fun sn : nat * nat => Z.of_nat (snd sn))) by (intros sn; rewrite map_length, seq_length; reflexivity).
    apply map_snd_combine. apply cstarts_length. }
  rewrite Hnops, sumZ_of_nat, <- Htot.
  assert (Hwidth : match mo with
                   | Some m => if g_total g <=? m then Ok (if m =? 0 then g_total g else m) else Raises
                   | None => Ok (g_total g) end = Ok (read_width mo (g_total g))).
  { destruct mo as [m|]; simpl in *; [|reflexivity].
    destruct (g_total g <=? m) eqn:E; [|lia]. destruct (m =? 0) eqn:E0; [lia|reflexivity]. }
  rewrite Hwidth. cbn [bind].
  set (W := Z.to_nat (read_width mo (g_total g))).
  assert (HWt : (sumN l <= W)%nat).
  { unfold W. destruct mo as [m|]; simpl in *; lia. }
  destruct (written_jobs g l) eqn:EJ.
  { exfalso. unfold written_jobs, spans in EJ. apply map_eq_nil in EJ.
    pose proof (wp_nz _ _ Hw) as Hnz. destruct l; [congruence|]. simpl in EJ. discriminate. }
  rewrite <- EJ. clear EJ.
  destruct (Z.of_nat (length (g_pt g)) <? 0) eqn:En; [lia|]. rewrite Nat2Z.id.
  (* the operations, in file order *)
  assert (Hops : concat (written_jobs g l) = map (pairs g) (seq 0 (sumN l))).
  { unfold written_jobs. rewrite <- (concat_spans l 0). rewrite concat_map, map_map. reflexivity. }
  rewrite Hops. unfold pairs.
  destruct (fill_ops_ok (mget (g_pt g)) (elig (g_pt g)) (length (g_pt g)) W
              (fun o m H => proj1 (proj1 (elig_In _ _ _) H)) (sumN l) 0%nat _ ltac:(lia) (shaped_zeros _ W))
    as (M' & EM & [HL HR] & HG).
  rewrite EM. cbn [bind]. unfold repad.
  f_equal. f_equal.
  - (* starts *)
    change 0 with (Z.of_nat 0) at 1. change 0 with (Z.of_nat 0) at 1.
    rewrite cumsum_ends. rewrite (starts_from_ends l 0 (wp_nz _ _ Hw)). symmetry. apply (wp_start _ _ Hw).
  - (* ends *)
    change 0 with (Z.of_nat 0) at 1. rewrite cumsum_ends, map_map. symmetry. apply (wp_end _ _ Hw).
  - (* proc_times *)
    apply (nth_ext _ _ [] []).
    + rewrite map_length. exact HL.
    + intros m Hm. rewrite HL in Hm.
      assert (Hrow : length (nth m (g_pt g) []) = g_W g) by (apply (wp_rows _ _ Hw), nth_In; exact Hm).
      set (pf := fun row : list Z => firstn (Z.to_nat (g_total g)) row ++ repeat 0 (W - Z.to_nat (g_total g))).
      rewrite (nth_indep (map pf (g_pt g)) [] (pf [])) by (rewrite map_length; exact Hm).
      rewrite (map_nth pf). unfold pf. clear pf.
      pose proof (wp_totalW _ _ Hw) as HtW.
      apply (nth_ext _ _ 0 0).
      * rewrite HR by exact Hm. rewrite app_length, firstn_length, repeat_length. lia.
      * intros o Ho. rewrite HR in Ho by exact Hm.
        change (nth o (nth m M' []) 0) with (mget M' m o). rewrite HG, mget_zeros.
        rewrite existsb_elig by exact Hm. rewrite Htot, Nat2Z.id.
        destruct (Nat.lt_ge_cases o (sumN l)) as [Ho'|Ho'].
        -- rewrite app_nth1 by (rewrite firstn_length; lia).
           replace ((0 <=? o)%nat && (o <? 0 + sumN l)%nat) with true by lia. cbn [andb].
           assert (Hf : nth o (firstn (sumN l) (nth m (g_pt g) [])) 0 = mget (g_pt g) m o).
           { unfold mget. rewrite <- (firstn_skipn (sumN l) (nth m (g_pt g) [])) at 2.
             rewrite app_nth1 by (rewrite firstn_length; lia). reflexivity. }
           rewrite Hf. destruct (mget (g_pt g) m o =? 0) eqn:E0; simpl; lia.
        -- replace ((0 <=? o)%nat && (o <? 0 + sumN l)%nat) with false by lia. cbn [andb].
           rewrite app_nth2 by (rewrite firstn_length; lia). rewrite nth_repeat. reflexivity.
  - (* num_jobs (pad_mask and num_machines are syntactically equal already) *)
    rewrite (len_start g l Hw). reflexivity.
  - (* max_ops_per_job *)
    rewrite (wp_nops _ _ Hw). reflexivity.
Qed.

(* ------------------------------------------------------------------------------------------ FJSP: the theorems *)
Lemma written_nops g l :
  map (fun j : list (list (Z * Z)) => Z.of_nat (length j)) (written_jobs g l) = map Z.of_nat l.
Proof.
  unfold written_jobs. rewrite map_map.
  rewrite (map_ext _ (fun sn : nat * nat => Z.of_nat (snd sn))) by (intros sn; rewrite map_length, seq_length; reflexivity).
  apply map_snd_combine. apply cstarts_length.
Qed.

Theorem fjsp_text_roundtrip_gen (fmt : Z -> Z -> tok) g mo :
  wf_fjspb g = true ->
  (exists v, parse_num (fmt (count_pos (g_pt g)) (count_real (g_pad g))) = Ok v) ->
  max_ops_ok mo (g_total g) ->
  bind (fjsp_write fmt (reset_view g)) (fjsp_read mo) = Ok (repad (Z.to_nat (read_width mo (g_total g))) g).
Proof.
  intros Hwf [v Hv] Hmo. pose proof (wf_fjspb_wfP g Hwf) as Hw.
  set (l := map Z.to_nat (g_nops g)) in *.
  rewrite (fjsp_write_ok g l Hw). cbn [bind]. unfold fjsp_read, read_with.
  rewrite (file2lines_written _ [Z.of_nat (length l); Z.of_nat (length (g_pt g)); v])
    by (cbn [mapM parse_num bind]; rewrite Hv; reflexivity).
  cbn [bind]. rewrite parse_written_lines. cbn [bind]. apply build_written; assumption.
Qed.

Lemma round_half_even_ge num den : 0 < den -> 0 <= num -> num / den <= round_half_even num den.
Proof.
  intros Hd Hn. unfold round_half_even.
  destruct (2 * (num mod den) <? den); [lia|]. destruct (den <? 2 * (num mod den)); [lia|].
  destruct (Z.even (num / den)); lia.
Qed.

Lemma fmt5_parses a b : 0 < b -> b <= a -> exists v, parse_num (fmt5 a b) = Ok v.
Proof.
  intros Hb Hab. unfold fmt5.
  assert (H : 100000 <= round_half_even (a * 100000) b).
  { eapply Z.le_trans; [|apply round_half_even_ge; lia]. apply Z.div_le_lower_bound; [exact Hb|]. nia. }
  destruct ((0 <? round_half_even (a * 100000) b) && (round_half_even (a * 100000) b <? 10)) eqn:E; [lia|].
  eexists. reflexivity.
Qed.

Lemma count_real_nonneg pad : 0 <= count_real pad.
Proof. unfold count_real. lia. Qed.

(* the statement of DESIGN.md: with the flexibility word as rl4co prints it *)
Theorem fjsp_text_roundtrip g mo :
  wf_fjspb g = true -> count_real (g_pad g) <= count_pos (g_pt g) -> max_ops_ok mo (g_total g) ->
  bind (fjsp_write fmt5 (reset_view g)) (fjsp_read mo) = Ok (repad (Z.to_nat (read_width mo (g_total g))) g).
Proof.
  intros Hwf Hflex Hmo. apply fjsp_text_roundtrip_gen; try assumption.
  apply fmt5_parses; [|exact Hflex].
  pose proof (count_real_pos g _ (wf_fjspb_wfP g Hwf)) as H. pose proof (count_real_nonneg (g_pad g)). lia.
Qed.

Corollary fjsp_text_roundtrip_strip g :
  wf_fjspb g = true -> count_real (g_pad g) <= count_pos (g_pt g) ->
  bind (fjsp_write fmt5 (reset_view g)) (fjsp_read None) = Ok (strip_padding g).
Proof. intros Hwf Hflex. exact (fjsp_text_roundtrip g None Hwf Hflex I). Qed.

Lemma all_zero_repeat l : forallb (fun d => d =? 0) l = true -> l = repeat 0 (length l).
Proof.
  induction l as [|x l IH]; simpl; intros H; [reflexivity|]. apply andb_prop in H as [H1 H2].
  apply Z.eqb_eq in H1. subst x. f_equal. apply IH; exact H2.
Qed.

Lemma repad_same_width g : wf_fjspb g = true -> pad_cleanb g = true -> repad (g_W g) g = as_rinst g.
Proof.
  intros Hwf Hclean. pose proof (wf_fjspb_wfP g Hwf) as Hw. set (l := map Z.to_nat (g_nops g)) in *.
  pose proof (wfP_total g l Hw) as Htot.
  unfold repad, as_rinst. f_equal.
  - rewrite <- (map_id (g_pt g)) at 2. apply map_ext_in. intros row Hin.
    pose proof (wp_rows _ _ Hw row Hin) as Hlen. pose proof (wp_totalW _ _ Hw) as HtW.
    unfold pad_cleanb in Hclean. rewrite forallb_forall in Hclean. specialize (Hclean row Hin).
    apply all_zero_repeat in Hclean. rewrite skipn_length in Hclean.
    rewrite <- (firstn_skipn (Z.to_nat (g_total g)) row) at 2. f_equal.
    rewrite Hclean at 1. f_equal. lia.
  - rewrite (wp_pad _ _ Hw), Htot. reflexivity.
Qed.

(* reading back with max_ops = the original width: the very same instance, padding included *)
Theorem fjsp_text_roundtrip_same_width g :
  wf_fjspb g = true -> pad_cleanb g = true -> count_real (g_pad g) <= count_pos (g_pt g) ->
  bind (fjsp_write fmt5 (reset_view g)) (fjsp_read (Some (Z.of_nat (g_W g)))) = Ok (as_rinst g).
Proof.
  intros Hwf Hclean Hflex. pose proof (wf_fjspb_wfP g Hwf) as Hw.
  rewrite (fjsp_text_roundtrip g (Some (Z.of_nat (g_W g))) Hwf Hflex).
  - cbn [read_width]. rewrite Nat2Z.id. rewrite repad_same_width by assumption. reflexivity.
  - cbn [max_ops_ok]. rewrite (wfP_total _ _ Hw). pose proof (wp_totalW _ _ Hw). lia.
Qed.

(* ---- rejected inputs ---- *)
Theorem fjsp_write_rejects_no_real_ops fmt w : count_real (w_pad w) = 0 -> fjsp_write fmt w = Raises.
Proof. intros H. unfold fjsp_write. rewrite H. reflexivity. Qed.

Theorem fjsp_read_rejects_small_max_ops (fmt : Z -> Z -> tok) g m :
  wf_fjspb g = true ->
  (exists v, parse_num (fmt (count_pos (g_pt g)) (count_real (g_pad g))) = Ok v) ->
  m < g_total g ->
  bind (fjsp_write fmt (reset_view g)) (fjsp_read (Some m)) = Raises.
Proof.
  intros Hwf [v Hv] Hm. pose proof (wf_fjspb_wfP g Hwf) as Hw.
  set (l := map Z.to_nat (g_nops g)) in *.
  rewrite (fjsp_write_ok g l Hw). cbn [bind]. unfold fjsp_read, read_with.
  rewrite (file2lines_written _ [Z.of_nat (length l); Z.of_nat (length (g_pt g)); v])
    by (cbn [mapM parse_num bind]; rewrite Hv; reflexivity).
  cbn [bind]. rewrite parse_written_lines. cbn [bind]. unfold build.
  rewrite written_nops, sumZ_of_nat, <- (wfP_total g l Hw).
  destruct (g_total g <=? m) eqn:E; [lia|]. reflexivity.
Qed.

Theorem read_rejects_bad_header_word pj mo a b t rest :
  parse_num t = Raises -> read_with pj mo ([TInt a; TInt b; t] :: rest) = Raises.
Proof. intros H. unfold read_with, file2lines. cbn [mapM parse_num bind]. rewrite H. reflexivity. Qed.

(* ------------------------------------------------------------------------------------------ JSSP *)
Lemma parse_pairs_flatp ps : parse_pairs (flatp ps) = Ok ps.
Proof.
  induction ps as [|[a b] ps IH]; [reflexivity|]. unfold flatp in *. cbn [map concat app fst snd parse_pairs].
  rewrite IH. reflexivity.
Qed.

Lemma flatp_app a b : flatp (a ++ b) = flatp a ++ flatp b.
Proof. unfold flatp. rewrite map_app, concat_app. reflexivity. Qed.

Lemma jl2_flatp g s n : jl2 g s n = flatp (concat (map (pairs g) (seq s n))).
Proof.
  unfold jl2. induction (seq s n) as [|o r IH]; [reflexivity|]. cbn [map concat]. rewrite flatp_app, IH. reflexivity.
Qed.

Lemma singletons_concat g ops :
  (forall o, In o ops -> length (pairs g o) = 1%nat) ->
  map (fun p => [p]) (concat (map (pairs g) ops)) = map (pairs g) ops.
Proof.
  induction ops as [|o r IH]; intros H; [reflexivity|]. cbn [map concat].
  pose proof (H o (or_introl eq_refl)) as Ho. destruct (pairs g o) as [|p [|q t]]; try discriminate.
  cbn [app map]. f_equal. apply IH. intros o' Ho'. apply H. right. exact Ho'.
Qed.

Lemma jssp_parse_spans g l : forall s0,
  (forall o, (s0 <= o < s0 + sumN l)%nat -> length (pairs g o) = 1%nat) ->
  mapM jssp_parse_job_line (map (fun sn => jl2 g (fst sn) (snd sn)) (combine (cstarts s0 l) l))
  = Ok (map (fun sn => map (pairs g) (seq (fst sn) (snd sn))) (combine (cstarts s0 l) l)).
Proof.
  induction l as [|n l IH]; intros s0 H; [reflexivity|].
  cbn [cstarts combine map mapM fst snd]. unfold jssp_parse_job_line at 1.
  rewrite jl2_flatp, parse_pairs_flatp. cbn [bind].
  rewrite singletons_concat by (intros o Ho; apply in_seq in Ho; apply H; simpl; lia).
  rewrite IH by (intros o Ho; apply H; simpl; lia). reflexivity.
Qed.

Theorem jssp_text_roundtrip g mo :
  wf_jsspb g = true -> max_ops_ok mo (g_total g) ->
  jssp_read mo (jssp_format g) = Ok (repad (Z.to_nat (read_width mo (g_total g))) g).
Proof.
  unfold wf_jsspb. intros H Hmo. apply andb_prop in H as [Hwf Hone].
  pose proof (wf_fjspb_wfP g Hwf) as Hw. set (l := map Z.to_nat (g_nops g)) in *.
  rewrite (jssp_format_spans g l Hw). unfold jssp_read, read_with.
  rewrite (file2lines_written _ [Z.of_nat (length l); Z.of_nat (length (g_pt g))]) by reflexivity.
  cbn [bind]. unfold spans. rewrite jssp_parse_spans.
  - cbn [bind]. apply build_written; assumption.
  - intros o Ho. rewrite forallb_forall in Hone. unfold pairs. rewrite map_length.
    apply Nat.eqb_eq. apply Hone. apply in_seq. rewrite (wfP_total g l Hw). lia.
Qed.

Corollary jssp_text_roundtrip_strip g :
  wf_jsspb g = true -> jssp_read None (jssp_format g) = Ok (strip_padding g).
Proof. intros Hwf. exact (jssp_text_roundtrip g None Hwf I). Qed.

Lemma parse_pairs_odd_len n : forall ws, length ws = S (2 * n) -> parse_pairs ws = Raises.
Proof.
  induction n as [|n IH]; intros ws H.
  - destruct ws as [|x [|y r]]; simpl in H; try discriminate. reflexivity.
  - destruct ws as [|x [|y r]]; simpl in H; try lia. cbn [parse_pairs]. rewrite IH by lia. reflexivity.
Qed.

(* a JSSP job line with an odd number of words is refused (IndexError), never silently truncated *)
Theorem jssp_parse_job_line_rejects_odd ws : Nat.odd (length ws) = true -> jssp_parse_job_line ws = Raises.
Proof.
  intros H. unfold jssp_parse_job_line.
  destruct (Nat.Even_or_Odd (length ws)) as [[k Hk]|[k Hk]].
  - rewrite Hk in H. rewrite Nat.odd_mul, Nat.odd_2 in H. discriminate.
  - rewrite (parse_pairs_odd_len k) by lia. reflexivity.
Qed.

(* an FJSP job line that announces more operations than it holds is refused (IndexError) *)
Theorem fjsp_parse_ops_rejects_exhausted n : parse_ops (S n) [] = Raises.
Proof. reflexivity. Qed.

(* ------------------------------------------------------------------------------------------ directories of files *)
Lemma lmax_ge n r x : In x (n :: r) -> x <= lmax n r.
Proof.
  unfold lmax. induction r as [|y r IH]; simpl.
  - intros [<-|[]]. lia.
  - intros [<-|[<-|H]].
    + specialize (IH (or_introl eq_refl)). lia.
    + lia.
    + specialize (IH (or_intror H)). lia.
Qed.

Lemma fjsp_n_ops_written (fmt : Z -> Z -> tok) g f :
  wf_fjspb g = true ->
  (exists v, parse_num (fmt (count_pos (g_pt g)) (count_real (g_pad g))) = Ok v) ->
  fjsp_write fmt (reset_view g) = Ok f -> n_ops_of fjsp_parse_job_line f = Ok (g_total g).
Proof.
  intros Hwf [v Hv] Hf. pose proof (wf_fjspb_wfP g Hwf) as Hw. set (l := map Z.to_nat (g_nops g)) in *.
  rewrite (fjsp_write_ok g l Hw) in Hf. injection Hf as <-. unfold n_ops_of.
  rewrite (file2lines_written _ [Z.of_nat (length l); Z.of_nat (length (g_pt g)); v])
    by (cbn [mapM parse_num bind]; rewrite Hv; reflexivity).
  cbn [bind tl]. rewrite parse_written_lines. cbn [bind].
  rewrite written_nops, sumZ_of_nat, (wfP_total g l Hw). reflexivity.
Qed.

Lemma jssp_n_ops_format g : wf_jsspb g = true -> n_ops_of jssp_parse_job_line (jssp_format g) = Ok (g_total g).
Proof.
  unfold wf_jsspb. intros H. apply andb_prop in H as [Hwf Hone].
  pose proof (wf_fjspb_wfP g Hwf) as Hw. set (l := map Z.to_nat (g_nops g)) in *.
  rewrite (jssp_format_spans g l Hw). unfold n_ops_of.
  rewrite (file2lines_written _ [Z.of_nat (length l); Z.of_nat (length (g_pt g))]) by reflexivity.
  cbn [bind tl]. unfold spans. rewrite jssp_parse_spans.
  - cbn [bind]. fold (spans l). fold (written_jobs g l). rewrite written_nops, sumZ_of_nat, (wfP_total g l Hw). reflexivity.
  - intros o Ho. rewrite forallb_forall in Hone. unfold pairs. rewrite map_length.
    apply Nat.eqb_eq. apply Hone. apply in_seq. rewrite (wfP_total g l Hw). lia.
Qed.

Lemma mapM_Forall2 {A B} (f : A -> res B) l : forall out, mapM f l = Ok out -> Forall2 (fun a b => f a = Ok b) l out.
Proof.
  induction l as [|a l IH]; intros out H; simpl in H.
  - injection H as <-. constructor.
  - destruct (f a) as [b| |] eqn:E; try discriminate. simpl in H.
    destruct (mapM f l) as [bs| |] eqn:E2; try discriminate. simpl in H. injection H as <-.
    constructor; [exact E|]. apply IH. reflexivity.
Qed.

Lemma Forall2_len {A B} (R : A -> B -> Prop) l m : Forall2 R l m -> length l = length m.
Proof. induction 1; simpl; congruence. Qed.

Lemma mapM_ok2 {A B C} (f : B -> res C) (h : A -> C) (l : list A) (m : list B) :
  Forall2 (fun a b => f b = Ok (h a)) l m -> mapM f m = Ok (map h l).
Proof. induction 1; simpl; [reflexivity|]. rewrite H, IHForall2. reflexivity. Qed.

(* a directory of >= 2 instance files through the file generator: every instance, padded to the largest one *)
Definition dir_width (gs : list ginst) : Z := match map g_total gs with [] => 0 | n :: r => lmax n r end.

Lemma Forall2_In_impl {A B} (P Q : A -> B -> Prop) l m :
  (forall a b, In a l -> P a b -> Q a b) -> Forall2 P l m -> Forall2 Q l m.
Proof.
  intros H F. induction F as [|a b l m H1 H2 IH]; constructor.
  - apply H; [left; reflexivity|exact H1].
  - apply IH. intros a' b' Hin. apply H. right. exact Hin.
Qed.

Lemma file_generator_roundtrip_gen (pj : list Z -> res (list (list (Z * Z)))) gs files n_ops_max :
  (2 <= length gs)%nat ->
  Forall2 (fun g f => n_ops_of pj f = Ok (g_total g)) gs files ->
  (forall mo, Forall2 (fun g f => max_ops_ok mo (g_total g) ->
                               read_with pj mo f = Ok (repad (Z.to_nat (read_width mo (g_total g))) g)) gs files) ->
  file_generator pj n_ops_max files = Ok (map (repad (Z.to_nat (dir_width gs))) gs).
Proof.
  intros Hlen Hn Hr. pose proof (Forall2_len _ _ _ Hn) as HL.
  unfold file_generator. destruct files as [|f0 fr] eqn:EF; [destruct gs; simpl in *; lia|]. rewrite <- EF in *.
  replace (Nat.ltb 1 (length files)) with true by (symmetry; apply Nat.ltb_lt; lia).
  unfold max_ops_from_files.
  rewrite (mapM_ok2 (n_ops_of pj) g_total gs files) by exact Hn. cbn [bind].
  destruct (map g_total gs) as [|n r] eqn:EM; [destruct gs; simpl in *; [lia|discriminate]|].
  cbn [bind]. assert (EW : dir_width gs = lmax n r) by (unfold dir_width; rewrite EM; reflexivity).
  apply (mapM_ok2 (read_with pj (Some (lmax n r))) (repad (Z.to_nat (dir_width gs))) gs files).
  refine (Forall2_In_impl _ _ gs files _ (Hr (Some (lmax n r)))).
  intros g f Hin H. rewrite EW. apply H. simpl. apply lmax_ge. rewrite <- EM. apply in_map. exact Hin.
Qed.

Theorem jssp_file_generator_roundtrip gs n_ops_max :
  (2 <= length gs)%nat -> forallb wf_jsspb gs = true ->
  file_generator jssp_parse_job_line n_ops_max (map jssp_format gs) = Ok (map (repad (Z.to_nat (dir_width gs))) gs).
Proof.
  intros Hlen Hwf. rewrite forallb_forall in Hwf. apply file_generator_roundtrip_gen; [exact Hlen| |].
  - clear Hlen. induction gs as [|g r IH]; simpl; constructor.
    + apply jssp_n_ops_format. apply Hwf. left. reflexivity.
    + apply IH. intros x Hx. apply Hwf. right. exact Hx.
  - intros mo. clear Hlen. induction gs as [|g r IH]; simpl; constructor.
    + intros Hmo. apply jssp_text_roundtrip; [apply Hwf; left; reflexivity|exact Hmo].
    + apply IH. intros x Hx. apply Hwf. right. exact Hx.
Qed.

Theorem fjsp_file_generator_roundtrip gs files n_ops_max :
  (2 <= length gs)%nat ->
  forallb (fun g => wf_fjspb g && (count_real (g_pad g) <=? count_pos (g_pt g))) gs = true ->
  mapM (fun g => fjsp_write fmt5 (reset_view g)) gs = Ok files ->
  file_generator fjsp_parse_job_line n_ops_max files = Ok (map (repad (Z.to_nat (dir_width gs))) gs).
Proof.
  intros Hlen Hwf Hfiles. rewrite forallb_forall in Hwf. apply mapM_Forall2 in Hfiles.
  assert (Hg : forall g, In g gs -> wf_fjspb g = true /\ count_real (g_pad g) <= count_pos (g_pt g) /\
                                   exists v, parse_num (fmt5 (count_pos (g_pt g)) (count_real (g_pad g))) = Ok v).
  { intros g Hin. specialize (Hwf g Hin). apply andb_prop in Hwf as [H1 H2]. split; [exact H1|]. split; [lia|].
    apply fmt5_parses; [|lia].
    pose proof (count_real_pos g _ (wf_fjspb_wfP g H1)). pose proof (count_real_nonneg (g_pad g)). lia. }
  apply file_generator_roundtrip_gen; [exact Hlen| |].
  - clear Hlen Hwf. induction Hfiles as [|g f gs' fs' H1 H2 IH]; constructor.
    + destruct (Hg g (or_introl eq_refl)) as (A & _ & B). exact (fjsp_n_ops_written fmt5 g f A B H1).
    + apply IH. intros x Hx. apply Hg. right. exact Hx.
  - intros mo. clear Hlen Hwf. induction Hfiles as [|g f gs' fs' H1 H2 IH]; constructor.
    + intros Hmo. destruct (Hg g (or_introl eq_refl)) as (A & B & _).
      pose proof (fjsp_text_roundtrip g mo A B Hmo) as E. rewrite H1 in E. exact E.
    + apply IH. intros x Hx. apply Hg. right. exact Hx.
Qed.
