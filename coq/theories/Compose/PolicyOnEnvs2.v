(* Composition C14 / C11 x (C04, C02, C10) at the OP, PCTSP and SDVRP environment models (round 2 of
   Compose/PolicyOnCVRP.v, whose Sections Sim and Part C are reused).

   Difference to CVRP.  For CVRP the padding facts hold in every state reached from reset by ANY action list, so
   policy_rowwise could be instantiated at the history environment.  For PCTSP this is FALSE: a finished state reached
   by a run that visited the depot while it was masked has an EMPTY mask ([pctsp_nonadmitted_done_state_refutes_pad]
   below), and for SDVRP the C04 facts need the demand bookkeeping invariant of admitted runs.  What IS true is that
   they hold in the states reached by runs that stay inside the masks -- which are the only states the greedy policy
   ever visits, because greedy over process_logits takes an offered action whenever one is offered (C10
   greedy_feasible) and these environments always offer one (C02 no dead end).

   Part H  [Section RowwiseInv]   policy_rowwise generalised by a ROW INVARIANT RInv that holds at reset and is kept by
                                  the policy's own steps; the padding hypotheses are required on invariant rows only.
                                  (policy_rowwise is the case RInv := True.)  Proved from the same lemmas of
                                  Decoding/Rowwise.v (bloop_rowwise, slen_le, slen_done, straj_split, srun_is_run).
   Part I  [Section GreedyOnEnv]  generic in an environment E0 with: one mask entry per node, no dead end and inert depot
                                  padding along admitted runs of instances satisfying a boolean predicate P.  Part H is
                                  instantiated at  restrict (hist E0) P  with RInv (i, h) := adm i h = true  and the
                                  greedy choice of Part C, and transported back along Section Sim: the statements speak
                                  about [bpolicy E0 ...] on plain instance lists.
   Part J                         the three instances (OP, PCTSP, SDVRP): the hypotheses of Part I are exactly
                                  C02_<env>_no_dead_end and C04_<env>_padding_inert.
   Part K  [Section C11OnEnv]     C11 generic: decoder = (network logits, the environment's own mask); padding steps
                                  have probability one; padded log-likelihood = unpadded.  Instances for the three envs.
   Part L                         non-vacuity by vm_compute (per env, a batch of two instances finishing at different
                                  times) and the PCTSP refutation witness. *)
From Coq Require Import ZArith QArith Qcanon List Bool Lia Arith.
From RL4CO Require Import Base.Num Base.OField Base.OFieldExtra Base.OFieldQc Base.EnvSig Spec.Routes
                          Decoding.ProcessLogits Decoding.PLInst Decoding.DecodeLoop Decoding.DecodeLoopInst
                          Decoding.Rowwise Compose.EnvRestrict Compose.PolicyOnCVRP.
Import ListNotations.
Local Open Scope nat_scope.

Lemma map_repeat' {A B} (f : A -> B) (x : A) n : map f (repeat x n) = repeat (f x) n.
Proof. induction n as [|n IH]; cbn [repeat map]; [reflexivity|]. rewrite IH. reflexivity. Qed.

(* ================================================================================================ Part H *)
Section RowwiseInv.
  Variable E0 : Env.
  Variables hidden logit L Rw : Type.
  Variable lzero : L.
  Variable ladd : L -> L -> L.
  Variable reward : inst E0 -> list nat -> Rw.
  Variable benc : list (inst E0) -> list hidden.
  Variable enc : inst E0 -> hidden.
  Variable bdec : list hidden -> list (row E0) -> list logit.
  Variable dec : hidden -> row E0 -> logit.
  Variable choose : logit -> list bool -> nat * L.
  Variable BInv : list (row E0) -> Prop.
  Variable RInv : row E0 -> Prop.
  Variable a0 : nat.
  Hypothesis enc_rowwise : forall is_, benc is_ = map enc is_.
  Hypothesis dec_rowwise : forall hs rows, BInv rows -> length hs = length rows -> bdec hs rows = Rowwise.map2 dec hs rows.
  Hypothesis BInv_reset : forall is_, BInv (map (rreset E0) is_).
  Hypothesis BInv_step : forall rows acts, BInv rows -> length acts = length rows -> BInv (Rowwise.map2 (rstep E0) rows acts).
  (* the row invariant: holds after reset, kept by the step the policy itself takes *)
  Hypothesis RInv_reset : forall i, RInv (rreset E0 i).
  Hypothesis RInv_step : forall h rw, RInv rw -> RInv (rstep E0 rw (fst (pick E0 dec choose h rw))).
  (* padding, on invariant rows only: a finished row is given (a0, log-prob 0), stays finished, keeps its reward *)
  Hypothesis pad_pick : forall h rw, RInv rw -> rdone E0 rw = true -> pick E0 dec choose h rw = (a0, lzero).
  Hypothesis pad_done : forall rw, RInv rw -> rdone E0 rw = true -> rdone E0 (rstep E0 rw a0) = true.
  Hypothesis pad_reward : forall i acts,
    RInv (i, run i acts) -> rdone E0 (i, run i acts) = true -> reward i (acts ++ [a0]) = reward i acts.
  Hypothesis ladd_0_r : forall x, ladd x lzero = x.

  Local Notation straj' := (straj E0 hidden logit L dec choose).
  Local Notation srun' := (srun E0 hidden logit L dec choose).

  Lemma srun_inv n h rw : RInv rw -> RInv (srun' n h rw).
  Proof. revert rw; induction n as [|n IH]; intros rw H; cbn [srun]; [exact H|]. apply IH. apply RInv_step. exact H. Qed.

  Lemma pads_inv n h rw :
    RInv rw -> rdone E0 rw = true -> straj' n h rw = repeat (a0, lzero) n /\ rdone E0 (srun' n h rw) = true.
  Proof.
    revert rw; induction n as [|n IH]; intros rw HI Hd; cbn [straj srun repeat]; [split; [reflexivity | exact Hd]|].
    rewrite (pad_pick h rw HI Hd). cbn [fst].
    assert (HI' : RInv (rstep E0 rw a0)).
    { pose proof (RInv_step h rw HI) as X. rewrite (pad_pick h rw HI Hd) in X. exact X. }
    destruct (IH _ HI' (pad_done rw HI Hd)) as [A B]. rewrite A. split; [reflexivity | exact B].
  Qed.

  Lemma pads_reward_inv k (h : hidden) i acts :
    RInv (i, run i acts) -> rdone E0 (i, run i acts) = true -> reward i (acts ++ repeat a0 k) = reward i acts.
  Proof.
    revert acts; induction k as [|k IH]; intros acts HI Hd; cbn [repeat]; [rewrite app_nil_r; reflexivity|].
    change (a0 :: repeat a0 k) with ([a0] ++ repeat a0 k). rewrite app_assoc.
    assert (Es : rstep E0 (i, run i acts) a0 = (i, run i (acts ++ [a0]))).
    { unfold rstep. cbn [fst snd]. rewrite (run_snoc E0 i). reflexivity. }
    rewrite IH.
    - apply pad_reward; assumption.
    - rewrite <- Es. pose proof (RInv_step h _ HI) as X. rewrite (pad_pick h _ HI Hd) in X. exact X.
    - rewrite <- Es. apply pad_done; assumption.
  Qed.

  Lemma fold_zeros k x : fold_left ladd (repeat lzero k) x = x.
  Proof. revert x; induction k as [|k IH]; intros x; cbn [repeat fold_left]; [reflexivity|]. rewrite ladd_0_r. apply IH. Qed.

  Theorem policy_rowwise_inv (fuel : nat) (is_ : list (inst E0)) (r : nat) (i : inst E0) tr fin :
    nth_error is_ r = Some i ->
    bpolicy E0 benc bdec choose fuel is_ = (tr, fin) -> all_done E0 fin = true ->
    let batched := row_traj lzero r tr in
    let alone := solo E0 enc dec choose fuel i in
    exists k,
      traj_actions batched = traj_actions alone ++ repeat a0 k /\
      rdone E0 (i, run i (traj_actions alone)) = true /\
      RInv (i, run i (traj_actions alone)) /\ RInv (i, run i (traj_actions batched)) /\
      reward i (traj_actions batched) = reward i (traj_actions alone) /\
      traj_ll lzero ladd batched = traj_ll lzero ladd alone.
  Proof.
    intros Hi Hb Hfin. cbv zeta. unfold bpolicy in Hb. rewrite enc_rowwise in Hb.
    assert (Hr : r < length is_) by (apply nth_error_Some; congruence).
    destruct (@bloop_rowwise E0 hidden logit L lzero bdec dec choose BInv dec_rowwise BInv_step
                fuel (map enc is_) (map (rreset E0) is_) tr fin (enc i) (rreset E0 i) (BInv_reset is_)
                ltac:(rewrite !map_length; reflexivity) Hb) as (Hk & Hlf & Hrows).
    destruct (Hrows r ltac:(rewrite map_length; exact Hr)) as [Ht Hf].
    assert (Ei : nth r is_ i = i) by (apply nth_error_nth; exact Hi).
    rewrite (map_nth enc is_ i), (map_nth (rreset E0) is_ i), Ei in Ht, Hf.
    set (k := length tr) in *. set (h := enc i) in *. set (rw := rreset E0 i) in *.
    assert (Hdk : rdone E0 (srun' k h rw) = true).
    { rewrite <- Hf. unfold all_done in Hfin. rewrite forallb_forall in Hfin. apply Hfin. apply nth_In.
      rewrite Hlf, map_length. exact Hr. }
    set (t := slen E0 hidden logit L dec choose fuel h rw).
    assert (Htk : t <= k) by (apply slen_le; assumption).
    assert (Hdt : rdone E0 (srun' t h rw) = true)
      by (apply (slen_done E0 hidden logit L dec choose fuel h rw k); assumption).
    assert (HIt : RInv (srun' t h rw)) by (apply srun_inv; apply RInv_reset).
    assert (HIk : RInv (srun' k h rw)) by (apply srun_inv; apply RInv_reset).
    pose proof (srun_is_run E0 hidden logit L dec choose t h i []) as Es. cbn [app] in Es. change (i, run i []) with rw in Es.
    pose proof (srun_is_run E0 hidden logit L dec choose k h i []) as Ek. cbn [app] in Ek. change (i, run i []) with rw in Ek.
    destruct (pads_inv (k - t) h _ HIt Hdt) as [Hp _].
    assert (Hsplit : straj' k h rw = straj' t h rw ++ repeat (a0, lzero) (k - t)).
    { replace k with (t + (k - t)) at 1 by lia. rewrite straj_split, Hp. reflexivity. }
    exists (k - t). unfold solo. fold h rw t. rewrite Ht.
    rewrite Es in Hdt, HIt. rewrite Ek in HIk.
    split; [|split; [exact Hdt | split; [exact HIt | split; [exact HIk|]]]].
    - rewrite Hsplit. unfold traj_actions. rewrite map_app, map_repeat'. reflexivity.
    - split.
      + rewrite Hsplit. unfold traj_actions. rewrite map_app, map_repeat'. cbn [fst].
        apply (pads_reward_inv (k - t) h i _ HIt Hdt).
      + rewrite Hsplit. unfold traj_ll. rewrite map_app, fold_left_app, map_repeat'. cbn [snd]. apply fold_zeros.
  Qed.
End RowwiseInv.

(* ================================================================================================ Part I *)
Section GreedyOnEnv.
  Variable E0 : Env.
  Variable nof : inst E0 -> nat.                 (* number of customers: the masks have 1 + nof entries *)
  Variable P : inst E0 -> bool.                  (* boolean well-formedness of an instance *)
  Variable reward : inst E0 -> list nat -> Z.
  Hypothesis mask_len : forall i s, length (mask E0 i s) = S (nof i).
  (* C02: an admitted run never reaches a state that offers nothing *)
  Hypothesis no_dead_end : forall i acts, P i = true -> adm i acts = true -> anyb (mask E0 i (run i acts)) = true.
  (* C04: after an admitted run has finished only the depot is offered; one more depot visit leaves the row finished
     and the reward alone *)
  Hypothesis pad_inert : forall i acts, P i = true -> adm i acts = true -> done E0 i (run i acts) = true ->
    mask E0 i (run i acts) = true :: repeat false (nof i) /\
    done E0 i (run i (acts ++ [0])) = true /\
    reward i (acts ++ [0]) = reward i acts.

  Definition Eh : Env := restrict (hist E0) P.
  Definition fsh (i : inst Eh) (h : st Eh) : st E0 := run (E:=E0) (under i) h.
  Definition reach (rw : inst E0 * st E0) : Prop := P (fst rw) = true /\ exists acts, snd rw = run (E:=E0) (fst rw) acts.

  Lemma eh_reset (i : inst Eh) : fsh i (reset Eh i) = reset E0 (under i).
  Proof. reflexivity. Qed.
  Lemma eh_step (i : inst Eh) s a : fsh i (step Eh i s a) = step E0 (under i) (fsh i s) a.
  Proof. unfold fsh. cbn [step Eh restrict hist]. apply (run_snoc E0). Qed.
  Lemma eh_mask (i : inst Eh) s : mask Eh i s = mask E0 (under i) (fsh i s).
  Proof. reflexivity. Qed.
  Lemma eh_done (i : inst Eh) s : done Eh i s = done E0 (under i) (fsh i s).
  Proof. reflexivity. Qed.
  Lemma eh_run (i : inst Eh) acts : run (E:=Eh) i acts = acts.
  Proof. unfold Eh. rewrite restrict_run. apply hist_run. Qed.

  Variable hidden : Type.
  Variables (clip tmp : Z -> Z) (top_p : Qc) (top_k : nat).
  Variable benc : list (inst E0) -> list hidden.
  Variable enc : inst E0 -> hidden.
  Variable bnet : list hidden -> list (inst E0 * st E0) -> list (list Z).
  Variable net : hidden -> inst E0 * st E0 -> list Z.
  Hypothesis enc_rowwise : forall is_, benc is_ = map enc is_.
  Hypothesis net_rowwise : forall hs rows,
    length hs = length rows -> Forall reach rows -> bnet hs rows = Rowwise.map2 net hs rows.
  Hypothesis net_width : forall h i acts, P i = true -> length (net h (i, run (E:=E0) i acts)) = S (nof i).

  Local Notation gch := (greedy_choose clip tmp top_p top_k).
  Let prw := prow Eh E0 under fsh.
  Let benc' := benc1 Eh E0 under hidden benc.
  Let enc' := enc1 Eh E0 under hidden enc.
  Let bdec' := bdec1 Eh E0 under fsh hidden (list Z) bnet.
  Let dec' := dec1 Eh E0 under fsh hidden (list Z) net.
  Let reward' (i : inst Eh) (acts : list nat) : Z := reward (under i) acts.
  (* the row invariant: the history stayed inside the masks *)
  Let RI (rw : row Eh) : Prop := adm (E:=E0) (under (fst rw)) (snd rw) = true.

  Lemma prw_reach_h rows : Forall reach (map prw rows).
  Proof.
    apply Forall_forall. intros rw Hrw. apply in_map_iff in Hrw as ([i h] & <- & _).
    split; [exact (under_ok i) | exists h; reflexivity].
  Qed.

  Lemma eh_pick_unfold h (i : inst Eh) (hs : list nat) :
    pick Eh dec' gch h (i, hs)
    = greedy_choose clip tmp top_p top_k (net h (under i, run (E:=E0) (under i) hs)) (mask E0 (under i) (run (E:=E0) (under i) hs)).
  Proof. reflexivity. Qed.

  (* greedy stays inside the masks (C10 greedy_feasible x C02 no dead end) *)
  Lemma eh_RI_step h (rw : row Eh) : RI rw -> RI (rstep Eh rw (fst (pick Eh dec' gch h rw))).
  Proof.
    destruct rw as [i hs]. unfold RI, rstep. cbn [fst snd]. intros Hadm. rewrite eh_pick_unfold.
    cbn [step Eh restrict hist]. rewrite (adm_snoc E0), Hadm. cbn [andb]. unfold offered.
    apply greedy_choose_offered.
    - rewrite mask_len, net_width by exact (under_ok i). reflexivity.
    - apply anyb_exists. apply no_dead_end; [exact (under_ok i) | exact Hadm].
  Qed.

  Lemma eh_pick_done h (rw : row Eh) : RI rw -> rdone Eh rw = true -> pick Eh dec' gch h rw = (0, 1%Qc).
  Proof.
    destruct rw as [i hs]. unfold RI, rdone. cbn [fst snd]. intros Hadm Hd. rewrite eh_pick_unfold.
    destruct (pad_inert (under i) hs (under_ok i) Hadm Hd) as (Hm & _ & _). rewrite Hm.
    apply greedy_choose_single. apply net_width. exact (under_ok i).
  Qed.

  Lemma eh_policy_rowwise (fuel : nat) (is_ : list (inst Eh)) (r : nat) (i : inst Eh) tr fin :
    nth_error is_ r = Some i ->
    bpolicy Eh benc' bdec' gch fuel is_ = (tr, fin) -> all_done Eh fin = true ->
    let batched := row_traj 1%Qc r tr in
    let alone := solo Eh enc' dec' gch fuel i in
    exists k,
      traj_actions batched = traj_actions alone ++ repeat 0 k /\
      rdone Eh (i, run i (traj_actions alone)) = true /\
      RI (i, run i (traj_actions alone)) /\ RI (i, run i (traj_actions batched)) /\
      reward' i (traj_actions batched) = reward' i (traj_actions alone) /\
      traj_ll 1%Qc Qcmult batched = traj_ll 1%Qc Qcmult alone.
  Proof.
    intros Hi Hb Hfin.
    assert (Henc : forall js, benc' js = map enc' js).
    { intros js. unfold benc', benc1, enc', enc1. rewrite enc_rowwise, map_map. reflexivity. }
    assert (Hdec : forall hs rows, True -> length hs = length rows -> bdec' hs rows = Rowwise.map2 dec' hs rows).
    { intros hs rows _ Hl. unfold bdec', bdec1, dec', dec1. fold prw.
      rewrite net_rowwise; [apply map2_map_r | rewrite map_length; exact Hl | apply prw_reach_h]. }
    refine (policy_rowwise_inv Eh hidden (list Z) Qc Z 1%Qc Qcmult reward' benc' enc' bdec' dec' gch (fun _ => True) RI 0
              Henc Hdec (fun _ => I) (fun _ _ _ _ => I) _ eh_RI_step eh_pick_done _ _ Qcmult_1_r
              fuel is_ r i tr fin Hi Hb Hfin).
    - intros j. reflexivity.
    - intros [j hs]. unfold RI, rdone, rstep. cbn [fst snd]. intros Hadm Hd.
      destruct (pad_inert (under j) hs (under_ok j) Hadm Hd) as (_ & Hd' & _).
      rewrite eh_done, eh_step. unfold fsh at 1. rewrite <- (run_snoc E0). exact Hd'.
    - intros j acts. unfold RI, rdone. cbn [fst snd]. rewrite eh_run. intros Hadm Hd.
      destruct (pad_inert (under j) acts (under_ok j) Hadm Hd) as (_ & _ & Hr). exact Hr.
  Qed.

  (* ---------------------------------------------------------------- transported back to the plain model E0 *)
  Theorem greedy_policy_rowwise_on_env (fuel : nat) (is_ : list (inst E0)) (r : nat) (i : inst E0) tr fin :
    (forall j, In j is_ -> P j = true) ->
    nth_error is_ r = Some i ->
    bpolicy E0 benc bnet gch fuel is_ = (tr, fin) -> all_done E0 fin = true ->
    let batched := row_traj 1%Qc r tr in
    let alone := solo E0 enc net gch fuel i in
    exists k,
      traj_actions batched = traj_actions alone ++ repeat 0 k /\
      done E0 i (run (E:=E0) i (traj_actions alone)) = true /\
      adm (E:=E0) i (traj_actions alone) = true /\ adm (E:=E0) i (traj_actions batched) = true /\
      reward i (traj_actions batched) = reward i (traj_actions alone) /\
      traj_ll 1%Qc Qcmult batched = traj_ll 1%Qc Qcmult alone.
  Proof.
    intros HP Hi Hb Hfin. cbv zeta.
    destruct (lift_instances (hist E0) P is_ HP) as [is' His'].
    subst is_. rewrite nth_error_map in Hi. destruct (nth_error is' r) as [i'|] eqn:Ei'; [|discriminate].
    cbn [option_map] in Hi. inversion Hi; subst i. clear Hi.
    pose proof (bpolicy_sim Eh E0 under fsh eh_reset eh_step eh_mask eh_done
                  hidden (list Z) Qc gch benc bnet fuel is') as Hs.
    fold benc' bdec' in Hs. pose proof (eq_trans (eq_sym Hb) Hs) as Hs'. clear Hs.
    destruct (bpolicy Eh benc' bdec' gch fuel is') as [tr' fin'] eqn:Eb. cbn [fst snd] in Hs'.
    inversion Hs'; subst tr fin. clear Hs'.
    rewrite <- (all_done_sim Eh E0 under fsh eh_done) in Hfin.
    destruct (eh_policy_rowwise fuel is' r i' tr' fin' Ei' Eb Hfin) as (k & A & D & I1 & I2 & R & LL).
    unfold enc', dec' in *.
    rewrite (solo_sim Eh E0 under fsh eh_reset eh_step eh_mask eh_done) in A, D, I1, R, LL.
    exists k. split; [exact A|]. unfold RI in I1, I2. cbn [fst snd] in I1, I2. rewrite eh_run in I1, I2.
    unfold rdone in D. cbn [fst snd] in D. rewrite eh_run in D.
    split; [exact D|]. split; [exact I1|]. split; [exact I2|]. split; [exact R | exact LL].
  Qed.

  Theorem greedy_policy_batch_independent_on_env (fuel : nat) (is1 is2 : list (inst E0)) (r1 r2 : nat) (i : inst E0)
          tr1 fin1 tr2 fin2 :
    (forall j, In j is1 -> P j = true) -> (forall j, In j is2 -> P j = true) ->
    nth_error is1 r1 = Some i -> nth_error is2 r2 = Some i ->
    bpolicy E0 benc bnet gch fuel is1 = (tr1, fin1) -> all_done E0 fin1 = true ->
    bpolicy E0 benc bnet gch fuel is2 = (tr2, fin2) -> all_done E0 fin2 = true ->
    let t1 := row_traj 1%Qc r1 tr1 in let t2 := row_traj 1%Qc r2 tr2 in
    reward i (traj_actions t1) = reward i (traj_actions t2) /\
    traj_ll 1%Qc Qcmult t1 = traj_ll 1%Qc Qcmult t2 /\
    exists common k1 k2,
      traj_actions t1 = common ++ repeat 0 k1 /\ traj_actions t2 = common ++ repeat 0 k2 /\
      adm (E:=E0) i common = true /\ done E0 i (run (E:=E0) i common) = true.
  Proof.
    intros P1 P2 H1 H2 B1 D1 B2 D2. cbv zeta.
    destruct (greedy_policy_rowwise_on_env fuel is1 r1 i tr1 fin1 P1 H1 B1 D1) as (k1 & A1 & Dn & Ad & _ & R1 & L1).
    destruct (greedy_policy_rowwise_on_env fuel is2 r2 i tr2 fin2 P2 H2 B2 D2) as (k2 & A2 & _ & _ & _ & R2 & L2).
    split; [congruence|]. split; [congruence|].
    exists (traj_actions (solo E0 enc net gch fuel i)), k1, k2. auto.
  Qed.
End GreedyOnEnv.

(* ================================================================================================ Part J *)
From RL4CO Require Import Env.CVRP Env.CVRPProofs Env.OP Env.OPProofs Env.PCTSP Env.PCTSPProofs Env.SDVRP Env.SDVRPProofs.
Local Open Scope nat_scope.

(* ---------------------------------------------------------------- OP *)
Lemma op_mask_length i s : length (op_mask exact i s) = S (op_n i).
Proof. unfold op_mask. cbn [length]. rewrite map_length, seq_length. reflexivity. Qed.

Lemma op_pad_inert1 i acts :
  op_wfb i = true -> adm (E:=OP exact) i acts = true -> done (OP exact) i (run (E:=OP exact) i acts) = true ->
  mask (OP exact) i (run (E:=OP exact) i acts) = true :: repeat false (op_n i) /\
  done (OP exact) i (run (E:=OP exact) i (acts ++ [0])) = true /\
  op_reward i (acts ++ [0]) = op_reward i acts.
Proof.
  intros Hwf Hadm Hd. apply op_wfb_ok in Hwf.
  destruct (op_padding_inert i acts 0 Hwf Hadm Hd) as (_ & _ & M0 & _). cbn [repeat] in M0. rewrite app_nil_r in M0.
  destruct (op_padding_inert i acts 1 Hwf Hadm Hd) as (_ & D1 & _ & R1). cbn [repeat] in D1, R1. auto.
Qed.

Definition op_reach (rw : op_inst * op_st) : Prop :=
  op_wfb (fst rw) = true /\ exists acts, snd rw = run (E:=OP exact) (fst rw) acts.

Section OnOP.
  Variable hidden : Type.
  Variables (clip tmp : Z -> Z) (top_p : Qc) (top_k : nat).
  Variable benc : list op_inst -> list hidden.
  Variable enc : op_inst -> hidden.
  Variable bnet : list hidden -> list (op_inst * op_st) -> list (list Z).
  Variable net : hidden -> op_inst * op_st -> list Z.
  Hypothesis enc_rowwise : forall is_, benc is_ = map enc is_.
  Hypothesis net_rowwise : forall hs rows,
    length hs = length rows -> Forall op_reach rows -> bnet hs rows = Rowwise.map2 net hs rows.
  Hypothesis net_width : forall h i acts, op_wfb i = true -> length (net h (i, run (E:=OP exact) i acts)) = S (op_n i).

  Theorem policy_rowwise_on_op (fuel : nat) (is_ : list op_inst) (r : nat) (i : op_inst) tr fin :
    (forall j, In j is_ -> op_wfb j = true) ->
    nth_error is_ r = Some i ->
    bpolicy (OP exact) benc bnet (greedy_choose clip tmp top_p top_k) fuel is_ = (tr, fin) ->
    all_done (OP exact) fin = true ->
    let batched := row_traj 1%Qc r tr in
    let alone := solo (OP exact) enc net (greedy_choose clip tmp top_p top_k) fuel i in
    exists k,
      traj_actions batched = traj_actions alone ++ repeat 0 k /\
      done (OP exact) i (run (E:=OP exact) i (traj_actions alone)) = true /\
      adm (E:=OP exact) i (traj_actions alone) = true /\ adm (E:=OP exact) i (traj_actions batched) = true /\
      op_reward i (traj_actions batched) = op_reward i (traj_actions alone) /\
      traj_ll 1%Qc Qcmult batched = traj_ll 1%Qc Qcmult alone.
  Proof.
    exact (greedy_policy_rowwise_on_env (OP exact) op_n op_wfb op_reward op_mask_length
             (fun i acts _ _ => op_no_dead_end i _) op_pad_inert1
             hidden clip tmp top_p top_k benc enc bnet net enc_rowwise net_rowwise net_width fuel is_ r i tr fin).
  Qed.

  Theorem policy_batch_independent_on_op (fuel : nat) (is1 is2 : list op_inst) (r1 r2 : nat) (i : op_inst)
          tr1 fin1 tr2 fin2 :
    (forall j, In j is1 -> op_wfb j = true) -> (forall j, In j is2 -> op_wfb j = true) ->
    nth_error is1 r1 = Some i -> nth_error is2 r2 = Some i ->
    bpolicy (OP exact) benc bnet (greedy_choose clip tmp top_p top_k) fuel is1 = (tr1, fin1) ->
    all_done (OP exact) fin1 = true ->
    bpolicy (OP exact) benc bnet (greedy_choose clip tmp top_p top_k) fuel is2 = (tr2, fin2) ->
    all_done (OP exact) fin2 = true ->
    let t1 := row_traj 1%Qc r1 tr1 in let t2 := row_traj 1%Qc r2 tr2 in
    op_reward i (traj_actions t1) = op_reward i (traj_actions t2) /\
    traj_ll 1%Qc Qcmult t1 = traj_ll 1%Qc Qcmult t2 /\
    exists common k1 k2,
      traj_actions t1 = common ++ repeat 0 k1 /\ traj_actions t2 = common ++ repeat 0 k2 /\
      adm (E:=OP exact) i common = true /\ done (OP exact) i (run (E:=OP exact) i common) = true.
  Proof.
    exact (greedy_policy_batch_independent_on_env (OP exact) op_n op_wfb op_reward op_mask_length
             (fun i acts _ _ => op_no_dead_end i _) op_pad_inert1
             hidden clip tmp top_p top_k benc enc bnet net enc_rowwise net_rowwise net_width
             fuel is1 is2 r1 r2 i tr1 fin1 tr2 fin2).
  Qed.
End OnOP.

(* ---------------------------------------------------------------- PCTSP (and SPCTSP: the field [stoch]) *)
Definition pctsp_P (i : pctsp_inst) : bool := pctsp_wfb i && (pdfun i 0 0 =? 0)%Z.
Lemma pctsp_P_ok i : pctsp_P i = true -> pctsp_wf i /\ pdfun i 0 0 = 0%Z.
Proof. unfold pctsp_P. intros H. apply andb_prop in H as [H1 H2]. split; [apply pctsp_wfb_ok; exact H1 | apply Z.eqb_eq; exact H2]. Qed.

Lemma pctsp_mask_length i s : length (pctsp_mask i s) = S (pn_of i).
Proof. unfold pctsp_mask, plocs. cbn [length]. rewrite map_length, seq_length. reflexivity. Qed.

Lemma pctsp_pad_inert1 i acts :
  pctsp_P i = true -> adm (E:=PCTSP exact) i acts = true -> done (PCTSP exact) i (run (E:=PCTSP exact) i acts) = true ->
  mask (PCTSP exact) i (run (E:=PCTSP exact) i acts) = true :: repeat false (pn_of i) /\
  done (PCTSP exact) i (run (E:=PCTSP exact) i (acts ++ [0])) = true /\
  pctsp_reward i (acts ++ [0]) = pctsp_reward i acts.
Proof.
  intros HP Hadm Hd. destruct (pctsp_P_ok i HP) as [Hwf H00].
  destruct (pctsp_padding_inert i acts 0 Hwf Hadm Hd) as (_ & _ & M0 & _). cbn [repeat] in M0. rewrite app_nil_r in M0.
  destruct (pctsp_padding_inert i acts 1 Hwf Hadm Hd) as (_ & D1 & _ & R1). cbn [repeat] in D1, R1. auto.
Qed.

Definition pctsp_reach (rw : pctsp_inst * pctsp_st) : Prop :=
  pctsp_P (fst rw) = true /\ exists acts, snd rw = run (E:=PCTSP exact) (fst rw) acts.

Section OnPCTSP.
  Variable hidden : Type.
  Variables (clip tmp : Z -> Z) (top_p : Qc) (top_k : nat).
  Variable benc : list pctsp_inst -> list hidden.
  Variable enc : pctsp_inst -> hidden.
  Variable bnet : list hidden -> list (pctsp_inst * pctsp_st) -> list (list Z).
  Variable net : hidden -> pctsp_inst * pctsp_st -> list Z.
  Hypothesis enc_rowwise : forall is_, benc is_ = map enc is_.
  Hypothesis net_rowwise : forall hs rows,
    length hs = length rows -> Forall pctsp_reach rows -> bnet hs rows = Rowwise.map2 net hs rows.
  Hypothesis net_width : forall h i acts,
    pctsp_P i = true -> length (net h (i, run (E:=PCTSP exact) i acts)) = S (pn_of i).

  Theorem policy_rowwise_on_pctsp (fuel : nat) (is_ : list pctsp_inst) (r : nat) (i : pctsp_inst) tr fin :
    (forall j, In j is_ -> pctsp_P j = true) ->
    nth_error is_ r = Some i ->
    bpolicy (PCTSP exact) benc bnet (greedy_choose clip tmp top_p top_k) fuel is_ = (tr, fin) ->
    all_done (PCTSP exact) fin = true ->
    let batched := row_traj 1%Qc r tr in
    let alone := solo (PCTSP exact) enc net (greedy_choose clip tmp top_p top_k) fuel i in
    exists k,
      traj_actions batched = traj_actions alone ++ repeat 0 k /\
      done (PCTSP exact) i (run (E:=PCTSP exact) i (traj_actions alone)) = true /\
      adm (E:=PCTSP exact) i (traj_actions alone) = true /\ adm (E:=PCTSP exact) i (traj_actions batched) = true /\
      pctsp_reward i (traj_actions batched) = pctsp_reward i (traj_actions alone) /\
      traj_ll 1%Qc Qcmult batched = traj_ll 1%Qc Qcmult alone.
  Proof.
    exact (greedy_policy_rowwise_on_env (PCTSP exact) pn_of pctsp_P pctsp_reward pctsp_mask_length
             (fun i acts HP Ha => pctsp_no_dead_end i acts (proj1 (pctsp_P_ok i HP)) Ha) pctsp_pad_inert1
             hidden clip tmp top_p top_k benc enc bnet net enc_rowwise net_rowwise net_width fuel is_ r i tr fin).
  Qed.

  Theorem policy_batch_independent_on_pctsp (fuel : nat) (is1 is2 : list pctsp_inst) (r1 r2 : nat) (i : pctsp_inst)
          tr1 fin1 tr2 fin2 :
    (forall j, In j is1 -> pctsp_P j = true) -> (forall j, In j is2 -> pctsp_P j = true) ->
    nth_error is1 r1 = Some i -> nth_error is2 r2 = Some i ->
    bpolicy (PCTSP exact) benc bnet (greedy_choose clip tmp top_p top_k) fuel is1 = (tr1, fin1) ->
    all_done (PCTSP exact) fin1 = true ->
    bpolicy (PCTSP exact) benc bnet (greedy_choose clip tmp top_p top_k) fuel is2 = (tr2, fin2) ->
    all_done (PCTSP exact) fin2 = true ->
    let t1 := row_traj 1%Qc r1 tr1 in let t2 := row_traj 1%Qc r2 tr2 in
    pctsp_reward i (traj_actions t1) = pctsp_reward i (traj_actions t2) /\
    traj_ll 1%Qc Qcmult t1 = traj_ll 1%Qc Qcmult t2 /\
    exists common k1 k2,
      traj_actions t1 = common ++ repeat 0 k1 /\ traj_actions t2 = common ++ repeat 0 k2 /\
      adm (E:=PCTSP exact) i common = true /\ done (PCTSP exact) i (run (E:=PCTSP exact) i common) = true.
  Proof.
    exact (greedy_policy_batch_independent_on_env (PCTSP exact) pn_of pctsp_P pctsp_reward pctsp_mask_length
             (fun i acts HP Ha => pctsp_no_dead_end i acts (proj1 (pctsp_P_ok i HP)) Ha) pctsp_pad_inert1
             hidden clip tmp top_p top_k benc enc bnet net enc_rowwise net_rowwise net_width
             fuel is1 is2 r1 r2 i tr1 fin1 tr2 fin2).
  Qed.
End OnPCTSP.

(* ---------------------------------------------------------------- SDVRP (instances and reward are CVRP's) *)
Definition sdvrp_P (i : cvrp_inst) : bool := cvrp_wfb i && (dfun i 0 0 =? 0)%Z.
Lemma sdvrp_P_ok i : sdvrp_P i = true -> cvrp_wf i /\ dfun i 0 0 = 0%Z.
Proof. unfold sdvrp_P. intros H. apply andb_prop in H as [H1 H2]. split; [apply cvrp_wfb_ok; exact H1 | apply Z.eqb_eq; exact H2]. Qed.

Lemma sd_mask_length i s : length (sd_mask i s) = S (n_of i).
Proof. unfold sd_mask, sd_locs. cbn [length]. rewrite map_length, seq_length. reflexivity. Qed.

Lemma sdvrp_pad_inert1 i acts :
  sdvrp_P i = true -> adm (E:=SDVRP exact) i acts = true -> done (SDVRP exact) i (run (E:=SDVRP exact) i acts) = true ->
  mask (SDVRP exact) i (run (E:=SDVRP exact) i acts) = true :: repeat false (n_of i) /\
  done (SDVRP exact) i (run (E:=SDVRP exact) i (acts ++ [0])) = true /\
  cvrp_reward i (acts ++ [0]) = cvrp_reward i acts.
Proof.
  intros HP Hadm Hd. destruct (sdvrp_P_ok i HP) as [Hwf H00].
  destruct (sdvrp_padding_inert i acts 0 Hwf Hadm Hd) as (_ & _ & M0 & _). cbn [repeat] in M0. rewrite app_nil_r in M0.
  destruct (sdvrp_padding_inert i acts 1 Hwf Hadm Hd) as (_ & D1 & _ & R1). cbn [repeat] in D1, R1. auto.
Qed.

Definition sdvrp_reach (rw : cvrp_inst * sd_st) : Prop :=
  sdvrp_P (fst rw) = true /\ exists acts, snd rw = run (E:=SDVRP exact) (fst rw) acts.

Section OnSDVRP.
  Variable hidden : Type.
  Variables (clip tmp : Z -> Z) (top_p : Qc) (top_k : nat).
  Variable benc : list cvrp_inst -> list hidden.
  Variable enc : cvrp_inst -> hidden.
  Variable bnet : list hidden -> list (cvrp_inst * sd_st) -> list (list Z).
  Variable net : hidden -> cvrp_inst * sd_st -> list Z.
  Hypothesis enc_rowwise : forall is_, benc is_ = map enc is_.
  Hypothesis net_rowwise : forall hs rows,
    length hs = length rows -> Forall sdvrp_reach rows -> bnet hs rows = Rowwise.map2 net hs rows.
  Hypothesis net_width : forall h i acts,
    sdvrp_P i = true -> length (net h (i, run (E:=SDVRP exact) i acts)) = S (n_of i).

  Theorem policy_rowwise_on_sdvrp (fuel : nat) (is_ : list cvrp_inst) (r : nat) (i : cvrp_inst) tr fin :
    (forall j, In j is_ -> sdvrp_P j = true) ->
    nth_error is_ r = Some i ->
    bpolicy (SDVRP exact) benc bnet (greedy_choose clip tmp top_p top_k) fuel is_ = (tr, fin) ->
    all_done (SDVRP exact) fin = true ->
    let batched := row_traj 1%Qc r tr in
    let alone := solo (SDVRP exact) enc net (greedy_choose clip tmp top_p top_k) fuel i in
    exists k,
      traj_actions batched = traj_actions alone ++ repeat 0 k /\
      done (SDVRP exact) i (run (E:=SDVRP exact) i (traj_actions alone)) = true /\
      adm (E:=SDVRP exact) i (traj_actions alone) = true /\ adm (E:=SDVRP exact) i (traj_actions batched) = true /\
      cvrp_reward i (traj_actions batched) = cvrp_reward i (traj_actions alone) /\
      traj_ll 1%Qc Qcmult batched = traj_ll 1%Qc Qcmult alone.
  Proof.
    exact (greedy_policy_rowwise_on_env (SDVRP exact) n_of sdvrp_P cvrp_reward sd_mask_length
             (fun i acts _ _ => sdvrp_no_dead_end i _) sdvrp_pad_inert1
             hidden clip tmp top_p top_k benc enc bnet net enc_rowwise net_rowwise net_width fuel is_ r i tr fin).
  Qed.

  Theorem policy_batch_independent_on_sdvrp (fuel : nat) (is1 is2 : list cvrp_inst) (r1 r2 : nat) (i : cvrp_inst)
          tr1 fin1 tr2 fin2 :
    (forall j, In j is1 -> sdvrp_P j = true) -> (forall j, In j is2 -> sdvrp_P j = true) ->
    nth_error is1 r1 = Some i -> nth_error is2 r2 = Some i ->
    bpolicy (SDVRP exact) benc bnet (greedy_choose clip tmp top_p top_k) fuel is1 = (tr1, fin1) ->
    all_done (SDVRP exact) fin1 = true ->
    bpolicy (SDVRP exact) benc bnet (greedy_choose clip tmp top_p top_k) fuel is2 = (tr2, fin2) ->
    all_done (SDVRP exact) fin2 = true ->
    let t1 := row_traj 1%Qc r1 tr1 in let t2 := row_traj 1%Qc r2 tr2 in
    cvrp_reward i (traj_actions t1) = cvrp_reward i (traj_actions t2) /\
    traj_ll 1%Qc Qcmult t1 = traj_ll 1%Qc Qcmult t2 /\
    exists common k1 k2,
      traj_actions t1 = common ++ repeat 0 k1 /\ traj_actions t2 = common ++ repeat 0 k2 /\
      adm (E:=SDVRP exact) i common = true /\ done (SDVRP exact) i (run (E:=SDVRP exact) i common) = true.
  Proof.
    exact (greedy_policy_batch_independent_on_env (SDVRP exact) n_of sdvrp_P cvrp_reward sd_mask_length
             (fun i acts _ _ => sdvrp_no_dead_end i _) sdvrp_pad_inert1
             hidden clip tmp top_p top_k benc enc bnet net enc_rowwise net_rowwise net_width
             fuel is1 is2 r1 r2 i tr1 fin1 tr2 fin2).
  Qed.
End OnSDVRP.

(* ================================================================================================ Part K *)
(* C11 on an environment: the decoder returns the network's logits and THE ENVIRONMENT'S OWN mask *)
Definition env_dec (E0 : Env) {Hd : Type} (net : Hd -> inst E0 -> st E0 -> list Z) (h : Hd) (i : inst E0) (s : st E0)
  : list Z * list bool := (net h i s, mask E0 i s).
Definition op_rew (i : op_inst) (s : op_st) (acts : list nat) : Z := op_reward i acts.
Definition pctsp_rew (i : pctsp_inst) (s : pctsp_st) (acts : list nat) : Z := pctsp_reward i acts.
Definition sdvrp_rew (i : cvrp_inst) (s : sd_st) (acts : list nat) : Z := cvrp_reward i acts.

Section C11OnEnv.
  Variable E0 : Env.
  Variable nof : inst E0 -> nat.
  Variable wf : inst E0 -> Prop.
  Hypothesis mask_len : forall i s, length (mask E0 i s) = S (nof i).
  (* the shape of C04_<env>_padding_inert (without its reward conjunct) *)
  Hypothesis inert : forall i acts k, wf i -> adm i acts = true -> done E0 i (run i acts) = true ->
    adm i (acts ++ repeat 0 k) = true /\
    done E0 i (run i (acts ++ repeat 0 k)) = true /\
    mask E0 i (run i (acts ++ repeat 0 k)) = true :: repeat false (nof i).
  Variables (clip tmp : Z -> Z) (top_p : Qc) (top_k : nat).
  Variable Hd : Type.
  Variable net : Hd -> inst E0 -> st E0 -> list Z.

  Local Notation eprobs ml := (probs QcF Z Z.leb pow2 clip tmp top_p top_k ml E0 Hd (env_dec E0 net)).
  Local Notation espec ml := (spec_ps QcF Z Z.leb pow2 clip tmp top_p top_k ml E0 Hd (env_dec E0 net)).

  Theorem ll_is_sum_on_env (mask_logits : bool) (rew : inst E0 -> st E0 -> list nat -> Z)
          (flagf : inst E0 -> st E0 -> option (list bool))
          (m : mode) (sa : bool) (S : nat) (sb : bool) (fuel : nat) (cfgs : list (Hd * inst E0))
          (starts : list nat) (ors : list (list nat)) (outs : list (brow QcF E0 Hd)) :
    forward QcF Z Z.leb pow2 clip tmp top_p top_k mask_logits E0 Hd (env_dec E0 net) rew
            m sa false S sb fuel cfgs starts ors = Some outs ->
    forall cr, In cr outs ->
      let c := fst cr in let acts := r_acts (snd cr) in
      let ps := espec mask_logits (rc_h c) (rc_i c) (reset E0 (rc_i c)) acts in
      r_s (snd cr) = run (E:=E0) (rc_i c) acts /\
      out_ll_steps QcF E0 Hd flagf Qc idQc cr = map idQc (flagz QcF (out_flags QcF E0 Hd flagf cr) ps) /\
      out_ll QcF E0 Hd flagf Qc 1%Qc Qcmult idQc cr
        = gsum Qc 1%Qc Qcmult (map idQc (flagz QcF (out_flags QcF E0 Hd flagf cr) ps)) /\
      out_reward QcF E0 Hd rew cr = rew (rc_i c) (run (E:=E0) (rc_i c) acts) acts.
  Proof.
    exact (ll_is_sum_plain QcF Z Z.leb pow2 clip tmp top_p top_k mask_logits E0 Hd (env_dec E0 net) rew flagf
             Qc 1%Qc Qcmult idQc m sa S sb fuel cfgs starts ors outs).
  Qed.

  (* C11 probs_single_feasible x C04 padding inert *)
  Theorem padding_steps_have_probability_one_on_env (h : Hd) (i : inst E0) (acts : list nat) (k : nat) :
    wf i -> adm (E:=E0) i acts = true -> done E0 i (run (E:=E0) i acts) = true ->
    length (net h i (run (E:=E0) i (acts ++ repeat 0 k))) = S (nof i) ->
    let pr := eprobs true h i (run (E:=E0) i (acts ++ repeat 0 k)) in
    nth 0 pr 0%Qc = 1%Qc /\ greedy QcF pr = 0.
  Proof.
    intros Hwf Hadm Hd0 Hlen. cbv zeta.
    destruct (inert i acts k Hwf Hadm Hd0) as (_ & _ & Hm).
    split.
    - apply (probs_single_feasible QcF Z Z.leb pow2 clip tmp top_p top_k true E0 Hd (env_dec E0 net) pow2_pos pow2_mono
               h i (run (E:=E0) i (acts ++ repeat 0 k)) 0 eq_refl); unfold env_dec; cbn [fst snd].
      + rewrite mask_len, Hlen. reflexivity.
      + rewrite mask_len. lia.
      + rewrite Hm. reflexivity.
      + intros [|b] Hb; [congruence|]. rewrite Hm. cbn [nth]. apply nth_repeat.
    - unfold probs, eff_mask, env_dec. cbn [fst snd]. rewrite Hm.
      exact (f_equal fst (greedy_choose_single clip tmp top_p top_k _ (nof i) Hlen)).
  Qed.

  Lemma env_spec_ps_app ml h i s a b :
    espec ml h i s (a ++ b) = espec ml h i s a ++ espec ml h i (run_from (E:=E0) i s a) b.
  Proof. revert s; induction a as [|x a IH]; intros s; cbn [app spec_ps run_from]; [reflexivity|]. rewrite IH. reflexivity. Qed.

  Lemma env_pad_ps (h : Hd) (i : inst E0) :
    wf i -> (forall s, length (net h i s) = S (nof i)) ->
    forall k acts, adm (E:=E0) i acts = true -> done E0 i (run (E:=E0) i acts) = true ->
      espec true h i (run (E:=E0) i acts) (repeat 0 k) = repeat 1%Qc k.
  Proof.
    intros Hwf Hlen. induction k as [|k IH]; intros acts Hadm Hd0; cbn [repeat spec_ps]; [reflexivity|]. f_equal.
    - destruct (padding_steps_have_probability_one_on_env h i acts 0 Hwf Hadm Hd0 (Hlen _)) as [H _].
      cbn [repeat] in H. rewrite app_nil_r in H. exact H.
    - destruct (inert i acts 1 Hwf Hadm Hd0) as (Pa & Pd & _). cbn [repeat] in Pa, Pd.
      rewrite <- (run_snoc E0). apply IH; assumption.
  Qed.

  Theorem padded_ll_equal_on_env (h : Hd) (i : inst E0) (acts : list nat) (k : nat) :
    wf i -> (forall s, length (net h i s) = S (nof i)) ->
    adm (E:=E0) i acts = true -> done E0 i (run (E:=E0) i acts) = true ->
    espec true h i (reset E0 i) (acts ++ repeat 0 k) = espec true h i (reset E0 i) acts ++ repeat 1%Qc k /\
    gsum Qc 1%Qc Qcmult (map idQc (espec true h i (reset E0 i) (acts ++ repeat 0 k)))
      = gsum Qc 1%Qc Qcmult (map idQc (espec true h i (reset E0 i) acts)).
  Proof.
    intros Hwf Hlen Hadm Hd0.
    assert (Eq : espec true h i (reset E0 i) (acts ++ repeat 0 k) = espec true h i (reset E0 i) acts ++ repeat 1%Qc k).
    { rewrite env_spec_ps_app. f_equal. apply (env_pad_ps h i Hwf Hlen k acts Hadm Hd0). }
    split; [exact Eq | rewrite Eq; apply gsum_pad_ones].
  Qed.
End C11OnEnv.

(* the C04 theorems in the shape of [inert] *)
Lemma op_inert i acts k :
  op_wf i -> adm (E:=OP exact) i acts = true -> done (OP exact) i (run (E:=OP exact) i acts) = true ->
  adm (E:=OP exact) i (acts ++ repeat 0 k) = true /\
  done (OP exact) i (run (E:=OP exact) i (acts ++ repeat 0 k)) = true /\
  mask (OP exact) i (run (E:=OP exact) i (acts ++ repeat 0 k)) = true :: repeat false (op_n i).
Proof. intros W A D. destruct (op_padding_inert i acts k W A D) as (H1 & H2 & H3 & _). auto. Qed.
Lemma pctsp_inert i acts k :
  pctsp_wf i -> adm (E:=PCTSP exact) i acts = true -> done (PCTSP exact) i (run (E:=PCTSP exact) i acts) = true ->
  adm (E:=PCTSP exact) i (acts ++ repeat 0 k) = true /\
  done (PCTSP exact) i (run (E:=PCTSP exact) i (acts ++ repeat 0 k)) = true /\
  mask (PCTSP exact) i (run (E:=PCTSP exact) i (acts ++ repeat 0 k)) = true :: repeat false (pn_of i).
Proof. intros W A D. destruct (pctsp_padding_inert i acts k W A D) as (H1 & H2 & H3 & _). auto. Qed.
Lemma sdvrp_inert i acts k :
  cvrp_wf i -> adm (E:=SDVRP exact) i acts = true -> done (SDVRP exact) i (run (E:=SDVRP exact) i acts) = true ->
  adm (E:=SDVRP exact) i (acts ++ repeat 0 k) = true /\
  done (SDVRP exact) i (run (E:=SDVRP exact) i (acts ++ repeat 0 k)) = true /\
  mask (SDVRP exact) i (run (E:=SDVRP exact) i (acts ++ repeat 0 k)) = true :: repeat false (n_of i).
Proof. intros W A D. destruct (sdvrp_padding_inert i acts k W A D) as (H1 & H2 & H3 & _). auto. Qed.

(* ---------------------------------------------------------------- the three instances, spelled out *)
Section C11OnThree.
  Variables (clip tmp : Z -> Z) (top_p : Qc) (top_k : nat).
  Variable Hd : Type.

  (* OP *)
  Theorem ll_is_sum_on_op (net : Hd -> op_inst -> op_st -> list Z) (mask_logits : bool)
          (flagf : op_inst -> op_st -> option (list bool))
          (m : mode) (sa : bool) (S : nat) (sb : bool) (fuel : nat) (cfgs : list (Hd * op_inst))
          (starts : list nat) (ors : list (list nat)) (outs : list (brow QcF (OP exact) Hd)) :
    forward QcF Z Z.leb pow2 clip tmp top_p top_k mask_logits (OP exact) Hd (env_dec (OP exact) net) op_rew
            m sa false S sb fuel cfgs starts ors = Some outs ->
    forall cr, In cr outs ->
      let c := fst cr in let acts := r_acts (snd cr) in
      let ps := spec_ps QcF Z Z.leb pow2 clip tmp top_p top_k mask_logits (OP exact) Hd (env_dec (OP exact) net)
                        (rc_h c) (rc_i c) (op_reset (rc_i c)) acts in
      r_s (snd cr) = run (E:=OP exact) (rc_i c) acts /\
      out_ll_steps QcF (OP exact) Hd flagf Qc idQc cr = map idQc (flagz QcF (out_flags QcF (OP exact) Hd flagf cr) ps) /\
      out_ll QcF (OP exact) Hd flagf Qc 1%Qc Qcmult idQc cr
        = gsum Qc 1%Qc Qcmult (map idQc (flagz QcF (out_flags QcF (OP exact) Hd flagf cr) ps)) /\
      out_reward QcF (OP exact) Hd op_rew cr = op_reward (rc_i c) acts.
  Proof. exact (ll_is_sum_on_env (OP exact) clip tmp top_p top_k Hd net mask_logits op_rew flagf m sa S sb fuel cfgs starts ors outs). Qed.

  Theorem op_padding_steps_have_probability_one (net : Hd -> op_inst -> op_st -> list Z)
          (h : Hd) (i : op_inst) (acts : list nat) (k : nat) :
    op_wf i -> adm (E:=OP exact) i acts = true -> done (OP exact) i (run (E:=OP exact) i acts) = true ->
    length (net h i (run (E:=OP exact) i (acts ++ repeat 0 k))) = S (op_n i) ->
    let pr := probs QcF Z Z.leb pow2 clip tmp top_p top_k true (OP exact) Hd (env_dec (OP exact) net) h i
                    (run (E:=OP exact) i (acts ++ repeat 0 k)) in
    nth 0 pr 0%Qc = 1%Qc /\ greedy QcF pr = 0.
  Proof. exact (padding_steps_have_probability_one_on_env (OP exact) op_n op_wf op_mask_length op_inert clip tmp top_p top_k Hd net h i acts k). Qed.

  Theorem op_padded_ll_equal (net : Hd -> op_inst -> op_st -> list Z) (h : Hd) (i : op_inst) (acts : list nat) (k : nat) :
    op_wf i -> (forall s, length (net h i s) = S (op_n i)) ->
    adm (E:=OP exact) i acts = true -> done (OP exact) i (run (E:=OP exact) i acts) = true ->
    let ps := spec_ps QcF Z Z.leb pow2 clip tmp top_p top_k true (OP exact) Hd (env_dec (OP exact) net) h i (op_reset i) in
    ps (acts ++ repeat 0 k) = ps acts ++ repeat 1%Qc k /\
    gsum Qc 1%Qc Qcmult (map idQc (ps (acts ++ repeat 0 k))) = gsum Qc 1%Qc Qcmult (map idQc (ps acts)) /\
    op_reward i (acts ++ repeat 0 k) = op_reward i acts.
  Proof.
    intros W Hl A D. cbv zeta.
    destruct (padded_ll_equal_on_env (OP exact) op_n op_wf op_mask_length op_inert clip tmp top_p top_k Hd net h i acts k W Hl A D)
      as [H1 H2].
    destruct (op_padding_inert i acts k W A D) as (_ & _ & _ & R). auto.
  Qed.

  (* PCTSP *)
  Theorem ll_is_sum_on_pctsp (net : Hd -> pctsp_inst -> pctsp_st -> list Z) (mask_logits : bool)
          (flagf : pctsp_inst -> pctsp_st -> option (list bool))
          (m : mode) (sa : bool) (S : nat) (sb : bool) (fuel : nat) (cfgs : list (Hd * pctsp_inst))
          (starts : list nat) (ors : list (list nat)) (outs : list (brow QcF (PCTSP exact) Hd)) :
    forward QcF Z Z.leb pow2 clip tmp top_p top_k mask_logits (PCTSP exact) Hd (env_dec (PCTSP exact) net) pctsp_rew
            m sa false S sb fuel cfgs starts ors = Some outs ->
    forall cr, In cr outs ->
      let c := fst cr in let acts := r_acts (snd cr) in
      let ps := spec_ps QcF Z Z.leb pow2 clip tmp top_p top_k mask_logits (PCTSP exact) Hd (env_dec (PCTSP exact) net)
                        (rc_h c) (rc_i c) (pctsp_reset (rc_i c)) acts in
      r_s (snd cr) = run (E:=PCTSP exact) (rc_i c) acts /\
      out_ll_steps QcF (PCTSP exact) Hd flagf Qc idQc cr
        = map idQc (flagz QcF (out_flags QcF (PCTSP exact) Hd flagf cr) ps) /\
      out_ll QcF (PCTSP exact) Hd flagf Qc 1%Qc Qcmult idQc cr
        = gsum Qc 1%Qc Qcmult (map idQc (flagz QcF (out_flags QcF (PCTSP exact) Hd flagf cr) ps)) /\
      out_reward QcF (PCTSP exact) Hd pctsp_rew cr = pctsp_reward (rc_i c) acts.
  Proof. exact (ll_is_sum_on_env (PCTSP exact) clip tmp top_p top_k Hd net mask_logits pctsp_rew flagf m sa S sb fuel cfgs starts ors outs). Qed.

  Theorem pctsp_padding_steps_have_probability_one (net : Hd -> pctsp_inst -> pctsp_st -> list Z)
          (h : Hd) (i : pctsp_inst) (acts : list nat) (k : nat) :
    pctsp_wf i -> adm (E:=PCTSP exact) i acts = true -> done (PCTSP exact) i (run (E:=PCTSP exact) i acts) = true ->
    length (net h i (run (E:=PCTSP exact) i (acts ++ repeat 0 k))) = S (pn_of i) ->
    let pr := probs QcF Z Z.leb pow2 clip tmp top_p top_k true (PCTSP exact) Hd (env_dec (PCTSP exact) net) h i
                    (run (E:=PCTSP exact) i (acts ++ repeat 0 k)) in
    nth 0 pr 0%Qc = 1%Qc /\ greedy QcF pr = 0.
  Proof. exact (padding_steps_have_probability_one_on_env (PCTSP exact) pn_of pctsp_wf pctsp_mask_length pctsp_inert clip tmp top_p top_k Hd net h i acts k). Qed.

  Theorem pctsp_padded_ll_equal (net : Hd -> pctsp_inst -> pctsp_st -> list Z) (h : Hd) (i : pctsp_inst) (acts : list nat) (k : nat) :
    pctsp_wf i -> (forall s, length (net h i s) = S (pn_of i)) ->
    adm (E:=PCTSP exact) i acts = true -> done (PCTSP exact) i (run (E:=PCTSP exact) i acts) = true ->
    let ps := spec_ps QcF Z Z.leb pow2 clip tmp top_p top_k true (PCTSP exact) Hd (env_dec (PCTSP exact) net) h i (pctsp_reset i) in
    ps (acts ++ repeat 0 k) = ps acts ++ repeat 1%Qc k /\
    gsum Qc 1%Qc Qcmult (map idQc (ps (acts ++ repeat 0 k))) = gsum Qc 1%Qc Qcmult (map idQc (ps acts)) /\
    (pdfun i 0 0 = 0%Z -> pctsp_reward i (acts ++ repeat 0 k) = pctsp_reward i acts).
  Proof.
    intros W Hl A D. cbv zeta.
    destruct (padded_ll_equal_on_env (PCTSP exact) pn_of pctsp_wf pctsp_mask_length pctsp_inert clip tmp top_p top_k Hd net h i acts k W Hl A D)
      as [H1 H2].
    destruct (pctsp_padding_inert i acts k W A D) as (_ & _ & _ & R). auto.
  Qed.

  (* SDVRP *)
  Theorem ll_is_sum_on_sdvrp (net : Hd -> cvrp_inst -> sd_st -> list Z) (mask_logits : bool)
          (flagf : cvrp_inst -> sd_st -> option (list bool))
          (m : mode) (sa : bool) (S : nat) (sb : bool) (fuel : nat) (cfgs : list (Hd * cvrp_inst))
          (starts : list nat) (ors : list (list nat)) (outs : list (brow QcF (SDVRP exact) Hd)) :
    forward QcF Z Z.leb pow2 clip tmp top_p top_k mask_logits (SDVRP exact) Hd (env_dec (SDVRP exact) net) sdvrp_rew
            m sa false S sb fuel cfgs starts ors = Some outs ->
    forall cr, In cr outs ->
      let c := fst cr in let acts := r_acts (snd cr) in
      let ps := spec_ps QcF Z Z.leb pow2 clip tmp top_p top_k mask_logits (SDVRP exact) Hd (env_dec (SDVRP exact) net)
                        (rc_h c) (rc_i c) (sd_reset (rc_i c)) acts in
      r_s (snd cr) = run (E:=SDVRP exact) (rc_i c) acts /\
      out_ll_steps QcF (SDVRP exact) Hd flagf Qc idQc cr
        = map idQc (flagz QcF (out_flags QcF (SDVRP exact) Hd flagf cr) ps) /\
      out_ll QcF (SDVRP exact) Hd flagf Qc 1%Qc Qcmult idQc cr
        = gsum Qc 1%Qc Qcmult (map idQc (flagz QcF (out_flags QcF (SDVRP exact) Hd flagf cr) ps)) /\
      out_reward QcF (SDVRP exact) Hd sdvrp_rew cr = cvrp_reward (rc_i c) acts.
  Proof. exact (ll_is_sum_on_env (SDVRP exact) clip tmp top_p top_k Hd net mask_logits sdvrp_rew flagf m sa S sb fuel cfgs starts ors outs). Qed.

  Theorem sdvrp_padding_steps_have_probability_one (net : Hd -> cvrp_inst -> sd_st -> list Z)
          (h : Hd) (i : cvrp_inst) (acts : list nat) (k : nat) :
    cvrp_wf i -> adm (E:=SDVRP exact) i acts = true -> done (SDVRP exact) i (run (E:=SDVRP exact) i acts) = true ->
    length (net h i (run (E:=SDVRP exact) i (acts ++ repeat 0 k))) = S (n_of i) ->
    let pr := probs QcF Z Z.leb pow2 clip tmp top_p top_k true (SDVRP exact) Hd (env_dec (SDVRP exact) net) h i
                    (run (E:=SDVRP exact) i (acts ++ repeat 0 k)) in
    nth 0 pr 0%Qc = 1%Qc /\ greedy QcF pr = 0.
  Proof. exact (padding_steps_have_probability_one_on_env (SDVRP exact) n_of cvrp_wf sd_mask_length sdvrp_inert clip tmp top_p top_k Hd net h i acts k). Qed.

  Theorem sdvrp_padded_ll_equal (net : Hd -> cvrp_inst -> sd_st -> list Z) (h : Hd) (i : cvrp_inst) (acts : list nat) (k : nat) :
    cvrp_wf i -> (forall s, length (net h i s) = S (n_of i)) ->
    adm (E:=SDVRP exact) i acts = true -> done (SDVRP exact) i (run (E:=SDVRP exact) i acts) = true ->
    let ps := spec_ps QcF Z Z.leb pow2 clip tmp top_p top_k true (SDVRP exact) Hd (env_dec (SDVRP exact) net) h i (sd_reset i) in
    ps (acts ++ repeat 0 k) = ps acts ++ repeat 1%Qc k /\
    gsum Qc 1%Qc Qcmult (map idQc (ps (acts ++ repeat 0 k))) = gsum Qc 1%Qc Qcmult (map idQc (ps acts)) /\
    (dfun i 0 0 = 0%Z -> cvrp_reward i (acts ++ repeat 0 k) = cvrp_reward i acts).
  Proof.
    intros W Hl A D. cbv zeta.
    destruct (padded_ll_equal_on_env (SDVRP exact) n_of cvrp_wf sd_mask_length sdvrp_inert clip tmp top_p top_k Hd net h i acts k W Hl A D)
      as [H1 H2].
    destruct (sdvrp_padding_inert i acts k W A D) as (_ & _ & _ & R). auto.
  Qed.
End C11OnThree.

(* ================================================================================================ Part L *)
(* Non-vacuity at the real models, by computation.  Per environment two well-formed instances of the same width that
   finish at different times, a state-dependent integer-logit network, the batched loop of C14 (bpolicy: instance i1
   alone and in the batch [i1; i2]) and the decode loop of C11 (forward, greedy), plus a closed instance of the
   hypotheses of policy_rowwise_on_<env>. *)
Definition d4 : list (list Z) := [[0; 3; 4; 5]; [3; 0; 5; 4]; [4; 5; 0; 3]; [5; 4; 3; 0]]%Z.
Definition noflags {I S : Type} (i : I) (s : S) : option (list bool) := None.
Definition rview2 (r : nat) (tr : list (list (nat * Qc))) : list (nat * Q) :=
  map (fun l => let c := nth r l (0, 1%Qc) in (fst c, this (snd c))) tr.
Definition gc2 := greedy_choose (fun z => z) (fun z => z) 0%Qc 0.

Module ExOP.
  (* length limit 9: one customer and back; length limit 40: all three customers *)
  Definition i1 : op_inst := {| prz := [10; 20; 30]%Z; maxlen := 9%Z; eps := 0%Z; odist := d4; otol := 0%Z |}.
  Definition i2 : op_inst := {| prz := [10; 20; 30]%Z; maxlen := 40%Z; eps := 0%Z; odist := d4; otol := 0%Z |}.
  Definition net (h : Z) (i : op_inst) (s : op_st) : list Z :=
    0%Z :: map (fun j => (1 + (h + Z.of_nat j * (1 + Z.of_nat (ocur s))) mod 4)%Z) (seq 1 (op_n i)).
  Definition enc (i : op_inst) : Z := (maxlen i + 1)%Z.
  Definition benc (is_ : list op_inst) : list Z := map enc is_.
  Definition rnet (h : Z) (rw : op_inst * op_st) : list Z := net h (fst rw) (snd rw).
  Definition bnet (hs : list Z) (rows : list (op_inst * op_st)) : list (list Z) := Rowwise.map2 rnet hs rows.

  Example instances_wf : op_wfb i1 = true /\ op_wfb i2 = true /\ op_n i1 = op_n i2.
  Proof. vm_compute. auto. Qed.
  Example alone : rview2 0 (fst (bpolicy (OP exact) benc bnet gc2 20 [i1])) = [(1, (16 # 19)%Q); (0, 1%Q)].
  Proof. vm_compute. reflexivity. Qed.
  Example in_batch :
    rview2 0 (fst (bpolicy (OP exact) benc bnet gc2 20 [i1; i2])) = [(1, (16 # 19)%Q); (0, 1%Q); (0, 1%Q); (0, 1%Q)] /\
    rview2 1 (fst (bpolicy (OP exact) benc bnet gc2 20 [i1; i2]))
      = [(2, (16 # 27)%Q); (3, (8 # 11)%Q); (1, (4 # 5)%Q); (0, 1%Q)] /\
    all_done (OP exact) (snd (bpolicy (OP exact) benc bnet gc2 20 [i1; i2])) = true.
  Proof. vm_compute. repeat split; reflexivity. Qed.

  Definition fwd := forward QcF Z Z.leb pow2 (fun z => z) (fun z => z) f0 0 true (OP exact) Z (env_dec (OP exact) net) op_rew.
  (* per returned row: actions, per-step probabilities, (inside the masks, finished), reward *)
  Definition view (o : brow QcF (OP exact) Z) : list nat * list Q * (bool * bool) * Z :=
    let i := rc_i (fst o) in let acts := r_acts (snd o) in
    (acts, map this (out_ps QcF (OP exact) Z noflags o), (adm (E:=OP exact) i acts, done (OP exact) i (r_s (snd o))),
     out_reward QcF (OP exact) Z op_rew o).
  Example greedy_pass :
    option_map (map view) (fwd Greedy false false 0 false 20 [(10%Z, i1); (41%Z, i2)] [] [[]; []])
    = Some [([1; 0; 0; 0], [16 # 19; 1; 1; 1]%Q, (true, true), 10%Z);
            ([2; 3; 1; 0], [16 # 27; 8 # 11; 4 # 5; 1]%Q, (true, true), 60%Z)].
  Proof. vm_compute. reflexivity. Qed.

  Theorem ex_policy_rowwise_on_op (fuel : nat) (is_ : list op_inst) (r : nat) (i : op_inst) tr fin :
    (forall j, In j is_ -> op_wfb j = true) ->
    nth_error is_ r = Some i ->
    bpolicy (OP exact) benc bnet gc2 fuel is_ = (tr, fin) -> all_done (OP exact) fin = true ->
    let batched := row_traj 1%Qc r tr in
    let alone := solo (OP exact) enc rnet gc2 fuel i in
    exists k,
      traj_actions batched = traj_actions alone ++ repeat 0 k /\
      done (OP exact) i (run (E:=OP exact) i (traj_actions alone)) = true /\
      adm (E:=OP exact) i (traj_actions alone) = true /\ adm (E:=OP exact) i (traj_actions batched) = true /\
      op_reward i (traj_actions batched) = op_reward i (traj_actions alone) /\
      traj_ll 1%Qc Qcmult batched = traj_ll 1%Qc Qcmult alone.
  Proof.
    apply (policy_rowwise_on_op Z (fun z => z) (fun z => z) 0%Qc 0 benc enc bnet rnet).
    - reflexivity.
    - reflexivity.
    - intros h j acts _. unfold rnet, net. cbn [fst snd length]. rewrite map_length, seq_length. reflexivity.
  Qed.
End ExOP.

Module ExPC.
  (* prizes 40: the requirement 64 is met after two customers; prizes 10: never met, all three customers are needed.
     The network gives the depot the highest logit, so greedy returns as soon as the depot is offered. *)
  Definition i1 : pctsp_inst :=
    {| dprize := [40; 40; 40]%Z; sprize := [1; 1; 1]%Z; stoch := false; pen := [3; 4; 5]%Z; pdist := d4; preq := 64%Z; pthr := 63%Z |}.
  Definition i2 : pctsp_inst :=
    {| dprize := [10; 10; 10]%Z; sprize := [1; 1; 1]%Z; stoch := false; pen := [3; 4; 5]%Z; pdist := d4; preq := 64%Z; pthr := 63%Z |}.
  Definition net (h : Z) (i : pctsp_inst) (s : pctsp_st) : list Z :=
    6%Z :: map (fun j => (1 + (h + Z.of_nat j * (1 + Z.of_nat (pcur s))) mod 4)%Z) (seq 1 (pn_of i)).
  Definition enc (i : pctsp_inst) : Z := (preq i + 1)%Z.
  Definition benc (is_ : list pctsp_inst) : list Z := map enc is_.
  Definition rnet (h : Z) (rw : pctsp_inst * pctsp_st) : list Z := net h (fst rw) (snd rw).
  Definition bnet (hs : list Z) (rows : list (pctsp_inst * pctsp_st)) : list (list Z) := Rowwise.map2 rnet hs rows.

  Example instances_wf : pctsp_P i1 = true /\ pctsp_P i2 = true /\ pn_of i1 = pn_of i2.
  Proof. vm_compute. auto. Qed.
  Example alone :
    rview2 0 (fst (bpolicy (PCTSP exact) benc bnet gc2 20 [i1])) = [(2, (8 # 13)%Q); (3, (4 # 5)%Q); (0, (16 # 17)%Q)].
  Proof. vm_compute. reflexivity. Qed.
  Example in_batch :
    rview2 0 (fst (bpolicy (PCTSP exact) benc bnet gc2 20 [i1; i2]))
      = [(2, (8 # 13)%Q); (3, (4 # 5)%Q); (0, (16 # 17)%Q); (0, 1%Q)] /\
    rview2 1 (fst (bpolicy (PCTSP exact) benc bnet gc2 20 [i1; i2]))
      = [(2, (8 # 13)%Q); (3, (4 # 5)%Q); (1, 1%Q); (0, 1%Q)] /\
    all_done (PCTSP exact) (snd (bpolicy (PCTSP exact) benc bnet gc2 20 [i1; i2])) = true.
  Proof. vm_compute. repeat split; reflexivity. Qed.

  Definition fwd :=
    forward QcF Z Z.leb pow2 (fun z => z) (fun z => z) f0 0 true (PCTSP exact) Z (env_dec (PCTSP exact) net) pctsp_rew.
  Definition view (o : brow QcF (PCTSP exact) Z) : list nat * list Q * (bool * bool) * Z :=
    let i := rc_i (fst o) in let acts := r_acts (snd o) in
    (acts, map this (out_ps QcF (PCTSP exact) Z noflags o),
     (adm (E:=PCTSP exact) i acts, done (PCTSP exact) i (r_s (snd o))), out_reward QcF (PCTSP exact) Z pctsp_rew o).
  Example greedy_pass :
    option_map (map view) (fwd Greedy false false 0 false 20 [(65%Z, i1); (65%Z, i2)] [] [[]; []])
    = Some [([2; 3; 0; 0], [8 # 13; 4 # 5; 16 # 17; 1]%Q, (true, true), (-15)%Z);
            ([2; 3; 1; 0], [8 # 13; 4 # 5; 1; 1]%Q, (true, true), (-14)%Z)].
  Proof. vm_compute. reflexivity. Qed.

  Theorem ex_policy_rowwise_on_pctsp (fuel : nat) (is_ : list pctsp_inst) (r : nat) (i : pctsp_inst) tr fin :
    (forall j, In j is_ -> pctsp_P j = true) ->
    nth_error is_ r = Some i ->
    bpolicy (PCTSP exact) benc bnet gc2 fuel is_ = (tr, fin) -> all_done (PCTSP exact) fin = true ->
    let batched := row_traj 1%Qc r tr in
    let alone := solo (PCTSP exact) enc rnet gc2 fuel i in
    exists k,
      traj_actions batched = traj_actions alone ++ repeat 0 k /\
      done (PCTSP exact) i (run (E:=PCTSP exact) i (traj_actions alone)) = true /\
      adm (E:=PCTSP exact) i (traj_actions alone) = true /\ adm (E:=PCTSP exact) i (traj_actions batched) = true /\
      pctsp_reward i (traj_actions batched) = pctsp_reward i (traj_actions alone) /\
      traj_ll 1%Qc Qcmult batched = traj_ll 1%Qc Qcmult alone.
  Proof.
    apply (policy_rowwise_on_pctsp Z (fun z => z) (fun z => z) 0%Qc 0 benc enc bnet rnet).
    - reflexivity.
    - reflexivity.
    - intros h j acts _. unfold rnet, net. cbn [fst snd length]. rewrite map_length, seq_length. reflexivity.
  Qed.
End ExPC.

Module ExSD.
  Definition d3 : list (list Z) := [[0; 3; 4]; [3; 0; 5]; [4; 5; 0]]%Z.
  (* demands 3, 3 (capacity 10): two visits; demands 8, 8: customer 1 is split over two routes *)
  Definition i1 : cvrp_inst := {| dem := [3; 3]%Z; cap := 10%Z; dist := d3; tol := 0%Z |}.
  Definition i2 : cvrp_inst := {| dem := [8; 8]%Z; cap := 10%Z; dist := d3; tol := 0%Z |}.
  Definition net (h : Z) (i : cvrp_inst) (s : sd_st) : list Z :=
    0%Z :: map (fun j => (1 + (h + Z.of_nat j * (1 + Z.of_nat (scur s)) + sused s) mod 4)%Z) (seq 1 (n_of i)).
  Definition enc (i : cvrp_inst) : Z := (cap i + 1)%Z.
  Definition benc (is_ : list cvrp_inst) : list Z := map enc is_.
  Definition rnet (h : Z) (rw : cvrp_inst * sd_st) : list Z := net h (fst rw) (snd rw).
  Definition bnet (hs : list Z) (rows : list (cvrp_inst * sd_st)) : list (list Z) := Rowwise.map2 rnet hs rows.

  Example instances_wf : sdvrp_P i1 = true /\ sdvrp_P i2 = true /\ n_of i1 = n_of i2.
  Proof. vm_compute. auto. Qed.
  Example alone : rview2 0 (fst (bpolicy (SDVRP exact) benc bnet gc2 20 [i1])) = [(2, (2 # 3)%Q); (1, (4 # 5)%Q)].
  Proof. vm_compute. reflexivity. Qed.
  Example in_batch :
    rview2 0 (fst (bpolicy (SDVRP exact) benc bnet gc2 20 [i1; i2])) = [(2, (2 # 3)%Q); (1, (4 # 5)%Q); (0, 1%Q); (0, 1%Q)] /\
    rview2 1 (fst (bpolicy (SDVRP exact) benc bnet gc2 20 [i1; i2])) = [(2, (2 # 3)%Q); (1, (8 # 9)%Q); (0, 1%Q); (1, 1%Q)] /\
    all_done (SDVRP exact) (snd (bpolicy (SDVRP exact) benc bnet gc2 20 [i1; i2])) = true.
  Proof. vm_compute. repeat split; reflexivity. Qed.

  Definition fwd :=
    forward QcF Z Z.leb pow2 (fun z => z) (fun z => z) f0 0 true (SDVRP exact) Z (env_dec (SDVRP exact) net) sdvrp_rew.
  Definition view (o : brow QcF (SDVRP exact) Z) : list nat * list Q * (bool * bool) * Z :=
    let i := rc_i (fst o) in let acts := r_acts (snd o) in
    (acts, map this (out_ps QcF (SDVRP exact) Z noflags o),
     (adm (E:=SDVRP exact) i acts, done (SDVRP exact) i (r_s (snd o))), out_reward QcF (SDVRP exact) Z sdvrp_rew o).
  Example greedy_pass :
    option_map (map view) (fwd Greedy false false 0 false 20 [(11%Z, i1); (11%Z, i2)] [] [[]; []])
    = Some [([2; 1; 0; 0], [2 # 3; 4 # 5; 1; 1]%Q, (true, true), (-12)%Z);
            ([2; 1; 0; 1], [2 # 3; 8 # 9; 1; 1]%Q, (true, true), (-18)%Z)].
  Proof. vm_compute. reflexivity. Qed.

  Theorem ex_policy_rowwise_on_sdvrp (fuel : nat) (is_ : list cvrp_inst) (r : nat) (i : cvrp_inst) tr fin :
    (forall j, In j is_ -> sdvrp_P j = true) ->
    nth_error is_ r = Some i ->
    bpolicy (SDVRP exact) benc bnet gc2 fuel is_ = (tr, fin) -> all_done (SDVRP exact) fin = true ->
    let batched := row_traj 1%Qc r tr in
    let alone := solo (SDVRP exact) enc rnet gc2 fuel i in
    exists k,
      traj_actions batched = traj_actions alone ++ repeat 0 k /\
      done (SDVRP exact) i (run (E:=SDVRP exact) i (traj_actions alone)) = true /\
      adm (E:=SDVRP exact) i (traj_actions alone) = true /\ adm (E:=SDVRP exact) i (traj_actions batched) = true /\
      cvrp_reward i (traj_actions batched) = cvrp_reward i (traj_actions alone) /\
      traj_ll 1%Qc Qcmult batched = traj_ll 1%Qc Qcmult alone.
  Proof.
    apply (policy_rowwise_on_sdvrp Z (fun z => z) (fun z => z) 0%Qc 0 benc enc bnet rnet).
    - reflexivity.
    - reflexivity.
    - intros h j acts _. unfold rnet, net. cbn [fst snd length]. rewrite map_length, seq_length. reflexivity.
  Qed.
End ExSD.

(* why the row invariant (admitted histories) is needed for PCTSP: a well-formed instance and a run that visits the
   depot while the depot is masked (prize 10 of 64 collected, customers left) reach a state that is "done" and offers
   NOTHING; process_logits on an empty mask returns the zero vector, the "chosen" action has probability 0, not 1.
   So pad_lp fails at this state, which every history environment contains -- but no greedy row ever reaches it. *)
Theorem pctsp_nonadmitted_done_state_refutes_pad :
  exists (i : pctsp_inst) (acts : list nat),
    pctsp_P i = true /\ adm (E:=PCTSP exact) i acts = false /\
    done (PCTSP exact) i (run (E:=PCTSP exact) i acts) = true /\
    mask (PCTSP exact) i (run (E:=PCTSP exact) i acts) = [false; false; false; false] /\
    snd (greedy_choose (fun z => z) (fun z => z) 0%Qc 0 [0; 0; 0; 0]%Z (mask (PCTSP exact) i (run (E:=PCTSP exact) i acts)))
      <> 1%Qc.
Proof.
  exists ExPC.i2, [1; 0]. repeat split.
  intros H. apply (f_equal (fun q => Qeq_bool (this q) 1)) in H. vm_compute in H. discriminate.
Qed.
