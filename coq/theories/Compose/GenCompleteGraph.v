(* Composition C18 x C02, selection environments and ATSP: every instance the FLP / MCP / ATSP generators emit is
   solvable -- a mask-confined episode started from it meets no dead end before it is done, every offered action can
   be stepped, and it is done exactly at the environment's step count (FLP / MCP: the quota q; ATSP: the n cities).

   Generator side (C18): Data/GenGraph.v [gen_flp_wf], [gen_mcp_wf] give the environments' own input predicates
   [flp_wfb] / [mcp_wfb] AND the solvability condition quota <= number of items; Data/GenATSP.v emits an n x n
   matrix.  Environment side (C02): Env/FLP.v, Env/MCP.v ([flp_no_dead_end], [flp_progress], [flp_done_iff],
   [flp_episode_completes], same for mcp) and Env/ATSPProofs.v ([atsp_no_dead_end], [atsp_step_ok], [atsp_bound],
   [atsp_done_iff]).  [flp_wf] / [mcp_wf] ARE the booleans (= true), so the bridge is direct.

   ATSP: the generator model emits a matrix, the environment consumes [atsp_inst]; [gen_atsp_inst] is the row the
   environment gets (num_loc = n, cost_matrix = the emitted matrix).  Completion needs only the SHAPE of the matrix
   (n x n, 1 <= n): it holds with and without tmat_class and needs neither the non-negativity of the raw samples nor
   0 <= min_dist <= max_dist (the hypotheses of [gen_atsp_wf], which are about the triangle inequality).  What IS
   needed and [gen_atsp_wf] does not state is 1 <= n: at n = 0 all hypotheses of [gen_atsp_wf] hold and the reset state
   is a dead end ([atsp_bridge_needs_nonempty_refuted]).

   There is no TSP generator model under Data/, so TSP is not composed here. *)
From Coq Require Import ZArith QArith List Bool Lia ZifyBool Arith.
From RL4CO Require Import Base.Num Base.EnvSig Env.TourCore Env.ATSP Env.ATSPProofs.
From RL4CO Require Import Env.Selection Env.FLP Env.MCP Data.GenGraph Data.GenATSP.
Import ListNotations.
Open Scope Z_scope.

(* ================================================================ FLP *)
Theorem flp_generated_instances_complete :
  forall (n : nat) (D : list (list Z)) (maxdist q : Z),
    length D = n -> (forall row : list Z, In row D -> length row = n) -> 1 <= q <= Z.of_nat n ->
    let I := gen_flp n D maxdist q in
    forall (as_ : list nat) (s : flp_st),
      flp_run I (flp_reset I) as_ = Some s ->
      (Z.of_nat (length as_) < q -> exists a : nat, nth a (f_mask s) false = true) /\
      (forall a : nat, nth a (f_mask s) false = true -> exists s' : flp_st, flp_step I s a = Some s') /\
      f_done s = negb (Nat.eqb (length as_) 0) && (q <=? Z.of_nat (length as_)) /\
      (Z.of_nat (length as_) <= q ->
       exists (ext : list nat) (s' : flp_st),
         flp_run I (flp_reset I) (as_ ++ ext) = Some s' /\ Z.of_nat (length (as_ ++ ext)) = q /\ f_done s' = true).
Proof.
  intros n D maxdist q HL Hrows Hq I as_ s Hrun.
  destruct (gen_flp_wf n D maxdist q HL Hrows Hq) as [Hwb Hqn].
  assert (Hwf : flp_wf I) by exact Hwb.
  change (f_q I <= Z.of_nat (f_n I)) in Hqn.
  assert (Eq : f_q I = q) by reflexivity.
  split; [|split; [|split]].
  - intros Hlt. apply (flp_no_dead_end I as_ s Hwf Hrun); [rewrite Eq; exact Hlt|exact Hqn].
  - intros a Ha. exact (flp_progress I as_ s a Hwf Hrun Ha).
  - rewrite <- Eq. exact (flp_done_iff I as_ s Hwf Hrun).
  - intros Hle. rewrite <- Eq in Hle.
    destruct (flp_episode_completes I as_ s Hwf Hqn Hrun Hle) as (ext & s' & Hr' & Hlen).
    exists ext, s'. split; [exact Hr'|]. split; [rewrite <- Eq; exact Hlen|].
    rewrite (flp_done_iff I _ s' Hwf Hr'). apply andb_true_intro. split.
    + apply negb_true_iff, Nat.eqb_neq. lia.
    + apply Z.leb_le. lia.
Qed.

(* ================================================================ MCP *)
Theorem mcp_generated_instances_complete :
  forall (n_items : nat) (minw maxw mins maxs : Z) (wu su : list Q) (raw : list (list Z)) (perms : list (list nat)) (q : Z),
    length wu = n_items -> minw <= maxw ->
    (forall (row : list Z) (x : Z), In row raw -> In x row -> 1 <= x <= Z.of_nat n_items) ->
    1 <= q <= Z.of_nat (length raw) ->
    let I := gen_mcp minw maxw mins maxs wu su raw perms q in
    forall (as_ : list nat) (s : mcp_st),
      mcp_run I (mcp_reset I) as_ = Some s ->
      (Z.of_nat (length as_) < q -> exists a : nat, nth a (m_mask s) false = true) /\
      (forall a : nat, nth a (m_mask s) false = true -> exists s' : mcp_st, mcp_step I s a = Some s') /\
      m_done s = negb (Nat.eqb (length as_) 0) && (q <=? Z.of_nat (length as_)) /\
      (Z.of_nat (length as_) <= q ->
       exists (ext : list nat) (s' : mcp_st),
         mcp_run I (mcp_reset I) (as_ ++ ext) = Some s' /\ Z.of_nat (length (as_ ++ ext)) = q /\ m_done s' = true).
Proof.
  intros n_items minw maxw mins maxs wu su raw perms q Hwu Hw Hraw Hq I as_ s Hrun.
  destruct (gen_mcp_wf n_items minw maxw mins maxs wu su raw perms q Hwu Hw Hraw Hq) as (Hwb & Hqn & _).
  assert (Hwf : mcp_wf I) by exact Hwb.
  change (m_q I <= Z.of_nat (length (m_mem I))) in Hqn.
  assert (Eq : m_q I = q) by reflexivity.
  split; [|split; [|split]].
  - intros Hlt. apply (mcp_no_dead_end I as_ s Hwf Hrun); [rewrite Eq; exact Hlt|exact Hqn].
  - intros a Ha. exact (mcp_progress I as_ s a Hwf Hrun Ha).
  - rewrite <- Eq. exact (mcp_done_iff I as_ s Hwf Hrun).
  - intros Hle. rewrite <- Eq in Hle.
    destruct (mcp_episode_completes I as_ s Hwf Hqn Hrun Hle) as (ext & s' & Hr' & Hlen).
    exists ext, s'. split; [exact Hr'|]. split; [rewrite <- Eq; exact Hlen|].
    rewrite (mcp_done_iff I _ s' Hwf Hr'). apply andb_true_intro. split.
    + apply negb_true_iff, Nat.eqb_neq. lia.
    + apply Z.leb_le. lia.
Qed.

(* ================================================================ ATSP *)
(* the batch row ATSPEnv gets from ATSPGenerator: num_loc = n, cost_matrix = the emitted matrix *)
Definition gen_atsp_inst (tmat : bool) (n : nat) (S mn mx : Z) (U : list (list Z)) : atsp_inst :=
  {| agen_n := n; acost := gen_atsp tmat n S mn mx U |}.

Lemma atsp_scale_square n S mn mx U : squareb n U = true -> squareb n (atsp_scale S mn mx U) = true.
Proof.
  intros Hsq. apply squareb_spec in Hsq as [HL Hs]. apply squareb_spec. unfold atsp_scale. split.
  - rewrite map_length. exact HL.
  - intros a Ha. rewrite (nth_indep _ [] (map (fun u => u * (mx - mn) + mn * S) [])) by (rewrite map_length; lia).
    rewrite map_nth, map_length. auto.
Qed.

(* the emitted matrix is n x n whenever the raw sample array is -- with and without tmat_class, any scale and bounds *)
Lemma gen_atsp_square tmat n S mn mx U : squareb n U = true -> squareb n (gen_atsp tmat n S mn mx U) = true.
Proof.
  intros Hsq. unfold gen_atsp.
  assert (HD : squareb n (set_diag0 (atsp_scale S mn mx U)) = true) by (apply set_diag0_square, atsp_scale_square; exact Hsq).
  destruct tmat; [|exact HD]. exact (proj1 (tmat_loop_prefix n _ n (le_n n) HD)).
Qed.

Lemma squareb_atsp_wf n R : squareb n R = true -> (1 <= n)%nat -> atsp_wf {| agen_n := n; acost := R |}.
Proof.
  intros Hsq Hn. unfold squareb in Hsq. apply andb_prop in Hsq as [HL Hr]. apply Nat.eqb_eq in HL.
  unfold atsp_wf, atsp_n. cbn [agen_n acost]. split; [exact Hn|]. split; [exact HL|].
  apply Forall_forall. intros r Hin. apply Nat.eqb_eq. exact (proj1 (forallb_forall _ _) Hr r Hin).
Qed.

Theorem atsp_generated_instances_complete :
  forall (tmat : bool) (n : nat) (S mn mx : Z) (U : list (list Z)),
    squareb n U = true -> (1 <= n)%nat ->
    let i := gen_atsp_inst tmat n S mn mx U in
    atsp_wf i /\
    forall acts : list nat,
      EnvSig.adm (E:=ATSP) i acts = true ->
      (EnvSig.done ATSP i (EnvSig.run (E:=ATSP) i acts) = false ->
       anyb (EnvSig.mask ATSP i (EnvSig.run (E:=ATSP) i acts)) = true) /\
      (forall a : nat, EnvSig.offered (E:=ATSP) i (EnvSig.run (E:=ATSP) i acts) a = true ->
                       EnvSig.stepok ATSP i (EnvSig.run (E:=ATSP) i acts) a = true) /\
      (length acts <= n)%nat /\
      (EnvSig.done ATSP i (EnvSig.run (E:=ATSP) i acts) = true <-> length acts = n).
Proof.
  intros tmat n S mn mx U Hsq Hn i.
  assert (Hwf : atsp_wf i) by (apply squareb_atsp_wf; [apply gen_atsp_square; exact Hsq|exact Hn]).
  split; [exact Hwf|]. intros acts Ha.
  split; [intros Hd; exact (atsp_no_dead_end i acts Hwf Ha Hd)|].
  split; [intros a Ho; exact (atsp_step_ok i acts a Ha Ho)|].
  split; [exact (atsp_bound i acts Ha)|].
  exact (atsp_done_iff i acts Hn Ha).
Qed.

(* the bridge needs 1 <= n, which [gen_atsp_wf] does not state: with n = 0 (empty sample array) every hypothesis and
   the whole conclusion of [gen_atsp_wf] hold, the instance is outside the environment's format and its reset state
   is a dead end (not done, nothing offered) *)
Theorem atsp_bridge_needs_nonempty_refuted :
  exists (n : nat) (S mn mx : Z) (U : list (list Z)),
    squareb n U = true /\ nonnegb U = true /\ 0 <= S /\ 0 <= mn <= mx /\
    (let R := gen_atsp true n S mn mx U in
     squareb n R = true /\ nonnegb R = true /\ zero_diagb R = true /\ triangleb R = true) /\
    let i := gen_atsp_inst true n S mn mx U in
    atsp_wfb i = false /\ EnvSig.adm (E:=ATSP) i [] = true /\
    EnvSig.done ATSP i (EnvSig.run (E:=ATSP) i []) = false /\
    anyb (EnvSig.mask ATSP i (EnvSig.run (E:=ATSP) i [])) = false.
Proof.
  exists 0%nat, 1, 0, 1, []. vm_compute. repeat split; intros H; discriminate H.
Qed.

(* ================================================================ non-vacuity: generator input -> instance -> full episode *)
Example flp_generated_episode :
  let I := gen_flp 4 [[0; 5; 9; 13]; [5; 0; 4; 8]; [9; 4; 0; 4]; [13; 8; 4; 0]] 99 2 in
  flp_wfb I = true /\
  option_map f_done (flp_run I (flp_reset I) [3%nat]) = Some false /\
  option_map f_done (flp_run I (flp_reset I) [3%nat; 1%nat]) = Some true.
Proof. vm_compute. repeat split. Qed.
Example mcp_generated_episode :
  let I := gen_mcp 1 10 2 4 [(7 # 2); (25 # 2); 4; 5; 6; 7; 8; 9; 1]%Q [(7 # 2); 4; (5 # 2)]%Q
                   [[5; 2; 5; 9]; [1; 1; 3; 4]; [7; 8; 8; 2]] [[3; 1; 0; 2]; [0; 1; 2; 3]; [2; 3; 0; 1]]%nat 2 in
  mcp_wfb I = true /\ m_q I <= Z.of_nat (length (m_mem I)) /\
  option_map m_done (mcp_run I (mcp_reset I) [2%nat]) = Some false /\
  option_map m_done (mcp_run I (mcp_reset I) [2%nat; 0%nat]) = Some true.
Proof. vm_compute. repeat split; intros H; discriminate H. Qed.
Example atsp_generated_episode :
  let U := [[7; 100; 3]; [50; 2; 60]; [64; 1; 9]] in
  let i := gen_atsp_inst true 3 128 0 1 U in
  squareb 3 U = true /\ acost i = [[0; 4; 3]; [50; 0; 53]; [51; 1; 0]] /\ atsp_wfb i = true /\
  EnvSig.adm (E:=ATSP) i [2; 0; 1]%nat = true /\
  EnvSig.done ATSP i (EnvSig.run (E:=ATSP) i [2; 0; 1]%nat) = true /\
  EnvSig.done ATSP i (EnvSig.run (E:=ATSP) i [2; 0]%nat) = false /\
  acost (gen_atsp_inst false 3 128 0 1 U) = [[0; 100; 3]; [50; 0; 60]; [64; 1; 0]] /\
  atsp_wfb (gen_atsp_inst false 3 128 0 1 U) = true.
Proof. vm_compute. repeat split. Qed.
