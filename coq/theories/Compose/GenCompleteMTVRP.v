(* C18 x C02 for MTVRP: the instance MTVRPGenerator's post-processing emits (Data/GenRouting.v: [gen_mtvrp_row] followed
   by [subsample] for ANY keep-mask, i.e. any of the 16 variants) satisfies the env unit's [mtvrp_wfb] and
   [mtvrp_solvableb] (Env/MTVRPProofs.v), hence every mask-confined episode started from it completes.

   The generator model emits exact rationals (time windows, service times, distance limit; [None] = float("inf")) and
   integer demands in units of 1/capacity; the env model consumes scaled integers, with "infinity" an integer INF above
   everything it is compared with.  [mtvrp_tables_ok] ties the integer tables to the generator's row ([repr] of
   Compose/GenCompleteRouting.v: z represents q at scale S). *)
From Coq Require Import ZArith QArith Qround List Bool Lia Lqa ZifyBool Arith.
From RL4CO Require Import Base.Num Base.EnvSig Env.MTVRP Env.MTVRPProofs Data.GenRouting Compose.GenCompleteRouting.
Import ListNotations.
Open Scope Z_scope.

Definition repr_opt (S INF z : Z) (o : option Q) : Prop := match o with Some q => repr S z q | None => z = INF end.

Lemma repr_zero_inv S z : 0 < S -> repr S z 0 -> z = 0.
Proof.
  intros HS H. assert (A : z <= 0) by (apply (repr_le S z 0 0 0 HS H (repr_0 S)); lra).
  assert (B : 0 <= z) by (apply (repr_le S 0 z 0 0 HS (repr_0 S) H); lra). lia.
Qed.
Lemma repr_max S z1 z2 q1 q2 : 0 < S -> repr S z1 q1 -> repr S z2 q2 -> repr S (Z.max z1 z2) (Qmaxq q1 q2).
Proof.
  intros HS H1 H2. unfold Qmaxq. destruct (Qle_bool q1 q2) eqn:E.
  - apply Qle_bool_iff in E. pose proof (repr_le S _ _ _ _ HS H1 H2 E). rewrite Z.max_r by lia. exact H2.
  - assert (L : (q2 <= q1)%Q).
    { destruct (Qlt_le_dec q1 q2) as [L|L]; [|exact L]. apply Qlt_le_weak in L. apply Qle_bool_iff in L. congruence. }
    pose proof (repr_le S _ _ _ _ HS H2 H1 L). rewrite Z.max_l by lia. exact H1.
Qed.
Lemma repr_opt_lt S INF zx z x o : 0 < S -> repr S zx x -> repr_opt S INF z o -> (o = None -> zx < INF) -> lt_opt x o = true -> zx < z.
Proof.
  intros HS Hx Ho Hinf H. destruct o as [y|]; cbn [repr_opt lt_opt] in *; [|subst z; apply Hinf; reflexivity].
  apply negb_true_iff in H. apply (repr_lt S _ _ _ _ HS Hx Ho).
  destruct (Qlt_le_dec x y) as [L|L]; [exact L|]. apply Qle_bool_iff in L. congruence.
Qed.
Lemma repr_opt_le S INF zx z x o : 0 < S -> repr S zx x -> repr_opt S INF z o -> (o = None -> zx <= INF) -> le_opt x o = true -> zx <= z.
Proof.
  intros HS Hx Ho Hinf H. destruct o as [y|]; cbn [repr_opt le_opt] in *; [|subst z; apply Hinf; reflexivity].
  apply Qle_bool_iff in H. apply (repr_le S _ _ _ _ HS Hx Ho H).
Qed.
Lemma exists_in {A} (l : list A) : l <> [] -> exists x, In x l.
Proof. destruct l as [|x l]; [congruence|]. intros _. exists x. left. reflexivity. Qed.
Lemma nth_map_lt {A B} (f : A -> B) (l : list A) (j : nat) (d : B) (d' : A) : (j < length l)%nat -> nth j (map f l) d = f (nth j l d').
Proof. intros H. rewrite (nth_indep _ d (f d')) by (rewrite map_length; exact H). apply map_nth. Qed.

(* ------------------------------------------------------------------ the env instance built from the generator's row *)
Definition cust7 := (Q * Q * Q * Q * Q * Q * Q)%type.
Definition c_d (c : cust7) : Q := let '(d, _, _, _, _, _, _) := c in d.
Definition cust7_0 : cust7 := (0, 0, 0, 0, 0, 0, 0)%Q.

Definition mtvrp_of_gen (capz limz : Z) (r : mtvrp_row) (tloz thiz svcz : list Z) (D TT : list (list Z)) : mtvrp_inst :=
  {| dl := map fst (r_dem r); db := map snd (r_dem r); cap := capz; lim := limz; opn := r_open r;
     tlo := tloz; thi := thiz; svc := svcz; dist := D; tt := TT |}.

(* limz / tloz / thiz / svcz represent the row's limit, window starts, window ends and service times (INF for "absent");
   D / TT are the distance and travel-time (distance / speed) tables of depot :: customers: non-negative, zero diagonal,
   row and column 0 represent the generator's depot distances d (resp. d / speed); INF lies above the out-and-back
   distance and travel time of every customer *)
Definition mtvrp_tables_ok (S INF : Z) (speed : Q) (r : mtvrp_row) (ds : list Q) (limz : Z) (tloz thiz svcz : list Z)
           (D TT : list (list Z)) : Prop :=
  let n := length ds in
  length tloz = Datatypes.S n /\ length thiz = Datatypes.S n /\ length svcz = Datatypes.S n /\
  repr_opt S INF limz (r_limit r) /\
  (forall j, (j <= n)%nat ->
     repr S (nth j tloz 0) (fst (nth j (r_tw r) (0%Q, None))) /\
     repr_opt S INF (nth j thiz 0) (snd (nth j (r_tw r) (0%Q, None))) /\
     repr S (nth j svcz 0) (nth j (r_svc r) 0%Q)) /\
  (forall a b, (a <= n)%nat -> (b <= n)%nat -> 0 <= mget D a b /\ 0 <= mget TT a b) /\
  (forall a, (a <= n)%nat -> mget D a a = 0 /\ mget TT a a = 0) /\
  (forall j, (j < n)%nat ->
     repr S (mget D 0 (Datatypes.S j)) (nth j ds 0%Q) /\ repr S (mget D (Datatypes.S j) 0) (nth j ds 0%Q) /\
     repr S (mget TT 0 (Datatypes.S j)) (nth j ds 0%Q / speed) /\ repr S (mget TT (Datatypes.S j) 0) (nth j ds 0%Q / speed)) /\
  0 < INF /\
  (forall j, (j < n)%nat ->
     mget D 0 (Datatypes.S j) + mget D (Datatypes.S j) 0 < INF /\ mget TT 0 (Datatypes.S j) + mget TT (Datatypes.S j) 0 < INF).

(* the raw draws of one customer are in the samplers' ranges, the assert of generate_distance_limit passed for it, and
   max_time leaves room for the round trip, the service and the window (hypotheses of C18's mtvrp_customer_ok) *)
Definition mtvrp_samples_ok (T speed lim : Q) (lo hi blo bhi : Z) (cust : list cust7) : Prop :=
  forall d r1 r2 r3 ul ub r, In (d, r1, r2, r3, ul, ub, r) cust ->
    (0 < d)%Q /\ (0 <= r1)%Q /\ (r1 < 1)%Q /\ (0 <= r2)%Q /\ (r2 < 1)%Q /\ (0 <= r3)%Q /\ (r3 < 1)%Q /\
    (inject_Z (lo - 1) <= ul)%Q /\ (ul < inject_Z (hi - 1))%Q /\ (inject_Z (blo - 1) <= ub)%Q /\ (ub < inject_Z (bhi - 1))%Q /\
    (2 * d < lim)%Q /\ (2 * (d / speed) + (38 # 100) <= T)%Q.

Section Bridge.
  Variables (kO kTW kL kB : bool) (capz lo hi blo bhi : Z) (T speed lim ratio : Q) (cust : list cust7).
  Variables (S INF limz : Z) (tloz thiz svcz : list Z) (D TT : list (list Z)).
  Let k : keep4 := (kO, kTW, kL, kB).
  Let r0 := gen_mtvrp_row T speed lim ratio cust.
  Let r := subsample k r0.
  Let n := length cust.
  Let i := mtvrp_of_gen capz limz r tloz thiz svcz D TT.

  Hypothesis Hlo : 1 <= lo.
  Hypothesis Hblo : 1 <= blo.
  Hypothesis Hcap : hi - 1 <= capz.
  Hypothesis Hbcap : bhi - 1 <= capz.
  Hypothesis Hspeed : (0 < speed)%Q.
  Hypothesis Hsamp : mtvrp_samples_ok T speed lim lo hi blo bhi cust.
  Hypothesis Hne : cust <> [].
  Hypothesis HS : 0 < S.
  Hypothesis Htab : mtvrp_tables_ok S INF speed r (map c_d cust) limz tloz thiz svcz D TT.

  Lemma n_ds : length (map c_d cust) = n.
  Proof. apply map_length. Qed.

  Lemma nn_eq : nn i = Datatypes.S n.
  Proof. unfold nn, i, mtvrp_of_gen, r, subsample, k, r0, gen_mtvrp_row. cbn [dl r_dem]. rewrite !map_length. cbn [length]. rewrite map_length. reflexivity. Qed.
  Lemma n_of_eq : MTVRP.n_of i = n.
  Proof. unfold MTVRP.n_of. rewrite nn_eq. lia. Qed.

  (* the subsampled row, node by node *)
  Lemma row0 :
    nth 0 (r_tw r) (0%Q, None) = sub_tw kTW (0%Q, Some T) /\ nth 0 (r_svc r) 0%Q = sub_svc kTW 0%Q /\
    nth 0 (r_dem r) (0, 0) = sub_dem kB (0, 0).
  Proof. repeat split. Qed.

  Lemma rowS j d r1 r2 r3 ul ub rr : (j < n)%nat -> nth j cust cust7_0 = (d, r1, r2, r3, ul, ub, rr) ->
    let w := mtvrp_tw T speed d (mtvrp_service r1) (mtvrp_twlen r2) r3 in
    nth (Datatypes.S j) (r_tw r) (0%Q, None) = sub_tw kTW (fst w, Some (snd w)) /\
    nth (Datatypes.S j) (r_svc r) 0%Q = sub_svc kTW (mtvrp_service r1) /\
    nth (Datatypes.S j) (r_dem r) (0, 0) = sub_dem kB (mtvrp_demand ratio ul ub rr).
  Proof.
    intros Hj Hc w. unfold r, subsample, k, r0, gen_mtvrp_row. cbn [r_tw r_svc r_dem map nth].
    repeat split.
    - rewrite (nth_map_lt _ _ j _ (0%Q, None)) by (rewrite map_length; exact Hj).
      rewrite (nth_map_lt _ _ j _ cust7_0) by exact Hj. rewrite Hc. reflexivity.
    - rewrite (nth_map_lt _ _ j _ 0%Q) by (rewrite map_length; exact Hj).
      rewrite (nth_map_lt _ _ j _ cust7_0) by exact Hj. rewrite Hc. reflexivity.
    - rewrite (nth_map_lt _ _ j _ (0, 0)) by (rewrite map_length; exact Hj).
      rewrite (nth_map_lt _ _ j _ cust7_0) by exact Hj. rewrite Hc. reflexivity.
  Qed.

  Lemma dlf_eq j : dlf i j = fst (nth j (r_dem r) (0, 0)).
  Proof. unfold dlf, i, mtvrp_of_gen. cbn [dl]. change 0 with (fst (0, 0)) at 1. apply map_nth. Qed.
  Lemma dbf_eq j : dbf i j = snd (nth j (r_dem r) (0, 0)).
  Proof. unfold dbf, i, mtvrp_of_gen. cbn [db]. change 0 with (snd (0, 0)) at 1. apply map_nth. Qed.

  Lemma T_pos : (0 < T)%Q.
  Proof.
    destruct (exists_in cust Hne) as [[[[[[[d r1] r2] r3] ul] ub] rr] Hin].
    destruct (Hsamp d r1 r2 r3 ul ub rr Hin) as (Hd & _ & _ & _ & _ & _ & _ & _ & _ & _ & _ & _ & HT).
    assert (0 < d / speed)%Q by (apply Qlt_shift_div_l; [exact Hspeed|lra]). lra.
  Qed.
  Lemma lim_pos : (0 < lim)%Q.
  Proof.
    destruct (exists_in cust Hne) as [[[[[[[d r1] r2] r3] ul] ub] rr] Hin].
    destruct (Hsamp d r1 r2 r3 ul ub rr Hin) as (Hd & _ & _ & _ & _ & _ & _ & _ & _ & _ & _ & HL & _). lra.
  Qed.

  (* the depot *)
  Lemma depot_facts :
    dlf i 0 = 0 /\ dbf i 0 = 0 /\ MTVRP.lo i 0 = 0 /\ sv i 0 = 0 /\ 0 < MTVRP.hi i 0.
  Proof.
    destruct Htab as (_ & _ & _ & _ & Hn & _ & _ & _ & Hinf & _). destruct (Hn 0%nat ltac:(lia)) as (R1 & R2 & R3).
    destruct row0 as (E1 & E2 & E3). rewrite E1 in R1, R2. rewrite E2 in R3.
    rewrite dlf_eq, dbf_eq, E3.
    split; [destruct kB; reflexivity|]. split; [destruct kB; reflexivity|].
    unfold MTVRP.lo, sv, MTVRP.hi, i, mtvrp_of_gen. cbn [tlo thi svc].
    split; [destruct kTW; cbn [sub_tw fst] in R1; apply (repr_zero_inv S _ HS R1)|].
    split; [destruct kTW; cbn [sub_svc] in R3; apply (repr_zero_inv S _ HS R3)|].
    destruct kTW; cbn [sub_tw snd repr_opt] in R2.
    - apply (repr_lt S 0 _ 0 T HS (repr_0 S) R2 T_pos).
    - rewrite R2. exact Hinf.
  Qed.

  (* one customer *)
  Lemma cust_facts (R : bool) j : (j < n)%nat ->
    let c := Datatypes.S j in
    (0 <= dlf i c /\ 0 <= dbf i c /\ (dlf i c = 0 \/ dbf i c = 0) /\ (0 < dlf i c \/ 0 < dbf i c) /\
     dlf i c <= capz /\ dbf i c <= capz) /\
    (0 <= MTVRP.lo i c /\ 0 <= sv i c /\ MTVRP.lo i c < MTVRP.hi i c) /\
    solv_at R i c = true.
  Proof.
    intros Hj c. subst c.
    destruct (nth j cust cust7_0) as [[[[[[d r1] r2] r3] ul] ub] rr] eqn:Ec.
    assert (Hin : In (d, r1, r2, r3, ul, ub, rr) cust) by (rewrite <- Ec; apply nth_In; exact Hj).
    destruct (Hsamp d r1 r2 r3 ul ub rr Hin) as (Hd & H10 & H11 & H20 & H21 & H30 & H31 & U0 & U1 & B0 & B1 & HL & HT).
    destruct (rowS j d r1 r2 r3 ul ub rr Hj Ec) as (E1 & E2 & E3).
    set (s := mtvrp_service r1) in *. set (L := mtvrp_twlen r2) in *. set (w := mtvrp_tw T speed d s L r3) in *.
    destruct (mtvrp_service_range r1 H10 H11) as [Hs0 Hs1]. fold s in Hs0, Hs1.
    destruct (mtvrp_twlen_range r2 H20 H21) as [HL0 HL1]. fold L in HL0, HL1.
    assert (Hfeas : (2 * (d / speed) <= T - s - L)%Q) by lra.
    destruct (mtvrp_tw_ok T speed d s L r3 Hd Hspeed ltac:(lra) ltac:(lra) H30 H31 Hfeas) as [W1 [W2 [W3 [W4 W5]]]].
    fold w in W1, W2, W3, W4, W5.
    assert (Hx : (0 < d / speed)%Q) by (apply Qlt_shift_div_l; [exact Hspeed|lra]).
    pose proof (mtvrp_demand_ok ratio ul ub rr lo hi blo bhi Hlo Hblo U0 U1 B0 B1) as Hdem. cbn zeta in Hdem.
    pose proof (mtvrp_customer_ok (kO, kTW, kL, kB) capz lo hi blo bhi T speed lim ratio d r1 r2 r3 ul ub rr
                  Hlo Hblo Hcap Hbcap Hd Hspeed H10 H11 H20 H21 H30 H31 U0 U1 B0 B1 HL HT) as Hok.
    cbn zeta beta iota in Hok. fold s L w in Hok.
    (* tables *)
    destruct Htab as (_ & _ & _ & Rlim & Hn & Hnn & _ & Hr & Hinf & Hbig). rewrite n_ds in *.
    destruct (Hn (Datatypes.S j) ltac:(lia)) as (Rlo & Rhi & Rsv). rewrite E1 in Rlo, Rhi. rewrite E2 in Rsv.
    destruct (Hn 0%nat ltac:(lia)) as (_ & Rhi0 & _). rewrite (proj1 row0) in Rhi0.
    destruct (Hr j Hj) as (RD1 & RD2 & RT1 & RT2).
    assert (Ed : nth j (map c_d cust) 0%Q = d).
    { rewrite (nth_map_lt c_d cust j 0%Q cust7_0 Hj), Ec. reflexivity. }
    rewrite Ed in RD1, RD2, RT1, RT2.
    destruct (Hbig j Hj) as (BD & BT).
    destruct (Hnn 0%nat (Datatypes.S j) ltac:(lia) ltac:(lia)) as (ND1 & NT1).
    destruct (Hnn (Datatypes.S j) 0%nat ltac:(lia) ltac:(lia)) as (ND2 & NT2).
    set (c := Datatypes.S j) in *.
    assert (Rlim' : repr_opt S INF limz (sub_limit kL (Some lim))) by (destruct kL; exact Rlim).
    clear Rlim.
    change (mget D 0 c) with (MTVRP.dfun i 0 c) in *. change (mget D c 0) with (MTVRP.dfun i c 0) in *.
    change (mget TT 0 c) with (tfun i 0 c) in *. change (mget TT c 0) with (tfun i c 0) in *.
    change (nth c tloz 0) with (MTVRP.lo i c) in *. change (nth c thiz 0) with (MTVRP.hi i c) in *.
    change (nth c svcz 0) with (sv i c) in *. change (nth 0 thiz 0) with (MTVRP.hi i 0) in *.
    (* demands *)
    assert (F1 : 0 <= dlf i c /\ 0 <= dbf i c /\ (dlf i c = 0 \/ dbf i c = 0) /\ (0 < dlf i c \/ 0 < dbf i c) /\
                 dlf i c <= capz /\ dbf i c <= capz).
    { rewrite dlf_eq, dbf_eq, E3. set (lb := mtvrp_demand ratio ul ub rr) in *.
      destruct kB; cbn [sub_dem fst snd]; lia. }
    (* window *)
    assert (F2 : 0 <= MTVRP.lo i c /\ 0 <= sv i c /\ MTVRP.lo i c < MTVRP.hi i c).
    { destruct kTW; cbn [sub_tw sub_svc fst snd repr_opt] in Rlo, Rhi, Rsv.
      - split; [apply (repr_nonneg S _ _ HS Rlo); lra|]. split; [apply (repr_nonneg S _ _ HS Rsv); lra|].
        apply (repr_lt S _ _ _ _ HS Rlo Rhi W2).
      - rewrite (repr_zero_inv S _ HS Rlo), (repr_zero_inv S _ HS Rsv), Rhi. lia. }
    split; [exact F1|]. split; [exact F2|].
    (* solvability *)
    unfold mtvrp_customer_okb in Hok. rewrite !andb_true_iff in Hok.
    destruct Hok as [[[[[[_ _] _] _] Hlim] Htw] Hback].
    unfold solv_at. change (MTVRP.cap i) with capz. change (MTVRP.lim i) with limz. change (opn i) with (r_open r).
    assert (Eop : r_open r = sub_open kO true) by reflexivity. rewrite Eop.
    rewrite !andb_true_iff. split; [split; [split; [split|]|]|].
    - apply Z.leb_le. tauto.
    - apply Z.leb_le. tauto.
    - apply Z.leb_le.
      assert (Rx : repr S (MTVRP.dfun i 0 c + (if sub_open kO true then 0 else MTVRP.dfun i c 0)) (if sub_open kO true then d else 2 * d)%Q).
      { destruct (sub_open kO true).
        - rewrite Z.add_0_r. exact RD1.
        - apply (repr_ext S _ (d + d)%Q); [ring|]. apply repr_add; assumption. }
      apply (repr_opt_le S INF _ _ _ _ HS Rx Rlim'); [intros _; destruct (sub_open kO true); lia|exact Hlim].
    - assert (Hlt : tfun i 0 c < MTVRP.hi i c) by (apply (repr_opt_lt S INF _ _ _ _ HS RT1 Rhi); [intros _; lia|exact Htw]).
      unfold tcmp. destruct R; [apply Z.leb_le|apply Z.ltb_lt]; lia.
    - destruct (sub_open kO true) eqn:Eo; cbn [orb] in Hback.
      + destruct depot_facts as (_ & _ & _ & _ & H0). unfold tcmp. destruct R; [apply Z.leb_le|apply Z.ltb_lt]; lia.
      + assert (Rx : repr S (Z.max (tfun i 0 c) (MTVRP.lo i c) + sv i c + tfun i c 0)
                            (Qmaxq (d / speed) (fst (sub_tw kTW (fst w, Some (snd w)))) + sub_svc kTW s + d / speed)%Q).
        { apply repr_add; [apply repr_add; [apply repr_max; assumption|exact Rsv]|exact RT2]. }
        assert (Hlt : Z.max (tfun i 0 c) (MTVRP.lo i c) + sv i c + tfun i c 0 < MTVRP.hi i 0).
        { apply (repr_opt_lt S INF _ _ _ _ HS Rx Rhi0); [|exact Hback].
          (* only needed when the windows are absent: then lo = 0 and svc = 0 *)
          intros Enone. destruct kTW; cbn [sub_tw sub_svc fst snd repr_opt] in Rlo, Rsv, Enone; [discriminate|].
          rewrite (repr_zero_inv S _ HS Rlo), (repr_zero_inv S _ HS Rsv). lia. }
        unfold tcmp. destruct R; [apply Z.leb_le|apply Z.ltb_lt]; lia.
  Qed.

  Lemma n_pos : (0 < n)%nat.
  Proof. unfold n. destruct (exists_in cust Hne) as [x Hx]. destruct cust; [destruct Hx|cbn; lia]. Qed.

  Lemma node_facts j : (j <= n)%nat ->
    0 <= dlf i j /\ 0 <= dbf i j /\ (dlf i j = 0 \/ dbf i j = 0) /\ (j = 0%nat \/ 0 < dlf i j \/ 0 < dbf i j) /\
    0 <= MTVRP.lo i j /\ 0 <= sv i j /\ MTVRP.lo i j < MTVRP.hi i j.
  Proof.
    intros Hj. destruct j as [|j].
    - destruct depot_facts as (A & B & C & E & F). lia.
    - destruct (cust_facts true j ltac:(lia)) as (F1 & F2 & _). cbv zeta in F1, F2. lia.
  Qed.

  Theorem gen_mtvrp_env_wfb : mtvrp_wfb i = true.
  Proof.
    destruct Htab as (L1 & L2 & L3 & Rlim & _ & Hnn & Hdiag & _ & Hinf & _). rewrite n_ds in *.
    unfold mtvrp_wfb. rewrite nn_eq.
    assert (Hc : 0 <= capz).
    { destruct (cust_facts true 0%nat n_pos) as (F1 & _). cbv zeta in F1. lia. }
    assert (Hl : 0 <= limz).
    { unfold r, subsample, k in Rlim. cbn [r_limit r0 gen_mtvrp_row] in Rlim. destruct kL; cbn [sub_limit repr_opt] in Rlim.
      - apply (repr_nonneg S _ _ HS Rlim). pose proof lim_pos. lra.
      - lia. }
    destruct depot_facts as (D1 & D2 & _).
    rewrite !andb_true_iff. split; [split; [split; [split; [split; [split; [split; [split; [split|]|]|]|]|]|]|]|].
    - reflexivity.
    - apply Nat.eqb_eq. unfold i, mtvrp_of_gen. cbn [db]. rewrite map_length. change (length (r_dem r)) with (length (map fst (r_dem r))) || idtac.
      pose proof nn_eq as E. unfold nn, i, mtvrp_of_gen in E. cbn [dl] in E. rewrite map_length in E. exact E.
    - apply Nat.eqb_eq. exact L1.
    - apply Nat.eqb_eq. exact L2.
    - apply Nat.eqb_eq. exact L3.
    - change (MTVRP.cap i) with capz. lia.
    - change (MTVRP.lim i) with limz. lia.
    - lia.
    - lia.
    - apply forallb_forall. intros j Hj. unfold nodes in Hj. rewrite nn_eq in Hj. apply in_seq in Hj.
      destruct (node_facts j ltac:(lia)) as (A1 & A2 & A3 & A4 & A5 & A6 & A7).
      destruct (Hdiag j ltac:(lia)) as (G1 & G2).
      change (mget D j j) with (MTVRP.dfun i j j) in G1. change (mget TT j j) with (tfun i j j) in G2.
      rewrite !andb_true_iff. split; [split; [split; [split; [split; [split; [split; [split; [split|]|]|]|]|]|]|]|]; try lia.
      apply forallb_forall. intros c Hc'. unfold nodes in Hc'. rewrite nn_eq in Hc'. apply in_seq in Hc'.
      destruct (Hnn j c ltac:(lia) ltac:(lia)) as (N1 & N2).
      change (mget D j c) with (MTVRP.dfun i j c) in N1. change (mget TT j c) with (tfun i j c) in N2. lia.
  Qed.

  Theorem gen_mtvrp_env_solvableb (R : bool) : mtvrp_solvableb R i = true.
  Proof.
    unfold mtvrp_solvableb. apply forallb_forall. intros c Hc. unfold MTVRP.locs in Hc. rewrite n_of_eq in Hc. apply in_seq in Hc.
    destruct c as [|j]; [lia|]. destruct (cust_facts R j ltac:(lia)) as (_ & _ & F3). exact F3.
  Qed.
End Bridge.

(* the composed statement: ANY keep-mask (kO, kTW, kL, kB) -- i.e. any of the 16 variants, however subsample_problems
   chose it -- any capacity (table or override) that is at least the largest demand, any positive speed; R is the mask
   switch of Env/MTVRP.v (true = the code as it is) *)
Theorem gen_mtvrp_complete :
  forall (R kO kTW kL kB : bool) (capz lo hi blo bhi : Z) (T speed lim ratio : Q) (cust : list cust7)
         (S INF limz : Z) (tloz thiz svcz : list Z) (D TT : list (list Z)),
    1 <= lo -> 1 <= blo -> hi - 1 <= capz -> bhi - 1 <= capz -> (0 < speed)%Q ->
    mtvrp_samples_ok T speed lim lo hi blo bhi cust -> cust <> [] ->
    0 < S ->
    let r := subsample (kO, kTW, kL, kB) (gen_mtvrp_row T speed lim ratio cust) in
    mtvrp_tables_ok S INF speed r (map c_d cust) limz tloz thiz svcz D TT ->
    let i := mtvrp_of_gen capz limz r tloz thiz svcz D TT in
    mtvrp_wfb i = true /\ mtvrp_solvableb R i = true /\
    forall acts : list nat, adm (E:=MTVRP exact R) i acts = true ->
      anyb (mask (MTVRP exact R) i (run (E:=MTVRP exact R) i acts)) = true /\
      (forall a, offered (E:=MTVRP exact R) i (run (E:=MTVRP exact R) i acts) a = true ->
                 stepok (MTVRP exact R) i (run (E:=MTVRP exact R) i acts) a = true) /\
      ((forall p q, acts = p ++ q -> q <> [] -> done (MTVRP exact R) i (run (E:=MTVRP exact R) i p) = false) ->
       (length acts <= 2 * length cust + 1)%nat) /\
      (forall a, done (MTVRP exact R) i (run (E:=MTVRP exact R) i acts) = true ->
                 done (MTVRP exact R) i (run (E:=MTVRP exact R) i (acts ++ [a])) = true).
Proof.
  intros R kO kTW kL kB capz lo hi blo bhi T speed lim ratio cust S INF limz tloz thiz svcz D TT
         Hlo Hblo Hcap Hbcap Hsp Hsamp Hne HS r Htab i.
  pose proof (gen_mtvrp_env_wfb kO kTW kL kB capz lo hi blo bhi T speed lim ratio cust S INF limz tloz thiz svcz D TT
                Hlo Hblo Hcap Hbcap Hsp Hsamp Hne HS Htab) as W1.
  pose proof (gen_mtvrp_env_solvableb kO kTW kL kB capz lo hi blo bhi T speed lim ratio cust S INF limz tloz thiz svcz D TT
                Hlo Hblo Hcap Hbcap Hsp Hsamp Hne HS Htab R) as W2.
  fold r in W1, W2. fold i in W1, W2. split; [exact W1|]. split; [exact W2|].
  assert (Hn : MTVRP.n_of i = length cust).
  { apply (n_of_eq kO kTW kL kB capz T speed lim ratio cust limz tloz thiz svcz D TT). }
  intros acts Hadm. split; [apply mtvrp_no_dead_end|]. split; [|split].
  - intros a Ho. apply (mtvrp_step_ok R); assumption.
  - intros Hnd. rewrite <- Hn. apply (mtvrp_bound R); assumption.
  - intros a Hd. apply (mtvrp_done_stable R). exact Hd.
Qed.

(* non-vacuity: the two-customer row of C18's mtvrp_ex, variant VRPBLTW (open route dropped), scale 10^5, INF = 10^9 *)
Definition mtvrp_ex_cust : list cust7 :=
  [((1 # 2), (1 # 2), (1 # 2), (1 # 4), (7 # 2), (5 # 1), (1 # 10))%Q; ((3 # 4), 0, 0, (3 # 4), (1 # 2), (8 # 1), (9 # 10))%Q].
Definition mtvrp_ex_D : list (list Z) := [[0; 50000; 75000]; [50000; 0; 40000]; [75000; 40000; 0]].
Definition mtvrp_ex_row : mtvrp_row := subsample (false, true, true, true) (gen_mtvrp_row (46 # 10) 1 3 (2 # 10) mtvrp_ex_cust).
Definition mtvrp_ex_inst : mtvrp_inst :=
  mtvrp_of_gen 30 300000 mtvrp_ex_row [0; 131125; 282750] [460000; 150125; 300750] [0; 16500; 15000] mtvrp_ex_D mtvrp_ex_D.

Example gen_mtvrp_complete_ex :
  mtvrp_samples_ok (46 # 10) 1 3 1 10 1 10 mtvrp_ex_cust /\
  mtvrp_tables_ok 100000 1000000000 1 mtvrp_ex_row (map c_d mtvrp_ex_cust) 300000
                  [0; 131125; 282750] [460000; 150125; 300750] [0; 16500; 15000] mtvrp_ex_D mtvrp_ex_D /\
  dl mtvrp_ex_inst = [0; 0; 1] /\ db mtvrp_ex_inst = [0; 6; 0] /\
  mtvrp_wfb mtvrp_ex_inst = true /\ mtvrp_solvableb true mtvrp_ex_inst = true /\
  adm (E:=MTVRP exact true) mtvrp_ex_inst [1; 0; 2; 0]%nat = true /\
  done (MTVRP exact true) mtvrp_ex_inst (run (E:=MTVRP exact true) mtvrp_ex_inst [1; 0; 2; 0]%nat) = true.
Proof.
  split; [|split].
  - intros d r1 r2 r3 ul ub r Hin. unfold mtvrp_ex_cust in Hin.
    destruct Hin as [H|[H|[]]]; inversion H; subst;
      repeat split; try (apply Qle_bool_iff; vm_compute; reflexivity); vm_compute; reflexivity.
  - unfold mtvrp_tables_ok. cbn [length map mtvrp_ex_cust].
    split; [reflexivity|]. split; [reflexivity|]. split; [reflexivity|].
    split; [unfold repr_opt, repr; vm_compute; reflexivity|].
    split; [intros j Hj; destruct j as [|[|[|j]]]; try lia; (split; [|split]); unfold repr_opt, repr; vm_compute; reflexivity|].
    split; [intros a b Ha Hb; destruct a as [|[|[|a]]]; destruct b as [|[|[|b]]]; try lia; split; vm_compute; discriminate|].
    split; [intros a Ha; destruct a as [|[|[|a]]]; try lia; split; reflexivity|].
    split; [intros j Hj; destruct j as [|[|j]]; try lia; repeat split; unfold repr; vm_compute; reflexivity|].
    split; [reflexivity|].
    intros j Hj; destruct j as [|[|j]]; try lia; split; vm_compute; reflexivity.
  - vm_compute. repeat split.
Qed.

(* ================================================================== the hypotheses above, spelled out (for Properties/) *)
Lemma mtvrp_samples_ok_unfold : forall (T speed lim : Q) (lo hi blo bhi : Z) (cust : list cust7),
  mtvrp_samples_ok T speed lim lo hi blo bhi cust <->
  (forall d r1 r2 r3 ul ub r : Q, In (d, r1, r2, r3, ul, ub, r) cust ->
    (0 < d)%Q /\ (0 <= r1)%Q /\ (r1 < 1)%Q /\ (0 <= r2)%Q /\ (r2 < 1)%Q /\ (0 <= r3)%Q /\ (r3 < 1)%Q /\
    (inject_Z (lo - 1) <= ul)%Q /\ (ul < inject_Z (hi - 1))%Q /\ (inject_Z (blo - 1) <= ub)%Q /\ (ub < inject_Z (bhi - 1))%Q /\
    (2 * d < lim)%Q /\ (2 * (d / speed) + (38 # 100) <= T)%Q).
Proof. intros. reflexivity. Qed.

Lemma mtvrp_tables_ok_unfold : forall (S INF : Z) (speed : Q) (r : mtvrp_row) (ds : list Q) (limz : Z) (tloz thiz svcz : list Z)
    (D TT : list (list Z)),
  mtvrp_tables_ok S INF speed r ds limz tloz thiz svcz D TT <->
  (length tloz = Datatypes.S (length ds) /\ length thiz = Datatypes.S (length ds) /\ length svcz = Datatypes.S (length ds) /\
   repr_opt S INF limz (r_limit r) /\
   (forall j : nat, (j <= length ds)%nat ->
      repr S (nth j tloz 0) (fst (nth j (r_tw r) (0%Q, None))) /\
      repr_opt S INF (nth j thiz 0) (snd (nth j (r_tw r) (0%Q, None))) /\
      repr S (nth j svcz 0) (nth j (r_svc r) 0%Q)) /\
   (forall a b : nat, (a <= length ds)%nat -> (b <= length ds)%nat -> 0 <= mget D a b /\ 0 <= mget TT a b) /\
   (forall a : nat, (a <= length ds)%nat -> mget D a a = 0 /\ mget TT a a = 0) /\
   (forall j : nat, (j < length ds)%nat ->
      repr S (mget D 0 (Datatypes.S j)) (nth j ds 0%Q) /\ repr S (mget D (Datatypes.S j) 0) (nth j ds 0%Q) /\
      repr S (mget TT 0 (Datatypes.S j)) (nth j ds 0%Q / speed) /\ repr S (mget TT (Datatypes.S j) 0) (nth j ds 0%Q / speed)) /\
   0 < INF /\
   (forall j : nat, (j < length ds)%nat ->
      mget D 0 (Datatypes.S j) + mget D (Datatypes.S j) 0 < INF /\ mget TT 0 (Datatypes.S j) + mget TT (Datatypes.S j) 0 < INF)).
Proof. intros. reflexivity. Qed.

Lemma repr_opt_unfold : forall (S INF z : Z) (o : option Q),
  repr_opt S INF z o <-> match o with Some q => repr S z q | None => z = INF end.
Proof. intros. reflexivity. Qed.
