(* Composition  C13 x (C02, C10, C01), continued:  beam search instantiated with the variable-length environments that
   have a padding action -- OP (Env/OP.v, Env/OPProofs.v) and PCTSP / SPCTSP (Env/PCTSP.v, Env/PCTSPProofs.v; one model,
   the field [stoch] selects the prize vector) -- by the route of Compose/BeamOnEnvs.v Part 1 (CVRP), made generic:

   Part A  for ANY environment Ev and boolean instance predicate P: if for the P-instances the mask has N entries in
           every state, admitted histories never hit a dead end (C02), offered actions are step-ok (C02), finished rows
           stay finished (C02), unfinished admitted histories are shorter than K (C02 bound) and admitted finished
           histories satisfy a specification [feas] (C01), then [restrict Ev P] satisfies the hypotheses of
           [beam_run_total_Qc], and the homomorphism [under] (BeamOnEnvs.v Part 0) carries the result to Ev itself:
           the loop never raises, rows are admitted / positive / feasible-when-finished, and fuel for K - 1 steps
           finishes every row.
   Part B  OP:    P = op_wfb && (op_n = n),       N = n + 1, K = max (n + 1) 2, feas = op_feasible.
   Part C  PCTSP: P = pctsp_wfb && (pn_of = n),   N = n + 1, K = n + 1,          feas = pctsp_feasible.
   No hypothesis of the abstract theorem is false for these environments (both keep the depot / a customer offered in
   every reachable state, and their masks are computed from the instance size, not stored in the state).
   Part D  non-vacuity. *)
From Coq Require Import List Bool Arith Lia ZArith QArith Qcanon.
From RL4CO Require Import Base.Num Base.OField Base.OFieldQc Base.EnvSig Spec.Routes
     Decoding.PLTensor Decoding.ProcessLogits Decoding.PLInst Decoding.Batchify Decoding.Nest Decoding.SelectBest
     Decoding.Beam Decoding.BeamProofs Env.OP Env.OPProofs Env.PCTSP Env.PCTSPProofs Compose.EnvRestrict Compose.BeamOnEnvs.
Import ListNotations.
Local Open Scope nat_scope.

(* ================================================================================================ *)
(** * Part A: generic *)

Section LongDone.
  Variable Ev : Env.
  Variable i : inst Ev.
  Variable K : nat.
  Hypothesis nde : forall h, adm i h = true -> exists a, offered i (run i h) a = true.
  Hypothesis stable : forall h a, adm i (h ++ [a]) = true -> done Ev i (run i h) = true -> done Ev i (run i (h ++ [a])) = true.
  Hypothesis bound : forall h, adm i h = true ->
    (forall p q, h = p ++ q -> q <> [] -> done Ev i (run i p) = false) -> length h <= K.

  Lemma stable_app p q : adm i (p ++ q) = true -> done Ev i (run i p) = true -> done Ev i (run i (p ++ q)) = true.
  Proof.
    revert p. induction q as [|a q IH]; intros p Hadm Hd; [rewrite app_nil_r; exact Hd|].
    replace (p ++ a :: q) with ((p ++ [a]) ++ q) in * by (rewrite <- app_assoc; reflexivity).
    apply IH; [exact Hadm|]. apply stable; [eapply adm_prefix; exact Hadm | exact Hd].
  Qed.

  (* an admitted history of K moves is finished *)
  Lemma long_done h : adm i h = true -> K <= length h -> done Ev i (run i h) = true.
  Proof.
    intros Hadm Hlen. destruct (done Ev i (run i h)) eqn:Ed; [reflexivity|]. exfalso.
    destruct (nde h Hadm) as (a & Ha).
    assert (Hadm' : adm i (h ++ [a]) = true) by (rewrite adm_snoc, Hadm; exact Ha).
    pose proof (bound (h ++ [a]) Hadm') as Hb. rewrite app_length in Hb. cbn [length] in Hb.
    enough (length h + 1 <= K) by lia. apply Hb. intros p q Hpq Hq.
    destruct (exists_last Hq) as (q0 & x & ->). rewrite app_assoc in Hpq. apply app_inj_tail in Hpq as [Hh _].
    destruct (done Ev i (run i p)) eqn:Edp; [|reflexivity].
    rewrite Hh in Hadm, Ed. rewrite (stable_app p q0 Hadm Edp) in Ed. discriminate.
  Qed.
End LongDone.

Section GenericBeam.
  Variable Ev : Env.
  Variable P : inst Ev -> bool.
  Variable N K : nat.
  Variable feas : inst Ev -> list nat -> Prop.
  Hypothesis N_pos : 0 < N.
  Hypothesis H_mask : forall i s, P i = true -> length (mask Ev i s) = N.
  Hypothesis H_nde : forall i h, P i = true -> adm i h = true -> exists a, offered i (run i h) a = true.
  Hypothesis H_ok : forall i h a, P i = true -> adm i h = true -> offered i (run i h) a = true -> stepok Ev i (run i h) a = true.
  Hypothesis H_stable : forall i h a, P i = true -> adm i (h ++ [a]) = true -> done Ev i (run i h) = true ->
    done Ev i (run i (h ++ [a])) = true.
  Hypothesis H_bound : forall i h, P i = true -> adm i h = true ->
    (forall p q, h = p ++ q -> q <> [] -> done Ev i (run i p) = false) -> length h <= K.
  Hypothesis H_sound : forall i h, P i = true -> adm i h = true -> done Ev i (run i h) = true -> feas i h.

  Variables clip tmp : Z -> Z.
  Variable top_p : Qc.
  Variable top_k : nat.
  Variable dec : inst Ev -> st Ev -> list Z.
  Hypothesis dec_len : forall i s, P i = true -> length (dec i s) = N.

  Let E1 : Env := restrict Ev P.
  Let dec1 (i : inst E1) (s : st E1) : list Z := dec (under i) s.
  Let lp1 := lpQc clip tmp top_p top_k E1 dec1.
  Let lp2 := lpQc clip tmp top_p top_k Ev dec.

  Lemma gen_dec_len : forall (i : inst E1) (s : st E1), length (dec1 i s) = N.
  Proof. intros i s. apply dec_len. exact (under_ok i). Qed.
  Lemma gen_mask_len : forall (i : inst E1) (s : st E1), length (mask E1 i s) = N.
  Proof. intros i s. apply (H_mask (under i) s). exact (under_ok i). Qed.
  Lemma gen_nde : forall (i : inst E1) h, adm i h = true -> h <> [] -> exists a, offered i (run i h) a = true.
  Proof.
    intros i h Hadm _. unfold E1 in *. rewrite restrict_adm in Hadm. rewrite restrict_run.
    exact (H_nde (under i) h (under_ok i) Hadm).
  Qed.
  Lemma gen_stepok : forall (i : inst E1) h a, adm i h = true -> h <> [] -> offered i (run i h) a = true ->
    stepok E1 i (run i h) a = true.
  Proof.
    intros i h a Hadm _ Ho. unfold E1 in *. rewrite restrict_adm in Hadm. rewrite restrict_run in *.
    exact (H_ok (under i) h a (under_ok i) Hadm Ho).
  Qed.

  Lemma gen_beam_core W B (insts : list (inst Ev)) starts bs0 fuel :
    length insts = B -> 0 < B ->
    (forall i, In i insts -> P i = true) ->
    pre_hook Ev Qc 1%Qc W insts starts = Some bs0 ->
    starts_offered Ev B insts starts ->
    exists bs, loop Ev Qc Qcmult 0%Qc Qcleb lp2 fuel W bs0 = Some bs /\
      length (b_rows Ev Qc bs) = W * B /\
      forall r, r < W * B -> exists (i : inst Ev) (h : list nat),
        nth_error insts (r mod B) = Some i /\
        nth_error (b_rows Ev Qc bs) r = Some (i, run i h, h) /\ h <> [] /\
        adm i h = true /\
        (0 < score Ev Qc Qcmult 1%Qc 0%Qc lp2 i h)%Qc /\
        (done Ev i (run i h) = true -> feas i h) /\
        (K <= S fuel -> done Ev i (run i h) = true).
  Proof.
    intros HL HB Hall Hpre Hoff.
    destruct (lift_instances Ev P insts Hall) as (insts' & Hmap).
    subst insts. rewrite map_length in HL.
    pose (G := fun (_ : inst E1) (_ : st E1) => True).
    assert (Hlp : forall (i : inst E1) s, G i s -> lp2 (under i) s = lp1 i s) by reflexivity.
    pose proof (sim_pre_hook E1 Ev Qc 1%Qc under (fun _ s => s) G (fun _ => eq_refl) (fun _ _ _ => eq_refl) (fun _ _ _ _ => eq_refl)
                  W insts' starts (fun _ _ => I) (fun _ _ _ => eq_refl)) as Hsp.
    pose proof (eq_trans (eq_sym Hsp) Hpre) as Hpre2. clear Hsp Hpre.
    destruct (pre_hook E1 Qc 1%Qc W insts' starts) as [bs0'|] eqn:Hpre'; [|discriminate]. cbn [option_map] in Hpre2. injection Hpre2 as <-.
    assert (HW : 0 < W) by (pose proof (pre_hook_width _ _ _ _ _ _ _ Hpre'); lia).
    assert (Hoff' : starts_offered E1 B insts' starts).
    { intros r i a Hi Ha. exact (Hoff r (under i) a (map_nth_error under _ _ Hi) Ha). }
    destruct (beam_run_total_Qc clip tmp top_p top_k E1 dec1 N gen_dec_len gen_mask_len gen_nde N_pos gen_stepok
                W B insts' starts bs0' fuel HW HL HB Hpre' Hoff') as (bs' & Hloop & Hrows).
    fold lp1 in Hloop, Hrows.
    pose proof (sim_loop E1 Ev Qc Qcmult 0%Qc Qcleb lp1 lp2 under (fun _ s => s) G
                  (fun _ _ _ => eq_refl) (fun _ _ => eq_refl) (fun _ _ _ => eq_refl) (fun _ _ _ _ => eq_refl) Hlp
                  W (fun _ => True) (fun _ _ _ => conj (fun _ _ => I) (fun _ _ => I)) fuel bs0' I) as Hsl.
    rewrite Hloop in Hsl. cbn [option_map] in Hsl.
    eexists. split; [exact Hsl|].
    assert (Hlen1 : forall i s, length (lp1 i s) = N).
    { intros i s. apply (lpK_len QcF Z Z.leb pow2 clip tmp top_p top_k E1 dec1 N gen_dec_len gen_mask_len). }
    pose proof (Inv_pre_hook E1 Qc Qcmult 1%Qc 0%Qc lp1 N N_pos W B insts' HW HL starts bs0' Hpre') as (HI0 & _).
    pose proof (Inv_loop E1 Qc Qcmult 1%Qc 0%Qc Qcleb lp1 N N_pos Hlen1 W B insts' HW HL fuel bs0' bs' HI0 Hloop) as HI.
    split; [cbn [sim_bs b_rows]; rewrite map_length; exact (BeamProofs.inv_rows _ _ _ _ _ _ _ _ _ _ HI)|].
    intros r Hr. destruct (Hrows r Hr) as (i & h & (Hi & Hrw & Hne) & Hadm & Hpos).
    pose proof (under_ok i) as HP.
    exists (under i), h. split; [exact (map_nth_error under _ _ Hi)|].
    pose proof Hrw as Hrw1.
    unfold E1 in Hadm, Hrw. rewrite restrict_adm in Hadm. rewrite restrict_run in Hrw.
    split; [cbn [sim_bs b_rows]; rewrite (map_nth_error _ _ _ Hrw); reflexivity|].
    split; [exact Hne|]. split; [exact Hadm|]. split; [|split].
    - rewrite (sim_score E1 Ev Qc Qcmult 1%Qc 0%Qc lp1 lp2 under (fun _ s => s) G (fun _ => eq_refl) (fun _ _ _ => eq_refl) Hlp)
        by (intros; exact I). exact Hpos.
    - intros Hd. apply H_sound; assumption.
    - intros Hfuel.
      destruct (hist_len_loop E1 Qc Qcmult 1%Qc 0%Qc Qcleb lp1 N N_pos Hlen1 W B insts' HW HL fuel bs0' bs' 1 HI0 Hloop
                  (hist_len_pre_hook E1 Qc Qcmult 1%Qc 0%Qc lp1 N N_pos W B insts' HW HL starts bs0' Hpre'))
        as (k & Hk & HLk & Hend).
      destruct Hend as [Hd|Hkf].
      + pose proof (all_done_row E1 Qc bs' r _ Hd Hrw1) as Hdr. unfold row_done in Hdr. cbn [r_inst r_st fst snd] in Hdr.
        unfold E1 in Hdr. rewrite restrict_run in Hdr. exact Hdr.
      + specialize (HLk r _ Hrw1). cbn [r_hist snd] in HLk.
        apply (long_done Ev (under i) K (fun h0 => H_nde (under i) h0 HP) (fun h0 a => H_stable (under i) h0 a HP)
                 (fun h0 => H_bound (under i) h0 HP) h Hadm). lia.
  Qed.

  (* the two statements every instantiation below is an instance of *)
  Theorem gen_beam_never_raises W B (insts : list (inst Ev)) starts bs0 fuel :
    length insts = B -> 0 < B ->
    (forall i, In i insts -> P i = true) ->
    pre_hook Ev Qc 1%Qc W insts starts = Some bs0 ->
    starts_offered Ev B insts starts ->
    exists bs, loop Ev Qc Qcmult 0%Qc Qcleb lp2 fuel W bs0 = Some bs /\
      forall r, r < W * B -> exists (i : inst Ev) (h : list nat),
        nth_error insts (r mod B) = Some i /\
        nth_error (b_rows Ev Qc bs) r = Some (i, run i h, h) /\ h <> [] /\
        adm i h = true /\
        (0 < score Ev Qc Qcmult 1%Qc 0%Qc lp2 i h)%Qc /\
        (done Ev i (run i h) = true -> feas i h).
  Proof.
    intros HL HB Hall Hpre Hoff.
    destruct (gen_beam_core W B insts starts bs0 fuel HL HB Hall Hpre Hoff) as (bs & Hloop & _ & Hrows).
    exists bs. split; [exact Hloop|]. intros r Hr. destruct (Hrows r Hr) as (i & h & Hi & Hrw & Hne & Hadm & Hpos & Hf & _).
    exists i, h. split; [exact Hi|]. split; [exact Hrw|]. split; [exact Hne|]. split; [exact Hadm|]. split; [exact Hpos | exact Hf].
  Qed.

  Theorem gen_beam_finishes W B (insts : list (inst Ev)) starts bs0 fuel :
    length insts = B -> 0 < B ->
    (forall i, In i insts -> P i = true) ->
    pre_hook Ev Qc 1%Qc W insts starts = Some bs0 ->
    starts_offered Ev B insts starts ->
    K <= S fuel ->
    exists bs, loop Ev Qc Qcmult 0%Qc Qcleb lp2 fuel W bs0 = Some bs /\
      all_done Ev Qc bs = true /\
      forall r, r < W * B -> exists (i : inst Ev) (h : list nat),
        nth_error insts (r mod B) = Some i /\
        nth_error (b_rows Ev Qc bs) r = Some (i, run i h, h) /\ h <> [] /\
        adm i h = true /\
        (0 < score Ev Qc Qcmult 1%Qc 0%Qc lp2 i h)%Qc /\
        done Ev i (run i h) = true /\ feas i h.
  Proof.
    intros HL HB Hall Hpre Hoff Hfuel.
    destruct (gen_beam_core W B insts starts bs0 fuel HL HB Hall Hpre Hoff) as (bs & Hloop & Hlen & Hrows).
    exists bs. split; [exact Hloop|].
    assert (Hrows' : forall r, r < W * B -> exists (i : inst Ev) (h : list nat),
        nth_error insts (r mod B) = Some i /\
        nth_error (b_rows Ev Qc bs) r = Some (i, run i h, h) /\ h <> [] /\
        adm i h = true /\
        (0 < score Ev Qc Qcmult 1%Qc 0%Qc lp2 i h)%Qc /\
        done Ev i (run i h) = true /\ feas i h).
    { intros r Hr. destruct (Hrows r Hr) as (i & h & Hi & Hrw & Hne & Hadm & Hpos & Hf & Hd).
      exists i, h. split; [exact Hi|]. split; [exact Hrw|]. split; [exact Hne|]. split; [exact Hadm|]. split; [exact Hpos|].
      split; [exact (Hd Hfuel) | exact (Hf (Hd Hfuel))]. }
    split; [|exact Hrows'].
    unfold all_done. apply forallb_forall. intros rw Hin. apply In_nth_error in Hin as (r & Hr).
    assert (Hlt : r < W * B) by (rewrite <- Hlen; eapply nth_error_Some_lt; exact Hr).
    destruct (Hrows' r Hlt) as (i & h & _ & Hrw & _ & _ & _ & Hd & _). rewrite Hrw in Hr. injection Hr as <-. exact Hd.
  Qed.
End GenericBeam.

(* ================================================================================================ *)
(** * Part B: OP *)

(* instances in the documented format (op_wf) with exactly n customers (n = 0 allowed: the depot alone) *)
Definition op_okb (n : nat) (i : op_inst) : bool := op_wfb i && (op_n i =? n).
Lemma op_okb_spec n i : op_okb n i = true <-> op_wf i /\ op_n i = n.
Proof. unfold op_okb. rewrite andb_true_iff, op_wfb_ok, Nat.eqb_eq. tauto. Qed.

Lemma op_H_mask n i s : op_okb n i = true -> length (mask (OP exact) i s) = S n.
Proof.
  intros H. apply op_okb_spec in H as (_ & Hn). cbn [mask OP]. unfold op_mask. cbn [length].
  rewrite map_length, seq_length, Hn. reflexivity.
Qed.
Lemma op_H_nde n i h : op_okb n i = true -> adm (E:=OP exact) i h = true ->
  exists a, offered (E:=OP exact) i (run (E:=OP exact) i h) a = true.
Proof. intros _ _. pose proof (op_no_dead_end i (run (E:=OP exact) i h)) as Hany. apply anyb_exists in Hany as (a & _ & Ha). exists a. exact Ha. Qed.
Lemma op_H_ok n i h a : op_okb n i = true -> adm (E:=OP exact) i h = true ->
  offered (E:=OP exact) i (run (E:=OP exact) i h) a = true -> stepok (OP exact) i (run (E:=OP exact) i h) a = true.
Proof. intros _ _ Ho. exact (op_step_ok i h a Ho). Qed.
Lemma op_H_stable n i h a : op_okb n i = true -> adm (E:=OP exact) i (h ++ [a]) = true ->
  done (OP exact) i (run (E:=OP exact) i h) = true -> done (OP exact) i (run (E:=OP exact) i (h ++ [a])) = true.
Proof. intros H. apply op_okb_spec in H as (Hwf & _). exact (op_done_stable i h a Hwf). Qed.
Lemma op_H_bound n i h : op_okb n i = true -> adm (E:=OP exact) i h = true ->
  (forall p q, h = p ++ q -> q <> [] -> done (OP exact) i (run (E:=OP exact) i p) = false) -> length h <= Nat.max (n + 1) 2.
Proof. intros H Hadm Hnd. apply op_okb_spec in H as (Hwf & Hn). rewrite <- Hn. exact (op_bound i h Hwf Hadm Hnd). Qed.
Lemma op_H_sound n i h : op_okb n i = true -> adm (E:=OP exact) i h = true ->
  done (OP exact) i (run (E:=OP exact) i h) = true -> op_feasible i h.
Proof. intros H. apply op_okb_spec in H as (Hwf & _). exact (op_mask_sound i h Hwf). Qed.

(* C13 x (C02, C10, C01) on OP, any fuel *)
Theorem beam_search_on_op :
  forall (n : nat) (clip tmp : Z -> Z) (top_p : Qc) (top_k : nat) (dec : op_inst -> op_st -> list Z),
    (forall i s, op_wf i -> op_n i = n -> length (dec i s) = S n) ->
  forall (W B : nat) (insts : list op_inst) (starts : list nat) (bs0 : bstate (OP exact) Qc) (fuel : nat),
    length insts = B -> 0 < B ->
    (forall i, In i insts -> op_wf i /\ op_n i = n) ->
    pre_hook (OP exact) Qc 1%Qc W insts starts = Some bs0 ->
    starts_offered (OP exact) B insts starts ->
    exists bs, loop (OP exact) Qc Qcmult 0%Qc Qcleb (lpQc clip tmp top_p top_k (OP exact) dec) fuel W bs0 = Some bs /\
      forall r, r < W * B -> exists (i : op_inst) (h : list nat),
        nth_error insts (r mod B) = Some i /\
        nth_error (b_rows (OP exact) Qc bs) r = Some (i, run (E:=OP exact) i h, h) /\ h <> [] /\
        adm (E:=OP exact) i h = true /\
        (0 < score (OP exact) Qc Qcmult 1%Qc 0%Qc (lpQc clip tmp top_p top_k (OP exact) dec) i h)%Qc /\
        (done (OP exact) i (run (E:=OP exact) i h) = true -> op_feasible i h).
Proof.
  intros n clip tmp top_p top_k dec Hdec W B insts starts bs0 fuel HL HB Hall Hpre Hoff.
  exact (gen_beam_never_raises (OP exact) (op_okb n) (S n) (Nat.max (n + 1) 2) op_feasible (Nat.lt_0_succ n)
           (op_H_mask n) (op_H_nde n) (op_H_ok n) (op_H_stable n) (op_H_bound n) (op_H_sound n) clip tmp top_p top_k dec
           (fun i s H => Hdec i s (proj1 (proj1 (op_okb_spec n i) H)) (proj2 (proj1 (op_okb_spec n i) H)))
           W B insts starts bs0 fuel HL HB (fun i Hi => proj2 (op_okb_spec n i) (Hall i Hi)) Hpre Hoff).
Qed.

(* ... and with fuel for max(n, 1) steps (C02: an unfinished admitted episode has fewer than max(n+1, 2) moves, one of
   them forced) every returned beam is finished, hence a solution of its orienteering instance *)
Theorem beam_search_on_op_finishes :
  forall (n : nat) (clip tmp : Z -> Z) (top_p : Qc) (top_k : nat) (dec : op_inst -> op_st -> list Z),
    (forall i s, op_wf i -> op_n i = n -> length (dec i s) = S n) ->
  forall (W B : nat) (insts : list op_inst) (starts : list nat) (bs0 : bstate (OP exact) Qc) (fuel : nat),
    length insts = B -> 0 < B ->
    (forall i, In i insts -> op_wf i /\ op_n i = n) ->
    pre_hook (OP exact) Qc 1%Qc W insts starts = Some bs0 ->
    starts_offered (OP exact) B insts starts ->
    Nat.max n 1 <= fuel ->
    exists bs, loop (OP exact) Qc Qcmult 0%Qc Qcleb (lpQc clip tmp top_p top_k (OP exact) dec) fuel W bs0 = Some bs /\
      all_done (OP exact) Qc bs = true /\
      forall r, r < W * B -> exists (i : op_inst) (h : list nat),
        nth_error insts (r mod B) = Some i /\
        nth_error (b_rows (OP exact) Qc bs) r = Some (i, run (E:=OP exact) i h, h) /\ h <> [] /\
        adm (E:=OP exact) i h = true /\
        (0 < score (OP exact) Qc Qcmult 1%Qc 0%Qc (lpQc clip tmp top_p top_k (OP exact) dec) i h)%Qc /\
        done (OP exact) i (run (E:=OP exact) i h) = true /\ op_feasible i h.
Proof.
  intros n clip tmp top_p top_k dec Hdec W B insts starts bs0 fuel HL HB Hall Hpre Hoff Hfuel.
  exact (gen_beam_finishes (OP exact) (op_okb n) (S n) (Nat.max (n + 1) 2) op_feasible (Nat.lt_0_succ n)
           (op_H_mask n) (op_H_nde n) (op_H_ok n) (op_H_stable n) (op_H_bound n) (op_H_sound n) clip tmp top_p top_k dec
           (fun i s H => Hdec i s (proj1 (proj1 (op_okb_spec n i) H)) (proj2 (proj1 (op_okb_spec n i) H)))
           W B insts starts bs0 fuel HL HB (fun i Hi => proj2 (op_okb_spec n i) (Hall i Hi)) Hpre Hoff ltac:(lia)).
Qed.

(* ================================================================================================ *)
(** * Part C: PCTSP / SPCTSP (one model; [stoch i] selects the prize vector the environment collects) *)

Definition pctsp_okb (n : nat) (i : pctsp_inst) : bool := pctsp_wfb i && (pn_of i =? n).
Lemma pctsp_okb_spec n i : pctsp_okb n i = true <-> pctsp_wf i /\ pn_of i = n.
Proof. unfold pctsp_okb. rewrite andb_true_iff, pctsp_wfb_ok, Nat.eqb_eq. tauto. Qed.

Lemma pctsp_H_mask n i s : pctsp_okb n i = true -> length (mask (PCTSP exact) i s) = S n.
Proof.
  intros H. apply pctsp_okb_spec in H as (_ & Hn). cbn [mask PCTSP]. unfold pctsp_mask, plocs. cbn [length].
  rewrite map_length, seq_length, Hn. reflexivity.
Qed.
Lemma pctsp_H_nde n i h : pctsp_okb n i = true -> adm (E:=PCTSP exact) i h = true ->
  exists a, offered (E:=PCTSP exact) i (run (E:=PCTSP exact) i h) a = true.
Proof.
  intros H Hadm. apply pctsp_okb_spec in H as (Hwf & _).
  pose proof (pctsp_no_dead_end i h Hwf Hadm) as Hany. apply anyb_exists in Hany as (a & _ & Ha). exists a. exact Ha.
Qed.
Lemma pctsp_H_ok n i h a : pctsp_okb n i = true -> adm (E:=PCTSP exact) i h = true ->
  offered (E:=PCTSP exact) i (run (E:=PCTSP exact) i h) a = true -> stepok (PCTSP exact) i (run (E:=PCTSP exact) i h) a = true.
Proof. intros H. apply pctsp_okb_spec in H as (Hwf & _). exact (pctsp_step_ok i h a Hwf). Qed.
Lemma pctsp_H_stable n i h a : pctsp_okb n i = true -> adm (E:=PCTSP exact) i (h ++ [a]) = true ->
  done (PCTSP exact) i (run (E:=PCTSP exact) i h) = true -> done (PCTSP exact) i (run (E:=PCTSP exact) i (h ++ [a])) = true.
Proof. intros H. apply pctsp_okb_spec in H as (Hwf & _). exact (pctsp_done_stable i h a Hwf). Qed.
Lemma pctsp_H_bound n i h : pctsp_okb n i = true -> adm (E:=PCTSP exact) i h = true ->
  (forall p q, h = p ++ q -> q <> [] -> done (PCTSP exact) i (run (E:=PCTSP exact) i p) = false) -> length h <= n + 1.
Proof. intros H Hadm Hnd. apply pctsp_okb_spec in H as (Hwf & Hn). rewrite <- Hn. exact (pctsp_bound i h Hwf Hadm Hnd). Qed.
Lemma pctsp_H_sound n i h : pctsp_okb n i = true -> adm (E:=PCTSP exact) i h = true ->
  done (PCTSP exact) i (run (E:=PCTSP exact) i h) = true -> pctsp_feasible i h.
Proof. intros H. apply pctsp_okb_spec in H as (Hwf & _). exact (pctsp_mask_sound i h Hwf). Qed.

(* C13 x (C02, C10, C01) on PCTSP / SPCTSP, any fuel (pctsp_wf contains n >= 1) *)
Theorem beam_search_on_pctsp :
  forall (n : nat) (clip tmp : Z -> Z) (top_p : Qc) (top_k : nat) (dec : pctsp_inst -> pctsp_st -> list Z),
    (forall i s, pctsp_wf i -> pn_of i = n -> length (dec i s) = S n) ->
  forall (W B : nat) (insts : list pctsp_inst) (starts : list nat) (bs0 : bstate (PCTSP exact) Qc) (fuel : nat),
    length insts = B -> 0 < B ->
    (forall i, In i insts -> pctsp_wf i /\ pn_of i = n) ->
    pre_hook (PCTSP exact) Qc 1%Qc W insts starts = Some bs0 ->
    starts_offered (PCTSP exact) B insts starts ->
    exists bs, loop (PCTSP exact) Qc Qcmult 0%Qc Qcleb (lpQc clip tmp top_p top_k (PCTSP exact) dec) fuel W bs0 = Some bs /\
      forall r, r < W * B -> exists (i : pctsp_inst) (h : list nat),
        nth_error insts (r mod B) = Some i /\
        nth_error (b_rows (PCTSP exact) Qc bs) r = Some (i, run (E:=PCTSP exact) i h, h) /\ h <> [] /\
        adm (E:=PCTSP exact) i h = true /\
        (0 < score (PCTSP exact) Qc Qcmult 1%Qc 0%Qc (lpQc clip tmp top_p top_k (PCTSP exact) dec) i h)%Qc /\
        (done (PCTSP exact) i (run (E:=PCTSP exact) i h) = true -> pctsp_feasible i h).
Proof.
  intros n clip tmp top_p top_k dec Hdec W B insts starts bs0 fuel HL HB Hall Hpre Hoff.
  exact (gen_beam_never_raises (PCTSP exact) (pctsp_okb n) (S n) (n + 1) pctsp_feasible (Nat.lt_0_succ n)
           (pctsp_H_mask n) (pctsp_H_nde n) (pctsp_H_ok n) (pctsp_H_stable n) (pctsp_H_bound n) (pctsp_H_sound n) clip tmp top_p top_k dec
           (fun i s H => Hdec i s (proj1 (proj1 (pctsp_okb_spec n i) H)) (proj2 (proj1 (pctsp_okb_spec n i) H)))
           W B insts starts bs0 fuel HL HB (fun i Hi => proj2 (pctsp_okb_spec n i) (Hall i Hi)) Hpre Hoff).
Qed.

(* ... and with fuel for n steps (C02: at most n + 1 moves, one of them forced) every returned beam is finished, hence
   a solution of its prize-collecting instance *)
Theorem beam_search_on_pctsp_finishes :
  forall (n : nat) (clip tmp : Z -> Z) (top_p : Qc) (top_k : nat) (dec : pctsp_inst -> pctsp_st -> list Z),
    (forall i s, pctsp_wf i -> pn_of i = n -> length (dec i s) = S n) ->
  forall (W B : nat) (insts : list pctsp_inst) (starts : list nat) (bs0 : bstate (PCTSP exact) Qc) (fuel : nat),
    length insts = B -> 0 < B ->
    (forall i, In i insts -> pctsp_wf i /\ pn_of i = n) ->
    pre_hook (PCTSP exact) Qc 1%Qc W insts starts = Some bs0 ->
    starts_offered (PCTSP exact) B insts starts ->
    n <= fuel ->
    exists bs, loop (PCTSP exact) Qc Qcmult 0%Qc Qcleb (lpQc clip tmp top_p top_k (PCTSP exact) dec) fuel W bs0 = Some bs /\
      all_done (PCTSP exact) Qc bs = true /\
      forall r, r < W * B -> exists (i : pctsp_inst) (h : list nat),
        nth_error insts (r mod B) = Some i /\
        nth_error (b_rows (PCTSP exact) Qc bs) r = Some (i, run (E:=PCTSP exact) i h, h) /\ h <> [] /\
        adm (E:=PCTSP exact) i h = true /\
        (0 < score (PCTSP exact) Qc Qcmult 1%Qc 0%Qc (lpQc clip tmp top_p top_k (PCTSP exact) dec) i h)%Qc /\
        done (PCTSP exact) i (run (E:=PCTSP exact) i h) = true /\ pctsp_feasible i h.
Proof.
  intros n clip tmp top_p top_k dec Hdec W B insts starts bs0 fuel HL HB Hall Hpre Hoff Hfuel.
  exact (gen_beam_finishes (PCTSP exact) (pctsp_okb n) (S n) (n + 1) pctsp_feasible (Nat.lt_0_succ n)
           (pctsp_H_mask n) (pctsp_H_nde n) (pctsp_H_ok n) (pctsp_H_stable n) (pctsp_H_bound n) (pctsp_H_sound n) clip tmp top_p top_k dec
           (fun i s H => Hdec i s (proj1 (proj1 (pctsp_okb_spec n i) H)) (proj2 (proj1 (pctsp_okb_spec n i) H)))
           W B insts starts bs0 fuel HL HB (fun i Hi => proj2 (pctsp_okb_spec n i) (Hall i Hi)) Hpre Hoff ltac:(lia)).
Qed.

(* ================================================================================================ *)
(** * Part D: non-vacuity *)
Definition ex_op_a : op_inst := {| prz := [10; 20]%Z; maxlen := 13%Z; eps := 1%Z; odist := [[0; 3; 4]; [3; 0; 5]; [4; 5; 0]]%Z; otol := 0%Z |}.
Definition ex_op_b : op_inst := {| prz := [5; 5]%Z; maxlen := 20%Z; eps := 1%Z; odist := [[0; 3; 4]; [3; 0; 5]; [4; 5; 0]]%Z; otol := 0%Z |}.
Definition ex_op_dec (_ : op_inst) (s : op_st) : list Z := [0; 2; Z.of_nat (ocur s)]%Z.
Definition ex_op_lp := lpQc (fun z => z) (fun z => z) 0%Qc 0 (OP exact) ex_op_dec.
Definition ex_op_show (o : option (bstate (OP exact) Qc)) :=
  match o with
  | Some bs => Some (map (fun rw => (r_hist (OP exact) rw, op_feasibleb (r_inst (OP exact) rw) 0 (r_hist (OP exact) rw),
                                      row_done (OP exact) rw)) (b_rows (OP exact) Qc bs),
                     map (fun x : Qc => this x) (b_pbl (OP exact) Qc bs))
  | None => None
  end.

Definition ex_pc_a : pctsp_inst :=
  {| dprize := [32; 32; 10]%Z; sprize := [1; 1; 1]%Z; stoch := false; pen := [3; 4; 5]%Z;
     pdist := [[0; 3; 4; 5]; [3; 0; 5; 4]; [4; 5; 0; 3]; [5; 4; 3; 0]]%Z; preq := 64%Z; pthr := 63%Z |}.
(* an SPCTSPEnv row: the revealed (stochastic) prizes are the ones collected *)
Definition ex_pc_b : pctsp_inst :=
  {| dprize := [32; 32; 10]%Z; sprize := [40; 30; 20]%Z; stoch := true; pen := [3; 4; 5]%Z;
     pdist := [[0; 3; 4; 5]; [3; 0; 5; 4]; [4; 5; 0; 3]; [5; 4; 3; 0]]%Z; preq := 64%Z; pthr := 63%Z |}.
Definition ex_pc_dec (_ : pctsp_inst) (s : pctsp_st) : list Z := [0; 2; 1; Z.of_nat (pcur s)]%Z.
Definition ex_pc_lp := lpQc (fun z => z) (fun z => z) 0%Qc 0 (PCTSP exact) ex_pc_dec.
Definition ex_pc_show (o : option (bstate (PCTSP exact) Qc)) :=
  match o with
  | Some bs => Some (map (fun rw => (r_hist (PCTSP exact) rw, pctsp_feasibleb (r_inst (PCTSP exact) rw) 0 (r_hist (PCTSP exact) rw),
                                      row_done (PCTSP exact) rw)) (b_rows (PCTSP exact) Qc bs),
                     map (fun x : Qc => this x) (b_pbl (PCTSP exact) Qc bs))
  | None => None
  end.

Example ex_op_hypotheses :
  (forall i, In i [ex_op_a; ex_op_b] -> op_wf i /\ op_n i = 2) /\
  (forall i s, op_wf i -> op_n i = 2 -> length (ex_op_dec i s) = 3) /\
  starts_offered (OP exact) 2 [ex_op_a; ex_op_b] [1; 1; 2; 2].
Proof.
  split; [|split].
  - intros i [<-|[<-|[]]]; (split; [apply op_wfb_ok; reflexivity | reflexivity]).
  - reflexivity.
  - intros r i a Hi Ha.
    do 4 (destruct r as [|r]; [cbn in Hi, Ha; injection Hi as <-; injection Ha as <-; reflexivity|]). destruct r; discriminate.
Qed.

(* beam width 2, forced first moves (1, 2) for both instances; fuel max(n, 1) = 2: every beam is finished and within the
   length limit (3 + 5 + 4 = 12 <= 13) *)
Example ex_op_run :
  ex_op_show (match pre_hook (OP exact) Qc 1%Qc 2 [ex_op_a; ex_op_b] [1; 1; 2; 2] with
              | Some bs0 => loop (OP exact) Qc Qcmult 0%Qc Qcleb ex_op_lp 2 2 bs0 | None => None end)
  = Some ([([2; 1; 0], true, true); ([2; 1; 0], true, true); ([1; 2; 0], true, true); ([1; 2; 0], true, true)],
          [4 # 5; 4 # 5; 2 # 3; 2 # 3]%Q).
Proof. vm_compute. reflexivity. Qed.

(* out of fuel after 1 step: unfinished (in OP every admitted prefix already satisfies the specification: C01_op_prefix_feasible) *)
Example ex_op_run_short :
  ex_op_show (match pre_hook (OP exact) Qc 1%Qc 2 [ex_op_a; ex_op_b] [1; 1; 2; 2] with
              | Some bs0 => loop (OP exact) Qc Qcmult 0%Qc Qcleb ex_op_lp 1 2 bs0 | None => None end)
  = Some ([([2; 1], true, false); ([2; 1], true, false); ([1; 2], true, false); ([1; 2], true, false)],
          [4 # 5; 4 # 5; 2 # 3; 2 # 3]%Q).
Proof. vm_compute. reflexivity. Qed.

Example ex_pctsp_hypotheses :
  (forall i, In i [ex_pc_a; ex_pc_b] -> pctsp_wf i /\ pn_of i = 3) /\
  (forall i s, pctsp_wf i -> pn_of i = 3 -> length (ex_pc_dec i s) = 4) /\
  starts_offered (PCTSP exact) 2 [ex_pc_a; ex_pc_b] [1; 1; 2; 3].
Proof.
  split; [|split].
  - intros i [<-|[<-|[]]]; (split; [apply pctsp_wfb_ok; reflexivity | reflexivity]).
  - reflexivity.
  - intros r i a Hi Ha.
    do 4 (destruct r as [|r]; [cbn in Hi, Ha; injection Hi as <-; injection Ha as <-; reflexivity|]). destruct r; discriminate.
Qed.

(* one PCTSPEnv row and one SPCTSPEnv row, beam width 2, fuel n = 3: every beam is a finished feasible tour *)
Example ex_pctsp_run :
  ex_pc_show (match pre_hook (PCTSP exact) Qc 1%Qc 2 [ex_pc_a; ex_pc_b] [1; 1; 2; 3] with
              | Some bs0 => loop (PCTSP exact) Qc Qcmult 0%Qc Qcleb ex_pc_lp 3 2 bs0 | None => None end)
  = Some ([([1; 3; 2; 0], true, true); ([3; 1; 2; 0], true, true); ([1; 2; 3; 0], true, true); ([1; 2; 3; 0], true, true)],
          [1 # 2; 2 # 3; 2 # 5; 2 # 5]%Q).
Proof. vm_compute. reflexivity. Qed.

Example ex_pctsp_run_short :
  ex_pc_show (match pre_hook (PCTSP exact) Qc 1%Qc 2 [ex_pc_a; ex_pc_b] [1; 1; 2; 3] with
              | Some bs0 => loop (PCTSP exact) Qc Qcmult 0%Qc Qcleb ex_pc_lp 1 2 bs0 | None => None end)
  = Some ([([1; 2], false, false); ([3; 1], false, false); ([1; 3], false, false); ([1; 2], false, false)],
          [1 # 2; 2 # 3; 1 # 2; 1 # 2]%Q).
Proof. vm_compute. reflexivity. Qed.
