(* C18 x C02, second batch: TSP, mTSP, PCTSP / SPCTSP, MDCPDP, SDVRP.

   Data/GenRouting2.v models these generators as functions that emit the env units' own instance records and states
   their guarantees in the env units' own predicates (tsp_wfb, mtsp_wfb / mtsp_solvableb, pctsp_wfb, md_wfb /
   md_solvableb, cvrp_wfb / sd_solvableb), so the bridges are direct; what is added here is the composed statement
   "every generated instance completes", with the step bounds written in the generator's own parameters.
   The env modules are only Required (their short names clash with each other); names are qualified. *)
From Coq Require Import ZArith QArith Qround List Bool Lia ZifyBool Arith.
From RL4CO Require Import Base.Num Base.EnvSig Data.GenRouting Data.GenRouting2.
From RL4CO Require Env.TSP Env.TSPProofs Env.MTSP Env.MTSPProofs Env.PCTSP Env.PCTSPProofs Env.MDCPDP Env.MDCPDPDefs
                      Env.MDCPDPProofs Env.CVRP Env.CVRPProofs Env.SDVRP Env.SDVRPProofs.
Import ListNotations.
Open Scope Z_scope.

(* ================================================================== TSP (fixed length: the mask is empty once done) *)
Theorem gen_tsp_complete :
  forall (n : nat) (D : list (list Z)),
    (1 <= n)%nat -> length D = n -> (forall r, In r D -> length r = n) ->
    (forall a b, (a < n)%nat -> (b < n)%nat -> mget D a b = mget D b a) ->
    let i := gen_tsp D in
    forall acts : list nat, adm (E:=TSP.TSP) i acts = true ->
      (done TSP.TSP i (run (E:=TSP.TSP) i acts) = false -> anyb (mask TSP.TSP i (run (E:=TSP.TSP) i acts)) = true) /\
      (forall a, offered (E:=TSP.TSP) i (run (E:=TSP.TSP) i acts) a = true -> stepok TSP.TSP i (run (E:=TSP.TSP) i acts) a = true) /\
      (length acts <= n)%nat /\
      (done TSP.TSP i (run (E:=TSP.TSP) i acts) = true <-> length acts = n) /\
      (forall a, adm (E:=TSP.TSP) i (acts ++ [a]) = true -> done TSP.TSP i (run (E:=TSP.TSP) i acts) = true ->
                 done TSP.TSP i (run (E:=TSP.TSP) i (acts ++ [a])) = true).
Proof.
  intros n D Hn HL Hr Hs i acts Hadm.
  pose proof (TSPProofs.tsp_wfb_ok i (gen_tsp_wf n D Hn HL Hr Hs)) as Hwf.
  assert (En : TSP.tsp_n i = n) by exact HL.
  split; [intros Hd; apply TSPProofs.tsp_no_dead_end; assumption|]. split; [|split; [|split]].
  - intros a Ho. apply TSPProofs.tsp_step_ok; assumption.
  - rewrite <- En. apply TSPProofs.tsp_bound. exact Hadm.
  - rewrite <- En. apply TSPProofs.tsp_done_iff; [rewrite En; exact Hn|exact Hadm].
  - intros a Ha Hd. apply TSPProofs.tsp_done_stable; assumption.
Qed.

Example gen_tsp_complete_ex :
  let D := [[0; 3; 4]; [3; 0; 5]; [4; 5; 0]] in
  TSPProofs.tsp_wfb (gen_tsp D) = true /\ adm (E:=TSP.TSP) (gen_tsp D) [1; 2; 0]%nat = true /\
  done TSP.TSP (gen_tsp D) (run (E:=TSP.TSP) (gen_tsp D) [1; 2; 0]%nat) = true /\
  done TSP.TSP (gen_tsp D) (run (E:=TSP.TSP) (gen_tsp D) [1; 2]%nat) = false.
Proof. vm_compute. repeat split. Qed.

(* ================================================================== mTSP (any model configuration C; the cost type does not
   enter C02).  n = number of nodes, the depot included; at least one city (n >= 2) is the solvability condition *)
Theorem gen_mtsp_complete :
  forall (C : MTSP.mtsp_cfg) (lo hi k : Z) (n : nat) (D : list (list Z)),
    1 <= lo -> lo <= k <= hi ->
    (2 <= n)%nat -> length D = n -> (forall r, In r D -> length r = n /\ forall x, In x r -> 0 <= x) ->
    (forall a, (a < n)%nat -> mget D a a = 0) ->
    let i := gen_mtsp k D in
    forall acts : list nat, adm (E:=MTSP.MTSP exact C) i acts = true ->
      anyb (mask (MTSP.MTSP exact C) i (run (E:=MTSP.MTSP exact C) i acts)) = true /\
      (forall a, offered (E:=MTSP.MTSP exact C) i (run (E:=MTSP.MTSP exact C) i acts) a = true ->
                 stepok (MTSP.MTSP exact C) i (run (E:=MTSP.MTSP exact C) i acts) a = true) /\
      ((forall p q, acts = p ++ q -> q <> [] -> done (MTSP.MTSP exact C) i (run (E:=MTSP.MTSP exact C) i p) = false) ->
       (length acts <= (n - 1) + Nat.min (Z.to_nat (k - 1)) (n - 2))%nat) /\
      (forall a, adm (E:=MTSP.MTSP exact C) i (acts ++ [a]) = true ->
                 done (MTSP.MTSP exact C) i (run (E:=MTSP.MTSP exact C) i acts) = true ->
                 done (MTSP.MTSP exact C) i (run (E:=MTSP.MTSP exact C) i (acts ++ [a])) = true).
Proof.
  intros C lo hi k n D Hlo Hk Hn HL Hr Hd i acts Hadm.
  destruct (gen_mtsp_wf lo hi k n D Hlo Hk ltac:(lia) HL Hr Hd) as (Hwf & _ & Hsol). fold i in Hwf, Hsol.
  specialize (Hsol Hn).
  assert (En : MTSP.n_of i = (n - 1)%nat) by (unfold MTSP.n_of, MTSP.nnodes, i, gen_mtsp; cbn [MTSP.dist]; rewrite HL; reflexivity).
  split; [apply MTSPProofs.mtsp_no_dead_end_b; assumption|]. split; [|split].
  - intros a Ho. apply MTSPProofs.mtsp_step_ok_b; assumption.
  - intros Hnd. pose proof (MTSPProofs.mtsp_bound_b C i acts Hwf Hadm Hnd) as H. rewrite En in H.
    change (MTSP.nag i) with k in H. replace (n - 1 - 1)%nat with (n - 2)%nat in H by lia. exact H.
  - intros a Ha Hdn. apply MTSPProofs.mtsp_done_stable_b; assumption.
Qed.

Example gen_mtsp_complete_ex :
  let i := gen_mtsp 2 [[0;1;1;1];[1;0;1;1];[1;1;0;1];[1;1;1;0]] in
  MTSPProofs.mtsp_wfb i = true /\ MTSPProofs.mtsp_solvableb i = true /\
  adm (E:=MTSP.MTSP exact MTSP.cfg_code) i [1;0;2;3]%nat = true /\
  done (MTSP.MTSP exact MTSP.cfg_code) i (run (E:=MTSP.MTSP exact MTSP.cfg_code) i [1;0;2;3]%nat) = true /\
  done (MTSP.MTSP exact MTSP.cfg_code) i (run (E:=MTSP.MTSP exact MTSP.cfg_code) i [1;0;2]%nat) = false.
Proof. vm_compute. repeat split. Qed.

(* ================================================================== PCTSP / SPCTSP (one model, [stochastic] selects the prize
   vector in use; C02 does not depend on it) *)
Theorem gen_pctsp_complete :
  forall (S : Z) (stochastic : bool) (num_loc : Z) (maxpen : Q) (draws : list (Q * Q * Q)) (D : list (list Z)) (thr : Z),
    0 < S -> 1 <= num_loc -> (0 <= maxpen)%Q -> draws <> [] ->
    (forall rp rd rs, In (rp, rd, rs) draws ->
       (0 <= rp)%Q /\ (rp < 1)%Q /\ (0 <= rd)%Q /\ (rd < 1)%Q /\ (0 <= rs)%Q /\ (rs < 1)%Q) ->
    let i := gen_pctsp S stochastic num_loc maxpen draws D thr in
    forall acts : list nat, adm (E:=PCTSP.PCTSP exact) i acts = true ->
      anyb (mask (PCTSP.PCTSP exact) i (run (E:=PCTSP.PCTSP exact) i acts)) = true /\
      (forall a, offered (E:=PCTSP.PCTSP exact) i (run (E:=PCTSP.PCTSP exact) i acts) a = true ->
                 stepok (PCTSP.PCTSP exact) i (run (E:=PCTSP.PCTSP exact) i acts) a = true) /\
      ((forall p q, acts = p ++ q -> q <> [] -> done (PCTSP.PCTSP exact) i (run (E:=PCTSP.PCTSP exact) i p) = false) ->
       (length acts <= length draws + 1)%nat) /\
      (forall a, adm (E:=PCTSP.PCTSP exact) i (acts ++ [a]) = true ->
                 done (PCTSP.PCTSP exact) i (run (E:=PCTSP.PCTSP exact) i acts) = true ->
                 done (PCTSP.PCTSP exact) i (run (E:=PCTSP.PCTSP exact) i (acts ++ [a])) = true).
Proof.
  intros S st num maxpen draws D thr HS Hn Hm Hne Hdr i acts Hadm.
  destruct (gen_pctsp_wf S st num maxpen draws D thr HS Hn Hm Hne Hdr) as (Hwfb & Hpn & _). fold i in Hwfb, Hpn.
  apply PCTSPProofs.pctsp_wfb_ok in Hwfb.
  split; [apply PCTSPProofs.pctsp_no_dead_end; assumption|]. split; [|split].
  - intros a Ho. apply PCTSPProofs.pctsp_step_ok; assumption.
  - intros Hnd. rewrite <- Hpn. apply PCTSPProofs.pctsp_bound; assumption.
  - intros a Ha Hd. apply PCTSPProofs.pctsp_done_stable; assumption.
Qed.

Example gen_pctsp_complete_ex :
  let draws := [((1 # 2), (1 # 2), (3 # 4)); ((1 # 4), (3 # 4), (1 # 4)); ((3 # 4), (1 # 4), (1 # 2))]%Q in
  let i := fun st => gen_pctsp 1024 st 16 (3 # 8) draws [] 1023 in
  PCTSP.dprize (i false) = [128; 192; 64] /\ PCTSP.sprize (i true) = [192; 96; 64] /\ PCTSP.pen (i false) = [192; 96; 288] /\
  PCTSPProofs.pctsp_wfb (i false) = true /\
  adm (E:=PCTSP.PCTSP exact) (i false) [2; 3; 1; 0]%nat = true /\
  done (PCTSP.PCTSP exact) (i false) (run (E:=PCTSP.PCTSP exact) (i false) [2; 3; 1; 0]%nat) = true /\
  done (PCTSP.PCTSP exact) (i false) (run (E:=PCTSP.PCTSP exact) (i false) [2; 3; 1]%nat) = false /\
  adm (E:=PCTSP.PCTSP exact) (i true) [1; 3; 2; 0]%nat = true /\
  done (PCTSP.PCTSP exact) (i true) (run (E:=PCTSP.PCTSP exact) (i true) [1; 3; 2; 0]%nat) = true.
Proof. vm_compute. repeat split. Qed.

(* ================================================================== MDCPDP (the running code = all repairs; every start mode:
   start_mode "order" is start depot 0, "random" is any start depot k < num_depot) *)
Lemma md_wfb_with_start (i : MDCPDP.md_inst) (k : nat) :
  MDCPDPDefs.md_wfb i = true -> (k < MDCPDP.ndep i)%nat -> MDCPDPDefs.md_wfb (MDCPDPProofs.with_start i k) = true.
Proof.
  unfold MDCPDPDefs.md_wfb, MDCPDPProofs.with_start.
  cbn [MDCPDP.ndep MDCPDP.nloc MDCPDP.caps MDCPDP.dist MDCPDP.start MDCPDP.lw MDCPDP.one].
  rewrite !andb_true_iff. intros [[[[[[[[[[A1 A2] A3] A4] A5] A6] A7] A8] A9] A10] A11] Hk.
  apply Nat.ltb_lt in Hk. tauto.
Qed.

Theorem gen_mdcpdp_complete :
  forall (num_loc num_depot : nat) (lo hi c : Z) (D : list (list Z)) (one lw : Z) (opn : bool) (mode k : nat),
    (1 <= num_depot)%nat -> 1 <= lo -> lo <= c <= hi ->
    let N := (num_depot + even_num_loc num_loc)%nat in
    length D = N -> (forall r, In r D -> length r = N /\ forall x, In x r -> 0 <= x) -> (forall a, (a < N)%nat -> mget D a a = 0) ->
    0 < one -> 0 <= lw <= one ->
    (k < num_depot)%nat ->
    let i := MDCPDPProofs.with_start (gen_mdcpdp num_loc num_depot c D one lw opn mode) k in
    let E := MDCPDP.MDCPDP exact MDCPDP.repaired in
    MDCPDPDefs.md_wfb i = true /\ MDCPDPDefs.md_solvableb i = true /\
    forall acts : list nat, adm (E:=E) i acts = true ->
      (forall p q, acts = p ++ q -> q <> [] -> done E i (run (E:=E) i p) = false) ->
      (* no dead end, whether or not the last action finished the row *)
      anyb (mask E i (run (E:=E) i acts)) = true /\
      (* the last action (any offered action of an unfinished row) did not raise *)
      (forall p a, acts = p ++ [a] -> stepok E i (run (E:=E) i p) a = true) /\
      (* step bound: customers + 2 depots - 1 *)
      (length acts <= even_num_loc num_loc + 2 * num_depot - 1)%nat /\
      (* once finished: exactly the current depot is offered, for any number of padding steps, and the row stays finished *)
      (done E i (run (E:=E) i acts) = true ->
       forall m : nat,
         let e := MDCPDP.depot (run (E:=E) i acts) in
         adm (E:=E) i (acts ++ repeat e m) = true /\
         done E i (run (E:=E) i (acts ++ repeat e m)) = true /\
         mask E i (run (E:=E) i (acts ++ repeat e m)) = map (fun j => Nat.eqb j e) (seq 0 N)).
Proof.
  intros num_loc nd lo hi c D one lw opn mode k Hnd Hlo Hc N HL Hr Hd Hone Hlw Hk i E.
  destruct (gen_mdcpdp_wf num_loc nd lo hi c D one lw opn mode Hnd Hlo Hc HL Hr Hd Hone Hlw) as (Hwf0 & Hsol0 & _).
  assert (Hwf : MDCPDPDefs.md_wfb i = true) by (apply md_wfb_with_start; [exact Hwf0|exact Hk]).
  assert (Hsol : MDCPDPDefs.md_solvableb i = true) by exact Hsol0.
  split; [exact Hwf|]. split; [exact Hsol|].
  intros acts Hadm Hlive.
  pose proof (MDCPDPProofs.repaired_good i) as Hg. pose proof (MDCPDPProofs.repaired_solo i) as Hso.
  split; [exact (MDCPDPProofs.md_no_dead_end MDCPDP.repaired i Hwf Hg acts Hsol Hadm Hlive)|]. split; [|split].
  - intros p a Ep. subst acts. exact (MDCPDPProofs.md_step_ok MDCPDP.repaired i Hwf Hg p a Hso Hadm Hlive).
  - pose proof (MDCPDPProofs.md_bound_ok MDCPDP.repaired i Hwf Hg acts Hadm Hlive) as H.
    unfold MDCPDPProofs.md_bound, MDCPDP.nn in H.
    change (MDCPDP.ndep i) with nd in H. change (MDCPDP.nloc i) with (even_num_loc num_loc) in H. lia.
  - intros Hdn m.
    destruct (MDCPDPProofs.md_padding MDCPDP.repaired i Hwf Hg Hso acts m Hadm Hlive Hdn) as (H1 & H2 & H3 & _).
    split; [exact H1|]. split; [exact H2|]. exact H3.
Qed.

Example gen_mdcpdp_complete_ex :
  let D := [[0;1;1;1;1;1]; [1;0;1;1;1;1]; [1;1;0;1;1;1]; [1;1;1;0;1;1]; [1;1;1;1;0;1]; [1;1;1;1;1;0]] in
  let i := MDCPDPProofs.with_start (gen_mdcpdp 3 2 2 D 4 4 false 0) 1 in
  let E := MDCPDP.MDCPDP exact MDCPDP.repaired in
  let acts := [0; 2; 3; 4; 5; 0; 1]%nat in
  even_num_loc 3 = 4%nat /\ MDCPDPDefs.md_wfb i = true /\ MDCPDPDefs.md_solvableb i = true /\
  adm (E:=E) i acts = true /\ done E i (run (E:=E) i acts) = true /\ done E i (run (E:=E) i (removelast acts)) = false /\
  length acts = (even_num_loc 3 + 2 * 2 - 1)%nat.
Proof. vm_compute. repeat split. Qed.

(* ================================================================== SDVRP (SDVRPEnv uses CVRPGenerator unchanged) *)
Theorem gen_sdvrp_complete :
  forall (num_loc : Z) (override : option Z) (lo hi : Z) (us : list Q) (D : list (list Z)),
    1 <= lo <= hi - 1 ->
    (forall u, In u us -> (inject_Z (lo - 1) <= u)%Q /\ (u < inject_Z (hi - 1))%Q) ->
    hi - 1 <= cvrp_capacity override num_loc ->
    let capz := cvrp_capacity override num_loc in
    let i := gen_cvrp capz us D in
    forall acts : list nat, adm (E:=SDVRP.SDVRP exact) i acts = true ->
      anyb (mask (SDVRP.SDVRP exact) i (run (E:=SDVRP.SDVRP exact) i acts)) = true /\
      (forall a, offered (E:=SDVRP.SDVRP exact) i (run (E:=SDVRP.SDVRP exact) i acts) a = true ->
                 stepok (SDVRP.SDVRP exact) i (run (E:=SDVRP.SDVRP exact) i acts) a = true) /\
      ((forall p q, acts = p ++ q -> q <> [] -> done (SDVRP.SDVRP exact) i (run (E:=SDVRP.SDVRP exact) i p) = false) ->
       (length acts <= Nat.max 1 (2 * (length us + Z.to_nat ((sumZ (map demand_int us) + capz - 1) / capz)) - 3))%nat) /\
      (forall a, adm (E:=SDVRP.SDVRP exact) i (acts ++ [a]) = true ->
                 done (SDVRP.SDVRP exact) i (run (E:=SDVRP.SDVRP exact) i acts) = true ->
                 done (SDVRP.SDVRP exact) i (run (E:=SDVRP.SDVRP exact) i (acts ++ [a])) = true).
Proof.
  intros n ovr lo hi us D Hlo Hus Hcap capz i acts Hadm.
  destruct (gen_sdvrp_wf n ovr lo hi us D Hlo Hus Hcap) as (Hwfb & Hsol & _). fold capz in Hwfb, Hsol. fold i in Hwfb, Hsol.
  apply CVRPProofs.cvrp_wfb_ok in Hwfb. apply SDVRPProofs.sd_solvableb_ok in Hsol.
  split; [apply SDVRPProofs.sdvrp_no_dead_end|]. split; [|split].
  - intros a Ho. apply SDVRPProofs.sdvrp_step_ok. exact Ho.
  - intros Hnd. pose proof (SDVRPProofs.sdvrp_bound i acts Hwfb Hsol Hadm Hnd) as H.
    assert (En : CVRP.n_of i = length us) by (unfold CVRP.n_of, i, gen_cvrp; cbn [CVRP.dem]; apply map_length).
    unfold SDVRPProofs.sd_bound, SDVRPProofs.ceil_div in H. rewrite En in H. exact H.
  - intros a Ha Hd. apply SDVRPProofs.sdvrp_done_stable; assumption.
Qed.

Example gen_sdvrp_complete_ex :
  let i := gen_cvrp (cvrp_capacity (Some 12) 2) [(8 # 1); (17 # 2)]%Q [] in
  CVRP.dem i = [9; 9] /\ CVRP.cap i = 12 /\
  adm (E:=SDVRP.SDVRP exact) i [1; 2; 0; 2]%nat = true /\
  done (SDVRP.SDVRP exact) i (run (E:=SDVRP.SDVRP exact) i [1; 2; 0; 2]%nat) = true /\
  done (SDVRP.SDVRP exact) i (run (E:=SDVRP.SDVRP exact) i [1; 2; 0]%nat) = false.
Proof. vm_compute. repeat split. Qed.

(* SPCTSP = the same model with the stochastic prize vector in use *)
Corollary gen_spctsp_complete :
  forall (S : Z) (num_loc : Z) (maxpen : Q) (draws : list (Q * Q * Q)) (D : list (list Z)) (thr : Z),
    0 < S -> 1 <= num_loc -> (0 <= maxpen)%Q -> draws <> [] ->
    (forall rp rd rs, In (rp, rd, rs) draws ->
       (0 <= rp)%Q /\ (rp < 1)%Q /\ (0 <= rd)%Q /\ (rd < 1)%Q /\ (0 <= rs)%Q /\ (rs < 1)%Q) ->
    let i := gen_pctsp S true num_loc maxpen draws D thr in
    forall acts : list nat, adm (E:=PCTSP.PCTSP exact) i acts = true ->
      anyb (mask (PCTSP.PCTSP exact) i (run (E:=PCTSP.PCTSP exact) i acts)) = true /\
      (forall a, offered (E:=PCTSP.PCTSP exact) i (run (E:=PCTSP.PCTSP exact) i acts) a = true ->
                 stepok (PCTSP.PCTSP exact) i (run (E:=PCTSP.PCTSP exact) i acts) a = true) /\
      ((forall p q, acts = p ++ q -> q <> [] -> done (PCTSP.PCTSP exact) i (run (E:=PCTSP.PCTSP exact) i p) = false) ->
       (length acts <= length draws + 1)%nat) /\
      (forall a, adm (E:=PCTSP.PCTSP exact) i (acts ++ [a]) = true ->
                 done (PCTSP.PCTSP exact) i (run (E:=PCTSP.PCTSP exact) i acts) = true ->
                 done (PCTSP.PCTSP exact) i (run (E:=PCTSP.PCTSP exact) i (acts ++ [a])) = true).
Proof. intros S. exact (gen_pctsp_complete S true). Qed.
