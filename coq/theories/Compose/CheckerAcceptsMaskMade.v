(* Composition C01 x C06: every complete episode made through the mask is accepted by the (model of the) shipped
   solution checker -- for the routing environments whose units state mask soundness (C01) and checker completeness
   (C06) but not this corollary: CVRP, CVRPTW, TSP, ATSP, PDP, MTVRP.  (OP, PCTSP, SPCTSP, SDVRP, SVRP already have
   [<env>_checker_accepts_mask_made] in their own Env/*Proofs.v.)

   Each corollary is [<env>_mask_sound] followed by [<env>_checker_complete], under exactly the union of the two
   theorems' hypotheses; where checker completeness also wants "the action list is long enough" this follows from
   feasibility (every customer occurs) and is discharged here ([all_once_length]).

   Where the shipped checker REJECTS mask-made complete episodes the witnesses are restated here in the mask-made form:
   - CVRPTW as coded ([fx = false]): the depot deadline of batch row 0 is used for every row
     ([cvrptw_checker_rejects_mask_made_row0_refuted]; mechanism already recorded by the C06 unit as
     cvrptw_checker_row0_horizon_refuted, there for a feasible -- not necessarily mask-made -- solution);
   - CVRPTW, both checkers: an instance inside the env's format with an empty-interior window (lo = hi) fails the
     checker's own assert lo < hi ([cvrptw_checker_rejects_mask_made_nonstrict_refuted]: why [cvrptw_strict] is a
     hypothesis; the generator draws lo < hi);
   - MTVRP, open routes: the checker tests the depot deadline on a way back that open routes do not drive
     ([mtvrp_checker_rejects_mask_made_open_refuted] = the C06 unit's mtvrp_checker_open_depot_deadline_refuted).

   Env.MTVRP is only Required (its n_of / cap / dist / lo / hi ... clash with CVRP / CVRPTW): its names are written
   MTVRP.x / MTVRPProofs.x. *)
From Coq Require Import ZArith List Bool Lia ZifyBool Arith.
From RL4CO Require Import Base.Num Base.EnvSig Spec.Routes Spec.Tours Spec.TimeWindows Env.TourCore.
From RL4CO Require Import Env.TSP Env.TSPProofs Env.ATSP Env.ATSPProofs Env.PDP Env.PDPProofs.
From RL4CO Require Import Env.CVRP Env.CVRPProofs Env.CVRPTW Env.CVRPTWProofs.
From RL4CO Require Spec.VRPFeatures Env.MTVRP Env.MTVRPProofs.
Import ListNotations.
Open Scope Z_scope.

(* every customer 1..n occurs, so the action list has at least n entries *)
Lemma all_once_length (n : nat) (acts : list nat) :
  (forall j, (1 <= j <= n)%nat -> occ j acts = 1%nat) -> (n <= length acts)%nat.
Proof.
  intros Hocc.
  assert (Hincl : incl (seq 1 n) acts) by (intros x Hx; apply in_seq in Hx; apply occ_In; rewrite Hocc; lia).
  pose proof (NoDup_incl_length (seq_NoDup n 1) Hincl) as H. rewrite seq_length in H. exact H.
Qed.

(* ================================================================ CVRP: cvrp_mask_sound x cvrp_checker_complete *)
Corollary cvrp_checker_accepts_mask_made (i : cvrp_inst) (acts : list nat) :
  cvrp_wf i -> 0 <= tol i ->
  adm (E:=CVRP exact) i acts = true -> done (CVRP exact) i (run (E:=CVRP exact) i acts) = true ->
  cvrp_checker exact i acts = true.
Proof.
  intros Hwf Htol Ha Hd. pose proof (cvrp_mask_sound i acts Hwf Ha Hd) as Hf.
  apply cvrp_checker_complete; [exact Hwf|exact Htol|exact Hf|]. destruct Hf as (Hocc & _). apply all_once_length. exact Hocc.
Qed.

(* ================================================================ CVRPTW: cvrptw_mask_sound x cvrptw_checker_complete *)
(* [fx = false] the checker as coded, [fx = true] the repaired one; [horizon_used fx i] = the depot deadline the checker
   reads (as coded: the one of batch row 0, [hz0 i]) *)
Corollary cvrptw_checker_accepts_mask_made (fx : bool) (i : cvrptw_inst) (acts : list nat) :
  cvrptw_wf i -> cvrptw_strict i -> cvrptw_return i -> horizon_used fx i = hi i 0 -> 0 <= tol (base i) ->
  adm (E:=CVRPTW exact) i acts = true -> done (CVRPTW exact) i (run (E:=CVRPTW exact) i acts) = true ->
  cvrptw_checker exact fx i acts = true.
Proof.
  intros Hwf Hst Hret Hhz Htol Ha Hd. pose proof (cvrptw_mask_sound i acts Hwf Hret Ha Hd) as Hf.
  apply cvrptw_checker_complete; try assumption.
  destruct Hf as ((Hocc & _) & _). unfold tn_of. apply all_once_length. exact Hocc.
Qed.

(* the repaired checker needs no hypothesis on the horizon ... *)
Corollary cvrptw_fixed_checker_accepts_mask_made (i : cvrptw_inst) (acts : list nat) :
  cvrptw_wf i -> cvrptw_strict i -> cvrptw_return i -> 0 <= tol (base i) ->
  adm (E:=CVRPTW exact) i acts = true -> done (CVRPTW exact) i (run (E:=CVRPTW exact) i acts) = true ->
  cvrptw_checker exact true i acts = true.
Proof. intros Hwf Hst Hret Htol. apply cvrptw_checker_accepts_mask_made; auto. Qed.

(* ... the checker as coded accepts when batch row 0 happens to have the row's own depot deadline ... *)
Corollary cvrptw_coded_checker_accepts_mask_made (i : cvrptw_inst) (acts : list nat) :
  cvrptw_wf i -> cvrptw_strict i -> cvrptw_return i -> hz0 i = hi i 0 -> 0 <= tol (base i) ->
  adm (E:=CVRPTW exact) i acts = true -> done (CVRPTW exact) i (run (E:=CVRPTW exact) i acts) = true ->
  cvrptw_checker exact false i acts = true.
Proof. intros Hwf Hst Hret Hhz Htol. apply cvrptw_checker_accepts_mask_made; auto. Qed.

(* ... and REJECTS a complete mask-made episode otherwise (row 0 closes at 7000, this row at 20000; the repaired
   checker accepts) *)
Theorem cvrptw_checker_rejects_mask_made_row0_refuted :
  exists (i : cvrptw_inst) (acts : list nat),
    cvrptw_wfb i = true /\ cvrptw_strictb i = true /\ cvrptw_returnb i = true /\ 0 <= tol (base i) /\ hz0 i <> hi i 0 /\
    adm (E:=CVRPTW exact) i acts = true /\ done (CVRPTW exact) i (run (E:=CVRPTW exact) i acts) = true /\
    cvrptw_checker exact false i acts = false /\ cvrptw_checker exact true i acts = true.
Proof. exists witness_row0, [1; 0]%nat. vm_compute. repeat split; try reflexivity; intros H; discriminate H. Qed.

(* strict windows are needed: the env's format allows lo = hi, the mask serves such a customer exactly on time, and
   both checkers fail their own assert lo < hi *)
Definition witness_point_window : cvrptw_inst :=
  {| base := {| dem := [3]; cap := 8; dist := [[0; 3]; [3; 0]]; tol := 0 |};
     twlo := [0; 3]; twhi := [14; 3]; durs := [0; 1]; tu := 1; hz0 := 14; tsl := 0 |}.
Theorem cvrptw_checker_rejects_mask_made_nonstrict_refuted :
  exists (i : cvrptw_inst) (acts : list nat),
    cvrptw_wfb i = true /\ cvrptw_strictb i = false /\ cvrptw_returnb i = true /\ 0 <= tol (base i) /\ hz0 i = hi i 0 /\
    adm (E:=CVRPTW exact) i acts = true /\ done (CVRPTW exact) i (run (E:=CVRPTW exact) i acts) = true /\
    cvrptw_feasibleb i 0 0 acts = true /\
    cvrptw_checker exact false i acts = false /\ cvrptw_checker exact true i acts = false.
Proof. exists witness_point_window, [1; 0]%nat. vm_compute. repeat split; try reflexivity; intros H; discriminate H. Qed.

(* ================================================================ TSP / ATSP: direct *)
Corollary tsp_checker_accepts_mask_made (i : tsp_inst) (acts : list nat) :
  tsp_wf i -> adm (E:=TSP) i acts = true -> done TSP i (run (E:=TSP) i acts) = true -> tsp_checker i acts = true.
Proof. intros Hwf Ha Hd. apply tsp_checker_complete. exact (tsp_mask_sound i acts Hwf Ha Hd). Qed.

Corollary atsp_checker_accepts_mask_made (i : atsp_inst) (acts : list nat) :
  atsp_wf i -> adm (E:=ATSP) i acts = true -> done ATSP i (run (E:=ATSP) i acts) = true -> atsp_checker i acts = true.
Proof. intros Hwf Ha Hd. apply (atsp_checker_complete i acts Hwf). exact (atsp_mask_sound i acts Hwf Ha Hd). Qed.

(* ================================================================ PDP: both values of force_start_at_depot *)
(* the mask makes depot-first routes; the checker accepts the depot first or last *)
Corollary pdp_checker_accepts_mask_made (i : pdp_inst) (acts : list nat) :
  pdp_wf i -> adm (E:=PDP) i acts = true -> done PDP i (run (E:=PDP) i acts) = true -> pdp_checker i acts = true.
Proof. intros Hwf Ha Hd. apply (pdp_checker_complete i acts Hwf). exact (proj1 (pdp_mask_sound i acts Hwf Ha Hd)). Qed.

(* ================================================================ MTVRP: mtvrp_mask_sound x mtvrp_checker_complete *)
(* for the mask as it is (R = true) and the former strict one (R = false); [data_ok] = the checker's own asserts on
   the instance; for open routes the instance must leave time to drive home after any admissible service *)
Corollary mtvrp_checker_accepts_mask_made (R : bool) (i : MTVRP.mtvrp_inst) (acts : list nat) :
  MTVRPProofs.mtvrp_wfb i = true -> MTVRP.data_ok exact i = true ->
  (MTVRP.opn i = false \/
   forall x, (1 <= x <= MTVRP.n_of i)%nat -> MTVRP.hi i x + MTVRP.sv i x + MTVRP.tfun i x 0%nat <= MTVRP.hi i 0%nat) ->
  adm (E:=MTVRP.MTVRP exact R) i acts = true ->
  done (MTVRP.MTVRP exact R) i (run (E:=MTVRP.MTVRP exact R) i acts) = true ->
  MTVRP.mtvrp_checker exact i acts = true.
Proof.
  intros Hwf Hdata Hopen Ha Hd. pose proof (MTVRPProofs.mtvrp_mask_sound R i acts Hwf Ha Hd) as Hf.
  apply MTVRPProofs.mtvrp_checker_complete; [exact Hwf|exact Hdata|exact Hopen|exact Hf|].
  destruct Hf as (Hocc & _). apply all_once_length. exact Hocc.
Qed.

(* without the open-route condition the composition is FALSE (the C06 unit's witness: open routes, one customer at
   travel time 80 with window [0, 115], depot closing at 128; the checker clocks the way back, 160 > 128) *)
Theorem mtvrp_checker_rejects_mask_made_open_refuted :
  exists (i : MTVRP.mtvrp_inst) (acts : list nat),
    MTVRPProofs.mtvrp_wfb i = true /\ MTVRP.data_ok exact i = true /\ MTVRP.opn i = true /\
    adm (E:=MTVRP.MTVRP exact true) i acts = true /\
    done (MTVRP.MTVRP exact true) i (run (E:=MTVRP.MTVRP exact true) i acts) = true /\
    MTVRPProofs.mtvrp_feasibleb i 0 acts = true /\ MTVRP.mtvrp_checker exact i acts = false.
Proof. exists MTVRPProofs.open_inst, [1; 0]%nat. vm_compute. repeat split. Qed.

(* [data_ok] is needed as well: it is not implied by the env's format.  Closed routes, a depot "service time" of 60 with
   the depot closing at 50 (the generators emit depot service time 0): the mask never charges the depot's service time,
   the episode is feasible by the problem definition, the checker's instance-level assert fails *)
Definition witness_depot_service : MTVRP.mtvrp_inst :=
  {| MTVRP.dl := [0; 32]; MTVRP.db := [0; 0]; MTVRP.cap := 64; MTVRP.lim := 1000; MTVRP.opn := false;
     MTVRP.tlo := [0; 0]; MTVRP.thi := [50; 40]; MTVRP.svc := [60; 0];
     MTVRP.dist := [[0; 5]; [5; 0]]; MTVRP.tt := [[0; 5]; [5; 0]] |}.
Theorem mtvrp_checker_rejects_mask_made_data_assert_refuted :
  exists (i : MTVRP.mtvrp_inst) (acts : list nat),
    MTVRPProofs.mtvrp_wfb i = true /\ MTVRP.data_ok exact i = false /\ MTVRP.opn i = false /\
    adm (E:=MTVRP.MTVRP exact true) i acts = true /\
    done (MTVRP.MTVRP exact true) i (run (E:=MTVRP.MTVRP exact true) i acts) = true /\
    MTVRPProofs.mtvrp_feasibleb i 0 acts = true /\ MTVRP.mtvrp_checker exact i acts = false.
Proof. exists witness_depot_service, [1; 0]%nat. vm_compute. repeat split. Qed.
