(* Composition C14 / C11 x (C04, C02, C10) at the REAL CVRP environment model.

   The theorems of Decoding/Rowwise.v (C14: policy_rowwise, policy_batch_independent) and Decoding/DecodeLoop.v
   (C11: ll_is_sum_plain, probs_single_feasible) are stated for an ABSTRACT environment, an abstract per-row choice
   function and abstract padding hypotheses.  Here they are instantiated with

     environment      CVRP exact                        (Env/CVRP.v, the model tied to rl4co's CVRPEnv by C01-C06)
     choice function  greedy over process_logits        (Decoding/ProcessLogits.v, the model tied to rl4co by C10)
                      at the executable instance (logits Z, probabilities Qc, weights 2^z)
     log-likelihood   product of the per-step probabilities in Qc  (log domain (Qc, 1, *, id) of Decoding/DecodeLoopInst.v)
     reward           cvrp_reward                       (Env/CVRPProofs.v, C03)

   and every padding hypothesis is DISCHARGED from the environment theorems (C04 padding inert, C02 finished stays
   finished) and the process_logits theorems (C10 normalised + zero on masked actions => a single offered action has
   probability one).  What is left are the hypotheses about the neural network only.

   Part A  [Section Sim]       generic: a batched loop over an environment E1 that simulates E2 (instances and states
                               mapped by fi / fs, same masks and done flags) IS the batched loop over E2.
   Part B                      CVRP facts that hold in EVERY state reached from reset by ANY action list (admitted or
                               not): the visited vector keeps its length, a finished state offers the depot only,
                               stepping a finished state keeps it finished, one more depot visit keeps the reward.
   Part C                      greedy over process_logits on a mask that offers one action: that action, probability 1.
   Part D  [Section OnCVRP]    C14 on CVRP.  policy_rowwise quantifies its padding hypotheses over ALL rows (inst * st),
                               junk states included, where they are FALSE for CVRP (witness: [junk_state_refutes_pad]
                               below).  They hold on the rows reached from reset, so policy_rowwise is instantiated at
                               CVRPh := restrict (hist (CVRP exact)) (dfun i 0 0 = 0)   (Compose/EnvRestrict.v: state =
                               action history, instances = those with a zero depot-depot distance) and the result is
                               TRANSPORTED BACK by Part A: the final theorems speak about [bpolicy (CVRP exact) ...] on
                               plain lists of cvrp_inst.
   Part E                      C11 on CVRP: ll_is_sum at (QcF, Z, 2^z, CVRP exact), decoder = (network logits, the
                               environment's own mask); padding steps of finished rows have probability one and the
                               depot is what greedy takes (C11 probs_single_feasible x C04 cvrp_padding_inert); the
                               log-likelihood of a padded action list is that of the unpadded one.
   Part F                      non-vacuity: forward (Greedy / Sampling) and bpolicy on two concrete CVRP instances whose
                               routes have different lengths, by vm_compute.
   Part G                      C11 ll_is_sum at the TSP model (pure instantiation). *)
From Coq Require Import ZArith QArith Qcanon List Bool Lia Arith.
From RL4CO Require Import Base.Num Base.OField Base.OFieldExtra Base.OFieldQc Base.EnvSig Spec.Routes
                          Decoding.ProcessLogits Decoding.PLInst Decoding.DecodeLoop Decoding.DecodeLoopInst
                          Decoding.Rowwise Compose.EnvRestrict Env.CVRP Env.CVRPProofs.
Import ListNotations.
Local Open Scope nat_scope.

(* ================================================================================================ Part A *)
Section Sim.
  Variables E1 E2 : Env.
  Variable fi : inst E1 -> inst E2.
  Variable fs : inst E1 -> st E1 -> st E2.
  Hypothesis sim_reset : forall i, fs i (reset E1 i) = reset E2 (fi i).
  Hypothesis sim_step : forall i s a, fs i (step E1 i s a) = step E2 (fi i) (fs i s) a.
  Hypothesis sim_mask : forall i s, mask E1 i s = mask E2 (fi i) (fs i s).
  Hypothesis sim_done : forall i s, done E1 i s = done E2 (fi i) (fs i s).
  Variables hidden logit L : Type.
  Variable choose : logit -> list bool -> nat * L.
  Variable benc2 : list (inst E2) -> list hidden.
  Variable enc2 : inst E2 -> hidden.
  Variable bdec2 : list hidden -> list (row E2) -> list logit.
  Variable dec2 : hidden -> row E2 -> logit.

  (* a row of E1 seen as a row of E2; the network of E2 read on the rows of E1 *)
  Definition prow (rw : row E1) : row E2 := (fi (fst rw), fs (fst rw) (snd rw)).
  Definition benc1 (is_ : list (inst E1)) : list hidden := benc2 (map fi is_).
  Definition enc1 (i : inst E1) : hidden := enc2 (fi i).
  Definition bdec1 (hs : list hidden) (rows : list (row E1)) : list logit := bdec2 hs (map prow rows).
  Definition dec1 (h : hidden) (rw : row E1) : logit := dec2 h (prow rw).

  Lemma prow_rreset i : prow (rreset E1 i) = rreset E2 (fi i).
  Proof. unfold prow, rreset. cbn [fst snd]. rewrite sim_reset. reflexivity. Qed.
  Lemma prow_rstep rw a : prow (rstep E1 rw a) = rstep E2 (prow rw) a.
  Proof. unfold prow, rstep. cbn [fst snd]. rewrite sim_step. reflexivity. Qed.
  Lemma rmask_sim rw : rmask E1 rw = rmask E2 (prow rw).
  Proof. unfold rmask, prow. cbn [fst snd]. apply sim_mask. Qed.
  Lemma rdone_sim rw : rdone E1 rw = rdone E2 (prow rw).
  Proof. unfold rdone, prow. cbn [fst snd]. apply sim_done. Qed.
  Lemma all_done_sim rows : all_done E1 rows = all_done E2 (map prow rows).
  Proof.
    unfold all_done. induction rows as [|rw rows IH]; cbn [map forallb]; [reflexivity|].
    rewrite rdone_sim, IH. reflexivity.
  Qed.
  Lemma map_prow_rstep rows acts :
    map prow (Rowwise.map2 (rstep E1) rows acts) = Rowwise.map2 (rstep E2) (map prow rows) acts.
  Proof.
    revert acts; induction rows as [|rw rows IH]; intros [|a acts]; cbn [Rowwise.map2 map]; try reflexivity.
    rewrite prow_rstep, IH. reflexivity.
  Qed.
  Lemma bpick_sim hs rows :
    bpick E1 hidden logit L bdec1 choose hs rows = bpick E2 hidden logit L bdec2 choose hs (map prow rows).
  Proof.
    unfold bpick, bdec1. generalize (bdec2 hs (map prow rows)). intros lgs. revert rows.
    induction lgs as [|lg lgs IH]; intros [|rw rows]; cbn [Rowwise.map2 map]; try reflexivity.
    rewrite rmask_sim, IH. reflexivity.
  Qed.

  (* the batched loop over E1 is the batched loop over E2 on the projected rows: same per-step (action, logprob)
     lists, final rows projected *)
  Lemma bloop_sim fuel hs rows :
    bloop E2 hidden logit L bdec2 choose fuel hs (map prow rows)
    = (fst (bloop E1 hidden logit L bdec1 choose fuel hs rows),
       map prow (snd (bloop E1 hidden logit L bdec1 choose fuel hs rows))).
  Proof.
    revert rows. induction fuel as [|f IH]; intros rows; cbn [bloop]; [reflexivity|].
    rewrite <- all_done_sim. destruct (all_done E1 rows); [reflexivity|].
    rewrite <- bpick_sim, <- map_prow_rstep, IH.
    destruct (bloop E1 hidden logit L bdec1 choose f hs
                (Rowwise.map2 (rstep E1) rows (map fst (bpick E1 hidden logit L bdec1 choose hs rows)))) as [tr fin].
    reflexivity.
  Qed.

  Lemma bpolicy_sim fuel is1 :
    bpolicy E2 benc2 bdec2 choose fuel (map fi is1)
    = (fst (bpolicy E1 benc1 bdec1 choose fuel is1), map prow (snd (bpolicy E1 benc1 bdec1 choose fuel is1))).
  Proof.
    unfold bpolicy, benc1. rewrite <- bloop_sim. f_equal. rewrite !map_map. apply map_ext.
    intros i. symmetry. apply prow_rreset.
  Qed.

  (* ... and so is the solo reference *)
  Lemma pick_sim h rw : pick E1 dec1 choose h rw = pick E2 dec2 choose h (prow rw).
  Proof. unfold pick, dec1. rewrite rmask_sim. reflexivity. Qed.
  Lemma straj_sim n h rw :
    straj E1 hidden logit L dec1 choose n h rw = straj E2 hidden logit L dec2 choose n h (prow rw).
  Proof.
    revert rw; induction n as [|n IH]; intros rw; cbn [straj]; [reflexivity|].
    rewrite IH, prow_rstep, pick_sim. reflexivity.
  Qed.
  Lemma slen_sim fuel h rw :
    slen E1 hidden logit L dec1 choose fuel h rw = slen E2 hidden logit L dec2 choose fuel h (prow rw).
  Proof.
    revert rw; induction fuel as [|f IH]; intros rw; cbn [slen]; [reflexivity|].
    rewrite <- rdone_sim. destruct (rdone E1 rw); [reflexivity|]. rewrite IH, prow_rstep, pick_sim. reflexivity.
  Qed.
  Lemma solo_sim fuel i : solo E1 enc1 dec1 choose fuel i = solo E2 enc2 dec2 choose fuel (fi i).
  Proof. unfold solo, enc1. rewrite straj_sim, slen_sim, prow_rreset. reflexivity. Qed.

  Lemma run_from_sim i s acts : fs i (run_from i s acts) = run_from (fi i) (fs i s) acts.
  Proof. revert s; induction acts as [|a r IH]; intros s; cbn [run_from]; [reflexivity|]. rewrite IH, sim_step. reflexivity. Qed.
  Lemma run_sim i acts : fs i (run i acts) = run (fi i) acts.
  Proof. unfold run. rewrite run_from_sim, sim_reset. reflexivity. Qed.
End Sim.

(* ------------------------------------------------------------------------------------------------
   policy_rowwise, with the shape of the padding exposed: if the action chosen in a finished row is always [a0]
   (the depot, in the routing environments), the batched actions are the solo actions followed by a0's. *)
Section PadShape.
  Variable E0 : Env.
  Variables hidden logit L : Type.
  Variable lzero : L.
  Variable benc : list (inst E0) -> list hidden.
  Variable enc : inst E0 -> hidden.
  Variable bdec : list hidden -> list (row E0) -> list logit.
  Variable dec : hidden -> row E0 -> logit.
  Variable choose : logit -> list bool -> nat * L.
  Variable BInv : list (row E0) -> Prop.
  Variable a0 : nat.
  Hypothesis enc_rowwise : forall is_, benc is_ = map enc is_.
  Hypothesis dec_rowwise : forall hs rows, BInv rows -> length hs = length rows -> bdec hs rows = Rowwise.map2 dec hs rows.
  Hypothesis BInv_reset : forall is_, BInv (map (rreset E0) is_).
  Hypothesis BInv_step : forall rows acts, BInv rows -> length acts = length rows -> BInv (Rowwise.map2 (rstep E0) rows acts).
  Hypothesis pad_done : forall h rw, rdone E0 rw = true -> rdone E0 (rstep E0 rw (fst (pick E0 dec choose h rw))) = true.
  Hypothesis pad_act : forall h rw, rdone E0 rw = true -> fst (pick E0 dec choose h rw) = a0.

  Lemma pads_are_a0 n h rw :
    rdone E0 rw = true -> map fst (straj E0 hidden logit L dec choose n h rw) = repeat a0 n.
  Proof.
    revert rw; induction n as [|n IH]; intros rw Hd; cbn [straj map repeat]; [reflexivity|].
    rewrite IH by (apply pad_done; exact Hd). rewrite (pad_act h rw Hd). reflexivity.
  Qed.

  Theorem policy_rowwise_pad (fuel : nat) (is_ : list (inst E0)) (r : nat) (i : inst E0) tr fin :
    nth_error is_ r = Some i ->
    bpolicy E0 benc bdec choose fuel is_ = (tr, fin) -> all_done E0 fin = true ->
    exists m, traj_actions (row_traj lzero r tr) = traj_actions (solo E0 enc dec choose fuel i) ++ repeat a0 m.
  Proof.
    intros Hi Hb Hfin. unfold bpolicy in Hb. rewrite enc_rowwise in Hb.
    assert (Hr : r < length is_) by (apply nth_error_Some; congruence).
    destruct (@bloop_rowwise E0 hidden logit L lzero bdec dec choose BInv dec_rowwise BInv_step
                fuel (map enc is_) (map (rreset E0) is_) tr fin (enc i) (rreset E0 i) (BInv_reset is_)
                ltac:(rewrite !map_length; reflexivity) Hb) as (Hk & Hlf & Hrows).
    destruct (Hrows r ltac:(rewrite map_length; exact Hr)) as [Ht Hf].
    assert (Ei : nth r is_ i = i) by (apply nth_error_nth; exact Hi).
    rewrite (map_nth enc is_ i), (map_nth (rreset E0) is_ i), Ei in Ht, Hf.
    set (k := length tr) in *. set (h := enc i) in *. set (rw := rreset E0 i) in *.
    assert (Hdk : rdone E0 (srun E0 hidden logit L dec choose k h rw) = true).
    { rewrite <- Hf. unfold all_done in Hfin. rewrite forallb_forall in Hfin. apply Hfin. apply nth_In.
      rewrite Hlf, map_length. exact Hr. }
    set (t := slen E0 hidden logit L dec choose fuel h rw).
    assert (Htk : t <= k) by (apply slen_le; assumption).
    assert (Hdt : rdone E0 (srun E0 hidden logit L dec choose t h rw) = true)
      by (apply (slen_done E0 hidden logit L dec choose fuel h rw k); assumption).
    exists (k - t). unfold solo. fold h rw t.
    replace k with (t + (k - t)) in Ht by lia. rewrite straj_split in Ht.
    rewrite Ht. unfold traj_actions. rewrite map_app. f_equal. apply pads_are_a0. exact Hdt.
  Qed.
End PadShape.

(* ================================================================================================ Part B *)
Local Notation C := (CVRP exact).

Lemma cvrp_run_from_vis_len i s acts : length (vis (run_from (E:=C) i s acts)) = length (vis s).
Proof.
  revert s; induction acts as [|a r IH]; intros s; cbn [run_from]; [reflexivity|].
  rewrite IH. cbn [step CVRP cvrp_step vis]. apply set_nth_length.
Qed.
(* whatever the actions were (offered or not): the visited vector has one entry per node *)
Lemma cvrp_run_vis_len i acts : length (vis (run (E:=C) i acts)) = S (n_of i).
Proof. unfold run. rewrite cvrp_run_from_vis_len. cbn [reset CVRP cvrp_reset vis]. apply repeat_length. Qed.

(* a finished state with a visited vector of the right length offers the depot and nothing else *)
Lemma cvrp_done_mask i s :
  length (vis s) = S (n_of i) -> cvrp_done i s = true -> cvrp_mask exact i s = true :: repeat false (n_of i).
Proof.
  intros Hl Hds. unfold cvrp_mask.
  assert (Hall : forall j, In j (locs i) -> mask_loc exact i s j = true).
  { intros j Hj. apply in_seq in Hj. unfold mask_loc. unfold cvrp_done in Hds. rewrite (allb_nth _ j Hds) by lia. reflexivity. }
  f_equal.
  - unfold mask_depot.
    replace (existsb (fun j => negb (mask_loc exact i s j)) (locs i)) with false; [rewrite andb_false_r; reflexivity|].
    symmetry. apply not_true_iff_false. intros H. apply existsb_exists in H as (j & Hj & Hm).
    rewrite Hall in Hm by exact Hj. discriminate.
  - unfold locs in *. clear -Hall. revert Hall. generalize 1%nat. induction (n_of i) as [|n IH]; intros st Hall; [reflexivity|].
    cbn [seq map repeat]. rewrite Hall by (left; reflexivity). cbn [negb]. f_equal. apply IH. intros j Hj. apply Hall. right. exact Hj.
Qed.

(* any step from a finished state leaves it finished (set_nth only ever writes true) *)
Lemma cvrp_done_step i s a : cvrp_done i s = true -> cvrp_done i (cvrp_step exact i s a) = true.
Proof.
  unfold cvrp_done. cbn [cvrp_step vis]. intros Hd. apply allb_forall. intros j Hj. rewrite set_nth_length in Hj.
  rewrite nth_set_nth. destruct (Nat.eqb j a && Nat.ltb a (length (vis s)))%bool; [reflexivity|].
  apply allb_nth; assumption.
Qed.

Lemma cvrp_reward_pad i acts k : dfun i 0 0 = 0%Z -> cvrp_reward i (acts ++ repeat 0 k) = cvrp_reward i acts.
Proof. intros H00. unfold cvrp_reward, cyclic_len. rewrite walk_len_pad by exact H00. reflexivity. Qed.
Lemma cvrp_reward_pad0 i acts : dfun i 0 0 = 0%Z -> cvrp_reward i (acts ++ [0]) = cvrp_reward i acts.
Proof. apply (cvrp_reward_pad i acts 1). Qed.

(* every mask has one entry per node and offers something (the depot is masked only when a customer is offered) *)
Lemma cvrp_mask_length i s : length (cvrp_mask exact i s) = S (n_of i).
Proof. unfold cvrp_mask, locs. cbn [length]. rewrite map_length, seq_length. reflexivity. Qed.
Lemma cvrp_mask_offers i s : exists a, a < length (cvrp_mask exact i s) /\ nth a (cvrp_mask exact i s) false = true.
Proof.
  assert (H : anyb (cvrp_mask exact i s) = true).
  { unfold cvrp_mask, anyb. cbn [existsb]. destruct (mask_depot exact i s) eqn:Ed; [|reflexivity]. cbn [negb orb].
    unfold mask_depot in Ed. apply andb_prop in Ed as [_ Hex].
    apply existsb_exists in Hex as (j & Hj & Hjm). apply existsb_exists.
    exists true. split; [|reflexivity]. apply in_map_iff. exists j. split; [exact Hjm | exact Hj]. }
  apply anyb_exists in H. exact H.
Qed.

(* ================================================================================================ Part C *)
(* DecodingStrategy.step for one row, greedy: process_logits (C10 model, executable instance), argmax, and the
   probability gathered at the chosen action (the exp of the gathered log-probability) *)
Definition greedy_choose (clip tmp : Z -> Z) (top_p : Qc) (top_k : nat) (lg : list Z) (msk : list bool) : nat * Qc :=
  let pr := process_logits QcF Z Z.leb pow2 clip tmp msk top_p top_k lg in
  (greedy QcF pr, nth (greedy QcF pr) pr 0%Qc).

(* the action greedy takes is offered, whenever the mask offers anything and there is one logit per mask entry
   (C10 greedy_feasible) *)
Lemma greedy_choose_offered clip tmp top_p top_k lg msk :
  length msk = length lg -> (exists a, a < length msk /\ nth a msk false = true) ->
  nth (fst (greedy_choose clip tmp top_p top_k lg msk)) msk false = true.
Proof.
  intros Hl Hex. assert (Hwf : pl_wf Z msk lg) by (split; assumption).
  destruct (greedy_feasible QcF Z Z.leb pow2 pow2_pos pow2_mono clip tmp msk top_p top_k lg Hwf) as (_ & Hg & _).
  exact Hg.
Qed.

(* a mask that offers action 0 only: greedy takes it and its probability is one, whatever the logits, clipping,
   temperature, top-p and top-k are (C10 pl_normalised + pl_support_masked) *)
Lemma greedy_choose_single clip tmp top_p top_k lg n :
  length lg = S n -> greedy_choose clip tmp top_p top_k lg (true :: repeat false n) = (0, 1%Qc).
Proof.
  intros Hlg. set (msk := true :: repeat false n).
  assert (Hl : length msk = length lg) by (unfold msk; cbn [length]; rewrite repeat_length; lia).
  assert (Hwf : pl_wf Z msk lg) by (split; [exact Hl | exists 0; split; [unfold msk; cbn [length]; lia | reflexivity]]).
  assert (Hoth : forall b, b <> 0 -> nth b msk false = false).
  { intros [|b] Hb; [congruence|]. unfold msk. cbn [nth]. apply nth_repeat. }
  unfold greedy_choose. set (pr := process_logits QcF Z Z.leb pow2 clip tmp msk top_p top_k lg).
  assert (Hg : greedy QcF pr = 0).
  { destruct (greedy_feasible QcF Z Z.leb pow2 pow2_pos pow2_mono clip tmp msk top_p top_k lg Hwf) as (_ & Hg & _).
    fold pr in Hg. destruct (greedy QcF pr) as [|g]; [reflexivity|]. rewrite Hoth in Hg by discriminate. discriminate. }
  rewrite Hg. f_equal.
  change (nth 0 pr (f0 (o:=QcF)) = f1 (o:=QcF)).
  rewrite <- (pl_normalised QcF Z Z.leb pow2 pow2_pos pow2_mono clip tmp msk top_p top_k lg Hwf). fold pr.
  symmetry. apply fsum_single.
  - unfold pr. rewrite pl_length by exact Hl. lia.
  - intros b Hb. apply pl_support_masked; [exact pow2_pos | exact Hl | apply Hoth; exact Hb].
Qed.

(* ================================================================================================ Part D *)
(* instances with a zero depot-depot distance (the hypothesis of C03/C04's reward statements); states = histories *)
Definition cvrp_P (i : cvrp_inst) : bool := (dfun i 0 0 =? 0)%Z.
Definition CVRPh : Env := restrict (hist C) cvrp_P.
Definition cvrp_fs (i : inst CVRPh) (h : st CVRPh) : cvrp_st := run (E:=C) (under i) h.

(* the rows on which the network has to be row-wise: reached from reset (by any action list) *)
Definition cvrp_reach (rw : cvrp_inst * cvrp_st) : Prop :=
  dfun (fst rw) 0 0 = 0%Z /\ exists acts, snd rw = run (E:=C) (fst rw) acts.

Lemma cvrph_reset (i : inst CVRPh) : cvrp_fs i (reset CVRPh i) = reset C (under i).
Proof. reflexivity. Qed.
Lemma cvrph_step (i : inst CVRPh) s a : cvrp_fs i (step CVRPh i s a) = step C (under i) (cvrp_fs i s) a.
Proof. unfold cvrp_fs. cbn [step CVRPh restrict hist]. apply (run_snoc C). Qed.
Lemma cvrph_mask (i : inst CVRPh) s : mask CVRPh i s = mask C (under i) (cvrp_fs i s).
Proof. reflexivity. Qed.
Lemma cvrph_done (i : inst CVRPh) s : done CVRPh i s = done C (under i) (cvrp_fs i s).
Proof. reflexivity. Qed.
Lemma cvrph_run (i : inst CVRPh) acts : run (E:=CVRPh) i acts = acts.
Proof. unfold CVRPh. rewrite restrict_run. apply hist_run. Qed.
Lemma cvrph_P (i : inst CVRPh) : dfun (under i) 0 0 = 0%Z.
Proof. apply Z.eqb_eq. exact (under_ok i). Qed.

Section OnCVRP.
  Variable hidden : Type.
  Variables (clip tmp : Z -> Z) (top_p : Qc) (top_k : nat).
  (* the neural network: encoder and decoder on whole batches, and their per-row readings *)
  Variable benc : list cvrp_inst -> list hidden.
  Variable enc : cvrp_inst -> hidden.
  Variable bnet : list hidden -> list (cvrp_inst * cvrp_st) -> list (list Z).
  Variable net : hidden -> cvrp_inst * cvrp_st -> list Z.
  Hypothesis enc_rowwise : forall is_, benc is_ = map enc is_.
  Hypothesis net_rowwise : forall hs rows,
    length hs = length rows -> Forall cvrp_reach rows -> bnet hs rows = Rowwise.map2 net hs rows.
  (* one logit per node *)
  Hypothesis net_width : forall h i acts, dfun i 0 0 = 0%Z -> length (net h (i, run (E:=C) i acts)) = S (n_of i).

  Definition gchoose := greedy_choose clip tmp top_p top_k.

  Let prw := prow CVRPh C under cvrp_fs.
  Let benc' := benc1 CVRPh C under hidden benc.
  Let enc' := enc1 CVRPh C under hidden enc.
  Let bdec' := bdec1 CVRPh C under cvrp_fs hidden (list Z) bnet.
  Let dec' := dec1 CVRPh C under cvrp_fs hidden (list Z) net.
  Let reward' (i : inst CVRPh) (acts : list nat) : Z := cvrp_reward (under i) acts.

  Lemma prw_reach rows : Forall cvrp_reach (map prw rows).
  Proof.
    apply Forall_forall. intros rw Hrw. apply in_map_iff in Hrw as ([i h] & <- & _).
    split; [apply cvrph_P | exists h; reflexivity].
  Qed.

  (* in a finished row of CVRPh the choice is (depot, probability one) *)
  Lemma cvrph_pick_done h (rw : row CVRPh) : rdone CVRPh rw = true -> pick CVRPh dec' gchoose h rw = (0, 1%Qc).
  Proof.
    destruct rw as [i hs]. unfold rdone. cbn [fst snd]. rewrite cvrph_done. cbn [done CVRP]. intros Hd.
    unfold pick, rmask, dec', dec1, prow. cbn [fst snd]. rewrite cvrph_mask. cbn [mask CVRP].
    rewrite cvrp_done_mask; [|apply cvrp_run_vis_len | exact Hd].
    apply greedy_choose_single. apply net_width. apply cvrph_P.
  Qed.

  Lemma cvrph_pad_done h (rw : row CVRPh) :
    rdone CVRPh rw = true -> rdone CVRPh (rstep CVRPh rw (fst (pick CVRPh dec' gchoose h rw))) = true.
  Proof.
    intros Hd. destruct rw as [i hs]. unfold rdone, rstep in *. cbn [fst snd] in *.
    rewrite cvrph_done, cvrph_step. rewrite cvrph_done in Hd. cbn [done step CVRP] in *.
    apply cvrp_done_step. exact Hd.
  Qed.

  (* policy_rowwise at CVRPh: all its hypotheses are discharged *)
  Lemma cvrph_policy_rowwise (fuel : nat) (is_ : list (inst CVRPh)) (r : nat) (i : inst CVRPh) tr fin :
    nth_error is_ r = Some i ->
    bpolicy CVRPh benc' bdec' gchoose fuel is_ = (tr, fin) -> all_done CVRPh fin = true ->
    let batched := row_traj 1%Qc r tr in
    let alone := solo CVRPh enc' dec' gchoose fuel i in
    (exists pad,
      traj_actions batched = traj_actions alone ++ pad /\
      rdone CVRPh (i, run i (traj_actions alone)) = true /\
      reward' i (traj_actions batched) = reward' i (traj_actions alone) /\
      traj_ll 1%Qc Qcmult batched = traj_ll 1%Qc Qcmult alone) /\
    (exists m, traj_actions batched = traj_actions alone ++ repeat 0 m).
  Proof.
    intros Hi Hb Hfin.
    assert (Henc : forall js, benc' js = map enc' js).
    { intros js. unfold benc', benc1, enc', enc1. rewrite enc_rowwise, map_map. reflexivity. }
    assert (Hdec : forall hs rows, True -> length hs = length rows -> bdec' hs rows = Rowwise.map2 dec' hs rows).
    { intros hs rows _ Hl. unfold bdec', bdec1, dec', dec1. fold prw.
      rewrite net_rowwise; [apply map2_map_r | rewrite map_length; exact Hl | apply prw_reach]. }
    split.
    - refine (policy_rowwise 1%Qc Qcmult reward' benc' enc' bdec' dec' gchoose (fun _ => True) Henc Hdec
               (fun _ => I) (fun _ _ _ _ => I) cvrph_pad_done _ _ Qcmult_1_r fuel is_ r i tr fin Hi Hb Hfin).
      + intros h rw Hd. rewrite (cvrph_pick_done h rw Hd). reflexivity.
      + intros h j acts Hd. rewrite (cvrph_pick_done h _ Hd). cbn [fst]. unfold reward'.
        apply cvrp_reward_pad0. apply cvrph_P.
    - refine (policy_rowwise_pad CVRPh hidden (list Z) Qc 1%Qc benc' enc' bdec' dec' gchoose (fun _ => True) 0 Henc Hdec
               (fun _ => I) (fun _ _ _ _ => I) cvrph_pad_done _ fuel is_ r i tr fin Hi Hb Hfin).
      intros h rw Hd. rewrite (cvrph_pick_done h rw Hd). reflexivity.
  Qed.

  (* ---------------------------------------------------------------- transported back to the plain CVRP model *)
  (* C14 on CVRP.  Instance i sits at position r of the batch is_ (any size, any batch-mates, all with a zero
     depot-depot distance); the batch was decoded greedily to the end.  Then row r's actions are the actions of i
     decoded ALONE followed by depot visits; reward and log-likelihood (product of step probabilities) are those of i
     decoded alone. *)
  Theorem policy_rowwise_on_cvrp (fuel : nat) (is_ : list cvrp_inst) (r : nat) (i : cvrp_inst) tr fin :
    (forall j, In j is_ -> dfun j 0 0 = 0%Z) ->
    nth_error is_ r = Some i ->
    bpolicy C benc bnet gchoose fuel is_ = (tr, fin) -> all_done C fin = true ->
    let batched := row_traj 1%Qc r tr in
    let alone := solo C enc net gchoose fuel i in
    exists k,
      traj_actions batched = traj_actions alone ++ repeat 0 k /\
      cvrp_done i (run (E:=C) i (traj_actions alone)) = true /\
      cvrp_reward i (traj_actions batched) = cvrp_reward i (traj_actions alone) /\
      traj_ll 1%Qc Qcmult batched = traj_ll 1%Qc Qcmult alone.
  Proof.
    intros HP Hi Hb Hfin. cbv zeta.
    destruct (lift_instances (hist C) cvrp_P is_) as [is' His'].
    { intros j Hj. apply Z.eqb_eq. apply HP. exact Hj. }
    subst is_. rewrite nth_error_map in Hi. destruct (nth_error is' r) as [i'|] eqn:Ei'; [|discriminate].
    cbn [option_map] in Hi. inversion Hi; subst i. clear Hi.
    pose proof (bpolicy_sim CVRPh C under cvrp_fs cvrph_reset cvrph_step cvrph_mask cvrph_done
                  hidden (list Z) Qc gchoose benc bnet fuel is') as Hs.
    fold benc' bdec' in Hs. pose proof (eq_trans (eq_sym Hb) Hs) as Hs'. clear Hs.
    destruct (bpolicy CVRPh benc' bdec' gchoose fuel is') as [tr' fin'] eqn:Eb. cbn [fst snd] in Hs'.
    inversion Hs'; subst tr fin. clear Hs'.
    rewrite <- (all_done_sim CVRPh C under cvrp_fs cvrph_done) in Hfin.
    destruct (cvrph_policy_rowwise fuel is' r i' tr' fin' Ei' Eb Hfin) as [(pad & A & D & R & LL) (m & A')].
    unfold enc', dec' in *.
    rewrite (solo_sim CVRPh C under cvrp_fs cvrph_reset cvrph_step cvrph_mask cvrph_done) in A, D, R, LL, A'.
    exists m. split; [exact A'|]. split; [|split; [exact R | exact LL]].
    unfold rdone in D. cbn [fst snd] in D. rewrite cvrph_run in D. exact D.
  Qed.

  (* the same instance in two different batches (any sizes, positions, batch-mates): same reward, same
     log-likelihood, actions equal up to depot padding *)
  Theorem policy_batch_independent_on_cvrp (fuel : nat) (is1 is2 : list cvrp_inst) (r1 r2 : nat) (i : cvrp_inst)
          tr1 fin1 tr2 fin2 :
    (forall j, In j is1 -> dfun j 0 0 = 0%Z) -> (forall j, In j is2 -> dfun j 0 0 = 0%Z) ->
    nth_error is1 r1 = Some i -> nth_error is2 r2 = Some i ->
    bpolicy C benc bnet gchoose fuel is1 = (tr1, fin1) -> all_done C fin1 = true ->
    bpolicy C benc bnet gchoose fuel is2 = (tr2, fin2) -> all_done C fin2 = true ->
    let t1 := row_traj 1%Qc r1 tr1 in let t2 := row_traj 1%Qc r2 tr2 in
    cvrp_reward i (traj_actions t1) = cvrp_reward i (traj_actions t2) /\
    traj_ll 1%Qc Qcmult t1 = traj_ll 1%Qc Qcmult t2 /\
    exists common k1 k2,
      traj_actions t1 = common ++ repeat 0 k1 /\ traj_actions t2 = common ++ repeat 0 k2 /\
      cvrp_done i (run (E:=C) i common) = true.
  Proof.
    intros P1 P2 H1 H2 B1 D1 B2 D2. cbv zeta.
    destruct (policy_rowwise_on_cvrp fuel is1 r1 i tr1 fin1 P1 H1 B1 D1) as (k1 & A1 & Dn & R1 & L1).
    destruct (policy_rowwise_on_cvrp fuel is2 r2 i tr2 fin2 P2 H2 B2 D2) as (k2 & A2 & _ & R2 & L2).
    split; [congruence|]. split; [congruence|].
    exists (traj_actions (solo C enc net gchoose fuel i)), k1, k2. auto.
  Qed.

  (* a batch of one IS the solo reference (instance of batch_of_one_is_solo; nothing about padding is needed) *)
  Theorem batch_of_one_is_solo_on_cvrp (fuel : nat) (i : cvrp_inst) tr fin :
    dfun i 0 0 = 0%Z ->
    bpolicy C benc bnet gchoose fuel [i] = (tr, fin) -> row_traj 1%Qc 0 tr = solo C enc net gchoose fuel i.
  Proof.
    intros HP Hb.
    destruct (lift_instances (hist C) cvrp_P [i]) as [is' His'].
    { intros j [<-|[]]. apply Z.eqb_eq. exact HP. }
    destruct is' as [|i' [|? ?]]; try discriminate. cbn [map] in His'. injection His' as Hi'. subst i.
    pose proof (bpolicy_sim CVRPh C under cvrp_fs cvrph_reset cvrph_step cvrph_mask cvrph_done
                  hidden (list Z) Qc gchoose benc bnet fuel [i']) as Hs.
    fold benc' bdec' in Hs. cbn [map] in Hs. pose proof (eq_trans (eq_sym Hb) Hs) as Hs'. clear Hs.
    destruct (bpolicy CVRPh benc' bdec' gchoose fuel [i']) as [tr' fin'] eqn:Eb. cbn [fst snd] in Hs'.
    inversion Hs'; subst tr fin. clear Hs'.
    rewrite <- (solo_sim CVRPh C under cvrp_fs cvrph_reset cvrph_step cvrph_mask cvrph_done).
    apply (batch_of_one_is_solo CVRPh hidden (list Z) Qc 1%Qc benc' enc' bdec' dec' gchoose (fun _ => True)) with (fin := fin').
    - intros js. unfold benc', benc1, enc', enc1. rewrite enc_rowwise, map_map. reflexivity.
    - intros hs rows _ Hl. unfold bdec', bdec1, dec', dec1. fold prw.
      rewrite net_rowwise; [apply map2_map_r | rewrite map_length; exact Hl | apply prw_reach].
    - intros; exact I.
    - intros; exact I.
    - exact Eb.
  Qed.

  (* ---------------------------------------------------------------- C10 x C02 x C01 x C03: what greedy returns *)
  (* every greedy step takes an offered action (C10 greedy_feasible; the CVRP mask always offers something) *)
  Lemma greedy_steps_admitted h i n acts :
    dfun i 0 0 = 0%Z -> adm (E:=C) i acts = true ->
    adm (E:=C) i (acts ++ traj_actions (straj C hidden (list Z) Qc net gchoose n h (i, run (E:=C) i acts))) = true.
  Proof.
    intros HP. revert acts. induction n as [|n IH]; intros acts Hadm; cbn [straj].
    - unfold traj_actions. cbn [map]. rewrite app_nil_r. exact Hadm.
    - set (a := fst (pick C net gchoose h (i, run (E:=C) i acts))).
      assert (Ho : offered (E:=C) i (run (E:=C) i acts) a = true).
      { unfold offered, a, pick, rmask, gchoose. cbn [fst snd mask CVRP]. apply greedy_choose_offered.
        - rewrite cvrp_mask_length, net_width by exact HP. reflexivity.
        - apply cvrp_mask_offers. }
      unfold traj_actions. cbn [map]. fold a.
      unfold rstep. cbn [fst snd]. rewrite <- (run_snoc C).
      change (acts ++ a :: map fst (straj C hidden (list Z) Qc net gchoose n h (i, run (E:=C) i (acts ++ [a]))))
        with (acts ++ [a] ++ traj_actions (straj C hidden (list Z) Qc net gchoose n h (i, run (E:=C) i (acts ++ [a])))).
      rewrite app_assoc. apply IH. rewrite adm_snoc, Hadm, Ho. reflexivity.
  Qed.

  (* End to end: in ANY batch, what the greedy policy returns for a well-formed instance is an admitted action list
     that is a feasible CVRP solution (C01), and its reward is minus the total route length (C03) of the solution
     found when the instance is decoded alone. *)
  Theorem greedy_batched_solution_on_cvrp (fuel : nat) (is_ : list cvrp_inst) (r : nat) (i : cvrp_inst) tr fin :
    (forall j, In j is_ -> dfun j 0 0 = 0%Z) -> cvrp_wfb i = true ->
    nth_error is_ r = Some i ->
    bpolicy C benc bnet gchoose fuel is_ = (tr, fin) -> all_done C fin = true ->
    let acts := traj_actions (row_traj 1%Qc r tr) in
    adm (E:=C) i acts = true /\ cvrp_done i (run (E:=C) i acts) = true /\ cvrp_feasible i acts /\
    cvrp_reward i acts = cvrp_objective i (traj_actions (solo C enc net gchoose fuel i)).
  Proof.
    intros HP Hwfb Hi Hb Hfin. cbv zeta.
    assert (H00 : dfun i 0 0 = 0%Z) by (apply HP; eapply nth_error_In; exact Hi).
    apply cvrp_wfb_ok in Hwfb.
    destruct (policy_rowwise_on_cvrp fuel is_ r i tr fin HP Hi Hb Hfin) as (k & A & D & R & _).
    assert (Hadm : adm (E:=C) i (traj_actions (solo C enc net gchoose fuel i)) = true).
    { unfold solo. apply (greedy_steps_admitted (enc i) i _ [] H00). reflexivity. }
    destruct (cvrp_padding_inert i _ k Hwfb Hadm D) as (Pa & Pd & _ & _).
    rewrite A. split; [exact Pa|]. split; [exact Pd|]. split.
    - apply cvrp_mask_sound; assumption.
    - rewrite <- A, R. apply cvrp_reward_is_objective. exact H00.
  Qed.
End OnCVRP.

(* why the detour through CVRPh: the padding hypotheses of policy_rowwise are FALSE at junk states of the plain
   model -- a state whose visited vector is empty is "done" yet offers both customers (and not the depot), so the
   action chosen there has probability 1/2, not 1 *)
Theorem junk_state_refutes_pad :
  exists (i : cvrp_inst) (s : cvrp_st),
    cvrp_wfb i = true /\ dfun i 0 0 = 0%Z /\ rdone C (i, s) = true /\ rmask C (i, s) = [false; true; true] /\
    snd (pick C (fun (_ : unit) _ => [0; 0; 0]%Z) (greedy_choose (fun z => z) (fun z => z) 0%Qc 0) tt (i, s)) <> 1%Qc.
Proof.
  exists {| dem := [1; 1]%Z; cap := 10%Z; dist := []; tol := 0%Z |}, {| cur := 0; used := 0%Z; vis := [] |}.
  repeat split. intros H. apply (f_equal (fun q => Qeq_bool (this q) 1)) in H. vm_compute in H. discriminate.
Qed.

(* ================================================================================================ Part E *)
(* C11 on CVRP: the decoder returns the network's logits and the ENVIRONMENT'S OWN mask, as the real policy does;
   get_reward does not look at the final state *)
Definition cvrp_dec {Hd : Type} (net : Hd -> cvrp_inst -> cvrp_st -> list Z) (h : Hd) (i : cvrp_inst) (s : cvrp_st)
  : list Z * list bool := (net h i s, cvrp_mask exact i s).
Definition cvrp_rew (i : cvrp_inst) (s : cvrp_st) (acts : list nat) : Z := cvrp_reward i acts.

Lemma gsum_pad_ones (l : list Qc) k :
  gsum Qc 1%Qc Qcmult (map idQc (l ++ repeat 1%Qc k)) = gsum Qc 1%Qc Qcmult (map idQc l).
Proof.
  unfold gsum. rewrite map_app, fold_right_app. f_equal.
  induction k as [|k IH]; cbn [repeat map fold_right]; [reflexivity|]. rewrite IH. unfold idQc. apply Qcmult_1_l.
Qed.

Section C11OnCVRP.
  Variables (clip tmp : Z -> Z) (top_p : Qc) (top_k : nat).
  Variable Hd : Type.
  Variable net : Hd -> cvrp_inst -> cvrp_st -> list Z.

  Local Notation cprobs ml := (probs QcF Z Z.leb pow2 clip tmp top_p top_k ml C Hd (cvrp_dec net)).
  Local Notation cspec ml := (spec_ps QcF Z Z.leb pow2 clip tmp top_p top_k ml C Hd (cvrp_dec net)).

  (* ll_is_sum at (QcF, Z, 2^z), E := CVRP exact, log domain (Qc, 1, *, id): any mode, any batch, rows finishing
     at different times, with or without select_best *)
  Theorem ll_is_sum_on_cvrp (mask_logits : bool) (flagf : cvrp_inst -> cvrp_st -> option (list bool))
          (m : mode) (sa : bool) (S : nat) (sb : bool) (fuel : nat) (cfgs : list (Hd * cvrp_inst))
          (starts : list nat) (ors : list (list nat)) (outs : list (brow QcF C Hd)) :
    forward QcF Z Z.leb pow2 clip tmp top_p top_k mask_logits C Hd (cvrp_dec net) cvrp_rew
            m sa false S sb fuel cfgs starts ors = Some outs ->
    forall cr, In cr outs ->
      let c := fst cr in let acts := r_acts (snd cr) in
      r_s (snd cr) = run (E:=C) (rc_i c) acts /\
      out_ll_steps QcF C Hd flagf Qc idQc cr
        = map idQc (flagz QcF (out_flags QcF C Hd flagf cr) (cspec mask_logits (rc_h c) (rc_i c) (cvrp_reset (rc_i c)) acts)) /\
      out_ll QcF C Hd flagf Qc 1%Qc Qcmult idQc cr
        = gsum Qc 1%Qc Qcmult
            (map idQc (flagz QcF (out_flags QcF C Hd flagf cr) (cspec mask_logits (rc_h c) (rc_i c) (cvrp_reset (rc_i c)) acts))) /\
      out_reward QcF C Hd cvrp_rew cr = cvrp_reward (rc_i c) acts.
  Proof.
    exact (ll_is_sum_plain QcF Z Z.leb pow2 clip tmp top_p top_k mask_logits C Hd (cvrp_dec net) cvrp_rew flagf
             Qc 1%Qc Qcmult idQc m sa S sb fuel cfgs starts ors outs).
  Qed.

  (* C11 probs_single_feasible x C04 cvrp_padding_inert: in the state reached by an admitted, finished action list
     followed by any number of depot visits, the policy gives the depot probability one and greedy takes the depot *)
  Theorem cvrp_padding_steps_have_probability_one (h : Hd) (i : cvrp_inst) (acts : list nat) (k : nat) :
    cvrp_wf i -> adm (E:=C) i acts = true -> done C i (run (E:=C) i acts) = true ->
    length (net h i (run (E:=C) i (acts ++ repeat 0 k))) = S (n_of i) ->
    let pr := cprobs true h i (run (E:=C) i (acts ++ repeat 0 k)) in
    nth 0 pr 0%Qc = 1%Qc /\ greedy QcF pr = 0.
  Proof.
    intros Hwf Hadm Hd0 Hlen. cbv zeta.
    destruct (cvrp_padding_inert i acts k Hwf Hadm Hd0) as (_ & _ & Hm & _). cbn [mask CVRP] in Hm.
    split.
    - apply (probs_single_feasible QcF Z Z.leb pow2 clip tmp top_p top_k true C Hd (cvrp_dec net) pow2_pos pow2_mono
               h i (run (E:=C) i (acts ++ repeat 0 k)) 0 eq_refl); unfold cvrp_dec; cbn [fst snd].
      + rewrite cvrp_mask_length, Hlen. reflexivity.
      + rewrite cvrp_mask_length. lia.
      + rewrite Hm. reflexivity.
      + intros [|b] Hb; [congruence|]. rewrite Hm. cbn [nth]. apply nth_repeat.
    - unfold probs, eff_mask, cvrp_dec. cbn [fst snd]. rewrite Hm.
      exact (f_equal fst (greedy_choose_single clip tmp top_p top_k _ (n_of i) Hlen)).
  Qed.

  Lemma cvrp_spec_ps_app ml h i s a b :
    cspec ml h i s (a ++ b) = cspec ml h i s a ++ cspec ml h i (run_from (E:=C) i s a) b.
  Proof. revert s; induction a as [|x a IH]; intros s; cbn [app spec_ps run_from]; [reflexivity|]. rewrite IH. reflexivity. Qed.

  (* the per-step probabilities of k padding steps are all one ... *)
  Lemma cvrp_pad_ps (h : Hd) (i : cvrp_inst) :
    cvrp_wf i -> (forall s, length (net h i s) = S (n_of i)) ->
    forall k acts, adm (E:=C) i acts = true -> done C i (run (E:=C) i acts) = true ->
      cspec true h i (run (E:=C) i acts) (repeat 0 k) = repeat 1%Qc k.
  Proof.
    intros Hwf Hlen. induction k as [|k IH]; intros acts Hadm Hd0; cbn [repeat spec_ps]; [reflexivity|]. f_equal.
    - destruct (cvrp_padding_steps_have_probability_one h i acts 0 Hwf Hadm Hd0 (Hlen _)) as [H _].
      cbn [repeat] in H. rewrite app_nil_r in H. exact H.
    - destruct (cvrp_padding_inert i acts 1 Hwf Hadm Hd0) as (Pa & Pd & _ & _). cbn [repeat] in Pa, Pd.
      rewrite <- (run_snoc C). apply IH; assumption.
  Qed.

  (* ... so an admitted finished action list and the same list padded with depot visits have the same per-step
     probabilities up to trailing ones, the same log-likelihood (product) and the same reward: what the decode loop
     returns for a row that had to wait for its batch-mates is what it returns for the row alone *)
  Theorem cvrp_padded_ll_equal (h : Hd) (i : cvrp_inst) (acts : list nat) (k : nat) :
    cvrp_wf i -> (forall s, length (net h i s) = S (n_of i)) ->
    adm (E:=C) i acts = true -> done C i (run (E:=C) i acts) = true ->
    cspec true h i (cvrp_reset i) (acts ++ repeat 0 k) = cspec true h i (cvrp_reset i) acts ++ repeat 1%Qc k /\
    gsum Qc 1%Qc Qcmult (map idQc (cspec true h i (cvrp_reset i) (acts ++ repeat 0 k)))
      = gsum Qc 1%Qc Qcmult (map idQc (cspec true h i (cvrp_reset i) acts)) /\
    (dfun i 0 0 = 0%Z -> cvrp_reward i (acts ++ repeat 0 k) = cvrp_reward i acts).
  Proof.
    intros Hwf Hlen Hadm Hd0.
    assert (Eq : cspec true h i (cvrp_reset i) (acts ++ repeat 0 k) = cspec true h i (cvrp_reset i) acts ++ repeat 1%Qc k).
    { rewrite cvrp_spec_ps_app. f_equal. apply (cvrp_pad_ps h i Hwf Hlen k acts Hadm Hd0). }
    split; [exact Eq|]. split; [rewrite Eq; apply gsum_pad_ones | apply cvrp_reward_pad].
  Qed.
End C11OnCVRP.

(* ================================================================================================ Part F *)
(* Two CVRP instances of the same width (3 customers, capacity 10) whose solutions have different lengths:
   demands 3,3,3 fit one route (4 steps: three customers, depot); demands 6,6,6 need three routes (5 steps).
   The "network": integer logits that depend on the hidden value and on the state; the depot gets the lowest logit. *)
Module Ex.
  Definition ex_dist : list (list Z) := [[0; 2; 3; 4]; [2; 0; 2; 3]; [3; 2; 0; 2]; [4; 3; 2; 0]]%Z.
  Definition i1 : cvrp_inst := {| dem := [3; 3; 3]%Z; cap := 10%Z; dist := ex_dist; tol := 0%Z |}.
  Definition i2 : cvrp_inst := {| dem := [6; 6; 6]%Z; cap := 10%Z; dist := ex_dist; tol := 0%Z |}.
  Definition net (h : Z) (i : cvrp_inst) (s : cvrp_st) : list Z :=
    0%Z :: map (fun j => (1 + (h + Z.of_nat j * (1 + Z.of_nat (cur s)) + used s) mod 4)%Z) (seq 1 (n_of i)).

  Example instances_wf :
    cvrp_wfb i1 = true /\ cvrp_wfb i2 = true /\ dfun i1 0 0 = 0%Z /\ dfun i2 0 0 = 0%Z /\ n_of i1 = n_of i2.
  Proof. vm_compute. auto. Qed.

  (* ---------------------------------------------------------------- the decode loop of C11 (forward) *)
  Definition cfwd := forward QcF Z Z.leb pow2 (fun z => z) (fun z => z) f0 0 true C Z (cvrp_dec net) cvrp_rew.
  Definition cflags (i : cvrp_inst) (s : cvrp_st) : option (list bool) := None.
  (* per returned row: actions, per-step probabilities, log-likelihood (their product),
     (admitted, finished, feasible by the executable specification), reward *)
  Definition cview (o : brow QcF C Z) : list nat * list Q * Q * (bool * bool * bool) * Z :=
    let i := rc_i (fst o) in let acts := r_acts (snd o) in
    (acts, map this (out_ps QcF C Z cflags o), this (out_ll QcF C Z cflags Qc 1%Qc Qcmult idQc o),
     (adm (E:=C) i acts, done C i (r_s (snd o)), cvrp_feasibleb i 0 acts), out_reward QcF C Z cvrp_rew o).
  Definition cviews (r : option (list (brow QcF C Z))) := option_map (map cview) r.

  (* greedy: row 0 finishes after 4 steps and is padded with one depot visit of probability 1 *)
  Example cvrp_greedy :
    cviews (cfwd Greedy false false 0 false 20 [(1%Z, i1); (2%Z, i2)] [] [[]; []])
    = Some [([2; 1; 3; 0; 0], [8 # 13; 16 # 21; 4 # 5; 1; 1]%Q, (512 # 1365)%Q, (true, true, true), (-12)%Z);
            ([1; 0; 3; 0; 2], [8 # 11; 1; 2 # 3; 1; 1]%Q, (16 # 33)%Q, (true, true, true), (-18)%Z)].
  Proof. vm_compute. reflexivity. Qed.

  (* sampling: the oracle lists are the draws of torch.multinomial (padding steps included) *)
  Example cvrp_sampling :
    cviews (cfwd Sampling false false 0 false 20 [(1%Z, i1); (2%Z, i2)] [] [[1; 3; 2; 0; 0]; [3; 0; 1; 0; 2]])
    = cviews (cfwd Evaluate true false 0 false 20 [(1%Z, i1); (2%Z, i2)] [] [[1; 3; 2; 0; 0]; [3; 0; 1; 0; 2]])
    /\ option_map (map (fun v => (fst (fst (fst (fst v))), snd (fst (fst (fst v))), snd (fst v))))
         (cviews (cfwd Sampling false false 0 false 20 [(1%Z, i1); (2%Z, i2)] [] [[1; 3; 2; 0; 0]; [3; 0; 1; 0; 2]]))
       = Some [([1; 3; 2; 0; 0], [4 # 13; 8 # 11; 16 # 17; 1; 1]%Q, (true, true, true));
               ([3; 0; 1; 0; 2], [2 # 11; 1; 8 # 9; 1; 1]%Q, (true, true, true))]
    /\ forward_ok QcF Z Z.leb pow2 (fun z => z) (fun z => z) f0 0 true C Z (cvrp_dec net) Sampling false false 0 20
                  [(1%Z, i1); (2%Z, i2)] [] [[1; 3; 2; 0; 0]; [3; 0; 1; 0; 2]] = true.
  Proof. vm_compute. repeat split; reflexivity. Qed.

  (* hypotheses of cvrp_padding_steps_have_probability_one / cvrp_padded_ll_equal at the padded row *)
  Example cvrp_padding_hypotheses :
    cvrp_wfb i1 = true /\ adm (E:=C) i1 [2; 1; 3; 0] = true /\ done C i1 (run (E:=C) i1 [2; 1; 3; 0]) = true /\
    mask C i1 (run (E:=C) i1 [2; 1; 3; 0]) = [true; false; false; false] /\
    length (net 1 i1 (run (E:=C) i1 [2; 1; 3; 0])) = S (n_of i1).
  Proof. vm_compute. repeat split; reflexivity. Qed.
  Lemma net_width h i s : length (net h i s) = S (n_of i).
  Proof. unfold net. cbn [length]. rewrite map_length, seq_length. reflexivity. Qed.

  (* ---------------------------------------------------------------- the batched loop of C14 (bpolicy) *)
  Definition enc (i : cvrp_inst) : Z := (cap i + 1)%Z.
  Definition benc (is_ : list cvrp_inst) : list Z := map enc is_.
  Definition rnet (h : Z) (rw : cvrp_inst * cvrp_st) : list Z := net h (fst rw) (snd rw).
  Definition bnet (hs : list Z) (rows : list (cvrp_inst * cvrp_st)) : list (list Z) := Rowwise.map2 rnet hs rows.
  Definition gc := greedy_choose (fun z => z) (fun z => z) 0%Qc 0.
  Definition rview (r : nat) (tr : list (list (nat * Qc))) : list (nat * Q) :=
    map (fun l => let c := nth r l (0, 1%Qc) in (fst c, this (snd c))) tr.

  (* i1 decoded alone, and at position 0 of the batch [i1; i2]: the same steps, then one depot visit of probability 1 *)
  Example cvrp_alone :
    rview 0 (fst (bpolicy C benc bnet gc 20 [i1])) = [(3, (4 # 7)%Q); (1, (8 # 17)%Q); (2, (4 # 5)%Q); (0, 1%Q)].
  Proof. vm_compute. reflexivity. Qed.
  Example cvrp_in_batch :
    rview 0 (fst (bpolicy C benc bnet gc 20 [i1; i2]))
      = [(3, (4 # 7)%Q); (1, (8 # 17)%Q); (2, (4 # 5)%Q); (0, 1%Q); (0, 1%Q)] /\
    rview 1 (fst (bpolicy C benc bnet gc 20 [i1; i2]))
      = [(3, (4 # 7)%Q); (0, 1%Q); (2, (2 # 3)%Q); (0, 1%Q); (1, 1%Q)] /\
    all_done C (snd (bpolicy C benc bnet gc 20 [i1; i2])) = true.
  Proof. vm_compute. repeat split; reflexivity. Qed.

  (* all hypotheses of policy_rowwise_on_cvrp are satisfiable together: a closed instance *)
  Theorem ex_policy_rowwise_on_cvrp (fuel : nat) (is_ : list cvrp_inst) (r : nat) (i : cvrp_inst) tr fin :
    (forall j, In j is_ -> dfun j 0 0 = 0%Z) ->
    nth_error is_ r = Some i ->
    bpolicy C benc bnet gc fuel is_ = (tr, fin) -> all_done C fin = true ->
    let batched := row_traj 1%Qc r tr in
    let alone := solo C enc rnet gc fuel i in
    exists k,
      traj_actions batched = traj_actions alone ++ repeat 0 k /\
      cvrp_done i (run (E:=C) i (traj_actions alone)) = true /\
      cvrp_reward i (traj_actions batched) = cvrp_reward i (traj_actions alone) /\
      traj_ll 1%Qc Qcmult batched = traj_ll 1%Qc Qcmult alone.
  Proof.
    apply (policy_rowwise_on_cvrp Z (fun z => z) (fun z => z) 0%Qc 0 benc enc bnet rnet).
    - reflexivity.
    - reflexivity.
    - intros h j acts _. apply net_width.
  Qed.
End Ex.

(* ================================================================================================ Part G *)
(* C11 ll_is_sum at the TSP model: a pure instantiation (no padding statement: all rows of a TSP batch of common
   width finish at the same step, and a finished TSP row has an EMPTY mask, so there is no sensible pad_lp) *)
From RL4CO Require Import Env.TSP.
Local Open Scope nat_scope.

Definition tsp_dec {Hd : Type} (net : Hd -> tsp_inst -> tsp_st -> list Z) (h : Hd) (i : tsp_inst) (s : tsp_st)
  : list Z * list bool := (net h i s, tsp_mask i s).
Definition tsp_rew (i : tsp_inst) (s : tsp_st) (acts : list nat) : Z := tsp_reward i acts.

Theorem ll_is_sum_on_tsp (clip tmp : Z -> Z) (top_p : Qc) (top_k : nat) (mask_logits : bool) (Hd : Type)
        (net : Hd -> tsp_inst -> tsp_st -> list Z) (flagf : tsp_inst -> tsp_st -> option (list bool))
        (m : mode) (sa : bool) (S : nat) (sb : bool) (fuel : nat) (cfgs : list (Hd * tsp_inst))
        (starts : list nat) (ors : list (list nat)) (outs : list (brow QcF TSP Hd)) :
  forward QcF Z Z.leb pow2 clip tmp top_p top_k mask_logits TSP Hd (tsp_dec net) tsp_rew
          m sa false S sb fuel cfgs starts ors = Some outs ->
  forall cr, In cr outs ->
    let c := fst cr in let acts := r_acts (snd cr) in
    let ps := spec_ps QcF Z Z.leb pow2 clip tmp top_p top_k mask_logits TSP Hd (tsp_dec net)
                      (rc_h c) (rc_i c) (tsp_reset (rc_i c)) acts in
    r_s (snd cr) = run (E:=TSP) (rc_i c) acts /\
    out_ll_steps QcF TSP Hd flagf Qc idQc cr = map idQc (flagz QcF (out_flags QcF TSP Hd flagf cr) ps) /\
    out_ll QcF TSP Hd flagf Qc 1%Qc Qcmult idQc cr
      = gsum Qc 1%Qc Qcmult (map idQc (flagz QcF (out_flags QcF TSP Hd flagf cr) ps)) /\
    out_reward QcF TSP Hd tsp_rew cr = tsp_reward (rc_i c) acts.
Proof.
  exact (ll_is_sum_plain QcF Z Z.leb pow2 clip tmp top_p top_k mask_logits TSP Hd (tsp_dec net) tsp_rew flagf
           Qc 1%Qc Qcmult idQc m sa S sb fuel cfgs starts ors outs).
Qed.

Module ExTSP.
  Definition t1 : tsp_inst := {| tdist := [[0; 2; 3]; [2; 0; 2]; [3; 2; 0]]%Z |}.
  Definition t2 : tsp_inst := {| tdist := [[0; 5; 1]; [5; 0; 4]; [1; 4; 0]]%Z |}.
  Definition net (h : Z) (i : tsp_inst) (s : tsp_st) : list Z :=
    map (fun j => ((h + Z.of_nat j * (1 + Z.of_nat (tcur s))) mod 3)%Z) (seq 0 (tsp_n i)).
  Definition tfwd := forward QcF Z Z.leb pow2 (fun z => z) (fun z => z) f0 0 true TSP Z (tsp_dec net) tsp_rew.
  Definition tflags (i : tsp_inst) (s : tsp_st) : option (list bool) := None.
  Definition tview (o : brow QcF TSP Z) : list nat * list Q * bool * Z :=
    (r_acts (snd o), map this (out_ps QcF TSP Z tflags o), done TSP (rc_i (fst o)) (r_s (snd o)), out_reward QcF TSP Z tsp_rew o).
  Example tsp_greedy :
    option_map (map tview) (tfwd Greedy false false 0 false 20 [(1%Z, t1); (2%Z, t2)] [] [[]; []])
    = Some [([1; 2; 0], [4 # 7; 2 # 3; 1]%Q, true, (-7)%Z); ([0; 2; 1], [4 # 7; 2 # 3; 1]%Q, true, (-10)%Z)].
  Proof. vm_compute. reflexivity. Qed.
End ExTSP.
