(* C18 x C02 for the routing environments: "every generated instance is solvable: a mask-confined episode started from
   it always completes".

   Data/GenRouting.v proves what the generators' post-processing guarantees, partly in the env units' own predicates
   (CVRP) and partly in predicates of its own over exact rationals (CVRPTW, MTVRP, SVRP, OP, PDP), written before the
   env models existed.  Env/<ENV>Proofs.v prove completion (no dead end, offered steps never raise, step bound, done is
   stable) under THEIR well-formedness / solvability predicates over scaled integers.  This file proves the bridges
   and the composed statements.

   Representation.  The env models hold every real quantity as an integer = the real value times one common scale S > 0
   (the harness uses a power of two, so that float32 data are represented exactly); the generator models hold exact
   rationals.  [repr S z q] says that the integer z represents the rational q at scale S.  A bridge takes the instance
   the generator model emits, the scale, and the integer tables that represent the data the generator model does not
   emit itself (the distance table computed from the sampled coordinates), and builds the env model's instance. *)
From Coq Require Import ZArith QArith Qround List Bool Lia Lqa ZifyBool Arith.
From RL4CO Require Import Base.Num Base.EnvSig Spec.Routes Env.CVRP Env.CVRPProofs Env.CVRPTW Env.CVRPTWProofs Data.GenRouting.
Import ListNotations.
Open Scope Z_scope.

(* ================================================================== representation of rationals by scaled integers *)
Definition repr (S z : Z) (q : Q) : Prop := (inject_Z z == inject_Z S * q)%Q.

Lemma repr_le S z1 z2 q1 q2 : 0 < S -> repr S z1 q1 -> repr S z2 q2 -> (q1 <= q2)%Q -> z1 <= z2.
Proof.
  unfold repr. intros HS H1 H2 Hq. rewrite Zle_Qle, H1, H2.
  assert (0 < inject_Z S)%Q by (change 0%Q with (inject_Z 0); rewrite <- Zlt_Qlt; exact HS). nra.
Qed.
Lemma repr_lt S z1 z2 q1 q2 : 0 < S -> repr S z1 q1 -> repr S z2 q2 -> (q1 < q2)%Q -> z1 < z2.
Proof.
  unfold repr. intros HS H1 H2 Hq. rewrite Zlt_Qlt, H1, H2.
  assert (0 < inject_Z S)%Q by (change 0%Q with (inject_Z 0); rewrite <- Zlt_Qlt; exact HS). nra.
Qed.
Lemma repr_int S k : repr S (k * S) (inject_Z k).
Proof. unfold repr. rewrite inject_Z_mult. ring. Qed.
Lemma repr_add S z1 z2 q1 q2 : repr S z1 q1 -> repr S z2 q2 -> repr S (z1 + z2) (q1 + q2).
Proof. unfold repr. intros H1 H2. rewrite inject_Z_plus, H1, H2. ring. Qed.
Lemma repr_0 S : repr S 0 0.
Proof. unfold repr. ring. Qed.
Lemma repr_nonneg S z q : 0 < S -> repr S z q -> (0 <= q)%Q -> 0 <= z.
Proof. intros HS H Hq. apply (repr_le S 0 z 0 q HS (repr_0 S) H Hq). Qed.
Lemma repr_ext S z q q' : (q == q')%Q -> repr S z q -> repr S z q'.
Proof. unfold repr. intros E H. rewrite H, E. reflexivity. Qed.

(* ================================================================== CVRP *)
(* The generator model emits a [cvrp_inst] directly (demands as integers in units of 1/capacity) and Data/GenRouting.v
   already states its guarantee with the env unit's own [cvrp_wfb] / [cvrp_solvableb]: the composition is immediate. *)
Theorem gen_cvrp_complete :
  forall (num_loc : Z) (override : option Z) (lo hi : Z) (us : list Q) (D : list (list Z)),
    1 <= lo <= hi - 1 ->
    (forall u, In u us -> (inject_Z (lo - 1) <= u)%Q /\ (u < inject_Z (hi - 1))%Q) ->
    hi - 1 <= cvrp_capacity override num_loc ->
    us <> [] ->
    let i := gen_cvrp (cvrp_capacity override num_loc) us D in
    forall acts : list nat, adm (E:=CVRP exact) i acts = true ->
      anyb (mask (CVRP exact) i (run (E:=CVRP exact) i acts)) = true /\
      (forall a, offered (E:=CVRP exact) i (run (E:=CVRP exact) i acts) a = true ->
                 stepok (CVRP exact) i (run (E:=CVRP exact) i acts) a = true) /\
      ((forall p q, acts = p ++ q -> q <> [] -> done (CVRP exact) i (run (E:=CVRP exact) i p) = false) ->
       (length acts <= 2 * length us + 1)%nat) /\
      (forall a, adm (E:=CVRP exact) i (acts ++ [a]) = true -> done (CVRP exact) i (run (E:=CVRP exact) i acts) = true ->
                 done (CVRP exact) i (run (E:=CVRP exact) i (acts ++ [a])) = true).
Proof.
  intros n ovr lo hi us D Hlo Hus Hcap Hne i acts Hadm.
  destruct (gen_cvrp_wf n ovr lo hi us D Hlo Hus Hcap) as [Hwfb [Hsolb _]]. fold i in Hwfb, Hsolb.
  apply cvrp_wfb_ok in Hwfb. apply cvrp_solvableb_ok in Hsolb.
  assert (Hn : n_of i = length us) by (unfold i, gen_cvrp, n_of; cbn [dem]; apply map_length).
  split; [apply cvrp_no_dead_end; assumption|]. split; [|split].
  - intros a Ho. apply cvrp_step_ok; try assumption. rewrite Hn. destruct us; [congruence|cbn; lia].
  - intros Hnd. rewrite <- Hn. apply cvrp_bound; assumption.
  - intros a Ha Hd. apply cvrp_done_stable; assumption.
Qed.

(* the shipped configuration: min_demand 1, max_demand 10, capacity from the CAPACITIES table, ANY num_loc *)
Corollary gen_cvrp_default_complete :
  forall (num_loc : Z) (us : list Q) (D : list (list Z)),
    (forall u, In u us -> (0 <= u)%Q /\ (u < 9)%Q) -> us <> [] ->
    let i := gen_cvrp (cvrp_capacity None num_loc) us D in
    forall acts : list nat, adm (E:=CVRP exact) i acts = true ->
      anyb (mask (CVRP exact) i (run (E:=CVRP exact) i acts)) = true /\
      (forall a, offered (E:=CVRP exact) i (run (E:=CVRP exact) i acts) a = true ->
                 stepok (CVRP exact) i (run (E:=CVRP exact) i acts) a = true) /\
      ((forall p q, acts = p ++ q -> q <> [] -> done (CVRP exact) i (run (E:=CVRP exact) i p) = false) ->
       (length acts <= 2 * length us + 1)%nat) /\
      (forall a, adm (E:=CVRP exact) i (acts ++ [a]) = true -> done (CVRP exact) i (run (E:=CVRP exact) i acts) = true ->
                 done (CVRP exact) i (run (E:=CVRP exact) i (acts ++ [a])) = true).
Proof.
  intros n us D Hus Hne. apply (gen_cvrp_complete n None 1 10 us D); try assumption; try lia.
  pose proof (cvrp_table_capacity_ge n). lia.
Qed.

Example gen_cvrp_complete_ex :
  let us := [0 # 1; 35 # 4; 3 # 1; 8999 # 1000]%Q in
  let i := gen_cvrp (cvrp_capacity None 4) us [] in
  (forall u, In u us -> (0 <= u)%Q /\ (u < 9)%Q) /\
  dem i = [1; 9; 4; 9] /\ cap i = 20 /\
  adm (E:=CVRP exact) i [2; 1; 3; 0; 4; 0]%nat = true /\ done (CVRP exact) i (run (E:=CVRP exact) i [2; 1; 3; 0; 4; 0]%nat) = true /\
  done (CVRP exact) i (run (E:=CVRP exact) i [2; 1; 3; 0]%nat) = false.
Proof.
  cbv zeta. split; [|vm_compute; repeat split].
  intros u [<-|[<-|[<-|[<-|[]]]]]; (split; [apply Qle_bool_iff; reflexivity|reflexivity]).
Qed.

(* the override that C18 reports as accepted silently (capacity below max_demand - 1) indeed yields an instance on which
   no mask-confined episode ever finishes: the generator hypothesis hi - 1 <= capacity cannot be dropped *)
Example gen_cvrp_small_override_never_completes :
  let i := gen_cvrp (cvrp_capacity (Some 5) 20) [8 # 1]%Q [] in
  cvrp_solvableb i = false /\
  mask (CVRP exact) i (run (E:=CVRP exact) i [0; 0; 0]%nat) = [true; false] /\
  done (CVRP exact) i (run (E:=CVRP exact) i [0; 0; 0]%nat) = false.
Proof. vm_compute. repeat split. Qed.

(* ================================================================== CVRPTW *)
(* The generator model emits the time windows as integer pairs (in time units) from the rational depot distances
   [d], service durations [dur] and the two uniform draws per customer; CVRPTWGenerator inherits demands and capacity
   from CVRPGenerator.  The env instance: base = the CVRP instance (with the scaled distance table D of the sampled
   coordinates), windows = the generated integers times the scale, durations = the scaled durations [dz].
   What ties the integer tables to the generator's rationals is [cvrptw_tables_ok]. *)
Definition cvrptw_of_gen (S : Z) (b : cvrp_inst) (T : Q) (cust : list (Q * Q * Q * Q)) (dz : list Z) : cvrptw_inst :=
  let W := gen_cvrptw T cust in
  {| base := b;
     twlo := map (fun w => fst w * S) W;
     twhi := map (fun w => snd w * S) W;
     durs := 0 :: dz;
     tu := S;
     hz0 := Qtrunc T * S;
     tsl := 0 |}.

Definition cust_d (cust : list (Q * Q * Q * Q)) (j : nat) : Q := let '(d, _, _, _) := nth j cust (0, 0, 0, 0)%Q in d.
Definition cust_dur (cust : list (Q * Q * Q * Q)) (j : nat) : Q := let '(_, dur, _, _) := nth j cust (0, 0, 0, 0)%Q in dur.

(* D is the table of pairwise distances of depot :: customers at scale S: non-negative, zero from the depot to itself,
   row / column 0 represent the generator's depot distances (both directions); dz represents the durations *)
Definition cvrptw_tables_ok (S : Z) (D : list (list Z)) (dz : list Z) (cust : list (Q * Q * Q * Q)) : Prop :=
  let n := length cust in
  (forall a b, (a <= n)%nat -> (b <= n)%nat -> 0 <= mget D a b) /\
  mget D 0 0 = 0 /\
  length dz = n /\
  forall j, (j < n)%nat ->
    repr S (mget D 0 (Datatypes.S j)) (cust_d cust j) /\ repr S (mget D (Datatypes.S j) 0) (cust_d cust j) /\
    repr S (nth j dz 0) (cust_dur cust j).

Definition cvrptw_samples_ok (T : Q) (cust : list (Q * Q * Q * Q)) : Prop :=
  forall d dur t1 t2, In (d, dur, t1, t2) cust ->
    (0 <= d)%Q /\ (0 <= dur)%Q /\ (0 <= t1)%Q /\ (t1 < 1)%Q /\ (0 <= t2)%Q /\ (t2 < 1)%Q /\
    (d <= T - d - dur)%Q /\ Qfloor d + 1 <= Qfloor (T - d - dur).

Section CVRPTWBridge.
  Variables (S : Z) (b : cvrp_inst) (T : Q) (cust : list (Q * Q * Q * Q)) (dz : list Z).
  Let i := cvrptw_of_gen S b T cust dz.
  Let W := gen_cvrptw T cust.
  Let n := length cust.
  Hypothesis HS : 0 < S.
  Hypothesis Hn : n_of b = n.
  Hypothesis Hsamp : cvrptw_samples_ok T cust.

  Lemma W_len : length W = Datatypes.S n.
  Proof. exact (proj1 (gen_cvrptw_wf T cust Hsamp)). Qed.
  Lemma lo_eq j : lo i j = fst (nth j W (0, 0)) * S.
  Proof. unfold lo, i, cvrptw_of_gen. cbn [twlo]. fold W. change 0 with ((fun w : Z * Z => fst w * S) (0, 0)) at 1. apply map_nth. Qed.
  Lemma hi_eq j : hi i j = snd (nth j W (0, 0)) * S.
  Proof. unfold hi, i, cvrptw_of_gen. cbn [twhi]. fold W. change 0 with ((fun w : Z * Z => snd w * S) (0, 0)) at 1. apply map_nth. Qed.
  Lemma W0 : nth 0 W (0, 0) = (0, Qtrunc T).
  Proof. exact (proj1 (proj2 (gen_cvrptw_wf T cust Hsamp))). Qed.
  Lemma Wj j : (j < n)%nat -> cvrptw_customer_okb T (cust_d cust j) (cust_dur cust j) (nth (Datatypes.S j) W (0, 0)) = true.
  Proof.
    intros Hj. pose proof (proj2 (proj2 (gen_cvrptw_wf T cust Hsamp)) j Hj) as H. fold W in H.
    unfold cust_d, cust_dur. destruct (nth j cust (0, 0, 0, 0)%Q) as [[[d dur] t1] t2]. exact H.
  Qed.
  Lemma tn_eq : tn_of i = n.
  Proof. exact Hn. Qed.
  Lemma du_0 : du i 0 = 0.
  Proof. reflexivity. Qed.
  Lemma du_S j : du i (Datatypes.S j) = nth j dz 0.
  Proof. reflexivity. Qed.
  Lemma dd_eq a c : dd i a c = mget (dist b) a c.
  Proof. reflexivity. Qed.

  Hypothesis Htab : cvrptw_tables_ok S (dist b) dz cust.

  (* per customer: what the generator's predicate gives, in the env's scaled integers *)
  Lemma cust_facts j : (j < n)%nat ->
    let k := Datatypes.S j in
    0 <= lo i k /\ lo i k < hi i k /\ 0 <= du i k /\ dd i 0 k <= hi i k /\
    (forall Tz, (T == inject_Z Tz)%Q -> hi i k + du i k + dd i k 0 <= Tz * S).
  Proof.
    intros Hj k. destruct Htab as (_ & _ & _ & Hr). destruct (Hr j Hj) as (R1 & R2 & R3). fold n in Hr.
    pose proof (Wj j Hj) as Hok. unfold cvrptw_customer_okb in Hok. rewrite !andb_true_iff in Hok.
    destruct Hok as [[[H1 H2] H3] H4]. apply Qle_bool_iff in H3, H4.
    set (w := nth (Datatypes.S j) W (0, 0)) in *.
    assert (Hd0 : (0 <= cust_d cust j)%Q /\ (0 <= cust_dur cust j)%Q).
    { pose proof (nth_In cust (0, 0, 0, 0)%Q Hj) as Hin. unfold cust_d, cust_dur.
      destruct (nth j cust (0, 0, 0, 0)%Q) as [[[d dur] t1] t2]. destruct (Hsamp d dur t1 t2 Hin) as (A & B & _). split; assumption. }
    unfold k. rewrite lo_eq, hi_eq, du_S, !dd_eq. fold w. repeat split.
    - nia.
    - nia.
    - apply (repr_nonneg S _ _ HS R3). tauto.
    - apply (repr_le S _ _ _ _ HS R1 (repr_int S (snd w)) H3).
    - intros Tz HT.
      apply (repr_le S _ _ (inject_Z (snd w) + cust_dur cust j + cust_d cust j) (inject_Z Tz) HS).
      + apply repr_add; [apply repr_add; [apply repr_int|exact R3]|exact R2].
      + apply repr_int.
      + rewrite <- HT. exact H4.
  Qed.

  Hypothesis Hbwf : cvrp_wfb b = true.
  Hypothesis Hbsol : cvrp_solvableb b = true.
  Hypothesis Hne : cust <> [].

  Lemma T_nonneg : (0 <= T)%Q.
  Proof.
    destruct cust as [|[[[d dur] t1] t2] r]; [congruence|].
    destruct (Hsamp d dur t1 t2 (or_introl eq_refl)) as (A & B & _ & _ & _ & _ & C & _). lra.
  Qed.

  Lemma nodes_split (P : nat -> bool) : P 0%nat = true -> (forall j, (j < n)%nat -> P (Datatypes.S j) = true) ->
    forallb P (nodes i) = true.
  Proof.
    intros H0 HS'. apply forallb_forall. intros j Hj. apply nodes_in in Hj. rewrite tn_eq in Hj.
    destruct j as [|j]; [exact H0|apply HS'; lia].
  Qed.

  Theorem gen_cvrptw_env_wfb : cvrptw_wfb i = true.
  Proof.
    unfold cvrptw_wfb. rewrite !andb_true_iff.
    split; [split; [split; [split; [split; [split; [split; [split; [split|]|]|]|]|]|]|]|].
    - exact Hbwf.
    - apply Nat.eqb_eq. unfold i, cvrptw_of_gen. cbn [twlo]. rewrite map_length. fold W. rewrite W_len. symmetry. f_equal. exact tn_eq.
    - apply Nat.eqb_eq. unfold i, cvrptw_of_gen. cbn [twhi]. rewrite map_length. fold W. rewrite W_len. symmetry. f_equal. exact tn_eq.
    - apply Nat.eqb_eq. unfold i at 1, cvrptw_of_gen. cbn [durs length]. destruct Htab as (_ & _ & Hl & _). rewrite Hl. f_equal. symmetry. exact tn_eq.
    - apply nodes_split; cbv beta.
      + rewrite lo_eq, hi_eq, W0, du_0. cbn [fst snd]. pose proof T_nonneg as HT.
        assert (0 <= Qtrunc T) by (rewrite Qtrunc_nonneg by exact HT; apply (Qfloor_lb 0); exact HT). nia.
      + intros j Hj. destruct (cust_facts j Hj) as (A & B & C & _). lia.
    - apply forallb_forall. intros a Ha. apply forallb_forall. intros c Hc. apply nodes_in in Ha, Hc. rewrite tn_eq in Ha, Hc.
      rewrite dd_eq. destruct Htab as (Hnn & _). specialize (Hnn a c Ha Hc). lia.
    - rewrite dd_eq. destruct Htab as (_ & H00 & _). lia.
    - rewrite lo_eq, W0. cbn [fst]. lia.
    - rewrite du_0. lia.
    - unfold i, cvrptw_of_gen. cbn [tu]. lia.
  Qed.

  (* max_time an integer (the shipped default 480): the depot deadline int(max_time) loses nothing *)
  Variable Tz : Z.
  Hypothesis HT : (T == inject_Z Tz)%Q.

  Lemma hi0_eq : hi i 0 = Tz * S.
  Proof.
    rewrite hi_eq, W0. cbn [snd]. f_equal. rewrite Qtrunc_nonneg by exact T_nonneg. rewrite HT. apply Qfloor_Z.
  Qed.

  Theorem gen_cvrptw_env_solvableb : cvrptw_solvableb i = true.
  Proof.
    unfold cvrptw_solvableb, cvrptw_returnb. rewrite !andb_true_iff. split; [split|].
    - exact Hbsol.
    - apply nodes_split; cbv beta.
      + rewrite dd_eq, hi0_eq. destruct Htab as (_ & H00 & _). rewrite H00.
        pose proof T_nonneg as H. rewrite HT in H. change 0%Q with (inject_Z 0) in H. rewrite <- Zle_Qle in H. nia.
      + intros j Hj. destruct (cust_facts j Hj) as (_ & _ & _ & D & _). lia.
    - apply nodes_split; cbv beta.
      + rewrite du_0, dd_eq. destruct Htab as (_ & H00 & _). rewrite H00. lia.
      + intros j Hj. destruct (cust_facts j Hj) as (_ & _ & _ & _ & R). specialize (R Tz HT). rewrite hi0_eq. lia.
  Qed.
End CVRPTWBridge.

(* the composed statement; the base instance is the one the CVRP part of the generator emits *)
Theorem gen_cvrptw_complete :
  forall (num_loc : Z) (override : option Z) (dlo dhi : Z) (us : list Q) (D : list (list Z))
         (S Tz : Z) (cust : list (Q * Q * Q * Q)) (dz : list Z),
    (* CVRPGenerator part *)
    1 <= dlo <= dhi - 1 ->
    (forall u, In u us -> (inject_Z (dlo - 1) <= u)%Q /\ (u < inject_Z (dhi - 1))%Q) ->
    dhi - 1 <= cvrp_capacity override num_loc ->
    (* CVRPTWGenerator part: integer max_time Tz, samples in range, far customers excluded *)
    cvrptw_samples_ok (inject_Z Tz) cust -> cust <> [] -> length us = length cust ->
    (* the scaled integer tables represent the generator's rationals *)
    0 < S -> cvrptw_tables_ok S D dz cust ->
    let i := cvrptw_of_gen S (gen_cvrp (cvrp_capacity override num_loc) us D) (inject_Z Tz) cust dz in
    cvrptw_wfb i = true /\ cvrptw_solvableb i = true /\
    forall acts : list nat, adm (E:=CVRPTW exact) i acts = true ->
      anyb (mask (CVRPTW exact) i (run (E:=CVRPTW exact) i acts)) = true /\
      (forall a, offered (E:=CVRPTW exact) i (run (E:=CVRPTW exact) i acts) a = true ->
                 stepok (CVRPTW exact) i (run (E:=CVRPTW exact) i acts) a = true) /\
      ((forall p q, acts = p ++ q -> q <> [] -> done (CVRPTW exact) i (run (E:=CVRPTW exact) i p) = false) ->
       (length acts <= 2 * length cust + 1)%nat) /\
      (forall a, adm (E:=CVRPTW exact) i (acts ++ [a]) = true -> done (CVRPTW exact) i (run (E:=CVRPTW exact) i acts) = true ->
                 done (CVRPTW exact) i (run (E:=CVRPTW exact) i (acts ++ [a])) = true).
Proof.
  intros num ovr dlo dhi us D S Tz cust dz Hlo Hus Hcap Hsamp Hne Hlen HS Htab i.
  destruct (gen_cvrp_wf num ovr dlo dhi us D Hlo Hus Hcap) as [Hwfb [Hsolb _]].
  set (b := gen_cvrp (cvrp_capacity ovr num) us D) in *.
  assert (Hn : n_of b = length cust) by (unfold b, gen_cvrp, n_of; cbn [dem]; rewrite map_length; exact Hlen).
  assert (Htab' : cvrptw_tables_ok S (dist b) dz cust) by exact Htab.
  pose proof (gen_cvrptw_env_wfb S b (inject_Z Tz) cust dz HS Hn Hsamp Htab' Hwfb Hsolb Hne) as W1.
  pose proof (gen_cvrptw_env_solvableb S b (inject_Z Tz) cust dz HS Hn Hsamp Htab' Hwfb Hsolb Hne Tz ltac:(reflexivity)) as W2.
  fold i in W1, W2. split; [exact W1|]. split; [exact W2|].
  pose proof (cvrptw_wfb_ok i W1) as Hwf. pose proof (cvrptw_solvableb_ok i W2) as Hsol.
  assert (Htn : tn_of i = length cust) by exact Hn.
  intros acts Hadm. split; [apply cvrptw_no_dead_end; assumption|]. split; [|split].
  - intros a Ho. apply cvrptw_step_ok; try assumption. rewrite Htn. destruct cust; [congruence|cbn; lia].
  - intros Hnd. rewrite <- Htn. apply cvrptw_bound; assumption.
  - intros a Ha Hd. apply cvrptw_done_stable; assumption.
Qed.

(* max_time NOT an integer: `max_times[..., :, 0] = self.max_time` stores int(max_time) in the integer tensor, while the
   customers' upper bounds were computed from the un-truncated max_time.  The generator's own guarantee
   (tw_hi + dur + d <= max_time, [cvrptw_customer_okb]) is then weaker than what the env needs
   (tw_hi + dur + d <= depot deadline = int(max_time)): the bridge is FALSE, with a genuine dead end.
   Witness: max_time 480.5, three customers at distance 1/4 from the depot (1 and 2 at the same place, 3 opposite),
   draws (0.998, 0.9999) => every window is [479, 480]; scale 4.  After 1, 3, 2 the clock reads 480, the depot is 1/4
   away and closes at int(480.5) = 480: nothing is offered and the row is not finished. *)
Definition cvrptw_noninteger_cust : list (Q * Q * Q * Q) :=
  [((1 # 4), 0, (998 # 1000), (9999 # 10000))%Q; ((1 # 4), 0, (998 # 1000), (9999 # 10000))%Q; ((1 # 4), 0, (998 # 1000), (9999 # 10000))%Q].
Definition cvrptw_noninteger_base : cvrp_inst :=
  gen_cvrp (cvrp_capacity None 3) [0; 0; 0]%Q [[0; 1; 1; 1]; [1; 0; 0; 2]; [1; 0; 0; 2]; [1; 2; 2; 0]].
Definition cvrptw_noninteger_inst : cvrptw_inst :=
  cvrptw_of_gen 4 cvrptw_noninteger_base (961 # 2) cvrptw_noninteger_cust [0; 0; 0].

Theorem gen_cvrptw_noninteger_max_time_refuted :
  cvrptw_samples_ok (961 # 2) cvrptw_noninteger_cust /\
  cvrptw_tables_ok 4 (dist cvrptw_noninteger_base) [0; 0; 0] cvrptw_noninteger_cust /\
  cvrp_wfb cvrptw_noninteger_base = true /\ cvrp_solvableb cvrptw_noninteger_base = true /\
  (forall j, (j < 3)%nat ->
     cvrptw_customer_okb (961 # 2) (1 # 4) 0 (nth (Datatypes.S j) (gen_cvrptw (961 # 2) cvrptw_noninteger_cust) (0, 0)) = true) /\
  let i := cvrptw_noninteger_inst in
  cvrptw_wfb i = true /\ cvrptw_returnb i = false /\ cvrptw_solvableb i = false /\
  adm (E:=CVRPTW exact) i [1; 3; 2]%nat = true /\
  done (CVRPTW exact) i (run (E:=CVRPTW exact) i [1; 3; 2]%nat) = false /\
  anyb (mask (CVRPTW exact) i (run (E:=CVRPTW exact) i [1; 3; 2]%nat)) = false.
Proof.
  split; [|split; [|split; [|split; [|split]]]].
  - intros d dur t1 t2 Hin. unfold cvrptw_noninteger_cust in Hin.
    assert (E : (d, dur, t1, t2) = ((1 # 4), 0, (998 # 1000), (9999 # 10000))%Q) by (destruct Hin as [H|[H|[H|[]]]]; symmetry; exact H).
    inversion E; subst.
    repeat split; try (apply Qle_bool_iff; vm_compute; reflexivity); try (vm_compute; reflexivity); vm_compute; discriminate.
  - unfold cvrptw_tables_ok. cbn [length cvrptw_noninteger_cust]. split; [|split; [reflexivity|split; [reflexivity|]]].
    + intros a b Ha Hb. destruct a as [|[|[|[|a]]]]; destruct b as [|[|[|[|b]]]]; try lia; vm_compute; discriminate.
    + intros j Hj. destruct j as [|[|[|j]]]; try lia; (split; [|split]); unfold repr; vm_compute; reflexivity.
  - reflexivity.
  - reflexivity.
  - intros j Hj. destruct j as [|[|[|j]]]; try lia; vm_compute; reflexivity.
  - vm_compute. repeat split.
Qed.

(* ================================================================== SVRP *)
From RL4CO Require Import Env.SVRP Env.SVRPProofs.

Lemma Forall2_repr_In S zs qs z : Forall2 (repr S) zs qs -> In z zs -> exists q, In q qs /\ repr S z q.
Proof.
  induction 1 as [|z0 q0 zs qs H0 _ IH]; intros Hin; [destruct Hin|].
  destruct Hin as [<-|Hin]; [exists q0; split; [left; reflexivity|exact H0]|].
  destruct (IH Hin) as (q & Hq & Hr). exists q. split; [right; exact Hq|exact Hr].
Qed.
Lemma Forall2_len {A B} (R : A -> B -> Prop) l1 l2 : Forall2 R l1 l2 -> length l1 = length l2.
Proof. induction 1; cbn; congruence. Qed.
Lemma Forall2_repr_last S zs qs : Forall2 (repr S) zs qs -> repr S (nth (length zs - 1) zs 0) (last qs 0%Q).
Proof.
  induction 1 as [|z0 q0 zs qs H0 HF IH]; [apply repr_0|].
  destruct HF as [|z1 q1 zs qs H1 HF]; [exact H0|].
  cbn [length] in *. replace (Datatypes.S (Datatypes.S (length zs)) - 1)%nat with (Datatypes.S (Datatypes.S (length zs) - 1)) by lia.
  exact IH.
Qed.

(* the env instance: technician skills [tz] and customer requirements [sz] represent the generator's rationals at scale S;
   tech_costs (an env attribute) and the distance table are arbitrary *)
Definition svrp_of_gen (tz sz tc : list Z) (sd : list (list Z)) : svrp_inst :=
  {| techs := tz; skills := sz; tcosts := tc; sdist := sd |}.

Theorem gen_svrp_env_ok :
  forall (raw us : list Q) (S : Z) (tz sz tc : list Z) (sd : list (list Z)),
    raw <> [] -> (forall t, In t raw -> (0 <= t)%Q) -> (forall u, In u us -> (0 <= u)%Q /\ (u <= 1)%Q) -> us <> [] ->
    0 < S ->
    Forall2 (repr S) tz (svrp_techs raw) -> Forall2 (repr S) sz (svrp_skills (svrp_techs raw) us) ->
    length tc = length raw ->
    let i := svrp_of_gen tz sz tc sd in
    svrp_wfb i = true /\ SVRPProofs.svrp_solvableb i = true /\ sm_of i = length raw /\ sn_of i = length us.
Proof.
  intros raw us S tz sz tc sd Hne Hraw Hus Hune HS Ht Hs Hlc i.
  destruct (gen_svrp_wf raw us Hne Hraw Hus) as (L1 & L2 & _ & Hsol).
  assert (Hm : sm_of i = length raw) by (unfold sm_of, i; cbn [techs svrp_of_gen]; rewrite (Forall2_len _ _ _ Ht); exact L1).
  assert (Hn : sn_of i = length us) by (unfold sn_of, i; cbn [skills svrp_of_gen]; rewrite (Forall2_len _ _ _ Hs); exact L2).
  split; [|split; [|split; assumption]].
  - unfold svrp_wfb. rewrite Hm, Hn. cbn [tcosts i svrp_of_gen]. rewrite Hlc, Nat.eqb_refl.
    destruct raw; [congruence|]. destruct us; [congruence|]. reflexivity.
  - unfold SVRPProofs.svrp_solvableb. apply forallb_forall. intros z Hz. cbn [skills i svrp_of_gen] in Hz.
    destruct (Forall2_repr_In S _ _ z Hs Hz) as (q & Hq & Hr).
    unfold GenRouting.svrp_solvableb in Hsol. apply andb_prop in Hsol as [_ Hall]. rewrite forallb_forall in Hall.
    specialize (Hall q Hq). apply Qle_bool_iff in Hall.
    apply Z.leb_le. unfold tskill, sm_of. cbn [techs i svrp_of_gen].
    exact (repr_le S _ _ _ _ HS Hr (Forall2_repr_last S _ _ Ht) Hall).
Qed.

(* [fx] = the switch of Env/SVRP.v: true = the repaired behaviour the current tree has, false = the code before the repair
   (for which "no raise" holds only under the side conditions of the C02 theorems, repeated here) *)
Theorem gen_svrp_complete :
  forall (fx : bool) (raw us : list Q) (S : Z) (tz sz tc : list Z) (sd : list (list Z)),
    raw <> [] -> (forall t, In t raw -> (0 <= t)%Q) -> (forall u, In u us -> (0 <= u)%Q /\ (u <= 1)%Q) -> us <> [] ->
    0 < S ->
    Forall2 (repr S) tz (svrp_techs raw) -> Forall2 (repr S) sz (svrp_skills (svrp_techs raw) us) ->
    length tc = length raw ->
    let i := svrp_of_gen tz sz tc sd in
    forall acts : list nat, adm (E:=SVRP fx) i acts = true ->
      ((fx = true \/ ok_from (E:=SVRP fx) i (reset (SVRP fx) i) acts = true) ->
       anyb (mask (SVRP fx) i (run (E:=SVRP fx) i acts)) = true) /\
      (forall a, offered (E:=SVRP fx) i (run (E:=SVRP fx) i acts) a = true ->
                 (fx = true \/ (done (SVRP fx) i (run (E:=SVRP fx) i acts) = false /\ (2 <= length raw)%nat)) ->
                 stepok (SVRP fx) i (run (E:=SVRP fx) i acts) a = true) /\
      ((forall p q, acts = p ++ q -> q <> [] -> done (SVRP fx) i (run (E:=SVRP fx) i p) = false) ->
       (length acts <= length us + length raw)%nat) /\
      (forall a, adm (E:=SVRP fx) i (acts ++ [a]) = true -> done (SVRP fx) i (run (E:=SVRP fx) i acts) = true ->
                 done (SVRP fx) i (run (E:=SVRP fx) i (acts ++ [a])) = true).
Proof.
  intros fx raw us S tz sz tc sd Hne Hraw Hus Hune HS Ht Hs Hlc i acts Hadm.
  destruct (gen_svrp_env_ok raw us S tz sz tc sd Hne Hraw Hus Hune HS Ht Hs Hlc) as (Hwfb & Hsolb & Hm & Hn).
  fold i in Hwfb, Hsolb, Hm, Hn. apply svrp_wfb_ok in Hwfb. apply SVRPProofs.svrp_solvableb_ok in Hsolb.
  split; [|split; [|split]].
  - intros Hh. apply (svrp_no_dead_end fx); assumption.
  - intros a Ho Hh. apply (svrp_step_ok fx); try assumption. rewrite Hm. exact Hh.
  - intros Hnd. rewrite <- Hm, <- Hn. apply (svrp_bound fx); assumption.
  - intros a Ha Hd. apply (svrp_done_stable fx); assumption.
Qed.

Example gen_svrp_complete_ex :
  let raw := [(7 # 2); 1; 9]%Q in let us := [(1 # 2); (99 # 100)]%Q in
  svrp_techs raw = [1; (7 # 2); 9]%Q /\
  Forall2 (repr 200) [200; 700; 1800] (svrp_techs raw) /\ Forall2 (repr 200) [900; 1782] (svrp_skills (svrp_techs raw) us) /\
  let i := svrp_of_gen [200; 700; 1800] [900; 1782] [1; 2; 3] [] in
  adm (E:=SVRP true) i [0; 0; 1; 2; 0]%nat = true /\ done (SVRP true) i (run (E:=SVRP true) i [0; 0; 1; 2; 0]%nat) = true /\
  mask (SVRP true) i (run (E:=SVRP true) i []) = [true; false; false].
Proof.
  cbv zeta. split; [reflexivity|]. split; [|split].
  - repeat constructor; unfold repr; vm_compute; reflexivity.
  - repeat constructor; unfold repr; vm_compute; reflexivity.
  - vm_compute. repeat split.
Qed.

(* ================================================================== OP *)
From RL4CO Require Import Env.OP Env.OPProofs.

(* the env instance: [ml] represents the generator's max_length (table entry for num_loc, closest key off the table, or
   a non-negative override) at scale S; prizes, the 1e-6 constant (>= 0), the 1e-5 tolerance and the distance table
   (zero from the depot to itself) are the env's.  OP needs no solvability condition: the depot is always offered. *)
Definition op_of_gen (pzs : list Z) (ml epsz : Z) (D : list (list Z)) (tolz : Z) : op_inst :=
  {| prz := pzs; maxlen := ml; eps := epsz; odist := D; otol := tolz |}.

Lemma op_max_length_nonneg override num_loc :
  (forall l, override = Some l -> (0 <= l)%Q) -> (0 <= op_max_length override num_loc)%Q.
Proof.
  intros H. destruct override as [l|]; cbn [op_max_length]; [apply H; reflexivity|].
  change 0%Q with (inject_Z 0). rewrite <- Zle_Qle. pose proof (op_max_length_table num_loc) as Hin. cbn in Hin. intuition lia.
Qed.

Theorem gen_op_complete :
  forall (override : option Q) (num_loc : Z) (S : Z) (pzs : list Z) (ml epsz : Z) (D : list (list Z)) (tolz : Z),
    (forall l, override = Some l -> (0 <= l)%Q) ->
    0 < S -> repr S ml (op_max_length override num_loc) -> 0 <= epsz -> mget D 0 0 = 0 ->
    let i := op_of_gen pzs ml epsz D tolz in
    op_wfb i = true /\
    forall acts : list nat, adm (E:=OP exact) i acts = true ->
      anyb (mask (OP exact) i (run (E:=OP exact) i acts)) = true /\
      (forall a, offered (E:=OP exact) i (run (E:=OP exact) i acts) a = true ->
                 stepok (OP exact) i (run (E:=OP exact) i acts) a = true) /\
      ((forall p q, acts = p ++ q -> q <> [] -> done (OP exact) i (run (E:=OP exact) i p) = false) ->
       (length acts <= Nat.max (length pzs + 1) 2)%nat) /\
      (forall a, adm (E:=OP exact) i (acts ++ [a]) = true -> done (OP exact) i (run (E:=OP exact) i acts) = true ->
                 done (OP exact) i (run (E:=OP exact) i (acts ++ [a])) = true).
Proof.
  intros ovr num S pzs ml epsz D tolz Hovr HS Hml Heps H00 i.
  assert (Hwf : op_wf i).
  { unfold op_wf, i, op_of_gen, odfun. cbn [maxlen eps odist]. split; [|split; [exact Heps|exact H00]].
    apply (repr_nonneg S ml _ HS Hml). apply op_max_length_nonneg. exact Hovr. }
  split; [apply op_wfb_ok; exact Hwf|].
  intros acts Hadm. split; [apply op_no_dead_end|]. split; [|split].
  - intros a Ho. apply op_step_ok. exact Ho.
  - intros Hnd. change (length pzs) with (op_n i). apply op_bound; assumption.
  - intros a Ha Hd. apply op_done_stable; assumption.
Qed.

Example gen_op_complete_ex :
  op_max_length None 20 = 2%Q /\ op_max_length None 37 = 3%Q /\ repr 100 200 (op_max_length None 20) /\
  let i := op_of_gen (op_prizes_unif [4; 99; 0]) 200 1 [[0; 50; 60; 90]; [50; 0; 30; 70]; [60; 30; 0; 80]; [90; 70; 80; 0]] 0 in
  prz i = [5; 100; 1] /\
  adm (E:=OP exact) i [1; 2; 0]%nat = true /\ done (OP exact) i (run (E:=OP exact) i [1; 2; 0]%nat) = true /\
  mask (OP exact) i (run (E:=OP exact) i [1; 2]%nat) = [true; false; false; false].
Proof. cbv zeta. split; [reflexivity|]. split; [reflexivity|]. split; [unfold repr; vm_compute; reflexivity|]. vm_compute. repeat split. Qed.

(* ================================================================== PDP *)
From RL4CO Require Import Env.PDP Env.PDPProofs.

(* the env instance: generator size = the requested num_loc rounded up to the next even number ([pdp_num_loc]); the
   distance table of depot :: locs has that many + 1 rows, is symmetric and zero from the depot to itself *)
Definition pdp_of_gen (num_loc : Z) (force : bool) (D : list (list Z)) : pdp_inst :=
  {| pgen_n := Z.to_nat (pdp_num_loc num_loc); pforce := force; pdist := D |}.

Theorem gen_pdp_env_wf :
  forall (num_loc : Z) (force : bool) (D : list (list Z)),
    1 <= num_loc ->
    length D = Datatypes.S (Z.to_nat (pdp_num_loc num_loc)) ->
    (forall a b, mget D a b = mget D b a) -> mget D 0 0 = 0 ->
    pdp_wf (pdp_of_gen num_loc force D).
Proof.
  intros n f D Hn HL Hsym H00. destruct (pdp_pairing n ltac:(lia)) as (Hmod & Hrng & _).
  set (m := pdp_num_loc n) in *. unfold pdp_wf, pdp_of_gen, pdp_d. cbn [pgen_n pdist]. fold m.
  assert (Hm2 : m = 2 * (m / 2)) by (pose proof (Z.div_mod m 2 ltac:(lia)); lia).
  assert (Hh : 1 <= m / 2) by lia.
  split; [|split; [lia|split; [exact HL|split; [exact Hsym|exact H00]]]].
  apply Nat.even_spec. exists (Z.to_nat (m / 2)).
  change 2%nat with (Z.to_nat 2). rewrite <- (Z2Nat.inj_mul 2 (m / 2)) by lia. f_equal. exact Hm2.
Qed.

Theorem gen_pdp_complete :
  forall (num_loc : Z) (force : bool) (D : list (list Z)),
    1 <= num_loc ->
    length D = Datatypes.S (Z.to_nat (pdp_num_loc num_loc)) ->
    (forall a b, mget D a b = mget D b a) -> mget D 0 0 = 0 ->
    let i := pdp_of_gen num_loc force D in
    let n := Z.to_nat (pdp_num_loc num_loc) in
    forall acts : list nat, adm (E:=PDP) i acts = true ->
      (done PDP i (run (E:=PDP) i acts) = false -> anyb (mask PDP i (run (E:=PDP) i acts)) = true) /\
      (forall a, offered (E:=PDP) i (run (E:=PDP) i acts) a = true -> stepok PDP i (run (E:=PDP) i acts) a = true) /\
      (length acts <= n + if force then 1 else 0)%nat /\
      (done PDP i (run (E:=PDP) i acts) = true <-> length (if force then acts else 0%nat :: acts) = (n + 1)%nat) /\
      (forall a, adm (E:=PDP) i (acts ++ [a]) = true -> done PDP i (run (E:=PDP) i acts) = true ->
                 done PDP i (run (E:=PDP) i (acts ++ [a])) = true).
Proof.
  intros num f D Hn HL Hsym H00 i n acts Hadm.
  pose proof (gen_pdp_env_wf num f D Hn HL Hsym H00) as Hwf. fold i in Hwf.
  split; [intros Hd; apply pdp_no_dead_end; assumption|]. split; [|split; [|split]].
  - intros a Ho. apply pdp_step_ok; assumption.
  - exact (pdp_bound i acts Hwf Hadm).
  - exact (pdp_done_iff i acts Hwf Hadm).
  - intros a Ha Hd. apply pdp_done_stable; assumption.
Qed.

Example gen_pdp_complete_ex :
  pdp_num_loc 3 = 4 /\
  let D := [[0;1;2;3;4]; [1;0;1;2;3]; [2;1;0;1;2]; [3;2;1;0;1]; [4;3;2;1;0]] in
  let i := pdp_of_gen 3 false D in
  pdp_wfb i = true /\ adm (E:=PDP) i [2; 1; 4; 3]%nat = true /\ done PDP i (run (E:=PDP) i [2; 1; 4; 3]%nat) = true.
Proof. vm_compute. repeat split. Qed.

(* ================================================================== the hypotheses above, spelled out (for Properties/) *)
Lemma repr_unfold : forall (S z : Z) (q : Q), repr S z q <-> (inject_Z z == inject_Z S * q)%Q.
Proof. intros. reflexivity. Qed.

Lemma cvrptw_samples_ok_unfold : forall (T : Q) (cust : list (Q * Q * Q * Q)),
  cvrptw_samples_ok T cust <->
  (forall d dur t1 t2 : Q, In (d, dur, t1, t2) cust ->
     (0 <= d)%Q /\ (0 <= dur)%Q /\ (0 <= t1)%Q /\ (t1 < 1)%Q /\ (0 <= t2)%Q /\ (t2 < 1)%Q /\
     (d <= T - d - dur)%Q /\ Qfloor d + 1 <= Qfloor (T - d - dur)).
Proof. intros. reflexivity. Qed.

Lemma cvrptw_tables_ok_unfold : forall (S : Z) (D : list (list Z)) (dz : list Z) (cust : list (Q * Q * Q * Q)),
  cvrptw_tables_ok S D dz cust <->
  ((forall a b : nat, (a <= length cust)%nat -> (b <= length cust)%nat -> 0 <= mget D a b) /\
   mget D 0 0 = 0 /\
   length dz = length cust /\
   forall j : nat, (j < length cust)%nat ->
     repr S (mget D 0 (Datatypes.S j)) (cust_d cust j) /\ repr S (mget D (Datatypes.S j) 0) (cust_d cust j) /\
     repr S (nth j dz 0) (cust_dur cust j)).
Proof. intros. reflexivity. Qed.

Lemma cvrptw_of_gen_unfold : forall (S : Z) (b : cvrp_inst) (T : Q) (cust : list (Q * Q * Q * Q)) (dz : list Z),
  cvrptw_of_gen S b T cust dz =
  {| base := b;
     twlo := map (fun w => fst w * S) (gen_cvrptw T cust);
     twhi := map (fun w => snd w * S) (gen_cvrptw T cust);
     durs := 0 :: dz; tu := S; hz0 := Qtrunc T * S; tsl := 0 |}.
Proof. intros. reflexivity. Qed.

(* ================================================================== CVRPTW non-vacuity *)
(* max_time 480, scale 2; customer 1 at distance 50.5 with draws (1/4, 3/4), customer 2 at distance 30 with equal draws
   (both truncate to 240: step 7 of the generator repairs the window to [239, 240]) *)
Definition cvrptw_ex_cust : list (Q * Q * Q * Q) := [((101 # 2), 0, (1 # 4), (3 # 4))%Q; (30, 0, (1 # 2), (1 # 2))%Q].
Definition cvrptw_ex_D : list (list Z) := [[0; 101; 60]; [101; 0; 80]; [60; 80; 0]].
Definition cvrptw_ex_inst : cvrptw_inst :=
  cvrptw_of_gen 2 (gen_cvrp (cvrp_capacity None 2) [3; (5 # 2)]%Q cvrptw_ex_D) 480 cvrptw_ex_cust [0; 0].

Example gen_cvrptw_complete_ex :
  cvrptw_samples_ok 480 cvrptw_ex_cust /\ cvrptw_tables_ok 2 cvrptw_ex_D [0; 0] cvrptw_ex_cust /\
  gen_cvrptw 480 cvrptw_ex_cust = [(0, 480); (145, 334); (239, 240)] /\
  adm (E:=CVRPTW exact) cvrptw_ex_inst [1; 2; 0]%nat = true /\
  done (CVRPTW exact) cvrptw_ex_inst (run (E:=CVRPTW exact) cvrptw_ex_inst [1; 2; 0]%nat) = true /\
  done (CVRPTW exact) cvrptw_ex_inst (run (E:=CVRPTW exact) cvrptw_ex_inst [1; 2]%nat) = false.
Proof.
  split; [|split].
  - intros d dur t1 t2 Hin. unfold cvrptw_ex_cust in Hin.
    destruct Hin as [H|[H|[]]]; inversion H; subst;
      repeat split; try (apply Qle_bool_iff; vm_compute; reflexivity); try (vm_compute; reflexivity); vm_compute; discriminate.
  - unfold cvrptw_tables_ok. cbn [length cvrptw_ex_cust]. split; [|split; [reflexivity|split; [reflexivity|]]].
    + intros a b Ha Hb. destruct a as [|[|[|a]]]; destruct b as [|[|[|b]]]; try lia; vm_compute; discriminate.
    + intros j Hj. destruct j as [|[|j]]; try lia; (split; [|split]); unfold repr; vm_compute; reflexivity.
  - vm_compute. repeat split.
Qed.
