(* Composition C18 x C02, scheduling environments: every instance the FJSP / JSSP / FFSP / SMTWTP generators emit is
   solvable -- a mask-confined episode started from it never crashes, never meets a dead end, and completes within
   the environment's step bound.

   Generator side (C18, Data/GenSched.v): [gen_fjsp_wf], [gen_jssp_wf], [gen_ffsp_wf], [gen_smtwtp_wf] give the
   environments' OWN input predicates ([FJSP.wfb], [FJSP.solvableb], [FJSP.jssp_wfb], [FFSP.wfb], [SMTWTP.wfb]) from the
   ranges of the raw draws.  Environment side (C02, Env/FJSPProofs.v, Env/SchedBatch.v, Env/FFSPProofs.v,
   Env/SchedBatch2.v, Env/FFSPBound.v): no dead end, offered steps never raise, step bound, done stable -- under exactly
   these predicates.  Here the two are composed; nothing is re-modelled.

   Each env first gets [<env>_episode_complete] (the C02 theorems packaged into one statement about one admitted
   action list, for ANY well-formed instance) and then [<env>_generated_instances_complete] (the same with the
   well-formedness discharged by the generator theorem; the hypotheses are the generator theorem's, verbatim).

   Added to what C02 states, and derived here from its theorems (no new invariant): "long enough => done".  If an
   admitted action list is at least as long as the step bound, the state it reaches is done.  (Were it not, no prefix
   would be done -- done is stable --, the state would offer an action, the extended list would have all proper
   prefixes unfinished and exceed the bound.)  Together with "no dead end" and "offered steps never raise" this is the
   sentence "a mask-confined episode always completes": whatever the policy picks among the offered actions, the
   row is finished after at most bound steps.

   FFSP: the generator theorem assumes [ffsp_mtab_okb i] (the machine table is built by the environment's IndexTables,
   not by the generator); that hypothesis is kept.  SMTWTP: the non-negativity hypothesis of the generator theorem is
   kept verbatim although completion does not use it. *)
From Coq Require Import ZArith List Bool Lia ZifyBool Arith Permutation.
From RL4CO Require Import Base.FFSPLists Spec.Schedule Spec.FlowShop.
From RL4CO Require Import Env.FFSP Env.FFSPProofs Env.SMTWTP Env.SchedBatch2 Env.FFSPBound.
From RL4CO Require Import Env.FJSP Env.FJSPProofs Env.SchedBatch Data.GenSched.
Import ListNotations.
Open Scope nat_scope.

(* ================================================================ generic: long enough => done *)
Lemma snoc_split {A} (acts p q : list A) (a : A) : acts ++ [a] = p ++ q -> q <> [] -> exists q', acts = p ++ q'.
Proof.
  intros E Hq. destruct (exists_last Hq) as (q' & x & Eq). subst q. rewrite app_assoc in E.
  apply app_inj_tail in E as [E _]. exists q'. exact E.
Qed.

Section LongEnough.
  Variables (St : Type) (R : list nat -> St -> Prop) (dn : St -> bool) (Bnd : nat -> Prop).
  (* R acts s: [acts] is mask-confined from reset and reaches [s] *)
  Hypothesis R_stable : forall p q sp s, R p sp -> dn sp = true -> R (p ++ q) s -> dn s = true.
  Hypothesis R_extend : forall acts s, R acts s -> dn s = false -> exists a s', R (acts ++ [a]) s'.
  Hypothesis R_bound : forall acts s, R acts s ->
    (forall p q sp, acts = p ++ q -> q <> [] -> R p sp -> dn sp = false) -> Bnd (length acts).

  Lemma long_enough_done acts s : R acts s -> ~ Bnd (S (length acts)) -> dn s = true.
  Proof.
    intros HR Hn. destruct (dn s) eqn:Ed; [reflexivity|]. exfalso.
    destruct (R_extend acts s HR Ed) as (a & s' & HR'). apply Hn.
    replace (S (length acts)) with (length (acts ++ [a])) by (rewrite app_length; cbn; lia).
    apply (R_bound _ s' HR'). intros p q sp E Hq Hp.
    destruct (dn sp) eqn:Edp; [|reflexivity]. exfalso.
    destruct (snoc_split acts p q a E Hq) as [q' Eq]. subst acts.
    pose proof (R_stable p q' sp s Hp Edp HR). congruence.
  Qed.
End LongEnough.

(* ================================================================ FJSP *)
Definition fjsp_R (cfg : bool) (i : FJSP.inst) (acts : list nat) (s : FJSP.st) : Prop :=
  FJSP.admb cfg i (FJSP.reset i) acts = true /\ FJSP.run cfg i (FJSP.reset i) acts = Some s.

Lemma fjsp_mask_offered cfg i s :
  existsb (fun b => b) (FJSP.mask cfg i s) = true -> exists a, FJSP.maskb cfg i s a = true.
Proof.
  intros H. apply existsb_exists in H as (b & Hin & Hb). subst b. unfold FJSP.mask in Hin.
  apply in_map_iff in Hin as (a & Ha & _). exists a. exact Ha.
Qed.

Lemma fjsp_R_snoc cfg i acts s a s' :
  fjsp_R cfg i acts s -> FJSP.maskb cfg i s a = true -> FJSP.step cfg i s a = Some s' -> fjsp_R cfg i (acts ++ [a]) s'.
Proof.
  intros [Ha Hr] Hm Hs. split.
  - rewrite (FJSPProofs.admb_app cfg i acts [a] _ s Hr), Ha. cbn [FJSP.admb]. rewrite Hm, Hs. reflexivity.
  - rewrite FJSPProofs.run_app, Hr. cbn [FJSP.run]. rewrite Hs. reflexivity.
Qed.

(* the C02 theorems of FJSP about one admitted action list, for any well-formed solvable instance *)
Theorem fjsp_episode_complete (cfg : bool) (i : FJSP.inst) (acts : list nat) :
  FJSP.wfb i = true -> FJSP.solvableb i = true -> FJSP.admb cfg i (FJSP.reset i) acts = true ->
  exists s, FJSP.run cfg i (FJSP.reset i) acts = Some s /\
    existsb (fun b => b) (FJSP.mask cfg i s) = true /\
    (forall a, FJSP.maskb cfg i s a = true -> exists s', FJSP.step cfg i s a = Some s') /\
    ((forall p q sp, acts = p ++ q -> q <> [] -> FJSP.run cfg i (FJSP.reset i) p = Some sp -> FJSP.done sp = false) ->
     length acts <= step_bound cfg i) /\
    (step_bound cfg i <= length acts -> FJSP.done s = true).
Proof.
  intros Hw Sv Ha.
  destruct (FJSP.run cfg i (FJSP.reset i) acts) as [s|] eqn:Hr; [|exfalso; exact (FJSP_no_crash cfg i acts Hw Sv Ha Hr)].
  exists s. split; [reflexivity|]. split; [exact (FJSP_no_dead_end cfg i acts s Hw Sv Ha Hr)|]. split.
  - intros a Hm.
    destruct (fjsp_step_total cfg i s a Hw Sv (ex_intro _ acts (conj Ha Hr)) Hm) as (s' & Hs & _). exists s'. exact Hs.
  - split; [intros Hp; exact (FJSP_bound_prefix cfg i acts Hw Sv Ha Hp)|].
    intros Hlen.
    apply (long_enough_done FJSP.st (fjsp_R cfg i) FJSP.done (fun n => n <= step_bound cfg i)) with (acts := acts).
    + intros p q sp s1 [_ Hp] Hd [_ Hpq].
      destruct (fjsp_padding_inert_episode cfg i p q sp Hp Hd) as [E _]. rewrite E in Hpq. inversion Hpq; subst. exact Hd.
    + intros acts0 s0 [Ha0 Hr0] _.
      destruct (fjsp_mask_offered cfg i s0 (FJSP_no_dead_end cfg i acts0 s0 Hw Sv Ha0 Hr0)) as [a Hm].
      destruct (fjsp_step_total cfg i s0 a Hw Sv (ex_intro _ acts0 (conj Ha0 Hr0)) Hm) as (s' & Hs & _).
      exists a, s'. exact (fjsp_R_snoc cfg i acts0 s0 a s' (conj Ha0 Hr0) Hm Hs).
    + intros acts0 s0 [Ha0 Hr0] Hp. apply (FJSP_bound_prefix cfg i acts0 Hw Sv Ha0).
      intros p q sp E Hq Hrp. apply (Hp p q sp E Hq). split; [|exact Hrp].
      subst acts0. rewrite (FJSPProofs.admb_app cfg i p q _ sp Hrp) in Ha0. apply andb_prop in Ha0. tauto.
    + split; assumption.
    + lia.
Qed.

(* C18 x C02 *)
Theorem fjsp_generated_instances_complete :
  forall (ns : list nat) (maxops M : nat) (nelig : list nat) (idx : list (list nat)) (pt : list (list Z)),
    ns <> [] -> (forall k : nat, In k ns -> 1 <= k <= maxops) -> 1 <= M ->
    let nmax := maxops * length ns in
    (forall o : nat, o < list_sum ns -> 1 <= nth o nelig 0) ->
    (forall o : nat, o < list_sum ns -> Permutation (seq 0 M) (nth o idx [])) ->
    (forall m o : nat, m < M -> o < nmax -> (1 <= nth o (nth m pt []) 0)%Z) ->
    let i := gen_fjsp ns nmax M nelig idx pt in
    forall (cfg : bool) (acts : list nat),
      FJSP.admb cfg i (FJSP.reset i) acts = true ->
      exists s : FJSP.st,
        FJSP.run cfg i (FJSP.reset i) acts = Some s /\
        existsb (fun b => b) (FJSP.mask cfg i s) = true /\
        (forall a : nat, FJSP.maskb cfg i s a = true -> exists s' : FJSP.st, FJSP.step cfg i s a = Some s') /\
        ((forall (p q : list nat) (sp : FJSP.st), acts = p ++ q -> q <> [] ->
            FJSP.run cfg i (FJSP.reset i) p = Some sp -> FJSP.done sp = false) ->
         length acts <= (if cfg then list_sum ns else list_sum ns + list_sum ns)) /\
        ((if cfg then list_sum ns else list_sum ns + list_sum ns) <= length acts -> FJSP.done s = true).
Proof.
  intros ns maxops M nelig idx pt Hne Hns HM nmax Hel Hperm Hpt i cfg acts Ha.
  destruct (gen_fjsp_wf ns maxops M nelig idx pt Hne Hns HM Hel Hperm Hpt) as (Hw & Sv & _ & Ht).
  change (FJSP.total_ops i = list_sum ns) in Ht.
  destruct (fjsp_episode_complete cfg i acts Hw Sv Ha) as (s & Hr & Hnd & Hst & Hb & Hc).
  unfold step_bound in Hb, Hc. rewrite Ht in Hb, Hc.
  exists s. split; [exact Hr|]. split; [exact Hnd|]. split; [exact Hst|]. split; [exact Hb|exact Hc].
Qed.

(* ================================================================ JSSP *)
Definition jssp_R (cfg : bool) (i : FJSP.inst) (acts : list nat) (s : FJSP.st) : Prop :=
  FJSP.jssp_admb cfg i (FJSP.reset i) acts = true /\ FJSP.jssp_run cfg i (FJSP.reset i) acts = Some s.

Lemma jssp_run_app cfg i a b : forall s,
  FJSP.jssp_run cfg i s (a ++ b) = match FJSP.jssp_run cfg i s a with Some s1 => FJSP.jssp_run cfg i s1 b | None => None end.
Proof.
  induction a as [|x a IH]; intros s; cbn [app FJSP.jssp_run]; [reflexivity|].
  destruct (FJSP.jssp_step cfg i s x); [apply IH|reflexivity].
Qed.
Lemma jssp_admb_app cfg i a b : forall s s1, FJSP.jssp_run cfg i s a = Some s1 ->
  FJSP.jssp_admb cfg i s (a ++ b) = FJSP.jssp_admb cfg i s a && FJSP.jssp_admb cfg i s1 b.
Proof.
  induction a as [|x a IH]; intros s s1 H; cbn [app FJSP.jssp_run FJSP.jssp_admb] in *.
  - inversion H; subst. reflexivity.
  - destruct (FJSP.jssp_step cfg i s x) as [s2|]; [|discriminate]. rewrite (IH s2 s1 H). apply andb_assoc.
Qed.
Lemma jssp_run_done cfg i : forall q s, FJSP.done s = true -> FJSP.jssp_run cfg i s q = Some s.
Proof.
  induction q as [|a q IH]; intros s Hd; cbn [FJSP.jssp_run]; [reflexivity|].
  unfold FJSP.jssp_step. rewrite Hd. apply IH. exact Hd.
Qed.
Lemma jssp_mask_offered cfg i s :
  existsb (fun b => b) (FJSP.jssp_mask cfg i s) = true -> exists a, FJSP.jssp_maskb cfg i s a = true.
Proof.
  intros H. apply existsb_exists in H as (b & Hin & Hb). subst b. unfold FJSP.jssp_mask in Hin.
  apply in_map_iff in Hin as (a & Ha & _). exists a. exact Ha.
Qed.

(* an offered JSSP action can be stepped (the job -> machine translation finds its machine, no assert fails, the
   transit loop ends): [JSSP_embedding] on the action list extended by the offered action *)
Lemma jssp_offered_step cfg i acts s a :
  FJSP.wfb i = true -> FJSP.jssp_wfb i = true -> jssp_R cfg i acts s -> FJSP.jssp_maskb cfg i s a = true ->
  exists s', FJSP.jssp_step cfg i s a = Some s' /\ jssp_R cfg i (acts ++ [a]) s'.
Proof.
  intros Hw Jw [Ha Hr] Hm.
  assert (Ha' : FJSP.jssp_admb cfg i (FJSP.reset i) (acts ++ [a]) = true).
  { rewrite (jssp_admb_app cfg i acts [a] _ s Hr), Ha. cbn [FJSP.jssp_admb]. rewrite Hm.
    destruct (FJSP.jssp_step cfg i s a); reflexivity. }
  destruct (JSSP_embedding cfg i (acts ++ [a]) Hw Jw Ha') as (s' & _ & Hr' & _).
  pose proof Hr' as Hr''. rewrite jssp_run_app, Hr in Hr''. cbn [FJSP.jssp_run] in Hr''.
  destruct (FJSP.jssp_step cfg i s a) as [s1|] eqn:Es; [|discriminate]. inversion Hr''; subst s1.
  exists s'. split; [reflexivity|]. split; [exact Ha'|exact Hr'].
Qed.

Theorem jssp_episode_complete (cfg : bool) (i : FJSP.inst) (acts : list nat) :
  FJSP.wfb i = true -> FJSP.jssp_wfb i = true -> FJSP.jssp_admb cfg i (FJSP.reset i) acts = true ->
  exists s, FJSP.jssp_run cfg i (FJSP.reset i) acts = Some s /\
    existsb (fun b => b) (FJSP.jssp_mask cfg i s) = true /\
    (forall a, FJSP.jssp_maskb cfg i s a = true -> exists s', FJSP.jssp_step cfg i s a = Some s') /\
    ((forall p q sp, acts = p ++ q -> q <> [] -> FJSP.jssp_run cfg i (FJSP.reset i) p = Some sp -> FJSP.done sp = false) ->
     length acts <= step_bound cfg i) /\
    (step_bound cfg i <= length acts -> FJSP.done s = true).
Proof.
  intros Hw Jw Ha.
  destruct (JSSP_embedding cfg i acts Hw Jw Ha) as (s & _ & Hr & _).
  exists s. split; [exact Hr|]. split; [exact (JSSP_no_dead_end cfg i acts s Hw Jw Ha Hr)|]. split.
  - intros a Hm. destruct (jssp_offered_step cfg i acts s a Hw Jw (conj Ha Hr) Hm) as (s' & Hs & _). exists s'. exact Hs.
  - split; [intros Hp; exact (jssp_bound_prefix cfg i acts Hw Jw Ha Hp)|].
    intros Hlen.
    apply (long_enough_done FJSP.st (jssp_R cfg i) FJSP.done (fun n => n <= step_bound cfg i)) with (acts := acts).
    + intros p q sp s1 [_ Hp] Hd [_ Hpq].
      rewrite jssp_run_app, Hp, (jssp_run_done cfg i q sp Hd) in Hpq. inversion Hpq; subst. exact Hd.
    + intros acts0 s0 [Ha0 Hr0] _.
      destruct (jssp_mask_offered cfg i s0 (JSSP_no_dead_end cfg i acts0 s0 Hw Jw Ha0 Hr0)) as [a Hm].
      destruct (jssp_offered_step cfg i acts0 s0 a Hw Jw (conj Ha0 Hr0) Hm) as (s' & _ & HR'). exists a, s'. exact HR'.
    + intros acts0 s0 [Ha0 Hr0] Hp. apply (jssp_bound_prefix cfg i acts0 Hw Jw Ha0).
      intros p q sp E Hq Hrp. apply (Hp p q sp E Hq). split; [|exact Hrp].
      subst acts0. rewrite (jssp_admb_app cfg i p q _ sp Hrp) in Ha0. apply andb_prop in Ha0. tauto.
    + split; assumption.
    + lia.
Qed.

Theorem jssp_generated_instances_complete :
  forall (ns : list nat) (maxops M : nat) (ids : list nat) (pt : list (list Z)),
    ns <> [] -> (forall k : nat, In k ns -> 1 <= k <= maxops) -> 1 <= M ->
    let nmax := maxops * length ns in
    (forall o : nat, o < nmax -> nth o ids 0 < M) ->
    (forall m o : nat, m < M -> o < nmax -> (1 <= nth o (nth m pt []) 0)%Z) ->
    let i := gen_jssp ns nmax M ids pt in
    forall (cfg : bool) (acts : list nat),
      FJSP.jssp_admb cfg i (FJSP.reset i) acts = true ->
      exists s : FJSP.st,
        FJSP.jssp_run cfg i (FJSP.reset i) acts = Some s /\
        existsb (fun b => b) (FJSP.jssp_mask cfg i s) = true /\
        (forall a : nat, FJSP.jssp_maskb cfg i s a = true -> exists s' : FJSP.st, FJSP.jssp_step cfg i s a = Some s') /\
        ((forall (p q : list nat) (sp : FJSP.st), acts = p ++ q -> q <> [] ->
            FJSP.jssp_run cfg i (FJSP.reset i) p = Some sp -> FJSP.done sp = false) ->
         length acts <= (if cfg then list_sum ns else list_sum ns + list_sum ns)) /\
        ((if cfg then list_sum ns else list_sum ns + list_sum ns) <= length acts -> FJSP.done s = true).
Proof.
  intros ns maxops M ids pt Hne Hns HM nmax Hids Hpt i cfg acts Ha.
  destruct (gen_jssp_wf ns maxops M ids pt Hne Hns HM Hids Hpt) as (Hw & _ & Jw & Ht).
  change (FJSP.total_ops i = list_sum ns) in Ht.
  destruct (jssp_episode_complete cfg i acts Hw Jw Ha) as (s & Hr & Hnd & Hst & Hb & Hc).
  unfold step_bound in Hb, Hc. rewrite Ht in Hb, Hc.
  exists s. split; [exact Hr|]. split; [exact Hnd|]. split; [exact Hst|]. split; [exact Hb|exact Hc].
Qed.

(* ================================================================ FFSP *)
Definition ffsp_R (i : FFSP.inst) (acts : list nat) (s : FFSP.st) : Prop :=
  FFSP.adm i (FFSP.reset i) acts = true /\ FFSP.run i (FFSP.reset i) acts = Some s.
(* THE step bound of C02 (ffsp_step_bound) *)
Definition ffsp_B (i : FFSP.inst) : Z :=
  ((Z.of_nat (FFSP.nJ i * FFSP.nS i) * (Dall i + 2) + 2) * Z.of_nat (FFSP.nS i * FFSP.nM i))%Z.

Theorem ffsp_episode_complete (i : FFSP.inst) (acts : list nat) :
  FFSP.wfb i = true -> FFSP.adm i (FFSP.reset i) acts = true ->
  exists s, FFSP.run i (FFSP.reset i) acts = Some s /\
    (FFSP.done s = false -> exists j, j < FFSP.nJ i /\ nth j (FFSP.mask s) false = true) /\
    (FFSP.done s = true -> nth (FFSP.nJ i) (FFSP.mask s) false = true) /\
    (forall a, nth a (FFSP.mask s) false = true -> exists s', FFSP.step i s a = Some s') /\
    ((forall p q sp, acts = p ++ q -> q <> [] -> FFSP.run i (FFSP.reset i) p = Some sp -> FFSP.done sp = false) ->
     (Z.of_nat (length acts) <= ffsp_B i)%Z) /\
    ((ffsp_B i <= Z.of_nat (length acts))%Z -> FFSP.done s = true).
Proof.
  intros Hwf Ha.
  destruct (FFSPProofs.FFSP_no_dead_end i acts Hwf Ha) as (s & Hr & Hnd & Hdn).
  exists s. split; [exact Hr|]. split; [exact Hnd|]. split; [intros Hd; exact (proj1 (Hdn Hd))|]. split.
  - intros a Hm. destruct (FFSPProofs.FFSP_step_total i acts a Hwf Ha) as (s0 & Hr0 & Hst).
    rewrite Hr in Hr0. inversion Hr0; subst s0. exact (Hst Hm).
  - split; [intros Hp; exact (ffsp_step_bound i acts s Hwf Ha Hr Hp)|].
    intros Hlen.
    apply (long_enough_done FFSP.st (ffsp_R i) FFSP.done (fun n => (Z.of_nat n <= ffsp_B i)%Z)) with (acts := acts).
    + intros p q sp s1 [_ Hp] Hd [Hapq Hpq].
      destruct (ffsp_padding_frozen i Hwf q p sp Hapq Hp Hd) as (_ & s' & Hr' & Hd' & _).
      rewrite Hpq in Hr'. inversion Hr'; subst. exact Hd'.
    + intros acts0 s0 [Ha0 Hr0] Hnd0.
      destruct (FFSPProofs.FFSP_no_dead_end i acts0 Hwf Ha0) as (s1 & Hr1 & H1 & _).
      rewrite Hr0 in Hr1. inversion Hr1; subst s1. destruct (H1 Hnd0) as (j & _ & Hm).
      destruct (FFSPProofs.FFSP_step_total i acts0 j Hwf Ha0) as (s1 & Hr1' & Hst).
      rewrite Hr0 in Hr1'. inversion Hr1'; subst s1. destruct (Hst Hm) as [s' Hs].
      exists j, s'. split.
      * apply (ffsp_adm_app_r i acts0 [j] _ s0 Ha0 Hr0). cbn [FFSP.adm]. rewrite Hm, Hs. reflexivity.
      * rewrite ffsp_run_app, Hr0. cbn [FFSP.run]. rewrite Hs. reflexivity.
    + intros acts0 s0 [Ha0 Hr0] Hp. apply (ffsp_step_bound i acts0 s0 Hwf Ha0 Hr0).
      intros p q sp E Hq Hrp. apply (Hp p q sp E Hq). split; [|exact Hrp].
      subst acts0. destruct (ffsp_adm_app i p q _ Ha0) as [H _]. exact H.
    + split; assumption.
    + lia.
Qed.

(* the largest duration of a generated instance is below max_time: the C02 bound in the generator's own parameter *)
Lemma gen_ffsp_Dall (i : FFSP.inst) (lo hi : Z) :
  1 <= FFSP.nJ i -> 1 <= FFSP.nS i -> 1 <= FFSP.nM i -> length (FFSP.rt i) = FFSP.nJ i ->
  (forall row, In row (FFSP.rt i) -> length row = FFSP.nT i /\ forall d, In d row -> (lo <= d < hi)%Z) ->
  (0 <= lo)%Z -> (Dall i <= hi - 1)%Z.
Proof.
  intros HJ HS HM HL Hrows Hlo.
  assert (Hhi : (1 <= hi)%Z).
  { assert (Hin : In (nth 0 (FFSP.rt i) []) (FFSP.rt i)) by (apply nth_In; lia).
    destruct (Hrows _ Hin) as [Hlen Hd].
    assert (HT : 1 <= FFSP.nT i) by (unfold FFSP.nT; nia).
    assert (Hin0 : In (nth 0 (nth 0 (FFSP.rt i) []) 0%Z) (nth 0 (FFSP.rt i) [])) by (apply nth_In; lia).
    specialize (Hd _ Hin0). lia. }
  unfold Dall.
  assert (Hne : (0%Z :: concat (FFSP.rt i)) <> []) by discriminate.
  destruct (maxl_in _ Hne) as [E|Hin].
  - rewrite <- E. lia.
  - apply in_concat in Hin as (row & Hrow & Hd). destruct (Hrows row Hrow) as [_ H]. specialize (H _ Hd). lia.
Qed.

Theorem ffsp_generated_instances_complete :
  forall (i : FFSP.inst) (lo hi : Z),
    1 <= FFSP.nJ i -> 1 <= FFSP.nS i -> 1 <= FFSP.nM i ->
    length (FFSP.rt i) = FFSP.nJ i ->
    (forall row : list Z, In row (FFSP.rt i) -> length row = FFSP.nT i /\ forall d : Z, In d row -> (lo <= d < hi)%Z) ->
    (0 <= lo)%Z -> (hi <= 999999)%Z ->
    ffsp_mtab_okb i = true ->
    (Dall i <= hi - 1)%Z /\
    forall acts : list nat,
      FFSP.adm i (FFSP.reset i) acts = true ->
      exists s : FFSP.st,
        FFSP.run i (FFSP.reset i) acts = Some s /\
        (FFSP.done s = false -> exists j : nat, j < FFSP.nJ i /\ nth j (FFSP.mask s) false = true) /\
        (FFSP.done s = true -> nth (FFSP.nJ i) (FFSP.mask s) false = true) /\
        (forall a : nat, nth a (FFSP.mask s) false = true -> exists s' : FFSP.st, FFSP.step i s a = Some s') /\
        ((forall (p q : list nat) (sp : FFSP.st), acts = p ++ q -> q <> [] ->
            FFSP.run i (FFSP.reset i) p = Some sp -> FFSP.done sp = false) ->
         (Z.of_nat (length acts) <=
          (Z.of_nat (FFSP.nJ i * FFSP.nS i) * (Dall i + 2) + 2) * Z.of_nat (FFSP.nS i * FFSP.nM i))%Z) /\
        (((Z.of_nat (FFSP.nJ i * FFSP.nS i) * (Dall i + 2) + 2) * Z.of_nat (FFSP.nS i * FFSP.nM i) <=
          Z.of_nat (length acts))%Z -> FFSP.done s = true).
Proof.
  intros i lo hi HJ HS HM HL Hrows Hlo Hhi Hmt.
  split; [exact (gen_ffsp_Dall i lo hi HJ HS HM HL Hrows Hlo)|].
  intros acts Ha.
  exact (ffsp_episode_complete i acts (gen_ffsp_wf i lo hi HJ HS HM HL Hrows Hlo Hhi Hmt) Ha).
Qed.

(* ================================================================ SMTWTP *)
Theorem smtwtp_generated_instances_complete :
  forall (n : nat) (due wgt pt : list Z),
    1 <= n -> length due = S n -> length wgt = S n -> length pt = S n ->
    (forall x : Z, In x due \/ In x wgt \/ In x pt -> (0 <= x)%Z) ->
    let i := gen_smtwtp n due wgt pt in
    forall acts : list nat,
      SMTWTP.adm i (SMTWTP.reset i) acts = true ->
      exists s : SMTWTP.st,
        SMTWTP.run i (SMTWTP.reset i) acts = Some s /\
        (SMTWTP.done s = false -> exists a : nat, nth a (SMTWTP.mask s) false = true) /\
        (forall a : nat, nth a (SMTWTP.mask s) false = true -> exists s' : SMTWTP.st, SMTWTP.step i s a = Some s') /\
        length acts <= n /\
        (SMTWTP.done s = true <-> length acts = n).
Proof.
  intros n due wgt pt Hn H1 H2 H3 Hnn i acts Ha.
  destruct (gen_smtwtp_wf n due wgt pt Hn H1 H2 H3 Hnn) as (Hw & _).
  destruct (smtwtp_no_dead_end_before_done i acts Hw Ha) as (s & Hr & Hle & Hd & Hnd & Hst).
  change (SMTWTP.n_job i) with n in Hle, Hd.
  exists s. split; [exact Hr|]. split; [exact Hnd|]. split; [exact Hst|]. split; [exact Hle|exact Hd].
Qed.

(* ================================================================ non-vacuity: generator input -> instance -> full episode *)
Example fjsp_generated_episode :
  let i := gen_fjsp [2; 1] 4 2 [1; 2; 1; 2] [[1; 0]; [0; 1]; [0; 1]; [1; 0]] [[3; 4; 5; 6]; [7; 8; 9; 10]]%Z in
  FJSP.wfb i = true /\ FJSP.solvableb i = true /\
  FJSP.admb true i (FJSP.reset i) [2; 3; 1] = true /\
  option_map FJSP.done (FJSP.run true i (FJSP.reset i) [2; 3; 1]) = Some true /\
  option_map FJSP.done (FJSP.run true i (FJSP.reset i) [2; 3]) = Some false.
Proof. vm_compute. repeat split. Qed.
Example jssp_generated_episode :
  let i := gen_jssp [2; 2] 4 2 [1; 0; 0; 1] [[3; 4; 5; 6]; [7; 8; 9; 10]]%Z in
  FJSP.wfb i = true /\ FJSP.jssp_wfb i = true /\
  FJSP.jssp_admb true i (FJSP.reset i) [1; 2; 1; 2] = true /\
  option_map FJSP.done (FJSP.jssp_run true i (FJSP.reset i) [1; 2; 1; 2]) = Some true /\
  option_map FJSP.done (FJSP.jssp_run true i (FJSP.reset i) [1; 2; 1]) = Some false.
Proof. vm_compute. repeat split. Qed.
(* FFSP: a 3-job, 2-stage, 2-machine row with run times drawn in [1, 4) *)
Example ffsp_generated_episode :
  let i := FFSP.ex_i in
  forallb (fun row => (length row =? FFSP.nT i) && forallb (fun d => (1 <=? d)%Z && (d <? 4)%Z) row) (FFSP.rt i) = true /\
  ffsp_mtab_okb i = true /\ FFSP.wfb i = true /\ Dall i = 3%Z /\
  FFSP.adm i (FFSP.reset i) FFSP.ex_acts = true /\
  option_map FFSP.done (FFSP.run i (FFSP.reset i) FFSP.ex_acts) = Some true /\
  option_map FFSP.done (FFSP.run i (FFSP.reset i) (removelast FFSP.ex_acts)) = Some false.
Proof. vm_compute. repeat split. Qed.
Example smtwtp_generated_episode :
  let i := gen_smtwtp 3 [5; 2; 3; 1]%Z [7; 1; 2; 3]%Z [9; 2; 1; 2]%Z in
  SMTWTP.wfb i = true /\ SMTWTP.ptime i = [0; 2; 1; 2]%Z /\
  SMTWTP.adm i (SMTWTP.reset i) [2; 3; 1] = true /\
  option_map SMTWTP.done (SMTWTP.run i (SMTWTP.reset i) [2; 3; 1]) = Some true /\
  option_map SMTWTP.done (SMTWTP.run i (SMTWTP.reset i) [2; 3]) = Some false.
Proof. vm_compute. repeat split. Qed.
