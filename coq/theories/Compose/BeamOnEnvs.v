(* Composition  C13 x (C02, C10, C01):  the beam-search theorems of Decoding/BeamProofs.v, proved there for an ABSTRACT
   environment under hypotheses quantified over ALL instances and ALL states, instantiated with the real environment
   models CVRP (Env/CVRP.v, Env/CVRPProofs.v) and TSP (Env/TSP.v, Env/TSPProofs.v), with the C10 model of
   process_logits at the axiom-free instance (Z, Qc, 2^z) as the step scores.

   Part 0  generic: beam search looks at the environment only through the rows it holds.  A homomorphism of
           environments (instance map [fi], state map [fs]) that preserves reset / step / done everywhere and mask /
           step-ok / step scores on a set G of "good" states maps pre_hook, beam_step, loop and score of the first
           environment to those of the second, as long as the rows that are expanded are good.  Plus: every step
           makes every ghost history one move longer, so the loop ends either with all rows done or out of fuel.
   Part 1  CVRP.  E1 = restrict (CVRP exact) (cvrp_okb n)  (Compose/EnvRestrict.v: well-formed, solvable instances with
           exactly n >= 1 customers) satisfies every hypothesis of [beam_run_total_Qc]; the homomorphism
           [under] carries the result to [CVRP exact] itself and plain instances; C01 ([cvrp_mask_sound]) turns
           "admitted and finished" into the CVRP specification [cvrp_feasible]; C02 ([cvrp_bound],
           [cvrp_done_stable], [cvrp_no_dead_end]) shows that 2n steps finish every row.
   Part 2  TSP.  The hypotheses of the abstract theorems are FALSE for TSP (finished rows have an empty mask: a dead
           end; and the mask of a junk state has any length) -- witnesses below.  The abstract theorem is
           instantiated instead with  pad (restrict TSP (tsp_okb n)) n  (the same environment with the mask replaced
           by the all-true mask wherever it is empty or of the wrong length), and carried back to TSP itself by Part 0:
           all rows of a batch of n-city instances move in lockstep, so the loop never expands a finished row.
   Part 3  non-vacuity: concrete instances, decoders and runs. *)
From Coq Require Import List Bool Arith Lia ZArith QArith Qcanon.
From RL4CO Require Import Base.Num Base.OField Base.OFieldQc Base.EnvSig Spec.Routes Spec.Tours
     Decoding.PLTensor Decoding.ProcessLogits Decoding.PLInst Decoding.Batchify Decoding.Nest Decoding.SelectBest
     Decoding.Beam Decoding.BeamProofs Env.CVRP Env.CVRPProofs Env.TourCore Env.TSP Env.TSPProofs Compose.EnvRestrict.
Import ListNotations.
Local Open Scope nat_scope.

(* ================================================================================================ *)
(** * Part 0: generic *)

(* ---- list plumbing *)
Lemma forallb_map_c {A B} (f : A -> B) (p : B -> bool) l : forallb p (map f l) = forallb (fun x => p (f x)) l.
Proof. induction l as [|x l IH]; cbn [map forallb]; [reflexivity|]. rewrite IH. reflexivity. Qed.

Lemma forallb_ext_c {A} (p q : A -> bool) l : (forall x, p x = q x) -> forallb p l = forallb q l.
Proof. intros H. induction l as [|x l IH]; cbn [forallb]; [reflexivity|]. rewrite H, IH. reflexivity. Qed.

Lemma mapM_nth_error_map {A B} (f : A -> B) (l : list A) idx :
  mapM (nth_error (map f l)) idx = option_map (map f) (mapM (nth_error l) idx).
Proof.
  induction idx as [|q idx IH]; cbn [mapM]; [reflexivity|].
  rewrite nth_error_map, IH. destruct (nth_error l q); cbn [option_map]; [|reflexivity].
  destruct (mapM (nth_error l) idx); reflexivity.
Qed.

Lemma gather_rows_map {A B} (f : A -> B) (l : list A) idx :
  gather_rows (map f l) idx = option_map (map f) (gather_rows l idx).
Proof. apply mapM_nth_error_map. Qed.

Lemma gather_rows_In {A} (l : list A) idx out x : gather_rows l idx = Some out -> In x out -> In x l.
Proof.
  unfold gather_rows. revert out. induction idx as [|q idx IH]; intros out; cbn [mapM].
  - intros H. injection H as <-. intros [].
  - destruct (nth_error l q) as [y|] eqn:Ey; [|discriminate].
    destruct (mapM (nth_error l) idx) as [r|]; [|discriminate]. intros H. injection H as <-.
    intros [<-|Hx]; [eapply nth_error_In; exact Ey | apply (IH r eq_refl Hx)].
Qed.

Lemma map2_map_l {A A' B C} (g : A -> A') (f : A' -> B -> C) a b : map2 f (map g a) b = map2 (fun x y => f (g x) y) a b.
Proof. revert b. induction a as [|x a IH]; intros [|y b]; cbn [map map2]; try reflexivity. rewrite IH. reflexivity. Qed.

Lemma map_map2 {A B C D} (g : C -> D) (f : A -> B -> C) a b : map g (map2 f a b) = map2 (fun x y => g (f x y)) a b.
Proof. revert b. induction a as [|x a IH]; intros [|y b]; cbn [map map2]; try reflexivity. rewrite IH. reflexivity. Qed.

Lemma map2_ext_in {A B C} (f g : A -> B -> C) a b :
  (forall x y, In x a -> In y b -> f x y = g x y) -> map2 f a b = map2 g a b.
Proof.
  revert b. induction a as [|x a IH]; intros [|y b] H; cbn [map2]; try reflexivity.
  rewrite (H x y (or_introl eq_refl) (or_introl eq_refl)), IH; [reflexivity|].
  intros x' y' Hx Hy. apply H; right; assumption.
Qed.

Lemma In_map2 {A B C} (f : A -> B -> C) a b z : In z (map2 f a b) -> exists x y, In x a /\ In y b /\ z = f x y.
Proof.
  revert b. induction a as [|x a IH]; intros [|y b]; cbn [map2 In]; try contradiction.
  intros [<-|H]; [exists x, y; repeat split; left; reflexivity|].
  destruct (IH b H) as (x' & y' & Hx & Hy & ->). exists x', y'. repeat split; try right; assumption.
Qed.

Lemma forallb2_map_l {A A' B} (g : A -> A') (f : A' -> B -> bool) a b :
  forallb2 f (map g a) b = forallb2 (fun x y => f (g x) y) a b.
Proof. revert b. induction a as [|x a IH]; intros [|y b]; cbn [map forallb2]; try reflexivity. rewrite IH. reflexivity. Qed.

Lemma forallb2_ext_in {A B} (f g : A -> B -> bool) a b :
  (forall x y, In x a -> f x y = g x y) -> forallb2 f a b = forallb2 g a b.
Proof.
  revert b. induction a as [|x a IH]; intros [|y b] H; cbn [forallb2]; try reflexivity.
  rewrite (H x y (or_introl eq_refl)), IH; [reflexivity|]. intros x' y' Hx. apply H; right; assumption.
Qed.

Lemma batchify_single_map {A B} (f : A -> B) k (x : list A) : batchify_single k (map f x) = map f (batchify_single k x).
Proof.
  unfold batchify_single. induction k as [|k IH]; cbn [repeat concat]; [reflexivity|]. rewrite map_app, IH. reflexivity.
Qed.

Lemma In_batchify_single {A} k (x : list A) y : In y (batchify_single k x) -> In y x.
Proof.
  unfold batchify_single. induction k as [|k IH]; cbn [repeat concat]; [intros []|].
  intros H. apply in_app_iff in H as [H|H]; [exact H | apply IH; exact H].
Qed.

Lemma map_const_len {A B C} (c : C) (a : list A) (b : list B) : length a = length b -> map (fun _ => c) a = map (fun _ => c) b.
Proof. revert b. induction a as [|x a IH]; intros [|y b] H; cbn in *; try lia; [reflexivity|]. f_equal. apply IH. lia. Qed.

Lemma forallb_false_ex {A} (p : A -> bool) l : forallb p l = false -> exists x, In x l /\ p x = false.
Proof.
  induction l as [|x l IH]; cbn [forallb]; [discriminate|]. destruct (p x) eqn:Ex; cbn [andb].
  - intros H. destruct (IH H) as (y & Hy & Hp). exists y. split; [right; exact Hy | exact Hp].
  - intros _. exists x. split; [left; reflexivity | exact Ex].
Qed.

(* ---- the homomorphism *)
Section BeamSim.
  Variables E1 E2 : Env.
  Variable Sc : Type.
  Variable sop : Sc -> Sc -> Sc.
  Variables sone sbot : Sc.
  Variable sleb : Sc -> Sc -> bool.
  Variable lp1 : inst E1 -> st E1 -> list Sc.
  Variable lp2 : inst E2 -> st E2 -> list Sc.
  Variable fi : inst E1 -> inst E2.
  Variable fs : inst E1 -> st E1 -> st E2.
  Variable G : inst E1 -> st E1 -> Prop.        (* the states on which mask, step-ok and step scores agree *)

  Hypothesis sim_reset : forall i, fs i (reset E1 i) = reset E2 (fi i).
  Hypothesis sim_step : forall i s a, fs i (step E1 i s a) = step E2 (fi i) (fs i s) a.
  Hypothesis sim_done : forall i s, done E2 (fi i) (fs i s) = done E1 i s.
  Hypothesis sim_mask : forall i s, G i s -> mask E2 (fi i) (fs i s) = mask E1 i s.
  Hypothesis sim_stepok : forall i s a, G i s -> stepok E2 (fi i) (fs i s) a = stepok E1 i s a.
  Hypothesis sim_lp : forall i s, G i s -> lp2 (fi i) (fs i s) = lp1 i s.

  Definition sim_row (r : row E1) : row E2 := (fi (r_inst E1 r), fs (r_inst E1 r) (r_st E1 r), r_hist E1 r).
  Definition sim_bs (bs : bstate E1 Sc) : bstate E2 Sc :=
    {| b_rows := map sim_row (b_rows E1 Sc bs); b_acts := b_acts E1 Sc bs; b_lps := b_lps E1 Sc bs;
       b_path := b_path E1 Sc bs; b_pbl := b_pbl E1 Sc bs |}.
  Definition good_row (r : row E1) : Prop := G (r_inst E1 r) (r_st E1 r).

  Lemma sim_run_from i s acts : fs i (run_from (E:=E1) i s acts) = run_from (E:=E2) (fi i) (fs i s) acts.
  Proof. revert s. induction acts as [|a r IH]; intros s; cbn [run_from]; [reflexivity|]. rewrite IH, sim_step. reflexivity. Qed.
  Lemma sim_run i acts : fs i (run (E:=E1) i acts) = run (E:=E2) (fi i) acts.
  Proof. unfold run. rewrite sim_run_from, sim_reset. reflexivity. Qed.

  Lemma sim_row_step r a : sim_row (row_step E1 r a) = row_step E2 (sim_row r) a.
  Proof. destruct r as [[i s] h]. unfold sim_row, row_step. cbn [r_inst r_st r_hist fst snd]. rewrite sim_step. reflexivity. Qed.
  Lemma sim_row_lp r : good_row r -> row_lp E2 Sc lp2 (sim_row r) = row_lp E1 Sc lp1 r.
  Proof. intros H. unfold row_lp, sim_row. cbn [r_inst r_st fst snd]. apply sim_lp. exact H. Qed.
  Lemma sim_row_mask r : good_row r -> row_mask E2 (sim_row r) = row_mask E1 r.
  Proof. intros H. unfold row_mask, sim_row. cbn [r_inst r_st fst snd]. apply sim_mask. exact H. Qed.
  Lemma sim_row_stepok r a : good_row r -> row_stepok E2 (sim_row r) a = row_stepok E1 r a.
  Proof. intros H. unfold row_stepok, sim_row. cbn [r_inst r_st fst snd]. apply sim_stepok. exact H. Qed.
  Lemma sim_row_done r : row_done E2 (sim_row r) = row_done E1 r.
  Proof. unfold row_done, sim_row. cbn [r_inst r_st fst snd]. apply sim_done. Qed.

  Lemma sim_all_done bs : all_done E2 Sc (sim_bs bs) = all_done E1 Sc bs.
  Proof.
    unfold all_done, sim_bs. cbn [b_rows]. rewrite forallb_map_c. apply forallb_ext_c. intros r. apply sim_row_done.
  Qed.

  (* one step: if every row of the state is good, the step of the image is the image of the step *)
  Lemma sim_beam_step W bs : (forall r, In r (b_rows E1 Sc bs) -> good_row r) ->
    beam_step E2 Sc sop sbot sleb lp2 W (sim_bs bs) = option_map sim_bs (beam_step E1 Sc sop sbot sleb lp1 W bs).
  Proof.
    intros HG. unfold beam_step. cbv zeta. cbn [sim_bs b_rows b_acts b_lps b_path b_pbl].
    rewrite !map_length, !map_map.
    rewrite (map_ext_in (fun x => row_lp E2 Sc lp2 (sim_row x)) (row_lp E1 Sc lp1)) by (intros r Hr; apply sim_row_lp, HG, Hr).
    rewrite (map_ext_in (fun x => row_mask E2 (sim_row x)) (row_mask E1)) by (intros r Hr; apply sim_row_mask, HG, Hr).
    set (rows := b_rows E1 Sc bs) in *. set (lpv := map (row_lp E1 Sc lp1) rows). set (msk := map (row_mask E1) rows).
    destruct (length (hd [] lpv) =? 0); [reflexivity|].
    set (bbi := map _ (seq 0 (length rows))). rewrite gather_rows_map.
    destruct (gather_rows rows bbi) as [rows1|] eqn:G1; cbn [option_map]; [|reflexivity].
    destruct (gather_rows lpv bbi) as [lpv1|]; [|reflexivity].
    destruct (gather_rows msk bbi) as [msk1|]; [|reflexivity].
    match goal with |- context [forallb2 ?f msk1 ?sl] => set (sel := sl); destruct (forallb2 f msk1 sel) end; cbn [negb]; [|reflexivity].
    rewrite forallb2_map_l.
    rewrite (forallb2_ext_in (fun x y => row_stepok E2 (sim_row x) y) (row_stepok E1) rows1 sel)
      by (intros r a Hr; apply sim_row_stepok, HG; eapply gather_rows_In; eassumption).
    destruct (forallb2 (row_stepok E1) rows1 sel); cbn [negb option_map]; [|reflexivity].
    unfold sim_bs. cbn [b_rows b_acts b_lps b_path b_pbl]. f_equal. f_equal.
    rewrite map2_map_l, map_map2. apply map2_ext_in. intros r a _ _. symmetry. apply sim_row_step.
  Qed.

  (* the loop: [J] is any invariant of the first environment's loop that makes every row good while some row is unfinished *)
  Lemma sim_loop W (J : bstate E1 Sc -> Prop) :
    (forall bs, J bs -> all_done E1 Sc bs = false ->
       (forall r, In r (b_rows E1 Sc bs) -> good_row r) /\
       (forall bs', beam_step E1 Sc sop sbot sleb lp1 W bs = Some bs' -> J bs')) ->
    forall fuel bs, J bs ->
      loop E2 Sc sop sbot sleb lp2 fuel W (sim_bs bs) = option_map sim_bs (loop E1 Sc sop sbot sleb lp1 fuel W bs).
  Proof.
    intros HJ. induction fuel as [|f IH]; intros bs Hbs; cbn [loop]; rewrite sim_all_done.
    - destruct (all_done E1 Sc bs); reflexivity.
    - destruct (all_done E1 Sc bs) eqn:Ed; [reflexivity|]. destruct (HJ bs Hbs Ed) as [Hg Hs].
      rewrite (sim_beam_step W bs Hg). destruct (beam_step E1 Sc sop sbot sleb lp1 W bs) as [bs'|] eqn:E1s; cbn [option_map]; [|reflexivity].
      apply IH. apply Hs. reflexivity.
  Qed.

  (* pre_decoder_hook: reset states good, and the masks after the forced first move have the same length *)
  Lemma sim_pre_hook W insts starts :
    (forall i, In i insts -> G i (reset E1 i)) ->
    (forall i a, In i insts -> length (mask E2 (fi i) (fs i (step E1 i (reset E1 i) a))) = length (mask E1 i (step E1 i (reset E1 i) a))) ->
    pre_hook E2 Sc sone W (map fi insts) starts = option_map sim_bs (pre_hook E1 Sc sone W insts starts).
  Proof.
    intros Hr Hm. unfold pre_hook. destruct (W <=? 1); [reflexivity|]. cbv zeta.
    rewrite batchify_single_map, map_length. set (tdb := batchify_single W insts).
    assert (Htdb : forall i, In i tdb -> In i insts) by (intros i Hi; eapply In_batchify_single; exact Hi).
    destruct (negb (length starts =? length tdb)); [reflexivity|].
    set (rows0 := map2 (fun (i : inst E1) (_ : nat) => (i, reset E1 i, @nil nat)) tdb starts).
    assert (E0 : map2 (fun (i : inst E2) (_ : nat) => (i, reset E2 i, @nil nat)) (map fi tdb) starts = map sim_row rows0).
    { unfold rows0. rewrite map2_map_l, map_map2. apply map2_ext_in. intros i a _ _.
      unfold sim_row. cbn [r_inst r_st r_hist fst snd]. rewrite sim_reset. reflexivity. }
    rewrite E0. clear E0.
    assert (H0 : forall r, In r rows0 -> exists i, In i insts /\ r = (i, reset E1 i, @nil nat)).
    { intros r Hin. apply In_map2 in Hin as (i & a & Hi & _ & ->). exists i. split; [apply Htdb; exact Hi | reflexivity]. }
    rewrite forallb2_map_l.
    rewrite (forallb2_ext_in (fun x y => row_stepok E2 (sim_row x) y) (row_stepok E1) rows0 starts).
    2:{ intros r a Hin. apply sim_row_stepok. destruct (H0 r Hin) as (i & Hi & ->). unfold good_row. cbn [r_inst r_st fst snd]. apply Hr, Hi. }
    destruct (negb (forallb2 (row_stepok E1) rows0 starts)); [reflexivity|].
    set (rows1 := map2 (row_step E1) rows0 starts).
    assert (E1r : map2 (row_step E2) (map sim_row rows0) starts = map sim_row rows1).
    { unfold rows1. rewrite map2_map_l, map_map2. apply map2_ext_in. intros r a _ _. symmetry. apply sim_row_step. }
    rewrite E1r. clear E1r. rewrite map_map.
    rewrite (map_ext_in (fun x => map (fun _ : bool => sone) (row_mask E2 (sim_row x))) (fun r => map (fun _ : bool => sone) (row_mask E1 r))).
    2:{ intros r Hin. unfold rows1 in Hin. apply In_map2 in Hin as (r0 & a & Hr0 & _ & ->).
        destruct (H0 r0 Hr0) as (i & Hi & ->). apply map_const_len.
        unfold row_mask, sim_row, row_step. cbn [r_inst r_st r_hist fst snd]. apply Hm, Hi. }
    destruct (zipM _ starts _); reflexivity.
  Qed.

  (* accumulated scores agree along a history whose proper non-empty prefixes reach good states *)
  Lemma sim_score i h :
    (forall p q, h = p ++ q -> p <> [] -> q <> [] -> G i (run (E:=E1) i p)) ->
    score E2 Sc sop sone sbot lp2 (fi i) h = score E1 Sc sop sone sbot lp1 i h.
  Proof.
    induction h as [|a h IH] using rev_ind; intros Hg; [reflexivity|].
    destruct h as [|a0 h]; [reflexivity|].
    rewrite !score_snoc by discriminate. rewrite IH.
    - rewrite <- sim_run, sim_lp; [reflexivity|]. apply (Hg (a0 :: h) [a]); [reflexivity|discriminate|discriminate].
    - intros p q Hpq Hp Hq. apply (Hg p (q ++ [a])); [rewrite Hpq, app_assoc; reflexivity | exact Hp |].
      intros C. apply app_eq_nil in C as [_ C]. discriminate.
  Qed.
End BeamSim.

(* ---- an invariant of the steps taken while some row is unfinished is an invariant of the loop *)
Lemma loop_invariant (Ev : Env) (Sc : Type) (sop : Sc -> Sc -> Sc) (sbot : Sc) (sleb : Sc -> Sc -> bool)
      (lp : inst Ev -> st Ev -> list Sc) (W : nat) (J : bstate Ev Sc -> Prop) :
  (forall bs bs', J bs -> all_done Ev Sc bs = false -> beam_step Ev Sc sop sbot sleb lp W bs = Some bs' -> J bs') ->
  forall fuel bs bs', J bs -> loop Ev Sc sop sbot sleb lp fuel W bs = Some bs' -> J bs'.
Proof.
  intros HJ. induction fuel as [|f IH]; intros bs bs' Hbs H; cbn [loop] in H.
  - destruct (all_done Ev Sc bs); injection H as <-; exact Hbs.
  - destruct (all_done Ev Sc bs) eqn:Ed; [injection H as <-; exact Hbs|].
    destruct (beam_step Ev Sc sop sbot sleb lp W bs) as [bs1|] eqn:E1; [|discriminate].
    apply (IH bs1); [eapply HJ; eassumption | exact H].
Qed.

Lemma pre_hook_width (Ev : Env) (Sc : Type) (sone : Sc) W insts starts bs0 :
  pre_hook Ev Sc sone W insts starts = Some bs0 -> 2 <= W.
Proof. unfold pre_hook. destruct (W <=? 1) eqn:EW; [discriminate|]. intros _. apply Nat.leb_gt in EW. lia. Qed.

Lemma all_done_row (Ev : Env) (Sc : Type) (bs : bstate Ev Sc) r rw :
  all_done Ev Sc bs = true -> nth_error (b_rows Ev Sc bs) r = Some rw -> row_done Ev rw = true.
Proof. unfold all_done. rewrite forallb_forall. intros H Hr. apply H. eapply nth_error_In. exact Hr. Qed.

(* ---- every step makes every ghost history one move longer *)
Section HistLen.
  Variable Ev : Env.
  Variable Sc : Type.
  Variable sop : Sc -> Sc -> Sc.
  Variables sone sbot : Sc.
  Variable sleb : Sc -> Sc -> bool.
  Variable lp : inst Ev -> st Ev -> list Sc.
  Variable N : nat.
  Hypothesis N_pos : 0 < N.
  Hypothesis lp_len : forall i s, length (lp i s) = N.
  Variables W B : nat.
  Variable insts : list (inst Ev).
  Hypothesis W_pos : 0 < W.
  Hypothesis insts_len : length insts = B.

  Notation InvB := (BeamProofs.Inv Ev Sc sop sone sbot lp W B insts).

  Definition hist_len (bs : bstate Ev Sc) (L : nat) : Prop :=
    forall r rw, nth_error (b_rows Ev Sc bs) r = Some rw -> length (r_hist Ev rw) = L.

  Lemma hist_len_step bs bs' L : InvB bs -> beam_step Ev Sc sop sbot sleb lp W bs = Some bs' ->
    hist_len bs L -> hist_len bs' (S L).
  Proof.
    intros HI H HL r rw' Hrw'.
    destruct (beam_step_spec Ev Sc sop sone sbot sleb lp N N_pos lp_len W B insts W_pos insts_len bs bs' HI H)
      as (sel & par & lpv1 & _ & _ & _ & _ & Lrows & _ & Hrow).
    assert (Hr : r < W * B) by (rewrite <- Lrows; eapply nth_error_Some_lt; exact Hrw').
    destruct (Hrow r Hr) as (rq & pq & Hrq & _ & _ & _ & _ & Hnew & _). cbv zeta in *.
    rewrite Hnew in Hrw'. injection Hrw' as <-. unfold row_step. cbn [r_hist snd].
    rewrite app_length. cbn [length]. rewrite (HL _ _ Hrq). lia.
  Qed.

  (* the loop stops with all rows done, or after exactly [fuel] steps *)
  Lemma hist_len_loop fuel bs bs' L : InvB bs -> loop Ev Sc sop sbot sleb lp fuel W bs = Some bs' -> hist_len bs L ->
    exists k, k <= fuel /\ hist_len bs' (L + k) /\ (all_done Ev Sc bs' = true \/ k = fuel).
  Proof.
    revert bs L. induction fuel as [|f IH]; intros bs L HI H HL; cbn [loop] in H.
    - exists 0. rewrite Nat.add_0_r. destruct (all_done Ev Sc bs); injection H as <-; auto.
    - destruct (all_done Ev Sc bs) eqn:Ed.
      + injection H as <-. exists 0. rewrite Nat.add_0_r. split; [lia|]. split; [exact HL | left; exact Ed].
      + destruct (beam_step Ev Sc sop sbot sleb lp W bs) as [bs1|] eqn:E1; [|discriminate].
        destruct (IH bs1 (S L)) as (k & Hk & HLk & Hend).
        * exact (Inv_step Ev Sc sop sone sbot sleb lp N N_pos lp_len W B insts W_pos insts_len bs bs1 HI E1).
        * exact H.
        * eapply hist_len_step; eassumption.
        * exists (S k). split; [lia|]. split; [replace (L + S k) with (S L + k) by lia; exact HLk|].
          destruct Hend as [Hd|Hf]; [left; exact Hd | right; lia].
  Qed.

  Lemma hist_len_pre_hook starts bs0 : pre_hook Ev Sc sone W insts starts = Some bs0 -> hist_len bs0 1.
  Proof.
    intros Hpre r rw Hrw.
    destruct (Inv_pre_hook Ev Sc sop sone sbot lp N N_pos W B insts W_pos insts_len starts bs0 Hpre) as (HI0 & _ & _ & Hrows).
    assert (Hr : r < W * B) by (rewrite <- (BeamProofs.inv_rows _ _ _ _ _ _ _ _ _ _ HI0); eapply nth_error_Some_lt; exact Hrw).
    destruct (Hrows r Hr) as (i & a & _ & _ & Hrow). rewrite Hrow in Hrw. injection Hrw as <-. reflexivity.
  Qed.
End HistLen.

(* ================================================================================================ *)
(** * Part 1: CVRP *)

(* the instances the CVRP theorems (C01, C02) speak about, with a common number n >= 1 of customers *)
Definition cvrp_okb (n : nat) (i : cvrp_inst) : bool :=
  cvrp_wfb i && cvrp_solvableb i && (n_of i =? n) && (0 <? n).

Lemma cvrp_okb_spec n i : cvrp_okb n i = true <-> cvrp_wf i /\ cvrp_solvable i /\ n_of i = n /\ 0 < n.
Proof.
  unfold cvrp_okb. rewrite !andb_true_iff, cvrp_wfb_ok, cvrp_solvableb_ok, Nat.eqb_eq, Nat.ltb_lt. tauto.
Qed.

Definition CVRPn (n : nat) : Env := restrict (CVRP exact) (cvrp_okb n).

(* a finished row stays finished along any admitted continuation (C02 done_stable, iterated) *)
Lemma cvrp_done_stable_app i p q : cvrp_wf i -> adm (E:=CVRP exact) i (p ++ q) = true ->
  done (CVRP exact) i (run (E:=CVRP exact) i p) = true -> done (CVRP exact) i (run (E:=CVRP exact) i (p ++ q)) = true.
Proof.
  intros Hwf. revert p. induction q as [|a q IH]; intros p Hadm Hd; [rewrite app_nil_r; exact Hd|].
  replace (p ++ a :: q) with ((p ++ [a]) ++ q) in * by (rewrite <- app_assoc; reflexivity).
  apply IH; [exact Hadm|]. apply cvrp_done_stable; [exact Hwf | eapply adm_prefix; exact Hadm | exact Hd].
Qed.

(* C02 step bound, in the form the decoding loop needs: an admitted history of 2n+1 moves is finished *)
Lemma cvrp_long_done i h : cvrp_wf i -> cvrp_solvable i -> adm (E:=CVRP exact) i h = true ->
  2 * n_of i + 1 <= length h -> done (CVRP exact) i (run (E:=CVRP exact) i h) = true.
Proof.
  intros Hwf Hsol Hadm Hlen. destruct (done (CVRP exact) i (run (E:=CVRP exact) i h)) eqn:Ed; [reflexivity|]. exfalso.
  pose proof (cvrp_no_dead_end i h Hwf Hsol Hadm) as Hany. apply anyb_exists in Hany as (a & _ & Ha).
  assert (Hadm' : adm (E:=CVRP exact) i (h ++ [a]) = true) by (rewrite adm_snoc, Hadm; exact Ha).
  pose proof (cvrp_bound i (h ++ [a]) Hwf Hsol Hadm') as Hb. rewrite app_length in Hb. cbn [length] in Hb.
  enough (length h + 1 <= 2 * n_of i + 1) by lia. apply Hb. intros p q Hpq Hq.
  destruct (exists_last Hq) as (q0 & x & ->). rewrite app_assoc in Hpq. apply app_inj_tail in Hpq as [Hh _].
  destruct (done (CVRP exact) i (run (E:=CVRP exact) i p)) eqn:Edp; [|reflexivity].
  rewrite Hh in Hadm, Ed. rewrite (cvrp_done_stable_app i p q0 Hwf Hadm Edp) in Ed. discriminate.
Qed.

Section CvrpBeam.
  Variable n : nat.
  Hypothesis n_pos : 1 <= n.
  Variables clip tmp : Z -> Z.
  Variable top_p : Qc.
  Variable top_k : nat.
  Variable dec : cvrp_inst -> cvrp_st -> list Z.          (* the neural decoder: logits of one row; abstract *)
  Hypothesis dec_len : forall i s, cvrp_wf i -> cvrp_solvable i -> n_of i = n -> length (dec i s) = S n.

  Let E1 : Env := CVRPn n.
  Let dec1 (i : inst E1) (s : st E1) : list Z := dec (under i) s.
  Let lp1 := lpQc clip tmp top_p top_k E1 dec1.
  Let lp2 := lpQc clip tmp top_p top_k (CVRP exact) dec.

  Lemma cvrpn_ok (i : inst E1) : cvrp_wf (under i) /\ cvrp_solvable (under i) /\ n_of (under i) = n /\ 0 < n.
  Proof. apply cvrp_okb_spec. exact (under_ok i). Qed.

  (* the four hypotheses of [beam_run_total_Qc], for ALL instances and ALL states of E1 *)
  Lemma cvrpn_dec_len : forall (i : inst E1) (s : st E1), length (dec1 i s) = S n.
  Proof. intros i s. destruct (cvrpn_ok i) as (Hwf & Hsol & Hn & _). apply dec_len; assumption. Qed.

  Lemma cvrpn_mask_len : forall (i : inst E1) (s : st E1), length (mask E1 i s) = S n.
  Proof.
    intros i s. destruct (cvrpn_ok i) as (_ & _ & Hn & _). cbn [E1 CVRPn mask restrict CVRP]. unfold cvrp_mask, locs.
    cbn [length]. rewrite map_length, seq_length, Hn. reflexivity.
  Qed.

  (* C02 no dead end *)
  Lemma cvrpn_nde : forall (i : inst E1) h, adm i h = true -> h <> [] -> exists a, offered i (run i h) a = true.
  Proof.
    intros i h Hadm _. destruct (cvrpn_ok i) as (Hwf & Hsol & _ & _).
    unfold E1, CVRPn in *. rewrite restrict_adm in Hadm. rewrite restrict_run.
    pose proof (cvrp_no_dead_end (under i) h Hwf Hsol Hadm) as Hany. apply anyb_exists in Hany as (a & _ & Ha).
    exists a. exact Ha.
  Qed.

  (* C02 step ok *)
  Lemma cvrpn_stepok : forall (i : inst E1) h a, adm i h = true -> h <> [] -> offered i (run i h) a = true ->
    stepok E1 i (run i h) a = true.
  Proof.
    intros i h a Hadm _ Ho. destruct (cvrpn_ok i) as (Hwf & _ & Hn & Hpos).
    unfold E1, CVRPn in *. rewrite restrict_adm in Hadm. rewrite restrict_run in *.
    apply (cvrp_step_ok (under i) h a); [lia | exact Hwf | exact Hadm | exact Ho].
  Qed.

  (* the result a row must satisfy, in terms of the plain CVRP environment *)
  Definition cvrp_row_ok (B : nat) (insts : list cvrp_inst) (bs : bstate (CVRP exact) Qc) (r : nat) : Prop :=
    exists (i : cvrp_inst) (h : list nat),
      nth_error insts (r mod B) = Some i /\
      nth_error (b_rows (CVRP exact) Qc bs) r = Some (i, run (E:=CVRP exact) i h, h) /\ h <> [] /\
      adm (E:=CVRP exact) i h = true /\
      (0 < score (CVRP exact) Qc Qcmult 1%Qc 0%Qc lp2 i h)%Qc /\
      (done (CVRP exact) i (run (E:=CVRP exact) i h) = true -> cvrp_feasible i h).

  (* everything at once: the loop on CVRP itself is the image of the loop on E1, which is total *)
  Lemma cvrp_beam_core W B (insts : list cvrp_inst) starts bs0 fuel :
    length insts = B -> 0 < B ->
    (forall i, In i insts -> cvrp_wf i /\ cvrp_solvable i /\ n_of i = n) ->
    pre_hook (CVRP exact) Qc 1%Qc W insts starts = Some bs0 ->
    starts_offered (CVRP exact) B insts starts ->
    exists bs, loop (CVRP exact) Qc Qcmult 0%Qc Qcleb lp2 fuel W bs0 = Some bs /\
      length (b_rows (CVRP exact) Qc bs) = W * B /\
      (forall r, r < W * B -> cvrp_row_ok B insts bs r) /\
      (2 * n <= fuel -> forall r i h, r < W * B -> nth_error (b_rows (CVRP exact) Qc bs) r = Some (i, run (E:=CVRP exact) i h, h) ->
         done (CVRP exact) i (run (E:=CVRP exact) i h) = true).
  Proof.
    intros HL HB Hall Hpre Hoff.
    destruct (lift_instances (CVRP exact) (cvrp_okb n) insts) as (insts' & Hmap).
    { intros i Hi. apply cvrp_okb_spec. destruct (Hall i Hi) as (H1 & H2 & H3). split; [exact H1|]. split; [exact H2|]. split; [exact H3|lia]. }
    subst insts. rewrite map_length in HL.
    pose (G := fun (_ : inst E1) (_ : st E1) => True).
    assert (Hlp : forall (i : inst E1) s, G i s -> lp2 (under i) s = lp1 i s) by reflexivity.
    (* pre_hook *)
    rewrite (sim_pre_hook E1 (CVRP exact) Qc 1%Qc under (fun _ s => s) G) in Hpre; try reflexivity; try (intros; exact I).
    destruct (pre_hook E1 Qc 1%Qc W insts' starts) as [bs0'|] eqn:Hpre'; [|discriminate]. cbn [option_map] in Hpre. injection Hpre as <-.
    assert (HW : 0 < W) by (pose proof (pre_hook_width _ _ _ _ _ _ _ Hpre'); lia).
    assert (Hoff' : starts_offered E1 B insts' starts).
    { intros r i a Hi Ha. exact (Hoff r (under i) a (map_nth_error under _ _ Hi) Ha). }
    destruct (beam_run_total_Qc clip tmp top_p top_k E1 dec1 (S n) cvrpn_dec_len cvrpn_mask_len cvrpn_nde (Nat.lt_0_succ n) cvrpn_stepok
                W B insts' starts bs0' fuel HW HL HB Hpre' Hoff') as (bs' & Hloop & Hrows).
    fold lp1 in Hloop, Hrows.
    (* the loop *)
    pose proof (sim_loop E1 (CVRP exact) Qc Qcmult 0%Qc Qcleb lp1 lp2 under (fun _ s => s) G
                  (fun _ _ _ => eq_refl) (fun _ _ => eq_refl) (fun _ _ _ => eq_refl) (fun _ _ _ _ => eq_refl) Hlp
                  W (fun _ => True)) as Hsim.
    rewrite Hsim, Hloop; [|intros bs _ _; split; [intros; exact I | intros; exact I] | exact I]. cbn [option_map].
    eexists. split; [reflexivity|].
    assert (Hlen1 : forall i s, length (lp1 i s) = S n).
    { intros i s. apply (lpK_len QcF Z Z.leb pow2 clip tmp top_p top_k E1 dec1 (S n) cvrpn_dec_len cvrpn_mask_len). }
    pose proof (Inv_pre_hook E1 Qc Qcmult 1%Qc 0%Qc lp1 (S n) (Nat.lt_0_succ n) W B insts' HW HL starts bs0' Hpre') as (HI0 & _).
    pose proof (Inv_loop E1 Qc Qcmult 1%Qc 0%Qc Qcleb lp1 (S n) (Nat.lt_0_succ n) Hlen1 W B insts' HW HL fuel bs0' bs' HI0 Hloop) as HI.
    split; [cbn [sim_bs b_rows]; rewrite map_length; exact (BeamProofs.inv_rows _ _ _ _ _ _ _ _ _ _ HI)|].
    split.
    - intros r Hr. destruct (Hrows r Hr) as (i & h & (Hi & Hrw & Hne) & Hadm & Hpos).
      destruct (cvrpn_ok i) as (Hwf & Hsol & _ & _).
      exists (under i), h. split; [exact (map_nth_error under _ _ Hi)|].
      unfold E1, CVRPn in Hadm, Hrw. rewrite restrict_adm in Hadm. rewrite restrict_run in Hrw.
      split; [cbn [sim_bs b_rows]; rewrite (map_nth_error _ _ _ Hrw); reflexivity|].
      split; [exact Hne|]. split; [exact Hadm|]. split.
      + rewrite (sim_score E1 (CVRP exact) Qc Qcmult 1%Qc 0%Qc lp1 lp2 under (fun _ s => s) G (fun _ => eq_refl) (fun _ _ _ => eq_refl) Hlp)
          by (intros; exact I). exact Hpos.
      + intros Hd. apply cvrp_mask_sound; assumption.
    - intros Hfuel r i0 h0 Hr Hrw0.
      destruct (Hrows r Hr) as (i & h & (Hi & Hrw & Hne) & Hadm & _).
      destruct (cvrpn_ok i) as (Hwf & Hsol & Hn & _).
      cbn [sim_bs b_rows] in Hrw0. rewrite (map_nth_error _ _ _ Hrw) in Hrw0.
      unfold sim_row in Hrw0. cbn [r_inst r_st r_hist fst snd] in Hrw0. injection Hrw0 as <- _ <-.
      destruct (hist_len_loop E1 Qc Qcmult 1%Qc 0%Qc Qcleb lp1 (S n) (Nat.lt_0_succ n) Hlen1 W B insts' HW HL fuel bs0' bs' 1 HI0 Hloop
                  (hist_len_pre_hook E1 Qc Qcmult 1%Qc 0%Qc lp1 (S n) (Nat.lt_0_succ n) W B insts' HW HL starts bs0' Hpre'))
        as (k & Hk & HLk & Hend).
      destruct Hend as [Hd|Hkf].
      + exact (all_done_row E1 Qc bs' r _ Hd Hrw).
      + specialize (HLk r _ Hrw). cbn [r_hist snd] in HLk.
        unfold E1, CVRPn in Hadm. rewrite restrict_adm in Hadm.
        apply cvrp_long_done; try assumption. lia.
  Qed.
End CvrpBeam.

(* C13 x (C02, C10, C01) on CVRP, any fuel: the decoding loop never raises; every row of the returned state holds an
   instance of the batch and the history that produced its state; the history is admitted by the CVRP masks, has
   positive probability, and -- whenever the row is finished -- satisfies the CVRP specification [cvrp_feasible] *)
Theorem beam_search_on_cvrp :
  forall (n : nat), 1 <= n ->
  forall (clip tmp : Z -> Z) (top_p : Qc) (top_k : nat) (dec : cvrp_inst -> cvrp_st -> list Z),
    (forall i s, cvrp_wf i -> cvrp_solvable i -> n_of i = n -> length (dec i s) = S n) ->
  forall (W B : nat) (insts : list cvrp_inst) (starts : list nat) (bs0 : bstate (CVRP exact) Qc) (fuel : nat),
    length insts = B -> 0 < B ->
    (forall i, In i insts -> cvrp_wf i /\ cvrp_solvable i /\ n_of i = n) ->
    pre_hook (CVRP exact) Qc 1%Qc W insts starts = Some bs0 ->
    starts_offered (CVRP exact) B insts starts ->
    exists bs, loop (CVRP exact) Qc Qcmult 0%Qc Qcleb (lpQc clip tmp top_p top_k (CVRP exact) dec) fuel W bs0 = Some bs /\
      forall r, r < W * B -> exists (i : cvrp_inst) (h : list nat),
        nth_error insts (r mod B) = Some i /\
        nth_error (b_rows (CVRP exact) Qc bs) r = Some (i, run (E:=CVRP exact) i h, h) /\ h <> [] /\
        adm (E:=CVRP exact) i h = true /\
        (0 < score (CVRP exact) Qc Qcmult 1%Qc 0%Qc (lpQc clip tmp top_p top_k (CVRP exact) dec) i h)%Qc /\
        (done (CVRP exact) i (run (E:=CVRP exact) i h) = true -> cvrp_feasible i h).
Proof.
  intros n Hn clip tmp top_p top_k dec Hdec W B insts starts bs0 fuel HL HB Hall Hpre Hoff.
  destruct (cvrp_beam_core n Hn clip tmp top_p top_k dec Hdec W B insts starts bs0 fuel HL HB Hall Hpre Hoff) as (bs & Hloop & _ & Hrows & _).
  exists bs. split; [exact Hloop | exact Hrows].
Qed.

(* ... and with fuel for 2n steps (the C02 bound: at most 2n+1 moves, one of them forced) every returned beam is
   finished, hence a solution of the CVRP instance *)
Theorem beam_search_on_cvrp_finishes :
  forall (n : nat), 1 <= n ->
  forall (clip tmp : Z -> Z) (top_p : Qc) (top_k : nat) (dec : cvrp_inst -> cvrp_st -> list Z),
    (forall i s, cvrp_wf i -> cvrp_solvable i -> n_of i = n -> length (dec i s) = S n) ->
  forall (W B : nat) (insts : list cvrp_inst) (starts : list nat) (bs0 : bstate (CVRP exact) Qc) (fuel : nat),
    length insts = B -> 0 < B ->
    (forall i, In i insts -> cvrp_wf i /\ cvrp_solvable i /\ n_of i = n) ->
    pre_hook (CVRP exact) Qc 1%Qc W insts starts = Some bs0 ->
    starts_offered (CVRP exact) B insts starts ->
    2 * n <= fuel ->
    exists bs, loop (CVRP exact) Qc Qcmult 0%Qc Qcleb (lpQc clip tmp top_p top_k (CVRP exact) dec) fuel W bs0 = Some bs /\
      all_done (CVRP exact) Qc bs = true /\
      forall r, r < W * B -> exists (i : cvrp_inst) (h : list nat),
        nth_error insts (r mod B) = Some i /\
        nth_error (b_rows (CVRP exact) Qc bs) r = Some (i, run (E:=CVRP exact) i h, h) /\ h <> [] /\
        adm (E:=CVRP exact) i h = true /\
        (0 < score (CVRP exact) Qc Qcmult 1%Qc 0%Qc (lpQc clip tmp top_p top_k (CVRP exact) dec) i h)%Qc /\
        done (CVRP exact) i (run (E:=CVRP exact) i h) = true /\ cvrp_feasible i h.
Proof.
  intros n Hn clip tmp top_p top_k dec Hdec W B insts starts bs0 fuel HL HB Hall Hpre Hoff Hfuel.
  destruct (cvrp_beam_core n Hn clip tmp top_p top_k dec Hdec W B insts starts bs0 fuel HL HB Hall Hpre Hoff) as (bs & Hloop & Hlen & Hrows & Hfin).
  exists bs. split; [exact Hloop|].
  assert (Hrows' : forall r, r < W * B -> exists (i : cvrp_inst) (h : list nat),
        nth_error insts (r mod B) = Some i /\
        nth_error (b_rows (CVRP exact) Qc bs) r = Some (i, run (E:=CVRP exact) i h, h) /\ h <> [] /\
        adm (E:=CVRP exact) i h = true /\
        (0 < score (CVRP exact) Qc Qcmult 1%Qc 0%Qc (lpQc clip tmp top_p top_k (CVRP exact) dec) i h)%Qc /\
        done (CVRP exact) i (run (E:=CVRP exact) i h) = true /\ cvrp_feasible i h).
  { intros r Hr. destruct (Hrows r Hr) as (i & h & Hi & Hrw & Hne & Hadm & Hpos & Hfeas).
    pose proof (Hfin Hfuel r i h Hr Hrw) as Hd.
    exists i, h. split; [exact Hi|]. split; [exact Hrw|]. split; [exact Hne|]. split; [exact Hadm|]. split; [exact Hpos|].
    split; [exact Hd | exact (Hfeas Hd)]. }
  split; [|exact Hrows'].
  (* all_done: the state has exactly W * B rows, each finished *)
  unfold all_done. apply forallb_forall. intros rw Hin. apply In_nth_error in Hin as (r & Hr).
  destruct (Nat.lt_ge_cases r (W * B)) as [Hlt|Hge].
  - destruct (Hrows' r Hlt) as (i & h & _ & Hrw & _ & _ & _ & Hd & _). rewrite Hrw in Hr. injection Hr as <-. exact Hd.
  - exfalso.
    assert (r < length (b_rows (CVRP exact) Qc bs)) by (eapply nth_error_Some_lt; exact Hr). lia.
Qed.

(* ================================================================================================ *)
(** * Part 2: TSP *)

(* ---- 2a. the hypotheses of the abstract theorems are false for TSP *)

(* "no dead end along admitted non-empty histories" ([env_nde] of BeamProofs.v, [lp_nde] of [run_total] and
   [beam_step_total]) fails at every finished row: TSP has no action to pad with (tsp_done_mask_empty).  Witness: *)
Theorem tsp_abstract_no_dead_end_refuted :
  exists (i : tsp_inst) (h : list nat),
    tsp_wfb i = true /\ adm (E:=TSP) i h = true /\ h <> [] /\ done TSP i (run (E:=TSP) i h) = true /\
    forall a, offered (E:=TSP) i (run (E:=TSP) i h) a = false.
Proof.
  exists {| tdist := [[0; 1]; [1; 0]]%Z |}, [0; 1]. split; [reflexivity|]. split; [reflexivity|]. split; [discriminate|].
  split; [reflexivity|]. intros [|[|a]]; [reflexivity | reflexivity | destruct a; reflexivity].
Qed.

(* "the mask has N entries in EVERY state" ([mask_len]) fails too: the mask is a field of the state *)
Theorem tsp_abstract_mask_len_refuted :
  forall (P : tsp_inst -> bool) (N : nat), (exists i, P i = true) ->
    ~ (forall (i : inst (restrict TSP P)) (s : st (restrict TSP P)), length (mask (restrict TSP P) i s) = N).
Proof.
  intros P N (i & Hi) H.
  specialize (H (exist _ i Hi) {| tfirst := 0; tcur := 0; tcnt := 0; tavail := repeat true (S N); tdn := false |}).
  cbn [mask restrict TSP tsp_mask tavail] in H. rewrite repeat_length in H. lia.
Qed.

(* ---- 2b. padding: the same environment with an all-true mask of N entries wherever the mask is empty or has
        another length than N (and every step allowed there) *)
Definition okmask (N : nat) (m : list bool) : bool := (length m =? N) && anyb m.

Definition pad (Ev : Env) (N : nat) : Env := {|
  inst := inst Ev; st := st Ev; reset := reset Ev; step := step Ev;
  stepok := fun i s a => if okmask N (mask Ev i s) then stepok Ev i s a else true;
  mask := fun i s => if okmask N (mask Ev i s) then mask Ev i s else repeat true N;
  done := done Ev |}.

Lemma pad_mask_len Ev N i s : length (mask (pad Ev N) i s) = N.
Proof.
  cbn [mask pad]. destruct (okmask N (mask Ev i s)) eqn:Eo; [|apply repeat_length].
  unfold okmask in Eo. apply andb_prop in Eo as [Hl _]. apply Nat.eqb_eq in Hl. exact Hl.
Qed.

Lemma pad_offers Ev N i s : 0 < N -> exists a, offered (E:=pad Ev N) i s a = true.
Proof.
  intros HN. unfold offered. cbn [mask pad]. destruct (okmask N (mask Ev i s)) eqn:Eo.
  - unfold okmask in Eo. apply andb_prop in Eo as [_ Ha]. apply anyb_exists in Ha as (a & _ & Ha). exists a. exact Ha.
  - exists 0. destruct N; [lia|reflexivity].
Qed.

Lemma pad_offered_ok Ev N i s a : okmask N (mask Ev i s) = true -> offered (E:=pad Ev N) i s a = offered (E:=Ev) i s a.
Proof. intros H. unfold offered. cbn [mask pad]. rewrite H. reflexivity. Qed.

Lemma pad_run_from Ev N i s h : run_from (E:=pad Ev N) i s h = run_from (E:=Ev) i s h.
Proof. revert s. induction h as [|a h IH]; intros s; cbn [run_from]; [reflexivity|]. rewrite IH. reflexivity. Qed.
Lemma pad_run Ev N i h : run (E:=pad Ev N) i h = run (E:=Ev) i h.
Proof. apply pad_run_from. Qed.

(* ---- 2c. TSP instances passing the well-formedness check, with exactly n cities *)
Definition tsp_okb (n : nat) (i : tsp_inst) : bool := tsp_wfb i && (tsp_n i =? n).
Definition TSPn (n : nat) : Env := restrict TSP (tsp_okb n).
Definition TSPp (n : nat) : Env := pad (TSPn n) n.

Lemma tsp_okb_spec n i : tsp_okb n i = true -> tsp_wf i /\ tsp_n i = n.
Proof. unfold tsp_okb. intros H. apply andb_prop in H as [H1 H2]. split; [apply tsp_wfb_ok; exact H1 | apply Nat.eqb_eq; exact H2]. Qed.

Lemma tsp_run_avail_len i h : length (tavail (run (E:=TSP) i h)) = tsp_n i.
Proof. rewrite tsp_avail_run, avail_after_length, repeat_length. reflexivity. Qed.

(* an admitted history shorter than n reaches a state whose mask is non-empty (C02) and has n entries *)
Lemma tsp_good i h : tsp_wf i -> adm (E:=TSP) i h = true -> length h < tsp_n i ->
  okmask (tsp_n i) (mask TSP i (run (E:=TSP) i h)) = true.
Proof.
  intros Hwf Hadm Hlen. unfold okmask. apply andb_true_intro. split.
  - apply Nat.eqb_eq. cbn [mask TSP]. unfold tsp_mask. apply tsp_run_avail_len.
  - apply tsp_no_dead_end; [exact Hwf | exact Hadm|].
    destruct (done TSP i (run (E:=TSP) i h)) eqn:Ed; [|reflexivity].
    apply (tsp_done_iff i h (proj1 Hwf) Hadm) in Ed. lia.
Qed.

Lemma tspp_run n (i : inst (TSPp n)) h : run (E:=TSPp n) i h = run (E:=TSP) (under i) h.
Proof. unfold TSPp, TSPn. rewrite pad_run, restrict_run. reflexivity. Qed.

(* up to n moves, admitted by the padded masks = admitted by the TSP masks *)
Lemma tspp_adm_le n (i : inst (TSPp n)) h : adm (E:=TSPp n) i h = true -> length h <= n -> adm (E:=TSP) (under i) h = true.
Proof.
  destruct (tsp_okb_spec n (under i) (under_ok i)) as (Hwf & Hn).
  induction h as [|a h IH] using rev_ind; intros Hadm Hlen; [reflexivity|].
  rewrite app_length in Hlen. cbn [length] in Hlen.
  rewrite adm_snoc in Hadm. apply andb_prop in Hadm as [Hadm Ho].
  assert (Hadm' : adm (E:=TSP) (under i) h = true) by (apply IH; [exact Hadm | lia]).
  rewrite adm_snoc, Hadm'. cbn [andb].
  rewrite tspp_run in Ho. unfold TSPp in Ho. rewrite pad_offered_ok in Ho; [exact Ho|].
  pose proof (tsp_good (under i) h Hwf Hadm' ltac:(lia)) as Hg. rewrite Hn in Hg. exact Hg.
Qed.

Section TspBeam.
  Variable n : nat.
  Hypothesis n_pos : 1 <= n.
  Variables clip tmp : Z -> Z.
  Variable top_p : Qc.
  Variable top_k : nat.
  Variable dec : tsp_inst -> tsp_st -> list Z.          (* the neural decoder: logits of one row; abstract *)
  Hypothesis dec_len : forall i s, tsp_wfb i = true -> tsp_n i = n -> length (dec i s) = n.

  Let E1 : Env := TSPp n.
  Let dec1 (i : inst E1) (s : st E1) : list Z := dec (under i) s.
  Let lp1 := lpQc clip tmp top_p top_k E1 dec1.
  Let lp2 := lpQc clip tmp top_p top_k TSP dec.
  (* the states on which TSPp n and TSP agree *)
  Let G (i : inst E1) (s : st E1) : Prop := okmask n (tavail s) = true.

  Lemma tspp_ok (i : inst E1) : tsp_wf (under i) /\ tsp_n (under i) = n.
  Proof. apply tsp_okb_spec. exact (under_ok i). Qed.

  (* the four hypotheses of [beam_run_total_Qc], for ALL instances and ALL states of the padded environment *)
  Lemma tspp_dec_len : forall (i : inst E1) (s : st E1), length (dec1 i s) = n.
  Proof.
    intros i s. pose proof (under_ok i) as H. unfold tsp_okb in H. apply andb_prop in H as [H1 H2].
    apply dec_len; [exact H1 | apply Nat.eqb_eq; exact H2].
  Qed.
  Lemma tspp_mask_len : forall (i : inst E1) (s : st E1), length (mask E1 i s) = n.
  Proof. intros i s. apply pad_mask_len. Qed.
  Lemma tspp_nde : forall (i : inst E1) h, adm i h = true -> h <> [] -> exists a, offered i (run i h) a = true.
  Proof. intros i h _ _. apply pad_offers. exact n_pos. Qed.
  Lemma tspp_stepok : forall (i : inst E1) h a, adm i h = true -> h <> [] -> offered i (run i h) a = true ->
    stepok E1 i (run i h) a = true.
  Proof.
    intros i h a _ _ Ho. set (s := run i h) in *. unfold offered in Ho. cbn [E1 TSPp stepok mask pad] in *.
    destruct (okmask n (mask (TSPn n) i s)); [|reflexivity].
    cbn [TSPn stepok mask restrict TSP] in *. unfold tsp_stepok, tsp_mask in *. apply Nat.ltb_lt.
    destruct (Nat.lt_ge_cases a (length (tavail s))) as [Hlt|Hge]; [exact Hlt|]. rewrite nth_overflow in Ho by exact Hge. discriminate.
  Qed.

  (* homomorphism TSPp n -> TSP *)
  Lemma tsp_sim_mask : forall (i : inst E1) s, G i s -> mask TSP (under i) s = mask E1 i s.
  Proof. intros i s Hg. cbn [E1 TSPp mask pad TSPn restrict TSP]. unfold tsp_mask. unfold G in Hg. rewrite Hg. reflexivity. Qed.
  Lemma tsp_sim_stepok : forall (i : inst E1) s a, G i s -> stepok TSP (under i) s a = stepok E1 i s a.
  Proof. intros i s a Hg. cbn [E1 TSPp stepok mask pad TSPn restrict TSP]. unfold tsp_mask. unfold G in Hg. rewrite Hg. reflexivity. Qed.
  Lemma tsp_sim_lp : forall (i : inst E1) s, G i s -> lp2 (under i) s = lp1 i s.
  Proof. intros i s Hg. unfold lp1, lp2, lpQc, lpK. rewrite (tsp_sim_mask i s Hg). reflexivity. Qed.

  Lemma tspp_G_run (i : inst E1) h : adm (E:=E1) i h = true -> length h < n -> G i (run (E:=E1) i h).
  Proof.
    intros Hadm Hlen. destruct (tspp_ok i) as (Hwf & Hn). unfold G, E1. rewrite tspp_run.
    pose proof (tsp_good (under i) h Hwf (tspp_adm_le n i h Hadm ltac:(lia)) ltac:(lia)) as H. rewrite Hn in H. exact H.
  Qed.

  Section Batch.
    Variables W B : nat.
    Variable insts' : list (inst E1).
    Hypothesis W_pos : 0 < W.
    Hypothesis insts_len : length insts' = B.

    Let Hlen1 : forall i s, length (lp1 i s) = n :=
      lpK_len QcF Z Z.leb pow2 clip tmp top_p top_k E1 dec1 n tspp_dec_len tspp_mask_len.

    (* lockstep invariant: bookkeeping invariant of BeamProofs.v, rows admitted, all histories of one length L <= n *)
    Definition tsp_J (bs : bstate E1 Qc) : Prop :=
      BeamProofs.Inv E1 Qc Qcmult 1%Qc 0%Qc lp1 W B insts' bs /\ rows_adm E1 Qc bs /\
      exists L, L <= n /\ hist_len E1 Qc bs L.

    Lemma tsp_J_step bs : tsp_J bs -> all_done E1 Qc bs = false ->
      (forall r, In r (b_rows E1 Qc bs) -> good_row E1 G r) /\
      (forall bs', beam_step E1 Qc Qcmult 0%Qc Qcleb lp1 W bs = Some bs' -> tsp_J bs').
    Proof.
      intros (HI & Hadm & L & HLn & HL) Hnd.
      assert (Hrow : forall r, In r (b_rows E1 Qc bs) ->
                r_st E1 r = run (E:=E1) (r_inst E1 r) (r_hist E1 r) /\ adm (E:=E1) (r_inst E1 r) (r_hist E1 r) = true /\
                length (r_hist E1 r) = L).
      { intros r Hin. apply In_nth_error in Hin as (q & Hq).
        destruct (BeamProofs.inv_row _ _ _ _ _ _ _ _ _ _ HI q r Hq) as (_ & Hst & _).
        split; [exact Hst|]. split; [exact (Hadm q r Hq) | exact (HL q r Hq)]. }
      (* some row is unfinished, so L < n *)
      assert (HLlt : L < n).
      { unfold all_done in Hnd. apply forallb_false_ex in Hnd as (r0 & Hin0 & Hd0).
        destruct (Hrow r0 Hin0) as (Hst & Ha & Hl). destruct (tspp_ok (r_inst E1 r0)) as (Hwf & Hn).
        unfold row_done in Hd0. rewrite Hst in Hd0. unfold E1 in Hd0. rewrite tspp_run in Hd0.
        pose proof (tspp_adm_le n _ _ Ha ltac:(lia)) as Ha'.
        destruct (Nat.eq_dec L n) as [->|Hne]; [|lia]. exfalso.
        assert (Hd : done TSP (under (r_inst E1 r0)) (run (E:=TSP) (under (r_inst E1 r0)) (r_hist E1 r0)) = true)
          by (apply (tsp_done_iff _ _ (proj1 Hwf) Ha'); lia).
        change (done TSP (under (r_inst E1 r0)) (run (E:=TSP) (under (r_inst E1 r0)) (r_hist E1 r0)) = false) in Hd0.
        rewrite Hd in Hd0. discriminate. }
      split.
      - intros r Hin. destruct (Hrow r Hin) as (Hst & Ha & Hl). unfold good_row. rewrite Hst. apply tspp_G_run; [exact Ha | lia].
      - intros bs' Hs. split; [exact (Inv_step E1 Qc Qcmult 1%Qc 0%Qc Qcleb lp1 n n_pos Hlen1 W B insts' W_pos insts_len bs bs' HI Hs)|].
        split; [exact (adm_step E1 Qc Qcmult 1%Qc 0%Qc Qcleb lp1 n n_pos Hlen1 W B insts' W_pos insts_len bs bs' HI Hs Hadm)|].
        exists (S L). split; [lia|].
        exact (hist_len_step E1 Qc Qcmult 1%Qc 0%Qc Qcleb lp1 n n_pos Hlen1 W B insts' W_pos insts_len bs bs' L HI Hs HL).
    Qed.

    Lemma tsp_J_pre starts bs0 : pre_hook E1 Qc 1%Qc W insts' starts = Some bs0 -> starts_offered E1 B insts' starts -> tsp_J bs0.
    Proof.
      intros Hpre Hoff. split; [exact (proj1 (Inv_pre_hook E1 Qc Qcmult 1%Qc 0%Qc lp1 n n_pos W B insts' W_pos insts_len starts bs0 Hpre))|].
      split; [exact (rows_adm_pre E1 Qc Qcmult 1%Qc 0%Qc lp1 n n_pos W B insts' W_pos insts_len starts bs0 Hpre Hoff)|].
      exists 1. split; [exact n_pos|].
      exact (hist_len_pre_hook E1 Qc Qcmult 1%Qc 0%Qc lp1 n n_pos W B insts' W_pos insts_len starts bs0 Hpre).
    Qed.

    Lemma tsp_J_loop fuel bs bs' : tsp_J bs -> loop E1 Qc Qcmult 0%Qc Qcleb lp1 fuel W bs = Some bs' -> tsp_J bs'.
    Proof.
      apply (loop_invariant E1 Qc Qcmult 0%Qc Qcleb lp1 W tsp_J).
      intros b b' Hj Hd Hs. exact (proj2 (tsp_J_step b Hj Hd) b' Hs).
    Qed.
  End Batch.
  (* everything at once: the loop on TSP itself is the image of the loop on the padded environment, which is total *)
  Lemma tsp_beam_core W B (insts : list tsp_inst) starts bs0 fuel :
    length insts = B -> 0 < B ->
    (forall i, In i insts -> tsp_wfb i = true /\ tsp_n i = n) ->
    pre_hook TSP Qc 1%Qc W insts starts = Some bs0 ->
    starts_offered TSP B insts starts ->
    exists bs, loop TSP Qc Qcmult 0%Qc Qcleb lp2 fuel W bs0 = Some bs /\
      length (b_rows TSP Qc bs) = W * B /\
      forall r, r < W * B -> exists (i : tsp_inst) (h : list nat),
        nth_error insts (r mod B) = Some i /\
        nth_error (b_rows TSP Qc bs) r = Some (i, run (E:=TSP) i h, h) /\ h <> [] /\
        adm (E:=TSP) i h = true /\
        (0 < score TSP Qc Qcmult 1%Qc 0%Qc lp2 i h)%Qc /\
        (n <= S fuel -> length h = n).
  Proof.
    intros HL HB Hall Hpre Hoff.
    destruct (lift_instances TSP (tsp_okb n) insts) as (insts' & Hmap).
    { intros i Hi. destruct (Hall i Hi) as (H1 & H2). unfold tsp_okb. rewrite H1. apply Nat.eqb_eq. exact H2. }
    subst insts. rewrite map_length in HL.
    assert (Hreset : forall i : inst E1, G i (reset E1 i)).
    { intros i. apply (tspp_G_run i []); [reflexivity | cbn [length]; lia]. }
    (* pre_hook *)
    assert (Hm : forall (i : inst E1) a, In i insts' ->
              length (mask TSP (under i) (step E1 i (reset E1 i) a)) = length (mask E1 i (step E1 i (reset E1 i) a))).
    { intros i a _. rewrite tspp_mask_len. destruct (tspp_ok i) as (_ & Hn).
      exact (eq_trans (tsp_run_avail_len (under i) [a]) Hn). }
    pose proof (sim_pre_hook E1 TSP Qc 1%Qc under (fun _ s => s) G (fun _ => eq_refl) (fun _ _ _ => eq_refl) tsp_sim_stepok
                  W insts' starts (fun i _ => Hreset i) Hm) as Hsp.
    pose proof (eq_trans (eq_sym Hsp) Hpre) as Hpre2. clear Hsp Hpre.
    destruct (pre_hook E1 Qc 1%Qc W insts' starts) as [bs0'|] eqn:Hpre'; [|discriminate]. cbn [option_map] in Hpre2. injection Hpre2 as <-.
    assert (HW : 0 < W) by (pose proof (pre_hook_width _ _ _ _ _ _ _ Hpre'); lia).
    assert (Hoff' : starts_offered E1 B insts' starts).
    { intros r i a Hi Ha. unfold E1, TSPp. rewrite pad_offered_ok; [|exact (Hreset i)].
      exact (Hoff r (under i) a (map_nth_error under _ _ Hi) Ha). }
    destruct (beam_run_total_Qc clip tmp top_p top_k E1 dec1 n tspp_dec_len tspp_mask_len tspp_nde n_pos tspp_stepok
                W B insts' starts bs0' fuel HW HL HB Hpre' Hoff') as (bs' & Hloop & Hrows).
    fold lp1 in Hloop, Hrows.
    (* the loop *)
    pose proof (tsp_J_pre W B insts' HW HL starts bs0' Hpre' Hoff') as HJ0.
    pose proof (tsp_J_loop W B insts' HW HL fuel bs0' bs' HJ0 Hloop) as (HI & _ & L & HLn & HLen).
    pose proof (sim_loop E1 TSP Qc Qcmult 0%Qc Qcleb lp1 lp2 under (fun _ s => s) G
                  (fun _ _ _ => eq_refl) (fun _ _ => eq_refl) tsp_sim_mask tsp_sim_stepok tsp_sim_lp
                  W (tsp_J W B insts') (tsp_J_step W B insts' HW HL) fuel bs0' HJ0) as Hsl.
    rewrite Hloop in Hsl. cbn [option_map] in Hsl.
    eexists. split; [exact Hsl|].
    split; [cbn [sim_bs b_rows]; rewrite map_length; exact (BeamProofs.inv_rows _ _ _ _ _ _ _ _ _ _ HI)|].
    intros r Hr. destruct (Hrows r Hr) as (i & h & (Hi & Hrw & Hne) & Hadm & Hpos).
    pose proof (HLen r _ Hrw) as Hlh. cbn [r_hist snd] in Hlh.
    exists (under i), h. split; [exact (map_nth_error under _ _ Hi)|].
    split; [cbn [sim_bs b_rows]; rewrite (map_nth_error _ _ _ Hrw); unfold sim_row; cbn [r_inst r_st r_hist fst snd];
            unfold E1; rewrite tspp_run; reflexivity|].
    split; [exact Hne|]. split; [apply (tspp_adm_le n i h Hadm); lia|]. split.
    - rewrite (sim_score E1 TSP Qc Qcmult 1%Qc 0%Qc lp1 lp2 under (fun _ s => s) G (fun _ => eq_refl) (fun _ _ _ => eq_refl) tsp_sim_lp);
        [exact Hpos|].
      intros p q Hpq Hp Hq. apply tspp_G_run.
      + rewrite Hpq in Hadm. exact (adm_prefix _ _ _ _ Hadm).
      + assert (length q <> 0) by (destruct q; [congruence | discriminate]).
        rewrite Hpq, app_length in Hlh. lia.
    - intros Hfuel.
      assert (Hlen1 : forall i s, length (lp1 i s) = n)
        by (intros i0 s0; apply (lpK_len QcF Z Z.leb pow2 clip tmp top_p top_k E1 dec1 n tspp_dec_len tspp_mask_len)).
      pose proof (Inv_pre_hook E1 Qc Qcmult 1%Qc 0%Qc lp1 n n_pos W B insts' HW HL starts bs0' Hpre') as (HI0 & _).
      destruct (hist_len_loop E1 Qc Qcmult 1%Qc 0%Qc Qcleb lp1 n n_pos Hlen1 W B insts' HW HL fuel bs0' bs' 1 HI0 Hloop
                  (hist_len_pre_hook E1 Qc Qcmult 1%Qc 0%Qc lp1 n n_pos W B insts' HW HL starts bs0' Hpre'))
        as (k & Hk & HLk & Hend).
      pose proof (HLk r _ Hrw) as Hlh'. cbn [r_hist snd] in Hlh'.
      destruct Hend as [Hd|Hkf]; [|lia].
      pose proof (all_done_row E1 Qc bs' r _ Hd Hrw) as Hdr. unfold row_done in Hdr. cbn [r_inst r_st fst snd] in Hdr.
      destruct (tspp_ok i) as (Hwf & Hn).
      pose proof (tspp_adm_le n i h Hadm ltac:(lia)) as Hadm2.
      unfold E1 in Hdr. rewrite tspp_run in Hdr.
      change (done TSP (under i) (run (E:=TSP) (under i) h) = true) in Hdr.
      apply (tsp_done_iff _ _ (proj1 Hwf) Hadm2) in Hdr. lia.
  Qed.
End TspBeam.

(* C13 x (C02, C10, C01) on TSP, any fuel: the decoding loop never raises; every row of the returned state holds an
   instance of the batch and the history that produced its state; the history is admitted by the TSP masks, has
   positive probability, and -- whenever the row is finished -- is a tour of the instance ([tsp_feasible]) *)
Theorem beam_search_on_tsp :
  forall (n : nat), 1 <= n ->
  forall (clip tmp : Z -> Z) (top_p : Qc) (top_k : nat) (dec : tsp_inst -> tsp_st -> list Z),
    (forall i s, tsp_wfb i = true -> tsp_n i = n -> length (dec i s) = n) ->
  forall (W B : nat) (insts : list tsp_inst) (starts : list nat) (bs0 : bstate TSP Qc) (fuel : nat),
    length insts = B -> 0 < B ->
    (forall i, In i insts -> tsp_wfb i = true /\ tsp_n i = n) ->
    pre_hook TSP Qc 1%Qc W insts starts = Some bs0 ->
    starts_offered TSP B insts starts ->
    exists bs, loop TSP Qc Qcmult 0%Qc Qcleb (lpQc clip tmp top_p top_k TSP dec) fuel W bs0 = Some bs /\
      forall r, r < W * B -> exists (i : tsp_inst) (h : list nat),
        nth_error insts (r mod B) = Some i /\
        nth_error (b_rows TSP Qc bs) r = Some (i, run (E:=TSP) i h, h) /\ h <> [] /\
        adm (E:=TSP) i h = true /\
        (0 < score TSP Qc Qcmult 1%Qc 0%Qc (lpQc clip tmp top_p top_k TSP dec) i h)%Qc /\
        (done TSP i (run (E:=TSP) i h) = true -> tsp_feasible i h).
Proof.
  intros n Hn clip tmp top_p top_k dec Hdec W B insts starts bs0 fuel HL HB Hall Hpre Hoff.
  destruct (tsp_beam_core n Hn clip tmp top_p top_k dec Hdec W B insts starts bs0 fuel HL HB Hall Hpre Hoff) as (bs & Hloop & _ & Hrows).
  exists bs. split; [exact Hloop|]. intros r Hr. destruct (Hrows r Hr) as (i & h & Hi & Hrw & Hne & Hadm & Hpos & _).
  exists i, h. split; [exact Hi|]. split; [exact Hrw|]. split; [exact Hne|]. split; [exact Hadm|]. split; [exact Hpos|].
  intros Hd. apply tsp_mask_sound; [|exact Hadm | exact Hd].
  apply tsp_wfb_ok. apply (Hall i). eapply nth_error_In. exact Hi.
Qed.

(* ... and with fuel for n - 1 steps (C02: a tour has n moves, one of them forced) every returned beam is finished,
   hence a tour *)
Theorem beam_search_on_tsp_finishes :
  forall (n : nat), 1 <= n ->
  forall (clip tmp : Z -> Z) (top_p : Qc) (top_k : nat) (dec : tsp_inst -> tsp_st -> list Z),
    (forall i s, tsp_wfb i = true -> tsp_n i = n -> length (dec i s) = n) ->
  forall (W B : nat) (insts : list tsp_inst) (starts : list nat) (bs0 : bstate TSP Qc) (fuel : nat),
    length insts = B -> 0 < B ->
    (forall i, In i insts -> tsp_wfb i = true /\ tsp_n i = n) ->
    pre_hook TSP Qc 1%Qc W insts starts = Some bs0 ->
    starts_offered TSP B insts starts ->
    n <= S fuel ->
    exists bs, loop TSP Qc Qcmult 0%Qc Qcleb (lpQc clip tmp top_p top_k TSP dec) fuel W bs0 = Some bs /\
      all_done TSP Qc bs = true /\
      forall r, r < W * B -> exists (i : tsp_inst) (h : list nat),
        nth_error insts (r mod B) = Some i /\
        nth_error (b_rows TSP Qc bs) r = Some (i, run (E:=TSP) i h, h) /\ h <> [] /\
        adm (E:=TSP) i h = true /\
        (0 < score TSP Qc Qcmult 1%Qc 0%Qc (lpQc clip tmp top_p top_k TSP dec) i h)%Qc /\
        done TSP i (run (E:=TSP) i h) = true /\ tsp_feasible i h.
Proof.
  intros n Hn clip tmp top_p top_k dec Hdec W B insts starts bs0 fuel HL HB Hall Hpre Hoff Hfuel.
  destruct (tsp_beam_core n Hn clip tmp top_p top_k dec Hdec W B insts starts bs0 fuel HL HB Hall Hpre Hoff) as (bs & Hloop & Hlen & Hrows).
  exists bs. split; [exact Hloop|].
  assert (Hrows' : forall r, r < W * B -> exists (i : tsp_inst) (h : list nat),
        nth_error insts (r mod B) = Some i /\
        nth_error (b_rows TSP Qc bs) r = Some (i, run (E:=TSP) i h, h) /\ h <> [] /\
        adm (E:=TSP) i h = true /\
        (0 < score TSP Qc Qcmult 1%Qc 0%Qc (lpQc clip tmp top_p top_k TSP dec) i h)%Qc /\
        done TSP i (run (E:=TSP) i h) = true /\ tsp_feasible i h).
  { intros r Hr. destruct (Hrows r Hr) as (i & h & Hi & Hrw & Hne & Hadm & Hpos & Hfin).
    assert (Hwf : tsp_wf i) by (apply tsp_wfb_ok; apply (Hall i); eapply nth_error_In; exact Hi).
    assert (Hni : tsp_n i = n) by (apply (Hall i); eapply nth_error_In; exact Hi).
    assert (Hd : done TSP i (run (E:=TSP) i h) = true) by (apply (tsp_done_iff i h (proj1 Hwf) Hadm); rewrite Hni; exact (Hfin Hfuel)).
    exists i, h. split; [exact Hi|]. split; [exact Hrw|]. split; [exact Hne|]. split; [exact Hadm|]. split; [exact Hpos|].
    split; [exact Hd | apply tsp_mask_sound; assumption]. }
  split; [|exact Hrows'].
  unfold all_done. apply forallb_forall. intros rw Hin. apply In_nth_error in Hin as (r & Hr).
  assert (Hlt : r < W * B) by (rewrite <- Hlen; eapply nth_error_Some_lt; exact Hr).
  destruct (Hrows' r Hlt) as (i & h & _ & Hrw & _ & _ & _ & Hd & _). rewrite Hrw in Hr. injection Hr as <-. exact Hd.
Qed.

(* ---- the instantiations themselves: the hypotheses of [beam_run_total_Qc] (= C13_beam_search_Qc), quantified over
        ALL instances and ALL states, hold for the restricted CVRP environment and for the padded restricted TSP one *)
Theorem cvrp_restricted_satisfies_abstract_hypotheses :
  forall (n : nat), 1 <= n -> forall (dec : cvrp_inst -> cvrp_st -> list Z),
    (forall i s, cvrp_wf i -> cvrp_solvable i -> n_of i = n -> length (dec i s) = S n) ->
    let E1 := restrict (CVRP exact) (cvrp_okb n) in
    let dec1 := fun (i : inst E1) (s : st E1) => dec (under i) s in
    (forall (i : inst E1) (s : st E1), length (dec1 i s) = S n) /\
    (forall (i : inst E1) (s : st E1), length (mask E1 i s) = S n) /\
    (forall (i : inst E1) h, adm i h = true -> h <> [] -> exists a, offered i (run i h) a = true) /\
    (forall (i : inst E1) h a, adm i h = true -> h <> [] -> offered i (run i h) a = true -> stepok E1 i (run i h) a = true).
Proof.
  intros n Hn dec Hdec E1 dec1. split; [exact (cvrpn_dec_len n dec Hdec)|]. split; [exact (cvrpn_mask_len n)|].
  split; [exact (cvrpn_nde n) | exact (cvrpn_stepok n Hn)].
Qed.

Theorem tsp_padded_satisfies_abstract_hypotheses :
  forall (n : nat), 1 <= n -> forall (dec : tsp_inst -> tsp_st -> list Z),
    (forall i s, tsp_wfb i = true -> tsp_n i = n -> length (dec i s) = n) ->
    let E1 := pad (restrict TSP (tsp_okb n)) n in
    let dec1 := fun (i : inst E1) (s : st E1) => dec (under i) s in
    (forall (i : inst E1) (s : st E1), length (dec1 i s) = n) /\
    (forall (i : inst E1) (s : st E1), length (mask E1 i s) = n) /\
    (forall (i : inst E1) h, adm i h = true -> h <> [] -> exists a, offered i (run i h) a = true) /\
    (forall (i : inst E1) h a, adm i h = true -> h <> [] -> offered i (run i h) a = true -> stepok E1 i (run i h) a = true).
Proof.
  intros n Hn dec Hdec E1 dec1. split; [exact (tspp_dec_len n dec Hdec)|]. split; [exact (tspp_mask_len n)|].
  split; [exact (tspp_nde n Hn) | exact (tspp_stepok n)].
Qed.

(* ================================================================================================ *)
(** * Part 3: non-vacuity -- concrete batches, decoders and runs *)

(* two CVRP instances with 3 customers, capacity 8; a "decoder" whose integer logits (times ln 2) depend on the state *)
Definition ex_cvrp_a : cvrp_inst := {| dem := [3; 4; 5]%Z; cap := 8%Z; dist := []; tol := 0%Z |}.
Definition ex_cvrp_b : cvrp_inst := {| dem := [2; 2; 6]%Z; cap := 8%Z; dist := []; tol := 0%Z |}.
Definition ex_cvrp_dec (_ : cvrp_inst) (s : cvrp_st) : list Z := [0; 2; 1; Z.of_nat (cur s)]%Z.
Definition ex_cvrp_lp := lpQc (fun z => z) (fun z => z) 0%Qc 0 (CVRP exact) ex_cvrp_dec.
(* readable view of a beam state: per row (history, spec holds?, finished?), and the accumulated probabilities *)
Definition ex_cvrp_show (o : option (bstate (CVRP exact) Qc)) :=
  match o with
  | Some bs => Some (map (fun rw => (r_hist (CVRP exact) rw, cvrp_feasibleb (r_inst (CVRP exact) rw) 0 (r_hist (CVRP exact) rw),
                                      row_done (CVRP exact) rw)) (b_rows (CVRP exact) Qc bs),
                     map (fun x : Qc => this x) (b_pbl (CVRP exact) Qc bs))
  | None => None
  end.

Example ex_cvrp_hypotheses :
  (forall i, In i [ex_cvrp_a; ex_cvrp_b] -> cvrp_wf i /\ cvrp_solvable i /\ n_of i = 3) /\
  (forall i s, cvrp_wf i -> cvrp_solvable i -> n_of i = 3 -> length (ex_cvrp_dec i s) = 4) /\
  starts_offered (CVRP exact) 2 [ex_cvrp_a; ex_cvrp_b] [1; 1; 2; 3].
Proof.
  split; [|split].
  - intros i [<-|[<-|[]]]; (split; [apply cvrp_wfb_ok; reflexivity|]; split; [apply cvrp_solvableb_ok; reflexivity | reflexivity]).
  - reflexivity.
  - intros r i a Hi Ha.
    do 4 (destruct r as [|r]; [cbn in Hi, Ha; injection Hi as <-; injection Ha as <-; reflexivity|]). destruct r; discriminate.
Qed.

(* beam width 2, forced first moves (1, 2) for instance a and (1, 3) for instance b; fuel 2n = 6: the loop stops after 3
   steps with every beam finished and feasible (both instances must return to the depot once: 3 + 4 + 5 > 8) *)
Example ex_cvrp_run :
  ex_cvrp_show (match pre_hook (CVRP exact) Qc 1%Qc 2 [ex_cvrp_a; ex_cvrp_b] [1; 1; 2; 3] with
                | Some bs0 => loop (CVRP exact) Qc Qcmult 0%Qc Qcleb ex_cvrp_lp 6 2 bs0 | None => None end)
  = Some ([([2; 1; 0; 3], true, true); ([3; 1; 0; 2], true, true); ([1; 2; 0; 3], true, true); ([1; 2; 0; 3], true, true)],
          [4 # 5; 4 # 7; 2 # 5; 2 # 5]%Q).
Proof. vm_compute. reflexivity. Qed.

(* out of fuel after 2 steps: admitted, positive probability, not finished (and not yet a solution) *)
Example ex_cvrp_run_short :
  ex_cvrp_show (match pre_hook (CVRP exact) Qc 1%Qc 2 [ex_cvrp_a; ex_cvrp_b] [1; 1; 2; 3] with
                | Some bs0 => loop (CVRP exact) Qc Qcmult 0%Qc Qcleb ex_cvrp_lp 2 2 bs0 | None => None end)
  = Some ([([2; 1; 0], false, false); ([3; 1; 0], false, false); ([1; 2; 0], false, false); ([1; 2; 0], false, false)],
          [4 # 5; 4 # 7; 2 # 5; 2 # 5]%Q).
Proof. vm_compute. reflexivity. Qed.

(* two TSP instances with 3 cities *)
Definition ex_tsp_a : tsp_inst := {| tdist := [[0; 3; 4]; [3; 0; 5]; [4; 5; 0]]%Z |}.
Definition ex_tsp_b : tsp_inst := {| tdist := [[0; 1; 2]; [1; 0; 2]; [2; 2; 0]]%Z |}.
Definition ex_tsp_dec (_ : tsp_inst) (s : tsp_st) : list Z := [Z.of_nat (tcur s); 2; 1]%Z.
Definition ex_tsp_lp := lpQc (fun z => z) (fun z => z) 0%Qc 0 TSP ex_tsp_dec.
Definition ex_tsp_show (o : option (bstate TSP Qc)) :=
  match o with
  | Some bs => Some (map (fun rw => (r_hist TSP rw, tsp_feasibleb (r_inst TSP rw) (r_hist TSP rw), row_done TSP rw)) (b_rows TSP Qc bs),
                     map (fun x : Qc => this x) (b_pbl TSP Qc bs))
  | None => None
  end.

Example ex_tsp_hypotheses :
  (forall i, In i [ex_tsp_a; ex_tsp_b] -> tsp_wfb i = true /\ tsp_n i = 3) /\
  (forall i s, tsp_wfb i = true -> tsp_n i = 3 -> length (ex_tsp_dec i s) = 3) /\
  starts_offered TSP 2 [ex_tsp_a; ex_tsp_b] [0; 1; 2; 2].
Proof.
  split; [|split].
  - intros i [<-|[<-|[]]]; split; reflexivity.
  - reflexivity.
  - intros r i a Hi Ha.
    do 4 (destruct r as [|r]; [cbn in Hi, Ha; injection Hi as <-; injection Ha as <-; reflexivity|]). destruct r; discriminate.
Qed.

(* fuel n - 1 = 2 suffices: all four beams are tours *)
Example ex_tsp_run :
  ex_tsp_show (match pre_hook TSP Qc 1%Qc 2 [ex_tsp_a; ex_tsp_b] [0; 1; 2; 2] with
               | Some bs0 => loop TSP Qc Qcmult 0%Qc Qcleb ex_tsp_lp 2 2 bs0 | None => None end)
  = Some ([([0; 1; 2], true, true); ([1; 0; 2], true, true); ([2; 0; 1], true, true); ([1; 2; 0], true, true)],
          [2 # 3; 1 # 2; 1 # 2; 1 # 2]%Q).
Proof. vm_compute. reflexivity. Qed.

(* what the abstract hypothesis "no dead end" protects against DOES happen on TSP if a finished batch is stepped once
   more (topk over all -inf expansions selects a masked action: "infeasible action selected") -- the loop never does it *)
Example ex_tsp_step_after_done_raises :
  match pre_hook TSP Qc 1%Qc 2 [ex_tsp_a; ex_tsp_b] [0; 1; 2; 2] with
  | Some bs0 => match loop TSP Qc Qcmult 0%Qc Qcleb ex_tsp_lp 2 2 bs0 with
                | Some bs => all_done TSP Qc bs = true /\ beam_step TSP Qc Qcmult 0%Qc Qcleb ex_tsp_lp 2 bs = None
                | None => False end
  | None => False
  end.
Proof. vm_compute. split; reflexivity. Qed.
