(* Composition infrastructure: two generic constructions on the environments of Base/EnvSig.v that let a theorem
   stated for "ANY environment E, under hypotheses quantified over ALL instances (and all states) of E" be
   instantiated with a real environment model whose theorems hold for well-formed instances (and reachable states).

   [restrict E P]  the same environment with the instance type cut down to { i | P i = true }  (P a boolean
                   well-formedness / solvability / common-width predicate).  Runs, admitted action lists, offered
                   actions, masks, done flags and step-ok flags are those of E at the underlying instance.
   [hist E]        the same environment with the STATE replaced by the action history that produced it (every state of
                   [hist E] is a state reached from reset: there are no junk states).  Masks, done flags and step-ok
                   flags are those of E in the state reached by the history.

   Nothing here is specific to an environment. *)
From Coq Require Import List Bool Arith Lia.
From RL4CO Require Import Base.EnvSig.
Import ListNotations.

Section Restrict.
  Variable E : Env.
  Variable P : inst E -> bool.

  Definition rinst : Type := { i : inst E | P i = true }.
  Definition under (i : rinst) : inst E := proj1_sig i.
  Definition under_ok (i : rinst) : P (under i) = true := proj2_sig i.

  Definition restrict : Env := {|
    inst := rinst; st := st E;
    reset := fun i => reset E (under i);
    step := fun i s a => step E (under i) s a;
    stepok := fun i s a => stepok E (under i) s a;
    mask := fun i s => mask E (under i) s;
    done := fun i s => done E (under i) s |}.

  Lemma restrict_run_from (i : rinst) s acts : run_from (E:=restrict) i s acts = run_from (E:=E) (under i) s acts.
  Proof. revert s; induction acts as [|a r IH]; intros s; cbn; auto. Qed.
  Lemma restrict_run (i : rinst) acts : run (E:=restrict) i acts = run (E:=E) (under i) acts.
  Proof. apply restrict_run_from. Qed.
  Lemma restrict_offered (i : rinst) s a : offered (E:=restrict) i s a = offered (E:=E) (under i) s a.
  Proof. reflexivity. Qed.
  Lemma restrict_adm_from (i : rinst) s acts : adm_from (E:=restrict) i s acts = adm_from (E:=E) (under i) s acts.
  Proof. revert s; induction acts as [|a r IH]; intros s; cbn; [reflexivity|]. rewrite IH. reflexivity. Qed.
  Lemma restrict_adm (i : rinst) acts : adm (E:=restrict) i acts = adm (E:=E) (under i) acts.
  Proof. apply restrict_adm_from. Qed.
  Lemma restrict_ok_from (i : rinst) s acts : ok_from (E:=restrict) i s acts = ok_from (E:=E) (under i) s acts.
  Proof. revert s; induction acts as [|a r IH]; intros s; cbn; [reflexivity|]. rewrite IH. reflexivity. Qed.

  (* every list of instances satisfying P is the image of a list of restricted instances *)
  Lemma lift_instances (l : list (inst E)) :
    (forall i, In i l -> P i = true) -> exists l' : list rinst, map under l' = l.
  Proof.
    induction l as [|i l IH]; intros H; [exists []; reflexivity|].
    destruct IH as [l' Hl']; [intros j Hj; apply H; right; exact Hj|].
    exists (exist _ i (H i (or_introl eq_refl)) :: l'). cbn. rewrite Hl'. reflexivity.
  Qed.
End Restrict.

Arguments under {E P} i.
Arguments under_ok {E P} i.

Section Hist.
  Variable E : Env.

  Definition hist : Env := {|
    inst := inst E; st := list nat;
    reset := fun _ => [];
    step := fun _ h a => h ++ [a];
    stepok := fun i h a => stepok E i (run (E:=E) i h) a;
    mask := fun i h => mask E i (run (E:=E) i h);
    done := fun i h => done E i (run (E:=E) i h) |}.

  Lemma hist_run_from (i : inst E) h acts : run_from (E:=hist) i h acts = h ++ acts.
  Proof.
    revert h; induction acts as [|a r IH]; intros h; cbn; [rewrite app_nil_r; reflexivity|].
    rewrite IH, <- app_assoc. reflexivity.
  Qed.
  Lemma hist_run (i : inst E) acts : run (E:=hist) i acts = acts.
  Proof. unfold run. rewrite hist_run_from. reflexivity. Qed.
  Lemma hist_offered (i : inst E) h a : offered (E:=hist) i h a = offered (E:=E) i (run (E:=E) i h) a.
  Proof. reflexivity. Qed.
  Lemma hist_adm_from (i : inst E) h acts :
    adm_from (E:=hist) i h acts = adm_from (E:=E) i (run (E:=E) i h) acts.
  Proof.
    revert h; induction acts as [|a r IH]; intros h; cbn; [reflexivity|].
    rewrite IH, (run_snoc E i). reflexivity.
  Qed.
  Lemma hist_adm (i : inst E) acts : adm (E:=hist) i acts = adm (E:=E) i acts.
  Proof. apply (hist_adm_from i []). Qed.
  Lemma hist_mask_run (i : inst E) acts : mask hist i (run (E:=hist) i acts) = mask E i (run (E:=E) i acts).
  Proof. rewrite hist_run. reflexivity. Qed.
  Lemma hist_done_run (i : inst E) acts : done hist i (run (E:=hist) i acts) = done E i (run (E:=E) i acts).
  Proof. rewrite hist_run. reflexivity. Qed.
End Hist.
