(* Correspondence harness for C18, unit sched (FJSP / JSSP / FFSP / SMTWTP generators).
   Codes: 0 fine; 1 the model's instance differs from the one the real generator emitted on the same raw draws;
   12 emitted instance outside the environment's input format (wfb false); 6 solvability / "one machine per
   operation" / "padded operations have no machine" / documented range false on the emitted instance. *)
From Coq Require Import ZArith List Bool Lia Arith.
From RL4CO Require Import Base.Num Spec.Schedule Env.FJSP Env.FFSP Env.SMTWTP Data.GenSched.
Import ListNotations.
Open Scope nat_scope.

Fixpoint leqb {A} (eqb : A -> A -> bool) (a b : list A) : bool :=
  match a, b with [], [] => true | x :: r, y :: t => eqb x y && leqb eqb r t | _, _ => false end.
Definition inst_eqb (a b : inst) : bool :=
  leqb Nat.eqb (start_op a) (start_op b) && leqb Nat.eqb (end_op a) (end_op b) &&
  leqb (leqb Z.eqb) (proc a) (proc b) && leqb Bool.eqb (pad_mask a) (pad_mask b).

(* every positive processing time lies in [minp, maxp] *)
Definition proc_rangeb (minp maxp : Z) (i : inst) : bool :=
  forallb (forallb (fun p => (p =? 0)%Z || ((minp <=? p)%Z && (p <=? maxp)%Z))) (proc i).

Definition prop_fjsp (minp maxp : Z) (i : inst) : Z :=
  if negb (wfb i) then 12%Z
  else if negb (solvableb i && pad_cleanb i && proc_rangeb minp maxp i) then 6%Z else 0%Z.
Definition prop_jssp (minp maxp : Z) (i : inst) : Z :=
  if negb (wfb i) then 12%Z
  else if negb (solvableb i && jssp_wfb i && proc_rangeb minp maxp i) then 6%Z else 0%Z.

(* (ns, max_ops, M, n_eligible, idx, same_mean, minp, maxp, means, big-or-pt, observed) *)
Definition check_fjsp (c : list nat * nat * nat * list nat * list (list nat) * bool * Z * Z * list Z * list (list Z) * inst) : Z :=
  let '(ns, maxops, M, nelig, idx, same, minp, maxp, means, raw, obs) := c in
  let nmax := maxops * length ns in
  let pt := if same then map (fun row => map (fun ob => fjsp_pt minp maxp (nth (fst ob) means 0%Z) (snd ob))
                                             (combine (seq 0 (length row)) row)) raw
            else raw in
  if negb (inst_eqb (gen_fjsp ns nmax M nelig idx pt) obs) then 1%Z else prop_fjsp minp maxp obs.
Definition check_fjsp_prop (c : Z * Z * inst) : Z := let '(minp, maxp, i) := c in prop_fjsp minp maxp i.

(* (ns, max_ops, M, ids, pt, minp, maxp, observed) *)
Definition check_jssp (c : list nat * nat * nat * list nat * list (list Z) * Z * Z * inst) : Z :=
  let '(ns, maxops, M, ids, pt, minp, maxp, obs) := c in
  if negb (inst_eqb (gen_jssp ns (maxops * length ns) M ids pt) obs) then 1%Z else prop_jssp minp maxp obs.
Definition check_jssp_prop (c : Z * Z * inst) : Z := let '(minp, maxp, i) := c in prop_jssp minp maxp i.

(* FFSP: (J, S * M, lo, hi, run_time) *)
Definition check_ffsp_prop (c : nat * nat * Z * Z * list (list Z)) : Z :=
  let '(J, T, lo, hi, rt) := c in
  if negb ((length rt =? J) && forallb (fun row => length row =? T) rt) then 12%Z
  else if forallb (forallb (fun d => (lo <=? d)%Z && (d <? hi)%Z && (0 <=? d)%Z && (d <? 999999)%Z)) rt then 0%Z else 6%Z.

(* SMTWTP: (n, due, weight, process time) as scaled integers *)
Definition check_smtwtp_prop (c : nat * list Z * list Z * list Z) : Z :=
  let '(n, due, wgt, pt) := c in
  let i := {| SMTWTP.n_job := n; SMTWTP.due := due; SMTWTP.wgt := wgt; SMTWTP.ptime := pt |} in
  if negb (SMTWTP.wfb i) then 12%Z
  else if negb ((nth 0 due 1 =? 0)%Z && (nth 0 wgt 1 =? 0)%Z && (nth 0 pt 1 =? 0)%Z
                && forallb (fun x => (0 <=? x)%Z) (due ++ wgt ++ pt)) then 6%Z else 0%Z.

Example check_sched_ex :
  check_fjsp ([2; 1], 2, 2, [1; 2; 1; 2], [[1; 0]; [0; 1]; [0; 1]; [1; 0]], false, 1%Z, 20%Z, [],
              [[3; 4; 5; 6]; [7; 8; 9; 10]]%Z,
              {| start_op := [0; 2]; end_op := [1; 2]; proc := [[0; 4; 5; 0]; [7; 8; 0; 0]]%Z;
                 pad_mask := [false; false; false; true] |}) = 0%Z /\
  check_fjsp_prop (1%Z, 20%Z, {| start_op := [0; 2]; end_op := [1; 2]; proc := [[0; 0; 5; 0]; [7; 0; 0; 0]]%Z;
                 pad_mask := [false; false; false; true] |}) = 6%Z /\
  check_fjsp_prop (1%Z, 20%Z, {| start_op := [0; 2]; end_op := [1; 3]; proc := [[0; 4; 5; 0]; [7; 8; 0; 0]]%Z;
                 pad_mask := [false; false; false; true] |}) = 12%Z.
Proof. vm_compute. repeat split. Qed.
