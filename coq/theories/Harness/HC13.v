(* Correspondence harness for C13: the beam-search model of Decoding/Beam.v is run (vm_compute) on what the
   real policy(td, env, decode_type="beam_search", ...) was run on, and compared with what the real run did.

   The environment handed to the model is a TABLE recorded from the real environment: for every history
   (the list of actions applied since reset) that occurred as a state of the real run, the action mask, the
   done flag and the decoder data of that state.  state = history, step = append.  The histories are obtained
   from a ghost key that rides inside the real TensorDict (so it is moved around by td[batch_beam_idx] exactly
   like the state it describes); they are NOT taken from the strategy's own bookkeeping.

   Two score instances:
     Q : decoder data = integer logits z (real logits z * ln 2), lp = the C10 model plQ (exact probabilities
         in Qc), accumulation = product, -inf = 0                      -- stub decoder runs
     Z : decoder data = recorded log-probabilities as exact integers (float32 value * 2^80), None = -inf,
         accumulation = sum                                            -- real AttentionModelPolicy runs

   Result codes
      0  agree (strict comparison: per-step row histories, actions, scores, rewards)
      1  recorded tables are not well-formed (ragged rows, wrong number of starts)
      8  a tie / near tie occurred and the model's tie rule led it to a state the real run never visited (not in the
         table): nothing is comparable
      9  a tie / near tie between candidate scores occurred: torch.topk may keep another of the equal candidates (or
         the same ones in another order) than the model's tie rule, after which the two runs legitimately differ;
         not compared (the step-local top-W property is evaluated on the implementation's own steps in python)
     10  the model raises, the implementation returned
     11  the implementation raised where the model does not (a model failure only counts as raising when every row
         of the failing state is in the table, and it must happen at the same step)
     20  number of decoding steps differs
     30  returned actions differ   31  returned scores differ   32  returned rewards differ
     1000*(t+1)+1  the (instance id :: history) of the rows differ before step t (t = number of steps = final rows) *)
From Coq Require Import List ZArith QArith Qabs Qcanon Bool Arith Lia.
From RL4CO Require Import Base.OField Base.OFieldQc Base.EnvSig Decoding.PLTensor Decoding.ProcessLogits Decoding.PLInst
     Decoding.Batchify Decoding.Nest Decoding.SelectBest Decoding.Beam.
Import ListNotations.
Local Open Scope nat_scope.

Fixpoint eq_nl (a b : list nat) : bool :=
  match a, b with
  | [], [] => true
  | x :: a', y :: b' => Nat.eqb x y && eq_nl a' b'
  | _, _ => false
  end.
Fixpoint eq_nll (a b : list (list nat)) : bool :=
  match a, b with
  | [], [] => true
  | x :: a', y :: b' => eq_nl x y && eq_nll a' b'
  | _, _ => false
  end.
Fixpoint tfind {Y} (tab : list (list nat * Y)) (h : list nat) : option Y :=
  match tab with
  | [] => None
  | (k, v) :: r => if eq_nl k h then Some v else tfind r h
  end.

(* ------------------------------------------------------------------------------------------------ *)
(** * The table environment *)
Section Table.
  Variable X : Type.
  Definition tentry := (list nat * (list bool * bool * X))%type.
  Record tinst := mkT { t_id : nat; t_tab : list tentry; t_rew : list (list nat * Z) }.

  Definition t_mask (i : tinst) (s : list nat) : list bool :=
    match tfind (t_tab i) s with Some (m, _, _) => m | None => [] end.
  Definition t_done (i : tinst) (s : list nat) : bool :=
    match tfind (t_tab i) s with Some (_, d, _) => d | None => false end.
  Definition t_data (i : tinst) (s : list nat) : option X :=
    match tfind (t_tab i) s with Some (_, _, x) => Some x | None => None end.
  Definition t_reward (i : tinst) (_ : list nat) (acts : list nat) : Z :=
    match tfind (t_rew i) acts with Some z => z | None => 0%Z end.

  Definition tenv : Env :=
    {| inst := tinst; st := list nat; reset := fun _ => []; step := fun _ s a => s ++ [a];
       stepok := fun _ _ _ => true; mask := t_mask; done := t_done |}.
End Table.
Arguments mkT {X}. Arguments t_id {X}. Arguments t_tab {X}. Arguments t_rew {X}. Arguments t_data {X}.

(* ------------------------------------------------------------------------------------------------ *)
(** * The comparison, generic in the score instance *)
Section Check.
  Variable X : Type.
  Variable Sc : Type.
  Variable sop : Sc -> Sc -> Sc.
  Variables sone sbot : Sc.
  Variable sleb : Sc -> Sc -> bool.
  Variable fin : Sc -> bool.
  Variable lpX : list bool -> X -> list Sc.          (* mask, decoder data -> step scores *)
  Variable near : Sc -> Sc -> bool.                  (* two finite scores too close to be ordered reliably in float32 *)
  Variable close : Sc -> Q -> bool.                  (* model score vs the implementation's number *)

  Let E := tenv X.
  Definition lpT (i : tinst X) (s : list nat) : list Sc :=
    match tfind (t_tab i) s with Some (m, _, x) => lpX m x | None => [] end.
  Let bst := bstate E Sc.

  Record case := mkC {
    c_W : nat; c_sb : bool; c_fuel : nat;
    c_insts : list (tinst X);
    c_starts : list nat;
    c_raised : bool;                          (* the implementation raised *)
    c_ghosts : list (list (list nat));        (* per decoder call t = 0.. the history of every row, then the final rows *)
    c_actions : list (list nat);              (* returned actions *)
    c_ll : list Q;                            (* returned log-likelihood (instance Q: its exponential) *)
    c_reward : list Z;                        (* returned reward * 2^60 *)
    c_rtol : Z
  }.

  Fixpoint trace (fuel W : nat) (bs : bst) : list bst * bool :=
    if all_done E Sc bs then ([bs], true) else
    match fuel with
    | O => ([bs], true)
    | S f => match beam_step E Sc sop sbot sleb lpT W bs with
             | None => ([bs], false)
             | Some bs' => let (l, ok) := trace f W bs' in (bs :: l, ok)
             end
    end.

  (* a (near) tie among the W+1 best candidates of some instance at this state *)
  Definition near_ties (W : nat) (bs : bst) : bool :=
    let rows := b_rows E Sc bs in
    let R := length rows in
    let B := R / W in
    let lb := map2 (lbp_row Sc sop) (map (row_lp E Sc lpT) rows) (b_pbl E Sc bs) in
    existsb (fun b =>
      let h := hstack Sc B W lb b in
      let srt := map (fun i => nth i h sbot) (argsort_desc Sc sleb sbot h) in
      existsb (fun k => let x := nth k srt sbot in let y := nth (k + 1) srt sbot in fin x && fin y && near x y) (seq 0 W))
      (seq 0 B).

  Definition table_wfb (c : case) : bool :=
    let N := length (t_mask X (hd (mkT 0 [] []) (c_insts c)) (firstn 1 (c_starts c))) in
    negb (N =? 0) &&
    (length (c_starts c) =? c_W c * length (c_insts c)) &&
    forallb (fun i => forallb (fun e => match e with (_, (m, _, x)) => (length m =? N) && (length (lpX m x) =? N) end) (t_tab i)) (c_insts c).

  (* instance identity of the row's data, then the row's ghost history *)
  Definition hists (bs : bst) : list (list nat) := map (fun r : row E => t_id (r_inst E r) :: r_hist E r) (b_rows E Sc bs).

  Fixpoint cmp_ghosts (t : Z) (tr : list bst) (g : list (list (list nat))) : Z :=
    match tr, g with
    | bs :: tr', gh :: g' => if eq_nll (hists bs) gh then cmp_ghosts (t + 1) tr' g' else (1000 * (t + 1) + 1)%Z
    | [], [] => 0%Z
    | _, _ => 20%Z
    end.

  Definition check_case (c : case) : Z :=
    if negb (table_wfb c) then 1%Z else
    let W := c_W c in
    match pre_hook E Sc sone W (c_insts c) (c_starts c) with
    | None => if c_raised c then 0%Z else 10%Z
    | Some bs0 =>
        let (tr, ok) := trace (c_fuel c) W bs0 in
        let last_bs := last tr bs0 in
        let ties := existsb (near_ties W) (if ok then removelast tr else tr) in
        let res := if ok then
                     match post_hook E Sc (t_reward X) W (c_sb c) last_bs with
                     | None => None
                     | Some (lps, acts, rows) =>
                         match zipM (fun a l => ll_row Sc sop sone fin l a) acts lps with
                         | None => None
                         | Some ll => Some (ll, acts, rewards_of E (t_reward X) rows acts)
                         end
                     end
                   else None in
        (* a model failure counts as "the model raises" only if every row of the failing state is in the table *)
        let genuine := forallb (fun r : row E => match tfind (t_tab (r_inst E r)) (r_st E r) with Some _ => true | None => false end)
                               (b_rows E Sc last_bs) in
        if c_raised c then
          if ok then match res with None => 0%Z | Some _ => 11%Z end
          else if genuine && (length tr =? length (c_ghosts c)) then cmp_ghosts 0 tr (c_ghosts c)
          else if ties then 8%Z else 11%Z
        else
        match res with
        | None => if ties then 8%Z else 10%Z
        | Some (ll, acts, rw) =>
            let B := length (c_insts c) in
            if ties then 9%Z      (* equal candidates may be kept in another order / another one of them kept: the runs may
                                     legitimately diverge from there on; the step-local top-W property is evaluated on the
                                     implementation's own steps by the python side *)
            else
              let g := cmp_ghosts 0 tr (c_ghosts c) in
              if negb (g =? 0)%Z then g
              else if negb (eq_nll acts (c_actions c)) then 30%Z
              else if negb (forallb2 close ll (c_ll c)) then 31%Z
              else if negb (forallb2 (fun a b => (Z.abs (a - b) <=? c_rtol c)%Z) rw (c_reward c)) then 32%Z
              else 0%Z
        end
    end.
End Check.

(* ------------------------------------------------------------------------------------------------ *)
(** * Instance Q: stub decoder, integer logits, exact probabilities *)
Definition finQ (x : Qc) : bool := negb (Qcleb x 0%Qc).
Definition lpQ (topk : nat) (m : list bool) (lg : list Z) : list Qc :=
  plQ (fun z => z) (fun z => z) m 0%Qc topk lg.
Definition nearQ (tol : Q) (x y : Qc) : bool :=
  Qle_bool (Qabs (this x - this y)) (tol * (Qabs (this x) + Qabs (this y))).
Definition closeQc (tol : Q) (x : Qc) (q : Q) : bool :=
  Qle_bool (Qabs (this x - q)) (tol * (Qabs (this x) + Qabs q)).

Definition caseQ := case (list Z).
Definition check_Q (topk : nat) (c : caseQ) : Z :=
  check_case (list Z) Qc Qcmult 1%Qc 0%Qc Qcleb finQ (lpQ topk) (nearQ (1 # 250000)) (closeQc (1 # 10000)) c.

(* ------------------------------------------------------------------------------------------------ *)
(** * Instance Z: recorded log-probabilities (float32 value * 2^80, exact), None = -inf *)
Definition oadd (a b : option Z) : option Z :=
  match a, b with Some x, Some y => Some (x + y)%Z | _, _ => None end.
Definition oleb (a b : option Z) : bool :=
  match a, b with None, _ => true | Some _, None => false | Some x, Some y => (x <=? y)%Z end.
Definition ofin (a : option Z) : bool := match a with Some _ => true | None => false end.
Definition two80 : Z := (2 ^ 80)%Z.
Definition oZtoQ (a : option Z) : Q := match a with Some x => x # (Z.to_pos two80) | None => (-1000000 # 1) end.
(* |x - y| <= 5e-5 *)
Definition nearZ (a b : option Z) : bool :=
  match a, b with Some x, Some y => (Z.abs (x - y) * 20000 <=? two80)%Z | _, _ => false end.
Definition closeZ (a : option Z) (q : Q) : bool :=
  match a with Some x => Qle_bool (Qabs ((x # (Z.to_pos two80)) - q)) (1 # 5000) | None => false end.

Definition caseZ := case (list (option Z)).
Definition check_Z (c : caseZ) : Z :=
  check_case (list (option Z)) (option Z) oadd (Some 0%Z) None oleb ofin (fun _ x => x) nearZ closeZ c.

Inductive anycase := CQ (topk : nat) (c : caseQ) | CZ (c : caseZ).
Definition check_any (a : anycase) : Z := match a with CQ k c => check_Q k c | CZ c => check_Z c end.

(* ------------------------------------------------------------------------------------------------ *)
(** * Self-test on a hand-made table: 1 instance, 3 nodes, width 2 (see Properties/C13.v for the worked example) *)
Definition ex_tab : list (tentry (list Z)) :=
  [ ([0], ([false; true; true], false, [0; 1; 0]%Z));
    ([1], ([true; false; true], false, [2; 0; 0]%Z));
    ([0; 1], ([false; false; true], false, [0; 0; 0]%Z));
    ([0; 2], ([false; true; false], false, [0; 0; 0]%Z));
    ([1; 0], ([false; false; true], false, [0; 0; 0]%Z));
    ([1; 2], ([true; false; false], false, [0; 0; 0]%Z));
    ([0; 1; 2], ([true; false; false], true, [0; 0; 0]%Z));
    ([0; 2; 1], ([true; false; false], true, [0; 0; 0]%Z));
    ([1; 0; 2], ([true; false; false], true, [0; 0; 0]%Z));
    ([1; 2; 0], ([true; false; false], true, [0; 0; 0]%Z)) ].
Definition ex_inst : tinst (list Z) :=
  mkT 0 ex_tab [([0; 1; 2], (-3)%Z); ([1; 0; 2], (-5)%Z); ([0; 2; 1], (-4)%Z); ([1; 2; 0], (-6)%Z)].

(* beams after the forced moves: [0] (p=1), [1] (p=1).  Expansions: [0]->1 : 2/3, [0]->2 : 1/3, [1]->0 : 4/5, [1]->2 : 1/5.
   kept: [1;0] (4/5), [0;1] (2/3); last step forced. *)
Example check_Q_selftest :
  check_Q 0 (mkC (list Z) 2 false 50 [ex_inst] [0; 1] false
                 [ [[0; 0]; [0; 1]]; [[0; 1; 0]; [0; 0; 1]]; [[0; 1; 0; 2]; [0; 0; 1; 2]] ]
                 [[1; 0; 2]; [0; 1; 2]] [4 # 5; 2 # 3] [(-5)%Z; (-3)%Z] 0%Z) = 0%Z
  /\ check_Q 0 (mkC (list Z) 2 true 50 [ex_inst] [0; 1] false
                 [ [[0; 0]; [0; 1]]; [[0; 1; 0]; [0; 0; 1]]; [[0; 1; 0; 2]; [0; 0; 1; 2]] ]
                 [[0; 1; 2]] [2 # 3] [(-3)%Z] 0%Z) = 0%Z
  /\ check_Q 0 (mkC (list Z) 2 false 50 [ex_inst] [0; 1] false
                 [ [[0; 0]; [0; 1]]; [[0; 0; 1]; [0; 1; 0]]; [[0; 0; 1; 2]; [0; 1; 0; 2]] ]
                 [[0; 1; 2]; [1; 0; 2]] [2 # 3; 4 # 5] [(-3)%Z; (-5)%Z] 0%Z) = 2001%Z.
Proof. vm_compute. repeat split. Qed.
