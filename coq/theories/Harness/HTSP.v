(* Correspondence harness for TSP (C01-C06): the model against recorded traces of TSPEnv, and the exact
   specification evaluated on the implementation's own episodes. *)
From Coq Require Import ZArith List Bool Lia Arith.
From RL4CO Require Import Base.Num Base.EnvSig Spec.Tours Env.TourCore Env.TSP Env.TSPProofs Harness.HEnv Harness.HTour Harness.HBook.
Import ListNotations.
Open Scope Z_scope.

(* observed final first_node, current_node, i of the row (None when not recorded) *)
Definition tsp_obs := option (nat * nat * nat).
(* (instance, obs), trace, final mask, (impl reward, tolerance), episode complete?, checker accepted? *)
Definition tsp_case := ((tsp_inst * tsp_obs) * list tstep * list bool * (Z * Z) * bool * bool)%type.
Definition mk_tsp (m : list (list Z)) (o : tsp_obs) : tsp_inst * tsp_obs := ({| tdist := m |}, o).

Definition c_inst (c : tsp_case) := match c with ((i, _), _, _, _, _, _) => i end.
Definition c_obs (c : tsp_case) := match c with ((_, o), _, _, _, _, _) => o end.
Definition c_trace (c : tsp_case) := match c with (_, t, _, _, _, _) => t end.
Definition c_final (c : tsp_case) := match c with (_, _, f, _, _, _) => f end.
Definition c_rew (c : tsp_case) := match c with (_, _, _, r, _, _) => r end.
Definition c_complete (c : tsp_case) := match c with (_, _, _, _, b, _) => b end.
Definition c_checker (c : tsp_case) := match c with (_, _, _, _, _, b) => b end.

(* code 20: the instance is outside the documented format (not a case of any theorem) *)
Definition check_wf (c : tsp_case) : Z := if tsp_wfb (c_inst c) then 0 else 20.

(* C01: implementation masks inside model masks, done equal; the specification holds on the completed episode (6) *)
Definition check_C01 (c : tsp_case) : Z :=
  let tr := cut_done (c_trace c) in
  (* the specification on the implementation's own completed episode first (6), then the mask/done comparison *)
  if c_complete c && negb (tsp_feasibleb (c_inst c) (trace_actions tr)) then 6
  else let r := check_trace (E:=TSP) (c_inst c) 0 tr in
       if negb (r =? 0) then r else check_wf c.

(* C02: on the implementation's observables (non-empty masks until done, at most n steps), then mask/done equality *)
Definition check_C02 (c : tsp_case) : Z :=
  let tr := cut_done (c_trace c) in
  let r := c02_fixed (tsp_n (c_inst c)) tr (c_final c) (c_complete c) in
  if negb (r =? 0) then r
  else if negb (c_complete c) then 12
  else let r2 := check_trace (E:=TSP) (c_inst c) 2 tr in
       if negb (r2 =? 0) then r2 else check_wf c.

(* C03: reported reward against the closed tour length recomputed from the instance data and the actions that
   get_reward was given (4), and against the model of _get_reward (5) *)
Definition check_C03 (c : tsp_case) : Z :=
  let acts := trace_actions (c_trace c) in
  if negb (c_complete c) || negb (tsp_rewardok (c_inst c) acts) then 0
  else if negb (zabs_le (fst (c_rew c)) (tsp_objective (c_inst c) acts) (snd (c_rew c))) then 4
  else if negb (zabs_le (fst (c_rew c)) (tsp_reward (c_inst c) acts) (snd (c_rew c))) then 5
  else check_wf c.

(* C04: as C02 (the case was recorded at some position of some batch), plus the bookkeeping that the batch-global
   first-step test feeds: final first_node / current_node / i equal those of the row model (21) *)
Definition check_C04 (c : tsp_case) : Z :=
  let r := check_C02 c in
  if negb (r =? 0) then r
  else match c_obs c with
       | None => 0
       | Some (f, cu, k) =>
           let s := run (E:=TSP) (c_inst c) (trace_actions (c_trace c)) in
           if Nat.eqb f (tfirst s) && Nat.eqb cu (tcur s) && Nat.eqb k (tcnt s) then 0 else 21
       end.

(* C05: model masks inside implementation masks *)
Definition check_C05 (c : tsp_case) : Z := check_trace (E:=TSP) (c_inst c) 1 (cut_done (c_trace c)).

(* C06: model of the checker agrees with the implementation's verdict (13); the verdict agrees with the
   specification: feasible => accepted (14), infeasible => rejected (15) *)
Definition verdict_codes (i : tsp_inst) (acts : list nat) (verdict : bool) : Z :=
  if tsp_feasibleb i acts && negb verdict then 14
  else if negb (tsp_feasibleb i acts) && verdict then 15
  else if negb (Bool.eqb (tsp_checker i acts) verdict) then 13
  else 0.
Definition check_C06 (c : tsp_case) : Z :=
  if negb (c_complete c) then 0 else verdict_codes (c_inst c) (trace_actions (c_trace c)) (c_checker c).
Definition check_C06_sol (c : (tsp_inst * tsp_obs) * list nat * bool) : Z :=
  match c with ((i, _), acts, verdict) => verdict_codes i acts verdict end.

(* ---------------------------------------------------------------- bookkeeping after EVERY step (C02 / C04, see Harness/HBook.v;
   check_C04's code 21 compares the final values only).  Keys, in this order: i (= number of steps taken), current_node
   (= the action just taken), first_node (= the first action of the episode) *)
Definition book_obs (s : tsp_st) : list Z := [Z.of_nat (tcnt s); Z.of_nat (tcur s); Z.of_nat (tfirst s)].
Definition book_kinds : list nat := [1; 2; 3]%nat.
Definition tsp_book := ((tsp_inst * tsp_obs) * list Z * list Z * list (nat * list Z))%type.
Definition check_book (c : tsp_book) : Z :=
  match c with (i, tols, o0, tr) => book_check TSP (fst i) book_obs book_kinds tols o0 tr end.
