(* Correspondence harness for C09 (and the C06 unit "improve"): the models of Env/Improve*.v are run on the
   recorded initial tour + move sequence and compared, inside Coq, with what the real environment reported
   after every step.  Result codes: 0 = agree, otherwise 1000 * step + tag (step 0 = reset). *)
From Coq Require Import ZArith List Bool Arith.
From RL4CO Require Import Env.Improve Env.ImproveTwoOpt Env.ImprovePDP Env.ImproveKopt Env.ImproveChecker.
Import ListNotations.

Inductive opk := Op2 | OpK (k : nat) | OpPDP.

Definition apply_op (o : opk) (rec a : list nat) : list nat :=
  match o with
  | Op2 => two_opt rec (nth 0 a 0) (nth 1 a 0)
  | OpK k => k_opt k rec a
  | OpPDP => pdp_op rec (nth 0 a 0) (nth 1 a 0) (nth 2 a 0)
  end.

(* is the action the implementation took inside the model mask / producible by the model move builder? *)
Definition move_ok (o : opk) (rec a : list nat) : bool :=
  match o with
  | Op2 => Nat.eqb (length a) 2 && two_opt_mask (length rec) (nth 0 a 0) (nth 1 a 0)
  | OpK k => match kopt_builder k rec (firstn k a) with Some a' => list_eqb a' a | None => false end
  | OpPDP => Nat.eqb (length a) 3 && pdp_admissible rec (nth 0 a 0) (nth 1 a 0) (nth 2 a 0)
  end.

Definition validb (o : opk) (rec : list nat) : bool :=
  match o with OpPDP => pdp_validb rec | _ => is_tourb rec end.

(* what the implementation showed after one step *)
Record obs := {
  o_action : list nat;
  o_check_adm : bool;          (* false for moves the harness forced itself (step_to-like probes) *)
  o_rec_current : list nat;
  o_rec_best : list nat;
  o_vt : list nat;
  o_cost_current : Z;          (* scaled exact value of the float the env stored *)
  o_cost_bsf : Z;
  o_reward : Z;
  o_cost_of_best : Z           (* get_costs(locs, rec_best) recomputed by the harness with the real function *)
}.

Definition Zabs_le (a b tol : Z) : bool := (Z.abs (a - b) <=? tol)%Z.

Fixpoint run_steps (o : opk) (tol : Z) (k : Z) (s : bstate (list nat)) (minseen : Z) (sumrw : Z) (c0 : Z)
         (steps : list obs) : Z :=
  match steps with
  | [] => if Zabs_le sumrw (c0 - cost_bsf s) (tol * k)%Z then 0%Z else (1000 * k + 10)%Z
  | ob :: rest =>
      let rec := rec_current s in
      if o_check_adm ob && negb (move_ok o rec (o_action ob)) then (1000 * k + 1)%Z else
      let next := apply_op o rec (o_action ob) in
      let '(s', rw) := bsf_update (list nat) s next (o_cost_current ob) in
      let minseen' := Z.min minseen (o_cost_current ob) in
      if negb (list_eqb next (o_rec_current ob)) then (1000 * k + 2)%Z
      else if negb (list_eqb (rec_best s') (o_rec_best ob)) then (1000 * k + 3)%Z
      else if negb (list_eqb (visited_time next) (o_vt ob)) then (1000 * k + 4)%Z
      else if negb (Z.eqb (cost_bsf s') (o_cost_bsf ob)) then (1000 * k + 5)%Z
      else if negb (Zabs_le rw (o_reward ob) tol) then (1000 * k + 6)%Z
      else if negb (Z.eqb (o_cost_of_best ob) (o_cost_bsf ob)) then (1000 * k + 7)%Z
      else if negb (validb o (o_rec_current ob) && validb o (o_rec_best ob)) then (1000 * k + 8)%Z
      else if negb (Z.eqb minseen' (o_cost_bsf ob)) then (1000 * k + 9)%Z
      else run_steps o tol (k + 1)%Z s' minseen' (sumrw + o_reward ob)%Z c0 rest
  end.

(* (operator, tolerance for float subtractions, initial tour, observation at reset, observations per step) *)
Definition imp_case := (opk * Z * list nat * obs * list obs)%type.

Definition check_improve (c : imp_case) : Z :=
  match c with (o, tol, init, ob0, steps) =>
    if negb (list_eqb init (o_rec_current ob0)) then 2%Z
    else if negb (list_eqb init (o_rec_best ob0)) then 3%Z
    else if negb (list_eqb (visited_time init) (o_vt ob0)) then 4%Z
    else if negb (Z.eqb (o_cost_current ob0) (o_cost_bsf ob0)) then 5%Z
    else if negb (Z.eqb (o_cost_of_best ob0) (o_cost_bsf ob0)) then 7%Z
    else if negb (validb o init) then 8%Z
    else
      let s0 := {| rec_current := init; rec_best := init;
                   cost_current := o_cost_current ob0; cost_bsf := o_cost_bsf ob0 |} in
      run_steps o tol 1%Z s0 (o_cost_current ob0) 0%Z (o_cost_current ob0) steps
  end.

(* ---- move masks as full matrices (True = allowed) *)
Fixpoint bools_eqb (a b : list bool) : bool :=
  match a, b with [], [] => true | x :: a', y :: b' => Bool.eqb x y && bools_eqb a' b' | _, _ => false end.
Fixpoint rows_eqb (a b : list (list bool)) : bool :=
  match a, b with [], [] => true | x :: a', y :: b' => bools_eqb x y && rows_eqb a' b' | _, _ => false end.

(* PDPRuinRepairEnv.get_mask(selected_node = p, td) on the state whose current tour is rec *)
Definition check_pdp_mask (c : list nat * nat * list (list bool)) : Z :=
  match c with (rec, p, m) =>
    let n := length rec in
    let vt := visited_time rec in
    if rows_eqb (map (fun f => map (fun s => pdp_mask vt p f s) (seq 0 n)) (seq 0 n)) m then 0%Z else 1%Z
  end.

(* TSPkoptEnv.get_mask (2-opt) *)
Definition check_two_opt_mask (c : nat * list (list bool)) : Z :=
  match c with (n, m) =>
    if rows_eqb (map (fun f => map (fun s => two_opt_mask n f s) (seq 0 n)) (seq 0 n)) m then 0%Z else 1%Z
  end.

(* ---- get_costs on exact data: D as a matrix of scaled integers *)
Definition Dfun (D : list (list Z)) (i j : nat) : Z := nth j (nth i D []) 0%Z.
Definition check_costs (c : list (list Z) * list (list nat * Z)) : Z :=
  match c with (D, l) =>
    fold_left (fun acc rc => if Z.eqb acc 0 then (if Z.eqb (get_costs (Dfun D) (fst rc)) (snd rc) then 0%Z else 1%Z) else acc)
              l 0%Z
  end.

(* ---- check_solution_validity verdicts (C06 unit "improve"): kind 0 = TSPkopt, 1 = PDPRuinRepair;
   also returns whether the independent specification holds, packed as 10 * spec + agree-code *)
Definition check_checker (c : nat * list nat * bool) : Z :=
  match c with (kind, rec, accepted) =>
    let m := match kind with O => tspk_checker rec | _ => pdp_checker rec end in
    if Bool.eqb m accepted then 0%Z else 1%Z
  end.
Definition spec_verdict (c : nat * list nat) : Z :=
  match c with (kind, rec) =>
    if (match kind with O => is_tourb rec | _ => pdp_validb rec end) then 1%Z else 0%Z
  end.

(* ==================================================================== full cases (vt/props/c09.py)
   The instance's distances travel as data (matrix of scaled integers, D[i][j] = |locs[j] - locs[i]| as torch
   computed it), so the model computes every cost itself.  A step is either a move through _local_operator
   ([None]) or ImprovementEnvBase.step_to_solution ([Some target]).
   Two functions, so that "model differs from code" and "the property's specification is false on the code's
   own outputs" are reported separately; [check_both] packs them as  full + 10^9 * spec.
   Tags (code = 1000 * step + tag, step 0 = reset):
     1 move not admitted by the model mask / builder     2 rec_current     3 rec_best     4 visited_time
     5 cost_bsf     6 reward     7 cost of rec_best recomputed with the real get_costs <> cost_bsf
     8 tour validity (is_tourb / pdp_validb)     9 cost_bsf <> min of the costs seen
     10 rewards do not sum to initial - best     11 cost_current <> length of the current tour (from D)
     12 cost_bsf <> length of the stored best tour (from D)     13 wrong shape of the case (lengths)      *)
Definition fstep := (option (list nat) * obs)%type.

Definition next_of (o : opk) (rec : list nat) (st : fstep) : list nat :=
  match fst st with Some t => t | None => apply_op o rec (o_action (snd st)) end.

Fixpoint run_full (o : opk) (D : list (list Z)) (ctol rtol : Z) (k : Z) (s : bstate (list nat))
         (steps : list fstep) : Z :=
  match steps with
  | [] => 0%Z
  | st :: rest =>
      let ob := snd st in
      let rec := rec_current s in
      if (match fst st with None => o_check_adm ob && negb (move_ok o rec (o_action ob)) | Some _ => false end)
      then (1000 * k + 1)%Z else
      let next := next_of o rec st in
      if negb (list_eqb next (o_rec_current ob)) then (1000 * k + 2)%Z
      else if negb (Zabs_le (get_costs (Dfun D) next) (o_cost_current ob) ctol) then (1000 * k + 11)%Z
      else
        (* the comparison new_obj < cost_bsf is made on the value the code stored (equal to the model's cost
           up to ctol; ctol = 0 on the exact stream) so that float32 rounding of a sum cannot flip it *)
        let '(s', rw) := bsf_update (list nat) s next (o_cost_current ob) in
        if negb (list_eqb (rec_best s') (o_rec_best ob)) then (1000 * k + 3)%Z
        else if negb (list_eqb (visited_time next) (o_vt ob)) then (1000 * k + 4)%Z
        else if negb (Z.eqb (cost_bsf s') (o_cost_bsf ob)) then (1000 * k + 5)%Z
        else if negb (Zabs_le rw (o_reward ob) rtol) then (1000 * k + 6)%Z
        else run_full o D ctol rtol (k + 1)%Z s' rest
  end.

(* (operator, D, (cost tolerance, reward tolerance), initial tour, observation at reset, steps) *)
Definition full_case := (opk * list (list Z) * (Z * Z) * list nat * obs * list fstep)%type.

Definition check_full (c : full_case) : Z :=
  match c with (o, D, (ctol, rtol), init, ob0, steps) =>
    if negb (list_eqb init (o_rec_current ob0)) then 2%Z
    else if negb (list_eqb init (o_rec_best ob0)) then 3%Z
    else if negb (list_eqb (visited_time init) (o_vt ob0)) then 4%Z
    else if negb (Zabs_le (get_costs (Dfun D) init) (o_cost_current ob0) ctol) then 11%Z
    else if negb (Z.eqb (o_cost_current ob0) (o_cost_bsf ob0)) then 5%Z
    else
      let s0 := {| rec_current := init; rec_best := init;
                   cost_current := o_cost_current ob0; cost_bsf := o_cost_bsf ob0 |} in
      run_full o D ctol rtol 1%Z s0 steps
  end.

(* ---- the specification evaluated on the implementation's own outputs only (no operator model involved) *)
Definition vt_is_position (rec vt : list nat) : bool :=
  let n := length rec in
  let order := walk rec 0 n in
  Nat.eqb (length vt) n &&
  forallb (fun v => Nat.eqb (nth v vt 0) (if Nat.eqb v 0 then n else index_of v order)) (seq 0 n).

Definition spec_len (D : list (list Z)) (rec : list nat) : Z := tour_length (Dfun D) (walk rec 0 (length rec)).

Fixpoint run_spec (o : opk) (D : list (list Z)) (ctol rtol : Z) (k : Z) (n : nat) (bsf minseen sumrw c0 : Z)
         (steps : list fstep) : Z :=
  match steps with
  | [] => if Zabs_le sumrw (c0 - bsf) (rtol * k)%Z then 0%Z else (1000 * k + 10)%Z
  | st :: rest =>
      let ob := snd st in
      let minseen' := Z.min minseen (o_cost_current ob) in
      if negb (Nat.eqb (length (o_rec_current ob)) n && Nat.eqb (length (o_rec_best ob)) n) then (1000 * k + 13)%Z
      else if negb (validb o (o_rec_current ob) && validb o (o_rec_best ob)) then (1000 * k + 8)%Z
      else if negb (vt_is_position (o_rec_current ob) (o_vt ob)) then (1000 * k + 4)%Z
      else if negb (Zabs_le (spec_len D (o_rec_current ob)) (o_cost_current ob) ctol) then (1000 * k + 11)%Z
      else if negb (Zabs_le (spec_len D (o_rec_best ob)) (o_cost_bsf ob) ctol) then (1000 * k + 12)%Z
      else if negb (Z.eqb (o_cost_of_best ob) (o_cost_bsf ob)) then (1000 * k + 7)%Z
      else if negb (Z.eqb minseen' (o_cost_bsf ob)) then (1000 * k + 9)%Z
      else if negb (Zabs_le (bsf - o_cost_bsf ob) (o_reward ob) rtol) then (1000 * k + 6)%Z
      else run_spec o D ctol rtol (k + 1)%Z n (o_cost_bsf ob) minseen' (sumrw + o_reward ob)%Z c0 rest
  end.

Definition check_spec (c : full_case) : Z :=
  match c with (o, D, (ctol, rtol), init, ob0, steps) =>
    let n := length init in
    if negb (Nat.eqb (length (o_rec_current ob0)) n && Nat.eqb (length (o_rec_best ob0)) n) then 13%Z
    else if negb (validb o (o_rec_current ob0) && validb o (o_rec_best ob0)) then 8%Z
    else if negb (vt_is_position (o_rec_current ob0) (o_vt ob0)) then 4%Z
    else if negb (Zabs_le (spec_len D (o_rec_current ob0)) (o_cost_current ob0) ctol) then 11%Z
    else if negb (Zabs_le (spec_len D (o_rec_best ob0)) (o_cost_bsf ob0) ctol) then 12%Z
    else if negb (Z.eqb (o_cost_of_best ob0) (o_cost_bsf ob0)) then 7%Z
    else run_spec o D ctol rtol 1%Z n (o_cost_bsf ob0) (o_cost_current ob0) 0%Z (o_cost_current ob0) steps
  end.

Definition check_both (c : full_case) : Z := (check_full c + 1000000000 * check_spec c)%Z.

(* ---- k-opt: the whole support of the sequential move builder on one tour (all draws cs in [0,n)^k the model
   admits), as action lists, flattened with the length k*3 known -- used to measure how much of the builder's
   support the implementation's sampler was seen to produce, and to check [is_tourb] on all of it *)
Fixpoint all_draws (n k : nat) : list (list nat) :=
  match k with O => [[]] | S k' => flat_map (fun c => map (cons c) (all_draws n k')) (seq 0 n) end.

Definition builder_support (k : nat) (rec : list nat) : list (list nat) :=
  flat_map (fun cs => match kopt_builder k rec cs with Some a => [a] | None => [] end) (all_draws (length rec) k).

(* (k, tour, actions the implementation's sampler produced): returns  code * 10^6 + size of the model support,
   code 0 when each produced action is in the model support and every action of the model support yields a tour;
   1 = implementation action outside the support; 2 = some supported action yields a non-tour *)
Definition check_support (c : nat * list nat * list (list nat)) : Z :=
  match c with (k, rec, acts) =>
    let sup := builder_support k rec in
    let code :=
      if negb (forallb (fun a => existsb (list_eqb a) sup) acts) then 1%Z
      else if negb (forallb (fun a => is_tourb (k_opt k rec a)) sup) then 2%Z
      else 0%Z in
    (code * 1000000 + Z.of_nat (length (nodup (list_eq_dec Nat.eq_dec) sup)))%Z
  end.
