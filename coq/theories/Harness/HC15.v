(* Correspondence harness for C15: the models of Train/Augment.v (at the executable field Qc) and of
   Train/EvalRegroup.v (rewards in Z) are run on the inputs the real rl4co code was driven with and compared
   with what it returned.  Result code 0 = agree. *)
From Coq Require Import List ZArith QArith Qcanon Bool Arith.
From RL4CO Require Import Base.OField Base.OFieldQc Train.EvalRegroup Train.Augment Train.EvalAggregate
  Train.SharedStepGrid.
Import ListNotations.
Close Scope Qc_scope.
Close Scope Q_scope.

Definition c15_toQc (q : Q) : Qc := Q2Qc q.
Definition c15_abs (x : Qc) : Qc := if Qcleb 0%Qc x then x else Qcopp x.
Definition c15_close (tol a b : Qc) : bool := Qcleb (c15_abs (a - b)%Qc) tol.
Definition c15_pt (p : Q * Q) : point QcF := (c15_toQc (fst p), c15_toQc (snd p)).

(* ---- StateAugmentation.__call__ on one feature -------------------------------------------------------
   case = (tol, (dihedral?, num_augment, first_aug_identity, normalize), td rows,
           per augmented row (cos, sin, flip) as the code obtained them (empty for dihedral),
           (raised?, rows returned by the implementation)) *)
Definition sa_case : Type :=
  (Q * (bool * nat * bool * bool) * list (list (Q * Q)) * list (Q * Q * bool) * (bool * list (list (Q * Q))))%type.

Fixpoint c15_cmp_row (tol : Qc) (m : list (point QcF)) (i : list (Q * Q)) : bool :=
  match m, i with
  | [], [] => true
  | p :: m', q :: i' =>
      c15_close tol (fst p) (c15_toQc (fst q)) && c15_close tol (snd p) (c15_toQc (snd q)) && c15_cmp_row tol m' i'
  | _, _ => false
  end.

Fixpoint c15_cmp_rows (tol : Qc) (r : Z) (m : list (list (point QcF))) (i : list (list (Q * Q))) : Z :=
  match m, i with
  | [], [] => 0%Z
  | a :: m', b :: i' => if c15_cmp_row tol a b then c15_cmp_rows tol (r + 1)%Z m' i' else (1000 * (r + 1) + 4)%Z
  | _, _ => 2%Z
  end.

Definition check_state_aug (c : sa_case) : Z :=
  match c with
  | (tol, (dihedral, A, fai, nrmz), td, par, (raised, out)) =>
      let fam := if dihedral then FamDihedral8 (K:=QcF)
                 else FamSymmetric (K:=QcF) (qc 1 2)
                        (map (fun q : Q * Q * bool => (c15_toQc (fst (fst q)), c15_toQc (snd (fst q)), snd q)) par) in
      match state_aug fam A fai nrmz (qc 0 1, qc 0 1) (map (map c15_pt) td) with
      | None => if raised then 0%Z else 1%Z
      | Some m => if raised then 1%Z else c15_cmp_rows (c15_toQc tol) 0%Z m out
      end
  end.

(* ---- the _inner regrouping on tagged rewards ---------------------------------------------------------
   instance b of the ORIGINAL batch is tagged b, policy row r returns the action row tagged r, and the stub
   env scores (instance tag i, action tag r) as W[i][r].
   case = (kind, (p1, p2), B, W, impl result = per instance (tag of the returned action row, reward))
   kind 0: AugmentationEval / GreedyMultiStartEval with k = p1;  kind 1: GreedyMultiStartAugmentEval with
   num_augment = p1, num_starts = p2;  kind 2: DecodingStrategy._select_best + policy reward, k = p1 *)
Definition rg_case : Type := (nat * (nat * nat) * nat * list (list Z) * list (nat * Z))%type.

Definition c15_rew (W : list (list Z)) (i a : nat) : Z := nth a (nth i W []) (-999999)%Z.

Fixpoint c15_cmp_sel (k : Z) (m : list (nat * Z)) (i : list (nat * Z)) : Z :=
  match m, i with
  | [], [] => 0%Z
  | (a, r) :: m', (a', r') :: i' =>
      if negb (Nat.eqb a a') then (1000 * (k + 1) + 1)%Z
      else if negb (Z.eqb r r') then (1000 * (k + 1) + 2)%Z else c15_cmp_sel (k + 1)%Z m' i'
  | _, _ => 3%Z
  end.

Definition check_regroup (c : rg_case) : Z :=
  match c with
  | (kind, (p1, p2), B, W, impl) =>
      let insts := seq 0 B in
      let rew := c15_rew W in
      let m := match kind with
               | 0 => ev_select Z Z.leb nat nat rew 0 0%Z p1 insts (seq 0 (p1 * B))
               | 1 => ev_inner_msa Z Z.leb nat nat rew 0 0%Z p1 p2 insts (seq 0 (p2 * p1 * B))
               | _ => ev_inner_sampling Z Z.leb nat nat rew 0 0 0%Z p1 insts (seq 0 (p1 * B))
               end in
      c15_cmp_sel 0%Z m impl
  end.

(* ---- EvalBase.__call__: padding + concatenation of the per-batch action tensors ---------------------- *)
Definition pc_case : Type := (list (list (list nat)) * list (list nat))%type.
Definition check_pad_concat (c : pc_case) : Z :=
  if list_eq_dec (list_eq_dec Nat.eq_dec) (ev_pad_concat (fst c)) (snd c) then 0%Z else 1%Z.

(* ---- EvalBase.__call__: the reported aggregates ------------------------------------------------------
   case = (tol, the reward tensors the _inner calls returned per loader batch,
           out["rewards"], out["avg_reward"]);  1 = rewards are not the concatenation, 2 = avg_reward differs *)
Definition av_case : Type := (Q * list (list Q) * list Q * Q)%type.
Fixpoint c15_qc_list_eqb (a b : list Qc) : bool :=
  match a, b with
  | [], [] => true
  | x :: a', y :: b' => Qc_eq_bool x y && c15_qc_list_eqb a' b'
  | _, _ => false
  end.
Definition check_avg_reward (c : av_case) : Z :=
  match c with
  | (tol, batches, rew, avg) =>
      let bq := map (map c15_toQc) batches in
      if negb (c15_qc_list_eqb (ev_rewards (K:=QcF) bq) (map c15_toQc rew)) then 1%Z
      else if c15_close (c15_toQc tol) (ev_avg_reward (K:=QcF) bq) (c15_toQc avg) then 0%Z else 2%Z
  end.

(* ---- POMO / SymNCO shared_step over the configuration grid --------------------------------------------
   case = (model 0 = POMO / 1 = SymNCO, num_augment, num_starts, env.get_num_starts, phase 0 train / 1 val / 2 test,
           does the stub policy return "actions", rewards of the policy rows (integers),
           observed: (0 = returned / 1 = constructor raised / 2 = shared_step raised, max_reward, max_aug_reward flattened))
   1 = raise-vs-return (or the stage) differs, 2 = max_reward differs, 3 = max_aug_reward differs *)
Definition gr_case : Type :=
  (nat * nat * option nat * nat * nat * bool * list Z * (nat * option (list Z) * option (list Z)))%type.
Definition c15_phase (p : nat) : ss_phase := match p with 0 => PhTrain | 1 => PhVal | _ => PhTest end.
Definition c15_optlist_eqb (a b : option (list Z)) : bool :=
  match a, b with
  | None, None => true
  | Some x, Some y => if list_eq_dec Z.eq_dec x y then true else false
  | _, _ => false
  end.
Definition check_grid (c : gr_case) : Z :=
  match c with
  | (kind, A, ns, es, ph, ha, reward, (stage, omr, omar)) =>
      let m := match kind with
               | 0 => pomo_shared_step Z.leb 0%Z A ns es (c15_phase ph) ha reward
               | _ => symnco_shared_step Z.leb 0%Z A ns (c15_phase ph) reward
               end in
      match m with
      | SSRaises st => if Nat.eqb st stage then 0%Z else 1%Z
      | SSReturns mr mar =>
          if negb (Nat.eqb stage 0) then 1%Z
          else if negb (c15_optlist_eqb mr omr) then 2%Z
          else if negb (c15_optlist_eqb mar omar) then 3%Z else 0%Z
      end
  end.
