(* Correspondence harness for PCTSP / SPCTSP (C01-C06): the model at float32 rounding ([f32]) against recorded
   traces, and the exact specification evaluated on the implementation's own episodes. *)
From Coq Require Import ZArith List Bool Lia Arith.
From RL4CO Require Import Base.Num Base.EnvSig Spec.Routes Env.PCTSP Env.PCTSPProofs Harness.HEnv Harness.HBook.
Import ListNotations.
Open Scope Z_scope.

(* instance, trace, final mask, (impl reward, tolerance), episode complete?, checker accepted? *)
Definition pctsp_case := (pctsp_inst * list tstep * list bool * (Z * Z) * bool * bool)%type.
Definition mk_pctsp (dp sp : list Z) (st : bool) (pe : list Z) (m : list (list Z)) (rq th : Z) : pctsp_inst :=
  {| dprize := dp; sprize := sp; stoch := st; pen := pe; pdist := m; preq := rq; pthr := th |}.

Definition c_inst (c : pctsp_case) := match c with (i, _, _, _, _, _) => i end.
Definition c_trace (c : pctsp_case) := match c with (_, t, _, _, _, _) => t end.
Definition c_final (c : pctsp_case) := match c with (_, _, f, _, _, _) => f end.
Definition c_rew (c : pctsp_case) := match c with (_, _, _, r, _, _) => r end.
Definition c_complete (c : pctsp_case) := match c with (_, _, _, _, b, _) => b end.
Definition c_checker (c : pctsp_case) := match c with (_, _, _, _, _, b) => b end.

(* the checker's own tolerance (1 - float32(1 - 1e-5)): used as slack where the implementation adds in float32 *)
Definition ptol (i : pctsp_inst) : Z := preq i - pthr i.

(* actions up to and including the step at which the row first reported done (the episode proper) *)
Fixpoint episode_actions (tr : list tstep) : list nat :=
  match tr with
  | [] => []
  | (m, a, d) :: rest => if d then [a] else a :: episode_actions rest
  end.

(* C01: implementation masks inside model masks, done equal; the specification holds on the whole recorded action
   list (padding included) of every completed episode.  6 = the independent feasibility predicate is false *)
Definition check_C01 (c : pctsp_case) : Z :=
  if negb (pctsp_wfb (c_inst c)) then 19
  (* spec-on-impl first: it needs no model, so it still speaks when model and implementation have drifted apart *)
  else if c_complete c && negb (pctsp_feasibleb (c_inst c) (ptol (c_inst c)) (trace_actions (c_trace c))) then 6
  else check_trace (E:=PCTSP f32) (c_inst c) 0 (c_trace c).

(* C02: on the implementation's observables (bound n + 1), then mask/done equality with the model *)
Definition check_C02 (c : pctsp_case) : Z :=
  let r := c02_impl (pn_of (c_inst c) + 1) (c_trace c) (c_final c) in
  if negb (r =? 0) then r
  else if negb (c_complete c) then 12
  else check_trace (E:=PCTSP f32) (c_inst c) 2 (c_trace c).

(* C03: reported reward against the objective recomputed from instance data and actions by the problem definition
   (all actions, padding included: this is what get_reward is given); 5 = the model of _get_reward differs *)
Definition check_C03 (c : pctsp_case) : Z :=
  if negb (c_complete c) then 0
  else let acts := trace_actions (c_trace c) in
       if negb (zabs_le (fst (c_rew c)) (pctsp_objective (c_inst c) acts) (snd (c_rew c))) then 4
       else if negb (zabs_le (fst (c_rew c)) (pctsp_reward (c_inst c) acts) (snd (c_rew c))) then 5 else 0.

(* C05: model masks inside implementation masks *)
Definition check_C05 (c : pctsp_case) : Z := check_trace (E:=PCTSP f32) (c_inst c) 1 (c_trace c).

(* C06.  The implementation sums the gathered prizes with torch's float32 reduction, whose order is not specified:
   when the exact sum is closer to the threshold than [margin] (2^-19, a quarter of the checker's own 1e-5) and the
   verdict hinges on it, the case is cut (0) instead of being compared.
   13 model verdict differs; 14 feasible by the definition but rejected; 15 infeasible beyond tolerance but accepted *)
Definition c06_margin (i : pctsp_inst) : Z := Z.shiftr (preq i) 19.
Definition c06_cut (i : pctsp_inst) (acts : list nat) : bool :=
  Z.abs (sumZ (map (prize i) acts) - pthr i) <=? c06_margin i.
Definition c06_verdict (i : pctsp_inst) (acts : list nat) (verdict : bool) : Z :=
  if pctsp_validb i 0 acts && negb verdict then 14
  else if negb (pctsp_validb i (3 * ptol i) acts) && verdict then 15
  else if negb (Bool.eqb (pctsp_checker f32 i acts) verdict) then (if c06_cut i acts then 0 else 13)
  else 0.
Definition check_C06 (c : pctsp_case) : Z := c06_verdict (c_inst c) (trace_actions (c_trace c)) (c_checker c).

(* a solution given directly as an action list (hand-built or corrupted), with the implementation's verdict *)
Definition check_C06_sol (c : pctsp_inst * list nat * bool) : Z :=
  match c with (i, acts, verdict) => c06_verdict i acts verdict end.

(* ---------------------------------------------------------------- bookkeeping (C02 / C04, see Harness/HBook.v)
   keys of the env's step output compared after every step, in this order:
   i (= number of steps taken), current_node (= the action just taken), cur_total_prize, visited (bit j = node j) *)
Definition book_obs (s : pctsp_st) : list Z := [Z.of_nat (pstep s); Z.of_nat (pcur s); tprize s; bitsZ (pvis s)].
Definition book_kinds : list nat := [1; 2; 0; 0]%nat.
Definition pctsp_book := (pctsp_inst * list Z * list Z * list (nat * list Z))%type.
Definition check_book (c : pctsp_book) : Z :=
  match c with (i, tols, o0, tr) => book_check (PCTSP f32) i book_obs book_kinds tols o0 tr end.
