(* Correspondence harness of the units `sched` of C02 / C03 / C04, FJSPEnv and JSSPEnv.

   The cases are those of Harness/HC07_fjsp.v ([fjsp_case]: env kind, mask_no_ops, instance, impl mask after reset, per step
   (action, impl mask after it, impl done after it), optional final arrays + reward).  Result codes are  1000 * step + tag :
     concrete tags (the implementation's own observables contradict the property):
        4  reported reward differs from the objective recomputed from (instance, actions)
        8  an implementation mask row is empty          9  a finished row became unfinished
       10  more steps before the first done than the step bound (ops; ops + waits without mask_no_ops)
     disagreement tags (model and implementation differ: the theorems do not transfer):
        1  mask emptiness differs   2  action outside the model mask   3  done differs   5  model reward differs
        7  model step = None       12  episode not finished           20  instance outside wfb / solvableb / jssp_wfb
       21  the model's own schedule is rejected by valid_scheduleb (cannot happen: FJSP_valid)
     get_reward guard (check_reward_guard):
     concrete 15  env.get_reward answered although a row of the batch is not finished (SchedBatch.b_reward = None)
     disagree  5  the rewards returned differ from the model's    32  env.get_reward raised although every row is finished
     stepwise_reward = True (check_C03_stepwise = HC07_fjsp.check_stepwise): concrete 4, disagree 5 / 17 / 18 / 19 *)
From Coq Require Import ZArith List Bool Lia Arith.
From RL4CO Require Import Spec.Schedule Env.FJSP Env.FJSPProofs Env.SchedBatch Harness.HC07_fjsp.
Import ListNotations.
Open Scope Z_scope.

Definition wf_code (c : fjsp_case) : Z :=
  if wfb (c_inst c) && solvableb (c_inst c) && (negb (c_jssp c) || jssp_wfb (c_inst c)) then 0 else 20.

(* ---------------------------------------------------------------- C02 *)
Fixpoint c02_steps (jssp cfg : bool) i s (prev_done : bool) (active : nat) (steps : list (nat * list bool * bool)) (k : Z)
  : Z * nat :=
  match steps with
  | [] => (if prev_done then 0 else 12, active)
  | (a, im, idone) :: rest =>
      if negb (m_maskb jssp cfg i s a) then (1000 * k + 2, active)
      else match m_step jssp cfg i s a with
           | None => (1000 * k + 7, active)
           | Some s' =>
               let active' := if prev_done then active else S active in
               let mm := if jssp then jssp_mask cfg i s' else mask cfg i s' in
               if negb (anyb im) then (1000 * (k + 1) + 8, active')
               else if prev_done && negb idone then (1000 * (k + 1) + 9, active')
               else if negb (anyb mm) then (1000 * (k + 1) + 1, active')
               else if negb (Bool.eqb idone (done s')) then (1000 * (k + 1) + 3, active')
               else c02_steps jssp cfg i s' idone active' rest (k + 1)
           end
  end.

Definition check_C02_fjsp (c : fjsp_case) : Z :=
  let w := wf_code c in
  if negb (w =? 0) then w
  else if negb (anyb (c_mask0 c)) then 8
  else
    let i := c_inst c in
    match c02_steps (c_jssp c) (c_cfg c) i (reset i) false 0 (c_steps c) 0 with
    | (code, active) =>
        if negb (code =? 0) then code
        else if (step_bound (c_cfg c) i <? active)%nat then 10 else 0
    end.

(* ---------------------------------------------------------------- C03 *)
(* (env kind, mask_no_ops, instance, the actions of the row -- padding included --, reported reward) *)
Definition c03_case := (bool * bool * inst * list nat * Z)%type.
Fixpoint c03_run (jssp cfg : bool) i s (acts : list nat) (k : Z) : Z + st :=
  match acts with
  | [] => inr s
  | a :: r => if negb (m_maskb jssp cfg i s a) then inl (1000 * k + 2)
              else match m_step jssp cfg i s a with
                   | None => inl (1000 * k + 7)
                   | Some s' => c03_run jssp cfg i s' r (k + 1)
                   end
  end.
(* the objective, from the independent definition: the latest completion time of the induced schedule *)
Definition spec_makespan (es : list entry) : Z := fold_left Z.max (map e_end es) 0.
Definition check_C03_fjsp (c : c03_case) : Z :=
  match c with (jssp, cfg, i, acts, rew) =>
    if negb (wfb i && solvableb i && (negb jssp || jssp_wfb i)) then 20
    else match c03_run jssp cfg i (reset i) acts 0 with
         | inl code => code
         | inr s =>
             if negb (done s) then 12
             else let es := schedule_of s in
                  let mk := spec_makespan es in
                  if negb (valid_scheduleb (sinst_of i) es mk) then 21
                  else if negb (rew =? - mk) then 4
                  else match reward i s with Some r => if r =? rew then 0 else 5 | None => 5 end
         end
  end.

(* ---------------------------------------------------------------- C03 / C04: FJSPEnv._get_reward on a batch, incl. its guard *)
(* (env kind, mask_no_ops, rows = (instance, the actions the row has taken so far), what env.get_reward(td, None) did:
   None = it raised, Some = the rewards it returned) *)
Definition rg_case := (bool * bool * list (inst * list nat) * option (list Z))%type.
Fixpoint rg_rows (jssp cfg : bool) (rows : list (inst * list nat)) : Z + list (inst * st) :=
  match rows with
  | [] => inr []
  | (i, acts) :: r =>
      if negb (wfb i && solvableb i && (negb jssp || jssp_wfb i)) then inl 20
      else match c03_run jssp cfg i (reset i) acts 0 with
           | inl code => inl code
           | inr s => match rg_rows jssp cfg r with inl c => inl c | inr l => inr ((i, s) :: l) end
           end
  end.
Definition check_reward_guard (c : rg_case) : Z :=
  match c with (jssp, cfg, rows, obs) =>
    match rg_rows jssp cfg rows with
    | inl code => code
    | inr ms => match b_reward ms, obs with
                | None, None => 0
                | Some rs, Some os => if list_eqb Z.eqb rs os then 0 else 5
                | None, Some _ => 15
                | Some _, None => 32
                end
    end
  end.

(* ---------------------------------------------------------------- C03, stepwise_reward = True *)
Definition check_C03_stepwise (c : sw_case) : Z := check_stepwise c.

(* ---------------------------------------------------------------- C04: the row model reproduces a row of a batch *)
Definition check_C04_fjsp (c : fjsp_case) : Z :=
  let w := wf_code c in if negb (w =? 0) then w else check_corr c.

(* get_job_op_view / blockify on a batch: row b of the returned tensor against the model at the batch width.
   (instance, the flat per-operation values of the row, pad value, the width of the returned tensor,
    the returned [num_jobs, width] slice of the row) *)
Definition check_jobview (c : inst * list Z * Z * nat * list (list Z)) : Z :=
  match c with (i, vals, padv, w, impl) =>
    if negb (wfb i) then 20
    else if (w <? row_width i)%nat then 31                       (* narrower than the row's own longest job *)
    else if list_eqb (list_eqb Z.eqb) impl (view_at padv w i vals) then 0 else 30
  end.

(* self-tests *)
Example c02_selftest : check_C02_fjsp (ex_case 2) = 0.
Proof. vm_compute. reflexivity. Qed.
Example c03_selftest : check_C03_fjsp (false, true, ex_i, [1; 4; 2; 0]%nat, -5) = 0 /\
                       check_C03_fjsp (false, true, ex_i, [1; 4; 2; 0]%nat, -6) = 4.
Proof. vm_compute. split; reflexivity. Qed.
Example reward_guard_selftest :
  check_reward_guard (false, true, [(ex_i, [1; 4; 2]%nat); (ex_i, [1; 4]%nat)], None) = 0 /\
  check_reward_guard (false, true, [(ex_i, [1; 4; 2]%nat); (ex_i, [1; 4]%nat)], Some [-5; -9999]) = 15 /\
  check_reward_guard (false, true, [(ex_i, [1; 4; 2]%nat); (ex_i, [4; 1; 2; 0]%nat)], Some [-5; -5]) = 0 /\
  check_reward_guard (false, true, [(ex_i, [1; 4; 2]%nat); (ex_i, [4; 1; 2; 0]%nat)], None) = 32.
Proof. vm_compute. repeat split; reflexivity. Qed.
Example jobview_selftest : check_jobview (ex_i, [7; 8; 9; 0], -1, 3%nat, [[7; 8; -1]; [9; -1; -1]]) = 0.
Proof. vm_compute. reflexivity. Qed.
