(* Correspondence harness for C17: the model of Data/Dataset.v is run (vm_compute) on the very inputs the real
   rl4co classes were driven with, and compared with what they emitted.  Keys are small naturals (the harness
   numbers the TensorDict keys), values are integers: the tag of a per-instance tensor slice, i.e. which
   original instance's slice it is bit for bit (dtype and shape included; -1 = none), or an exactly scaled
   number for the extra / reward values.  Result codes: 0 = agree. *)
From Coq Require Import List ZArith Bool Arith PeanoNat.
From RL4CO Require Import Data.Dataset Data.DatasetStore.
Import ListNotations.

Definition tdz := @td nat Z.
Definition mk (n : nat) (cols : list (nat * list Z)) : tdz := mkTD n cols.
Definition dZ : Z := (-1)%Z.

Definition cls_of (c : nat) : dcls := match c with 0 => TDD | 1 => FastTd | _ => FastGen end.

Definition zlist_eqb (a b : list Z) : bool :=
  (length a =? length b) && forallb (fun p => Z.eqb (fst p) (snd p)) (combine a b).
Definition zlistlist_eqb (a b : list (list Z)) : bool :=
  (length a =? length b) && forallb (fun p => zlist_eqb (fst p) (snd p)) (combine a b).

(* equality of two batches up to the order of the keys: 0 equal, 1 batch size, 2 number of keys, 3 a column *)
Definition td_cmp (m i : tdz) : Z :=
  if negb (bsz m =? bsz i) then 1%Z
  else if negb (length (cols m) =? length (cols i)) then 2%Z
  else if forallb (fun kc => match alookup Nat.eqb (fst kc) (cols i) with
                             | Some col => zlist_eqb (snd kc) col
                             | None => false end) (cols m) then 0%Z
  else 3%Z.

Fixpoint batches_cmp (k : Z) (ms os : list tdz) : Z :=
  match ms, os with
  | [], [] => 0%Z
  | m :: ms', o :: os' => let c := td_cmp m o in
                          if Z.eqb c 0 then batches_cmp (k + 1)%Z ms' os' else (100 * k + c)%Z
  | _, _ => (100 * k + 4)%Z                      (* number of batches differs *)
  end.

Definition result_cmp (m o : option (list tdz)) : Z :=
  match m, o with
  | None, None => 0%Z
  | None, Some _ => 5%Z                          (* the model says the code raises; it returned *)
  | Some _, None => 6%Z                          (* the code raised; the model returns *)
  | Some ms, Some os => batches_cmp 1%Z ms os
  end.

Definition inputs_ok (t : tdz) (shuffle : option (list nat)) : Z :=
  if negb (td_wfb Nat.eqb t) then 9001%Z
  else match shuffle with
       | Some perm => if negb (bsz t =? 0) && negb (is_permb perm (bsz t)) then 9002%Z else 0%Z
       | None => 0%Z
       end.

(* --- datasets x loader ------------------------------------------------------------------------- *)
Record lcase := LC {
  lc_cls : nat;                              (* 0 TensorDictDataset, 1 FastTdDataset, 2 TensorDictDatasetFastGeneration *)
  lc_td : tdz;                               (* the wrapped TensorDict, as tags *)
  lc_b : nat;                                (* DataLoader batch_size *)
  lc_shuffle : option (list nat);            (* None = sequential; Some = the order the sampler produced *)
  lc_extra : option (nat * list Z);          (* add_key(key, extra) before loading *)
  lc_obs : option (list tdz)                 (* what the loader emitted; None = an exception *)
}.
Definition check_load (c : lcase) : Z :=
  let ok := inputs_ok (lc_td c) (lc_shuffle c) in
  if negb (Z.eqb ok 0) then ok
  else result_cmp (load Nat.eqb dZ (cls_of (lc_cls c)) (lc_td c) (lc_extra c) (lc_b c) (lc_shuffle c)) (lc_obs c).

(* --- RolloutBaseline.rollout / wrap_dataset + loader ---------------------------------------------- *)
Record rcase := RC {
  rc_cls : nat;
  rc_td : tdz;                               (* one key (rc_idkey) whose tag is the instance's identity *)
  rc_idkey : nat;
  rc_pol : list Z;                           (* the row-wise policy: reward (scaled) of the instance with identity i *)
  rc_kx : nat;                               (* number given to the key "extra" *)
  rc_bb : nat;                               (* baseline evaluation batch size *)
  rc_b : nat;                                (* training batch size *)
  rc_shuffle : option (list nat);
  rc_obs_calls : list (list Z);              (* identities of the instances in each batch the policy was called on *)
  rc_obs_extra : option (list Z);            (* rewards attached by wrap_dataset, dataset order *)
  rc_obs : option (list tdz)                 (* what the training loader emitted *)
}.
Definition pol_of (idkey : nat) (table : list Z) (it : @item nat Z) : Z :=
  nth (Z.to_nat (getd Nat.eqb dZ idkey it)) table dZ.
Definition polB_of (idkey : nat) (table : list Z) (t : tdz) : list Z := map (pol_of idkey table) (rows dZ t).

Definition check_rollout (c : rcase) : Z :=
  let ok := inputs_ok (rc_td c) (rc_shuffle c) in
  if negb (Z.eqb ok 0) then ok else
  let cl := cls_of (rc_cls c) in
  let polB := polB_of (rc_idkey c) (rc_pol c) in
  let calls := match load Nat.eqb dZ cl (rc_td c) None (rc_bb c) None with
               | Some ts => map (fun t' => map (getd Nat.eqb dZ (rc_idkey c)) (rows dZ t')) ts
               | None => [] end in
  if negb (zlistlist_eqb calls (rc_obs_calls c)) then 11%Z else
  let ex := rollout Nat.eqb dZ polB cl (rc_td c) (rc_bb c) in
  if negb (match ex, rc_obs_extra c with
           | None, None => true | Some a, Some b => zlist_eqb a b | _, _ => false end) then 12%Z else
  result_cmp (wrap_load Nat.eqb dZ polB cl (rc_td c) (rc_kx c) (rc_bb c) (rc_b c) (rc_shuffle c)) (rc_obs c).

(* RolloutBaseline.setup / _update_policy: bl_vals over the baseline's own evaluation dataset *)
Record ucase := UC {
  uc_cls : nat; uc_td : tdz; uc_idkey : nat; uc_pol : list Z; uc_bb : nat;
  uc_obs_calls : list (list Z); uc_obs_vals : option (list Z) }.
Definition check_update (c : ucase) : Z :=
  let ok := inputs_ok (uc_td c) None in
  if negb (Z.eqb ok 0) then ok else
  let cl := cls_of (uc_cls c) in
  let calls := match load Nat.eqb dZ cl (uc_td c) None (uc_bb c) None with
               | Some ts => map (fun t' => map (getd Nat.eqb dZ (uc_idkey c)) (rows dZ t')) ts
               | None => [] end in
  if negb (zlistlist_eqb calls (uc_obs_calls c)) then 11%Z else
  match rollout Nat.eqb dZ (polB_of (uc_idkey c) (uc_pol c)) cl (uc_td c) (uc_bb c), uc_obs_vals c with
  | None, None => 0%Z
  | Some a, Some b => if zlist_eqb a b then 0%Z else 12%Z
  | _, _ => 12%Z
  end.

(* the stub policy of the harness is row-wise by construction: the hypothesis of rollout_aligned holds of it *)
Lemma polB_of_rowwise idkey table : forall t, polB_of idkey table t = map (pol_of idkey table) (rows dZ t).
Proof. reflexivity. Qed.

(* --- the two observations outside the property, reproduced for information ------------------------ *)
(* (1) after reading the indices [pre] through an ExtraKeyDataset over a TensorDictDataset, a sequential loader
       over the BASE dataset (same storage) *)
Record ocase := OC {
  oc_td : tdz; oc_extra : nat * list Z; oc_pre : list nat; oc_b : nat; oc_obs : option (list tdz) }.
Definition check_obs_alias (c : ocase) : Z :=
  let h := tdd_init dZ (oc_td c) in
  match ek_init (length h) (snd (oc_extra c)) (fst (oc_extra c)) with
  | None => 7%Z
  | Some e => match ekl_getitems Nat.eqb e h (oc_pre c) with
              | None => 8%Z
              | Some (_, h1) => result_cmp (drop_state (dataloader (D_tdd Nat.eqb dZ) h1 (oc_b c) None)) (oc_obs c)
              end
  end.
(* (2) ds.add_key(k1, e1).add_key(k2, e2) read through a sequential loader *)
Record ncase := NC {
  nc_cls : nat; nc_td : tdz; nc_e1 : nat * list Z; nc_e2 : nat * list Z; nc_b : nat; nc_obs : option (list tdz) }.
Definition check_obs_nested (c : ncase) : Z :=
  let t := nc_td c in
  let m := match nc_cls c with
           | 0 => let h := tdd_init dZ t in
                  match ek_init (length h) (snd (nc_e1 c)) (fst (nc_e1 c)) with
                  | None => None
                  | Some e1 => match ek_add_key e1 (fst (nc_e2 c)) (snd (nc_e2 c)) with
                               | None => None
                               | Some e2 => drop_state (dataloader (D_ekl Nat.eqb dZ e2) h (nc_b c) None) end end
           | 1 => match ek_init (bsz t) (snd (nc_e1 c)) (fst (nc_e1 c)) with
                  | None => None
                  | Some e1 => match ek_add_key e1 (fst (nc_e2 c)) (snd (nc_e2 c)) with
                               | None => None
                               | Some e2 => drop_state (dataloader (D_ekt Nat.eqb dZ e2) t (nc_b c) None) end end
           | _ => match fg_add_key Nat.eqb t (fst (nc_e1 c)) (snd (nc_e1 c)) with
                  | None => None
                  | Some t1 => match fg_add_key Nat.eqb t1 (fst (nc_e2 c)) (snd (nc_e2 c)) with
                               | None => None
                               | Some t2 => drop_state (dataloader (D_fg dZ) t2 (nc_b c) None) end end
           end in
  result_cmp m (nc_obs c).

(* --- histories of wrappings: the same dataset object wrapped again and again, reads interleaved ------------------ *)
Inductive hev :=
| HWrap (extra : list Z)                                  (* w = ds.add_key("extra", extra) *)
| HWrapPol (table : list Z) (bb : nat)                    (* w = RolloutBaseline.wrap_dataset(ds, env, batch_size=bb), the baseline
                                                             policy being the row-wise stub with reward table [table] *)
| HGet (w i : nat)                                        (* wrapper_w[i] *)
| HPass (w b : nat) (shuffle : option (list nat))         (* DataLoader(wrapper_w, b, ...): Some = the order the sampler produced *)
| HBase (b : nat) (shuffle : option (list nat)).          (* DataLoader(ds, b, ...) over the base dataset *)
Inductive hobs :=
| HOWrap (extra : option (list Z))                        (* the new wrapper's extra values (dataset order); None = raised *)
| HOItem (it : option (list (nat * Z)))
| HOBatches (ts : option (list tdz)).
Record hcase := HC {
  hc_cls : nat; hc_disc : nat;                             (* discipline 0 = assign (the code), 1 = setdefault *)
  hc_td : tdz; hc_idkey : nat; hc_kx : nat;
  hc_evs : list hev; hc_obs : list hobs }.                 (* the observed list stops after the first event that raised *)

Definition ev_of (idkey kx : nat) (e : hev) : @event nat Z :=
  match e with
  | HWrap extra => EWrap kx extra
  | HWrapPol table bb => EWrapPol kx (polB_of idkey table) bb
  | HGet w i => EGet w i
  | HPass w b sh => EPass w b sh
  | HBase b sh => EBasePass b sh
  end.
Definition item_td (it : list (nat * Z)) : tdz := mk 1 (map (fun kv => (fst kv, [snd kv])) it).
Definition hobs_cmp (m : option (@output nat Z)) (o : hobs) : Z :=
  match m, o with
  | None, HOWrap None => 0%Z
  | None, HOItem None => 0%Z
  | None, HOBatches None => 0%Z
  | None, _ => 5%Z
  | Some (OWrapped a), HOWrap (Some b) => if zlist_eqb a b then 0%Z else 12%Z
  | Some (OItem a), HOItem (Some b) => match td_cmp (item_td a) (item_td b) with 0%Z => 0%Z | c => (20 + c)%Z end
  | Some (OBatches ms), HOBatches (Some os) => batches_cmp 1%Z ms os
  | Some _, HOWrap None => 6%Z
  | Some _, HOItem None => 6%Z
  | Some _, HOBatches None => 6%Z
  | Some _, _ => 8%Z                                       (* not the same kind of event *)
  end.
Fixpoint trace_cmp (j : Z) (ms : list (option (@output nat Z))) (os : list hobs) : Z :=
  match ms, os with
  | [], [] => 0%Z
  | m :: ms', o :: os' => let c := hobs_cmp m o in
                          if Z.eqb c 0 then trace_cmp (j + 1)%Z ms' os' else (100000 * j + c)%Z
  | _, _ => (100000 * j + 7)%Z                             (* one side went on after the other had stopped *)
  end.
Definition hev_perm_ok (n : nat) (e : hev) : bool :=
  match e with
  | HPass _ _ (Some perm) => (n =? 0) || is_permb perm n
  | HBase _ (Some perm) => (n =? 0) || is_permb perm n
  | _ => true
  end.
Definition check_hist (c : hcase) : Z :=
  if negb (td_wfb Nat.eqb (hc_td c)) then 9001%Z
  else if negb (forallb (hev_perm_ok (bsz (hc_td c))) (hc_evs c)) then 9002%Z
  else trace_cmp 1%Z
         (trace Nat.eqb dZ (cls_of (hc_cls c)) (match hc_disc c with 0 => Assign | _ => SetDefault end)
                (hc_td c) (map (ev_of (hc_idkey c) (hc_kx c)) (hc_evs c)))
         (hc_obs c).

(* the stub policies do not look at the extra key: the hypothesis pol_ignores_kx of C17_store_assign_rollout_history *)
Lemma pol_of_ignores_extra idkey kx table it v : idkey <> kx ->
  pol_of idkey table (aset Nat.eqb kx v it) = pol_of idkey table it.
Proof.
  intros H. unfold pol_of, getd. rewrite (alookup_aset_other Nat.eqb Nat.eqb_eq) by congruence. reflexivity.
Qed.

Example check_hist_selftest :
  let t := mk 3 [(0, [0; 16; 32]%Z)] in
  let evs := [HWrap [7; 8; 9]%Z; HPass 0 2 None; HWrap [70; 80; 90]%Z; HPass 1 3 (Some [2; 0; 1]); HGet 0 1; HBase 3 None] in
  let fresh := [HOWrap (Some [7; 8; 9]%Z);
                HOBatches (Some [mk 2 [(0, [0; 16]%Z); (5, [7; 8]%Z)]; mk 1 [(0, [32]%Z); (5, [9]%Z)]]);
                HOWrap (Some [70; 80; 90]%Z);
                HOBatches (Some [mk 3 [(0, [32; 0; 16]%Z); (5, [90; 70; 80]%Z)]]);
                HOItem (Some [(0, 16%Z); (5, 8%Z)])] in
  let stale := [HOWrap (Some [7; 8; 9]%Z);
                HOBatches (Some [mk 2 [(0, [0; 16]%Z); (5, [7; 8]%Z)]; mk 1 [(0, [32]%Z); (5, [9]%Z)]]);
                HOWrap (Some [70; 80; 90]%Z);
                HOBatches (Some [mk 3 [(0, [32; 0; 16]%Z); (5, [9; 7; 8]%Z)]]);
                HOItem (Some [(0, 16%Z); (5, 8%Z)])] in
  map check_hist
    [ HC 0 0 t 0 5 evs (fresh ++ [HOBatches (Some [mk 3 [(0, [0; 16; 32]%Z); (5, [70; 8; 90]%Z)]])]);
      HC 0 0 t 0 5 evs (stale ++ [HOBatches (Some [mk 3 [(0, [0; 16; 32]%Z); (5, [7; 8; 9]%Z)]])]);
      HC 0 1 t 0 5 evs (stale ++ [HOBatches (Some [mk 3 [(0, [0; 16; 32]%Z); (5, [7; 8; 9]%Z)]])]);
      HC 1 0 t 0 5 evs (fresh ++ [HOBatches (Some [mk 3 [(0, [0; 16; 32]%Z)]])]);
      HC 2 0 t 0 5 [HWrap [7; 8; 9]%Z; HWrap [70; 80; 90]%Z; HPass 0 2 None; HGet 0 0]
         [HOWrap (Some [7; 8; 9]%Z); HOWrap (Some [70; 80; 90]%Z);
          HOBatches (Some [mk 2 [(0, [0; 16]%Z); (5, [70; 80]%Z)]; mk 1 [(0, [32]%Z); (5, [90]%Z)]]); HOItem None];
      HC 0 0 t 0 5 [HWrapPol [3; 4; 5]%Z 2; HGet 0 0; HWrapPol [30; 40; 50]%Z 2; HGet 1 0]
         [HOWrap (Some [3; 5; 5]%Z); HOItem (Some [(0, 0%Z); (5, 3%Z)]); HOWrap None] ]
  = [0; 400103; 0; 0; 0; 100012]%Z.
Proof. vm_compute. reflexivity. Qed.

(* self-test of the comparison functions *)
Example check_load_selftest :
  map check_load
    [ LC 0 (mk 3 [(0, [0; 16; 32]%Z); (1, [1; 17; 33]%Z)]) 2 None None
         (Some [mk 2 [(1, [1; 17]%Z); (0, [0; 16]%Z)]; mk 1 [(0, [32]%Z); (1, [33]%Z)]]);
      LC 1 (mk 3 [(0, [0; 16; 32]%Z)]) 2 (Some [2; 0; 1]) (Some (5, [7; 8; 9]%Z))
         (Some [mk 2 [(0, [32; 0]%Z); (5, [9; 7]%Z)]; mk 1 [(0, [16]%Z); (5, [8]%Z)]]);
      LC 1 (mk 3 [(0, [0; 16; 32]%Z)]) 2 (Some [2; 0; 1]) (Some (5, [7; 8; 9]%Z))
         (Some [mk 2 [(0, [32; 0]%Z); (5, [9; 8]%Z)]; mk 1 [(0, [16]%Z); (5, [7]%Z)]]);
      LC 2 (mk 3 [(0, [0; 16; 32]%Z)]) 2 None (Some (5, [7; 8]%Z)) None;
      LC 2 (mk 3 [(0, [0; 16; 32]%Z)]) 2 (Some [0; 0; 1]) None None ]
  = [0; 0; 103; 0; 9002]%Z.
Proof. vm_compute. reflexivity. Qed.
