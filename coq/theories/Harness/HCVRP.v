(* Correspondence harness for CVRP (C01-C06): the model at float32 rounding ([f32]) against recorded traces,
   and the exact specification evaluated on the implementation's own episodes. *)
From Coq Require Import ZArith List Bool Lia Arith.
From RL4CO Require Import Base.Num Base.EnvSig Spec.Routes Env.CVRP Env.CVRPProofs Harness.HEnv Harness.HBook.
Import ListNotations.
Open Scope Z_scope.

(* instance, trace, final mask, (impl reward, tolerance), episode complete?, checker accepted? *)
Definition cvrp_case := (cvrp_inst * list tstep * list bool * (Z * Z) * bool * bool)%type.
Definition mk_cvrp (d : list Z) (c : Z) (m : list (list Z)) (t : Z) : cvrp_inst :=
  {| dem := d; cap := c; dist := m; tol := t |}.

Definition c_inst (c : cvrp_case) := match c with (i, _, _, _, _, _) => i end.
Definition c_trace (c : cvrp_case) := match c with (_, t, _, _, _, _) => t end.
Definition c_final (c : cvrp_case) := match c with (_, _, f, _, _, _) => f end.
Definition c_rew (c : cvrp_case) := match c with (_, _, _, r, _, _) => r end.
Definition c_complete (c : cvrp_case) := match c with (_, _, _, _, b, _) => b end.
Definition c_checker (c : cvrp_case) := match c with (_, _, _, _, _, b) => b end.

(* actions up to and including the step at which the row first reported done (the episode proper) *)
Fixpoint episode_actions (tr : list tstep) : list nat :=
  match tr with
  | [] => []
  | (m, a, d) :: rest => if d then [a] else a :: episode_actions rest
  end.

(* C01: implementation masks inside model masks, done equal; specification holds on the completed episode.
   code 6 = the independent feasibility predicate is false on the implementation's own episode *)
(* the specification is judged FIRST, on the implementation's own episode: a dropped mask term must end as a concrete
   replay (code 6), not as a mere model/implementation disagreement *)
Definition check_C01 (c : cvrp_case) : Z :=
  if c_complete c && negb (cvrp_feasibleb (c_inst c) (tol (c_inst c)) (episode_actions (c_trace c))) then 6
  else check_trace (E:=CVRP f32) (c_inst c) 0 (c_trace c).

(* C02: on the implementation's observables, then mask/done equality with the model *)
Definition check_C02 (c : cvrp_case) : Z :=
  let r := c02_impl (2 * n_of (c_inst c) + 1) (c_trace c) (c_final c) in
  if negb (r =? 0) then r
  else if negb (c_complete c) then 12
  else check_trace (E:=CVRP f32) (c_inst c) 2 (c_trace c).

(* C03: reported reward against the route-wise objective recomputed from instance data and actions
   (all actions, padding included: this is what get_reward is given) *)
Definition check_C03 (c : cvrp_case) : Z :=
  if negb (c_complete c) then 0
  else if zabs_le (fst (c_rew c)) (cvrp_objective (c_inst c) (trace_actions (c_trace c))) (snd (c_rew c)) then 0 else 4.

(* C05: model masks inside implementation masks *)
Definition check_C05 (c : cvrp_case) : Z := check_trace (E:=CVRP f32) (c_inst c) 1 (c_trace c).

(* C06: model of the checker agrees with the implementation's verdict (13); the verdict agrees with the
   specification: feasible => accepted (14), infeasible beyond the tolerance => rejected (15) *)
Definition check_C06 (c : cvrp_case) : Z :=
  let acts := trace_actions (c_trace c) in
  let i := c_inst c in
  if cvrp_feasibleb i 0 acts && negb (c_checker c) then 14
  else if negb (cvrp_feasibleb i (3 * tol i) acts) && c_checker c then 15
  else if negb (Bool.eqb (cvrp_checker f32 i acts) (c_checker c)) then 13
  else 0.

(* a solution given directly as an action list (hand-built or corrupted), with the implementation's verdict *)
Definition check_C06_sol (c : cvrp_inst * list nat * bool) : Z :=
  match c with (i, acts, verdict) =>
    if cvrp_feasibleb i 0 acts && negb verdict then 14
    else if negb (cvrp_feasibleb i (3 * tol i) acts) && verdict then 15
    else if negb (Bool.eqb (cvrp_checker f32 i acts) verdict) then 13
    else 0
  end.

(* ---------------------------------------------------------------- bookkeeping (C02 / C04, see Harness/HBook.v)
   keys of the env's step output compared after every step, in this order:
   current_node (= the action just taken), used_capacity, visited (as a number, bit j = node j) *)
Definition book_obs (s : cvrp_st) : list Z := [Z.of_nat (cur s); used s; bitsZ (vis s)].
Definition book_kinds : list nat := [2; 0; 0]%nat.
(* instance, tolerance per entry, entries after reset, (action, entries after the step) list *)
Definition cvrp_book := (cvrp_inst * list Z * list Z * list (nat * list Z))%type.
Definition check_book (c : cvrp_book) : Z :=
  match c with (i, tols, o0, tr) => book_check (CVRP f32) i book_obs book_kinds tols o0 tr end.
