(* Correspondence harness of the units `sched` of C02 / C03 / C04, FFSPEnv and SMTWTPEnv.
   Cases are those of Harness/HC07_ffsp.v.  Result codes  1000 * step + tag :
     concrete  4 reward differs from the objective recomputed from (instance, actions)   8 empty implementation mask row
               9 finished row became unfinished   10 step bound exceeded
     disagree  1 mask emptiness differs  2 action outside the model mask  3 done differs  5 model reward differs
               7 model step = None  12 episode not finished  20 instance not well-formed
               21 the model's own schedule is rejected by the specification (cannot happen: FFSP_valid)
     pre_step guard (check_prestep_guard):
     concrete 16 env.pre_step returned although a row of the batch is past stage 0 (its own stage_idx says so)
     disagree 32 env.pre_step raised although the model's guard lets the batch through *)
From Coq Require Import ZArith List Bool Lia ZifyBool Arith.
From RL4CO Require Import Base.FFSPLists Spec.FlowShop Env.FFSP Env.SMTWTP Env.SchedBatch2 Env.FFSPBound Env.SchedGuards Harness.HC07_ffsp.
Import ListNotations.
Open Scope Z_scope.

Definition anyb (l : list bool) : bool := existsb (fun b => b) l.

(* ---------------------------------------------------------------- FFSP, C02 *)
(* returns (code, steps up to and including the first done, real-job actions among them, clock of the finishing state) *)
Fixpoint ffsp_c02_walk (i : FFSP.inst) (k : Z) (s : FFSP.st) (prev_done : bool) (active jobs : nat) (clock : Z)
         (steps : list (nat * HC07F.obs)) : Z * nat * nat * Z :=
  match steps with
  | [] => (if prev_done then 0 else 12, active, jobs, clock)
  | (a, o) :: r =>
      if negb (nth a (FFSP.mask s) false) then (1000 * k + 2, active, jobs, clock)
      else match FFSP.step i s a with
           | None => (1000 * k + 7, active, jobs, clock)
           | Some s' =>
               let active' := if prev_done then active else S active in
               let jobs' := if prev_done then jobs else if (a <? FFSP.nJ i)%nat then S jobs else jobs in
               let clock' := if prev_done then clock else pos i s' in
               (* o_cmp = false on the step that finishes the whole batch: the code leaves action_mask stale there *)
               if HC07F.o_cmp o && negb (anyb (HC07F.o_mask o)) then (1000 * k + 8, active', jobs', clock')
               else if prev_done && negb (HC07F.o_done o) then (1000 * k + 9, active', jobs', clock')
               else if HC07F.o_cmp o && negb (anyb (FFSP.mask s')) then (1000 * k + 1, active', jobs', clock')
               else if negb (Bool.eqb (HC07F.o_done o) (FFSP.done s')) then (1000 * k + 3, active', jobs', clock')
               else ffsp_c02_walk i (k + 1) s' (HC07F.o_done o) active' jobs' clock' r
           end
  end.

Definition check_C02_ffsp (c : HC07F.ffsp_case) : Z :=
  let i := HC07F.f_inst c in
  if negb (FFSP.wfb i) then 20
  else if negb (anyb (HC07F.o_mask (HC07F.f_obs0 c))) then 8
  else match ffsp_c02_walk i 1 (FFSP.reset i) false 0 0 0 (HC07F.f_steps c) with
       | (code, active, jobs, clock) =>
           if negb (code =? 0) then code
           (* exactly J*S real-job steps, and no more steps than the clock reading of the finishing state + 1 *)
           else if negb (Nat.eqb jobs (FFSP.nJ i * FFSP.nS i)) then 10
           else if clock + 1 <? Z.of_nat active then 10
           (* ... and within the instance-level bound (C02_ffsp_step_bound) *)
           else if (Z.of_nat (FFSP.nJ i * FFSP.nS i) * (Dall i + 2) + 2) * Z.of_nat (FFSP.nS i * FFSP.nM i) <? Z.of_nat active then 10
           else 0
       end.

(* ---------------------------------------------------------------- FFSP, C03 *)
Fixpoint ffsp_run_adm (i : FFSP.inst) (k : Z) (s : FFSP.st) (acts : list nat) : Z + FFSP.st :=
  match acts with
  | [] => inr s
  | a :: r => if negb (nth a (FFSP.mask s) false) then inl (1000 * k + 2)
              else match FFSP.step i s a with
                   | None => inl (1000 * k + 7)
                   | Some s' => ffsp_run_adm i (k + 1) s' r
                   end
  end.
(* (instance, the actions of the row incl. post-finish waits, reported reward) *)
Definition check_C03_ffsp (c : FFSP.inst * list nat * Z) : Z :=
  match c with (i, acts, rew) =>
    if negb (FFSP.wfb i) then 20
    else match ffsp_run_adm i 1 (FFSP.reset i) acts with
         | inl code => code
         | inr s =>
             if negb (FFSP.done s) then 12
             else let sch := FFSP.schedule_of i s in
                  if negb (FlowShop.validb (FFSP.nJ i) (FFSP.nS i) (FFSP.nM i) (FFSP.pt i) sch) then 21
                  else if negb (FlowShop.is_makespanb (FFSP.nJ i) (FFSP.nS i) (FFSP.nM i) (FFSP.pt i) sch (- rew)) then 4
                  else if FFSP.reward_of i s =? rew then 0 else 5
         end
  end.

(* ---------------------------------------------------------------- FFSP, C04: the row model reproduces a row of a batch *)
Definition check_C04_ffsp (c : HC07F.ffsp_case) : Z := HC07F.ffsp_corr c.

(* ---------------------------------------------------------------- SMTWTP *)
Fixpoint smtwtp_c02_walk (i : SMTWTP.inst) (k : Z) (s : SMTWTP.st) (prev_done : bool) (active : nat)
         (steps : list (nat * (list bool * bool))) : Z * nat :=
  match steps with
  | [] => (if prev_done then 0 else 12, active)
  | (a, (m, d)) :: r =>
      if negb (nth a (SMTWTP.mask s) false) then (1000 * k + 2, active)
      else match SMTWTP.step i s a with
           | None => (1000 * k + 7, active)
           | Some s' =>
               let active' := if prev_done then active else S active in
               (* no inert action: the mask of a finished row is empty; before that it must offer a job *)
               if negb d && negb (anyb m) then (1000 * k + 8, active')
               else if prev_done && negb d then (1000 * k + 9, active')
               else if negb (Bool.eqb (anyb m) (anyb (SMTWTP.mask s'))) then (1000 * k + 1, active')
               else if negb (Bool.eqb d (SMTWTP.done s')) then (1000 * k + 3, active')
               else smtwtp_c02_walk i (k + 1) s' d active' r
           end
  end.
Definition check_C02_smtwtp (c : HC07F.smtwtp_case) : Z :=
  let i := HC07F.s_inst c in
  if negb (SMTWTP.wfb i) then 20
  else if negb (anyb (HC07F.s_mask0 c)) then 8
  else match smtwtp_c02_walk i 1 (SMTWTP.reset i) false 0 (HC07F.s_steps c) with
       | (code, active) => if negb (code =? 0) then code
                           else if negb (Nat.eqb active (SMTWTP.n_job i)) then 10 else 0
       end.
(* (instance, actions, reported reward -- scaled) *)
Definition check_C03_smtwtp (c : SMTWTP.inst * list nat * Z) : Z :=
  match c with (i, acts, rew) =>
    if negb (SMTWTP.wfb i) then 20
    else if negb (SMTWTP.adm i (SMTWTP.reset i) acts) then 2
    else if negb (HC07F.permb (SMTWTP.n_job i) acts) then 12
    else if negb (- SMTWTP.weighted_tardiness i 0 acts =? rew) then 4
    else if SMTWTP.reward i acts =? rew then 0 else 5
  end.
Definition check_C04_smtwtp (c : HC07F.smtwtp_case) : Z := HC07F.smtwtp_corr c.

(* ---------------------------------------------------------------- FFSP: env.pre_step on a (running) batch *)
(* rows = (instance incl. the machine-table row, the actions the row has taken so far); raised = the real call raised *)
Fixpoint pg_rows (rows : list (FFSP.inst * list nat)) : Z + list (FFSP.inst * FFSP.st) :=
  match rows with
  | [] => inr []
  | (i, acts) :: r =>
      if negb (FFSP.wfb i) then inl 20
      else match ffsp_run_adm i 1 (FFSP.reset i) acts with
           | inl code => inl code
           | inr s => match pg_rows r with inl c => inl c | inr l => inr ((i, s) :: l) end
           end
  end.
Definition check_prestep_guard (c : list (FFSP.inst * list nat) * bool) : Z :=
  match c with (rows, raised) =>
    match pg_rows rows with
    | inl code => code
    | inr ms => match b_pre_step ms, raised with
                | None, true => 0
                | Some _, false => 0
                | None, false => 16
                | Some _, true => 32
                end
    end
  end.

Example prestep_guard_selftest :
  check_prestep_guard ([(FFSP.ex_i, []); (FFSP.ex_i, [1; 0; 2]%nat)], true) = 0 /\
  check_prestep_guard ([(FFSP.ex_i, []); (FFSP.ex_i, [1; 0; 2]%nat)], false) = 16 /\
  check_prestep_guard ([(FFSP.ex_i, []); (FFSP.ex_i, [])], false) = 0 /\
  check_prestep_guard ([(FFSP.ex_i, []); (FFSP.ex_i, [])], true) = 32.
Proof. vm_compute. repeat split; reflexivity. Qed.
Example c03_ffsp_selftest : check_C03_ffsp (FFSP.ex_i, FFSP.ex_acts, -6) = 0 /\ check_C03_ffsp (FFSP.ex_i, FFSP.ex_acts, -7) = 4.
Proof. vm_compute. split; reflexivity. Qed.
Example c03_smtwtp_selftest : check_C03_smtwtp (SMTWTP.ex_i, [2; 3; 1]%nat, -9) = 0.
Proof. vm_compute. reflexivity. Qed.
