(* Correspondence harness for C16: the loss models of Train/Loss*.v are run at the executable field Qc with
   list tangents (one formal param per leaf tensor entry) on the inputs the real rl4co code was driven with,
   and compared with the loss values and the autograd .grad the real code produced.  Result 0 = agree. *)
From Coq Require Import List ZArith QArith Qcanon Bool Arith.
From RL4CO Require Import Base.OField Base.OFieldQc Base.OFieldExtraC16 Train.Baselines Train.Dual Train.Loss
  Train.LossShared Train.LossPPO Train.InvLoss.
Import ListNotations.

Definition TL := tmod_list QcF.
Definition Dq := dual QcF TL.
Definition toQc (q : Q) : QcF := Q2Qc q.
Definition Qcabs (x : Qc) : Qc := if Qcleb 0%Qc x then x else Qcopp x.
(* |a - b| <= tol * (1 + |b|) *)
Definition close (tol a b : Qc) : bool := Qcleb (Qcabs (a - b)%Qc) (tol * (1 + Qcabs b))%Qc.

(* entries of a leaf tensor: formal params base, base+1, ... (or constants when the tensor does not require grad) *)
Fixpoint leaves_from (rg : bool) (base : nat) (xs : list Q) : list Dq :=
  match xs with
  | [] => []
  | x :: r => (if rg then @leaf QcF (toQc x) base else @dconst QcF TL (toQc x)) :: leaves_from rg (S base) r
  end.

Fixpoint close_list (tol : Qc) (obs : list Q) (model : list Qc) : bool :=
  match obs, model with
  | [], [] => true
  | o :: obs', m :: model' => close tol (toQc o) m && close_list tol obs' model'
  | _, _ => false
  end.
(* observed gradient entry i against the model's partial derivative number i *)
Fixpoint close_grads (tol : Qc) (i : nat) (obs : list Q) (tan : list Qc) : bool :=
  match obs with
  | [] => true
  | o :: obs' => close tol (toQc o) (@tan_at QcF tan i) && close_grads tol (S i) obs' tan
  end.

Definition scaler_of (s : option Q) : scaler QcF := match s with None => SNone | Some c => SInt (toQc c) end.

(* ------------------------------------------------------------------ REINFORCE / A2C over successive steps *)
(* kinds: 0 no baseline, 1 exponential/mean (beta), 2 extra (dataset values, leaf), 3 rollout eval (no-grad values),
          4 critic (leaf outputs), 5 warm-up over rollout eval, 6 warm-up over critic, 7 warm-up over no baseline *)
Record rstep := {
  rs_callbacks : list nat;      (* WarmupBaseline.epoch_callback(epoch=..) calls made before this step *)
  rs_rg : bool;                 (* does the reward tensor require grad in this run *)
  rs_reward : list Q; rs_ll : list Q; rs_aux : list Q;
  rs_loss : Q; rs_reinforce : Q; rs_bl_loss : Q; rs_bl : list Q;
  rs_grads : list Q }.          (* d loss / d (reward ++ ll ++ aux) *)

Definition inner_eval (kind : nat) (n : nat) (reward : list Dq) (aux : list Q) : blval QcF TL * Dq :=
  match kind with
  | 5%nat => rollout_eval (map toQc aux)
  | 6%nat => critic_eval (leaves_from true (2 * n)%nat aux) reward
  | _ => no_eval
  end.

Definition bl_obs_rows (n : nat) (b : blval QcF TL) : list Qc :=
  match b with BScalar s => [dv s] | BRows l => map dv l end.

Fixpoint rsteps (tol : Qc) (kind : nat) (beta : QcF) (n_epochs : nat) (sc : scaler QcF)
         (k : Z) (alpha : QcF) (st : option QcF) (steps : list rstep) : Z :=
  match steps with
  | [] => 0%Z
  | s :: rest =>
      let n := length (rs_reward s) in
      let reward := leaves_from (rs_rg s) 0%nat (rs_reward s) in
      let ll := leaves_from true n (rs_ll s) in
      let alpha' := fold_left (fun a e => warmup_epoch_callback a n_epochs e) (rs_callbacks s) alpha in
      let '(st', extra, ble) :=
        match kind with
        | 0%nat => (st, None, no_eval)
        | 1%nat => let o := ema_eval_d beta st reward in (fst o, None, snd o)
        | 2%nat => (st, Some (leaves_from true (2 * n)%nat (rs_aux s)), no_eval)
        | 3%nat => (st, None, rollout_eval (map toQc (rs_aux s)))
        | 4%nat => (st, None, critic_eval (leaves_from true (2 * n)%nat (rs_aux s)) reward)
        | _ => let o := warmup_eval_d alpha' beta st (inner_eval kind n reward (rs_aux s)) reward in
               (fst o, None, snd o)
        end in
      let o := calculate_loss sc reward ll extra ble in
      if negb (close tol (toQc (rs_loss s)) (dv (lo_loss o))) then (1000 * k + 1)%Z
      else if negb (close tol (toQc (rs_reinforce s)) (dv (lo_reinforce o))) then (1000 * k + 2)%Z
      else if negb (close tol (toQc (rs_bl_loss s)) (dv (lo_bl_loss o))) then (1000 * k + 3)%Z
      else if negb (close_list tol (rs_bl s) (bl_obs_rows n (lo_bl_val o))) then (1000 * k + 4)%Z
      else if negb (close_grads tol 0%nat (rs_grads s) (dt (lo_loss o))) then (1000 * k + 5)%Z
      else rsteps tol kind beta n_epochs sc (k + 1)%Z alpha' st' rest
  end.

(* tol, kind, beta, n_epochs, int reward scale, steps *)
Definition check_reinforce (c : Q * nat * Q * nat * option Q * list rstep) : Z :=
  match c with (tol, kind, beta, n_epochs, sc, steps) =>
    rsteps (toQc tol) kind (toQc beta) n_epochs (scaler_of sc) 1%Z (toQc 0) None steps end.

(* ------------------------------------------------------------------ POMO.shared_step (train) *)
(* tol, rg, scale, n_start, reward rows, ll rows, loss, grads (reward ++ ll) *)
Definition check_pomo (c : Q * bool * option Q * nat * list Q * list Q * Q * list Q) : Z :=
  match c with (tol, rg, sc, n_start, r, l, loss, grads) =>
    let n := length r in
    let o := pomo_step (scaler_of sc) n_start (leaves_from rg 0%nat r) (leaves_from true n l) in
    if negb (close (toQc tol) (toQc loss) (dv (lo2_loss o))) then 1%Z
    else if negb (close_grads (toQc tol) 0%nat grads (dt (lo2_loss o))) then 5%Z
    else if negb (forallb (fun a => Qc_eq_bool (@fsum QcF (map dv a)) 0%Qc) (lo2_adv o)) then 6%Z
    else 0%Z
  end.

(* ------------------------------------------------------------------ SymNCO.shared_step (train) *)
(* tol, rg, n_start, n_aug, beta, alpha, reward rows, ll rows, invariance loss value,
   (loss, loss_ps, loss_ss), grads (reward ++ ll ++ [invariance loss node]) *)
Definition check_symnco (c : Q * bool * nat * nat * Q * Q * list Q * list Q * Q * (Q * Q * Q) * list Q) : Z :=
  match c with (tol, rg, n_start, n_aug, beta, alpha, r, l, inv, (loss, ps, ss), grads) =>
    let n := length r in
    let o := symnco_step n_start n_aug (toQc beta) (toQc alpha) (leaves_from rg 0%nat r) (leaves_from true n l)
                         (@leaf QcF (toQc inv) (2 * n)%nat) in
    if negb (close (toQc tol) (toQc loss) (dv (so_loss o))) then 1%Z
    else if negb (close (toQc tol) (toQc ps) (dv (so_ps o))) then 2%Z
    else if negb (close (toQc tol) (toQc ss) (dv (so_ss o))) then 3%Z
    else if negb (close_grads (toQc tol) 0%nat grads (dt (so_loss o))) then 5%Z
    else 0%Z
  end.

(* ------------------------------------------------------------------ unbatchify index layout *)
(* n_rows, s, a, the flattened result of the real unbatchify(arange(n_rows), (s, a)) *)
Definition check_unbatch (c : nat * nat * nat * list nat) : Z :=
  match c with (n, s, a, obs) =>
    let m := unbatch2 0%nat (seq 0%nat n) (Nat.max s 1%nat) (Nat.max a 1%nat) in
    if list_eq_dec Nat.eq_dec (concat (concat m)) obs then 0%Z else 1%Z
  end.

(* ------------------------------------------------------------------ PPO inner step *)
Definition tbl_fun (t : list (Q * Q)) (x : QcF) : QcF :=
  match find (fun p => Qc_eq_bool (toQc (fst p)) x) t with Some p => toQc (snd p) | None => toQc 0 end.

Record prow := { pr_lls : list Q; pr_old : Q; pr_rew : Q; pr_vpred : Q; pr_ent : Q }.

Fixpoint ll_leaves (base T : nat) (rows : list prow) : list (list Dq) :=
  match rows with
  | [] => []
  | r :: rest => leaves_from true base (pr_lls r) :: ll_leaves (base + T)%nat T rest
  end.

(* tol, (clip, vf, ent, normalize, adv_eps), exp table, sqrt table, T, rows,
   loss, optional (surrogate, value, entropy), grads (ll row-major ++ vpred ++ ent) *)
Definition check_ppo (c : Q * (Q * Q * Q * bool * Q) * list (Q * Q) * list (Q * Q) * nat * list prow
                          * Q * option (Q * Q * Q) * list Q) : Z :=
  match c with (tol, (clip, vf, el, nrm, aeps), etab, stab, T, rows, loss, parts, grads) =>
    let n := length rows in
    let cfg := {| clip_range := toQc clip; vf_lambda := toQc vf; entropy_lambda := toQc el;
                  normalize_adv := nrm; adv_eps := toQc aeps |} in
    let o := @ppo_loss QcF TL (tbl_fun etab) (tbl_fun stab) cfg
               (ll_leaves 0%nat T rows) (map (fun r => toQc (pr_old r)) rows) (map (fun r => toQc (pr_rew r)) rows)
               (leaves_from true (n * T)%nat (map pr_vpred rows)) (leaves_from true (n * T + n)%nat (map pr_ent rows)) in
    if negb (close (toQc tol) (toQc loss) (dv (po_loss o))) then 1%Z
    else if negb (match parts with
                  | None => true
                  | Some (s, v, e) => close (toQc tol) (toQc s) (dv (po_surrogate o)) &&
                                      close (toQc tol) (toQc v) (dv (po_value o)) &&
                                      close (toQc tol) (toQc e) (dv (po_entropy o))
                  end) then 2%Z
    else if negb (close_grads (toQc tol) 0%nat grads (dt (po_loss o))) then 5%Z
    else 0%Z
  end.

(* ------------------------------------------------------------------ symnco.losses.invariance_loss: the VALUE *)
(* tol, eps (of cosine_similarity), num_augment, proj_embed rows [(b a)][node] = (embedding, its Euclidean norm),
   (raised?, value returned).  7 = a supplied norm is wrong / the tensor is ragged (generator error),
   1 = raise-vs-return differs, 8 = value differs *)
Definition il_case : Type := (Q * Q * nat * list (list (list Q * Q)) * (bool * Q))%type.
Definition check_invloss (c : il_case) : Z :=
  match c with
  | (tol, eps, A, rows, (raised, obs)) =>
      let rq : list (list (nvec QcF)) := map (map (fun p : list Q * Q => (map toQc (fst p), toQc (snd p)))) rows in
      if negb (inv_wfb rq) then 7%Z
      else match inv_loss (K:=QcF) (toQc eps) A rq with
           | None => if raised then 0%Z else 1%Z
           | Some m => if raised then 1%Z else if close (toQc tol) (toQc obs) m then 0%Z else 8%Z
           end
  end.
