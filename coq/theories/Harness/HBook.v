(* Generic part of the BOOKKEEPING comparison of the routing harnesses (C02 / C04).

   Besides masks and done flags, env.step hands the policy a set of bookkeeping keys (i, current_node, first_node,
   agent_idx, used_capacity, current_time, visited, ...: the context embeddings read them).  The adapter records, after
   reset and after EVERY step of a recorded episode, the values of the keys its row model has a counterpart for (each
   H<ENV>.v says which, in which order: [book_obs]); integers as they are, float32 values scaled exactly by 2^64, bool
   vectors as numbers (bit j = entry j), vector-valued keys flattened.  [book_check] runs the row model along the
   recorded actions and compares after every step:
     tag 22  a key with a model-free meaning differs from its DEFINITION (the step counter is the number of steps taken
             since reset, current_node is the action just taken, first_node is the first action of the episode): judged
             first, on the implementation's own observables alone -- a concrete failing input;
     tag 21  a key differs from the row model's state (beyond the tolerance given for that entry: 0 on exact-grid data).
   Result code: 0 agree; 1000 * (64 * k + d) + tag at the first difference: k = step (0 = the state after reset),
   d = 1-based index of the entry in the flattened key list. *)
From Coq Require Import ZArith List Bool Lia Arith.
From RL4CO Require Import Base.Num Base.EnvSig.
Import ListNotations.
Open Scope Z_scope.

(* bool vector as a number: bit j = entry j *)
Fixpoint bitsZ (l : list bool) : Z :=
  match l with [] => 0 | b :: r => (if b then 1 else 0) + 2 * bitsZ r end.

Definition natsZ (l : list nat) : list Z := map Z.of_nat l.

(* 1-based index of the first entry whose observed value is farther than its tolerance from the model's (a missing entry
   on either side differs; a missing tolerance is 0); 0 = all entries agree *)
Fixpoint first_diff (k : Z) (tols o m : list Z) : Z :=
  match o, m with
  | [], [] => 0
  | x :: o', y :: m' =>
      let t := hd 0 tols in
      if Z.abs (x - y) <=? t then first_diff (k + 1) (tl tols) o' m' else k
  | _, _ => k
  end.

(* model-free meaning of an entry.  kind 0: none;  1: step counter = number of steps taken since reset;
   2: current node = the action just taken;  3: first node = the first action of the episode *)
Definition def_ok (kind : nat) (x : Z) (steps : Z) (first last : nat) : bool :=
  match kind with
  | 1%nat => x =? steps
  | 2%nat => x =? Z.of_nat last
  | 3%nat => x =? Z.of_nat first
  | _ => true
  end.
Fixpoint def_diff (k : Z) (kinds : list nat) (o : list Z) (steps : Z) (first last : nat) : Z :=
  match o with
  | [] => 0
  | x :: o' => if def_ok (hd 0%nat kinds) x steps first last then def_diff (k + 1) (tl kinds) o' steps first last else k
  end.

Definition book_code (k d tag : Z) : Z := 1000 * (64 * k + d) + tag.

Section Book.
  Variable E : Env.
  Variable i : inst E.
  Variable obs : st E -> list Z.     (* the model's counterpart of the recorded entries, same order *)
  Variable kinds : list nat.         (* model-free meaning per entry *)
  Variable tols : list Z.            (* tolerance per entry *)

  (* one recorded step: the action and the entries observed after it.  A step the model says the real code raises in
     ([stepok] false) was never observed: the comparison ends there. *)
  Fixpoint book_from (k : Z) (first : option nat) (s : st E) (tr : list (nat * list Z)) : Z :=
    match tr with
    | [] => 0
    | (a, o) :: rest =>
        if negb (stepok E i s a) then 0
        else
          let s' := step E i s a in
          let f := match first with Some f => f | None => a end in
          let d := def_diff 1 kinds o k f a in
          if negb (d =? 0) then book_code k d 22
          else let m := first_diff 1 tols o (obs s') in
               if negb (m =? 0) then book_code k m 21
               else book_from (k + 1) (Some f) s' rest
    end.

  (* after reset only the step counter has a model-free value (0); everything is compared with the model's reset state *)
  Definition book_check (o0 : list Z) (tr : list (nat * list Z)) : Z :=
    let s0 := reset E i in
    let d := def_diff 1 (map (fun kd => if Nat.eqb kd 1 then 1%nat else 0%nat) kinds) o0 0 0%nat 0%nat in
    if negb (d =? 0) then book_code 0 d 22
    else let m := first_diff 1 tols o0 (obs s0) in
         if negb (m =? 0) then book_code 0 m 21
         else book_from 1 None s0 tr.
End Book.

Example bitsZ_ex : bitsZ [true; false; true; true] = 13. Proof. reflexivity. Qed.
Example first_diff_ex : first_diff 1 [0; 2] [5; 10; 7] [5; 12; 8] = 3 /\ first_diff 1 [] [1] [1; 2] = 2 /\ first_diff 1 [] [4; 4] [4; 4] = 0.
Proof. repeat split; reflexivity. Qed.
Example def_diff_ex : def_diff 1 [1%nat; 2%nat; 0%nat; 3%nat] [2; 5; 99; 4] 2 4%nat 5%nat = 0 /\
                      def_diff 1 [1%nat; 2%nat] [3; 5] 2 4%nat 5%nat = 1.
Proof. repeat split; reflexivity. Qed.
