(* Correspondence harness for the batch-dimension models of C09 (Env/ImproveBatch1.v, following the repaired code): the harness calls
   PDPRuinRepairEnv.step / TSPkoptEnv._random_action on batches of B instances and records whether the call raised. *)
From Coq Require Import ZArith List Bool Arith.
From RL4CO Require Import Env.ImproveBatch1.
Import ListNotations.

(* (B, L, h, raised): action_record has shape [B, L, h] *)
Definition check_batch1_shift (c : nat * nat * nat * bool) : Z :=
  match c with (B, L, h, raised) => if Bool.eqb (shift_raises true B L h) raised then 0%Z else 1%Z end.

(* (B, k_max, raised) *)
Definition check_batch1_kopt (c : nat * nat * bool) : Z :=
  match c with (B, k, raised) => if Bool.eqb (negb (kopt_sampler_indexing_ok B k)) raised then 0%Z else 1%Z end.
