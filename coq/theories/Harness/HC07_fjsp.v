(* Correspondence harness for C07 / unit fjsp: the model of Env/FJSP.v is run on the recorded instance and
   action sequence and compared, inside Coq, with what the real FJSPEnv / JSSPEnv reported.

   result = corr + 1000000 * spec + 10000000 * notwf
     corr  : 0 = agree, else 1000*k + tag  (k = number of steps taken so far; k = 0: the reset state)
             tag 1  the implementation allows an action the model forbids      (soundness direction)
             tag 2  impl mask has a different length than the model mask
             tag 3  done differs
             tag 7  model step = None on the implementation's action
             tag 8  the action taken is outside the model mask
             tag 11 / 12 / 13 / 14  final start_times / finish_times / ma_assignment / reward differ
     spec  : 0 = valid_scheduleb holds of the implementation's own final schedule with makespan = -reward,
             6 = it does not,  5 = no final schedule recorded (episode not finished)
     notwf : 1 = the instance fails wfb / solvableb (/ jssp_wfb): outside the theorems *)
From Coq Require Import ZArith List Bool Lia Arith.
From RL4CO Require Import Spec.Schedule Env.FJSP.
Import ListNotations.

Record fjsp_final := mkfin {
  f_start : list Z; f_finish : list Z; f_assign : list (list bool); f_reward : Z }.
Record fjsp_case := mkcase {
  c_jssp : bool;                               (* JSSPEnv (true) or FJSPEnv (false) *)
  c_cfg : bool;                                (* mask_no_ops *)
  c_inst : inst;
  c_mask0 : list bool;                         (* impl action_mask after reset *)
  c_steps : list (nat * list bool * bool);     (* action taken, impl action_mask after it, impl done after it *)
  c_final : option fjsp_final }.

Definition m_maskb (jssp cfg : bool) i s a := if jssp then jssp_maskb cfg i s a else maskb cfg i s a.
Definition m_masklen (jssp : bool) i := if jssp then 1 + nJ i else 1 + nJ i * nM i.
Definition m_step (jssp cfg : bool) i s a := if jssp then jssp_step cfg i s a else step cfg i s a.

(* impl[a] = true -> model a = true, for a = k, k+1, ... *)
Fixpoint mask_sub (impl : list bool) (model : nat -> bool) (k : nat) : bool :=
  match impl with
  | [] => true
  | b :: r => (negb b || model k) && mask_sub r model (S k)
  end.

Definition check_obs (jssp cfg : bool) i s (im : list bool) (idone : bool) (k : Z) : Z :=
  if negb (length im =? m_masklen jssp i) then (1000 * k + 2)%Z
  else if negb (mask_sub im (m_maskb jssp cfg i s) 0) then (1000 * k + 1)%Z
  else if negb (Bool.eqb idone (done s)) then (1000 * k + 3)%Z
  else 0%Z.

Fixpoint list_eqb {A} (eqb : A -> A -> bool) (l1 l2 : list A) : bool :=
  match l1, l2 with
  | [], [] => true
  | x :: r1, y :: r2 => eqb x y && list_eqb eqb r1 r2
  | _, _ => false
  end.

Definition check_final i s (f : option fjsp_final) (k : Z) : Z :=
  match f with
  | None => 0%Z
  | Some f =>
      if negb (list_eqb Z.eqb (f_start f) (start_times s)) then (1000 * k + 11)%Z
      else if negb (list_eqb Z.eqb (f_finish f) (finish_times s)) then (1000 * k + 12)%Z
      else if negb (list_eqb (list_eqb Bool.eqb) (f_assign f) (ma_assignment s)) then (1000 * k + 13)%Z
      else match reward i s with
           | Some r => if (r =? f_reward f)%Z then 0%Z else (1000 * k + 14)%Z
           | None => (1000 * k + 14)%Z
           end
  end.

Fixpoint check_steps (jssp cfg : bool) i s (steps : list (nat * list bool * bool)) (f : option fjsp_final) (k : Z) : Z :=
  match steps with
  | [] => check_final i s f k
  | (a, im, idone) :: rest =>
      if negb (m_maskb jssp cfg i s a) then (1000 * k + 8)%Z
      else match m_step jssp cfg i s a with
           | None => (1000 * k + 7)%Z
           | Some s' =>
               let c := check_obs jssp cfg i s' im idone (k + 1) in
               if (c =? 0)%Z then check_steps jssp cfg i s' rest f (k + 1) else c
           end
  end.

Definition check_corr (c : fjsp_case) : Z :=
  let i := c_inst c in
  let s0 := reset i in
  let c0 := check_obs (c_jssp c) (c_cfg c) i s0 (c_mask0 c) false 0 in
  if (c0 =? 0)%Z then check_steps (c_jssp c) (c_cfg c) i s0 (c_steps c) (c_final c) 0 else c0.

(* the property's executable specification on the IMPLEMENTATION's own outputs *)
Definition check_spec (c : fjsp_case) : Z :=
  match c_final c with
  | None => 5%Z
  | Some f =>
      if valid_scheduleb (sinst_of (c_inst c)) (entries_of_arrays (f_start f) (f_finish f) (f_assign f)) (- f_reward f)%Z
      then 0%Z else 6%Z
  end.

Definition check_wf (c : fjsp_case) : Z :=
  if wfb (c_inst c) && solvableb (c_inst c) && (negb (c_jssp c) || jssp_wfb (c_inst c)) then 0%Z else 1%Z.

Definition check_C07_fjsp (c : fjsp_case) : Z :=
  (check_corr c + 1000000 * check_spec c + 10000000 * check_wf c)%Z.

(* self-test: the example of Env/FJSP.v as a case, and a corrupted copy *)
Definition ex_case (fin2 : Z) : fjsp_case :=
  mkcase false true ex_i
    [false; true; false; false; false]
    [ (1, [false; false; false; false; true], false);
      (4, [false; false; true; false; false], false);
      (2, [true; false; false; false; false], true) ]
    (Some (mkfin [0; 3; 0; 0]%Z [3; 5; fin2; 9999]%Z
                 [[true; false; false; false]; [false; true; true; false]] (-5)%Z)).
Example ex_case_agrees : check_C07_fjsp (ex_case 2) = 0%Z.
Proof. vm_compute. reflexivity. Qed.
Example ex_case_detects : check_C07_fjsp (ex_case 3) = 6003012%Z.
Proof. vm_compute. reflexivity. Qed.
