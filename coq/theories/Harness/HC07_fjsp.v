(* Correspondence harness for C07 / unit fjsp: the model of Env/FJSP.v is run on the recorded instance and
   action sequence and compared, inside Coq, with what the real FJSPEnv / JSSPEnv reported.

   result = corr + 1000000 * spec + 10000000 * notwf
     corr  : 0 = agree, else 1000*k + tag  (k = number of steps taken so far; k = 0: the reset state)
             tag 1  the implementation allows an action the model forbids      (soundness direction)
             tag 2  impl mask has a different length than the model mask
             tag 3  done differs
             tag 7  model step = None on the implementation's action
             tag 8  the action taken is outside the model mask
             tag 11 / 12 / 13 / 14  final start_times / finish_times / ma_assignment / reward differ
             tag 20  c_keys has the wrong length (it is empty = not recorded, or 1 + number of steps)
             tag 21 .. 28  bookkeeping of the state after step k (k = 0: after reset) differs from the model:
                    time / busy_until / next_op / job_in_process / job_done / op_scheduled / start_times / finish_times
     spec  : 0 = valid_scheduleb holds of the implementation's own final schedule with makespan = -reward,
             6 = it does not,  5 = no final schedule recorded (episode not finished)
     notwf : 1 = the instance fails wfb / solvableb (/ jssp_wfb): outside the theorems *)
From Coq Require Import ZArith List Bool Lia Arith.
From RL4CO Require Import Spec.Schedule Env.FJSP.
Import ListNotations.

Record fjsp_final := mkfin {
  f_start : list Z; f_finish : list Z; f_assign : list (list bool); f_reward : Z }.
(* the bookkeeping keys of the TensorDict that the model has a counterpart for, after reset / after a step *)
Record fjsp_keys := mkkeys {
  k_time : Z; k_busy : list Z; k_next : list nat; k_inproc : list bool; k_jdone : list bool;
  k_sched : list bool; k_start : list Z; k_finish : list Z }.
Record fjsp_case := mkcase {
  c_jssp : bool;                               (* JSSPEnv (true) or FJSPEnv (false) *)
  c_cfg : bool;                                (* mask_no_ops *)
  c_inst : inst;
  c_mask0 : list bool;                         (* impl action_mask after reset *)
  c_steps : list (nat * list bool * bool);     (* action taken, impl action_mask after it, impl done after it *)
  c_final : option fjsp_final;
  c_keys : list fjsp_keys }.                   (* [] = not recorded; else after reset :: after every step *)

Definition m_maskb (jssp cfg : bool) i s a := if jssp then jssp_maskb cfg i s a else maskb cfg i s a.
Definition m_masklen (jssp : bool) i := if jssp then 1 + nJ i else 1 + nJ i * nM i.
Definition m_step (jssp cfg : bool) i s a := if jssp then jssp_step cfg i s a else step cfg i s a.

(* impl[a] = true -> model a = true, for a = k, k+1, ... *)
Fixpoint mask_sub (impl : list bool) (model : nat -> bool) (k : nat) : bool :=
  match impl with
  | [] => true
  | b :: r => (negb b || model k) && mask_sub r model (S k)
  end.

Definition check_obs (jssp cfg : bool) i s (im : list bool) (idone : bool) (k : Z) : Z :=
  if negb (length im =? m_masklen jssp i) then (1000 * k + 2)%Z
  else if negb (mask_sub im (m_maskb jssp cfg i s) 0) then (1000 * k + 1)%Z
  else if negb (Bool.eqb idone (done s)) then (1000 * k + 3)%Z
  else 0%Z.

Fixpoint list_eqb {A} (eqb : A -> A -> bool) (l1 l2 : list A) : bool :=
  match l1, l2 with
  | [], [] => true
  | x :: r1, y :: r2 => eqb x y && list_eqb eqb r1 r2
  | _, _ => false
  end.

(* time, busy_until, next_op, job_in_process, job_done, op_scheduled, start_times, finish_times of the TensorDict vs the model state *)
Definition check_keys (s : st) (q : fjsp_keys) (k : Z) : Z :=
  if negb (k_time q =? time s)%Z then (1000 * k + 21)%Z
  else if negb (list_eqb Z.eqb (k_busy q) (busy_until s)) then (1000 * k + 22)%Z
  else if negb (list_eqb Nat.eqb (k_next q) (next_op s)) then (1000 * k + 23)%Z
  else if negb (list_eqb Bool.eqb (k_inproc q) (job_in_process s)) then (1000 * k + 24)%Z
  else if negb (list_eqb Bool.eqb (k_jdone q) (job_done s)) then (1000 * k + 25)%Z
  else if negb (list_eqb Bool.eqb (k_sched q) (op_scheduled s)) then (1000 * k + 26)%Z
  else if negb (list_eqb Z.eqb (k_start q) (start_times s)) then (1000 * k + 27)%Z
  else if negb (list_eqb Z.eqb (k_finish q) (finish_times s)) then (1000 * k + 28)%Z
  else 0%Z.
(* head of the recorded keys (if any were recorded) against the state, and the keys left for the following steps *)
Definition check_keys_hd (s : st) (keys : list fjsp_keys) (k : Z) : Z * list fjsp_keys :=
  match keys with [] => (0%Z, []) | q :: r => (check_keys s q k, r) end.

Definition check_final i s (f : option fjsp_final) (k : Z) : Z :=
  match f with
  | None => 0%Z
  | Some f =>
      if negb (list_eqb Z.eqb (f_start f) (start_times s)) then (1000 * k + 11)%Z
      else if negb (list_eqb Z.eqb (f_finish f) (finish_times s)) then (1000 * k + 12)%Z
      else if negb (list_eqb (list_eqb Bool.eqb) (f_assign f) (ma_assignment s)) then (1000 * k + 13)%Z
      else match reward i s with
           | Some r => if (r =? f_reward f)%Z then 0%Z else (1000 * k + 14)%Z
           | None => (1000 * k + 14)%Z
           end
  end.

Fixpoint check_steps (jssp cfg : bool) i s (steps : list (nat * list bool * bool)) (f : option fjsp_final)
         (keys : list fjsp_keys) (k : Z) : Z :=
  match steps with
  | [] => check_final i s f k
  | (a, im, idone) :: rest =>
      if negb (m_maskb jssp cfg i s a) then (1000 * k + 8)%Z
      else match m_step jssp cfg i s a with
           | None => (1000 * k + 7)%Z
           | Some s' =>
               let c := check_obs jssp cfg i s' im idone (k + 1) in
               if (c =? 0)%Z then
                 match check_keys_hd s' keys (k + 1) with
                 | (ck, keys') => if (ck =? 0)%Z then check_steps jssp cfg i s' rest f keys' (k + 1) else ck
                 end
               else c
           end
  end.

Definition check_corr (c : fjsp_case) : Z :=
  let i := c_inst c in
  let s0 := reset i in
  let c0 := check_obs (c_jssp c) (c_cfg c) i s0 (c_mask0 c) false 0 in
  if (c0 =? 0)%Z then
    if negb ((length (c_keys c) =? 0) || (length (c_keys c) =? S (length (c_steps c)))) then 20%Z
    else match check_keys_hd s0 (c_keys c) 0 with
         | (ck, keys') => if (ck =? 0)%Z then check_steps (c_jssp c) (c_cfg c) i s0 (c_steps c) (c_final c) keys' 0 else ck
         end
  else c0.

(* the property's executable specification on the IMPLEMENTATION's own outputs *)
Definition check_spec (c : fjsp_case) : Z :=
  match c_final c with
  | None => 5%Z
  | Some f =>
      if valid_scheduleb (sinst_of (c_inst c)) (entries_of_arrays (f_start f) (f_finish f) (f_assign f)) (- f_reward f)%Z
      then 0%Z else 6%Z
  end.

Definition check_wf (c : fjsp_case) : Z :=
  if wfb (c_inst c) && solvableb (c_inst c) && (negb (c_jssp c) || jssp_wfb (c_inst c)) then 0%Z else 1%Z.

Definition check_C07_fjsp (c : fjsp_case) : Z :=
  (check_corr c + 1000000 * check_spec c + 10000000 * check_wf c)%Z.

(* self-test: the example of Env/FJSP.v as a case, and a corrupted copy *)
Definition ex_case_k (fin2 : Z) (keys : list fjsp_keys) : fjsp_case :=
  mkcase false true ex_i
    [false; true; false; false; false]
    [ (1, [false; false; false; false; true], false);
      (4, [false; false; true; false; false], false);
      (2, [true; false; false; false; false], true) ]
    (Some (mkfin [0; 3; 0; 0]%Z [3; 5; fin2; 9999]%Z
                 [[true; false; false; false]; [false; true; true; false]] (-5)%Z))
    keys.
Definition ex_case (fin2 : Z) : fjsp_case := ex_case_k fin2 [].
Example ex_case_agrees : check_C07_fjsp (ex_case 2) = 0%Z.
Proof. vm_compute. reflexivity. Qed.
Example ex_case_detects : check_C07_fjsp (ex_case 3) = 6003012%Z.
Proof. vm_compute. reflexivity. Qed.
(* the same episode with its bookkeeping: after reset; A0 on M0; B0 on M1 (clock jumps to 2, B done, M1 free);
   A1 on M1 at t = 3 (clock jumps 2 -> 3 -> 5, everything done) *)
Definition ex_keys (t3 : Z) : list fjsp_keys :=
  [ mkkeys 0 [0; 0]%Z [0; 2] [false; false] [false; false] [false; false; false; false] [0; 0; 0; 0]%Z [9999; 9999; 9999; 9999]%Z;
    mkkeys 0 [3; 0]%Z [0; 2] [true; false] [false; false] [true; false; false; false] [0; 0; 0; 0]%Z [3; 9999; 9999; 9999]%Z;
    mkkeys 3 [3; 2]%Z [1; 2] [false; false] [false; true] [true; false; true; false] [0; 0; 0; 0]%Z [3; 9999; 2; 9999]%Z;
    mkkeys t3 [3; 5]%Z [1; 2] [false; false] [true; true] [true; true; true; false] [0; 3; 0; 0]%Z [3; 5; 2; 9999]%Z ].
Example ex_keys_agree : check_C07_fjsp (ex_case_k 2 (ex_keys 5)) = 0%Z.
Proof. vm_compute. reflexivity. Qed.
Example ex_keys_detect : check_C07_fjsp (ex_case_k 2 (ex_keys (-5))) = 3021%Z /\ check_C07_fjsp (ex_case_k 2 (tl (ex_keys 5))) = 20%Z.
Proof. vm_compute. split; reflexivity. Qed.

(* ================================================================ FJSPEnv / JSSPEnv (stepwise_reward = True)
   The dense reward of _step:  td["reward"] = -(lbs.max(1) - td["lbs"].max(1)),  lbs = calc_lower_bound(td).
   calc_lower_bound (float means over the eligible machines, waiting offsets, the 9999 marker) is NOT modelled; what the
   property needs is that it is a potential whose value in the final state is the makespan (Env/SchedStepwise.v proves the
   telescoping identity for ANY such potential); that the real lower bound is one is tied here, case by case:
     sw_L = scale * lbs.max(1) after reset and after every step, sw_r = scale * td["reward"] after every step (scale = a
     power of two making every float an integer), sw_tol = the float32 rounding allowance per step (0 when every value is
     a multiple of 1/64 below 2^17, where float32 subtraction is exact), sw_sparse = env.get_reward(td, actions).
   Result codes 1000 * step + tag:
      4  (concrete) initial lower bound minus the sum of the step rewards is not the makespan of the induced schedule
     17  a step reward is not minus the change of the maximal lower bound      18  final lower bound is not the makespan
      5  the sparse reward is not minus the makespan     19  malformed record     2 / 7 / 12 / 20 / 21 as in HC0234_fjsp.v *)
Record sw_obs := mksw { sw_scale : Z; sw_L : list Z; sw_r : list Z; sw_tol : Z; sw_sparse : Z }.
Definition sw_case := (bool * bool * inst * list nat * sw_obs)%type.

Fixpoint sw_run (jssp cfg : bool) i s (acts : list nat) (k : Z) : Z + st :=
  match acts with
  | [] => inr s
  | a :: r => if negb (m_maskb jssp cfg i s a) then inl (1000 * k + 2)%Z
              else match m_step jssp cfg i s a with
                   | None => inl (1000 * k + 7)%Z
                   | Some s' => sw_run jssp cfg i s' r (k + 1)%Z
                   end
  end.
Fixpoint sw_zsum (l : list Z) : Z := match l with [] => 0%Z | x :: r => (x + sw_zsum r)%Z end.
(* r_t = -(L_t - L_(t-1)) within tol, for t = 1, 2, ...: first offending step or 0 *)
Fixpoint sw_steps_ok (prev : Z) (Ls rs : list Z) (tol : Z) (k : Z) : Z :=
  match Ls, rs with
  | L :: Ls', r :: rs' => if (Z.abs (r + (L - prev)) <=? tol)%Z then sw_steps_ok L Ls' rs' tol (k + 1)%Z else (1000 * k + 17)%Z
  | _, _ => 0%Z
  end.
Definition check_stepwise (c : sw_case) : Z :=
  match c with (jssp, cfg, i, acts, o) =>
    if negb (wfb i && solvableb i && (negb jssp || jssp_wfb i)) then 20%Z
    else match sw_run jssp cfg i (reset i) acts 0 with
         | inl code => code
         | inr s =>
             if negb (done s) then 12%Z
             else match reward i s with
                  | None => 21%Z
                  | Some mr =>
                      let mk := (- mr)%Z in
                      if negb (valid_scheduleb (sinst_of i) (schedule_of s) mk) then 21%Z
                      else match sw_L o with
                           | [] => 19%Z
                           | L0 :: Ls =>
                               let T := Z.of_nat (length acts) in
                               if negb ((length Ls =? length acts) && (length (sw_r o) =? length acts) && (0 <? sw_scale o)%Z
                                        && (0 <=? sw_tol o)%Z) then 19%Z
                               else if negb (Z.abs (L0 - sw_zsum (sw_r o) - sw_scale o * mk) <=? sw_tol o * T)%Z then 4%Z
                               else let c17 := sw_steps_ok L0 Ls (sw_r o) (sw_tol o) 1 in
                                    if negb (c17 =? 0)%Z then c17
                                    else if negb (last Ls L0 =? sw_scale o * mk)%Z then 18%Z
                                    else if negb (sw_sparse o =? mr)%Z then 5%Z else 0%Z
                           end
                  end
         end
  end.

(* self-test on the example episode [1; 4; 2] of Env/FJSP.v (makespan 5), with a made-up potential 6, 6, 5.5, 5 (scale 2):
   rewards 0, 0.5, 0.5; then the same rewards with the sign convention of the step reward flipped *)
Example stepwise_selftest :
  check_stepwise (false, true, ex_i, [1; 4; 2], mksw 2 [12; 12; 11; 10]%Z [0; 1; 1]%Z 0 (-5)) = 0%Z /\
  check_stepwise (false, true, ex_i, [1; 4; 2], mksw 2 [12; 12; 11; 10]%Z [-24; -23; -21]%Z 0 (-5)) = 4%Z /\
  check_stepwise (false, true, ex_i, [1; 4; 2], mksw 2 [12; 12; 11; 10]%Z [0; 2; 0]%Z 0 (-5)) = 2017%Z /\
  check_stepwise (false, true, ex_i, [1; 4; 2], mksw 2 [14; 14; 13; 12]%Z [0; 1; 1]%Z 0 (-5)) = 4%Z /\
  check_stepwise (false, true, ex_i, [1; 4; 2], mksw 2 [12; 12; 11; 10]%Z [0; 1; 1]%Z 0 (-6)) = 5%Z.
Proof. vm_compute. repeat split; reflexivity. Qed.
