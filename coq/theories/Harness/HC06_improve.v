(* Correspondence harness for the C06 unit "improve": check_solution_validity of TSPkoptEnv and
   PDPRuinRepairEnv (both read td["rec_best"], an int64 tensor [B, n]).

   The harness feeds the real checkers arbitrary int64 successor arrays (negative and out-of-range entries
   included), so the models are restated here over [list Z] -- the sort of the code is a sort of integers --
   and proved to coincide with the [list nat] models of Env/ImproveChecker.v (the ones the C06 theorems are
   about) on every array whose entries are in range, and to reject every other array.

   One case = one call of the real checker: (kind, rows of rec_best, returned-without-raising).
   kind 0 = TSPkoptEnv, anything else = PDPRuinRepairEnv.
   Result codes (the specification is judged first, so that a failure is a concrete input):
      0  checker, model and specification agree
     14  the checker raised although every row is valid by the specification
     15  the checker returned although some row is invalid by the specification
     13  verdict consistent with the specification, but the model's verdict differs from the checker's
    114 / 115 = 14 / 15 and, in addition, the model's verdict differs from the checker's
     12  ill-formed case (no rows, rows of different lengths, PDP row of even length): never generated *)
From Coq Require Import ZArith List Bool Lia ZifyBool Arith Permutation.
From RL4CO Require Import Env.Improve Env.ImprovePDP Env.ImproveChecker Env.ImproveCheckerFix.
Import ListNotations.

(* ------------------------------------------------------------------ the sort of the code, on integers *)
Fixpoint insertZ (x : Z) (l : list Z) : list Z :=
  match l with [] => [x] | h :: t => if (x <=? h)%Z then x :: l else h :: insertZ x t end.
Fixpoint isortZ (l : list Z) : list Z := match l with [] => [] | x :: t => insertZ x (isortZ t) end.

Fixpoint listZ_eqb (a b : list Z) : bool :=
  match a, b with
  | [], [] => true
  | x :: a', y :: b' => Z.eqb x y && listZ_eqb a' b'
  | _, _ => false
  end.

Lemma listZ_eqb_eq a b : listZ_eqb a b = true <-> a = b.
Proof.
  revert b; induction a as [|x a IH]; intros [|y b]; simpl; try (split; [discriminate|discriminate]); [tauto|].
  rewrite andb_true_iff, Z.eqb_eq, IH. split; [intros [-> ->]; reflexivity|intros H; inversion H; auto].
Qed.

Lemma insertZ_perm x l : Permutation (insertZ x l) (x :: l).
Proof.
  induction l as [|h t IH]; simpl; [apply Permutation_refl|].
  destruct (x <=? h)%Z; [apply Permutation_refl|].
  eapply Permutation_trans; [apply perm_skip; exact IH|apply perm_swap].
Qed.

Lemma isortZ_perm l : Permutation (isortZ l) l.
Proof.
  induction l as [|x t IH]; simpl; [constructor|].
  eapply Permutation_trans; [apply insertZ_perm|apply perm_skip; exact IH].
Qed.

Lemma insertZ_of_nat x l : insertZ (Z.of_nat x) (map Z.of_nat l) = map Z.of_nat (insert x l).
Proof.
  induction l as [|h t IH]; [reflexivity|]. cbn [map insertZ insert].
  replace (Z.of_nat x <=? Z.of_nat h)%Z with (Nat.leb x h) by lia.
  destruct (Nat.leb x h); [reflexivity|]. cbn [map]. rewrite IH. reflexivity.
Qed.

Lemma isortZ_of_nat l : isortZ (map Z.of_nat l) = map Z.of_nat (isort l).
Proof. induction l as [|x t IH]; [reflexivity|]. cbn [map isortZ isort]. rewrite IH. apply insertZ_of_nat. Qed.

Lemma listZ_eqb_of_nat a b : listZ_eqb (map Z.of_nat a) (map Z.of_nat b) = list_eqb a b.
Proof.
  revert b; induction a as [|x a IH]; intros [|y b]; try reflexivity. cbn [map listZ_eqb list_eqb].
  rewrite IH. replace (Z.of_nat x =? Z.of_nat y)%Z with (Nat.eqb x y) by lia. reflexivity.
Qed.

(* ------------------------------------------------------------------ the two checkers on int64 arrays *)
(* assert (arange(n) == rec_best.sort()[0]).all() *)
Definition tspk_checker_z (rec : list Z) : bool :=
  listZ_eqb (map Z.of_nat (seq 0 (length rec))) (isortZ rec).

(* every entry is a node index: the condition under which rec[...] of the code reads what [nth] reads *)
Definition in_rangeb (rec : list Z) : bool :=
  forallb (fun z => (0 <=? z)%Z && (z <? Z.of_nat (length rec))%Z) rec.

(* the permutation test comes first in the code, so the visited_time loop only ever indexes in range *)
Definition pdp_checker_z (rec : list Z) : bool :=
  if tspk_checker_z rec then pdp_checker (map Z.to_nat rec) else false.

Lemma of_to_nat_in_range rec : in_rangeb rec = true -> map Z.of_nat (map Z.to_nat rec) = rec.
Proof.
  unfold in_rangeb. generalize (length rec). intros n H. induction rec as [|z t IH]; [reflexivity|].
  cbn [forallb] in H. apply andb_prop in H as [Hz Ht]. cbn [map]. rewrite (IH Ht). f_equal. lia.
Qed.

Lemma in_rangeb_of_nat_iff rec :
  in_rangeb (map Z.of_nat rec) = forallb (fun v => Nat.ltb v (length rec)) rec.
Proof.
  unfold in_rangeb. rewrite map_length. generalize (length rec). intros n.
  induction rec as [|x t IH]; [reflexivity|]. cbn [map forallb]. rewrite IH. f_equal. lia.
Qed.

Theorem tspk_checker_z_of_nat rec : tspk_checker_z (map Z.of_nat rec) = tspk_checker rec.
Proof.
  unfold tspk_checker_z, tspk_checker. rewrite map_length, isortZ_of_nat. apply listZ_eqb_of_nat.
Qed.

(* an accepted array has all its entries in range (so out-of-range and negative entries are rejected) *)
Theorem tspk_checker_z_in_range rec : tspk_checker_z rec = true -> in_rangeb rec = true.
Proof.
  unfold tspk_checker_z. rewrite listZ_eqb_eq. intros H.
  assert (P : Permutation (map Z.of_nat (seq 0 (length rec))) rec) by (rewrite H; apply isortZ_perm).
  unfold in_rangeb. apply forallb_forall. intros z Hz.
  apply (Permutation_in _ (Permutation_sym P)) in Hz. apply in_map_iff in Hz as [v [<- Hv]].
  apply in_seq in Hv. lia.
Qed.

(* the int64 model IS the nat model of Env/ImproveChecker.v on in-range arrays, and rejects all others *)
Theorem tspk_checker_z_char rec :
  tspk_checker_z rec = (if in_rangeb rec then tspk_checker (map Z.to_nat rec) else false).
Proof.
  destruct (in_rangeb rec) eqn:E.
  - rewrite <- (of_to_nat_in_range rec E) at 1. apply tspk_checker_z_of_nat.
  - destruct (tspk_checker_z rec) eqn:C; [|reflexivity]. apply tspk_checker_z_in_range in C. congruence.
Qed.

Theorem pdp_checker_z_char rec :
  pdp_checker_z rec = (if in_rangeb rec then pdp_checker (map Z.to_nat rec) else false).
Proof.
  unfold pdp_checker_z. rewrite tspk_checker_z_char. destruct (in_rangeb rec); [|reflexivity].
  unfold pdp_checker. destruct (tspk_checker (map Z.to_nat rec)); reflexivity.
Qed.

Lemma to_of_nat_map rec : map Z.to_nat (map Z.of_nat rec) = rec.
Proof. induction rec as [|x t IH]; [reflexivity|]. cbn [map]. rewrite IH, Nat2Z.id. reflexivity. Qed.

Theorem pdp_checker_z_of_nat rec : pdp_checker_z (map Z.of_nat rec) = pdp_checker rec.
Proof.
  unfold pdp_checker_z. rewrite tspk_checker_z_of_nat, to_of_nat_map.
  unfold pdp_checker. destruct (tspk_checker rec); reflexivity.
Qed.

(* ------------------------------------------------------------------ the independent specification *)
(* a successor array is a solution iff all entries are node indices and it is one cycle through all nodes
   (Env/Improve.v [is_tour]); for PDP, in addition, every pickup j precedes its delivery j + n/2
   (Env/ImprovePDP.v [pdp_valid]) *)
Definition spec_tour_z (rec : list Z) : bool := if in_rangeb rec then is_tourb (map Z.to_nat rec) else false.
Definition spec_pdp_z (rec : list Z) : bool := if in_rangeb rec then pdp_validb (map Z.to_nat rec) else false.

Lemma is_tourb_in_range rec : is_tourb rec = true -> in_rangeb (map Z.of_nat rec) = true.
Proof.
  intros H. apply is_tourb_spec in H. rewrite in_rangeb_of_nat_iff. apply forallb_forall. intros v Hv.
  apply Nat.ltb_lt. apply In_nth with (d := 0) in Hv as [i [Hi <-]].
  apply (is_tour_in_range rec H i Hi).
Qed.

(* the Z specification is the nat specification: nothing is lost by the in-range guard *)
Theorem spec_tour_z_of_nat rec : spec_tour_z (map Z.of_nat rec) = is_tourb rec.
Proof.
  unfold spec_tour_z. rewrite to_of_nat_map. destruct (is_tourb rec) eqn:E.
  - rewrite (is_tourb_in_range rec E). reflexivity.
  - destruct (in_rangeb (map Z.of_nat rec)); reflexivity.
Qed.

Theorem spec_pdp_z_of_nat rec : spec_pdp_z (map Z.of_nat rec) = pdp_validb rec.
Proof.
  unfold spec_pdp_z. rewrite to_of_nat_map. destruct (pdp_validb rec) eqn:E.
  - unfold pdp_validb in E. apply andb_prop in E as [E _]. rewrite (is_tourb_in_range rec E). reflexivity.
  - destruct (in_rangeb (map Z.of_nat rec)); reflexivity.
Qed.

(* ------------------------------------------------------------------ one call of the real checker *)
Definition model_row (kind : nat) (rec : list Z) : bool :=
  match kind with O => tspk_checker_z rec | _ => pdp_checker_z rec end.
Definition spec_row (kind : nat) (rec : list Z) : bool :=
  match kind with O => spec_tour_z rec | _ => spec_pdp_z rec end.

(* well-formed call: at least one row, all rows of one length (a tensor), odd length for PDP (depot + pairs) *)
Definition wf_case (kind : nat) (rows : list (list Z)) : bool :=
  match rows with
  | [] => false
  | r0 :: _ =>
      forallb (fun r => Nat.eqb (length r) (length r0)) rows
      && match kind with O => true | _ => Nat.odd (length r0) end
  end.

Definition chk_case := (nat * list (list Z) * bool)%type.

(* the code's assert is over the whole batch: it returns iff every row passes *)
Definition check_verdict (c : chk_case) : Z :=
  match c with (kind, rows, accepted) =>
    if negb (wf_case kind rows) then 12%Z else
    let spec := forallb (spec_row kind) rows in
    let model := forallb (model_row kind) rows in
    let differs := negb (Bool.eqb model accepted) in
    if accepted && negb spec then (if differs then 115%Z else 15%Z)
    else if negb accepted && spec then (if differs then 114%Z else 14%Z)
    else if differs then 13%Z else 0%Z
  end.

(* ------------------------------------------------------------------ the REPAIRED checkers (Env/ImproveCheckerFix.v)
   Not what the current code does: [check_verdict_fix] is the function the harness switches to (MODEL_OF_CODE in
   vt/props/c06_improve.py) once the repair -- assert (visited_time > 0).all() after the walk from node 0 -- is
   applied to /repo.  For these models acceptance is EXACTLY the specification (tspk_checker_fix_exact,
   pdp_checker_fix_exact), so codes 14 / 15 can then only come together with a model difference. *)
Definition tspk_checker_fix_z (rec : list Z) : bool :=
  if tspk_checker_z rec then tspk_checker_fix (map Z.to_nat rec) else false.
Definition pdp_checker_fix_z (rec : list Z) : bool :=
  if tspk_checker_z rec then pdp_checker_fix (map Z.to_nat rec) else false.

Theorem tspk_checker_fix_z_is_spec rec : tspk_checker_fix_z rec = spec_tour_z rec.
Proof.
  unfold tspk_checker_fix_z, spec_tour_z. rewrite tspk_checker_z_char. destruct (in_rangeb rec); [|reflexivity].
  destruct (tspk_checker (map Z.to_nat rec)) eqn:C.
  - destruct (tspk_checker_fix (map Z.to_nat rec)) eqn:F; destruct (is_tourb (map Z.to_nat rec)) eqn:S; try reflexivity.
    + apply tspk_checker_fix_exact, is_tourb_spec in F. congruence.
    + apply is_tourb_spec, tspk_checker_fix_exact in S. congruence.
  - destruct (is_tourb (map Z.to_nat rec)) eqn:S; [|reflexivity].
    apply is_tourb_spec, tspk_checker_complete in S. congruence.
Qed.

Theorem pdp_checker_fix_z_is_spec rec h :
  length rec = (2 * h + 1)%nat -> pdp_checker_fix_z rec = spec_pdp_z rec.
Proof.
  intros Hn. assert (Hn' : length (map Z.to_nat rec) = (2 * h + 1)%nat) by (rewrite map_length; exact Hn).
  unfold pdp_checker_fix_z, spec_pdp_z. rewrite tspk_checker_z_char. destruct (in_rangeb rec); [|reflexivity].
  destruct (pdp_checker_fix (map Z.to_nat rec)) eqn:F; destruct (pdp_validb (map Z.to_nat rec)) eqn:S.
  - destruct (tspk_checker (map Z.to_nat rec)) eqn:C; [reflexivity|].
    unfold pdp_checker_fix in F. rewrite C in F. discriminate.
  - apply (pdp_checker_fix_exact _ h Hn'), pdp_validb_spec in F. congruence.
  - apply pdp_validb_spec, (pdp_checker_fix_exact _ h Hn') in S. congruence.
  - destruct (tspk_checker (map Z.to_nat rec)); reflexivity.
Qed.

Definition model_row_fix (kind : nat) (rec : list Z) : bool :=
  match kind with O => tspk_checker_fix_z rec | _ => pdp_checker_fix_z rec end.

Definition check_verdict_fix (c : chk_case) : Z :=
  match c with (kind, rows, accepted) =>
    if negb (wf_case kind rows) then 12%Z else
    let spec := forallb (spec_row kind) rows in
    let model := forallb (model_row_fix kind) rows in
    let differs := negb (Bool.eqb model accepted) in
    if accepted && negb spec then (if differs then 115%Z else 15%Z)
    else if negb accepted && spec then (if differs then 114%Z else 14%Z)
    else if differs then 13%Z else 0%Z
  end.

Example hc06i_ex_fix :
  map check_verdict_fix
      [ (0, [[1; 0; 3; 2]]%Z, false); (1, [[3; 2; 1; 4; 0]]%Z, false);   (* the two witnesses: rejected, as they should *)
        (0, [[1; 0; 3; 2]]%Z, true);                                     (* the current code's verdict *)
        (0, [[3; 5; 4; 1; 0; 2]]%Z, true); (1, [[2; 5; 1; 6; 3; 4; 0]]%Z, true); (1, [[4; 2; 5; 6; 1; 3; 0]]%Z, false) ]
  = [0; 0; 115; 0; 0; 0]%Z.
Proof. vm_compute. reflexivity. Qed.

(* ------------------------------------------------------------------ examples *)
(* the two refuted soundness witnesses of Properties/C06_improve.v: accepted by the model, invalid *)
Example hc06i_ex_tsp_multicycle : check_verdict (0, [[1; 0; 3; 2]]%Z, true) = 15%Z.
Proof. vm_compute. reflexivity. Qed.
Example hc06i_ex_pdp_multicycle : check_verdict (1, [[3; 2; 1; 4; 0]]%Z, true) = 15%Z.
Proof. vm_compute. reflexivity. Qed.
(* valid tours / faults the checkers do catch *)
Example hc06i_ex_agree :
  map check_verdict
      [ (0, [[3; 5; 4; 1; 0; 2]]%Z, true);                    (* a tour *)
        (0, [[3; 5; 4; 1; 0; 2]; [1; 2; 3; 4; 5; 0]]%Z, true);  (* a batch of tours *)
        (0, [[3; 5; 4; 1; 0; 3]]%Z, false);                   (* duplicate successor *)
        (0, [[3; 5; 4; 1; 0; 6]]%Z, false);                   (* entry = n *)
        (0, [[3; 5; 4; -1; 0; 2]]%Z, false);                  (* negative entry *)
        (0, [[3; 5; 4; 1; 0; 2]; [1; 1; 3; 4; 5; 0]]%Z, false); (* one bad row rejects the batch *)
        (1, [[2; 5; 1; 6; 3; 4; 0]]%Z, true);                 (* valid PDP tour, 3 pairs *)
        (1, [[4; 2; 5; 6; 1; 3; 0]]%Z, false) ]               (* a tour, but a delivery precedes its pickup *)
  = [0; 0; 0; 0; 0; 0; 0; 0]%Z.
Proof. vm_compute. reflexivity. Qed.
Example hc06i_ex_codes :
  map check_verdict
      [ (0, [[3; 5; 4; 1; 0; 2]]%Z, false);     (* valid tour rejected *)
        (0, [[3; 5; 4; 1; 0; 3]]%Z, true);      (* duplicate accepted *)
        (1, [[4; 2; 5; 6; 1; 3; 0]]%Z, true);   (* precedence violation accepted *)
        (1, [[3; 2; 1; 4; 0]]%Z, false);        (* multi-cycle array rejected: right by the spec, not what the model does *)
        (1, [[1; 2; 3; 0]]%Z, true);            (* PDP array of even length *)
        (0, [], true) ]
  = [114; 115; 115; 13; 12; 12]%Z.
Proof. vm_compute. reflexivity. Qed.
