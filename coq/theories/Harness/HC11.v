(* Correspondence harness for C11.  One case = ONE forward pass of the real ConstructivePolicy on a batch, driven by a
   stub decoder whose logits are  z * ln 2  with z an integer hash of (instance seed, actions taken so far, action
   index); the model of Decoding/DecodeLoop.v is run at the executable instance (Z, Qc, 2^z) with the log domain
   (Qc, 1, *, id) on the same inputs and compared with what the pass returned.

   The environment is the REAL one, tabulated along the prefixes the pass visited (TabEnv): the state of a row is the
   list of actions taken so far; mask / done / reward / td["mask"] are looked up in the tables recorded from the real
   env (so replicas of one instance share one table, as they share one instance in the code).  The C11 theorems hold
   for every Env, in particular for this one.

   Result codes:  0 agree
                  1 the model's pass raises (select_best shape / no log-probs collected)
                  2 number of returned rows differs
                  8 the model says some step of the pass raises (forward_ok = false) although the code returned
                  9 the model's get_log_likelihood assertion fails on a returned row although the code returned
       1000 * (row + 1) + 3  returned actions differ
                          + 4  a per-step probability exp(logprob) differs by more than the tolerance
                          + 5  exp(summed log-likelihood) differs (relative tolerance)
                          + 6  reward differs (select_best picked another rollout)
                          + 7  outdict["entropy"] differs from the model's value (Decoding/DecodeLoopEntropy.v at (Qc, lnQ))
                  7 the model says DecodingStrategy.__init__ raises (multistart and multisample ...), the code returned
                 10 the code raised although the model returns

   The configuration travels RAW (multistart, multisample, num_starts, num_samples as handed to the policy, plus
   env.get_num_starts(td)); the model resolves it with C12's strategy_init / hook_num_starts (Decoding/Starts.v) into the
   (multistart, num_starts) the hooks work with.  fuel = max_steps + 1 when the pass was given max_steps; otherwise any
   fuel >= the episode length (DecodeLoopFuel.forward_fuel_independent; the code's default is 1_000_001).             *)
From Coq Require Import List ZArith QArith Qcanon Bool Arith.
From RL4CO Require Import Base.OField Base.OFieldQc Base.EnvSig Decoding.PLTensor Decoding.ProcessLogits Decoding.PLInst
                          Decoding.DecodeLoop Decoding.DecodeLoopInst Decoding.Starts Decoding.Entropy Decoding.EntropyInst
                          Decoding.DecodeLoopEntropy.
Import ListNotations.

Fixpoint eqb_ln (a b : list nat) : bool :=
  match a, b with
  | [], [] => true
  | x :: a', y :: b' => Nat.eqb x y && eqb_ln a' b'
  | _, _ => false
  end.

Fixpoint lookup {V : Type} (k : list nat) (t : list (list nat * V)) : option V :=
  match t with [] => None | (k', v) :: r => if eqb_ln k k' then Some v else lookup k r end.

Record tinst := mk_ti {
  ti_seed : Z;
  ti_scale : Z;                                        (* logits are scale * hash (2 when the temperature is 2) *)
  ti_tab : list (list nat * (list bool * bool));       (* actions so far |-> (action_mask, done) *)
  ti_rew : list (list nat * Z);                        (* full action list |-> reward (scaled integer) *)
  ti_flags : list (list nat * list bool)               (* full action list |-> td["mask"] row ; [] = key absent *)
}.

Definition TabEnv : Env :=
  {| inst := tinst; st := list nat;
     reset := fun _ => [];
     step := fun _ s a => s ++ [a];
     stepok := fun _ _ _ => true;
     mask := fun i s => match lookup s (ti_tab i) with Some md => fst md | None => [] end;
     done := fun i s => match lookup s (ti_tab i) with Some md => snd md | None => true end |}.

(* the stub decoder of vt/props/c11.py *)
Definition zacc (seed : Z) (s : list nat) : Z := fold_left (fun acc a => ((acc * 31 + Z.of_nat a + 7) mod 1009)%Z) s seed.
Definition zhash (seed : Z) (s : list nat) (j : nat) : Z := ((((zacc seed s + 13) * (Z.of_nat j + 3)) mod 23) mod 7 - 3)%Z.
Definition tab_dec (_ : unit) (i : tinst) (s : list nat) : list Z * list bool :=
  let m := mask TabEnv i s in (map (fun j => (ti_scale i * zhash (ti_seed i) s j)%Z) (seq 0 (length m)), m).
Definition tab_rew (i : tinst) (s : list nat) (acts : list nat) : Z :=
  match lookup acts (ti_rew i) with Some r => r | None => 0%Z end.
Definition tab_flags (i : tinst) (s : list nat) : option (list bool) :=
  match ti_flags i with [] => None | t => match lookup s t with Some f => Some f | None => Some [] end end.

Record c11_case := mk11 {
  k_mode : nat;                      (* 0 greedy, 1 sampling, 2 evaluate *)
  k_sa : bool;
  k_rms : bool; k_rmp : bool; k_rns : option Z; k_rnsamp : option Z;   (* multistart, multisample, num_starts, num_samples: RAW *)
  k_dflt : Z;                        (* env.get_num_starts(td) *)
  k_sb : bool; k_fuel : nat;
  k_tm : Z; k_td : Z; k_topk : nat; k_topp : Q;
  k_insts : list tinst; k_starts : list nat; k_ors : list (list nat);
  k_obs : list (list nat * list Q * Q * Z);   (* returned row: actions, exp(logprob) per step, exp(sum), reward *)
  k_tol : Q; k_rtol : Q;
  k_ent : list Q;                    (* outdict["entropy"] per returned row; [] = not recorded *)
  k_etol : Q;
  k_raised : bool                    (* the pass raised before returning (only recorded for DecodingStrategy.__init__'s asserts) *)
}.

(* DecodingStrategy.__init__ + the first block of pre_decoder_hook: the (multistart, num_starts) the hooks work with *)
Definition case_eff (c : c11_case) : option (bool * nat) :=
  match strategy_init (k_rms c) (k_rmp c) (k_rns c) (k_rnsamp c) with
  | None => None
  | Some (ms', mp', ns') => Some (ms', Z.to_nat (hook_num_starts ms' mp' ns' (k_dflt c)))
  end.
Definition k_ms (c : c11_case) : bool := match case_eff c with Some (ms, _) => ms | None => false end.
Definition k_S (c : c11_case) : nat := match case_eff c with Some (_, n) => n | None => O end.

Definition mode_of (n : nat) : mode := match n with O => Greedy | S O => Sampling | _ => Evaluate end.
Definition toQc (q : Q) : Qc := Q2Qc q.
Definition Qcabs (x : Qc) : Qc := if Qcleb 0%Qc x then x else Qcopp x.

Definition case_forward (c : c11_case) :=
  forward QcF Z Z.leb pow2 (fun z => z) (tdiv (k_tm c) (k_td c)) (toQc (k_topp c)) (k_topk c) true
          TabEnv unit tab_dec tab_rew (mode_of (k_mode c)) (k_sa c) (k_ms c) (k_S c) (k_sb c) (k_fuel c)
          (map (fun i => (tt, i)) (k_insts c)) (k_starts c) (k_ors c).
Definition case_ok (c : c11_case) : bool :=
  forward_ok QcF Z Z.leb pow2 (fun z => z) (tdiv (k_tm c) (k_td c)) (toQc (k_topp c)) (k_topk c) true
          TabEnv unit tab_dec (mode_of (k_mode c)) (k_sa c) (k_ms c) (k_S c) (k_fuel c)
          (map (fun i => (tt, i)) (k_insts c)) (k_starts c) (k_ors c).

Definition hps := out_ps QcF TabEnv unit tab_flags.
Definition hll_ok := out_ll_ok QcF TabEnv unit tab_flags.
Definition hrew := out_reward QcF TabEnv unit tab_rew.

Fixpoint ps_close (tol : Qc) (ip : list Q) (mp : list Qc) : bool :=
  match ip, mp with
  | [], [] => true
  | x :: ip', y :: mp' => Qcleb (Qcabs (toQc x - y)%Qc) tol && ps_close tol ip' mp'
  | _, _ => false
  end.

Fixpoint check_rows (tol rtol : Qc) (k : Z) (outs : list (brow QcF TabEnv unit))
         (obs : list (list nat * list Q * Q * Z)) : Z :=
  match outs, obs with
  | o :: outs', (acts, ips, ill, irew) :: obs' =>
      if negb (eqb_ln (r_acts (snd o)) acts) then (1000 * k + 3)%Z
      else if negb (hll_ok o) then 9%Z
      else if negb (ps_close tol ips (hps o)) then (1000 * k + 4)%Z
      else let P := fprod QcF (hps o) in
           if negb (Qcleb (Qcabs (toQc ill - P)%Qc) (rtol * P)%Qc) then (1000 * k + 5)%Z
           else if negb (Z.eqb (hrew o) irew) then (1000 * k + 6)%Z
           else check_rows tol rtol (k + 1)%Z outs' obs'
  | [], [] => 0%Z
  | _, _ => 2%Z
  end.

Definition hent := out_entropyK QcF TabEnv unit lnQ.
Fixpoint check_ents (tol : Qc) (k : Z) (outs : list (brow QcF TabEnv unit)) (ents : list Q) : Z :=
  match outs, ents with
  | _, [] => 0%Z
  | o :: outs', x :: ents' =>
      if Qcleb (Qcabs (toQc x - hent o)%Qc) tol then check_ents tol (k + 1)%Z outs' ents' else (1000 * k + 7)%Z
  | [], _ :: _ => 2%Z
  end.

Definition check_c11 (c : c11_case) : Z :=
  match case_eff c with
  | None => if k_raised c then 0%Z else 7%Z
  | Some _ =>
      if k_raised c then 10%Z else
      match case_forward c with
      | None => 1%Z
      | Some outs =>
          if negb (Nat.eqb (length outs) (length (k_obs c))) then 2%Z
          else if negb (case_ok c) then 8%Z
          else match check_rows (toQc (k_tol c)) (toQc (k_rtol c)) 1%Z outs (k_obs c) with
               | 0%Z => check_ents (toQc (k_etol c)) 1%Z outs (k_ent c)
               | code => code
               end
      end
  end.

(* ------------------------------------------------------------------ self-test: a two-node-plus-depot instance whose
   tables are written by hand; logits of the stub at the empty prefix with seed 5 *)
Example zhash_selftest : map (zhash 5 []) [0; 1; 2]%nat = [-2; 0; -3]%Z /\ zacc 5 [1]%nat = 163%Z.
Proof. vm_compute. split; reflexivity. Qed.

Definition st_inst : tinst :=
  mk_ti 5 1 [([], ([false; true; true], false)); ([1]%nat, ([false; false; true], false));
             ([1; 2]%nat, ([true; false; false], true))]
        [([1; 2]%nat, (-7)%Z)] [].
(* greedy: step 0 logits (.,0,-3) -> action 1 with probability 1 / (1 + 1/8) = 8/9; step 1: single feasible action *)
Example check_c11_selftest :
  check_c11 (mk11 0 false false false None None 3 false 50 1 1 0 0 [st_inst] [] [[]]
                  [([1; 2]%nat, [8 # 9; 1]%Q, (8 # 9)%Q, (-7)%Z)] (1 # 100000) (1 # 100000) [] 0 false) = 0%Z
  /\ check_c11 (mk11 0 false false false None None 3 false 50 1 1 0 0 [st_inst] [] [[]]
                  [([1; 2]%nat, [7 # 9; 1]%Q, (8 # 9)%Q, (-7)%Z)] (1 # 100000) (1 # 100000) [] 0 false) = 1004%Z
  /\ check_c11 (mk11 0 false false false None None 3 false 50 1 1 0 0 [st_inst] [] [[]]
                  [([1; 2]%nat, [8 # 9; 1]%Q, (1 # 9)%Q, (-7)%Z)] (1 # 100000) (1 # 100000) [] 0 false) = 1005%Z
  /\ check_c11 (mk11 0 false false false None None 3 false 50 1 1 0 0 [st_inst] [] [[]]
                  [([2; 1]%nat, [8 # 9; 1]%Q, (8 # 9)%Q, (-7)%Z)] (1 # 100000) (1 # 100000) [] 0 false) = 1003%Z.
Proof. vm_compute. repeat split. Qed.

(* store_all_logp: the entropy of the pass is that of the step distribution (8/9, 1/9) = 0.348832...; its negative and its
   half (a mean over the three actions instead of a sum would give a third) are rejected.  select_best=True without replicas
   (multistart=False, num_starts=0) returns the plain rollout; a budget of max_steps = 0 (fuel 1) truncates it;
   multistart and multisample together: the constructor raises *)
Example check_c11_selftest_2 :
  check_c11 (mk11 0 true false false None None 3 false 50 1 1 0 0 [st_inst] [] [[]]
                  [([1; 2]%nat, [8 # 9; 1]%Q, (8 # 9)%Q, (-7)%Z)] (1 # 100000) (1 # 100000) [348832 # 1000000]%Q (1 # 100000) false) = 0%Z
  /\ check_c11 (mk11 0 true false false None None 3 false 50 1 1 0 0 [st_inst] [] [[]]
                  [([1; 2]%nat, [8 # 9; 1]%Q, (8 # 9)%Q, (-7)%Z)] (1 # 100000) (1 # 100000) [-348832 # 1000000]%Q (1 # 100000) false) = 1007%Z
  /\ check_c11 (mk11 0 true false false None None 3 false 50 1 1 0 0 [st_inst] [] [[]]
                  [([1; 2]%nat, [8 # 9; 1]%Q, (8 # 9)%Q, (-7)%Z)] (1 # 100000) (1 # 100000) [116277 # 1000000]%Q (1 # 100000) false) = 1007%Z
  /\ check_c11 (mk11 0 false false false (Some 0%Z) None 3 true 50 1 1 0 0 [st_inst] [] [[]]
                  [([1; 2]%nat, [8 # 9; 1]%Q, (8 # 9)%Q, (-7)%Z)] (1 # 100000) (1 # 100000) [] 0 false) = 0%Z
  /\ check_c11 (mk11 0 false false false None None 3 false 1 1 1 0 0 [st_inst] [] [[]]
                  [([1; 2]%nat, [8 # 9; 1]%Q, (8 # 9)%Q, (-7)%Z)] (1 # 100000) (1 # 100000) [] 0 false) = 1003%Z
  /\ check_c11 (mk11 0 false false false None None 3 false 1 1 1 0 0 [st_inst] [] [[]]
                  [([1]%nat, [8 # 9]%Q, (8 # 9)%Q, 0%Z)] (1 # 100000) (1 # 100000) [] 0 false) = 0%Z
  /\ check_c11 (mk11 0 false true true None None 3 false 50 1 1 0 0 [st_inst] [] [[]] [] (1 # 100000) (1 # 100000) [] 0 true) = 0%Z
  /\ check_c11 (mk11 0 false true true None None 3 false 50 1 1 0 0 [st_inst] [] [[]] [] (1 # 100000) (1 # 100000) [] 0 false) = 7%Z.
Proof. vm_compute. repeat split. Qed.
