(* Correspondence harness for C11.  One case = ONE forward pass of the real ConstructivePolicy on a batch, driven by a
   stub decoder whose logits are  z * ln 2  with z an integer hash of (instance seed, actions taken so far, action
   index); the model of Decoding/DecodeLoop.v is run at the executable instance (Z, Qc, 2^z) with the log domain
   (Qc, 1, *, id) on the same inputs and compared with what the pass returned.

   The environment is the REAL one, tabulated along the prefixes the pass visited (TabEnv): the state of a row is the
   list of actions taken so far; mask / done / reward / td["mask"] are looked up in the tables recorded from the real
   env (so replicas of one instance share one table, as they share one instance in the code).  The C11 theorems hold
   for every Env, in particular for this one.

   Result codes:  0 agree
                  1 the model's pass raises (select_best shape / no log-probs collected)
                  2 number of returned rows differs
                  8 the model says some step of the pass raises (forward_ok = false) although the code returned
                  9 the model's get_log_likelihood assertion fails on a returned row although the code returned
       1000 * (row + 1) + 3  returned actions differ
                          + 4  a per-step probability exp(logprob) differs by more than the tolerance
                          + 5  exp(summed log-likelihood) differs (relative tolerance)
                          + 6  reward differs (select_best picked another rollout)                                  *)
From Coq Require Import List ZArith QArith Qcanon Bool Arith.
From RL4CO Require Import Base.OField Base.OFieldQc Base.EnvSig Decoding.PLTensor Decoding.ProcessLogits Decoding.PLInst
                          Decoding.DecodeLoop Decoding.DecodeLoopInst.
Import ListNotations.

Fixpoint eqb_ln (a b : list nat) : bool :=
  match a, b with
  | [], [] => true
  | x :: a', y :: b' => Nat.eqb x y && eqb_ln a' b'
  | _, _ => false
  end.

Fixpoint lookup {V : Type} (k : list nat) (t : list (list nat * V)) : option V :=
  match t with [] => None | (k', v) :: r => if eqb_ln k k' then Some v else lookup k r end.

Record tinst := mk_ti {
  ti_seed : Z;
  ti_scale : Z;                                        (* logits are scale * hash (2 when the temperature is 2) *)
  ti_tab : list (list nat * (list bool * bool));       (* actions so far |-> (action_mask, done) *)
  ti_rew : list (list nat * Z);                        (* full action list |-> reward (scaled integer) *)
  ti_flags : list (list nat * list bool)               (* full action list |-> td["mask"] row ; [] = key absent *)
}.

Definition TabEnv : Env :=
  {| inst := tinst; st := list nat;
     reset := fun _ => [];
     step := fun _ s a => s ++ [a];
     stepok := fun _ _ _ => true;
     mask := fun i s => match lookup s (ti_tab i) with Some md => fst md | None => [] end;
     done := fun i s => match lookup s (ti_tab i) with Some md => snd md | None => true end |}.

(* the stub decoder of vt/props/c11.py *)
Definition zacc (seed : Z) (s : list nat) : Z := fold_left (fun acc a => ((acc * 31 + Z.of_nat a + 7) mod 1009)%Z) s seed.
Definition zhash (seed : Z) (s : list nat) (j : nat) : Z := ((((zacc seed s + 13) * (Z.of_nat j + 3)) mod 23) mod 7 - 3)%Z.
Definition tab_dec (_ : unit) (i : tinst) (s : list nat) : list Z * list bool :=
  let m := mask TabEnv i s in (map (fun j => (ti_scale i * zhash (ti_seed i) s j)%Z) (seq 0 (length m)), m).
Definition tab_rew (i : tinst) (s : list nat) (acts : list nat) : Z :=
  match lookup acts (ti_rew i) with Some r => r | None => 0%Z end.
Definition tab_flags (i : tinst) (s : list nat) : option (list bool) :=
  match ti_flags i with [] => None | t => match lookup s t with Some f => Some f | None => Some [] end end.

Record c11_case := mk11 {
  k_mode : nat;                      (* 0 greedy, 1 sampling, 2 evaluate *)
  k_sa : bool; k_ms : bool; k_S : nat; k_sb : bool; k_fuel : nat;
  k_tm : Z; k_td : Z; k_topk : nat; k_topp : Q;
  k_insts : list tinst; k_starts : list nat; k_ors : list (list nat);
  k_obs : list (list nat * list Q * Q * Z);   (* returned row: actions, exp(logprob) per step, exp(sum), reward *)
  k_tol : Q; k_rtol : Q
}.

Definition mode_of (n : nat) : mode := match n with O => Greedy | S O => Sampling | _ => Evaluate end.
Definition toQc (q : Q) : Qc := Q2Qc q.
Definition Qcabs (x : Qc) : Qc := if Qcleb 0%Qc x then x else Qcopp x.

Definition case_forward (c : c11_case) :=
  forward QcF Z Z.leb pow2 (fun z => z) (tdiv (k_tm c) (k_td c)) (toQc (k_topp c)) (k_topk c) true
          TabEnv unit tab_dec tab_rew (mode_of (k_mode c)) (k_sa c) (k_ms c) (k_S c) (k_sb c) (k_fuel c)
          (map (fun i => (tt, i)) (k_insts c)) (k_starts c) (k_ors c).
Definition case_ok (c : c11_case) : bool :=
  forward_ok QcF Z Z.leb pow2 (fun z => z) (tdiv (k_tm c) (k_td c)) (toQc (k_topp c)) (k_topk c) true
          TabEnv unit tab_dec (mode_of (k_mode c)) (k_sa c) (k_ms c) (k_S c) (k_fuel c)
          (map (fun i => (tt, i)) (k_insts c)) (k_starts c) (k_ors c).

Definition hps := out_ps QcF TabEnv unit tab_flags.
Definition hll_ok := out_ll_ok QcF TabEnv unit tab_flags.
Definition hrew := out_reward QcF TabEnv unit tab_rew.

Fixpoint ps_close (tol : Qc) (ip : list Q) (mp : list Qc) : bool :=
  match ip, mp with
  | [], [] => true
  | x :: ip', y :: mp' => Qcleb (Qcabs (toQc x - y)%Qc) tol && ps_close tol ip' mp'
  | _, _ => false
  end.

Fixpoint check_rows (tol rtol : Qc) (k : Z) (outs : list (brow QcF TabEnv unit))
         (obs : list (list nat * list Q * Q * Z)) : Z :=
  match outs, obs with
  | o :: outs', (acts, ips, ill, irew) :: obs' =>
      if negb (eqb_ln (r_acts (snd o)) acts) then (1000 * k + 3)%Z
      else if negb (hll_ok o) then 9%Z
      else if negb (ps_close tol ips (hps o)) then (1000 * k + 4)%Z
      else let P := fprod QcF (hps o) in
           if negb (Qcleb (Qcabs (toQc ill - P)%Qc) (rtol * P)%Qc) then (1000 * k + 5)%Z
           else if negb (Z.eqb (hrew o) irew) then (1000 * k + 6)%Z
           else check_rows tol rtol (k + 1)%Z outs' obs'
  | [], [] => 0%Z
  | _, _ => 2%Z
  end.

Definition check_c11 (c : c11_case) : Z :=
  match case_forward c with
  | None => 1%Z
  | Some outs =>
      if negb (Nat.eqb (length outs) (length (k_obs c))) then 2%Z
      else if negb (case_ok c) then 8%Z
      else check_rows (toQc (k_tol c)) (toQc (k_rtol c)) 1%Z outs (k_obs c)
  end.

(* ------------------------------------------------------------------ self-test: a two-node-plus-depot instance whose
   tables are written by hand; logits of the stub at the empty prefix with seed 5 *)
Example zhash_selftest : map (zhash 5 []) [0; 1; 2]%nat = [-2; 0; -3]%Z /\ zacc 5 [1]%nat = 163%Z.
Proof. vm_compute. split; reflexivity. Qed.

Definition st_inst : tinst :=
  mk_ti 5 1 [([], ([false; true; true], false)); ([1]%nat, ([false; false; true], false));
             ([1; 2]%nat, ([true; false; false], true))]
        [([1; 2]%nat, (-7)%Z)] [].
(* greedy: step 0 logits (.,0,-3) -> action 1 with probability 1 / (1 + 1/8) = 8/9; step 1: single feasible action *)
Example check_c11_selftest :
  check_c11 (mk11 0 false false 0 false 50 1 1 0 0 [st_inst] [] [[]]
                  [([1; 2]%nat, [8 # 9; 1]%Q, (8 # 9)%Q, (-7)%Z)] (1 # 100000) (1 # 100000)) = 0%Z
  /\ check_c11 (mk11 0 false false 0 false 50 1 1 0 0 [st_inst] [] [[]]
                  [([1; 2]%nat, [7 # 9; 1]%Q, (8 # 9)%Q, (-7)%Z)] (1 # 100000) (1 # 100000)) = 1004%Z
  /\ check_c11 (mk11 0 false false 0 false 50 1 1 0 0 [st_inst] [] [[]]
                  [([1; 2]%nat, [8 # 9; 1]%Q, (1 # 9)%Q, (-7)%Z)] (1 # 100000) (1 # 100000)) = 1005%Z
  /\ check_c11 (mk11 0 false false 0 false 50 1 1 0 0 [st_inst] [] [[]]
                  [([2; 1]%nat, [8 # 9; 1]%Q, (8 # 9)%Q, (-7)%Z)] (1 # 100000) (1 # 100000)) = 1003%Z.
Proof. vm_compute. repeat split. Qed.
