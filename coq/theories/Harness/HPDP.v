(* Correspondence harness for PDP (C01-C06), both values of force_start_at_depot: the model against recorded traces
   of PDPEnv, and the exact specification evaluated on the implementation's own episodes. *)
From Coq Require Import ZArith List Bool Lia Arith.
From RL4CO Require Import Base.Num Base.EnvSig Spec.Tours Env.TourCore Env.PDP Env.PDPProofs Harness.HEnv Harness.HTour Harness.HBook.
Import ListNotations.
Open Scope Z_scope.

(* observed final current_node, i of the row (None when not recorded) *)
Definition pdp_obs := option (nat * nat).
Definition pdp_case := ((pdp_inst * pdp_obs) * list tstep * list bool * (Z * Z) * bool * bool)%type.
Definition mk_pdp (n : nat) (f : bool) (m : list (list Z)) (o : pdp_obs) : pdp_inst * pdp_obs :=
  ({| pgen_n := n; pforce := f; pdist := m |}, o).

Definition c_inst (c : pdp_case) := match c with ((i, _), _, _, _, _, _) => i end.
Definition c_obs (c : pdp_case) := match c with ((_, o), _, _, _, _, _) => o end.
Definition c_trace (c : pdp_case) := match c with (_, t, _, _, _, _) => t end.
Definition c_final (c : pdp_case) := match c with (_, _, f, _, _, _) => f end.
Definition c_rew (c : pdp_case) := match c with (_, _, _, r, _, _) => r end.
Definition c_complete (c : pdp_case) := match c with (_, _, _, _, b, _) => b end.
Definition c_checker (c : pdp_case) := match c with (_, _, _, _, _, b) => b end.

Definition check_wf (c : pdp_case) : Z := if pdp_wfb (c_inst c) then 0 else 20.

Definition check_C01 (c : pdp_case) : Z :=
  let tr := cut_done (c_trace c) in
  (* the specification on the implementation's own completed episode first (6), then the mask/done comparison *)
  if c_complete c && negb (pdp_feasibleb (c_inst c) (trace_actions tr)) then 6
  else let r := check_trace (E:=PDP) (c_inst c) 0 tr in
       if negb (r =? 0) then r else check_wf c.

Definition check_C02 (c : pdp_case) : Z :=
  let tr := cut_done (c_trace c) in
  let r := c02_fixed (pdp_bound_of (c_inst c)) tr (c_final c) (c_complete c) in
  if negb (r =? 0) then r
  else if negb (c_complete c) then 12
  else let r2 := check_trace (E:=PDP) (c_inst c) 2 tr in
       if negb (r2 =? 0) then r2 else check_wf c.

Definition check_C03 (c : pdp_case) : Z :=
  let acts := trace_actions (c_trace c) in
  if negb (c_complete c) || negb (pdp_rewardok (c_inst c) acts) then 0
  else if negb (zabs_le (fst (c_rew c)) (pdp_objective (c_inst c) acts) (snd (c_rew c))) then 4
  else if negb (zabs_le (fst (c_rew c)) (pdp_reward (c_inst c) acts) (snd (c_rew c))) then 5
  else check_wf c.

Definition check_C04 (c : pdp_case) : Z :=
  let r := check_C02 c in
  if negb (r =? 0) then r
  else match c_obs c with
       | None => 0
       | Some (cu, k) =>
           let s := run (E:=PDP) (c_inst c) (trace_actions (c_trace c)) in
           if Nat.eqb cu (pcur s) && Nat.eqb k (pcnt s) then 0 else 21
       end.

Definition check_C05 (c : pdp_case) : Z := check_trace (E:=PDP) (c_inst c) 1 (cut_done (c_trace c)).

Definition verdict_codes (i : pdp_inst) (acts : list nat) (verdict : bool) : Z :=
  if pdp_feasibleb i acts && negb verdict then 14
  else if negb (pdp_feasibleb i acts) && verdict then 15
  else if negb (Bool.eqb (pdp_checker i acts) verdict) then 13
  else 0.
Definition check_C06 (c : pdp_case) : Z :=
  if negb (c_complete c) then 0 else verdict_codes (c_inst c) (trace_actions (c_trace c)) (c_checker c).
Definition check_C06_sol (c : (pdp_inst * pdp_obs) * list nat * bool) : Z :=
  match c with ((i, _), acts, verdict) => verdict_codes i acts verdict end.

(* ---------------------------------------------------------------- bookkeeping after EVERY step (C02 / C04, see Harness/HBook.v;
   check_C04's code 21 compares the final values only).  Keys, in this order: i (= number of steps taken), current_node
   (= the action just taken), available (bit j = node j) *)
Definition book_obs (s : pdp_st) : list Z := [Z.of_nat (pcnt s); Z.of_nat (pcur s); bitsZ (pavail s)].
Definition book_kinds : list nat := [1; 2; 0]%nat.
Definition pdp_book := ((pdp_inst * pdp_obs) * list Z * list Z * list (nat * list Z))%type.
Definition check_book (c : pdp_book) : Z :=
  match c with (i, tols, o0, tr) => book_check PDP (fst i) book_obs book_kinds tols o0 tr end.
