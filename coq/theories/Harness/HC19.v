(* Correspondence harness for C19.  The models of Data/Persist.v (text codec) and Data/PersistLoad.v (dataset
   loaders, at the computable field Qc) are run by vm_compute on the very inputs the real rl4co functions were
   driven with, and compared with what those functions produced.  Result codes (Z):
     0  agree, and the instance satisfies the hypotheses of the round-trip theorem, whose right-hand side was
        ALSO compared with what the implementation returned (spec-on-impl, inside Coq)
     1  agree; instance outside the theorem's well-formedness (nothing is claimed for it beyond model = code)
     2  agree; well-formed but flexibility < 1 (only the general theorem with an explicit parse hypothesis applies)
     9  input outside the modelled domain (OutOfModel): skipped, counted
    11  model: writer raises, code wrote a file      12  model writes, code raised
    21  header num_jobs / num_machines differ        22  flexibility word differs
    23  number of job lines differs                  24  a job line differs
    31  model: reader raises, code returned          32  model returns, code raised
    41..47  start / end / proc_times / pad_mask / num_jobs / num_machines / max_ops_per_job differ
    50  well-formed, model = code, but the theorem's right-hand side differs from the code's result (cannot happen
        while the proofs check; kept as a tripwire)
    61  loader: raise mismatch   62 batch size   63 keys / order   64 rank or shape of a value   65 a value
    71  character layer: lex + int() of the text differ from what file2lines returned *)
From Coq Require Import String ZArith List Bool Arith QArith Qcanon.
From RL4CO Require Import Base.OField Base.OFieldQc Data.Persist Data.PersistLoad Data.PersistText.
Import ListNotations.
Open Scope Z_scope.

(* ------------------------------------------------------------------------------------------ comparisons *)
Definition tok_eqb (a b : tok) : bool :=
  match a, b with
  | TInt x, TInt y => x =? y
  | TFloat i f, TFloat j g => (i =? j) && (f =? g)
  | TBad, TBad => true
  | _, _ => false
  end.
Fixpoint list_eqb {A} (e : A -> A -> bool) (a b : list A) : bool :=
  match a, b with
  | [], [] => true
  | x :: a', y :: b' => e x y && list_eqb e a' b'
  | _, _ => false
  end.
Definition zz_eqb := list_eqb Z.eqb.
Definition zzz_eqb := list_eqb zz_eqb.

Definition rinst_cmp (m o : rinst) : Z :=
  if negb (zz_eqb (r_start m) (r_start o)) then 41
  else if negb (zz_eqb (r_end m) (r_end o)) then 42
  else if negb (zzz_eqb (r_pt m) (r_pt o)) then 43
  else if negb (list_eqb Bool.eqb (r_pad m) (r_pad o)) then 44
  else if negb (r_nj m =? r_nj o) then 45
  else if negb (r_nm m =? r_nm o) then 46
  else if negb (r_mopj m =? r_mopj o) then 47
  else 0.

Definition read_cmp (m : res rinst) (o : option rinst) : Z :=
  match m, o with
  | OutOfModel, _ => 9
  | Raises, None => 0
  | Raises, Some _ => 31
  | Ok _, None => 32
  | Ok a, Some b => rinst_cmp a b
  end.

(* header: first two words exactly, third word exactly unless [tie] (decimal tie of a non-dyadic quotient) *)
Definition header_cmp (tie : bool) (m o : list tok) : Z :=
  match m, o with
  | [a; b; c], [a'; b'; c'] =>
      if negb (tok_eqb a a' && tok_eqb b b') then 21
      else if negb tie && negb (tok_eqb c c') then 22 else 0
  | _, _ => 21
  end.

Definition file_cmp (tie : bool) (m o : list (list tok)) : Z :=
  match m, o with
  | hm :: lm, ho :: lo =>
      let h := header_cmp tie hm ho in
      if negb (h =? 0) then h
      else if negb (Nat.eqb (length lm) (length lo)) then 23
      else if negb (list_eqb (list_eqb tok_eqb) lm lo) then 24 else 0
  | _, _ => 23
  end.

(* ------------------------------------------------------------------------------------------ FJSP write + read *)
Record fcase := FC {
  fc_g : ginst;                               (* one generator row, as integers *)
  fc_mo : option Z;                           (* max_ops handed to read() *)
  fc_tie : bool;                              (* the flexibility quotient is a non-dyadic decimal tie *)
  fc_file : option (list (list tok));         (* what write_one wrote (None = it raised) *)
  fc_read : option rinst                      (* what read(file, max_ops) returned (None = it raised) *)
}.

Definition mo_okb (mo : option Z) (total : Z) : bool := match mo with None => true | Some m => total <=? m end.

Definition check_fjsp (c : fcase) : Z :=
  let g := fc_g c in
  match fjsp_write fmt5 (reset_view g), fc_file c with
  | OutOfModel, _ => 9
  | Raises, Some _ => 11
  | Ok _, None => 12
  | Raises, None => 1                          (* rejected by both; necessarily outside well-formedness *)
  | Ok fm, Some fo =>
      let d := file_cmp (fc_tie c) fm fo in
      if negb (d =? 0) then d
      else
        let r := read_cmp (fjsp_read (fc_mo c) fo) (fc_read c) in
        if negb (r =? 0) then r
        else if wf_fjspb g then
          if mo_okb (fc_mo c) (g_total g) then
            match fc_read c with
            | Some o =>
                let e := rinst_cmp (repad (Z.to_nat (read_width (fc_mo c) (g_total g))) g) o in
                if negb (e =? 0) then 50
                else if count_real (g_pad g) <=? count_pos (g_pt g) then 0 else 2
            | None => 50
            end
          else (match fc_read c with None => (if count_real (g_pad g) <=? count_pos (g_pt g) then 0 else 2) | Some _ => 50 end)
        else 1
  end.

(* ------------------------------------------------------------------------------------------ readers on arbitrary files *)
Record rcase := RC {
  rc_kind : nat;                              (* 0 = fjsp.parser.read, 1 = jssp.parser.read *)
  rc_mo : option Z;
  rc_file : list (list tok);
  rc_read : option rinst
}.
Definition check_read (c : rcase) : Z :=
  read_cmp (match rc_kind c with O => fjsp_read (rc_mo c) (rc_file c) | _ => jssp_read (rc_mo c) (rc_file c) end)
           (rc_read c).

(* ------------------------------------------------------------------------------------------ JSSP format + read *)
Record jcase := JC {
  jc_g : ginst;
  jc_mo : option Z;
  jc_file : list (list tok);                  (* the file the harness rendered from the instance (documented format) *)
  jc_read : option rinst
}.
Definition check_jssp (c : jcase) : Z :=
  let g := jc_g c in
  let fm := jssp_format g in
  let d := match fm, jc_file c with
           | hm :: lm, ho :: lo =>
               if negb (list_eqb tok_eqb hm ho) then 21
               else if negb (Nat.eqb (length lm) (length lo)) then 23
               else if negb (list_eqb (list_eqb tok_eqb) lm lo) then 24 else 0
           | _, _ => 23
           end in
  if negb (d =? 0) then d
  else
    let r := read_cmp (jssp_read (jc_mo c) (jc_file c)) (jc_read c) in
    if negb (r =? 0) then r
    else if wf_jsspb g then
      if mo_okb (jc_mo c) (g_total g) then
        match jc_read c with
        | Some o => if negb (rinst_cmp (repad (Z.to_nat (read_width (jc_mo c) (g_total g))) g) o =? 0) then 50 else 0
        | None => 50
        end
      else (match jc_read c with None => 0 | Some _ => 50 end)
    else 1.

(* ------------------------------------------------------------------------------------------ loaders, at Qc *)
Definition arrq := @arr QcF.
Definition npzq := list (string * arrq).

Definition qclose (tol x y : Qc) : bool := Qcleb (x - y) tol && Qcleb (y - x) tol.
Definition v_close tol := list_eqb (qclose tol).
Definition m_close tol := list_eqb (v_close tol).
Definition t_close tol := list_eqb (m_close tol).

(* 0 same, 64 rank / shape, 65 value *)
Definition arr_cmp (tol : Qc) (a b : arrq) : Z :=
  match a, b with
  | A0 x, A0 y => if qclose tol x y then 0 else 65
  | A1 x, A1 y => if negb (Nat.eqb (length x) (length y)) then 64 else if v_close tol x y then 0 else 65
  | A2 x, A2 y =>
      if negb (list_eqb Nat.eqb (map (@length Qc) x) (map (@length Qc) y)) then 64 else if m_close tol x y then 0 else 65
  | A3 x, A3 y =>
      if negb (list_eqb (list_eqb Nat.eqb) (map (map (@length Qc)) x) (map (map (@length Qc)) y)) then 64
      else if t_close tol x y then 0 else 65
  | _, _ => 64
  end.

Fixpoint items_cmp (tol : Qc) (m o : npzq) : Z :=
  match m, o with
  | [], [] => 0
  | (k, a) :: m', (k', b) :: o' =>
      if negb (String.eqb k k') then 63
      else let c := arr_cmp (if String.eqb k "demand" || String.eqb k "demand_linehaul" || String.eqb k "demand_backhaul"
                             then tol else 0%Qc) a b in
           if negb (c =? 0) then c else items_cmp tol m' o'
  | _, _ => 63
  end.

Definition td_cmp (tol : Qc) (m : res (tdict QcF)) (o : option (nat * npzq)) : Z :=
  match m, o with
  | OutOfModel, _ => 9
  | Raises, None => 0
  | Raises, Some _ => 61
  | Ok _, None => 61
  | Ok t, Some (b, items) => if negb (Nat.eqb (td_bs QcF t) b) then 62 else items_cmp tol (td_items QcF t) items
  end.

Record lcase := LC {
  lc_kind : nat;                              (* 0 load_npz_to_tensordict, 1 CVRPEnv.load_data, 2 MTVRP scale=False, 3 MTVRP scale=True *)
  lc_tol : Qc;                                (* float32 division is rounded: tolerance on the re-normalised keys only *)
  lc_file : npzq;                             (* the arrays handed to np.savez, in order *)
  lc_obs : option (nat * npzq)                (* batch size and items of the TensorDict the loader returned; None = it raised *)
}.
Definition check_load (c : lcase) : Z :=
  td_cmp (lc_tol c)
         (match lc_kind c with
          | O => load_npz QcF (lc_file c)
          | S O => cvrp_load QcF (lc_file c)
          | S (S O) => mtvrp_load QcF false (lc_file c)
          | _ => mtvrp_load QcF true (lc_file c)
          end)
         (lc_obs c).

(* ------------------------------------------------------------------------------------------ character layer *)
(* the text of a file as character codes, and what the real file2lines returned for it, word by word
   (None for a word that is not a plain decimal numeral, e.g. the float-looking flexibility word) *)
Definition optz_eqb (a b : option Z) : bool :=
  match a, b with Some x, Some y => x =? y | None, None => true | _, _ => false end.
Definition check_text (c : list nat * list (list (option Z))) : Z :=
  let t := map Ascii.ascii_of_nat (fst c) in
  if list_eqb (list_eqb optz_eqb) (map (map Z_of_str) (lex t)) (snd c) then 0 else 71.

(* ------------------------------------------------------------------------------------------ directories, names, extensions *)
(* 81 get_n_ops_of_instance: raise mismatch   82 operation count differs
   83 file generator: raise mismatch   84 number of instances differs   85 an instance (start/end/proc_times/pad_mask) differs
   86 file name of a written instance differs   87 check_extension differs (or raised) *)
Record ncase := NC { nc_kind : nat; nc_file : list (list tok); nc_obs : option Z }.
Definition pj_of (k : nat) := match k with O => fjsp_parse_job_line | _ => jssp_parse_job_line end.
Definition check_nops (c : ncase) : Z :=
  match n_ops_of (pj_of (nc_kind c)) (nc_file c), nc_obs c with
  | OutOfModel, _ => 9
  | Raises, None => 0
  | Ok n, Some m => if n =? m then 0 else 82
  | _, _ => 81
  end.

Record gcase := GC {
  gc_kind : nat;                              (* 0 FJSPFileGenerator, 1 JSSPFileGenerator *)
  gc_nmax : option Z;                         (* the n_ops_max argument *)
  gc_files : list (list (list tok));          (* the files in the order the generator listed them *)
  gc_obs : option (list rinst)                (* rows of generator.td (num_jobs / num_machines / max_ops_per_job fields: 0) *)
}.
Definition row_cmp (m o : rinst) : bool :=
  zz_eqb (r_start m) (r_start o) && zz_eqb (r_end m) (r_end o) && zzz_eqb (r_pt m) (r_pt o)
  && list_eqb Bool.eqb (r_pad m) (r_pad o).
Definition check_filegen (c : gcase) : Z :=
  match file_generator (pj_of (gc_kind c)) (gc_nmax c) (gc_files c), gc_obs c with
  | OutOfModel, _ => 9
  | Raises, None => 0
  | Ok ms, Some os => if negb (Nat.eqb (length ms) (length os)) then 84
                      else if list_eqb row_cmp ms os then 0 else 85
  | _, _ => 83
  end.

Definition check_name (c : Z * Z * Z * list nat) : Z :=
  let '(id, nj, nm, obs) := c in
  if list_eqb Nat.eqb (map Ascii.nat_of_ascii (file_name id nj nm)) obs then 0 else 86.

Definition check_ext (c : list nat * list nat * option (list nat)) : Z :=
  let '(f, e, obs) := c in
  match obs with
  | None => 87
  | Some o => if list_eqb Nat.eqb (map Ascii.nat_of_ascii (check_extension (map Ascii.ascii_of_nat f) (map Ascii.ascii_of_nat e))) o
              then 0 else 87
  end.
