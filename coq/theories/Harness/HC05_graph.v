(* Correspondence harness of C05 / unit graph (FLPEnv, MCPEnv).

   A case = one tiny instance + EVERY complete sequence the real env admits from reset (exhaustive expansion over
   all True mask entries), each with the implementation's mask before every action and its final reward.
   The check runs the model on every sequence (completeness direction: model mask inside the implementation's
   mask, model done exactly at the end, model reward = implementation reward = objective of the chosen set) and
   compares the whole set of sequences with the feasible solutions enumerated from the problem definition
   (all orderings of all k-subsets; nothing of the env model is used for that enumeration).
   Result codes: 0 agree; otherwise
     1000*j + 1   sequence j: an action of the implementation lies outside the model mask
     1000*j + 2   sequence j: the model mask offers an item the implementation's mask hides
     1000*j + 3   sequence j: model done too early / not done at the end
     1000*j + 4   sequence j: model reward differs from the implementation's
     1000*j + 6   sequence j: implementation reward differs from the objective of its set (problem definition)
     1000*j + 7   sequence j: model step / reward = None
     1000*j + 13  sequence j: malformed record
     20  instance outside the documented format      21 + 1000*j   the j-th feasible ordering enumerated from the
     problem definition is not among the implementation's complete sequences (the mask hides a feasible solution)
     23  best reward reachable through the implementation's mask differs from the brute-force optimum
     24  the implementation admits no complete sequence at all *)
From Coq Require Import ZArith List Bool Lia Arith.
From RL4CO Require Import Env.Selection Env.FLP Env.MCP Env.GraphComplete Harness.HC08.
Import ListNotations.
Open Scope Z_scope.

(* ---------------------------------------------------------------- enumeration from the problem definition *)
Fixpoint kperms (k : nat) (avail : list nat) : list (list nat) :=
  match k with
  | O => [[]]
  | S k' => flat_map (fun a => map (cons a) (kperms k' (filter (fun b => negb (Nat.eqb a b)) avail))) avail
  end.
Fixpoint ksubsets (k : nat) (l : list nat) {struct l} : list (list nat) :=
  match k, l with
  | O, _ => [[]]
  | S _, [] => []
  | S k', x :: r => map (cons x) (ksubsets k' r) ++ ksubsets k r
  end.
Definition maxz (x : Z) (l : list Z) : Z := fold_left Z.max l x.

Definition nl_eq := list_beq Nat.eqb.
(* model mask inside the implementation's mask, same length *)
Definition mask_inside (model impl : list bool) : bool :=
  Nat.eqb (length model) (length impl) &&
  forallb (fun k => negb (nth k model false) || nth k impl false) (seq 0 (length model)).

Definition c05_seq := (list nat * list (list bool) * Z)%type.     (* actions, impl mask before each action, reward *)

Section C05.
  Variables (st : Type) (step : st -> nat -> option st) (mask : st -> list bool) (done : st -> bool)
            (reward : st -> option Z) (objective : list nat -> Z) (tol : Z).

  Fixpoint c05_walk (s : st) (acts : list nat) (masks : list (list bool)) : Z + st :=
    match acts, masks with
    | [], [] => inr s
    | a :: r, m :: mr =>
        if done s then inl 3
        else if negb (mask_inside (mask s) m) then inl 2
        else if negb (nth a (mask s) false) then inl 1
        else match step s a with None => inl 7 | Some s' => c05_walk s' r mr end
    | _, _ => inl 13
    end.

  Definition c05_one (s0 : st) (x : c05_seq) : Z :=
    match x with (acts, masks, rew) =>
      match c05_walk s0 acts masks with
      | inl t => t
      | inr s => if negb (done s) then 3
                 else match reward s with
                      | None => 7
                      | Some r => if negb (Z.abs (rew - r) <=? tol) then 4
                                  else if negb (Z.abs (rew - objective acts) <=? tol) then 6 else 0
                      end
      end
    end.

  Fixpoint c05_first (j : Z) (f : c05_seq -> Z) (l : list c05_seq) : Z :=
    match l with
    | [] => 0
    | x :: r => let t := f x in if t =? 0 then c05_first (j + 1) f r else 1000 * j + t
    end.

  Fixpoint c05_missing (j : Z) (impl : list (list nat)) (spec : list (list nat)) : Z :=
    match spec with
    | [] => 0
    | p :: r => if existsb (nl_eq p) impl then c05_missing (j + 1) impl r else 1000 * j + 21
    end.

  (* n items, quota k *)
  Definition c05_check (s0 : st) (n k : nat) (seqs : list c05_seq) : Z :=
    let t := c05_first 0 (c05_one s0) seqs in
    if negb (t =? 0) then t
    else
      let impl := map (fun x => fst (fst x)) seqs in
      let t2 := c05_missing 0 impl (kperms k (seq 0 n)) in
      if negb (t2 =? 0) then t2
      else match seqs, ksubsets k (seq 0 n) with
           | [], _ => 24
           | _, [] => 24
           | (_, _, r0) :: sr, x0 :: xr =>
               let best := maxz r0 (map snd sr) in
               let opt := maxz (objective x0) (map objective xr) in
               if Z.abs (best - opt) <=? tol then 0 else 23
           end.
End C05.

Definition check_C05_flp (c : flp_inst * Z * list c05_seq) : Z :=
  match c with (ins, tol, seqs) =>
    if negb (flp_wfb ins) || negb (0 <=? f_q ins) then 20
    else c05_check flp_st (flp_step ins) f_mask f_done (flp_reward ins) (flp_objective ins) tol
                   (flp_reset ins) (f_n ins) (Z.to_nat (f_q ins)) seqs
  end.

Definition check_C05_mcp (c : mcp_inst * Z * list c05_seq) : Z :=
  match c with (ins, tol, seqs) =>
    if negb (mcp_wfb ins) || negb (0 <=? m_q ins) then 20
    else c05_check mcp_st (mcp_step ins) m_mask m_done (mcp_reward ins) (mcp_objective ins) tol
                   (mcp_reset ins) (length (m_mem ins)) (Z.to_nat (m_q ins)) seqs
  end.

(* ---------------------------------------------------------------- sanity: the harness accepts a faithful record and
   notices a hidden item, a missing ordering and a wrong optimum *)
Definition hc05_I : flp_inst :=
  {| f_n := 3; f_D := [[0; 5; 9]; [5; 0; 4]; [9; 4; 0]]; f_dist0 := [99; 99; 99]; f_q := 1 |}.
Definition hc05_all : list bool := [true; true; true].
Example check_C05_flp_ex :
  check_C05_flp (hc05_I, 0, [([0%nat], [hc05_all], -14); ([1%nat], [hc05_all], -9); ([2%nat], [hc05_all], -13)]) = 0 /\
  check_C05_flp (hc05_I, 0, [([0%nat], [hc05_all], -14); ([1%nat], [[true; true; false]], -9); ([2%nat], [hc05_all], -13)]) = 1002 /\
  check_C05_flp (hc05_I, 0, [([0%nat], [hc05_all], -14); ([2%nat], [hc05_all], -13)]) = 1021 /\
  check_C05_flp (hc05_I, 0, [([0%nat], [hc05_all], -14); ([1%nat], [hc05_all], -10); ([2%nat], [hc05_all], -13)]) = 1004.
Proof. vm_compute. repeat split; reflexivity. Qed.
Example kperms_ex : kperms 2 [0; 1; 2]%nat = [[0; 1]; [0; 2]; [1; 0]; [1; 2]; [2; 0]; [2; 1]]%nat /\
  ksubsets 2 [0; 1; 2]%nat = [[0; 1]; [0; 2]; [1; 2]]%nat.
Proof. vm_compute. split; reflexivity. Qed.
