(* Harness parts shared by the fixed-length single-tour environments (TSP, ATSP, PDP): their masks are empty once
   the row is done, so a recorded trace is cut at the first done step and C02 on the implementation's observables
   takes the fixed-length form. *)
From Coq Require Import ZArith List Bool Lia Arith.
From RL4CO Require Import Base.Num Base.EnvSig Harness.HEnv.
Import ListNotations.
Open Scope Z_scope.

(* the episode proper: steps up to and including the one after which the row reported done *)
Fixpoint cut_done (tr : list tstep) : list tstep :=
  match tr with
  | [] => []
  | (m, a, d) :: rest => if d then [(m, a, d)] else (m, a, d) :: cut_done rest
  end.

(* codes: 1000*k+8 empty mask before done at step k, 10 more than [bound] steps, 11 not finished and final mask empty *)
Definition c02_fixed (bound : nat) (tr : list tstep) (final_mask : list bool) (complete : bool) : Z :=
  let r := c02_steps 1 false tr in
  if negb (r =? 0) then r
  else if Nat.ltb bound (steps_until_done tr) then 10
  else if negb complete && negb (anyb final_mask) then 11
  else 0.
