(* Correspondence harness for mTSP (C01-C05): the model at float32 rounding ([f32]) and in the configuration the
   code currently has ([cfg_code]) against recorded traces, and the exact specification (Spec/MultiTour.v)
   evaluated on the implementation's own episodes. *)
From Coq Require Import ZArith List Bool Lia Arith.
From RL4CO Require Import Base.Num Base.EnvSig Spec.Routes Spec.MultiTour Env.MTSP Env.MTSPProofs Harness.HEnv Harness.HBook.
Import ListNotations.
Open Scope Z_scope.

(* instance + cost type (true = "sum", false = "minmax") *)
Definition mtsp_hinst := (mtsp_inst * bool)%type.
Definition mk_mtsp (m : Z) (d : list (list Z)) (is_sum : bool) : mtsp_hinst := ({| nag := m; dist := d |}, is_sum).

(* instance, trace, final mask, (impl reward, tolerance), episode complete?, checker accepted? (unused: no checker)
   an impl reward > 0 is the harness' sentinel for "_get_reward raised" (a real reward is never positive) *)
Definition mtsp_case := (mtsp_hinst * list tstep * list bool * (Z * Z) * bool * bool)%type.

Definition c_inst (c : mtsp_case) := match c with (i, _, _, _, _, _) => fst i end.
Definition c_sum (c : mtsp_case) := match c with (i, _, _, _, _, _) => snd i end.
Definition c_trace (c : mtsp_case) := match c with (_, t, _, _, _, _) => t end.
Definition c_final (c : mtsp_case) := match c with (_, _, f, _, _, _) => f end.
Definition c_rew (c : mtsp_case) := match c with (_, _, _, r, _, _) => r end.
Definition c_complete (c : mtsp_case) := match c with (_, _, _, _, b, _) => b end.

Notation M := (MTSP f32 cfg_code).

(* actions up to and including the step at which the row first reported done (the episode proper) *)
Fixpoint episode_actions (tr : list tstep) : list nat :=
  match tr with
  | [] => []
  | (m, a, d) :: rest => if d then [a] else a :: episode_actions rest
  end.

(* 21 = the generated instance is outside the documented format (a harness problem, not a finding) *)
Definition wf_code (c : mtsp_case) : Z := if mtsp_wfb (c_inst c) then 0 else 21.

(* C01: the specification on the implementation's own completed episode FIRST (6 = the independent feasibility
   predicate is false: a replayable failing input whatever the model says), then implementation masks inside model
   masks and done equal *)
Definition check_C01 (c : mtsp_case) : Z :=
  let i := c_inst c in
  if negb (wf_code c =? 0) then wf_code c else
  if c_complete c && negb (mtsp_feasibleb (n_of i) (nag i) (episode_actions (c_trace c))) then 6
  else check_trace (E:=M) i 0 (c_trace c).

(* step bound: n cities, at most min(m-1, n-1) depot returns before the row is finished *)
Definition mtsp_bound (i : mtsp_inst) : nat := (n_of i + Nat.min (Z.to_nat (nag i - 1)) (n_of i - 1))%nat.

(* C02: on the implementation's observables, then mask/done equality with the model *)
Definition check_C02 (c : mtsp_case) : Z :=
  let i := c_inst c in
  if negb (wf_code c =? 0) then wf_code c else
  let r := c02_impl (mtsp_bound i) (c_trace c) (c_final c) in
  if negb (r =? 0) then r
  else if negb (c_complete c) then 12
  else check_trace (E:=M) i 2 (c_trace c).

(* reward of the model on the whole action list (padding included: that is what the code is given) vs the
   implementation's: minmax bit-exact (the model accumulates with float32 rounding), sum within the tolerance *)
Definition model_reward_agrees (c : mtsp_case) : bool :=
  let i := c_inst c in
  let acts := trace_actions (c_trace c) in
  let R := fst (c_rew c) in
  let raised := 0 <? R in
  if c_sum c then
    match mtsp_reward_sum cfg_code i acts with
    | None => raised
    | Some r => negb raised && zabs_le R r (snd (c_rew c))
    end
  else negb raised && (R =? mtsp_reward_minmax (run (E:=M) i acts)).

(* C03: 4 = the reported reward is not the objective (exact arithmetic, from instance data and the episode alone)
   of the executed solution, or no reward is produced at all; 5 = the model's reward differs from the implementation's *)
Definition check_C03 (c : mtsp_case) : Z :=
  let i := c_inst c in
  if negb (c_complete c) then 0 else
  let ep := episode_actions (c_trace c) in
  let R := fst (c_rew c) in
  let obj := if c_sum c then - sum_len (dfun i) ep else - minmax_len (dfun i) ep in
  if 0 <? R then 4
  else if negb (zabs_le R obj (snd (c_rew c))) then 4
  else if negb (model_reward_agrees c) then 5 else 0.

(* C04: masks / done equal to the model along the whole (padded) trace, and the model predicts the implementation's
   reward including whatever the padding did to it *)
Definition check_C04 (c : mtsp_case) : Z :=
  let i := c_inst c in
  let r := check_trace (E:=M) i 2 (c_trace c) in
  if negb (r =? 0) then r
  else if c_complete c && negb (model_reward_agrees c) then 5 else 0.

(* C05: model masks inside implementation masks *)
Definition check_C05 (c : mtsp_case) : Z := check_trace (E:=M) (c_inst c) 1 (c_trace c).

(* ---------------------------------------------------------------- bookkeeping (C02 / C04, see Harness/HBook.v)
   keys of the env's step output compared after every step, in this order:
   i (= number of steps taken), current_node (= the action just taken), first_node (= the first action of the episode: the
   policy's context embedding reads it), agent_idx, current_length, max_subtour_length *)
Definition book_obs (s : mtsp_st) : list Z :=
  [Z.of_nat (cnt s); Z.of_nat (cur s); Z.of_nat (first s); agent s; curlen s; maxsub s].
Definition book_kinds : list nat := [1; 2; 3; 0; 0; 0]%nat.
Definition mtsp_book := (mtsp_hinst * list Z * list Z * list (nat * list Z))%type.
Definition check_book (c : mtsp_book) : Z :=
  match c with (i, tols, o0, tr) => book_check M (fst i) book_obs book_kinds tols o0 tr end.
